/- C03 on the C01 model (Model/Unique.lean): ownership of the unique core.

   A unique core has no counter (`DecRef` = delete); its release is folded into the step that produces the outcome the
   consumer asked for: `Get() &&` returned (`got`), the `Connect` target was fulfilled (`forwarded`), the Drop core ran
   (`dropped`), the continuation was invoked (`delivered`; `Core::Done` releases the caller after the body).
   `Own` says that such a step is the last one that touches the core: the producer has left `SetResultImpl`, and — except
   for a continuation, which only reads the Result of its caller — the result storage has been destroyed / moved out.
   Proved on top of `Inv` (Proofs/Unique.lean) and `Inv2` (Proofs/UniqueConserve.lean); nothing of those is changed. -/
import YaclibModel.Proofs.UniqueInv2

namespace Yaclib.Unique

structure Own (s : State) : Prop where
  got_done : s.got ≠ [] → s.ppc = .done ∧ s.stored = none
  fwd_done : s.forwarded ≠ [] → s.ppc = .done ∧ s.stored = none
  drop_done : s.dropped ≠ [] → s.ppc = .done ∧ s.stored = none

theorem own_init (w : Workload) : Own (init w) := by
  constructor <;> simp [init]

macro "own_auto" : tactic =>
  `(tactic| (constructor <;> (simp only [doXchg, doPInvoke, doPForward, doPEvLock, doAttLoad, doCasOk, doCInvoke, doCForward,
      doCReady, doCGetc, doCWaitDone, doCGot, afterFail, loadOk, cDone, inWait, atFin] at *) <;>
      grind [List.append_ne_nil_of_right_ne_nil]))

theorem own_step {w s l s'} (hi : Inv w s) (ho : Own s) (hs : Step s l s') : Own s' := by
  have hidle := hi.idle_word
  have hattl := hi.c_attl
  have hafter := hi.c_after
  clear hi
  cases ho
  cases hs with
  | pXchg h hw => cases hwd : s.word <;> (try (rename_i k; cases k)) <;> simp only [doXchg, hwd] <;> own_auto
  | pInvoke r h hv hr => own_auto
  | pSubmit h hv => own_auto
  | pInvokeSub r h hr => own_auto
  | pForward r h hr => own_auto
  | pEvLock h hm => own_auto
  | pEvUnlock h => own_auto
  | cAttLoad op rest k x h ht hk hx =>
      by_cases hxe : x = .empty
      · simp only [doAttLoad, hxe, ↓reduceIte]; own_auto
      · cases k <;> cases hop : decide (op = .fin .getMove) <;>
          simp only [doAttLoad, hxe, afterFail, hop, Bool.false_eq_true, ↓reduceIte] <;> own_auto
  | cCasOk k h hw => cases k <;> simp only [doCasOk] <;> own_auto
  | cCasFail k h hw => cases k <;> simp only [afterFail] <;> (try split) <;> own_auto
  | cInvoke r h hv hr => own_auto
  | cSubmit h hv => own_auto
  | cInvokeSub r h hr => own_auto
  | cForward r h hr => own_auto
  | cReadyLoad rest x h ht hx => own_auto
  | cReady b h => own_auto
  | cGetcLoad rest x h ht hx => own_auto
  | cGetc b h => own_auto
  | cWaitLock h hm => own_auto
  | cWaitSleep h => own_auto
  | cWaitDone h => simp only [doCWaitDone]; split <;> own_auto
  | cGot r h hr => own_auto

theorem own_reachable {w s} (h : Reachable w s) : Own s := by
  induction h with
  | init => exact own_init w
  | step hr hs ih => exact own_step (inv_reachable hr) ih hs

/-- the outcome the consumer asked for has happened: the core has been released -/
theorem released_facts {w s} (h : Reachable w s) (h1 : outcomeCount w s = 1) :
    s.ppc = .done ∧ s.cpc = .idle ∧ s.todo = [] ∧ ((∀ b, w.fin ≠ .attach b) → s.stored = none) := by
  have hi := inv_reachable h
  have h2 := inv2_reachable h
  have ho := own_reachable h
  have hne : ∀ {α} (l : List α), l.length = 1 → l ≠ [] := by
    intro α l hl hn; rw [hn] at hl; cases hl
  have hcons := h2.conserve
  have htodo : s.todo = [] := by
    by_cases ht : s.todo = []
    · exact ht
    · simp only [ht, ↓reduceIte] at hcons; omega
  have hcpc : s.cpc = .idle := by
    apply Classical.byContradiction
    intro hc
    exact hi.busy_todo hc htodo
  have key : s.ppc = .done ∧ ((∀ b, w.fin ≠ .attach b) → s.stored = none) := by
    unfold outcomeCount at h1
    cases hf : w.fin with
    | attach b =>
        rw [hf] at h1
        simp only at h1
        rcases hi.delivered_one with h0 | h0
        · rw [h0] at h1; cases h1
        · exact ⟨h0.2.2, fun hb => absurd rfl (hb b)⟩
    | drop => rw [hf] at h1; exact ⟨(ho.drop_done (hne _ h1)).1, fun _ => (ho.drop_done (hne _ h1)).2⟩
    | getMove => rw [hf] at h1; exact ⟨(ho.got_done (hne _ h1)).1, fun _ => (ho.got_done (hne _ h1)).2⟩
    | connect => rw [hf] at h1; exact ⟨(ho.fwd_done (hne _ h1)).1, fun _ => (ho.fwd_done (hne _ h1)).2⟩
  exact ⟨key.1, hcpc, htodo, key.2⟩

/-- after the release no step of either thread is enabled: nothing touches the word, the storage or the event any more -/
theorem no_step_after_release {w s} (h : Reachable w s) (h1 : outcomeCount w s = 1) : ∀ l s', ¬ Step s l s' := by
  obtain ⟨hp, hc, ht, _⟩ := released_facts h h1
  intro l s' hs
  cases hs <;> simp_all

/-- any entry in one of the outcome histories is the outcome the consumer asked for, and it happened exactly once -/
theorem outcome_of_history {w s} (h : Reachable w s)
    (hne : s.delivered ≠ [] ∨ s.got ≠ [] ∨ s.forwarded ≠ [] ∨ s.dropped ≠ []) : outcomeCount w s = 1 := by
  have h2 := inv2_reachable h
  have hle : outcomeCount w s ≤ 1 := by have := h2.conserve; omega
  have hpos : ∀ {α} (l : List α), l ≠ [] → 0 < l.length := fun l hl => List.length_pos_iff.mpr hl
  unfold outcomeCount at hle ⊢
  rcases hne with hne | hne | hne | hne
  · cases hf : w.fin with
    | attach b => rw [hf] at hle; have := hpos _ hne; simp only at hle ⊢; omega
    | _ => exact absurd (h2.only_deliver (by rw [hf]; simp)) hne
  · cases hf : w.fin with
    | getMove => rw [hf] at hle; have := hpos _ hne; simp only at hle ⊢; omega
    | _ => exact absurd (h2.only_got (by rw [hf]; simp)) hne
  · cases hf : w.fin with
    | connect => rw [hf] at hle; have := hpos _ hne; simp only at hle ⊢; omega
    | _ => exact absurd (h2.only_fwd (by rw [hf]; simp)) hne
  · cases hf : w.fin with
    | drop => rw [hf] at hle; have := hpos _ hne; simp only at hle ⊢; omega
    | _ => exact absurd (h2.only_drop (by rw [hf]; simp)) hne

/-- a step changes the result storage only by constructing it (it was `none`) or as part of an outcome step -/
theorem stored_change {w s l s'} (hi : Inv w s) (hs : Step s l s') :
    s'.stored = s.stored ∨ s.stored = none ∨ s'.got ≠ [] ∨ s'.forwarded ≠ [] ∨ s'.dropped ≠ [] := by
  cases hs with
  | pXchg h hw =>
      right; left
      cases hst : s.stored with
      | none => rfl
      | some r => exact absurd (hi.stored_val r hst).2 hw
  | cAttLoad op rest k x h ht hk hx =>
      by_cases hxe : x = .empty
      · simp [doAttLoad, hxe]
      · cases k <;> simp [doAttLoad, hxe, afterFail] <;> split <;> simp
  | cCasOk k h hw => cases k <;> simp [doCasOk]
  | cCasFail k h hw => cases k <;> simp [afterFail] <;> split <;> simp
  | cWaitDone h => simp only [doCWaitDone]; split <;> simp
  | _ => simp [doPInvoke, doPForward, doPEvLock, doCInvoke, doCForward, doCReady, doCGetc, doCGot]

end Yaclib.Unique
