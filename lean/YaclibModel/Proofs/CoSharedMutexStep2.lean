import YaclibModel.Proofs.CoSharedMutex
namespace Yaclib.CoSharedMutex

set_option maxHeartbeats 4000000 in
theorem inv_step_2 {cfg s l s'} (hi : Inv cfg s) (hs : Step s l s') (hg : grpOf l = 2) : Inv cfg s' := by
  cases hs with
  | enterR c h =>
      cases hi
      sm_auto [List.count_le_length]
  | enterW c h =>
      cases hi
      sm_auto [List.count_le_length]
  | exitR c h =>
      cases hi
      sm_auto [List.count_le_length]
  | exitW c h =>
      cases hi
      sm_auto [List.count_le_length]
  | _ => simp [grpOf] at hg

end Yaclib.CoSharedMutex
