import YaclibModel.Proofs.UniqueConserve
namespace Yaclib.Unique

set_option maxHeartbeats 4000000 in
theorem inv2_step_4 {w s l s'} (hi : Inv w s) (h2 : Inv2 w s) (hs : Step s l s') (hg : grpOf l = 4) : Inv2 w s' := by
  cases hi
  cases h2
  cases hs with
  | cCasFail k h hw =>
      cases k <;> cases hwf : s.waitFin <;>
        simp only [afterFail, hwf, Bool.false_eq_true, ↓reduceIte] <;> inv2_auto
  | _ => simp [grpOf] at hg

end Yaclib.Unique
