/- Accounting of resumption and the client-level accounting invariant. -/
import YaclibModel.Proofs.PipelineAcct3
import YaclibModel.Proofs.PipelineRun

namespace Yaclib.Pipeline
open Yaclib.Extracted

theorem unwind_acct (cfg : Cfg) : ∀ (fs : List Frame) (o : Out) (c f : Nat), wfFrames fs = true →
    AcctOut (c + coresFrames fs) (f + funsFrames fs) [] o → AcctOut c f [] (unwind cfg fs o)
  | [], o, c, f, _, h => by
    cases o <;> simpa [unwind, coresFrames, funsFrames] using h
  | f0 :: fs, .done r inh c' g, c, f, hw, h => by
    simp only [wfFrames, Bool.and_eq_true] at hw
    simp only [unwind]
    apply unwind_acct cfg fs _ c f hw.2
    apply runSteps_acct cfg f0.rest false true c' r f0.own _ _ _ hw.1 (by intro h; cases h)
    simp only [AcctOut, Bal, coresFrames, funsFrames, List.length_nil] at h
    simp only [Bal, cnt_asyncDoneAcct]
    simp at h ⊢
    omega
  | f0 :: fs, .parked t g, c, f, hw, h => by
    simp only [AcctOut, Bal] at h
    obtain ⟨⟨h1, h2⟩, h3⟩ := h
    simp only [wfThread, Bool.and_eq_true] at h3
    simp only [unwind, AcctOut, Bal, coresT, funsT, coresFrames_append, funsFrames_append, wfThread, wfFrames_append]
    refine ⟨?_, by simp [h3.1.1, h3.1.2, h3.2, hw]⟩
    simp only [coresT, funsT] at h1 h2
    omega
  | f0 :: fs, .crash g, c, f, _, _ => by simp [unwind, AcctOut]

theorem fire_acct (cfg : Cfg) (t : Thread) (ctx : Option Nat) (g : G) (c f : Nat)
    (hw : wfWait t.wait = true) (hr : wfSteps t.rest = true)
    (hb : Bal g (c + coresWait t.wait + t.rest.length) (f + funsWait t.wait + t.rest.length)) :
    AcctOut c f t.rest (fire cfg t ctx g) := by
  unfold fire
  cases hwt : t.wait with
  | promise p fl =>
    rw [hwt] at hb
    simpa [AcctOut, coresWait, funsWait] using hb
  | job jid k jk =>
    rw [hwt] at hb hw
    cases jk with
    | step s input hd =>
      simp only [wfWait] at hw
      simp only []
      apply callStep_acct cfg s t.rest hd false (some k) (some t.inh) input t.inh _ c f hw hr
      simp only [Bal, cnt_finishJob]
      simp only [Bal, coresWait, funsWait] at hb
      cases hd <;> simp at hb ⊢ <;> omega
    | readyHead r =>
      simp only [AcctOut, Bal, cnt_finishJob]
      simpa [Bal, coresWait, funsWait] using hb
    | promiseHead p fl =>
      simp only [AcctOut, Bal, cnt_freeFunctor, cnt_finishJob, coresT, funsT, coresWait, funsWait, coresFrames, funsFrames,
        wfThread, wfWait, wfFrames, hr]
      simp only [Bal, coresWait, funsWait] at hb
      refine ⟨?_, by simp⟩
      simp at hb ⊢
      omega

theorem resume_acct (cfg : Cfg) (t : Thread) (ctx : Option Nat) (g : G) (c f : Nat) (hw : wfThread t = true)
    (hb : Bal g (c + coresT t) (f + funsT t)) : AcctOut c f [] (resume cfg t ctx g) := by
  simp only [wfThread, Bool.and_eq_true] at hw
  obtain ⟨⟨h1, h2⟩, h3⟩ := hw
  have hf := fire_acct cfg t ctx g (c + coresFrames t.outer) (f + funsFrames t.outer) h1 h2
    (by simp only [Bal, coresT, funsT] at hb ⊢; omega)
  unfold resume
  apply unwind_acct cfg t.outer _ c f h3
  cases ho : fire cfg t ctx g with
  | done r inh c' g' =>
    rw [ho] at hf
    simp only [AcctOut] at hf
    simp only []
    exact runSteps_acct cfg t.rest false true c' r inh g' _ _ h2 (by intro h; cases h) (by simpa using hf)
  | parked t' g' => rw [ho] at hf; exact hf
  | crash g' => simp [AcctOut]

/-! ### the client-level accounting invariant -/

/-- what the whole state owns: the handle the client holds (if any) keeps exactly the last core alive -/
def AInv (st : State) (p : Prog) (h : Handle) : Prop :=
  st.crashed = true ∨
  match st.ctl with
  | .idle => False
  | .task src steps =>
    h = .task ∧ p.steps = steps ∧ st.held = true ∧ ((src == Src.unit) = true → steps ≠ []) ∧
    Bal st.g (srcCores src + steps.length) (srcFunctors src + steps.length)
  | .future _ _ => h = .fut ∧ st.held = true ∧ Bal st.g 1 0
  | .pending t =>
    ((h = .fut ∧ st.held = true) ∨ (h = .none ∧ st.held = false)) ∧ Bal st.g (coresT t) (funsT t) ∧ wfThread t = true
  | .gone => h = .none ∧ Bal st.g 0 0

theorem ainv_settle (st0 : State) (o : Out) (p' : Prog) (h' : Handle)
    (hh : (h' = .fut ∧ st0.held = true) ∨ (h' = .none ∧ st0.held = false))
    (ho : AcctOut 0 0 [] o) : AInv (settle st0 o) p' h' := by
  cases o with
  | done r inh c g =>
    simp only [AcctOut, Bal, List.length_nil] at ho
    cases hh with
    | inl hh =>
      by_cases hc : st0.crashed = true
      · exact Or.inl (by simp [settle, hh.2, hc])
      · exact Or.inr (by simp [settle, hh.2, hh.1, Bal]; omega)
    | inr hh =>
      by_cases hc : st0.crashed = true
      · exact Or.inl (by simp [settle, hh.2, hc])
      · exact Or.inr (by simp [settle, hh.2, hh.1, Bal]; omega)
  | parked t g =>
    simp only [AcctOut] at ho
    by_cases hc : st0.crashed = true
    · exact Or.inl (by simp [settle, hc])
    · exact Or.inr (by simpa [settle, hh] using ho)
  | crash g => exact Or.inl (by simp [settle])

end Yaclib.Pipeline
