/- C08: the invariants hold in every reachable state -/
import YaclibModel.Proofs.PoolA0
import YaclibModel.Proofs.PoolA1
import YaclibModel.Proofs.PoolA2
import YaclibModel.Proofs.PoolA3
import YaclibModel.Proofs.PoolB0
import YaclibModel.Proofs.PoolB1
import YaclibModel.Proofs.PoolB2
import YaclibModel.Proofs.PoolB3
import YaclibModel.Proofs.PoolC0
import YaclibModel.Proofs.PoolC1
import YaclibModel.Proofs.PoolC2
import YaclibModel.Proofs.PoolC3
import YaclibModel.Proofs.PoolF
namespace Yaclib.Pool

theorem invB_init (w : Workload) : InvB w (init w) := by
  have hc : ∀ j, List.countP (WPc.isCalling j) (List.replicate w.workers WPc.start) = 0 := by
    intro j; apply List.countP_eq_zero.mpr; intro a ha; rw [List.eq_of_mem_replicate ha]; simp [WPc.isCalling]
  have hget : ∀ (i : Nat) (sb : Sub), (w.subs.map fun n => ({ pc := .idle, k := 0, total := n } : Sub))[i]? = some sb →
      w.subs[i]? = some sb.total ∧ sb.k = 0 ∧ sb.pc = .idle := by
    intro i sb h
    rw [List.getElem?_map] at h
    cases hn : w.subs[i]? with
    | none => rw [hn] at h; simp at h
    | some n => rw [hn] at h; simp at h; subst h; simp
  have hfl : ∀ j, inFlight (init w) j = 0 := by
    intro j
    simp only [inFlight, init]
    split
    · rename_i sb hsb
      have := (hget _ _ hsb).2.2
      simp [this]
    · rfl
  constructor
  · simp [init]
  · intro i sb h
    have := hget i sb h
    refine ⟨this.1, by omega, ?_⟩
    intro hne; exact absurd this.2.2 hne
  · simp [init]
  · simp [init]
  · intro j hj; simp [init] at hj
  · intro i sb h
    have := hget i sb h
    refine ⟨?_, ?_⟩
    · intro k hk; omega
    · intro hne; exact absurd this.2.2 hne
  · intro j; rw [hfl j]; simp [init]
  · intro j; simp only [init]; rw [hc j]; simp
  · intro _ _; simp [init]
  · intro l h; simp only [init] at h; cases hw : w.stop <;> simp [hw] at h
  · intro _; simp [init]

theorem invC_init (w : Workload) : InvC w (init w) := by
  constructor
  · intro h; simp [init, Bits.initCount_eq] at h
  · intro h; simp [init] at h

theorem invA_step {w s l s'} (hi : InvA w s) (hs : Step s l s') : InvA w s' := by
  rcases grpOf_lt l with h | h | h | h
  · exact invA_step_0 hi hs h
  · exact invA_step_1 hi hs h
  · exact invA_step_2 hi hs h
  · exact invA_step_3 hi hs h

theorem invB_step {w s l s'} (ha : InvA w s) (hi : InvB w s) (hs : Step s l s') : InvB w s' := by
  rcases grpOf_lt l with h | h | h | h
  · exact invB_step_0 ha hi hs h
  · exact invB_step_1 ha hi hs h
  · exact invB_step_2 ha hi hs h
  · exact invB_step_3 ha hi hs h

theorem invC_step {w s l s'} (ha : InvA w s) (hi : InvC w s) (hs : Step s l s') : InvC w s' := by
  rcases grpOf_lt l with h | h | h | h
  · exact invC_step_0 ha hi hs h
  · exact invC_step_1 ha hi hs h
  · exact invC_step_2 ha hi hs h
  · exact invC_step_3 ha hi hs h

theorem invA_reachable {w s} (h : Reachable w s) : InvA w s := by
  induction h with
  | init => exact invA_init w
  | step _ hs ih => exact invA_step ih hs

theorem invB_reachable {w s} (h : Reachable w s) : InvB w s := by
  induction h with
  | init => exact invB_init w
  | step hr hs ih => exact invB_step (invA_reachable hr) ih hs

theorem invC_reachable {w s} (h : Reachable w s) : InvC w s := by
  induction h with
  | init => exact invC_init w
  | step hr hs ih => exact invC_step (invA_reachable hr) ih hs

theorem invF_reachable {w s} (h : Reachable w s) : InvF s := by
  induction h with
  | init => exact invF_init w
  | step _ hs ih => exact invF_step ih hs

end Yaclib.Pool
