import YaclibModel.Proofs.FiberSyncSharedFixed
namespace Yaclib.FiberSync.Sm
open Yaclib.FiberSync

set_option maxHeartbeats 4000000 in
theorem invF_step_5 {k s l s'} (hi : InvF k s) (hs : Step s l s') (hg : grpF l = 5) : InvF k s' := by
  cases hs with
  | tsFast f hk h hx => cases hi; smf_auto
  | tsPark f t d j hk h hx ht => cases hi; smf_auto
  | tsRecheckAcq f req hk h hx => cases hi; smf_auto
  | tsRepark f req j hk h hx => cases hi; smf_auto
  | tsTimeout f t req dl hk h hd ht => cases hi; smf_auto
  | sleepStart f t d h ht => cases hi; smf_auto
  | sleepWake f t dl h hd ht => cases hi; smf_auto
  | finish f h => cases hi; smf_auto
  | tsWokenAcq f hk h => have := hi.no_old f; rw [h] at this; simp [Pc.oldWoken] at this
  | _ => simp [grpF] at hg

end Yaclib.FiberSync.Sm
