/- Invariant of the free-job model (Model/FreeJob.lean), used by Props/C05.lean. -/
import YaclibModel.Model.FreeJob

namespace Yaclib.FreeJob
open Yaclib.Pipeline

/-- where the functors are: queued ones by number -/
def FState.queued (s : FState) : List Nat := s.queue.map (·.id)

structure FInv (s : FState) : Prop where
  place : ∀ id, s.submitted.count id = s.called.count id + s.dropped.count id + s.queued.count id
  del : s.news = s.deletes + s.queue.length
  fin : s.deletes = s.called.length + s.dropped.length
  dropRef : s.dropped = s.refused
  inv : s.g.invoked = s.called

theorem finv_init : FInv {} := ⟨fun _ => rfl, rfl, rfl, rfl, rfl⟩

/-- the executor answers a Submit with Drop exactly when it refuses work -/
theorem submit_drops_iff (cfg : Cfg) (e : Exec) (ctx : Option Nat) (g : G) :
    (∃ c g', submit cfg e ctx g = .dropNow c g') ↔ refuses cfg e g.subs = true := by
  cases e with
  | inl => simp [submit, refuses]
  | stp => simp [submit, refuses]
  | user k =>
    simp only [submit, refuses]
    by_cases h : rejects cfg g.subs k = true
    · simp [h]
    · simp only [h]
      by_cases hq : (cfg k).queue = true <;> simp [hq]

theorem submit_callNow_invoked (cfg : Cfg) (e : Exec) (ctx : Option Nat) (g : G) (c : Option Nat) (g' : G)
    (h : submit cfg e ctx g = .callNow c g') : g'.invoked = g.invoked := by
  cases e with
  | inl => simp [submit] at h; rw [← h.2]
  | stp => simp [submit] at h
  | user k =>
    simp only [submit] at h
    by_cases hr : rejects cfg g.subs k = true
    · simp [hr] at h
    · by_cases hq : (cfg k).queue = true
      · simp [hr, hq] at h
      · simp [hr, hq] at h; rw [← h.2]; rfl

theorem submit_dropNow_invoked (cfg : Cfg) (e : Exec) (ctx : Option Nat) (g : G) (c : Option Nat) (g' : G)
    (h : submit cfg e ctx g = .dropNow c g') : g'.invoked = g.invoked := by
  cases e with
  | inl => simp [submit] at h
  | stp => simp [submit] at h; rw [← h.2]
  | user k =>
    simp only [submit] at h
    by_cases hr : rejects cfg g.subs k = true
    · simp [hr] at h; rw [← h.2]; rfl
    · by_cases hq : (cfg k).queue = true <;> simp [hr, hq] at h

theorem submit_queued_invoked (cfg : Cfg) (e : Exec) (ctx : Option Nat) (g : G) (jid k : Nat) (g' : G)
    (h : submit cfg e ctx g = .queued jid k g') : g'.invoked = g.invoked := by
  cases e with
  | inl => simp [submit] at h
  | stp => simp [submit] at h
  | user k' =>
    simp only [submit] at h
    by_cases hr : rejects cfg g.subs k' = true
    · simp [hr] at h
    · by_cases hq : (cfg k').queue = true
      · simp [hr, hq] at h; rw [← h.2.2]
      · simp [hr, hq] at h

theorem finv_submitId (cfg : Cfg) (s : FState) (e : Exec) (id : Nat) (h : FInv s) : FInv (submitId cfg s e id) := by
  have hd := submit_drops_iff cfg e none s.g
  simp only [submitId]
  cases hs : submit cfg e none s.g with
  | callNow c g' =>
    have hnr : refuses cfg e s.g.subs = false := by
      cases hr : refuses cfg e s.g.subs with
      | false => rfl
      | true => obtain ⟨c', g'', h'⟩ := hd.2 hr; rw [hs] at h'; cases h'
    have hi := submit_callNow_invoked cfg e none s.g c g' hs
    refine ⟨fun i => ?_, ?_, ?_, ?_, ?_⟩
    · have := h.place i
      simp only [FState.queued, List.count_append, List.count_singleton] at this ⊢
      omega
    · have := h.del; simp only at this ⊢; omega
    · have := h.fin; simp only [List.length_append, List.length_singleton] at this ⊢; omega
    · simp [hnr, h.dropRef]
    · simp [G.invoke, hi, h.inv]
  | dropNow c g' =>
    have hr : refuses cfg e s.g.subs = true := hd.1 ⟨c, g', hs⟩
    have hi := submit_dropNow_invoked cfg e none s.g c g' hs
    refine ⟨fun i => ?_, ?_, ?_, ?_, ?_⟩
    · have := h.place i
      simp only [FState.queued, List.count_append, List.count_singleton] at this ⊢
      omega
    · have := h.del; simp only at this ⊢; omega
    · have := h.fin; simp only [List.length_append, List.length_singleton] at this ⊢; omega
    · simp [hr, h.dropRef]
    · simp [hi, h.inv]
  | queued jid k g' =>
    have hnr : refuses cfg e s.g.subs = false := by
      cases hr : refuses cfg e s.g.subs with
      | false => rfl
      | true => obtain ⟨c', g'', h'⟩ := hd.2 hr; rw [hs] at h'; cases h'
    have hi := submit_queued_invoked cfg e none s.g jid k g' hs
    refine ⟨fun i => ?_, ?_, ?_, ?_, ?_⟩
    · have := h.place i
      simp only [FState.queued, List.count_append, List.count_singleton, List.map_append, List.map_cons, List.map_nil] at this ⊢
      omega
    · have := h.del; simp only [List.length_append, List.length_singleton] at this ⊢; omega
    · have := h.fin; simp only at this ⊢; omega
    · simp [hnr, h.dropRef]
    · simp [hi, h.inv]

theorem finv_step (cfg : Cfg) (s : FState) (ev : FEvent) (h : FInv s) : FInv (fmech cfg s ev) := by
  cases ev with
  | submit e id o => exact finv_submitId cfg s e id h
  | mk n tag o => exact ⟨h.place, h.del, h.fin, h.dropRef, h.inv⟩
  | submitL e n =>
    simp only [fmech]
    cases s.fns.lookup n with
    | none => exact h
    | some tag => exact finv_submitId cfg s e tag h
  | change n tag => exact ⟨h.place, h.del, h.fin, h.dropRef, h.inv⟩
  | kill n => exact ⟨h.place, h.del, h.fin, h.dropRef, h.inv⟩
  | call k =>
    simp only [fmech]
    cases hf : s.queue.find? (fun j => j.k == k) with
    | none => exact h
    | some j =>
      have hmem : j ∈ s.queue := List.mem_of_find?_eq_some hf
      have hperm : s.queue.Perm (j :: s.queue.erase j) := List.perm_cons_erase hmem
      refine ⟨fun i => ?_, ?_, ?_, ?_, ?_⟩
      · have := h.place i
        have hc : (s.queue.map (·.id)).count i = ((j :: s.queue.erase j).map (·.id)).count i :=
          (hperm.map _).count_eq i
        simp only [FState.queued, List.count_append, List.map_cons, List.count_cons, List.count_nil] at this hc ⊢
        omega
      · have := h.del
        have hl : s.queue.length = (s.queue.erase j).length + 1 := by
          have := hperm.length_eq; simpa using this
        simp only at this ⊢; omega
      · have := h.fin; simp only [List.length_append, List.length_singleton] at this ⊢; omega
      · exact h.dropRef
      · simp [G.invoke, G.finishJob, h.inv]

theorem finv_run (cfg : Cfg) (evs : List FEvent) : ∀ (s : FState), FInv s → FInv (frun cfg s evs) := by
  induction evs with
  | nil => intro s h; exact h
  | cons ev evs ih => intro s h; exact ih _ (finv_step cfg s ev h)

/-- a queued job can always be run: the queue shrinks -/
theorem call_front_shrinks (cfg : Cfg) (s : FState) (j : QJob) (rest : List QJob) (hq : s.queue = j :: rest) :
    (fmech cfg s (.call j.k)).queue.length < s.queue.length := by
  simp only [fmech, hq]
  have : (j :: rest).find? (fun x => x.k == j.k) = some j := by simp
  rw [this]
  simp

end Yaclib.FreeJob
