import YaclibModel.Proofs.CoSharedMutex
namespace Yaclib.CoSharedMutex

set_option maxHeartbeats 4000000 in
theorem inv_enterR {cfg : Cfg} {s : State} (hi : Inv cfg s) (c : Cid) (h : s.pc c = .racq) :
    Inv cfg ((doEnter s c .rcs)) := by
  cases hi
  sm_auto [List.count_le_length]

end Yaclib.CoSharedMutex
