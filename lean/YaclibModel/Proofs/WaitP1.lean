/- C11 invariant: preservation by the producers' steps inside `Set` and by the continuation invocation -/
import YaclibModel.Proofs.WaitAuto

namespace Yaclib.Wait
variable {w : Workload} {s : State}

set_option maxHeartbeats 1000000 in
theorem inv_pLock (hi : Inv w s) (i : Nat) (h : (s.fut i).ppc = .setting) (hm : s.holder = none) :
    Inv w (doPLock s i) := by
  have hal := hi.alive_of_setting h
  have hc : ∀ a m, cntG (upd s.fut i { s.fut i with ppc := .locked }) a m = cntG s.fut a m := fun a m => cntG_upd_g rfl
  constructor <;> (try simp only [doPLock, Ninn, Ntaken, Ndecd, Nback, hc])
  inv_solve_at hi i

set_option maxHeartbeats 1000000 in
theorem inv_pUnlock (hi : Inv w s) (i : Nat) (h : (s.fut i).ppc = .locked) : Inv w (doPUnlock s i) := by
  have hal := hi.alive_of_locked h
  have hc : ∀ a m, cntG (upd s.fut i { s.fut i with ppc := .done }) a m = cntG s.fut a m := fun a m => cntG_upd_g rfl
  constructor <;> (try simp only [doPUnlock, Ninn, Ntaken, Ndecd, Nback, hc])
  inv_solve_at hi i

set_option maxHeartbeats 1000000 in
theorem inv_pInvoke (hi : Inv w s) (i : Nat) (h : (s.fut i).ppc = .fire) : Inv w (doPInvoke s i) := by
  have hc : ∀ a m, cntG (upd s.fut i { s.fut i with ppc := .done, ndel := (s.fut i).ndel + 1 }) a m = cntG s.fut a m :=
    fun a m => cntG_upd_g rfl
  have hfi : i < s.fi := by
    by_cases hlt : i < s.fi
    · exact hlt
    · exact absurd h (hi.todo i (by omega)).2.2
  constructor <;> (try simp only [doPInvoke, Ninn, Ntaken, Ndecd, Nback, hc])
  inv_solve_at hi i

end Yaclib.Wait
