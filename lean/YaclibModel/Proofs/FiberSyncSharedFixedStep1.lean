import YaclibModel.Proofs.FiberSyncSharedFixed
namespace Yaclib.FiberSync.Sm
open Yaclib.FiberSync

set_option maxHeartbeats 4000000 in
theorem invF_step_1 {k s l s'} (hi : InvF k s) (hs : Step s l s') (hg : grpF l = 1) : InvF k s' := by
  cases hs with
  | sFast f h hx => cases hi; smf_auto
  | sParkF f hfx h hx => cases hi; smf_auto
  | sRecheckAcq f h hx => cases hi; smf_auto
  | sRepark f h hx => cases hi; smf_auto
  | trySOk f h hx => cases hi; smf_auto
  | trySFail f h hx => cases hi; smf_auto
  | sWokenAcq f h => have := hi.no_old f; rw [h] at this; simp [Pc.oldWoken] at this
  | sPark f hfx h hx => have h1 := hi.hfx; rw [hfx] at h1; cases h1
  | _ => simp [grpF] at hg

end Yaclib.FiberSync.Sm
