import YaclibModel.Proofs.CoSharedMutex
namespace Yaclib.CoSharedMutex

set_option maxHeartbeats 4000000 in
theorem inv_rwStore {cfg : Cfg} {s : State} (hi : Inv cfg s) (c : Cid) (sw : Nat) (h : s.pc c = .uStore sw) (hs : s.spin = .held c) :
    Inv cfg ((doRwStore s c sw)) := by
  cases hi
  sm_auto [List.count_le_length]

end Yaclib.CoSharedMutex
