/- Invariant of the C11 model (Model/Wait.lean): the accounting of DESIGN.md §3 C11.

   With  N_x = number of futures whose ghost phase is x  (inn: pointer in the word, taken: producer holds the pointer and
   has not decremented, decd: has decremented, back: reset by the waiter):
     wait_count = N_inn + N_taken + N_decd + N_back,   reset_count = N_back,
     counter = (count + 1) − [first SubEqual done: count − wait_count + 1] − N_decd − [second SubEqual done: reset_count],
   and on every return path N_inn = N_taken = 0 and no producer is inside `Set`. -/
import YaclibModel.Model.Wait

namespace Yaclib.Wait

/-- number of futures `i < m` in ghost phase `a` -/
def cntG (f : Nat → Fut) (a : G) : Nat → Nat
  | 0 => 0
  | m + 1 => cntG f a m + (if (f m).g = a then 1 else 0)

theorem upd_same (f : Nat → Fut) (i : Nat) (x : Fut) : upd f i x i = x := by simp [upd]
theorem upd_other (f : Nat → Fut) (i j : Nat) (x : Fut) (h : j ≠ i) : upd f i x j = f j := by simp [upd, h]

theorem cntG_upd_ge {f : Nat → Fut} {i : Nat} {x : Fut} {a : G} {m : Nat} (h : m ≤ i) :
    cntG (upd f i x) a m = cntG f a m := by
  induction m with
  | zero => rfl
  | succ m ih =>
      have hm : m ≠ i := by omega
      simp [cntG, ih (by omega), upd_other f i m x hm]

theorem cntG_upd_lt {f : Nat → Fut} {i : Nat} {x : Fut} {a : G} {m : Nat} (h : i < m) :
    cntG (upd f i x) a m + (if (f i).g = a then 1 else 0) = cntG f a m + (if x.g = a then 1 else 0) := by
  induction m with
  | zero => omega
  | succ m ih =>
      by_cases hm : m = i
      · subst hm
        simp only [cntG, upd_same, cntG_upd_ge (Nat.le_refl _)]
        omega
      · have := ih (by omega)
        simp only [cntG, upd_other f i m x hm]
        omega

theorem cntG_upd_g {f : Nat → Fut} {i : Nat} {x : Fut} {a : G} {m : Nat} (hg : x.g = (f i).g) :
    cntG (upd f i x) a m = cntG f a m := by
  by_cases h : i < m
  · have := cntG_upd_lt (f := f) (x := x) (a := a) h
    rw [hg] at this; omega
  · exact cntG_upd_ge (by omega)

theorem cntG_clear {f : Nat → Fut} {a : G} {m : Nat} (h : a ≠ .out) :
    cntG (fun j => { f j with g := .out }) a m = 0 := by
  induction m with
  | zero => rfl
  | succ m ih => simp [cntG, ih]; exact fun h' => h h'.symm

theorem cntG_pos {f : Nat → Fut} {a : G} {m i : Nat} (h : i < m) (hg : (f i).g = a) : 1 ≤ cntG f a m := by
  induction m with
  | zero => omega
  | succ m ih =>
      by_cases hm : i = m
      · subst hm; simp [cntG, hg]
      · have := ih (by omega); simp only [cntG]; omega

theorem cntG_zero_of {f : Nat → Fut} {a : G} {m : Nat} (h : ∀ i, i < m → (f i).g ≠ a) : cntG f a m = 0 := by
  induction m with
  | zero => rfl
  | succ m ih => simp [cntG, ih (fun i hi => h i (by omega)), h m (by omega)]

theorem cntG_zero {f : Nat → Fut} {a : G} {m i : Nat} (h0 : cntG f a m = 0) (h : i < m) : (f i).g ≠ a := by
  intro hg; have := cntG_pos h hg; omega

/-! phases of the waiter -/

/-- the event exists (from its construction to the step after which the waiter does not touch it any more) -/
def WPc.inCall : WPc → Bool
  | .reg _ | .regCas _ | .sub1 | .lock1 | .held _ | .asleep _ | .timedOut | .rst _ | .rstCas _ _ | .sub2 | .unlockRet _ => true
  | _ => false

/-- the waiter holds the event's mutex -/
def WPc.holds : WPc → Bool
  | .held _ | .rst _ | .rstCas _ _ | .sub2 | .unlockRet _ => true
  | _ => false

/-- registration is over -/
def WPc.postReg : WPc → Bool
  | .sub1 | .lock1 | .held _ | .asleep _ | .timedOut | .rst _ | .rstCas _ _ | .sub2 | .unlockRet _ => true
  | _ => false

/-- before the first `SubEqual` -/
def WPc.early : WPc → Bool
  | .reg _ | .regCas _ | .sub1 => true
  | _ => false

/-- before a timeout can have happened -/
def WPc.preTimeout : WPc → Bool
  | .reg _ | .regCas _ | .sub1 | .lock1 | .held false | .asleep false => true
  | _ => false

/-- only in timed calls -/
def WPc.timedOnly : WPc → Bool
  | .held false | .asleep false | .timedOut | .rst _ | .rstCas _ _ | .sub2 => true
  | _ => false

/-- the reset phase (mutex held, flag seen false) -/
def WPc.resetting : WPc → Bool
  | .rst _ | .rstCas _ _ | .sub2 => true
  | _ => false

/-- how far the registration loop got -/
def regBound (s : State) : Nat :=
  match s.wpc with
  | .reg i => i
  | .regCas i => i
  | _ => s.hi

/-- how far the reset loop got (futures below are not `inn` any more; futures from here on are not `back` yet) -/
def rstBound (s : State) : Nat :=
  match s.wpc with
  | .rst i => i
  | .rstCas i _ => i
  | .sub2 => s.hi
  | _ => s.lo

abbrev Ninn (s : State) : Nat := cntG s.fut .inn s.hi
abbrev Ntaken (s : State) : Nat := cntG s.fut .taken s.hi
abbrev Ndecd (s : State) : Nat := cntG s.fut .decd s.hi
abbrev Nback (s : State) : Nat := cntG s.fut .back s.hi

/-- `strict = false` additionally admits the two loop-exit test points (`reg hi`, `rst hi`) that the model folds into the
    preceding step; it is only used inside the preservation proofs (`inv_advReg`, `inv_advRst`). -/
structure InvG (strict : Bool) (w : Workload) (s : State) : Prop where
  hw : s.w = w
  alive_iff : s.alive = true ↔ s.wpc.inCall = true
  holder_w : s.holder = some .w ↔ s.wpc.holds = true
  holder_p : ∀ i, s.holder = some (.p i) ↔ (s.fut i).ppc = .locked
  uaf : s.uaf = false
  /-- the producer has exchanged iff the word is `result` -/
  start_iff : ∀ i, (s.fut i).ppc = .start ↔ (s.fut i).word ≠ .result
  /-- no event: no word holds its pointer and no producer holds it either -/
  dead : s.alive = false → ∀ i, (s.fut i).word ≠ .ev ∧ (s.fut i).ppc ≠ .took ∧ (s.fut i).ppc ≠ .setting ∧ (s.fut i).ppc ≠ .locked
  /-- ghost phase ↔ word / producer position, while the event exists -/
  g_ev : s.alive = true → ∀ i, (s.fut i).word = .ev → (s.fut i).g = .inn
  g_took : s.alive = true → ∀ i, (s.fut i).ppc = .took → (s.fut i).g = .taken
  g_set : s.alive = true → ∀ i, (s.fut i).ppc = .setting ∨ (s.fut i).ppc = .locked → (s.fut i).g = .decd
  g_inn : s.alive = true → ∀ i, (s.fut i).g = .inn → (s.fut i).word = .ev
  g_taken : s.alive = true → ∀ i, (s.fut i).g = .taken → (s.fut i).ppc = .took
  g_decd : s.alive = true → ∀ i, (s.fut i).g = .decd →
    (s.fut i).ppc = .setting ∨ (s.fut i).ppc = .locked ∨ (s.fut i).ppc = .done
  g_back : s.alive = true → ∀ i, (s.fut i).g = .back → (s.fut i).word = .empty ∨ (s.fut i).word = .result
  g_range : s.alive = true → ∀ i, (s.fut i).g ≠ .out → s.lo ≤ i ∧ i < regBound s
  g_out : s.alive = true → ∀ i, s.lo ≤ i → i < regBound s → (s.fut i).g = .out → (s.fut i).word = .result
  one_taken : s.alive = true → s.hi - s.lo = 1 → ∀ i, (s.fut i).g ≠ .taken
  /-- the accounting -/
  c_wc : s.alive = true → s.wc = Ninn s + Ntaken s + Ndecd s + Nback s
  c_rc : s.alive = true → s.rc = Nback s
  c_cnt : s.alive = true → s.hi - s.lo ≠ 1 →
    s.counter = ((s.hi - s.lo : Nat) : Int) + 1 - (if s.sub1done then (((s.hi - s.lo) - s.wc + 1 : Nat) : Int) else 0)
      - (Ndecd s : Int) - (if s.sub2done then (s.rc : Int) else 0)
  /-- waiter phases -/
  reg_inv : ∀ i, s.wpc = .reg i ∨ s.wpc = .regCas i →
    s.lo ≤ i ∧ s.wc + s.lo ≤ i ∧ (i < s.hi ∨ (strict = false ∧ i = s.hi ∧ s.wpc = .reg i))
  post_inv : s.wpc.postReg = true → 1 ≤ s.wc ∧ s.wc + s.lo ≤ s.hi
  early_inv : s.wpc.early = true → s.sub1done = false
  sub1_multi : s.wpc = .sub1 → s.hi - s.lo ≠ 1
  later_inv : s.wpc.postReg = true → s.wpc ≠ .sub1 → (s.hi - s.lo = 1 ∨ s.sub1done = true)
  pre_to : s.wpc.preTimeout = true → s.rc = 0 ∧ s.sub2done = false ∧ s.timedOutSeen = false
  timed_only : s.wpc.timedOnly = true → s.timed = true
  resetting : s.wpc.resetting = true → s.ready = false ∧ s.timedOutSeen = true ∧ s.sub2done = false
  timedout_inv : s.wpc = .timedOut → s.rc = 0 ∧ s.sub2done = false ∧ s.timedOutSeen = true
  rst_lo : s.alive = true → ∀ i, s.lo ≤ i → i < rstBound s → (s.fut i).g ≠ .inn
  rst_hi : ∀ i, (s.wpc = .rst i ∨ ∃ x, s.wpc = .rstCas i x) → ∀ j, i ≤ j → (s.fut j).g ≠ .back
  rst_inv : ∀ i, (s.wpc = .rst i ∨ ∃ x, s.wpc = .rstCas i x) →
    s.lo ≤ i ∧ (i < s.hi ∨ (strict = false ∧ i = s.hi ∧ s.wpc = .rst i))
  rstcas_x : ∀ i x, s.wpc = .rstCas i x → x ≠ .result
  rstcas_ev : ∀ i x, s.wpc = .rstCas i x → (s.fut i).g = .inn → x = .ev
  sub2_inv : s.wpc = .sub2 → s.hi - s.lo ≠ 1 ∧ s.rc ≠ 0 ∧ s.rc ≠ s.wc
  sub2done_inv : s.alive = true → s.sub2done = true → s.sub1done = true ∧ s.hi - s.lo ≠ 1
  rc_seen : s.alive = true → s.rc ≠ 0 → s.timedOutSeen = true
  seen_timed : s.alive = true → s.timedOutSeen = true → s.timed = true
  /-- who calls `Set`: exactly the decrement that reached zero -/
  set_g : s.alive = true → ∀ i, s.setter = some i → (s.fut i).g = .decd
  set_cnt : s.alive = true → s.hi - s.lo ≠ 1 → s.setter ≠ none → s.counter = 0 ∧ s.sub1done = true
  set_pp : s.alive = true → ∀ i, (s.fut i).ppc = .setting ∨ (s.fut i).ppc = .locked → s.setter = some i
  rdy_set : s.alive = true → s.ready = true → s.setter ≠ none ∧ ∀ i, s.setter = some i → (s.fut i).ppc = .locked ∨ (s.fut i).ppc = .done
  ev_set : s.alive = true → s.evSet = if s.ready then 1 else 0
  /-- no wake-up is lost: a zero counter has a setter, the setter sets the flag before it leaves -/
  locked_rdy : s.alive = true → ∀ i, (s.fut i).ppc = .locked → s.ready = true
  set_done : s.alive = true → ∀ i, s.setter = some i → (s.fut i).ppc = .done → s.ready = true
  cnt0 : s.alive = true → s.hi - s.lo ≠ 1 → s.counter = 0 → s.setter ≠ none ∨ s.wpc = .unlockRet false
  one_set : s.alive = true → s.hi - s.lo = 1 → ∀ i, (s.fut i).g = .decd → s.setter = some i
  final_rc : s.wpc = .held true ∨ s.wpc = .asleep true → s.sub2done = false → s.rc = 0
  /-- the decided return value -/
  clean : ∀ b, s.wpc = .unlockRet b →
    ∀ i, (s.fut i).g ≠ .inn ∧ (s.fut i).g ≠ .taken ∧ (s.fut i).ppc ≠ .setting ∧ (s.fut i).ppc ≠ .locked
  ret_true : s.wpc = .unlockRet true ∨ s.wpc = .retn true ∨ (∃ i, s.wpc = .gotRep i) →
    ∀ i, s.lo ≤ i → i < s.hi → (s.fut i).word = .result
  ret_false : s.wpc = .unlockRet false ∨ s.wpc = .retn false → s.timed = true ∧ s.timedOutSeen = true
  /-- the consuming phase -/
  fi_lo : s.alive = true → s.fi ≤ s.lo
  calls_fi : s.calls ≠ [] → s.fi = 0
  inget : s.inGet = true → s.alive = true ∨ (∃ i, s.wpc = .gotRep i) →
    s.calls = [] ∧ s.lo = s.fi ∧ s.hi = s.fi + 1 ∧ s.timed = false
  inget_f : s.inGet = false → ∀ i, s.wpc ≠ .gotRep i
  att_inv : ∀ i, s.wpc = .att i ∨ s.wpc = .attCas i ∨ s.wpc = .attFail i → i = s.fi ∧ s.calls = [] ∧ s.w.fin i = .attach
  attfail : ∀ i, s.wpc = .attFail i → (s.fut i).word = .result
  got_inv : ∀ i, s.wpc = .gotRep i → i = s.fi ∧ s.lo = s.fi ∧ s.calls = [] ∧ s.w.fin i = .get ∧ s.inGet = true
  inget_fin : s.inGet = true → s.alive = true → s.w.fin s.fi = .get
  fi_le : s.fi ≤ s.w.n
  calls_sub : ∀ c, c ∈ s.calls → c ∈ w.calls
  hi_le : (∀ c, c ∈ w.calls → c.hi ≤ w.n) → s.alive = true → s.hi ≤ s.w.n
  fi_lt : (∃ i, s.wpc = .att i ∨ s.wpc = .attCas i ∨ s.wpc = .attFail i ∨ s.wpc = .gotRep i) ∨
    (s.inGet = true ∧ s.alive = true) → s.fi < s.w.n
  /-- every result is delivered at most once, to the consumer that asked for it -/
  todo : ∀ i, s.fi ≤ i → (s.fut i).ndel = 0 ∧ (s.fut i).word ≠ .cont ∧ (s.fut i).ppc ≠ .fire
  fire_res : ∀ i, (s.fut i).ppc = .fire → (s.fut i).word = .result
  del_some : ∀ i, i < s.fi → s.w.fin i ≠ .none →
    (s.fut i).ndel + (if (s.fut i).word = .cont then 1 else 0) + (if (s.fut i).ppc = .fire then 1 else 0) = 1
  del_none : ∀ i, i < s.fi → s.w.fin i = .none → (s.fut i).ndel = 0 ∧ (s.fut i).word ≠ .cont ∧ (s.fut i).ppc ≠ .fire

abbrev Inv (w : Workload) (s : State) : Prop := InvG true w s

theorem InvG.weaken {b : Bool} {w : Workload} {s : State} (h : Inv w s) : InvG b w s := by
  cases h
  constructor <;> first | assumption | grind

theorem inv_init (w : Workload) : Inv w (init w) := by
  constructor <;> simp [init, WPc.inCall, WPc.holds, WPc.postReg, WPc.early, WPc.preTimeout, WPc.timedOnly, WPc.resetting]

end Yaclib.Wait
