/- C07, towers of strands (1): two more facts about one strand, and the abstract executor interface
   (`Exec`, the protocol `Prot`, `Run`, `ExecContract`) with the most general contract executor `specBase`. -/
import YaclibModel.Proofs.StrandRun

namespace Yaclib.Strand

/-- a job whose body is running has been recorded as executed; a submitter on its way to schedule has pushed -/
structure InvX (s : State) : Prop where
  busy_exec : ∀ b j rem, s.acts b = .busy j rem → j ∈ s.executed
  sched_pushed : ∀ i, s.spc i = .sched → 0 < s.sidx i

theorem invX_init (w : Workload) : InvX (init w) := by
  constructor <;> simp [init]

theorem invX_step {s l s'} (hi : InvX s) (hs : Step s l s') : InvX s' := by
  cases hs with
  | sLoad i v h hj hv => cases hi; constructor <;> simp only [doLoad, upd] at * <;> grind
  | sCasOk i exp h he => cases hi; constructor <;> simp only [doCasOk, upd] at * <;> grind
  | sCasFail i exp v h hne hv => cases hi; constructor <;> simp only [doLoad, upd] at * <;> grind
  | sCasSpur i exp h => exact hi
  | sSched i h => cases hi; constructor <;> simp only [doSched, upd] at * <;> grind
  | aCall a h =>
      cases hw : s.word with
      | mark => cases hi; constructor <;> simp only [doCall, hw, upd] at * <;> grind
      | list js =>
          cases js with
          | nil => cases hi; constructor <;> simp only [doCall, hw, upd] at * <;> grind
          | cons j js => cases hi; constructor <;> simp only [doCall, hw, upd] at * <;> grind
  | aBegin a j rem h => cases hi; constructor <;> simp only [doBegin, upd] at * <;> grind
  | aEnd a j rem h => cases hi; constructor <;> simp only [doEnd, upd] at * <;> grind
  | aLoad a b h hv => cases b <;> (cases hi; constructor <;> simp only [doALoad, upd] at * <;> grind)
  | aCasOk a h hw => cases hi; constructor <;> simp only [doACasOk, upd] at * <;> grind
  | aCasFail a h hw => cases hi; constructor <;> simp only [doACasFail, upd] at * <;> grind
  | aResub a h => cases hi; constructor <;> simp only [doResub, upd] at * <;> grind
  | aDropX a h =>
      cases hw : s.word with
      | mark => cases hi; constructor <;> simp only [doDropX, hw, upd] at * <;> grind
      | list js =>
          cases js with
          | nil => cases hi; constructor <;> simp only [doDropX, hw, upd] at * <;> grind
          | cons j js => cases hi; constructor <;> simp only [doDropX, hw, upd] at * <;> grind
  | aDrop a j rem h =>
      by_cases hr : rem = []
      · subst hr; cases hi; constructor <;> simp only [doDrop, upd] at * <;> grind
      · cases hi; constructor <;> simp only [doDrop, upd] at * <;> grind

theorem invX_reachable {w s} (h : Reachable w s) : InvX s := by
  induction h with
  | init => exact invX_init w
  | step _ hs ih => exact invX_step ih hs

/-! ### the abstract executor interface -/

/-- protocol state of one job at an executor's client interface -/
inductive Phase where
  | fresh      -- not submitted
  | pending    -- submitted, neither Called nor Dropped yet
  | calling    -- inside `Call()`
  | finished   -- `Call()` returned, or Dropped
  deriving DecidableEq, Repr

/-- events at the client interface of an executor; jobs are numbered -/
inductive XEv where
  | sub (a : Nat)    -- `Submit(job a)` (client → executor)
  | call (a : Nat)   -- the executor enters `a.Call()`
  | ret (a : Nat)    -- `a.Call()` returns (the body belongs to the client)
  | drop (a : Nat)   -- the executor Drops a
  deriving DecidableEq, Repr

/-- what the client decides -/
def XEv.isInput : XEv → Bool
  | .sub _ | .ret _ => true
  | _ => false

abbrev Prot := Nat → Phase

def protInit : Prot := fun _ => .fresh

/-- the `IExecutor` contract, event by event: Submit a job once, then exactly one of Call / Drop -/
def specPre (p : Prot) : XEv → Prop
  | .sub a => p a = .fresh
  | .call a => p a = .pending
  | .ret a => p a = .calling
  | .drop a => p a = .pending

def specPost (p : Prot) : XEv → Prot
  | .sub a => upd p a .pending
  | .call a => upd p a .calling
  | .ret a => upd p a .finished
  | .drop a => upd p a .finished

/-- an executor as an open transition system: internal steps and steps that are events at its client interface -/
structure Exec where
  σ : Type
  Lab : Type
  init : σ
  step : σ → Lab → σ → Prop
  ev : Lab → Option XEv

/-- every state an executor can reach, whatever its clients do -/
inductive Exec.Reach (E : Exec) : E.σ → Prop where
  | init : E.Reach E.init
  | step {s l s'} : E.Reach s → E.step s l s' → E.Reach s'

/-- the states an executor can reach with clients that honour their side of the protocol (submit a job once,
    return only from a body that was entered), together with the protocol state -/
inductive Exec.Run (E : Exec) : E.σ → Prot → Prop where
  | init : E.Run E.init protInit
  | tau {s p l s'} : E.Run s p → E.step s l s' → E.ev l = none → E.Run s' p
  | inp {s p l s' e} : E.Run s p → E.step s l s' → E.ev l = some e → e.isInput = true → specPre p e → E.Run s' (specPost p e)
  | out {s p l s' e} : E.Run s p → E.step s l s' → E.ev l = some e → e.isInput = false → E.Run s' (specPost p e)

theorem Exec.Run.reach {E : Exec} {s p} (h : E.Run s p) : E.Reach s := by
  induction h with
  | init => exact .init
  | tau _ hs _ ih => exact .step ih hs
  | inp _ hs _ _ _ ih => exact .step ih hs
  | out _ hs _ _ ih => exact .step ih hs

/-- only inputs are enabled: the executor itself has nothing left to do -/
def Exec.Quiet (E : Exec) (s : E.σ) : Prop := ∀ l s', E.step s l s' → ∃ e, E.ev l = some e ∧ e.isInput = true

/-- **the IExecutor contract** for an executor given as a transition system: with well-behaved clients it Calls or
    Drops only what is pending (hence every job at most once, never both, only after its Submit), it always accepts a
    Submit of a fresh job and the return of a body it entered (it never makes its client wait), and when it has nothing
    left to do and no body is running, nothing is pending (every submitted job was Called or Dropped). -/
structure ExecContract (E : Exec) : Prop where
  safe : ∀ {s p l s' e}, E.Run s p → E.step s l s' → E.ev l = some e → e.isInput = false → specPre p e
  accepts_sub : ∀ {s p} (a : Nat), E.Run s p → p a = .fresh → ∃ l s', E.step s l s' ∧ E.ev l = some (.sub a)
  accepts_ret : ∀ {s p} (a : Nat), E.Run s p → p a = .calling → ∃ l s', E.step s l s' ∧ E.ev l = some (.ret a)
  progress : ∀ {s p}, E.Run s p → E.Quiet s → (∀ a, p a ≠ .calling) → ∀ a, p a ≠ .pending

/-- the most general executor honouring the contract: it may Call or Drop any pending job at any time -/
def specBase : Exec :=
  { σ := Prot, Lab := XEv, init := protInit, step := fun p e p' => specPre p e ∧ p' = specPost p e, ev := some }

theorem specBase_run {s : specBase.σ} {p : Prot} (h : specBase.Run s p) : s = p := by
  induction h with
  | init => rfl
  | tau _ _ he _ => cases he
  | inp _ hs he _ _ ih => cases he; rw [hs.2, ih]
  | out _ hs he _ ih => cases he; rw [hs.2, ih]

theorem specBase_contract : ExecContract specBase := by
  refine ⟨?_, ?_, ?_, ?_⟩
  · intro s p l s' e hr hs he _
    cases he; rw [← specBase_run hr]; exact hs.1
  · intro s p a hr hp
    exact ⟨.sub a, _, ⟨by rw [specBase_run hr]; exact hp, rfl⟩, rfl⟩
  · intro s p a hr hp
    exact ⟨.ret a, _, ⟨by rw [specBase_run hr]; exact hp, rfl⟩, rfl⟩
  · intro s p hr hq _ a ha
    have hs : specBase.step s (.call a) (specPost s (.call a)) := ⟨by rw [specBase_run hr]; exact ha, rfl⟩
    obtain ⟨e, he, hi⟩ := hq _ _ hs
    cases he; cases hi

end Yaclib.Strand
