/- C08: with one worker, Calls start in pop order (= acceptance order, InvB.acc_split) -/
import YaclibModel.Proofs.Pool
namespace Yaclib.Pool
open Yaclib.Extracted.PoolConsts

theorem set_eq_singleton {α : Type} {l : List α} {i : Nat} {a b c : α} (h : l[i]? = some a) (he : l.set i b = [c]) :
    l = [a] ∧ c = b := by
  have hl : l.length = 1 := by
    have := congrArg List.length he
    simpa using this
  match l, hl with
  | [x], _ =>
      have hi : i = 0 := by
        rcases List.getElem?_eq_some_iff.mp h with ⟨hlt, _⟩
        simp at hlt; exact hlt
      subst hi
      simp at h he
      subst h
      exact ⟨rfl, he.symm⟩

theorem map_wake_eq_singleton {l : List WPc} {c : WPc} (he : l.map wake = [c]) : ∃ c0, l = [c0] ∧ c = wake c0 := by
  match l with
  | [] => simp at he
  | [x] => simp at he; exact ⟨x, rfl, he.symm⟩
  | x :: y :: r => simp at he

theorem pendOf_wake (pc : WPc) : pendOf (wake pc) = pendOf pc := by cases pc <;> rfl

macro "ffacts" h:ident : tactic =>
  `(tactic| (have hSe := fun b c he => @set_eq_singleton _ _ _ _ b c $h he))

macro "invF_close" : tactic =>
  `(tactic| (constructor; unfold_do; grind [pendOf]))

theorem invF_init (w : Workload) : InvF (init w) := by
  constructor
  intro pc h
  simp only [init] at *
  have : pc = .start := by
    have hm : pc ∈ List.replicate w.workers WPc.start := by rw [h]; simp
    exact List.eq_of_mem_replicate hm
  subst this; simp [pendOf]

set_option maxHeartbeats 2000000 in
theorem invF_step {s l s'} (hi : InvF s) (hs : Step s l s') : InvF s' := by
  cases hs with
  | sBegin i sb h hpc hk => cases hi; invF_close
  | sLock i sb h hpc hl => cases hi; invF_close
  | sAccept i sb h hpc hw => cases hi; invF_close
  | sReject i sb h hpc hw => cases hi; invF_close
  | sDrop i sb h hpc => cases hi; invF_close
  | sNotifyNone i sb h hpc hn => cases hi; invF_close
  | sNotifyOne i sb v h hpc hv => ffacts hv; cases hi; invF_close
  | wLock i pc h hpc hl => ffacts h; cases hi; rcases hpc with hpc | hpc <;> subst hpc <;> invF_close
  | wRelock i h hl => ffacts h; cases hi; invF_close
  | wCall i j h => ffacts h; cases hi; invF_close
  | wSpurious i h => ffacts h; cases hi; invF_close
  | wNotifyAll i h =>
      cases hi with
      | mk fifo =>
      constructor
      intro pc he
      simp only [doWNotifyAll] at he ⊢
      obtain ⟨c0, h0, h1⟩ := map_wake_eq_singleton he
      obtain ⟨h2, h3⟩ := set_eq_singleton h h0
      have := fifo _ h2
      subst h1 h3
      simpa [pendOf, wake] using this
  | wPop i b j rest h hq => ffacts h; cases hi; invF_close
  | wStop i b h hq hc => ffacts h; cases hi; invF_close
  | wExit i b h hq hc hw => ffacts h; cases hi; invF_close
  | wWait i b h hq hc hw => ffacts h; cases hi; invF_close
  | xBegin k h hk => cases hi; invF_close
  | xLock h hl => cases hi; invF_close
  | xStop h hk => cases hi; invF_close
  | xSoftNow h hk hn => cases hi; invF_close
  | xSoftWant h hk hn => cases hi; invF_close
  | xHard h hk => cases hi; invF_close
  | xNotifyAll h =>
      cases hi with
      | mk fifo =>
      constructor
      intro pc he
      simp only [doXNotifyAll] at he ⊢
      obtain ⟨c0, h0, h1⟩ := map_wake_eq_singleton he
      have := fifo _ h0
      subst h1
      simpa [pendOf_wake] using this
  | xDrop j rest h => cases hi; invF_close
  | waitRet h hr => cases hi; invF_close

end Yaclib.Pool
