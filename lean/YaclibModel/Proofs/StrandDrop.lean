/- Invariants of the C07 model, part 3: what a Drop activation took is Dropped, once. -/
import YaclibModel.Proofs.StrandOrd

namespace Yaclib.Strand

theorem nodup_reverse' {α : Type} {l : List α} : l.reverse.Nodup ↔ l.Nodup := by
  unfold List.Nodup
  rw [List.pairwise_reverse]
  constructor <;> intro h <;> exact List.Pairwise.imp (fun h => Ne.symm h) h

theorem fst_excl {α : Type} {l : List (α × Bool)} (hn : (l.map Prod.fst).Nodup) {j : α} (h1 : (j, true) ∈ l)
    (h2 : (j, false) ∈ l) : False := by
  induction l with
  | nil => cases h1
  | cons p l ih =>
      simp only [List.map_cons, List.nodup_cons, List.mem_map] at hn
      simp only [List.mem_cons] at h1 h2
      rcases h1 with h1 | h1 <;> rcases h2 with h2 | h2
      · rw [← h1] at h2; cases h2
      · exact hn.1 ⟨_, h2, by rw [← h1]⟩
      · exact hn.1 ⟨_, h1, by rw [← h2]⟩
      · exact ih hn.2 h1 h2

theorem sameSubLt_ne {a b : JobId} (h : sameSubLt a b) : a ≠ b := by
  intro hab; subst hab; exact absurd (h rfl) (Nat.lt_irrefl _)

theorem InvOrd.push_nodup {w s} (hi : InvOrd w s) : s.pushOrder.Nodup :=
  List.Pairwise.imp sameSubLt_ne hi.push_pw

theorem InvOrd.fsts_nodup {w s} (hi : InvOrd w s) : (fsts s.taken).Nodup := by
  have := hi.push_nodup; rw [hi.order, List.nodup_append] at this; exact this.1

theorem InvOrd.inbox_nodup {w s} (hi : InvOrd w s) : s.word.inbox.Nodup := by
  have := hi.push_nodup; rw [hi.order, List.nodup_append] at this
  exact nodup_reverse'.mp this.2.1

/-- a job still in the inbox has not been taken by any exchange -/
theorem InvOrd.inbox_fresh {w s} (hi : InvOrd w s) {j : JobId} (hj : j ∈ s.word.inbox) (b : Bool) : (j, b) ∉ s.taken := by
  have := hi.push_nodup; rw [hi.order, List.nodup_append] at this
  intro hm
  have h1 : j ∈ fsts s.taken := by
    cases b
    · exact mem_fsts.mpr (Or.inr hm)
    · exact mem_fsts.mpr (Or.inl hm)
  exact this.2.2 j h1 j (List.mem_reverse.mpr hj) rfl

/-- a job is never taken both by a Call and by a Drop exchange -/
theorem InvOrd.taken_excl {w s} (hi : InvOrd w s) {j : JobId} (h1 : (j, true) ∈ s.taken) (h2 : (j, false) ∈ s.taken) : False := by
  exact fst_excl hi.fsts_nodup h1 h2

theorem mem_append_tag_true {l : List (JobId × Bool)} {b : List JobId} {x : JobId} :
    (x, false) ∈ l ++ b.map (tag true) ↔ (x, false) ∈ l := by
  simp [tag]

theorem mem_append_tag_false {l : List (JobId × Bool)} {b : List JobId} {x : JobId} :
    (x, false) ∈ l ++ b.map (tag false) ↔ (x, false) ∈ l ∨ x ∈ b := by
  simp [tag]

structure InvDrop (w : Workload) (s : State) : Prop where
  drop_taken : ∀ j ∈ s.dropped, (j, false) ∈ s.taken
  drain_taken : ∀ a, ∀ j ∈ drainRem (s.acts a), (j, false) ∈ s.taken ∧ j ∉ s.dropped ∧ s.takenBy j = a
  drain_nodup : ∀ a, (drainRem (s.acts a)).Nodup
  dropped_nodup : s.dropped.Nodup
  /-- nothing a Drop activation took is forgotten -/
  taken_drop : ∀ j, (j, false) ∈ s.taken → j ∈ s.dropped ∨ j ∈ drainRem (s.acts (s.takenBy j))

theorem invDrop_init (w : Workload) : InvDrop w (init w) := by
  constructor <;> simp [init, drainRem]

macro "drop_simp" : tactic =>
  `(tactic| simp only [doLoad, doCasOk, doSched, doCall, doBegin, doEnd, doALoad, doACasOk, doACasFail, doResub, doDropX,
      doDrop, upd, mem_append_tag_true, mem_append_tag_false, List.mem_reverse] at *)

macro "drop_auto" : tactic =>
  `(tactic| (constructor <;> drop_simp <;> grind [drainRem]))

end Yaclib.Strand
