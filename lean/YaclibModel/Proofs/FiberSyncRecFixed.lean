/- The C18 model `Rm` with the proposed repairs of D4 and D6 switched on (`patch = loop = true`, the code of
   notes/C18_proposed_patches.diff): the invariant that makes the full theorems true. -/
import YaclibModel.Proofs.FiberSyncRec

namespace Yaclib.FiberSync.Rm
open Yaclib.FiberSync

structure InvF (k : Bool) (s : State) : Prop where
  hk : s.timed = k
  hp : s.patch = true
  hl : s.loop = true
  cnt : s.count = s.holders.length
  own : ∀ a, a ∈ s.holders → s.owner = some a
  /-- with the `while` the old continuations are never entered -/
  no_woke : ∀ g, (s.pc g).woke = false
  barge0 : s.barge = 0
  /-- notified fibers re-evaluate the condition next -/
  transit_pc : ∀ g, g ∈ s.transit → (s.pc g).rechecks = true
  /-- no lost wake-up: a free mutex with parked lockers has a notified locker on its way -/
  free_transit : s.count = 0 → s.rq ≠ [] → s.transit ≠ []
  rq_pc : ∀ g, g ∈ s.rq → (s.pc g).inQ = true
  pc_rq : ∀ g, (s.pc g).inQ = true → g ∈ s.rq
  dl : ∀ g r d, s.pc g = .tParked r d → r ≤ d
  t_timed : ∀ g r d, s.pc g = .tParked r d → s.timed = true
  tl_timed : ∀ g r, s.pc g = .tLocking r → s.timed = true

theorem invF_init (k : Bool) (n : Nat) : InvF k (init k true true n) := by
  constructor <;> (simp only [init]) <;> grind [Pc.woke, Pc.inQ, Pc.rechecks]

theorem rechecks_wake {p : Pc} (h : p.inQ = true) : (wake true p).rechecks = true := by
  cases p <;> simp_all [Pc.inQ, wake, Pc.rechecks]
theorem wake_not_inQ {p : Pc} (h : p.inQ = true) : (wake true p).inQ = false := by
  cases p <;> simp_all [Pc.inQ, wake]
theorem wake_not_woke {p : Pc} (h : p.inQ = true) : (wake true p).woke = false := by
  cases p <;> simp_all [Pc.inQ, wake, Pc.woke]
theorem wake_ne_tParked {p : Pc} (h : p.inQ = true) (r d : Nat) : wake true p ≠ .tParked r d := by
  cases p <;> simp_all [Pc.inQ, wake]
theorem wake_tLocking {p : Pc} {r : Nat} (h : wake true p = .tLocking r) : (∃ d, p = .tParked r d) ∨ p = .tLocking r := by
  cases p <;> simp_all [wake]
theorem inQ_not_rechecks {p : Pc} (h : p.inQ = true) : p.rechecks = false := by
  cases p <;> simp_all [Pc.inQ, Pc.rechecks]

macro "rmf_auto" : tactic =>
  `(tactic| (constructor <;> (try simp only [lockHelper, doWokenAcq, doUnlock, notifyR, doPark, doTlfPark, doTlfTimeout, doTlfRepark,
      Free, PatchPick, PickOk] at *) <;>
      grind [upd_apply, mem_rm, rm_ne_nil, Mx.length_erase_mem, mem_of_mem_erase', erase_nil_of_length, List.length_append,
        Pc.woke, Pc.inQ, Pc.rechecks, rechecks_wake, wake_not_inQ, wake_not_woke, wake_ne_tParked, wake_tLocking,
        inQ_not_rechecks]))

set_option maxHeartbeats 4000000 in
theorem invF_step {k s l s'} (hi : InvF k s) (hs : Step s l s') : InvF k s' := by
  cases hs with
  | lockFast f h hf => cases hi; rmf_auto
  | lockPark f h hf => cases hi; rmf_auto
  | lockWokenAcq f h => have := hi.no_woke f; rw [h] at this; simp [Pc.woke] at this
  | lockRecheckAcq f h hf => cases hi; rmf_auto
  | lockRepark f h hf => cases hi; rmf_auto
  | tryOk f h hf => cases hi; rmf_auto
  | tryFail f h hf => cases hi; rmf_auto
  | unlock f h hh hp => have h1 := hi.hp; simp_all
  | unlockPatched f w h hh hp hw => cases hi; cases w <;> rmf_auto
  | tlfFast f hk h hf => cases hi; rmf_auto
  | tlfPark f t d j hk h hf ht => cases hi; rmf_auto
  | tlfWokenAcq f hk h => have := hi.no_woke f; rw [h] at this; simp [Pc.woke] at this
  | tlfRecheckAcq f req hk h hf => cases hi; rmf_auto
  | tlfRepark f req j hk h hf => cases hi; rmf_auto
  | tlfTimeout f t req dl hk h hd ht => cases hi; rmf_auto
  | sleepStart f t d h ht => cases hi; rmf_auto
  | sleepWake f t dl h hd ht => cases hi; rmf_auto
  | finish f h => cases hi; rmf_auto

theorem invF_reachable {k n s} (h : Reachable k true true n s) : InvF k s := by
  induction h with
  | init => exact invF_init k n
  | step _ hs ih => exact invF_step ih hs

/-- repaired: in a quiescent state every fiber has finished or is parked by `lock()` … -/
theorem quiescent_classifyF {k s} (hi : InvF k s) (hq : Quiescent s) (f : Fid) : s.pc f = .done ∨ s.pc f = .parked := by
  cases hp : s.pc f with
  | idle => exact absurd (Step.finish s f hp) (hq _ _)
  | done => exact Or.inl rfl
  | parked => exact Or.inr rfl
  | woken => exact absurd (Step.lockWokenAcq s f hp) (hq _ _)
  | tParked r d =>
      exact absurd (Step.tlfTimeout s f (max s.now d) r d (hi.t_timed f r d hp) hp (Nat.le_max_right _ _)
        (Nat.le_max_left _ _)) (hq _ _)
  | tWoken => have := hi.no_woke f; rw [hp] at this; simp [Pc.woke] at this
  | locking =>
      by_cases hf : Free s f
      · exact absurd (Step.lockRecheckAcq s f hp hf) (hq _ _)
      · exact absurd (Step.lockRepark s f hp hf) (hq _ _)
  | tLocking r =>
      by_cases hf : Free s f
      · exact absurd (Step.tlfRecheckAcq s f r (hi.tl_timed f r hp) hp hf) (hq _ _)
      · exact absurd (Step.tlfRepark s f r 0 (hi.tl_timed f r hp) hp hf) (hq _ _)
  | sleeping d =>
      exact absurd (Step.sleepWake s f (max s.now d) d hp (Nat.le_max_right _ _) (Nat.le_max_left _ _)) (hq _ _)

/-- … on a mutex that really is held -/
theorem quiescent_parked_heldF {k s} (hi : InvF k s) (hq : Quiescent s) (f : Fid) (hp : s.pc f = .parked) :
    s.count ≠ 0 ∧ s.holders ≠ [] := by
  have hrq : s.rq ≠ [] := by
    intro h0
    have := hi.pc_rq f (by rw [hp]; rfl)
    rw [h0] at this; cases this
  have hc : s.count ≠ 0 := by
    intro hc
    have ht := hi.free_transit hc hrq
    cases htr : s.transit with
    | nil => exact ht htr
    | cons g rest =>
        have hw := hi.transit_pc g (by rw [htr]; simp)
        have hfree : Free s g := Or.inl hc
        cases hg : s.pc g with
        | locking => exact (hq _ _) (Step.lockRecheckAcq s g hg hfree)
        | tLocking r => exact (hq _ _) (Step.tlfRecheckAcq s g r (hi.tl_timed g r hg) hg hfree)
        | _ => rw [hg] at hw; simp [Pc.rechecks] at hw
  refine ⟨hc, ?_⟩
  intro h0
  have := hi.cnt
  rw [h0] at this
  exact hc (by simpa using this)

end Yaclib.FiberSync.Rm
