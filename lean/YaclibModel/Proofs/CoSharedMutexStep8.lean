import YaclibModel.Proofs.CoSharedMutex
namespace Yaclib.CoSharedMutex

set_option maxHeartbeats 4000000 in
theorem inv_step_8 {cfg s l s'} (hi : Inv cfg s) (hs : Step s l s') (hg : grpOf l = 8) : Inv cfg s' := by
  cases hi
  cases hs with
  | tailUnlock c hs => sm_dbg [List.count_le_length, List.length_eq_zero_iff, length_pos_of_ne_nil]
  | wuCasOk c h hW hR => sm_dbg [List.count_le_length, List.length_eq_zero_iff, length_pos_of_ne_nil]
  | wuCasFail c h hne => sm_dbg [List.count_le_length, List.length_eq_zero_iff, length_pos_of_ne_nil]
  | _ => simp [grpOf] at hg

end Yaclib.CoSharedMutex
