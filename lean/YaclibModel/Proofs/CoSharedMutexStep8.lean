import YaclibModel.Proofs.CoSharedMutex
namespace Yaclib.CoSharedMutex

set_option maxHeartbeats 4000000 in
theorem inv_step_8 {cfg s l s'} (hi : Inv cfg s) (hs : Step s l s') (hg : grpOf l = 8) : Inv cfg s' := by
  cases hs with
  | tailUnlock c hs =>
      cases hi
      sm_auto [List.count_le_length]
  | wuCasOk c h hW hR =>
      cases hi
      sm_auto [List.count_le_length]
  | wuCasFail c h hne =>
      cases hi
      sm_auto [List.count_le_length]
  | _ => simp [grpOf] at hg

end Yaclib.CoSharedMutex
