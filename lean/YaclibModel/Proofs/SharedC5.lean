import YaclibModel.Proofs.SharedC
namespace Yaclib.Shared

set_option maxHeartbeats 4000000 in
theorem invC_step_5 {w s l s'} (ha : InvA w s) (hi : InvC s) (hs : Step s l s') (hg : grpOf l = 5) : InvC s' := by
  cases ha
  cases hi
  cases hs with
  | oRdLoad t op rest x h ht hop hr hx => invC_auto
  | oReady t x h =>
      by_cases hc : x = .result ∧ (s.obs t).todo.head? = some .readyTouch
      · simp only [doReady, readyNext_pos hc]; invC_auto
      · simp only [doReady, readyNext_neg hc]; invC_auto
  | oTouch t h => invC_auto
  | oCopy t rest h ht hr => invC_auto
  | oDrop t rest h ht hr => invC_auto
  | _ => simp [grpOf] at hg

end Yaclib.Shared
