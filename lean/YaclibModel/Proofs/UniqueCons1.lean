import YaclibModel.Proofs.UniqueConserve
namespace Yaclib.Unique

set_option maxHeartbeats 4000000 in
theorem inv2_step_1 {w s l s'} (hi : Inv w s) (h2 : Inv2 w s) (hs : Step s l s') (hg : grpOf l = 1) : Inv2 w s' := by
  cases hi
  cases h2
  cases hs with
  | cCasOk k h hw => cases k <;> inv2_auto
  | cInvoke r h hv hr => inv2_auto
  | cSubmit h hv => inv2_auto
  | cInvokeSub r h hr => inv2_auto
  | cForward r h hr => inv2_auto
  | cReady b h => inv2_auto
  | _ => simp [grpOf] at hg

end Yaclib.Unique
