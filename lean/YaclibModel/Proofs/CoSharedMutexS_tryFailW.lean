import YaclibModel.Proofs.CoSharedMutex
namespace Yaclib.CoSharedMutex

set_option maxHeartbeats 4000000 in
theorem inv_tryFailW {cfg : Cfg} {s : State} (hi : Inv cfg s) (c : Cid) (h : s.pc c = .tryFailed) :
    Inv cfg ((doTryFail s c)) := by
  cases hi
  sm_auto [List.count_le_length]

end Yaclib.CoSharedMutex
