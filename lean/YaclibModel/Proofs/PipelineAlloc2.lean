/- C20 continued: resumption, and the client-level allocation bound (unconditional: D10 programs included). -/
import YaclibModel.Proofs.PipelineAlloc

namespace Yaclib.Pipeline
open Yaclib.Extracted

theorem unwind_alloc (cfg : Cfg) : ∀ (fs : List Frame) (o : Out) (B extra : Nat),
    AllocOut B (innerFrames fs + extra) [] o → AllocOut B extra [] (unwind cfg fs o)
  | [], o, B, extra, h => by
    cases o <;> simpa [unwind, innerFrames] using h
  | f0 :: fs, .done r inh c' g, B, extra, h => by
    simp only [unwind]
    apply unwind_alloc cfg fs _ B extra
    apply runSteps_alloc cfg f0.rest false true c' r f0.own _ B _
    simp only [AllocOut, innerFrames, innerSteps] at h
    simp only [asyncDoneAcct_cAlloc]
    omega
  | f0 :: fs, .parked t g, B, extra, h => by
    simp only [AllocOut] at h
    simp only [unwind, AllocOut, innerT, innerFrames_append]
    simp only [innerT] at h
    omega
  | f0 :: fs, .crash g, B, extra, h => by simpa [unwind, AllocOut] using h

theorem fire_alloc (cfg : Cfg) (t : Thread) (ctx : Option Nat) (g : G) (B extra : Nat)
    (hb : g.cAlloc + innerWait t.wait + innerSteps t.rest + extra ≤ B) :
    AllocOut B extra t.rest (fire cfg t ctx g) := by
  unfold fire
  cases hwt : t.wait with
  | promise p fl =>
    rw [hwt] at hb
    simp only [AllocOut]
    simp only [innerWait] at hb
    omega
  | job jid k jk =>
    rw [hwt] at hb
    cases jk with
    | step s input hd =>
      simp only []
      apply callStep_alloc cfg s t.rest hd false (some k) (some t.inh) input t.inh _ B extra
      simp only [innerWait] at hb
      simpa [G.finishJob] using hb
    | readyHead r =>
      simp only [AllocOut]
      simp only [innerWait] at hb
      simp [G.finishJob]
      omega
    | promiseHead p fl =>
      simp only [AllocOut, innerT, innerWait, innerFrames]
      simp only [innerWait] at hb
      simp [G.finishJob, G.freeFunctor]
      omega

theorem resume_alloc (cfg : Cfg) (t : Thread) (ctx : Option Nat) (g : G) (B : Nat)
    (hb : g.cAlloc + innerT t ≤ B) : AllocOut B 0 [] (resume cfg t ctx g) := by
  have hf := fire_alloc cfg t ctx g B (innerFrames t.outer + 0) (by simp only [innerT] at hb; omega)
  unfold resume
  apply unwind_alloc cfg t.outer _ B 0
  cases ho : fire cfg t ctx g with
  | done r inh c' g' =>
    rw [ho] at hf
    simp only [AllocOut] at hf
    simp only []
    exact runSteps_alloc cfg t.rest false true c' r inh g' B _ hf
  | parked t' g' => rw [ho] at hf; exact hf
  | crash g' => rw [ho] at hf; exact hf

/-! ### which handle the client holds ⇔ what `mech` thinks (unconditional) -/

def HInv (st : State) (h : Handle) : Prop :=
  st.crashed = true ∨
  match st.ctl with
  | .idle => False
  | .task _ _ => h = .task ∧ st.held = true
  | .future _ _ => h = .fut ∧ st.held = true
  | .pending _ => (h = .fut ∧ st.held = true) ∨ (h = .none ∧ st.held = false)
  | .gone => h = .none

/-- the allocation bound: what has been allocated, plus what the functors not yet invoked may still allocate, stays within
    the size of the program text -/
def CBound (st : State) (p : Prog) : Prop :=
  if st.crashed = true then st.g.cAlloc ≤ p.size else
  match st.ctl with
  | .idle => True
  | .task _ steps => st.g.cAlloc + innerSteps steps ≤ p.size
  | .future _ _ => st.g.cAlloc ≤ p.size
  | .pending t => st.g.cAlloc + innerT t ≤ p.size
  | .gone => st.g.cAlloc ≤ p.size

def CInv (st : State) (p : Prog) (h : Handle) : Prop := HInv st h ∧ CBound st p

theorem cinv_settle (st0 : State) (o : Out) (p' : Prog) (h' : Handle) (hc : st0.crashed = false)
    (hh : (h' = .fut ∧ st0.held = true) ∨ (h' = .none ∧ st0.held = false))
    (ho : AllocOut p'.size 0 [] o) : CInv (settle st0 o) p' h' := by
  cases o with
  | done r inh c g =>
    simp only [AllocOut, innerSteps] at ho
    cases hh with
    | inl hh => exact ⟨Or.inr (by simp [settle, hh.2, hh.1]), by simp [CBound, settle, hh.2, hc]; omega⟩
    | inr hh => exact ⟨Or.inr (by simp [settle, hh.2, hh.1]), by simp [CBound, settle, hh.2, hc, G.freeCore]; omega⟩
  | parked t g =>
    simp only [AllocOut] at ho
    exact ⟨Or.inr (by simpa [settle] using hh), by simp [CBound, settle, hc]; omega⟩
  | crash g =>
    simp only [AllocOut] at ho
    exact ⟨Or.inl (by simp [settle]), by simp [CBound, settle]; omega⟩

theorem size_attach (p : Prog) (s : Step) :
    Prog.size { p with steps := p.steps ++ [s] } = p.size + 1 + innerStep s := by
  simp only [Prog.size, sizeSteps_eq, innerSteps_append, List.length_append, List.length_cons, List.length_nil]
  rw [innerSteps, innerSteps]
  omega

theorem innerSteps_overrideHead (steps : List Step) (ovr : Option Exec) :
    innerSteps (overrideHead steps ovr) = innerSteps steps := by
  cases ovr with
  | none => cases steps <;> rfl
  | some e =>
    cases steps with
    | nil => rfl
    | cons a as =>
      cases a with
      | mk i sg m b =>
        simp only [overrideHead]
        rw [innerSteps, innerSteps]
        cases b <;> simp [innerStep]

theorem innerFrames_attach (s : Step) : ∀ (fs : List Frame), fs ≠ [] →
    innerFrames (attachFrames fs s) = innerFrames fs + innerStep s
  | [], h => (h rfl).elim
  | [f], _ => by
    simp only [attachFrames, innerFrames, innerSteps_append]
    rw [innerSteps, innerSteps]
    omega
  | f :: f' :: fs, _ => by
    have := innerFrames_attach s (f' :: fs) (by simp)
    simp only [attachFrames, innerFrames] at this ⊢
    omega

theorem innerT_attach (t : Thread) (s : Step) : innerT (t.attach s) = innerT t + innerStep s := by
  unfold Thread.attach
  cases ho : t.outer with
  | nil =>
    simp only [innerT, ho, innerFrames, innerSteps_append]
    rw [innerSteps, innerSteps]
    omega
  | cons f fs =>
    have := innerFrames_attach s (f :: fs) (by simp)
    simp only [innerT, ho, this]
    omega

end Yaclib.Pipeline
