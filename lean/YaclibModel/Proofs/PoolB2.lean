import YaclibModel.Proofs.Pool
namespace Yaclib.Pool
open Yaclib.Extracted.PoolConsts

set_option maxHeartbeats 2000000 in
theorem invB_step_2 {w s l s'} (_ha : InvA w s) (hi : InvB w s) (hs : Step s l s') (hg : grpOf l = 2) : InvB w s' := by
  cases hs with
  | wPop i b j rest h hq => wfacts h; cases hi; invB_close
  | wStop i b h hq hc => wfacts h; cases hi; invB_close
  | wExit i b h hq hc hw => wfacts h; cases hi; invB_close
  | wWait i b h hq hc hw => wfacts h; cases hi; invB_close
  | _ => simp [grpOf] at hg

end Yaclib.Pool
