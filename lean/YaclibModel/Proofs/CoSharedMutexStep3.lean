import YaclibModel.Proofs.CoSharedMutex
namespace Yaclib.CoSharedMutex

set_option maxHeartbeats 4000000 in
theorem inv_step_3 {cfg s l s'} (hi : Inv cfg s) (hs : Step s l s') (hg : grpOf l = 3) : Inv cfg s' := by
  cases hs with
  | rdFsub c h =>
      by_cases hW : s.W = 0
      · cases hi
        simp only [doRdFsub, hW, ↓reduceIte]; sm_auto [List.count_le_length]
      · cases hi
        cases hpw : s.pw <;> simp only [doRdFsub, hW, ↓reduceIte] <;> sm_auto [List.count_le_length]
  | rwFsub c h =>
      cases hi
      by_cases h1 : s.rwait = 1
      · cases hpw : s.pw <;> simp only [doRwFsub, h1, hpw, ↓reduceIte] <;> sm_auto [List.count_le_length]
      · simp only [doRwFsub, h1, ↓reduceIte]; sm_auto [List.count_le_length]
  | _ => simp [grpOf] at hg

end Yaclib.CoSharedMutex
