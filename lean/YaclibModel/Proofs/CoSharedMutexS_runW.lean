import YaclibModel.Proofs.CoSharedMutex
namespace Yaclib.CoSharedMutex

set_option maxHeartbeats 4000000 in
theorem inv_runW {cfg : Cfg} {s : State} (hi : Inv cfg s) (c : Cid) (n : Cid) (h : s.pc c = .uRunW n) :
    Inv cfg ((doRunWriter s c n)) := by
  cases hi
  sm_auto [List.count_le_length]

end Yaclib.CoSharedMutex
