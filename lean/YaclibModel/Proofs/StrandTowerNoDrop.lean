/- C07, towers of strands (8): a strand Drops a job only if the executor below refused one of its activations, so a
   tower over a base that never Drops never Drops — at any level, in any state it can reach.

   "Never Drops" has to be read over the states the executor reaches with protocol-honouring clients (`E.Run`): the
   single-strand transition relation, taken over *all* states, contains `aDrop` steps from (unreachable) states with a
   draining activation, so the unrestricted reading is false for every strand. -/
import YaclibModel.Proofs.StrandTowerN

namespace Yaclib.Strand

/-- the executor keeps accepting work: in no state it reaches (with protocol-honouring clients) does it Drop a job -/
def NeverDropsRun (E : Exec) : Prop :=
  ∀ (x : E.σ) (p : Prot) (l : E.Lab) (x' : E.σ) (a : Nat), E.Run x p → E.step x l x' → E.ev l ≠ some (.drop a)

theorem NeverDropsRun.of_all {E : Exec} (h : ∀ x l x' a, E.step x l x' → E.ev l ≠ some (.drop a)) : NeverDropsRun E :=
  fun x _ l x' a _ hs => h x l x' a hs

/-- only the start of an activation as Drop counts a refusal -/
theorem execDrops_step {u l u'} (hs : Step u l u') (hn : ∀ a, l ≠ .aDropX a) : u'.execDrops = u.execDrops := by
  cases hs with
  | sLoad i v h hj hv => rfl
  | sCasOk i exp h he => rfl
  | sCasFail i exp v h hne hv => rfl
  | sCasSpur i exp h => rfl
  | sSched i h => rfl
  | aCall a h =>
      simp only [doCall]
      split <;> rfl
  | aBegin a j rem h => rfl
  | aEnd a j rem h => rfl
  | aLoad a b h hv => rfl
  | aCasOk a h hw => rfl
  | aCasFail a h hw => rfl
  | aResub a h => rfl
  | aDropX a h => exact absurd rfl (hn a)
  | aDrop a j rem h => rfl

/-- over an executor that never Drops, the strand's activations are never refused -/
theorem prod_no_refusal {w : Workload} {L : Exec} (hL : NeverDropsRun L) {s : (strandExec w L).σ}
    (h : (strandExec w L).Reach s) : s.1.execDrops = 0 := by
  induction h with
  | init => rfl
  | step hr hs ih =>
      obtain ⟨_, hrl, _⟩ := prod_inv hr
      cases hs with
      | up hst hn =>
          simp only at ih ⊢
          rw [execDrops_step hst (fun a hl => by subst hl; simp [syncEv] at hn)]; exact ih
      | @sync u l u' x lx x' pl e hst he hlx hev =>
          simp only at ih ⊢
          by_cases hd : ∃ a, l = Label.aDropX a
          · obtain ⟨a, rfl⟩ := hd
            simp only [syncEv, Option.some.injEq] at he; subst he
            exact absurd hev (hL _ _ _ _ _ hrl hlx)
          · rw [execDrops_step hst (fun a hl => hd ⟨a, hl⟩)]; exact ih
      | low _ _ => exact ih
      | lret _ _ _ _ => exact ih

/-- … so it never Drops a job of its own clients -/
theorem strandExec_never_drops {w : Workload} {L : Exec} (hL : NeverDropsRun L) {s : (strandExec w L).σ}
    (hr : (strandExec w L).Reach s) {l : (strandExec w L).Lab} {s' : (strandExec w L).σ}
    (hs : (strandExec w L).step s l s') (a : Nat) : (strandExec w L).ev l ≠ some (.drop a) := by
  intro hev
  have h0 := prod_no_refusal hL hr
  obtain ⟨hru, _, _⟩ := prod_inv hr
  have hi := inv_reachable hru
  cases hs with
  | up hst hn =>
      simp only [strandExec, pEv] at hev
      cases hst with
      | aDrop b j rem h =>
          have hd := (hi.drop.drain_taken b j (by rw [h]; simp [drainRem])).1
          have := hi.ord.nodrop h0 _ hd
          cases this
      | sLoad i v h hj hv => simp [upEv] at hev
      | sCasOk i exp h he => simp [upEv] at hev
      | sCasFail i exp v h hne hv => simp [upEv] at hev
      | sCasSpur i exp h => simp [upEv] at hev
      | sSched i h => simp [upEv] at hev
      | aCall a h => simp [upEv] at hev
      | aBegin a j rem h => simp [upEv] at hev
      | aEnd a j rem h => simp [upEv] at hev
      | aLoad a b h hv => simp [upEv] at hev
      | aCasOk a h hw => simp [upEv] at hev
      | aCasFail a h hw => simp [upEv] at hev
      | aResub a h => simp [upEv] at hev
      | aDropX a h => simp [upEv] at hev
  | sync _ _ _ _ => simp [strandExec, pEv] at hev
  | low _ _ => simp [strandExec, pEv] at hev
  | lret _ _ _ _ => simp [strandExec, pEv] at hev

theorem strandOver_never_drops {L : Exec} (hL : NeverDropsRun L) : NeverDropsRun (strandOver L) :=
  fun _ _ _ _ a hr hs => strandExec_never_drops hL hr.reach hs a

/-- **a tower of strands over an executor that never Drops never Drops** -/
theorem tower_never_drops {base : Exec} (hb : NeverDropsRun base) : ∀ n, NeverDropsRun (tower base n)
  | 0 => hb
  | n + 1 => strandOver_never_drops (tower_never_drops hb n)

/-- in particular, with clients of any workload on top: no job of the workload is ever Dropped, at any level -/
theorem top_never_drops {w : Workload} {base : Exec} (hb : NeverDropsRun base) {n : Nat} {s : (towerTop w base n).σ}
    (hr : (towerTop w base n).Reach s) : s.1.dropped = [] ∧ s.1.execDrops = 0 := by
  have h0 := prod_no_refusal (tower_never_drops hb n) hr
  obtain ⟨hru, _, _⟩ := prod_inv hr
  have hi := inv_reachable hru
  refine ⟨?_, h0⟩
  cases hd : s.1.dropped with
  | nil => rfl
  | cons j rest =>
      have := hi.ord.nodrop h0 _ (hi.drop.drop_taken j (by rw [hd]; exact List.mem_cons_self))
      cases this

end Yaclib.Strand
