import YaclibModel.Proofs.Shared
namespace Yaclib.Shared

set_option maxHeartbeats 4000000 in
theorem invA_step_3 {w s l s'} (hi : InvA w s) (hs : Step s l s') (hg : grpOf l = 3) : InvA w s' := by
  cases hi
  cases hs with
  | oCasFail t c e x h hw hx =>
      cases x with
      | list l => invA_auto
      | result =>
          by_cases hke : c.kind = .event
          · simp only [reload, failPath, hke, ↓reduceIte]; invA_auto
          · simp only [reload, failPath, hke, ↓reduceIte]; invA_auto
  | oCasSpur t c e x h hw hx =>
      cases x with
      | list l => invA_auto
      | result =>
          by_cases hke : c.kind = .event
          · simp only [reload, failPath, hke, ↓reduceIte]; invA_auto
          · simp only [reload, failPath, hke, ↓reduceIte]; invA_auto
  | oInvoke t c h hk => invA_auto
  | oIncRef t c h hk => invA_auto
  | oSubmit t c h => invA_auto
  | _ => simp [grpOf] at hg

end Yaclib.Shared
