import YaclibModel.Proofs.WhenStepC0
import YaclibModel.Proofs.WhenStepC1
import YaclibModel.Proofs.WhenStepC2
import YaclibModel.Proofs.WhenStepC3
import YaclibModel.Proofs.WhenStepC4
import YaclibModel.Proofs.WhenStepC5
import YaclibModel.Proofs.WhenStepC6
namespace Yaclib.When

theorem Label.grp_lt (l : Label) : l.grp = 0 ∨ l.grp = 1 ∨ l.grp = 2 ∨ l.grp = 3 ∨ l.grp = 4 ∨ l.grp = 5 ∨ l.grp = 6 := by
  cases l <;> simp [Label.grp]

theorem invc_step {w s l s'} (hi : InvC w s) (hs : Step w s l s') : InvC w s' := by
  rcases Label.grp_lt l with h | h | h | h | h | h | h
  · exact invc_step_0 hi hs h
  · exact invc_step_1 hi hs h
  · exact invc_step_2 hi hs h
  · exact invc_step_3 hi hs h
  · exact invc_step_4 hi hs h
  · exact invc_step_5 hi hs h
  · exact invc_step_6 hi hs h

theorem invc_reachable {w s} (h : Reachable w s) : InvC w s := by
  induction h with
  | init => exact inv_init w
  | step _ hs ih => exact invc_step ih hs

end Yaclib.When
