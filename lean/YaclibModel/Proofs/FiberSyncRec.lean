/- Invariant and progress of the C18 model `Rm` (RecursiveMutex / RecursiveTimedMutex). -/
import YaclibModel.Model.FiberSyncRec
import YaclibModel.Proofs.FiberSync

namespace Yaclib.FiberSync.Rm
open Yaclib.FiberSync

theorem mem_of_mem_erase' {l : List Fid} {a f : Fid} (h : a ∈ l.erase f) : a ∈ l := List.mem_of_mem_erase h

theorem erase_nil_of_length {l : List Fid} {f : Fid} (h : f ∈ l) (h1 : l.length - 1 = 0) : l.erase f = [] := by
  have := Mx.length_erase_mem h
  have : (l.erase f).length = 0 := by omega
  exact List.length_eq_zero_iff.mp this

structure Inv (k : Bool) (s : State) : Prop where
  hk : s.timed = k
  cnt : s.count = s.holders.length
  own : ∀ a, a ∈ s.holders → s.owner = some a
  /-- notified fibers re-evaluate the condition next -/
  transit_pc : ∀ g, g ∈ s.transit → (s.pc g).rechecks = true
  /-- no lost wake-up: a free mutex with parked lockers has a notified locker on its way -/
  free_transit : s.count = 0 → s.rq ≠ [] → s.transit ≠ []
  rq_pc : ∀ g, g ∈ s.rq → (s.pc g).inQ = true
  pc_rq : ∀ g, (s.pc g).inQ = true → g ∈ s.rq
  dl : ∀ g r d, s.pc g = .tParked r d → r ≤ d
  t_timed : ∀ g r d, s.pc g = .tParked r d → s.timed = true
  tl_timed : ∀ g r, s.pc g = .tLocking r → s.timed = true

theorem inv_init (k : Bool) (n : Nat) : Inv k (init k n) := by
  constructor <;> (simp only [init]) <;> grind [Pc.inQ, Pc.rechecks]

theorem rechecks_wake {p : Pc} (h : p.inQ = true) : (wake p).rechecks = true := by
  cases p <;> simp_all [Pc.inQ, wake, Pc.rechecks]
theorem wake_not_inQ {p : Pc} (h : p.inQ = true) : (wake p).inQ = false := by
  cases p <;> simp_all [Pc.inQ, wake]
theorem wake_ne_tParked {p : Pc} (h : p.inQ = true) (r d : Nat) : wake p ≠ .tParked r d := by
  cases p <;> simp_all [Pc.inQ, wake]
theorem wake_tLocking {p : Pc} {r : Nat} (h : wake p = .tLocking r) : (∃ d, p = .tParked r d) ∨ p = .tLocking r := by
  cases p <;> simp_all [wake]
theorem inQ_not_rechecks {p : Pc} (h : p.inQ = true) : p.rechecks = false := by
  cases p <;> simp_all [Pc.inQ, Pc.rechecks]

macro "rm_auto" : tactic =>
  `(tactic| (constructor <;> (try simp only [lockHelper, doUnlock, notifyR, doPark, doTlfPark, doTlfTimeout, doTlfRepark,
      Free, PatchPick, PickOk] at *) <;>
      grind [upd_apply, mem_rm, rm_ne_nil, Mx.length_erase_mem, mem_of_mem_erase', erase_nil_of_length, List.length_append,
        Pc.inQ, Pc.rechecks, rechecks_wake, wake_not_inQ, wake_ne_tParked, wake_tLocking,
        inQ_not_rechecks]))

set_option maxHeartbeats 4000000 in
theorem inv_step {k s l s'} (hi : Inv k s) (hs : Step s l s') : Inv k s' := by
  cases hs with
  | lockFast f h hf => cases hi; rm_auto
  | lockPark f h hf => cases hi; rm_auto
  | lockRecheckAcq f h hf => cases hi; rm_auto
  | lockRepark f h hf => cases hi; rm_auto
  | tryOk f h hf => cases hi; rm_auto
  | tryFail f h hf => cases hi; rm_auto
  | unlock f w h hh hw => cases hi; cases w <;> rm_auto
  | tlfFast f hk h hf => cases hi; rm_auto
  | tlfPark f t d j hk h hf ht => cases hi; rm_auto
  | tlfRecheckAcq f req hk h hf => cases hi; rm_auto
  | tlfRepark f req j hk h hf => cases hi; rm_auto
  | tlfTimeout f t req dl hk h hd ht => cases hi; rm_auto
  | sleepStart f t d h ht => cases hi; rm_auto
  | sleepWake f t dl h hd ht => cases hi; rm_auto
  | finish f h => cases hi; rm_auto

theorem inv_reachable {k n s} (h : Reachable k n s) : Inv k s := by
  induction h with
  | init => exact inv_init k n
  | step _ hs ih => exact inv_step ih hs

/-- in a quiescent state every fiber has finished or is parked by `lock()` … -/
theorem quiescent_classify {k s} (hi : Inv k s) (hq : Quiescent s) (f : Fid) : s.pc f = .done ∨ s.pc f = .parked := by
  cases hp : s.pc f with
  | idle => exact absurd (Step.finish s f hp) (hq _ _)
  | done => exact Or.inl rfl
  | parked => exact Or.inr rfl
  | tParked r d =>
      exact absurd (Step.tlfTimeout s f (max s.now d) r d (hi.t_timed f r d hp) hp (Nat.le_max_right _ _)
        (Nat.le_max_left _ _)) (hq _ _)
  | locking =>
      by_cases hf : Free s f
      · exact absurd (Step.lockRecheckAcq s f hp hf) (hq _ _)
      · exact absurd (Step.lockRepark s f hp hf) (hq _ _)
  | tLocking r =>
      by_cases hf : Free s f
      · exact absurd (Step.tlfRecheckAcq s f r (hi.tl_timed f r hp) hp hf) (hq _ _)
      · exact absurd (Step.tlfRepark s f r 0 (hi.tl_timed f r hp) hp hf) (hq _ _)
  | sleeping d =>
      exact absurd (Step.sleepWake s f (max s.now d) d hp (Nat.le_max_right _ _) (Nat.le_max_left _ _)) (hq _ _)

/-- … on a mutex that really is held -/
theorem quiescent_parked_held {k s} (hi : Inv k s) (hq : Quiescent s) (f : Fid) (hp : s.pc f = .parked) :
    s.count ≠ 0 ∧ s.holders ≠ [] := by
  have hrq : s.rq ≠ [] := by
    intro h0
    have := hi.pc_rq f (by rw [hp]; rfl)
    rw [h0] at this; cases this
  have hc : s.count ≠ 0 := by
    intro hc
    have ht := hi.free_transit hc hrq
    cases htr : s.transit with
    | nil => exact ht htr
    | cons g rest =>
        have hw := hi.transit_pc g (by rw [htr]; simp)
        have hfree : Free s g := Or.inl hc
        cases hg : s.pc g with
        | locking => exact (hq _ _) (Step.lockRecheckAcq s g hg hfree)
        | tLocking r => exact (hq _ _) (Step.tlfRecheckAcq s g r (hi.tl_timed g r hg) hg hfree)
        | _ => rw [hg] at hw; simp [Pc.rechecks] at hw
  refine ⟨hc, ?_⟩
  intro h0
  have := hi.cnt
  rw [h0] at this
  exact hc (by simpa using this)

end Yaclib.FiberSync.Rm
