/- Invariant of the C18 model `Rm` (RecursiveMutex / RecursiveTimedMutex) for the code as it is (`patch = false`). -/
import YaclibModel.Model.FiberSyncRec
import YaclibModel.Proofs.FiberSync

namespace Yaclib.FiberSync.Rm
open Yaclib.FiberSync

structure Inv (k : Bool) (s : State) : Prop where
  hk : s.timed = k
  np : s.patch = false
  /-- `_occupied_count` = number of acquisitions not yet released -/
  cnt : s.count = s.holders.length
  /-- every holder is the recorded owner (so all holders are one fiber) -/
  own : ∀ a, a ∈ s.holders → s.owner = some a
  /-- D4: nobody is ever woken by a notify … -/
  no_woke : ∀ g, (s.pc g).woke = false
  no_rechecks : ∀ g, (s.pc g).rechecks = false
  /-- … which is why D6 never strikes -/
  barge0 : s.barge = 0
  rq_pc : ∀ g, g ∈ s.rq → (s.pc g).inQ = true
  pc_rq : ∀ g, (s.pc g).inQ = true → g ∈ s.rq
  dl : ∀ g r d, s.pc g = .tParked r d → r ≤ d
  t_timed : ∀ g r d, s.pc g = .tParked r d → s.timed = true

theorem inv_init (k lp : Bool) (n : Nat) : Inv k (init k false lp n) := by
  constructor <;> (simp only [init]) <;> grind [Pc.woke, Pc.inQ, Pc.rechecks]

theorem mem_of_mem_erase' {l : List Fid} {a f : Fid} (h : a ∈ l.erase f) : a ∈ l := List.mem_of_mem_erase h

theorem erase_nil_of_length {l : List Fid} {f : Fid} (h : f ∈ l) (h1 : l.length - 1 = 0) : l.erase f = [] := by
  have := Mx.length_erase_mem h
  have : (l.erase f).length = 0 := by omega
  exact List.length_eq_zero_iff.mp this

macro "rm_auto" : tactic =>
  `(tactic| (constructor <;> (try simp only [lockHelper, doWokenAcq, doUnlock, notifyR, doPark, doTlfPark, doTlfTimeout, doTlfRepark, Free] at *) <;>
      grind [upd_apply, mem_rm, Mx.length_erase_mem, mem_of_mem_erase', erase_nil_of_length, List.length_append,
        Pc.woke, Pc.inQ, Pc.rechecks]))

set_option maxHeartbeats 4000000 in
theorem inv_step {k s l s'} (hi : Inv k s) (hs : Step s l s') : Inv k s' := by
  cases hs with
  | lockFast f h hf => cases hi; rm_auto
  | lockPark f h hf => cases hi; rm_auto
  | lockWokenAcq f h => have := hi.no_woke f; rw [h] at this; simp [Pc.woke] at this
  | lockRecheckAcq f h hf => have := hi.no_rechecks f; rw [h] at this; simp [Pc.rechecks] at this
  | lockRepark f h hf => have := hi.no_rechecks f; rw [h] at this; simp [Pc.rechecks] at this
  | tryOk f h hf => cases hi; rm_auto
  | tryFail f h hf => cases hi; rm_auto
  | unlock f h hh hp => cases hi; rm_auto
  | unlockPatched f w h hh hp hw => have h1 := hi.np; simp_all
  | tlfFast f hk h hf => cases hi; rm_auto
  | tlfPark f t d j hk h hf ht => cases hi; rm_auto
  | tlfWokenAcq f hk h => have := hi.no_woke f; rw [h] at this; simp [Pc.woke] at this
  | tlfRecheckAcq f req hk h hf => have := hi.no_rechecks f; rw [h] at this; simp [Pc.rechecks] at this
  | tlfRepark f req j hk h hf => have := hi.no_rechecks f; rw [h] at this; simp [Pc.rechecks] at this
  | tlfTimeout f t req dl hk h hd ht => cases hi; rm_auto
  | sleepStart f t d h ht => cases hi; rm_auto
  | sleepWake f t dl h hd ht => cases hi; rm_auto
  | finish f h => cases hi; rm_auto

theorem inv_reachable {k lp n s} (h : Reachable k false lp n s) : Inv k s := by
  induction h with
  | init => exact inv_init k lp n
  | step _ hs ih => exact inv_step ih hs

/-- in a quiescent state every fiber has finished or is parked by `lock()` -/
theorem quiescent_classify {k s} (hi : Inv k s) (hq : Quiescent s) (f : Fid) : s.pc f = .done ∨ s.pc f = .parked := by
  cases hp : s.pc f with
  | idle => exact absurd (Step.finish s f hp) (hq _ _)
  | done => exact Or.inl rfl
  | parked => exact Or.inr rfl
  | woken => exact absurd (Step.lockWokenAcq s f hp) (hq _ _)
  | tParked r d =>
      exact absurd (Step.tlfTimeout s f (max s.now d) r d (hi.t_timed f r d hp) hp (Nat.le_max_right _ _)
        (Nat.le_max_left _ _)) (hq _ _)
  | tWoken => have := hi.no_woke f; rw [hp] at this; simp [Pc.woke] at this
  | locking => have := hi.no_rechecks f; rw [hp] at this; simp [Pc.rechecks] at this
  | tLocking r => have := hi.no_rechecks f; rw [hp] at this; simp [Pc.rechecks] at this
  | sleeping d =>
      exact absurd (Step.sleepWake s f (max s.now d) d hp (Nat.le_max_right _ _) (Nat.le_max_left _ _)) (hq _ _)

end Yaclib.FiberSync.Rm
