import YaclibModel.Proofs.Unique
namespace Yaclib.Unique

set_option maxHeartbeats 4000000 in
theorem inv_step_4 {w s l s'} (hi : Inv w s) (hs : Step s l s') (hg : grpOf l = 4) : Inv w s' := by
  cases hi
  cases hs with
  | cCasFail k h hw =>
      cases k <;> cases hwf : s.waitFin <;>
        simp only [afterFail, hwf, Bool.false_eq_true, ↓reduceIte] <;> inv_auto
  | _ => simp [grpOf] at hg

end Yaclib.Unique
