import YaclibModel.Proofs.CoMutex
namespace Yaclib.CoMutex

set_option maxHeartbeats 1000000 in
theorem inv_step_3 {cfg s l s'} (hi : Inv cfg s) (hs : Step s l s') (hg : grpOf l = 3) : Inv cfg s' := by
  cases hi
  cases hs with
  | ulLoad c k d sawEmpty h hr hsl => cases sawEmpty <;> inv_auto
  | ulCasOk c k d h hw => cases d <;> inv_auto [length_pos_of_ne_nil]
  | ulCasFail c k d h hw => inv_auto [Word.list_eq_nil]
  | ulXchg c k d l h hw hl => cases hf : s.cfg.fifo <;> inv_auto [List.reverse_eq_nil_iff]
  | _ => simp [grpOf] at hg

end Yaclib.CoMutex
