/- Structural invariant of the combinator model: registration loop, reference count, destructor exclusivity,
   consumption / release ghosts. -/
import YaclibModel.Proofs.WhenBase

namespace Yaclib.When

structure InvC (w : Workload) (s : State) : Prop where
  reg_le : s.reg ≤ w.n
  unreg : ∀ j, s.pc j = .unreg ↔ s.reg ≤ j
  busy : ∀ i, s.busy = some i → active (s.pc i) = true
  /-- the reference count is the number of inputs whose consumption has not dropped its reference yet -/
  count : s.count = cntH s.pc w.n
  /-- whoever runs the destructor is alone: every other consumption has finished -/
  dtor : ∀ i j, inDtor (s.pc i) = true → j < w.n → j ≠ i → s.pc j = .done
  dt_cnt : s.dt ≠ none → s.count = 0
  cnt_dt : s.count = 0 → w.n ≠ 0 → s.dt ≠ none
  dt_pc : ∀ i, s.dt = some i → holding (s.pc i) = false
  dtor_dt : ∀ i, inDtor (s.pc i) = true → s.dt = some i
  rel_le : s.relIdx ≤ w.n
  dtorRel : ∀ i j, s.pc i = .dtorRel j → j < w.n ∧ s.relIdx = j ∧ w.strat.isAllVec = true
  dtorSet_rel : ∀ i, s.pc i = .dtorSet → w.strat.isAllVec = true → s.relIdx = w.n
  dt_done_rel : ∀ i, s.dt = some i → s.pc i = .done → w.strat.isAllVec = true → s.relIdx = w.n
  rel0 : s.dt = none → s.relIdx = 0
  rel_nv : w.strat.isAllVec = false → s.relIdx = 0
  released_m : w.strat.managed = true → ∀ j, s.released j = if beforeRetire (s.pc j) = true then 0 else 1
  released_o : w.strat.managed = false → ∀ j, s.released j = if j < s.relIdx then 1 else 0
  retire_m : ∀ j, s.pc j = .retire → w.strat.managed = true
  consumed : ∀ j, s.consumed j = if entered (s.pc j) = true then 1 else 0
  word : ∀ i, s.pc i = .load ∨ s.pc i = .rmw → w.strat.hasWord = true ∧ (w.strat.allFF = true → ok (w.inp i) = false)
  setout : ∀ i o, s.pc i = .setOut o → o = .one (w.inp i)

theorem InvC.idx {w s} (hi : InvC w s) {i : Nat} (h : s.pc i ≠ .unreg) : i < w.n := by
  have h1 : ¬ s.reg ≤ i := fun hle => h ((hi.unreg i).mpr hle)
  have := hi.reg_le
  omega

/-- the consumption that sees `count = 1` is the only one still holding a reference -/
theorem InvC.last_holder {w s} (hi : InvC w s) {i j : Nat} (hc : s.count = 1) (hh : holding (s.pc i) = true)
    (hne : s.pc i ≠ .unreg) (hj : j < w.n) (hji : j ≠ i) : holding (s.pc j) = false := by
  have h1 := hi.count
  rw [hc] at h1
  exact cnt_one_unique (p := fun j => holding (s.pc j)) h1.symm (hi.idx hne) hh hj hji

theorem InvC.count_pos {w s} (hi : InvC w s) {i : Nat} (hh : holding (s.pc i) = true) (hne : s.pc i ≠ .unreg) :
    0 < s.count := by
  rw [hi.count]
  exact cnt_pos (p := fun j => holding (s.pc j)) (hi.idx hne) hh

/-- splits the preservation proofs over several files (by label) so that they compile in parallel -/
def Label.grp : Label → Nat
  | .regSet _ _ | .fire _ | .retire _ => 0
  | .loadFlag _ _ | .xchgFlag _ _ | .setOut _ _ => 1
  | .load3 _ _ | .xchg3 _ _ | .cas3 _ _ => 2
  | .loadLf _ _ | .xchgLf _ _ | .fsubLf _ _ => 3
  | .dec _ _ => 4
  | .dtorRel _ _ => 5
  | .dtorSet _ _ | .dtorThrow _ | .crash _ => 6

macro "invc_auto" : tactic =>
  `(tactic| (constructor <;> (try simp only [doRegSet, doFire, doRetire, doLoadFlag, doXchgFlag, doLoad3, doXchg3, doCas3, doLoadLf,
      doXchgLf, doFsubLf, doSetOut, doDec, doDtorRel, doDtorSet, setPc, finish] at *) <;>
      grind [= upd_apply, cntH_upd, active, holding, inDtor, beforeRetire, entered, done_of_not_holding, Strat.managed, Strat.isAllVec]))

theorem inv_init (w : Workload) : InvC w (init w) := by
  constructor <;> simp [init, active, holding, inDtor, beforeRetire, entered, cntH]
  · have : cnt (fun _ => true) w.n = w.n := by
      induction w.n with
      | zero => rfl
      | succ k ih => simp [cnt, ih]
    exact this.symm

end Yaclib.When
