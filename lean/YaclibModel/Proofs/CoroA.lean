/- preservation of the structural invariant InvA -/
import YaclibModel.Proofs.Coro
namespace Yaclib.Coro

macro "invA_auto" : tactic =>
  `(tactic| (constructor <;> (simp only [doStart, regFrom, afterReg, doReady, doMReady, regFail, doRegLoad, doCasOk, doMsub, doMsuspend,
      doTstore, doFire, doSubmit, doDrop, doResume, doCurrent, doLdtor, doRet, doPublish, doFdtor, doTdtor, State.setWord] at *) <;>
      grind [inOp, pcKindOk, emptyBased, isMulti, execOk, ctxOk, ownKind, pcExec, ctxOk_of_execOk, List.length_set, List.length_replicate, drop_succ_of_cons]))

set_option maxHeartbeats 4000000 in
theorem invA_step_env {w s l s'} (ha : InvA w s) (hs : Step s l s')
    (hl : match l with | .pXchg _ | .envPush _ | .envSwap _ _ | .exCall | .exDrop | .ldtor | .ret | .publish _ | .fdtor
                       | .rdLoad _ | .mload _ | .submit _ | .current _ | .tdtor _ => True | _ => False) : InvA w s' := by
  cases ha
  cases hs with
  | pXchg j l f hw hl => invA_auto
  | envPush j l f hw hu => invA_auto
  | envSwap j e hu => invA_auto
  | exCall e h => invA_auto
  | exDrop e h => invA_auto
  | ldtor h hl => invA_auto
  | ret h ht => invA_auto
  | publish r h hr hl => invA_auto
  | fdtor h hl => invA_auto
  | rdLoad op rest j x h ht hj hx => invA_auto
  | mload v h hv => invA_auto
  | submit e h => invA_auto
  | current op rest h ht => invA_auto
  | tdtor j h hl hr => invA_auto
  | _ => simp at hl

end Yaclib.Coro
