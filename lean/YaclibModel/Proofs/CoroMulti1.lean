/- the multi-coroutine system: basic lemmas about views and about which one-coroutine steps touch the cells -/
import YaclibModel.Model.CoroMulti
import YaclibModel.Proofs.CoroAll

namespace Yaclib.CoroMulti
open Yaclib.Coro

theorem getD_map_range {α} (n j : Nat) (f : Nat → α) (d : α) :
    ((List.range n).map f).getD j d = if j < n then f j else d := by
  simp only [List.getD_eq_getElem?_getD, List.getElem?_map, List.getElem?_range]
  split <;> rename_i h
  · simp [List.getElem?_range h]
  · rw [List.getElem?_eq_none (by simp; omega)]; simp

theorem proj_cell (W : MWorkload) (i j : Nat) : (W.proj i).cell j = W.cellW i j := by
  simp only [Workload.cell, MWorkload.proj, getD_map_range]
  split
  · rfl
  · rename_i h
    have hg : W.gcell j = {} := by
      simp only [MWorkload.gcell, List.getD_eq_getElem?_getD]
      rw [List.getElem?_eq_none (by omega)]; rfl
    simp [MWorkload.cellW, hg]

theorem proj_w_prog (W : MWorkload) (i : Nat) : (W.proj i).prog = (W.co i).prog := rfl

theorem proj_init (W : MWorkload) (i : Nat) : (minit W).proj W i = init (W.proj i) := by
  simp only [MState.proj, minit, init]
  congr 1
  funext j
  simp only [viewCell, proj_cell]
  split <;> simp [initCell, viewWord, mineOf, hasOther, MWorkload.cellW]

theorem proj_cells (W : MWorkload) (S : MState) (i j : Nat) : (S.proj W i).cells j = viewCell W i j (S.cells j) := rfl

/-- two states of the system with the same private part of coroutine k and the same view of the cells project alike -/
theorem proj_congr {W : MWorkload} {S S' : MState} {k : Nat} (hc : S'.cor k = S.cor k)
    (hv : ∀ j, viewCell W k j (S'.cells j) = viewCell W k j (S.cells j)) : S'.proj W k = S.proj W k := by
  simp only [MState.proj, hc]
  congr 1
  funext j; exact hv j

theorem proj_of_cells {W : MWorkload} {S' : MState} {k : Nat} {s' : State} (hc : S'.cor k = s')
    (hv : ∀ j, viewCell W k j (S'.cells j) = s'.cells j) : S'.proj W k = s' := by
  simp only [MState.proj, hc]
  have : (fun j => viewCell W k j (S'.cells j)) = s'.cells := funext hv
  rw [this]

theorem mineOf_cons_self (i p : Nat) (l : List (Nat × Nat)) : mineOf i ((i, p) :: l) = p :: mineOf i l := by
  simp [mineOf]

theorem mineOf_cons_other {i k p : Nat} (l : List (Nat × Nat)) (h : k ≠ i) : mineOf i ((k, p) :: l) = mineOf i l := by
  simp [mineOf, h]

theorem hasOther_cons_self (i p : Nat) (l : List (Nat × Nat)) : hasOther i ((i, p) :: l) = hasOther i l := by
  simp [hasOther]

theorem hasOther_cons_other {i k p : Nat} (l : List (Nat × Nat)) (h : k ≠ i) : hasOther i ((k, p) :: l) = true := by
  simp [hasOther, h]

theorem mineOf_erase_other {i k p : Nat} (l : List (Nat × Nat)) (h : k ≠ i) : mineOf i (l.erase (k, p)) = mineOf i l := by
  induction l with
  | nil => rfl
  | cons c t ih =>
      by_cases hc : c = (k, p)
      · subst hc; simp [mineOf_cons_other t h]
      · rw [List.erase_cons_tail (by simpa using hc)]
        simp only [mineOf, List.filterMap_cons] at ih ⊢
        split <;> simp_all

theorem mineOf_erase_self (i p : Nat) (l : List (Nat × Nat)) : mineOf i (l.erase (i, p)) = (mineOf i l).erase p := by
  induction l with
  | nil => rfl
  | cons c t ih =>
      obtain ⟨c1, c2⟩ := c
      by_cases hc : (c1, c2) = (i, p)
      · cases hc; simp [mineOf_cons_self]
      · rw [List.erase_cons_tail (by simpa using hc)]
        by_cases h1 : c1 = i
        · subst h1
          have h2 : c2 ≠ p := by intro h; exact hc (by rw [h])
          rw [mineOf_cons_self, mineOf_cons_self, ih, List.erase_cons_tail (by simpa using h2)]
        · rw [mineOf_cons_other _ h1, mineOf_cons_other _ h1, ih]

/-! which steps of the one-coroutine model change the cells -/

def cellLabel : Label → Bool
  | .cas _ .ok | .fire _ _ | .tstore | .pXchg _ | .envPush _ | .envSwap _ _ => true
  | _ => false

theorem afterReg_cells (s : State) (op : Op) : (afterReg s op).cells = s.cells := by
  simp only [afterReg]; split <;> (try split) <;> rfl
theorem regFrom_cells (s : State) (op : Op) (p : Nat) : (regFrom s op p).cells = s.cells := by
  simp only [regFrom]; split
  · rfl
  · exact afterReg_cells s op
theorem regFail_cells (s : State) (op : Op) (p : Nat) : (regFail s op p).cells = s.cells := by
  simp only [regFail]; rw [regFrom_cells]
theorem doStart_cells (s : State) (op : Op) : (doStart s op).cells = s.cells := by
  simp only [doStart]; split <;> (try rw [regFrom_cells]) <;> rfl

theorem step_cells_same {s : State} {l : Label} {s' : State} (hs : Step s l s') (hl : cellLabel l = false) :
    s'.cells = s.cells := by
  cases hs with
  | pXchg j l f hw hl' => simp [cellLabel] at hl
  | envPush j l f hw hu => simp [cellLabel] at hl
  | envSwap j e hu => simp [cellLabel] at hl
  | fire op rest j p walk ht hw hp => simp [cellLabel] at hl
  | casOk op rest p j l f h ht hj hw hu => simp [cellLabel] at hl
  | tstore op rest j h ht hj => simp [cellLabel] at hl
  | exCall e h => rfl
  | exDrop e h => rfl
  | start op rest h ht => exact doStart_cells s op
  | rdLoad op rest j x h ht hj hx => rfl
  | ready x h => simp only [doReady]; split <;> rfl
  | mready v h => simp only [doMReady]; split <;> rfl
  | regLoad op rest p j x h ht hj hx => simp only [doRegLoad]; split; rfl; exact regFail_cells s op p
  | casRetry op rest p j h ht hj hw hu => rfl
  | casFail op rest p j h ht hj hw => exact regFail_cells s op p
  | msub op rest h ht => rfl
  | mload v h hv => rfl
  | msuspend op rest h ht => simp only [doMsuspend]; split <;> rfl
  | submit e h => rfl
  | resume op rest c h ht => rfl
  | current op rest h ht => rfl
  | tdtor j h hl' hr => rfl
  | ret h ht => rfl
  | ldtor h hl' => rfl
  | publish r h hr hl' => rfl
  | fdtor h hl' => rfl

theorem gcellsAfter_same (S : MState) (i : Nat) {l : Label} (hl : cellLabel l = false) : gcellsAfter S i l = S.cells := by
  cases l <;> simp_all [cellLabel, gcellsAfter]
  rename_i p o; cases o <;> simp_all [cellLabel]

end Yaclib.CoroMulti
