import YaclibModel.Proofs.When
namespace Yaclib.When

set_option maxHeartbeats 4000000 in
theorem invc_step_1 {w s l s'} (hi : InvC w s) (hs : Step w s l s') (hg : l.grp = 1) : InvC w s' := by
  have hidx := @InvC.idx w s hi
  have hlast := @InvC.last_holder w s hi
  have hpos := @InvC.count_pos w s hi
  cases hi
  cases hs with
  | loadFlag i b hc hp hs hb =>
      have h1 := consumeStart_cases w.strat (w.inp i)
      have h2 := afterRetire_cases w.strat (w.inp i)
      have h3 := lose_cases w.strat
      cases b <;> invc_auto
  | xchgFlag i hc hp hs =>
      have h1 := consumeStart_cases w.strat (w.inp i)
      have h2 := afterRetire_cases w.strat (w.inp i)
      have h3 := lose_cases w.strat
      cases hf : s.flag <;> simp only [doXchgFlag, hf] <;> invc_auto
  | setOut i o hc hp =>
      invc_auto
  | _ => simp [Label.grp] at hg

end Yaclib.When
