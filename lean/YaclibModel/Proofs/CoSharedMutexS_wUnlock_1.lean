import YaclibModel.Proofs.CoSharedMutex
namespace Yaclib.CoSharedMutex

set_option maxHeartbeats 4000000 in
theorem inv_wUnlock_1 {cfg : Cfg} {s : State} (hi : Inv cfg s) (c : Cid) (k : WUnl) (h : s.pc c = .wUnl k) (hs : s.spin = .held c) (hk : k = .acq) :
    Inv cfg ((doWUnlock s c k)) := by
  subst hk
  cases hi
  simp only [doWUnlock]
  sm_auto [List.count_le_length]

end Yaclib.CoSharedMutex
