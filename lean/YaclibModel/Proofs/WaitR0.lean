/- C11 invariant: the loop-exit tests of the registration loop and of the reset loop -/
import YaclibModel.Proofs.WaitAuto

namespace Yaclib.Wait
variable {w : Workload} {s : State}

theorem advReg_wpc (s : State) (c : WPc) (i : Nat) : advReg { s with wpc := c } i = advReg s i := by
  simp [advReg, toRet]

theorem advRst_wpc (s : State) (c : WPc) (i : Nat) : advRst { s with wpc := c } i = advRst s i := by
  simp [advRst, finalWait]

set_option maxHeartbeats 1000000 in
/-- the loop-exit test of the registration loop -/
theorem inv_advReg (hi : InvG false w s) (i : Nat) (hp : s.wpc = .reg i) : Inv w (advReg s i) := by
  have hal : s.alive = true := hi.alive_iff.mpr (by simp [hp, WPc.inCall])
  have hr := hi.reg_inv i (Or.inl hp)
  unfold advReg
  by_cases h1 : i < s.hi
  · simp only [h1, ↓reduceIte]
    inv_fields_pc hi hp
  · have hih : i = s.hi := by omega
    simp only [h1, ↓reduceIte]
    by_cases h0 : s.wc = 0
    · have hout := hi.all_out hal h0
      have hdead : ∀ j, (s.fut j).word ≠ .ev ∧ (s.fut j).ppc ≠ .took ∧ (s.fut j).ppc ≠ .setting ∧ (s.fut j).ppc ≠ .locked := by
        intro j
        have := hout j; have := hi.g_ev hal j; have := hi.g_took hal j; have := hi.g_set hal j
        grind
      have hres : ∀ j, s.lo ≤ j → j < s.hi → (s.fut j).word = .result := by
        intro j h1 h2
        exact hi.g_out hal j h1 (by simp only [regBound, hp]; omega) (hout j)
      simp only [h0, ↓reduceIte, toRet]
      by_cases hg : s.inGet = true
      · simp only [hg, ↓reduceIte]
        inv_fields_pc hi hp
      · simp only [hg]
        inv_fields_pc hi hp
    · simp only [h0, ↓reduceIte]
      by_cases hone : s.hi - s.lo = 1
      · simp only [hone, ↓reduceIte]
        inv_fields_pc hi hp
      · simp only [hone, ↓reduceIte]
        inv_fields_pc hi hp

set_option maxHeartbeats 1000000 in
/-- the loop-exit test of the reset loop -/
theorem inv_advRst (hi : InvG false w s) (i : Nat) (hp : s.wpc = .rst i) : Inv w (advRst s i) := by
  have hal : s.alive = true := hi.alive_iff.mpr (by simp [hp, WPc.inCall])
  have hr := hi.rst_inv i (Or.inl hp)
  have hres := hi.resetting (by simp [hp, WPc.resetting])
  have hpost := hi.post_inv (by simp [hp, WPc.postReg])
  unfold advRst
  by_cases h1 : i < s.hi
  · simp only [h1, ↓reduceIte]
    inv_fields_pc hi hp
  · have hih : i = s.hi := by omega
    have hNinn : Ninn s = 0 := by
      apply cntG_zero_of
      intro j hj
      by_cases hlo : s.lo ≤ j
      · exact hi.rst_lo hal j hlo (by simp only [rstBound, hp]; omega)
      · intro hg; have := hi.g_range hal j (by simp [hg]); omega
    have hNback := hi.c_rc hal
    have hwc := hi.c_wc hal
    simp only [h1, ↓reduceIte]
    by_cases hb : s.rc ≠ 0 ∧ s.rc = s.wc
    · have hNt : Ntaken s = 0 := by omega
      have hNd : Ndecd s = 0 := by omega
      have hnos : s.setter = none := by
        cases hs : s.setter with
        | none => rfl
        | some j => exact absurd (hi.set_g hal j hs) (hi.none_of_zero hal (by simp) hNd j)
      have hclean := hi.clean_of hal hNinn hNt hnos
      rw [if_pos hb]
      inv_fields_pc hi hp
    · rw [if_neg hb]
      by_cases hc : s.rc ≠ 0 ∧ s.hi - s.lo ≠ 1
      · rw [if_pos hc]
        inv_fields_pc hi hp
      · rw [if_neg hc]
        simp only [finalWait, hres.1, Bool.false_eq_true, ↓reduceIte]
        inv_fields_pc hi hp

end Yaclib.Wait
