/- Invariants of the C07 model, part 2: order of pushes, of batches and of execution. -/
import YaclibModel.Proofs.Strand

namespace Yaclib.Strand

/-- jobs of the same submitter appear in program order -/
def sameSubLt (a b : JobId) : Prop := a.sub = b.sub → a.idx < b.idx

/-- the jobs taken by Call activations, in push order -/
def calls (l : List (JobId × Bool)) : List JobId := (l.filter (·.2)).map Prod.fst
def fsts (l : List (JobId × Bool)) : List JobId := l.map Prod.fst

theorem calls_append_true (l : List (JobId × Bool)) (b : List JobId) :
    calls (l ++ b.map (tag true)) = calls l ++ b := by
  simp [calls, tag, List.filter_map, List.map_map, Function.comp_def]

theorem calls_append_false (l : List (JobId × Bool)) (b : List JobId) :
    calls (l ++ b.map (tag false)) = calls l := by
  simp [calls, tag, List.filter_map, Function.comp_def]

theorem fsts_append (l : List (JobId × Bool)) (b : List JobId) (x : Bool) :
    fsts (l ++ b.map (tag x)) = fsts l ++ b := by
  simp [fsts, tag, List.map_map, Function.comp_def]

theorem mem_map_tag {l : List JobId} {b : Bool} {p : JobId × Bool} (h : p ∈ l.map (tag b)) : p.2 = b ∧ p.1 ∈ l := by
  simp only [List.mem_map, tag] at h
  obtain ⟨x, hx, rfl⟩ := h
  exact ⟨rfl, hx⟩

theorem calls_sublist (l : List (JobId × Bool)) : (calls l).Sublist (fsts l) := by
  unfold calls fsts
  exact List.Sublist.map _ List.filter_sublist

theorem mem_calls {l : List (JobId × Bool)} {j : JobId} : j ∈ calls l ↔ (j, true) ∈ l := by
  simp [calls]

theorem mem_fsts {l : List (JobId × Bool)} {j : JobId} : j ∈ fsts l ↔ (j, true) ∈ l ∨ (j, false) ∈ l := by
  simp only [fsts, List.mem_map]
  constructor
  · rintro ⟨⟨j', b⟩, hm, rfl⟩
    cases b
    · exact Or.inr hm
    · exact Or.inl hm
  · rintro (h | h)
    · exact ⟨_, h, rfl⟩
    · exact ⟨_, h, rfl⟩

structure InvOrd (w : Workload) (s : State) : Prop where
  push_lt : ∀ j ∈ s.pushOrder, j.idx < s.sidx j.sub
  push_mem : ∀ i k, k < s.sidx i → (⟨i, k⟩ : JobId) ∈ s.pushOrder
  push_pw : s.pushOrder.Pairwise sameSubLt
  /-- every successful push is either already taken by an exchange or still in the inbox, in push order -/
  order : s.pushOrder = fsts s.taken ++ s.word.inbox.reverse
  /-- what was taken by Call activations is exactly what has been executed, plus the rest of the current batch -/
  exec_eq : calls s.taken = s.executed ++ curRem s
  nodrop : s.execDrops = 0 → ∀ p ∈ s.taken, p.2 = true

theorem invOrd_init (w : Workload) : InvOrd w (init w) := by
  constructor <;> simp [init, calls, fsts, curRem, remOf, Word.inbox]

macro "ord_simp" : tactic =>
  `(tactic| simp only [doLoad, doCasOk, doSched, doCall, doBegin, doEnd, doALoad, doACasOk, doACasFail, doResub, doDropX,
      doDrop, curRem, upd] at *)

macro "ord_auto" : tactic =>
  `(tactic| (constructor <;> ord_simp <;>
      grind [upd, remOf, callRem, Word.inbox, calls_append_true, calls_append_false, fsts_append, mem_map_tag, tag]))

end Yaclib.Strand
