/- C13 over a real executor (2): the coupling between the coroutine and the executor's protocol state; the resumed segment runs
   inside a `call`; quiescence under the executor contract -/
import YaclibModel.Proofs.CoroExec

namespace Yaclib.Coro
open Yaclib.Strand (Exec XEv Prot Phase specPre specPost protInit ExecContract)

structure XInv {E : Exec} (ex : Nat) (s : XState E) : Prop where
  fresh : ∀ a, s.p a = .fresh ↔ s.nj ≤ a
  job_q : s.m.pc = .queued ex ↔ s.job ≠ none
  job_p : ∀ j, s.job = some j → s.p j = .pending
  calls_p : ∀ j, j ∈ s.calls → s.p j = .calling
  calls_nd : s.calls.Nodup
  owner_p : ∀ a, s.p a = .pending → s.job = some a
  owner_c : ∀ a, s.p a = .calling → a ∈ s.calls
  /-- **the segment resumed by `ex` runs inside a `call` of `E`** -/
  wake : s.m.pc = .wake (.exec ex) → ∃ j rest, s.calls = j :: rest

theorem xinv_init (w : Workload) (E : Exec) (ex : Nat) : XInv ex (xinit w E) := by
  constructor <;> simp [xinit, protInit, init]

theorem xinv_step {w : Workload} {E : Exec} {ex : Nat} (hwf : w.WF) {s s' : XState E} {l : XLab}
    (hr : XReach w E ex s) (hi : XInv ex s) (hs : XStep E ex s l s') : XInv ex s' := by
  have hb := (inv_reachable hwf (xcoro_projects hr).1).b
  obtain ⟨hf, hq, hjp, hcp, hnd, hop, hoc, hwk⟩ := hi
  have lt_of : ∀ a, s.p a ≠ .fresh → a < s.nj := by
    intro a ha
    have : ¬ s.nj ≤ a := fun h => ha ((hf a).mpr h)
    omega
  cases hs with
  | @plain l m' hst hsy =>
      have ht := pc_track hb hst ex
      refine ⟨hf, ⟨fun h => ?_, fun h => ?_⟩, hjp, hcp, hnd, hop, hoc, fun h => ?_⟩
      · rcases ht.into h with h1 | h1
        · exact hq.mp h1
        · subst h1; simp [synced] at hsy
      · rcases ht.outof (hq.mpr h) with h1 | h1 | h1
        · exact h1
        · subst h1; simp [synced, hq.mpr h] at hsy
        · subst h1; simp [synced, hq.mpr h] at hsy
      · rcases ht.wake h with h1 | ⟨h1, h2⟩
        · exact hwk h1
        · subst h1; simp [synced, h2] at hsy
  | @sub m' lx x' hst hx hev hfr =>
      have hpc : s.m.pc = .subm ex ∧ m'.pc = .queued ex := by
        cases hst with
        | submit _ h => exact ⟨h, rfl⟩
      have hnone : s.job = none := by
        cases hj : s.job with
        | none => rfl
        | some j => have := hq.mpr (by rw [hj]; simp); rw [hpc.1] at this; cases this
      refine ⟨fun a => ?_, ⟨fun _ => (by simp), fun _ => hpc.2⟩, fun j hj => ?_, fun j hj => ?_, hnd, fun a ha => ?_, fun a ha => ?_,
        fun h => (by rw [hpc.2] at h; cases h)⟩
      · simp only [specPost, Yaclib.Strand.upd]
        by_cases ha : a = s.nj
        · subst ha; simp
        · simp only [ha, ↓reduceIte]; rw [hf a]; omega
      · simp only [Option.some.injEq] at hj; subst hj; simp [specPost, Yaclib.Strand.upd]
      · have := hcp j hj
        have hne : j ≠ s.nj := by intro h; subst h; rw [hfr] at this; cases this
        simp only [specPost, Yaclib.Strand.upd, hne, ↓reduceIte]; exact this
      · simp only [specPost, Yaclib.Strand.upd] at ha
        by_cases han : a = s.nj
        · subst han; rfl
        · simp only [han, ↓reduceIte] at ha
          have := hop a ha; rw [hnone] at this; cases this
      · simp only [specPost, Yaclib.Strand.upd] at ha
        by_cases han : a = s.nj
        · subst han; simp at ha
        · simp only [han, ↓reduceIte] at ha; exact hoc a ha
  | @call j m' lx x' hst hpc hj hx hev =>
      have hm' : m'.pc = .wake (.exec ex) := by
        cases hst with
        | exCall e h => rw [hpc] at h; cases h; rfl
      have hpj := hjp j hj
      have hjn : j ∉ s.calls := by intro h; have := hcp j h; rw [hpj] at this; cases this
      refine ⟨fun a => ?_, ⟨fun h => (by rw [hm'] at h; cases h), fun h => (by simp at h)⟩, fun k hk => (by cases hk),
        fun k hk => ?_, List.nodup_cons.mpr ⟨hjn, hnd⟩, fun a ha => ?_, fun a ha => ?_, fun _ => ⟨j, s.calls, rfl⟩⟩
      · simp only [specPost, Yaclib.Strand.upd]
        by_cases ha : a = j
        · subst ha; have := lt_of a (by rw [hpj]; simp); simp; omega
        · simp only [ha, ↓reduceIte]; exact hf a
      · simp only [specPost, Yaclib.Strand.upd]
        by_cases hkj : k = j
        · simp [hkj]
        · simp only [hkj, ↓reduceIte]
          rcases List.mem_cons.mp hk with h | h
          · exact absurd h hkj
          · exact hcp k h
      · simp only [specPost, Yaclib.Strand.upd] at ha
        by_cases haj : a = j
        · subst haj; simp at ha
        · simp only [haj, ↓reduceIte] at ha
          have := hop a ha; rw [hj] at this; cases this; exact absurd rfl haj
      · simp only [specPost, Yaclib.Strand.upd] at ha
        by_cases haj : a = j
        · subst haj; exact List.mem_cons_self
        · simp only [haj, ↓reduceIte] at ha; exact List.mem_cons_of_mem _ (hoc a ha)
  | @drop j m' lx x' hst hpc hj hx hev =>
      have hm' : m'.pc = .fin := by
        cases hst with
        | exDrop e h => rfl
      have hpj := hjp j hj
      refine ⟨fun a => ?_, ⟨fun h => (by rw [hm'] at h; cases h), fun h => (by simp at h)⟩, fun k hk => (by cases hk),
        fun k hk => ?_, hnd, fun a ha => ?_, fun a ha => ?_, fun h => (by rw [hm'] at h; cases h)⟩
      · simp only [specPost, Yaclib.Strand.upd]
        by_cases ha : a = j
        · subst ha; have := lt_of a (by rw [hpj]; simp); simp; omega
        · simp only [ha, ↓reduceIte]; exact hf a
      · have := hcp k hk
        have hkj : k ≠ j := by intro h; subst h; rw [hpj] at this; cases this
        simp only [specPost, Yaclib.Strand.upd, hkj, ↓reduceIte]; exact this
      · simp only [specPost, Yaclib.Strand.upd] at ha
        by_cases haj : a = j
        · subst haj; simp at ha
        · simp only [haj, ↓reduceIte] at ha
          have := hop a ha; rw [hj] at this; cases this; exact absurd rfl haj
      · simp only [specPost, Yaclib.Strand.upd] at ha
        by_cases haj : a = j
        · subst haj; simp at ha
        · simp only [haj, ↓reduceIte] at ha; exact hoc a ha
  | @ret j lx x' hx hev hjc hpj hhead =>
      refine ⟨fun a => ?_, hq, fun k hk => ?_, fun k hk => ?_, hnd.erase j, fun a ha => ?_, fun a ha => ?_, fun h => ?_⟩
      · simp only [specPost, Yaclib.Strand.upd]
        by_cases ha : a = j
        · subst ha; have := lt_of a (by rw [hpj]; simp); simp; omega
        · simp only [ha, ↓reduceIte]; exact hf a
      · have := hjp k hk
        have hkj : k ≠ j := by intro h; subst h; rw [hpj] at this; cases this
        simp only [specPost, Yaclib.Strand.upd, hkj, ↓reduceIte]; exact this
      · have hk' := (List.Nodup.mem_erase_iff hnd).mp hk
        simp only [specPost, Yaclib.Strand.upd, hk'.1, ↓reduceIte]; exact hcp k hk'.2
      · simp only [specPost, Yaclib.Strand.upd] at ha
        by_cases haj : a = j
        · subst haj; simp at ha
        · simp only [haj, ↓reduceIte] at ha; exact hop a ha
      · simp only [specPost, Yaclib.Strand.upd] at ha
        by_cases haj : a = j
        · subst haj; simp at ha
        · simp only [haj, ↓reduceIte] at ha
          exact (List.Nodup.mem_erase_iff hnd).mpr ⟨haj, hoc a ha⟩
      · -- the segment resumed by `ex` has not ended: the newest call cannot return, an older one may
        obtain ⟨j0, rest, hc⟩ := hwk h
        have hne : j ≠ j0 := by
          intro he; subst he
          have := hhead (by rw [hc]; rfl)
          rw [h] at this; cases this
        refine ⟨j0, rest.erase j, ?_⟩
        simp only; rw [hc, List.erase_cons_tail (by simpa using Ne.symm hne)]
  | low hx hev => exact ⟨hf, hq, hjp, hcp, hnd, hop, hoc, hwk⟩

theorem xinv_reach {w : Workload} {E : Exec} {ex : Nat} (hwf : w.WF) {s : XState E} (h : XReach w E ex s) : XInv ex s := by
  induction h with
  | init => exact xinv_init w E ex
  | step hr hs ih => exact xinv_step hwf hr ih hs

/-- **quiescence over a real executor**: if `E` honours the IExecutor contract, a state of the composition in which only the
    environment of the coroutine can still act (no step of the coroutine, no event or internal step of the executor) is a state of
    the plain model in which only the environment can act — so `quiescent_complete` applies: nothing is pending in `E`, the
    coroutine is over (Result published once, frame and locals destroyed once) or suspended on an unfulfilled object -/
theorem xcoro_quiescent {w : Workload} {E : Exec} {ex : Nat} (hwf : w.WF) (hwt : w.WFT) (hc : ExecContract E) {s : XState E}
    (h : XReach w E ex s) (hq : ∀ xl s', XStep E ex s xl s' → ∃ l, xl = .plain l ∧ isEnv l = true) :
    (∀ l m', Step s.m l m' → isEnv l = true) ∧ (∀ a, s.p a ≠ .pending ∧ s.p a ≠ .calling) := by
  have hi := xinv_reach hwf h
  have hrun := (xcoro_projects h).2
  have hfull := full_reachable hwf hwt (xcoro_projects h).1
  have no : ∀ {xl s'}, XStep E ex s xl s' → (∀ l, xl ≠ .plain l) → False := by
    intro xl s' hs hne
    obtain ⟨l, hl, _⟩ := hq xl s' hs
    exact hne l hl
  have hplain : ∀ l m', Step s.m l m' → synced ex s.m l = false → isEnv l = true := by
    intro l m' hst hsy
    obtain ⟨l', hl', he⟩ := hq _ _ (.plain hst hsy)
    cases hl'; exact he
  -- the running segment of the coroutine is over (otherwise the coroutine itself could move)
  have hseg : segEnded s.m.pc = true := by
    cases hse : segEnded s.m.pc with
    | true => rfl
    | false =>
        exfalso
        have hall : ∀ l m', Step s.m l m' → isEnv l = true := by
          intro l m' hst
          apply hplain l m' hst
          cases hsy : synced ex s.m l with
          | false => rfl
          | true =>
              exfalso
              cases l with
              | submit e =>
                  cases hst with
                  | submit _ hp => rw [hp] at hse; cases hse
              | exCall =>
                  have hpc : s.m.pc = .queued ex := by simpa [synced] using hsy
                  rw [hpc] at hse; cases hse
              | exDrop =>
                  have hpc : s.m.pc = .queued ex := by simpa [synced] using hsy
                  rw [hpc] at hse; cases hse
              | _ => simp [synced] at hsy
        rcases quiescent_cases hwf hfull hall with hg | hw
        · rw [hg] at hse; cases hse
        · rw [hw.1] at hse; cases hse
  -- so no body is running: the newest call could return
  have hnocall : ∀ a, s.p a ≠ .calling := by
    intro a ha
    have hmem := hi.owner_c a ha
    cases hcs : s.calls with
    | nil => rw [hcs] at hmem; cases hmem
    | cons j0 rest =>
        have hj0 : j0 ∈ s.calls := by rw [hcs]; exact List.mem_cons_self
        have hp0 := hi.calls_p j0 hj0
        obtain ⟨lx, x', hx, hev⟩ := hc.accepts_ret j0 hrun hp0
        exact no (.ret hx hev hj0 hp0 (fun _ => hseg)) (by intro l h; cases h)
  -- the executor has nothing left to do
  have hquiet : E.Quiet s.x := by
    intro lx x' hx
    cases hev : E.ev lx with
    | none => exact absurd (XStep.low (ex := ex) hx hev) (fun h => no h (by intro l h; cases h))
    | some e =>
        cases e with
        | sub a => exact ⟨_, rfl, rfl⟩
        | ret a => exact ⟨_, rfl, rfl⟩
        | call a =>
            exfalso
            have hp : s.p a = .pending := hc.safe hrun hx hev rfl
            have hj := hi.owner_p a hp
            have hpc : s.m.pc = .queued ex := hi.job_q.mpr (by rw [hj]; simp)
            exact no (.call (Step.exCall s.m ex hpc) hpc hj hx hev) (by intro l h; cases h)
        | drop a =>
            exfalso
            have hp : s.p a = .pending := hc.safe hrun hx hev rfl
            have hj := hi.owner_p a hp
            have hpc : s.m.pc = .queued ex := hi.job_q.mpr (by rw [hj]; simp)
            exact no (.drop (Step.exDrop s.m ex hpc) hpc hj hx hev) (by intro l h; cases h)
  have hnopend : ∀ a, s.p a ≠ .pending := hc.progress hrun hquiet hnocall
  refine ⟨fun l m' hst => ?_, fun a => ⟨hnopend a, hnocall a⟩⟩
  apply hplain l m' hst
  cases hsy : synced ex s.m l with
  | false => rfl
  | true =>
      exfalso
      have hqueued : s.m.pc = .queued ex → False := by
        intro hpc
        have := hi.job_q.mp hpc
        cases hj : s.job with
        | none => exact this hj
        | some j => exact hnopend j (hi.job_p j hj)
      cases l with
      | submit e =>
          have he : e = ex := by simpa [synced] using hsy
          subst he
          obtain ⟨lx, x', hx, hev⟩ := hc.accepts_sub s.nj hrun ((hi.fresh s.nj).mpr (Nat.le_refl _))
          exact no (.sub hst hx hev ((hi.fresh s.nj).mpr (Nat.le_refl _))) (by intro l h; cases h)
      | exCall => exact hqueued (by simpa [synced] using hsy)
      | exDrop => exact hqueued (by simpa [synced] using hsy)
      | _ => simp [synced] at hsy

end Yaclib.Coro
