/- Inductive invariant of the C14 model (Model/CoMutex.lean). -/
import YaclibModel.Model.CoMutex

namespace Yaclib.CoMutex

@[simp] theorem upd_same {α : Type} (f : Cid → α) (c : Cid) (v : α) : upd f c v c = v := by simp [upd]
theorem upd_other {α : Type} (f : Cid → α) (c : Cid) (v : α) (x : Cid) (h : x ≠ c) : upd f c v x = f x := by
  simp [upd, h]

@[simp] theorem Word.list_notLocked : Word.notLocked.list = [] := rfl
@[simp] theorem Word.list_locked (l : List Cid) : (Word.locked l).list = l := rfl
@[simp] theorem Own.blocked_free : Own.free.blocked = none := rfl
@[simp] theorem Own.blocked_held (c : Cid) : (Own.held c).blocked = none := rfl
@[simp] theorem Own.blocked_rel (c : Cid) (p : RelPc) (k : RelK) (d : Bool) :
    (Own.rel c p k d).blocked = if d then none else some c := by cases d <;> rfl
@[simp] theorem Own.relPc_free : Own.free.relPc = none := rfl
@[simp] theorem Own.relPc_held (c : Cid) : (Own.held c).relPc = none := rfl
@[simp] theorem Own.relPc_rel (c : Cid) (p : RelPc) (k : RelK) (d : Bool) : (Own.rel c p k d).relPc = some p := rfl
@[simp] theorem Own.det_free : Own.free.det = false := rfl
@[simp] theorem Own.det_held (c : Cid) : (Own.held c).det = false := rfl
@[simp] theorem Own.det_rel (c : Cid) (p : RelPc) (k : RelK) (d : Bool) : (Own.rel c p k d).det = d := rfl

structure Inv (cfg : Cfg) (s : State) : Prop where
  hcfg : s.cfg = cfg
  /-- the token is free exactly when the word says "not locked" -/
  own_free : s.own = .free ↔ s.word = .notLocked
  recv_own : s.receiver ≠ [] → s.own ≠ .free
  /-- the coroutine about to enter / inside the critical section is the token holder -/
  holder : ∀ c, (s.pc c = .acq ∨ s.pc c = .cs) ↔ s.own = .held c
  blocked : ∀ c, s.pc c = .unlocking ↔ s.own.blocked = some c
  /-- the parked coroutines are exactly the members of the two lists, each in one place, once -/
  parked : ∀ c, s.word.list.count c + s.receiver.count c = if s.pc c = .parked then 1 else 0
  rel_recv : (s.own.relPc = some .cas ∨ s.own.relPc = some .xchg) → s.receiver = []
  /-- a failed release CAS / non-empty pre-check: the later exchange returns a non-empty stack -/
  rel_xchg : s.own.relPc = some .xchg → s.word.list ≠ []
  rel_took : s.own.relPc = some .took → s.receiver ≠ []
  rel_pre : s.own.relPc = some .pre → s.own.det = false
  busy_todo : ∀ c, s.pc c ≠ .idle → s.todo c ≠ []
  /-- conservation of waiters -/
  counts : ∀ c, s.arrivals.count c = s.granted.count c + s.word.list.count c + s.receiver.count c
  fifo : s.cfg.fifo = true → s.granted ++ s.receiver ++ s.word.list.reverse = s.arrivals
  /-- every finished round was one critical section or one reported try-lock failure -/
  rounds : ∀ c, s.enters c + s.fails c + (s.todo c).length =
    (cfg.prog c).length + (if s.pc c = .cs ∨ s.pc c = .unlocking then 1 else 0)

theorem inv_init (cfg : Cfg) : Inv cfg (init cfg) := by
  constructor <;> simp [init]

theorem Word.list_eq_nil {w : Word} (h : w.list = []) : w = .notLocked ∨ w = .locked [] := by
  cases w with
  | notLocked => exact Or.inl rfl
  | locked l => right; simp at h; rw [h]

theorem length_pos_of_ne_nil {α : Type} {l : List α} (h : l ≠ []) : 1 ≤ l.length := by
  cases l with
  | nil => exact absurd rfl h
  | cons a t => simp

macro "inv_simp" : tactic =>
  `(tactic| (simp only [doTlLoad, failAcq, doAcquire, doTryFail, doPush, doEnter, doExit, exitKind, doResubmit,
      finish, doRelease, doXchg, doGrant, senderList, upd, Word.list_notLocked, Word.list_locked, Own.blocked_free, Own.blocked_held,
      Own.blocked_rel, Own.relPc_free, Own.relPc_held, Own.relPc_rel, Own.det_free, Own.det_held, Own.det_rel, Bool.false_eq_true, ↓reduceIte] at *))

macro "inv_auto" : tactic =>
  `(tactic| (constructor <;> inv_simp <;>
      grind [Own.blocked_free, Own.blocked_held, Own.blocked_rel, Own.relPc_free, Own.relPc_held, Own.relPc_rel,
             Own.det_free, Own.det_held, Own.det_rel, Word.list_notLocked, Word.list_locked]))

macro "inv_auto" "[" ts:Lean.Parser.Tactic.grindParam,* "]" : tactic =>
  `(tactic| (constructor <;> inv_simp <;>
      grind [Own.blocked_free, Own.blocked_held, Own.blocked_rel, Own.relPc_free, Own.relPc_held, Own.relPc_rel,
             Own.det_free, Own.det_held, Own.det_rel, Word.list_notLocked, Word.list_locked, $ts,*]))

def grpOf : Label → Nat
  | .tlLoad _ _ => 0 | .tlCas _ _ => 0 | .tryFail _ => 0 | .alLoad _ _ => 0
  | .alCas _ _ => 1
  | .enter _ => 2 | .exit _ => 2 | .resubmit _ => 2
  | .ulLoad _ _ => 3 | .ulCas _ _ => 3 | .ulXchg _ => 3
  | .grant _ _ _ => 4

end Yaclib.CoMutex
