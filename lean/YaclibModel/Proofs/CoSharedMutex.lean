/- Inductive invariant of the C15 model (Model/CoSharedMutex.lean): the links between program counters and the ghost
   sets, and the accounting invariants J1–J6 of DESIGN.md §3 C15 (refined). -/
import YaclibModel.Model.CoSharedMutex

namespace Yaclib.CoSharedMutex

theorem upd_same {α : Type} (f : Cid → α) (c : Cid) (v : α) : upd f c v c = v := by simp [upd]
theorem upd_other {α : Type} (f : Cid → α) (c : Cid) (v : α) (x : Cid) (h : x ≠ c) : upd f c v x = f x := by
  simp [upd, h]

@[simp] theorem PW.isSome_none : PW.none.isSome = false := rfl
@[simp] theorem PW.isSome_a (n r) : (PW.a n r).isSome = true := rfl
@[simp] theorem PW.isSome_b (n) : (PW.b n).isSome = true := rfl
@[simp] theorem PW.isSome_c (n b) : (PW.c n b).isSome = true := rfl
@[simp] theorem PW.who_none : PW.none.who = Option.none := rfl
@[simp] theorem PW.who_a (n r) : (PW.a n r).who = some n := rfl
@[simp] theorem PW.who_b (n) : (PW.b n).who = some n := rfl
@[simp] theorem PW.who_c (n b) : (PW.c n b).who = some n := rfl
@[simp] theorem PW.by_none : PW.none.by_ = Option.none := rfl
@[simp] theorem PW.by_a (n r) : (PW.a n r).by_ = Option.none := rfl
@[simp] theorem PW.by_b (n) : (PW.b n).by_ = Option.none := rfl
@[simp] theorem PW.by_c (n b) : (PW.c n b).by_ = some b := rfl
@[simp] theorem PW.isAB_none : PW.none.isAB = false := rfl
@[simp] theorem PW.isAB_a (n r) : (PW.a n r).isAB = true := rfl
@[simp] theorem PW.isAB_b (n) : (PW.b n).isAB = true := rfl
@[simp] theorem PW.isAB_c (n b) : (PW.c n b).isAB = false := rfl

theorem PW.cases_by {p : PW} {b : Cid} (h : p.by_ = some b) : ∃ n, p = .c n b := by
  cases p <;> simp at h
  exact ⟨_, by rw [h]⟩

theorem PW.who_of_isSome {p : PW} (h : p.isSome = true) : ∃ n, p.who = some n := by
  cases p <;> simp at h ⊢

theorem PW.eq_none_of_isSome {p : PW} (h : p.isSome = false) : p = .none := by cases p <;> simp_all
theorem PW.isSome_of_ne {p : PW} (h : p ≠ .none) : p.isSome = true := by cases p <;> simp_all
theorem PW.shape (p : PW) : p = .none ∨ p.isAB = true ∨ p.by_ ≠ Option.none := by cases p <;> simp

macro "pc_cases" : tactic =>
  `(tactic| (intro p; cases p <;>
      first
      | (simp [Pc.isAR, Pc.isIFL, Pc.isExcl, Pc.isCntW, Pc.isHeld, Pc.isParked, Pc.isInRound, Pc.isStoredUnl, Pc.isPassUnl, Pc.isULock, Pc.isURunW, Pc.isNeedW]; done)
      | (rename_i x; cases x <;> simp [Pc.isAR, Pc.isIFL, Pc.isExcl, Pc.isCntW, Pc.isHeld, Pc.isParked, Pc.isInRound, Pc.isStoredUnl, Pc.isPassUnl, Pc.isULock, Pc.isURunW, Pc.isNeedW]; done)
      | (rename_i x y; cases x <;> simp [Pc.isAR, Pc.isIFL, Pc.isExcl, Pc.isCntW, Pc.isHeld, Pc.isParked, Pc.isInRound, Pc.isStoredUnl, Pc.isPassUnl, Pc.isULock, Pc.isURunW, Pc.isNeedW]; done)))

theorem Pc.held_of_passUnl : ∀ {p : Pc}, p.isPassUnl = true → p.isHeld = true := by pc_cases
theorem Pc.held_of_storedUnl : ∀ {p : Pc}, p.isStoredUnl = true → p.isHeld = true := by pc_cases
theorem Pc.held_of_uLock : ∀ {p : Pc}, p.isULock = true → p.isHeld = true := by pc_cases
theorem Pc.held_of_needW : ∀ {p : Pc}, p.isNeedW = true → p.isHeld = true := by pc_cases
theorem Pc.excl_of_needW : ∀ {p : Pc}, p.isNeedW = true → p.isExcl = true := by pc_cases
theorem Pc.excl_of_cntW : ∀ {p : Pc}, p.isCntW = true → p.isExcl = true := by pc_cases
theorem Pc.uLock_of_passUnl : ∀ {p : Pc}, p.isPassUnl = true → p.isULock = true := by pc_cases
theorem Pc.not_excl_of_passUnl : ∀ {p : Pc}, p.isPassUnl = true → p.isExcl = false := by pc_cases
theorem Pc.cntW_or_needW : ∀ {p : Pc}, p.isExcl = true → p.isCntW = true ∨ p.isNeedW = true := by pc_cases
theorem Pc.of_isURunW : ∀ {p : Pc}, p.isURunW = true → ∃ n, p = .uRunW n := by pc_cases

structure Inv (cfg : Cfg) (s : State) : Prop where
  hcfg : s.cfg = cfg
  -- links between program counters, queues and ghost sets (each coroutine in at most one place, once)
  l_ar : ∀ c, s.ar.count c = if (s.pc c).isAR then 1 else 0
  l_ifl : ∀ c, s.ifl.count c = if (s.pc c).isIFL then 1 else 0
  l_lv : ∀ c, s.lv.count c = if s.pc c = .rUn2 then 1 else 0
  l_q : ∀ c, s.Q.count c = if s.pc c = .rparked then 1 else 0
  l_wq : ∀ c, s.WQ.count c = if s.pc c = .wparkedQ then 1 else 0
  l_torun : ∀ c, s.torun.count c = if s.pc c = .rgranted then 1 else 0
  l_excl : ∀ c, (s.pc c).isExcl = true ↔ s.excl = some c
  l_held : ∀ c, (s.pc c).isHeld = true ↔ s.spin = .held c
  l_qsize : s.qsize = s.Q.length
  l_runner : ∀ c, s.pc c = .uRunR ↔ s.runner = some c
  l_torun_runner : s.torun.length = 0 ↔ s.runner = none
  l_wrun : ∀ c, (s.pc c).isURunW = true ↔ s.wrun = some c
  l_wrun_t : ∀ c n, s.pc c = .uRunW n → s.excl = some n ∧ s.pc n = .wgranted
  l_wgranted : ∀ n, s.pc n = .wgranted → s.wrun ≠ none
  wrun_w : s.wrun ≠ none → ∀ c, (s.pc c).isExcl = true → s.pc c = .wgranted
  wrun_excl : s.wrun ≠ none → s.excl ≠ none
  l_pend : ∀ c, (s.pc c).isPassUnl = true ↔ s.pendBy = some c
  l_ew_some : ∀ c, s.excl = some c → s.ew = if (s.pc c).isCntW then 1 else 0
  l_ew_none : s.excl = none → s.ew = 0
  l_enq_held : ∀ c, s.spin = .held c → s.enq = if s.pc c = .wUnl .enq then 1 else 0
  l_enq_free : s.spin = .free → s.enq = 0
  l_enq_tail : ∀ c, s.spin = .tailOf c → s.enq = 0
  -- the pending first writer
  pw_a : ∀ n r, s.pw = .a n r → s.pc n = .wPost r
  pw_b : ∀ n, s.pw = .b n → s.pc n = .wparkedF
  pw_c : ∀ n b, s.pw = .c n b → s.pc n = .wparkedF ∧ s.pc b = .rRun
  pc_wpost : ∀ c r, s.pc c = .wPost r → s.pw = .a c r
  pc_wparkedF : ∀ c, s.pc c = .wparkedF → s.pw.who = some c
  pc_rRun : ∀ c, s.pc c = .rRun → s.pw.by_ = some c
  pw_first : ∀ n, s.pw.who = some n → s.wfirst = some n
  -- J4, J5: what the two halves of the word count
  j4 : s.R = s.ar.length + s.torun.length + s.Q.length + s.ifl.length
  j5 : s.W = s.ew + (if s.pw.isSome then 1 else 0) + s.WQ.length + s.enq
  -- J2: exclusivity
  j2 : s.excl ≠ none → s.ar.length = 0 ∧ s.torun.length = 0 ∧ s.lv.length = 0 ∧ s.pass = 0 ∧ s.pw = .none
  j2w : ∀ c, s.excl = some c → s.rwait = if (s.pc c).isStoredUnl then (s.qsize : Int) else 0
  -- J3: the debt
  j3a : ∀ n r, s.pw = .a n r →
    s.rwait = ((s.ar.length + s.torun.length + s.pass + s.lv.length : Nat) : Int) - (r : Int) ∧ s.rwait ≤ 0
  j3b : ∀ n, s.pw = .b n →
    s.rwait = ((s.ar.length + s.torun.length + s.pass + s.lv.length : Nat) : Int) ∧ 1 ≤ s.rwait
  j3c : ∀ n b, s.pw = .c n b →
    s.rwait = 0 ∧ s.ar.length = 0 ∧ s.torun.length = 0 ∧ s.lv.length = 0 ∧ s.pass = 0
  j3n : s.excl = none → s.pw = .none → s.rwait = 0
  lv_pw : s.pw.isAB = false → s.lv.length = 0
  -- J1: no writer counted
  w0_excl : s.W = 0 → s.excl = none
  j1 : s.W = 0 → s.pass + s.pend = s.ifl.length ∧ (s.pendBy = none → s.Q.length = 0)
  pend_w : s.W ≠ 0 → s.pend = 0
  pend_none : s.pendBy = none → s.pend = 0
  pend_amt : ∀ c sr, (s.pc c = .uUnl (.readersPass sr) ∨ s.pc c = .uUnl (.passOnly sr)) → s.pend = sr - s.qsize
  rp_w0 : ∀ c sr, s.pc c = .uUnl (.readersPass sr) → s.W = 0 ∧ s.Q.length ≠ 0
  po_q : ∀ c sr, s.pc c = .uUnl (.passOnly sr) → s.Q.length = 0
  pass_ge : ∀ c sr, (s.pc c = .uUnl (.readersPass sr) ∨ s.pc c = .uUnl (.passOnly sr)) → s.qsize ≤ sr
  jp_le : s.pass + s.pend ≤ s.ifl.length
  -- J6: the queues
  j6 : s.cfg.fifo = true → s.prio ≤ s.WQ.length ∧ (s.Q.length = 0 → s.prio = s.WQ.length)
  j6b : s.WQ.length ≠ 0 → s.excl ≠ none ∨ s.pw ≠ .none
  enq_live : s.enq ≠ 0 → s.excl ≠ none ∨ s.pw ≠ .none
  need_w : ∀ c, (s.pc c).isNeedW = true → s.WQ.length ≠ 0
  rw_fifo : ∀ c, s.pc c = .uUnl .runWriter → s.cfg.fifo = true → s.prio ≠ 0
  st_sw : ∀ c sw, (s.pc c = .uStore sw ∨ s.pc c = .uUnl (.stored sw)) →
    sw = s.WQ.length + 1 ∧ s.Q.length ≠ 0 ∧ (s.cfg.fifo = true → s.prio = 0)
  j7 : ∀ c, (s.pc c).isULock = true → s.torun.length = 0
  -- histories
  busy_todo : ∀ c, s.pc c ≠ .idle → s.todo c ≠ []
  out_idle : ∀ c, cfg.prog c = [] → s.pc c = .idle
  out_todo : ∀ c, cfg.prog c = [] → s.todo c = []
  rounds : ∀ c, s.enters c + s.fails c + (s.todo c).length =
    (cfg.prog c).length + (if (s.pc c).isInRound then 1 else 0)
  parks : ∀ c, s.parks c = s.grants c + (if (s.pc c).isParked then 1 else 0)

theorem inv_init (cfg : Cfg) : Inv cfg (init cfg) := by
  constructor <;> simp [init, Pc.isAR, Pc.isIFL, Pc.isExcl, Pc.isHeld, Pc.isURunW, Pc.isPassUnl, Pc.isNeedW, Pc.isULock,
    Pc.isInRound, Pc.isParked]

theorem erase_len {l : List Cid} {c : Cid} (h : l.count c = 1) : (l.erase c).length + 1 = l.length := by
  have hm : c ∈ l := List.count_pos_iff.mp (by omega)
  rw [List.length_erase_of_mem hm]
  have : 0 < l.length := List.length_pos_of_mem hm
  omega

theorem erase_count_self {l : List Cid} {c : Cid} (h : l.count c = 1) : (l.erase c).count c = 0 := by
  rw [List.count_erase_self]; omega

theorem erase_count_ne {l : List Cid} {c x : Cid} (h : x ≠ c) : (l.erase c).count x = l.count x :=
  List.count_erase_of_ne h

theorem len_pos_of_count {l : List Cid} {c : Cid} (h : l.count c = 1) : 1 ≤ l.length := by
  have := @List.count_le_length _ _ c l
  omega

theorem length_pos_of_ne_nil {α : Type} {l : List α} (h : l ≠ []) : 1 ≤ l.length := by
  cases l with
  | nil => exact absurd rfl h
  | cons a t => simp

theorem mem_iff_of_count {l : List Cid} {x : Cid} {P : Prop} [Decidable P] (h : l.count x = if P then 1 else 0) :
    x ∈ l ↔ P := by
  by_cases hp : P
  · rw [if_pos hp] at h
    exact ⟨fun _ => hp, fun _ => List.count_pos_iff.mp (by omega)⟩
  · rw [if_neg hp] at h
    exact ⟨fun hm => absurd (List.count_pos_iff.mpr hm) (by omega), fun hq => absurd hq hp⟩

theorem count_cons' (a x : Cid) (l : List Cid) : (a :: l).count x = l.count x + if a = x then 1 else 0 := by
  rw [List.count_cons]; by_cases h : a = x <;> simp [h]

/-- the holder of the spinlock is not a departing writer with pending pass credits ⇒ nobody is -/
theorem pendBy_none_of_held {cfg s} (hi : Inv cfg s) {c : Cid} (hs : s.spin = .held c)
    (hp : (s.pc c).isPassUnl = false) : s.pendBy = none := by
  cases hb : s.pendBy with
  | none => rfl
  | some x =>
      have h1 := (hi.l_pend x).mpr hb
      have h2 := (hi.l_held x).mp (Pc.held_of_passUnl h1)
      rw [hs] at h2
      cases h2
      rw [hp] at h1; cases h1

theorem head_pc_wq {cfg s} (hi : Inv cfg s) {n : Cid} {rest : List Cid} (hq : s.WQ = n :: rest) :
    s.pc n = .wparkedQ ∧ rest.count n = 0 := by
  have := hi.l_wq n
  rw [hq, count_cons'] at this
  by_cases hpn : s.pc n = .wparkedQ
  · simp [hpn] at this; exact ⟨hpn, this⟩
  · simp [hpn] at this

theorem head_pc_torun {cfg s} (hi : Inv cfg s) {n : Cid} {rest : List Cid} (hq : s.torun = n :: rest) :
    s.pc n = .rgranted ∧ rest.count n = 0 := by
  have := hi.l_torun n
  rw [hq, count_cons'] at this
  by_cases hpn : s.pc n = .rgranted
  · simp [hpn] at this; exact ⟨hpn, this⟩
  · simp [hpn] at this


macro "sm_simp" : tactic =>
  `(tactic| (simp only [done, doRdFadd, lockedPc, doSpinOk, doRdUnlock, doEnter, doRdFsub, doRwFsub, doRunWriter, doRunFirst, doTryFail,
      doTrCasOk, failW, doTwLoad, doTwCasOk, doWrFadd, doWrPost, doWUnlock, doWuCasOk, doWuFsub, doRwStore, releaseReaders,
      doUUnlock, doRunR, upd, PW.isSome_none, PW.isSome_a, PW.isSome_b, PW.isSome_c, PW.who_none, PW.who_a, PW.who_b, PW.who_c,
      PW.by_none, PW.by_a, PW.by_b, PW.by_c, PW.isAB_none, PW.isAB_a, PW.isAB_b, PW.isAB_c,
      Bool.false_eq_true, ↓reduceIte] at *))

/-- the automation for one clause: light lemma set first, heavier ones only if needed -/
macro "sm_grind" "[" ts:Lean.Parser.Tactic.grindParam,* "]" : tactic =>
  `(tactic| first
    | grind [Pc.isAR, Pc.isIFL, Pc.isExcl, Pc.isCntW, Pc.isHeld, Pc.isParked, Pc.isInRound, Pc.isStoredUnl, Pc.isPassUnl,
        Pc.isULock, Pc.isURunW, Pc.isNeedW, PW.isSome_none, PW.isSome_a, PW.isSome_b, PW.isSome_c, PW.who_none, PW.who_a,
        PW.who_b, PW.who_c, PW.by_none, PW.by_a, PW.by_b, PW.by_c, PW.isAB_none, PW.isAB_a, PW.isAB_b, PW.isAB_c]
    | grind [Pc.isAR, Pc.isIFL, Pc.isExcl, Pc.isCntW, Pc.isHeld, Pc.isParked, Pc.isInRound, Pc.isStoredUnl, Pc.isPassUnl,
        Pc.isULock, Pc.isURunW, Pc.isNeedW, PW.isSome_none, PW.isSome_a, PW.isSome_b, PW.isSome_c, PW.who_none, PW.who_a,
        PW.who_b, PW.who_c, PW.by_none, PW.by_a, PW.by_b, PW.by_c, PW.isAB_none, PW.isAB_a, PW.isAB_b, PW.isAB_c, length_pos_of_ne_nil]
    | grind [Pc.isAR, Pc.isIFL, Pc.isExcl, Pc.isCntW, Pc.isHeld, Pc.isParked, Pc.isInRound, Pc.isStoredUnl, Pc.isPassUnl,
        Pc.isULock, Pc.isURunW, Pc.isNeedW, PW.isSome_none, PW.isSome_a, PW.isSome_b, PW.isSome_c, PW.who_none, PW.who_a,
        PW.who_b, PW.who_c, PW.by_none, PW.by_a, PW.by_b, PW.by_c, PW.isAB_none, PW.isAB_a, PW.isAB_b, PW.isAB_c, erase_count_self, erase_count_ne, count_cons']
    | grind [Pc.isAR, Pc.isIFL, Pc.isExcl, Pc.isCntW, Pc.isHeld, Pc.isParked, Pc.isInRound, Pc.isStoredUnl, Pc.isPassUnl,
        Pc.isULock, Pc.isURunW, Pc.isNeedW, PW.isSome_none, PW.isSome_a, PW.isSome_b, PW.isSome_c, PW.who_none, PW.who_a,
        PW.who_b, PW.who_c, PW.by_none, PW.by_a, PW.by_b, PW.by_c, PW.isAB_none, PW.isAB_a, PW.isAB_b, PW.isAB_c, Pc.held_of_passUnl, Pc.held_of_storedUnl, Pc.held_of_uLock, Pc.held_of_needW, Pc.excl_of_needW, PW.eq_none_of_isSome, PW.isSome_of_ne]
    | grind [Pc.isAR, Pc.isIFL, Pc.isExcl, Pc.isCntW, Pc.isHeld, Pc.isParked, Pc.isInRound, Pc.isStoredUnl, Pc.isPassUnl,
        Pc.isULock, Pc.isURunW, Pc.isNeedW, PW.isSome_none, PW.isSome_a, PW.isSome_b, PW.isSome_c, PW.who_none, PW.who_a,
        PW.who_b, PW.who_c, PW.by_none, PW.by_a, PW.by_b, PW.by_c, PW.isAB_none, PW.isAB_a, PW.isAB_b, PW.isAB_c, Pc.held_of_passUnl, Pc.held_of_storedUnl, Pc.held_of_uLock, Pc.held_of_needW, Pc.excl_of_needW, PW.eq_none_of_isSome, PW.isSome_of_ne, len_pos_of_count, List.length_eq_zero_iff]
    | grind [Pc.isAR, Pc.isIFL, Pc.isExcl, Pc.isCntW, Pc.isHeld, Pc.isParked, Pc.isInRound, Pc.isStoredUnl, Pc.isPassUnl,
        Pc.isULock, Pc.isURunW, Pc.isNeedW, PW.isSome_none, PW.isSome_a, PW.isSome_b, PW.isSome_c, PW.who_none, PW.who_a,
        PW.who_b, PW.who_c, PW.by_none, PW.by_a, PW.by_b, PW.by_c, PW.isAB_none, PW.isAB_a, PW.isAB_b, PW.isAB_c, erase_count_self, erase_count_ne, erase_len, List.length_eq_zero_iff]
    | grind [Pc.isAR, Pc.isIFL, Pc.isExcl, Pc.isCntW, Pc.isHeld, Pc.isParked, Pc.isInRound, Pc.isStoredUnl, Pc.isPassUnl,
        Pc.isULock, Pc.isURunW, Pc.isNeedW, PW.isSome_none, PW.isSome_a, PW.isSome_b, PW.isSome_c, PW.who_none, PW.who_a,
        PW.who_b, PW.who_c, PW.by_none, PW.by_a, PW.by_b, PW.by_c, PW.isAB_none, PW.isAB_a, PW.isAB_b, PW.isAB_c, Pc.held_of_passUnl, Pc.held_of_storedUnl, Pc.held_of_uLock, Pc.held_of_needW, Pc.excl_of_needW, PW.eq_none_of_isSome, PW.isSome_of_ne, erase_count_self, erase_count_ne, erase_len, List.length_eq_zero_iff, length_pos_of_ne_nil,
        len_pos_of_count, $ts,*])

macro "sm_auto" "[" ts:Lean.Parser.Tactic.grindParam,* "]" : tactic =>
  `(tactic| (constructor <;> sm_simp <;> sm_grind [$ts,*]))

/-- debugging variant: leaves the clauses that the automation cannot close as named goals -/
macro "sm_dbg" "[" ts:Lean.Parser.Tactic.grindParam,* "]" : tactic =>
  `(tactic| (constructor <;> (try (sm_simp; sm_grind [$ts,*]))))

def grpOf : Label → Nat
  | .rdFadd _ => 0 | .spinXchg _ _ => 0
  | .spinLoad _ _ => 1 | .rdUnlock _ => 1
  | .enter _ => 2 | .exit _ => 2
  | .rdFsub _ => 3 | .rwFsub _ => 3
  | .runFirst _ _ => 4 | .trLoad _ _ _ => 4 | .tryFail _ => 4
  | .trCas _ _ => 5 | .twLoad _ _ => 5
  | .twCas _ _ => 6 | .wrFadd _ => 6
  | .wrPost _ => 7 | .wUnlock _ => 7
  | .tailUnlock _ => 8 | .wuCas _ _ => 8
  | .wuFsub _ => 9
  | .rwStore _ => 10 | .uUnlock _ => 11
  | .runW _ _ => 12 | .runR _ _ => 12

end Yaclib.CoSharedMutex
