/- Invariants about the strategies' own atomics: who did its RMW, in which order, who won. -/
import YaclibModel.Proofs.WhenInvC

namespace Yaclib.When

/-- RMW ghosts, for every strategy -/
structure InvR (w : Workload) (s : State) : Prop where
  done_past : ∀ i, s.rmwDone i = true → past (s.pc i) = true
  order_mem : ∀ i, i ∈ s.rmwOrder ↔ s.rmwDone i = true
  win_done : ∀ k, s.win = some k → s.rmwDone k = true
  err_done : ∀ e, s.errBy = some e → s.rmwDone e = true

/-- strategies with the `_done` flag: All / AllTuple / Join with FirstFail, Any<None> -/
structure InvF (w : Workload) (s : State) : Prop where
  flag_win : s.flag = true ↔ s.win ≠ none
  flag_empty : s.flag = false ↔ s.rmwOrder = []
  /-- the winner is the first consumption to exchange the flag -/
  flag_head : s.win = s.rmwOrder.head?
  /-- a failing consumption (any consumption for Any<None>) that is past its decision has seen or set the flag -/
  flag_past : ∀ i, past (s.pc i) = true → (ok (w.inp i) = false ∨ w.strat = .anyNone) → s.flag = true

/-- Any<FirstFail>: the three-state word, the saved first failure -/
structure InvG (w : Workload) (s : State) : Prop where
  s3_val : s.st3 = .value ↔ s.win ≠ none
  s3_empty : s.st3 = .empty ↔ s.rmwOrder = []
  /-- the winner is the first value to exchange the word -/
  s3_win : s.win = s.rmwOrder.find? (fun i => ok (w.inp i))
  /-- the saved failure belongs to the very first RMW on the word -/
  s3_err : ∀ e, s.errBy = some e →
    s.rmwOrder.head? = some e ∧ ok (w.inp e) = false ∧ (s.pc e = .dec true ∨ s.saved = some (w.inp e))
  s3_err2 : s.st3 = .error → s.errBy ≠ none
  s3_past : ∀ i, past (s.pc i) = true → s.st3 ≠ .empty
  s3_dec : ∀ i, s.pc i = .dec true → s.errBy = some i

theorem invg_init (w : Workload) : InvG w (init w) := by
  constructor <;> simp [init, past]

theorem invr_init (w : Workload) : InvR w (init w) := by
  constructor <;> simp [init]

theorem invf_init (w : Workload) : InvF w (init w) := by
  constructor <;> simp [init, past]

macro "invw_auto" : tactic =>
  `(tactic| (constructor <;> (try simp only [doRegSet, doFire, doRetire, doLoadFlag, doXchgFlag, doLoad3, doXchg3, doCas3, doLoadLf,
      doXchgLf, doFsubLf, doSetOut, doDec, doDtorRel, doDtorSet, setPc, finish, storeSaved] at *) <;>
      grind [= upd_apply, past, head?_snoc, find?_snoc, getLast?_snoc, mem_snoc]))

end Yaclib.When
