/- Invariants about the strategies' own atomics: who did its RMW, in which order, who won. -/
import YaclibModel.Proofs.WhenInvC

namespace Yaclib.When

/-- RMW ghosts, for every strategy -/
structure InvR (w : Workload) (s : State) : Prop where
  done_past : ∀ i, s.rmwDone i = true → past (s.pc i) = true
  order_mem : ∀ i, i ∈ s.rmwOrder ↔ s.rmwDone i = true
  win_done : ∀ k, s.win = some k → s.rmwDone k = true
  err_done : ∀ e, s.errBy = some e → s.rmwDone e = true
  /-- All / AllTuple / Join with FirstFail: only failing inputs touch the flag -/
  done_fail : w.strat.allFF = true → ∀ i, s.rmwDone i = true → ok (w.inp i) = false

/-- strategies with the `_done` flag: All / AllTuple / Join with FirstFail, Any<None> -/
structure InvF (w : Workload) (s : State) : Prop where
  flag_win : s.flag = true ↔ s.win ≠ none
  flag_empty : s.flag = false ↔ s.rmwOrder = []
  /-- the winner is the first consumption to exchange the flag -/
  flag_head : s.win = s.rmwOrder.head?
  /-- a failing consumption (any consumption for Any<None>) that is past its decision has seen or set the flag -/
  flag_past : ∀ i, past (s.pc i) = true → (ok (w.inp i) = false ∨ w.strat = .anyNone) → s.flag = true

/-- Any<FirstFail>: the three-state word, the saved first failure -/
structure InvG (w : Workload) (s : State) : Prop where
  s3_val : s.st3 = .value ↔ s.win ≠ none
  s3_empty : s.st3 = .empty ↔ s.rmwOrder = []
  /-- the winner is the first value to exchange the word -/
  s3_win : s.win = s.rmwOrder.find? (fun i => ok (w.inp i))
  /-- the saved failure belongs to the very first RMW on the word -/
  s3_err : ∀ e, s.errBy = some e →
    s.rmwOrder.head? = some e ∧ ok (w.inp e) = false ∧ (s.pc e = .dec true ∨ s.saved = some (w.inp e))
  s3_err2 : s.st3 = .error → s.errBy ≠ none
  s3_past : ∀ i, past (s.pc i) = true → s.st3 ≠ .empty
  s3_dec : ∀ i, s.pc i = .dec true → s.errBy = some i
  /-- a value that is past its decision has seen or written `kValue` -/
  s3_past_val : ∀ i, past (s.pc i) = true → ok (w.inp i) = true → s.st3 = .value

theorem invg_init (w : Workload) : InvG w (init w) := by
  constructor <;> simp [init, past]

/-- Any<LastFail>: the packed counter -/
structure InvL (w : Workload) (s : State) : Prop where
  lf_lt : s.lf < two64
  /-- no value has exchanged yet: the counter is twice the number of inputs that have not subtracted yet -/
  lf_even : s.lf % 2 = 0 →
    s.lf = 2 * (w.n - cnt s.rmwDone w.n) ∧ s.rmwOrder.find? (fun i => ok (w.inp i)) = none
  /-- a value has exchanged: the first one to do so won -/
  lf_odd : s.lf % 2 = 1 → s.win ≠ none ∧ s.win = s.rmwOrder.find? (fun i => ok (w.inp i))
  /-- while even, somebody won iff the counter reached zero, and it was the last one to subtract -/
  lf_win0 : s.lf % 2 = 0 → ((s.win ≠ none ↔ s.lf = 0) ∧ ∀ k, s.win = some k → s.rmwOrder.getLast? = some k)
  lf_past : ∀ i, past (s.pc i) = true → s.rmwDone i = true ∨ s.lf % 2 = 1

theorem invl_init (w : Workload) (hn : 2 * w.n < two64) (hn0 : w.n ≠ 0) : InvL w (init w) := by
  have h0 : cnt (fun _ => false) w.n = 0 := cnt_all_false (fun _ _ => rfl)
  constructor <;> simp [init, past, Nat.mod_eq_of_lt hn, h0]
  · exact hn
  · omega

theorem invr_init (w : Workload) : InvR w (init w) := by
  constructor <;> simp [init]

theorem invf_init (w : Workload) : InvF w (init w) := by
  constructor <;> simp [init, past]

macro "invw_auto" : tactic =>
  `(tactic| (constructor <;> (try simp only [doRegSet, doFire, doRetire, doLoadFlag, doXchgFlag, doLoad3, doXchg3, doCas3, doLoadLf,
      doXchgLf, doFsubLf, doSetOut, doDec, doDtorRel, doDtorSet, setPc, finish, storeSaved] at *) <;>
      grind [= upd_apply, past, head?_snoc, find?_snoc, getLast?_snoc, mem_snoc]))

end Yaclib.When
