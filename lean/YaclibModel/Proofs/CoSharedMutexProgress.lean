/- Progress for the C15 model: in a state in which no step is enabled nobody is parked, the word is 0 and every
   coroutine has finished its program (for every <FIFO, ReadersFIFO>). -/
import YaclibModel.Proofs.CoSharedMutexInv

namespace Yaclib.CoSharedMutex

/-- program counters from which the coroutine itself cannot move (everything else has an enabled step once the
    spinlock is free) -/
def Pc.isStuck : Pc → Bool
  | .idle => true | .rparked => true | .rgranted => true | .wparkedQ => true | .wparkedF => true | .wgranted => true
  | _ => false

theorem exists_count_of_length_pos {l : List Cid} (h : 1 ≤ l.length) : ∃ x, l.count x = l.count x ∧ 1 ≤ l.count x := by
  cases l with
  | nil => simp at h
  | cons a t => exact ⟨a, rfl, by simp⟩

variable {cfg : Cfg} {s : State}

/-- while the spinlock is held (or its releasing store is pending) some step is enabled -/
theorem spin_free_of_quiescent (hi : Inv cfg s) (hq : ∀ l s', ¬ Step s l s') : s.spin = .free := by
  cases hsp : s.spin with
  | free => rfl
  | tailOf c => exact absurd (Step.tailUnlock s c hsp) (hq _ _)
  | held c =>
      have hh := (hi.l_held c).mpr hsp
      cases hp : s.pc c with
      | rLocked => exact absurd (Step.rdUnlock s c hp hsp) (hq _ _)
      | wLocked => exact absurd (Step.wrFadd s c hp hsp) (hq _ _)
      | wPost r => exact absurd (Step.wrPost s c r hp hsp) (hq _ _)
      | wUnl k => exact absurd (Step.wUnlock s c k hp hsp) (hq _ _)
      | uLocked => exact absurd (Step.wuFsub s c hp hsp) (hq _ _)
      | uStore sw => exact absurd (Step.rwStore s c sw hp hsp) (hq _ _)
      | uUnl b =>
          cases hb : needsWriter b with
          | false => exact absurd (Step.uUnlockP s c b hp hsp hb) (hq _ _)
          | true =>
              have hne : s.WQ.length ≠ 0 := by
                apply hi.need_w c
                rw [hp]
                cases b <;> simp [needsWriter] at hb <;> rfl
              cases hwq : s.WQ with
              | nil => rw [hwq] at hne; simp at hne
              | cons n rest => exact absurd (Step.uUnlockW s c b n rest hp hsp hb hwq) (hq _ _)
      | spinning k inner => rw [hp] at hh; cases k <;> simp [Pc.isHeld] at hh
      | _ => rw [hp] at hh; simp [Pc.isHeld] at hh

/-- every coroutine is at a program counter it cannot leave by itself -/
theorem stuck_of_quiescent (hi : Inv cfg s) (hq : ∀ l s', ¬ Step s l s') (c : Cid) :
    (s.pc c).isStuck = true ∧ (s.pc c = .idle → s.todo c = []) := by
  have hfree := spin_free_of_quiescent hi hq
  have hnh : (s.pc c).isHeld = false := by
    cases hh : (s.pc c).isHeld with
    | false => rfl
    | true => have := (hi.l_held c).mp hh; rw [hfree] at this; cases this
  cases hp : s.pc c with
  | idle =>
      refine ⟨rfl, fun _ => ?_⟩
      cases ht : s.todo c with
      | nil => rfl
      | cons o rest =>
          have hne : s.todo c ≠ [] := by rw [ht]; simp
          have hop : curOp s c = o := by simp [curOp, ht]
          cases o with
          | rd => exact absurd (Step.rdFadd s c hp hne hop) (hq _ _)
          | tryRd => exact absurd (Step.trBegin s c 0 0 hp hne hop) (hq _ _)
          | wr => exact absurd (Step.twLoad s c true hp hne (Or.inl hop)) (hq _ _)
          | tryWr => exact absurd (Step.twLoad s c true hp hne (Or.inr hop)) (hq _ _)
  | rparked => exact ⟨rfl, fun h => by cases h⟩
  | rgranted => exact ⟨rfl, fun h => by cases h⟩
  | wparkedQ => exact ⟨rfl, fun h => by cases h⟩
  | wparkedF => exact ⟨rfl, fun h => by cases h⟩
  | wgranted => exact ⟨rfl, fun h => by cases h⟩
  | rLocked => rw [hp] at hnh; simp [Pc.isHeld] at hnh
  | wLocked => rw [hp] at hnh; simp [Pc.isHeld] at hnh
  | wPost r => rw [hp] at hnh; simp [Pc.isHeld] at hnh
  | wUnl k => rw [hp] at hnh; cases k <;> simp [Pc.isHeld] at hnh
  | uLocked => rw [hp] at hnh; simp [Pc.isHeld] at hnh
  | uStore sw => rw [hp] at hnh; simp [Pc.isHeld] at hnh
  | uUnl b => rw [hp] at hnh; cases b <;> simp [Pc.isHeld] at hnh
  | racq => exact absurd (Step.enterR s c hp) (hq _ _)
  | rcs => exact absurd (Step.exitR s c hp) (hq _ _)
  | rUn1 => exact absurd (Step.rdFsub s c hp) (hq _ _)
  | rUn2 => exact absurd (Step.rwFsub s c hp) (hq _ _)
  | rRun =>
      obtain ⟨n, hpw⟩ := PW.cases_by (hi.pc_rRun c hp)
      have hf := hi.pw_first n (by rw [hpw]; rfl)
      exact absurd (Step.runFirst s c n hp hf) (hq _ _)
  | trLoop w r =>
      cases w with
      | zero => exact absurd (Step.trCasFail s c r hp) (hq _ _)
      | succ w => exact absurd (Step.trFail s c (w + 1) r hp (by simp)) (hq _ _)
  | tryFailed => exact absurd (Step.tryFailW s c hp) (hq _ _)
  | twLoaded =>
      by_cases hz : s.W = 0 ∧ s.R = 0
      · exact absurd (Step.twCasOk s c hp hz.1 hz.2) (hq _ _)
      · exact absurd (Step.twCasFail s c hp hz) (hq _ _)
  | wacq => exact absurd (Step.enterW s c hp) (hq _ _)
  | wcs => exact absurd (Step.exitW s c hp) (hq _ _)
  | wUn0 =>
      by_cases hz : s.W = 1 ∧ s.R = 0
      · exact absurd (Step.wuCasOk s c hp hz.1 hz.2) (hq _ _)
      · exact absurd (Step.wuCasFail s c hp hz) (hq _ _)
  | uRunW n => exact absurd (Step.runW s c n hp) (hq _ _)
  | uRunR =>
      have hr := (hi.l_runner c).mp hp
      have hne : s.torun.length ≠ 0 := fun h0 => by
        have := hi.l_torun_runner.mp h0; rw [hr] at this; cases this
      cases ht : s.torun with
      | nil => rw [ht] at hne; simp at hne
      | cons n rest => exact absurd (Step.runR s c n rest hp ht) (hq _ _)
  | spinning k inner =>
      cases inner with
      | false => exact absurd (Step.spinOk s c k hp hfree) (hq _ _)
      | true => exact absurd (Step.spinLoad s c k true hp) (hq _ _)

/-- a non-empty ghost set has a member, and members are never stuck -/
theorem no_member (hi : Inv cfg s) (hq : ∀ l s', ¬ Step s l s') {l : List Cid} {P : Pc → Bool}
    (hl : ∀ c, l.count c = if P (s.pc c) then 1 else 0) (hP : ∀ p, P p = true → p.isStuck = false) : l.length = 0 := by
  cases l with
  | nil => rfl
  | cons a t =>
      have h1 := hl a
      have hpa : P (s.pc a) = true := by
        cases hpp : P (s.pc a) with
        | true => rfl
        | false => rw [hpp] at h1; simp at h1
      have := (stuck_of_quiescent hi hq a).1
      rw [hP _ hpa] at this; cases this

theorem quiescent (hi : Inv cfg s) (hq : ∀ l s', ¬ Step s l s') : ∀ c, s.pc c = .idle ∧ s.todo c = [] := by
  have hfree := spin_free_of_quiescent hi hq
  have hstuck := stuck_of_quiescent hi hq
  -- the ghost sets whose members can move are empty
  have har : s.ar.length = 0 :=
    no_member hi hq (P := Pc.isAR) hi.l_ar (by intro p hp; cases p <;> simp_all [Pc.isAR, Pc.isStuck])
  have hifl : s.ifl.length = 0 :=
    no_member hi hq (P := Pc.isIFL) hi.l_ifl (by
      intro p hp; cases p <;> simp_all [Pc.isIFL, Pc.isStuck])
  have hlv : s.lv.length = 0 :=
    no_member hi hq (P := fun p => decide (p = .rUn2)) (by intro c; simpa using hi.l_lv c)
      (by intro p hp; simp at hp; rw [hp]; rfl)
  -- nobody waits to be submitted
  have hrunner : s.runner = none := by
    cases hr : s.runner with
    | none => rfl
    | some r =>
        have hp := (hi.l_runner r).mpr hr
        have := (hstuck r).1; rw [hp] at this; cases this
  have htorun : s.torun.length = 0 := hi.l_torun_runner.mpr hrunner
  have hwrun : s.wrun = none := by
    cases hr : s.wrun with
    | none => rfl
    | some r =>
        obtain ⟨n, hp⟩ := Pc.of_isURunW ((hi.l_wrun r).mpr hr)
        have := (hstuck r).1; rw [hp] at this; cases this
  have hexcl : s.excl = none := by
    cases he : s.excl with
    | none => rfl
    | some x =>
        have hx := (hi.l_excl x).mpr he
        have hsx := (hstuck x).1
        have : s.pc x = .wgranted := by
          cases hp : s.pc x <;> rw [hp] at hx hsx <;> simp_all [Pc.isExcl, Pc.isStuck]
        exact absurd hwrun (hi.l_wgranted x this)
  have hpend : s.pendBy = none := by
    cases hb : s.pendBy with
    | none => rfl
    | some x =>
        have h1 := (hi.l_pend x).mpr hb
        have h2 := (hi.l_held x).mp (Pc.held_of_passUnl h1)
        rw [hfree] at h2; cases h2
  have hpw : s.pw = .none := by
    cases hp : s.pw with
    | none => rfl
    | a n r =>
        have := hi.pw_a n r hp
        have h2 := (hstuck n).1; rw [this] at h2; cases h2
    | c n b =>
        have := (hi.pw_c n b hp).2
        have h2 := (hstuck b).1; rw [this] at h2; cases h2
    | b n =>
        -- the debt is positive, so a payer exists — and payers are never stuck
        have h3 := hi.j3b n hp
        have hle := hi.jp_le
        rw [har, htorun, hlv] at h3
        have : s.pass = 0 := by omega
        rw [this] at h3
        simp at h3
        omega
  have hWQ : s.WQ.length = 0 := by
    cases Nat.eq_zero_or_pos s.WQ.length with
    | inl h => exact h
    | inr h =>
        have := hi.j6b (by omega)
        rw [hexcl, hpw] at this
        simp at this
  have hW : s.W = 0 := by
    have h5 := hi.j5
    rw [hi.l_ew_none hexcl, hpw, hWQ, hi.l_enq_free hfree] at h5
    simpa using h5
  have hQ : s.Q.length = 0 := (hi.j1 hW).2 hpend
  intro c
  have hs := hstuck c
  have hidle : s.pc c = .idle := by
    cases hp : s.pc c with
    | idle => rfl
    | rparked =>
        have := hi.l_q c; rw [hp] at this; simp at this
        have h2 := @List.count_le_length _ _ c s.Q; omega
    | rgranted =>
        have := hi.l_torun c; rw [hp] at this; simp at this
        have h2 := @List.count_le_length _ _ c s.torun; omega
    | wparkedQ =>
        have := hi.l_wq c; rw [hp] at this; simp at this
        have h2 := @List.count_le_length _ _ c s.WQ; omega
    | wparkedF => have := hi.pc_wparkedF c hp; rw [hpw] at this; simp at this
    | wgranted => exact absurd hwrun (hi.l_wgranted c hp)
    | _ => rw [hp] at hs; simp [Pc.isStuck] at hs
  exact ⟨hidle, hs.2 hidle⟩

end Yaclib.CoSharedMutex
