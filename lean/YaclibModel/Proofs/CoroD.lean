/- ghost history, the coroutine's own Result, frame and locals (InvD); the executor stored in awaited cores (InvE) -/
import YaclibModel.Proofs.CoroInv
namespace Yaclib.Coro

/-- what `await_resume` must read: the awaited Result of the (first) awaited object, if the awaiter returns it -/
def wantOf (w : Workload) (op : Op) : Option (Option Res) :=
  if op.get then (match op.cells.head? with
    | some j => some (some (w.cell j).res)
    | none => none) else none

/-- the awaited failure of this resumption escaped the coroutine body -/
def Rec.escaped (w : Workload) (r : Rec) : Bool :=
  match r.got with
  | some (some x) => x.isFail && !w.catches
  | _ => false

/-- the Result the coroutine must publish -/
def outcome (s : State) : Res := if s.dropped then .err else finalRes s

/-- Task awaiters await Tasks, the other awaiters do not (a Task has no callback word to race on before it is started) -/
def Workload.WFT (w : Workload) : Prop := ∀ op ∈ w.prog, ∀ j ∈ op.cells, (op.kind = .task ↔ (w.cell j).lazy = true)

structure InvD (w : Workload) (s : State) : Prop where
  rec_idx : s.resumed.map (·.k) = List.range s.k
  rec_done : ∀ r ∈ s.resumed, r.allDone = true
  rec_op : ∀ r ∈ s.resumed, w.prog[r.k]? = some r.op
  rec_got : ∀ r ∈ s.resumed, r.got = wantOf w r.op
  rec_ctx : ∀ r ∈ s.resumed, r.op.kind ≠ .current → ctxOk r.op.kind r.ctx = true
  rec_cell : ∀ r ∈ s.resumed, ∀ j, r.ctx = .cell j → j ∈ r.op.cells
  rec_own : ∀ r ∈ s.resumed, ownKind r.op.kind = true → (r.ctx = .inl ∨ r.ctx = .exec r.exBefore) ∧ r.exAfter = r.exBefore
  rec_named : ∀ r ∈ s.resumed, (∀ j, r.ctx ≠ .cell j) → r.op.kind ≠ .task → r.exAfter = startExec r.op.kind r.exBefore
  exec_op : ∀ op rest, s.todo = op :: rest → inOp s.pc = true → (op.kind = .task → s.pc = .tstore) →
    s.exec = startExec op.kind s.ex0
  sub_ok : ∀ x ∈ s.submits, ∀ op, w.prog[x.1]? = some op → execOk op.kind x.2 = true
  failed_iff : s.failed = s.resumed.any (Rec.escaped w)
  failed_todo : s.failed = true → s.todo = []
  fin_res : s.pc = .fin → s.result = some (outcome s) ∧ s.published = []
  done_res : (s.pc = .done ∨ s.pc = .gone) → s.result = some (outcome s) ∧ s.published = [outcome s]
  not_fin : (s.pc ≠ .fin ∧ s.pc ≠ .done ∧ s.pc ≠ .gone) → s.result = none ∧ s.published = [] ∧ s.dropped = false
  frame : s.frameDestroyed = if s.pc = .gone then 1 else 0
  locals : s.localDtors + s.live = w.locals
  gone_live : s.pc = .gone → s.live = 0
  live_full : (inOp s.pc = true ∨ s.pc = .idle) → s.live = w.locals
  drop_live : s.dropped = true → (s.pc = .fin → s.live = w.locals)
  undropped_done : s.pc = .done → s.dropped = false → s.live = 0
  drop_susp : s.dropped = true → s.k < w.prog.length
  /-- the body of a coroutine that was not dropped is left only after the whole program (or what an escaped failure left of it) -/
  left_todo : (s.pc = .fin ∨ s.pc = .done ∨ s.pc = .gone) → s.dropped = false → s.todo = []

/-- nobody writes the executor stored in an awaited core that is not a Task (since 8ca0444: the resumed coroutine copies it) -/
structure InvE (w : Workload) (s : State) : Prop where
  cexec : ∀ j, (w.cell j).lazy = false → (s.cells j).cexec = (w.cell j).exec0
  rec_cell_exec : ∀ r ∈ s.resumed, ∀ j, r.ctx = .cell j → (w.cell j).lazy = false → r.exAfter = (w.cell j).exec0

theorem invD_init (w : Workload) : InvD w (init w) := by
  constructor <;> simp [init, inOp, outcome]

theorem invE_init (w : Workload) : InvE w (init w) := by
  constructor <;> simp [init, initCell]

end Yaclib.Coro
