/- WhenU (Model/WhenCompose.lean): per-instance facts and frame lemmas. -/
import YaclibModel.Model.WhenCompose
import YaclibModel.Proofs.WhenSpec
import YaclibModel.Proofs.UniqueProgress

namespace Yaclib.WhenU
open Yaclib

/-- what a Unique instance with the program `[attach]` can look like -/
structure UOk (u : Unique.State) : Prop where
  cpc : u.cpc = .idle ∨ u.cpc = .attLoaded .cont ∨ u.cpc = .attFailed .cont
  todo : (u.todo = [.fin (.attach false)]) ∨ (u.todo = [] ∧ u.cpc = .idle)
  word : u.word = .empty ∨ u.word = .cb .cont ∨ u.word = .result
  ppc : u.ppc = .start ∨ u.ppc = .fire .cont ∨ u.ppc = .done
  via : u.viaExec = false

/-- the labels of a Unique instance that the composition uses -/
def used : Unique.Label → Bool
  | .pXchg _ => true
  | .cLoad _ => true
  | .cCas .cont _ => true
  | .invoke _ _ => true
  | _ => false

theorem uok_init (w : When.Workload) (i : Nat) : UOk (Unique.init (wU w i)) := by
  constructor <;> simp [Unique.init, wU]

theorem uok_step {u u' : Unique.State} {l : Unique.Label} (hk : UOk u) (hs : Unique.Step u l u') (hl : used l = true) :
    UOk u' := by
  obtain ⟨h1, h2, h3, h4, h5⟩ := hk
  cases hs <;> (try (simp [used] at hl; done)) <;>
    (constructor <;>
      (try simp only [Unique.doXchg, Unique.doPInvoke, Unique.doAttLoad, Unique.doCasOk, Unique.doCInvoke, Unique.afterFail,
        Unique.opCb, Unique.finCb, used] at *) <;>
      grind)

/-- the steps of the combinator that are not interface events leave the interface state of every input alone -/
theorem when_frame {w : When.Workload} {s s' : When.State} {l : When.Label} (hs : When.Step w s l s') (hl : isEnv l = false) :
    s'.reg = s.reg ∧ s'.consumed = s.consumed ∧ (∀ i, s'.pc i = .pending ↔ s.pc i = .pending) ∧
    (∀ i, s'.pc i = .unreg ↔ s.pc i = .unreg) := by
  cases hs with
  | regSet i okb hc hb hr hn => simp [isEnv] at hl
  | fire i hc hp => simp [isEnv] at hl
  | retire i hc hp =>
      have h2 := When.afterRetire_cases w.strat (w.inp i)
      simp only [When.doRetire]; grind [= When.upd_apply]
  | loadFlag i b hc hp hs hb =>
      have h3 := When.lose_cases w.strat
      cases b <;> simp only [When.doLoadFlag, When.setPc] <;> grind [= When.upd_apply]
  | xchgFlag i hc hp hs =>
      have h3 := When.lose_cases w.strat
      cases hf : s.flag <;> simp only [When.doXchgFlag, hf] <;> grind [= When.upd_apply]
  | setOut i o hc hp => simp only [When.doSetOut]; grind [= When.upd_apply]
  | load3 i x hc hp hs hx =>
      cases hv : When.ok (w.inp i) <;> cases x <;> simp only [When.doLoad3, hv, When.setPc] <;> grind [= When.upd_apply]
  | xchg3 i hc hp hs hv =>
      by_cases hf : s.st3 = .value <;> simp only [When.doXchg3, hf] <;> grind [= When.upd_apply]
  | cas3 i hc hp hs hv =>
      by_cases hf : s.st3 = .empty <;> simp only [When.doCas3, hf] <;> grind [= When.upd_apply]
  | loadLf i d hc hp hs hd => cases d <;> simp only [When.doLoadLf, When.setPc] <;> grind [= When.upd_apply]
  | xchgLf i hc hp hs hv =>
      by_cases hf : s.lf % 2 = 0 <;> simp only [When.doXchgLf, hf] <;> grind [= When.upd_apply]
  | fsubLf i hc hp hs hv =>
      by_cases hf : s.lf = 2 <;> simp only [When.doFsubLf, hf] <;> grind [= When.upd_apply]
  | dec i store hc hp =>
      have h1 := When.dtorStart_cases w.strat s.pValid
      by_cases hc1 : s.count = 1
      · rcases h1 with h1 | h1 | h1 <;> simp only [When.doDec, hc1, h1.1, if_true, When.setPc, When.finish] <;>
          grind [= When.upd_apply]
      · simp only [When.doDec, hc1, if_false, When.finish]; grind [= When.upd_apply]
  | dtorRel i j hc hp =>
      simp only [When.doDtorRel]
      split <;> (try split) <;> (try split) <;> (try split) <;> simp only [When.setPc, When.finish] <;> grind [= When.upd_apply]
  | dtorSet i o hc hp ho => simp only [When.doDtorSet, When.finish]; grind [= When.upd_apply]
  | dtorThrow i hc hp ho => simp only [When.setPc]; grind [= When.upd_apply]
  | crash i hc hp => simp

end Yaclib.WhenU
