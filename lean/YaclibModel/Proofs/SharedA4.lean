import YaclibModel.Proofs.Shared
namespace Yaclib.Shared

set_option maxHeartbeats 4000000 in
theorem invA_step_4 {w s l s'} (hi : InvA w s) (hs : Step s l s') (hg : grpOf l = 4) : InvA w s' := by
  cases hi
  cases hs with
  | oForward t c h hk => invA_auto
  | oEnter t c h hk => invA_auto
  | oWaited t c rest h ht hf => invA_auto
  | oGetc t c rest h ht hf => invA_auto
  | oGetRef t c rest h ht hf => invA_auto
  | oGot t n h => invA_auto
  | _ => simp [grpOf] at hg

end Yaclib.Shared
