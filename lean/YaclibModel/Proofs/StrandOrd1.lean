import YaclibModel.Proofs.StrandOrd
namespace Yaclib.Strand

theorem invOrd_step_a {w s l s'} (ht : InvTok w s) (hi : InvOrd w s) (hs : Step s l s') (hg : ∃ a, l.actor = .act a) :
    InvOrd w s' := by
  cases hs with
  | aCall a h =>
      obtain ⟨j, js, hwd⟩ := word_nonempty_cases (ht.tok_act_word a (by rw [h]; rfl))
      have hh := (ht.tok_act a).mp (by rw [h]; rfl)
      cases hi; simp only [doCall, hwd] at *; ord_auto
  | aBegin a j rem h =>
      have hh := (ht.tok_act a).mp (by rw [h]; rfl)
      cases hi; ord_auto
  | aEnd a j rem h =>
      have hh := (ht.tok_act a).mp (by rw [h]; rfl)
      cases hi; ord_auto
  | aLoad a sawNull h hv =>
      have hh := (ht.tok_act a).mp (by rw [h]; rfl)
      cases sawNull <;> (cases hi; ord_auto)
  | aCasOk a h hw =>
      have hh := (ht.tok_act a).mp (by rw [h]; rfl)
      cases hi; ord_auto
  | aCasFail a h hw =>
      have hh := (ht.tok_act a).mp (by rw [h]; rfl)
      cases hi; ord_auto
  | aResub a h =>
      have hh := (ht.tok_act a).mp (by rw [h]; rfl)
      cases hi; ord_auto
  | aDropX a h =>
      obtain ⟨j, js, hwd⟩ := word_nonempty_cases (ht.tok_act_word a (by rw [h]; rfl))
      have hh := (ht.tok_act a).mp (by rw [h]; rfl)
      cases hi; simp only [doDropX, hwd] at *; ord_auto
  | aDrop a j rem h =>
      have hh : s.holder ≠ some (.act a) := fun hx => by
        have := (ht.tok_act a).mpr hx; rw [h] at this; cases this
      have hb := fun v => remOf_upd_other (acts := s.acts) (v := v) hh
      cases hi; ord_auto
  | _ => simp [Label.actor] at hg

end Yaclib.Strand
