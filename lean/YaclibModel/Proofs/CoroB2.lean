/- preservation of InvB / InvC: the beginning of a co_await -/
import YaclibModel.Proofs.Coro
namespace Yaclib.Coro

theorem mem_replicate_todo {n : Nat} {x : CbSt} (h : x ∈ List.replicate n CbSt.todo) : x = .todo :=
  List.eq_of_mem_replicate h

theorem getElem?_replicate_todo {n q : Nat} {x : CbSt} (h : (List.replicate n CbSt.todo)[q]? = some x) : x = .todo := by
  rw [List.getElem?_replicate] at h; split at h <;> simp_all

set_option maxHeartbeats 16000000 in
theorem invB_step_start {w s l s'} (hwf : w.WF) (ha : InvA w s) (hb : InvB w s) (hs : Step s l s') (hl : l = .start) :
    InvB w s' := by
  cases hs with
  | start op rest h ht =>
      have hno : ∀ j p, p ∉ (s.word j).cbs := by
        intro j p hp; have := (hb.cbs_inop j p hp).1; rw [h] at this; simp [inOp] at this
      have hwfo := op_wf hwf ha ht
      have hfu := hb.foreign_unsafe
      have hnd := hb.nodup
      cases hk : op.kind <;> (try (rename_i o; cases o)) <;>
        (have h1 := wf_nocells hwfo; have h2 := wf_single hwfo; simp only [hk, awaitsCells, isMulti] at h1 h2) <;>
        (simp only [doStart, regFrom, afterReg, hk, isMulti, startExec, startCnt, selfDone]) <;>
        (repeat' split) <;>
        (constructor <;> (simp only [State.word]) <;>
          (try simp only [State.word] at *) <;>
          grind [inOp, decided, regPos, freshPc, afterRegPc, mem_replicate_todo, getElem?_replicate_todo, List.length_replicate])
  | _ => cases hl

end Yaclib.Coro
