import YaclibModel.Proofs.Pool
namespace Yaclib.Pool
open Yaclib.Extracted.PoolConsts

set_option maxHeartbeats 2000000 in
theorem invB_step_0 {w s l s'} (ha : InvA w s) (hi : InvB w s) (hs : Step s l s') (hg : grpOf l = 0) : InvB w s' := by
  have hsk := ha.stolen_kind
  cases hs with
  | sBegin i sb h hpc hk => cases hi; invB_close
  | sLock i sb h hpc hl => cases hi; invB_close
  | sAccept i sb h hpc hw => cases hi; invB_close
  | sReject i sb h hpc hw => cases hi; invB_close
  | sDrop i sb h hpc => cases hi; invB_close
  | sNotifyNone i sb h hpc hn => cases hi; invB_close
  | sNotifyOne i sb v h hpc hv => wfacts hv; cases hi; invB_close
  | _ => simp [grpOf] at hg

end Yaclib.Pool
