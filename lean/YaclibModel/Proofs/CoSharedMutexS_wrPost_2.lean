import YaclibModel.Proofs.CoSharedMutex
namespace Yaclib.CoSharedMutex

set_option maxHeartbeats 4000000 in
theorem inv_wrPost_2 {cfg : Cfg} {s : State} (hi : Inv cfg s) (c : Cid) (r : Nat) (h : s.pc c = .wPost r) (hs : s.spin = .held c) (hp : ¬ s.rwait = -(r : Int)) :
    Inv cfg ((doWrPost s c r)) := by
  cases hi
  simp only [doWrPost, hp, ↓reduceIte]
  sm_auto [List.count_le_length]

end Yaclib.CoSharedMutex
