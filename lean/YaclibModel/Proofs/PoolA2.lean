import YaclibModel.Proofs.Pool
namespace Yaclib.Pool
open Yaclib.Extracted.PoolConsts

set_option maxHeartbeats 2000000 in
theorem invA_step_2 {w s l s'} (hi : InvA w s) (hs : Step s l s') (hg : grpOf l = 2) : InvA w s' := by
  cases hs with
  | wPop i b j rest h hq => wfacts h; cases hi; cases b <;> invA_close
  | wStop i b h hq hc => wfacts h; cases hi; cases b <;> invA_close
  | wExit i b h hq hc hw => wfacts h; cases hi; cases b <;> invA_close
  | wWait i b h hq hc hw => wfacts h; cases hi; cases b <;> invA_close
  | _ => simp [grpOf] at hg

end Yaclib.Pool
