import YaclibModel.Proofs.Pool
namespace Yaclib.Pool
open Yaclib.Extracted.PoolConsts

set_option maxHeartbeats 2000000 in
theorem invA_step_3 {w s l s'} (hi : InvA w s) (hs : Step s l s') (hg : grpOf l = 3) : InvA w s' := by
  cases hs with
  | xBegin k h hk => cases hi; invA_close
  | xLock h hl => cases hi; invA_close
  | xStop h hk => cases hi; invA_close
  | xSoftNow h hk hn => cases hi; invA_close
  | xSoftWant h hk hn => cases hi; invA_close
  | xHard h hk => cases hi; invA_close
  | xNotifyAll h =>
      have hmw := fun pc => @mem_map_wake s.workers pc
      cases hi
      constructor <;> unfold_do <;> bits_simp <;>
        grind [WPc.running, WPc.isHeld, WPc.gone, Sub.isHeld, dropPc_cases, gone_wake, eq_exited_wake, wake]
  | xDrop j rest h => cases hi; invA_close
  | waitRet h hr => cases hi; invA_close
  | _ => simp [grpOf] at hg

end Yaclib.Pool
