import YaclibModel.Proofs.Pool
namespace Yaclib.Pool
open Yaclib.Extracted.PoolConsts

set_option maxHeartbeats 2000000 in
theorem invC_step_1 {w s l s'} (ha : InvA w s) (hi : InvC w s) (hs : Step s l s') (hg : grpOf l = 1) : InvC w s' := by
  have hcj := ha.cnt_jobs
  have hgq := ha.gone_queue
  have hwl := ha.wlen
  cases hs with
  | wLock i pc h hpc hl => wfacts h; cases hi; rcases hpc with hpc | hpc <;> subst hpc <;> invC_close
  | wRelock i h hl => wfacts h; cases hi; invC_close
  | wCall i j h => wfacts h; cases hi; invC_close
  | wSpurious i h => wfacts h; cases hi; invC_close
  | wNotifyAll i h =>
      wfacts h
      have hq : s.queue = [] := ha.gone_queue _ (List.mem_of_getElem? h) rfl
      have hnp := parked_not_mem_wake (s.workers.set i .exited)
      cases hi; invC_close
  | _ => simp [grpOf] at hg

end Yaclib.Pool
