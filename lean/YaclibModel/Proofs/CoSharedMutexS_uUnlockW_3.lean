import YaclibModel.Proofs.CoSharedMutex
namespace Yaclib.CoSharedMutex

set_option maxHeartbeats 4000000 in
theorem inv_uUnlockW_3 {cfg : Cfg} {s : State} (hi : Inv cfg s) (c : Cid) (b : Branch) (n : Cid) (rest : List Cid) (h : s.pc c = .uUnl b) (hs : s.spin = .held c) (hb : needsWriter b = true) (hq : s.WQ = n :: rest) (sw : Nat) (hbr : b = .stored sw) (hf : s.cfg.fifo = false) :
    Inv cfg ((doUUnlock s c b n rest)) := by
  subst hbr
  have ⟨hn, hnr⟩ := head_pc_wq hi hq
  have hmem : ∀ x, x ∈ s.Q ↔ s.pc x = .rparked := fun x => mem_iff_of_count (hi.l_q x)
  have hst := hi.st_sw c
  have hlq := hi.l_qsize
  have h2w := hi.j2w c ((hi.l_excl c).mp (by rw [h]; rfl))
  have h2 := hi.j2 (by rw [(hi.l_excl c).mp (by rw [h]; rfl)]; simp)
  cases hi
  simp only [doUUnlock, hf, Bool.false_eq_true, ↓reduceIte]
  sm_auto [List.count_le_length]

end Yaclib.CoSharedMutex
