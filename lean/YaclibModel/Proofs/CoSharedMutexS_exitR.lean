import YaclibModel.Proofs.CoSharedMutex
namespace Yaclib.CoSharedMutex

set_option maxHeartbeats 4000000 in
theorem inv_exitR {cfg : Cfg} {s : State} (hi : Inv cfg s) (c : Cid) (h : s.pc c = .rcs) :
    Inv cfg ({ s with pc := upd s.pc c .rUn1 }) := by
  cases hi
  sm_auto [List.count_le_length]

end Yaclib.CoSharedMutex
