import YaclibModel.Proofs.FiberSyncSharedFixed
namespace Yaclib.FiberSync.Sm
open Yaclib.FiberSync

set_option maxHeartbeats 4000000 in
theorem invF_step_0 {k s l s'} (hi : InvF k s) (hs : Step s l s') (hg : grpF l = 0) : InvF k s' := by
  cases hs with
  | xFast f h ho => cases hi; smf_auto
  | xPark f h ho => cases hi; smf_auto
  | xRecheckAcq f h ho => cases hi; smf_auto
  | xRepark f h ho => cases hi; smf_auto
  | tryXOk f h ho => cases hi; smf_auto
  | tryXFail f h ho => cases hi; smf_auto
  | xWokenAcq f h => have := hi.no_old f; rw [h] at this; simp [Pc.oldWoken] at this
  | _ => simp [grpF] at hg

end Yaclib.FiberSync.Sm
