import YaclibModel.Proofs.Unique
namespace Yaclib.Unique

set_option maxHeartbeats 4000000 in
theorem inv_step_1 {w s l s'} (hi : Inv w s) (hs : Step s l s') (hg : grpOf l = 1) : Inv w s' := by
  cases hi
  cases hs with
  | cCasOk k h hw => cases k <;> inv_auto
  | cInvoke r h hv hr => inv_auto
  | cSubmit h hv => inv_auto
  | cInvokeSub r h hr => inv_auto
  | cForward r h hr => inv_auto
  | cReady b h => inv_auto
  | _ => simp [grpOf] at hg

end Yaclib.Unique
