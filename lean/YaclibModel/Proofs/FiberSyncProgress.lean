/- Progress for the C18 model `Mx`: what a state in which no fiber can move looks like. -/
import YaclibModel.Proofs.FiberSyncInv

namespace Yaclib.FiberSync.Mx
open Yaclib.FiberSync

/-- in a quiescent state every fiber has finished, or is parked by `Mutex::lock` (directly or in the re-lock of a
    cv wait), or is parked on the condition variable without deadline -/
theorem quiescent_classify {k s} (hi : Inv k s) (hq : Quiescent s) (f : Fid) :
    s.pc f = .done ∨ (∃ c, s.pc f = .lockParked c) ∨ s.pc f = .cvParked := by
  cases hp : s.pc f with
  | idle => exact absurd (Step.lockStart s f hp) (hq _ _)
  | done => exact Or.inl rfl
  | locking c =>
      cases ho : s.occupied with
      | false => exact absurd (Step.lockAcq s f c hp ho) (hq _ _)
      | true => exact absurd (Step.lockPark s f c hp ho) (hq _ _)
  | lockParked c => exact Or.inr (Or.inl ⟨c, rfl⟩)
  | tlfParked r d =>
      exact absurd (Step.tlfTimeout s f (max s.now d) r d (hi.tlf_timed f r d hp) hp (Nat.le_max_right _ _)
        (Nat.le_max_left _ _)) (hq _ _)
  | tlfLocking r =>
      cases ho : s.occupied with
      | false => exact absurd (Step.tlfRecheckAcq s f r (hi.tlfl_timed f r hp) hp ho) (hq _ _)
      | true => exact absurd (Step.tlfRepark s f r 0 (hi.tlfl_timed f r hp) hp ho) (hq _ _)
  | cvParked => exact Or.inr (Or.inr rfl)
  | cvTimed r d =>
      exact absurd (Step.cvTimeout s f (max s.now d) r d hp (Nat.le_max_right _ _) (Nat.le_max_left _ _)) (hq _ _)
  | sleeping d =>
      exact absurd (Step.sleepWake s f (max s.now d) d hp (Nat.le_max_right _ _) (Nat.le_max_left _ _)) (hq _ _)

/-- … and a fiber parked on the mutex queue is parked because the mutex really is held -/
theorem quiescent_parked_held {k s} (hi : Inv k s) (hq : Quiescent s) (f : Fid) (hp : (s.pc f).inMq = true) :
    s.occupied = true ∧ s.holders ≠ [] := by
  have hmq : s.mq ≠ [] := by
    intro h0
    have := hi.pc_mq f hp
    rw [h0] at this; cases this
  cases ho : s.occupied with
  | true => exact ⟨rfl, hi.occ_held ho⟩
  | false =>
      exfalso
      have ht := hi.free_transit ho hmq
      cases htr : s.transit with
      | nil => exact ht htr
      | cons g rest =>
          have hw := hi.transit_pc g (by rw [htr]; simp)
          cases hg : s.pc g with
          | locking c => exact (hq _ _) (Step.lockAcq s g c hg ho)
          | tlfLocking r => exact (hq _ _) (Step.tlfRecheckAcq s g r (hi.tlfl_timed g r hg) hg ho)
          | _ => rw [hg] at hw; simp [Pc.woken] at hw

end Yaclib.FiberSync.Mx
