/- C07, towers of strands (2): a strand composed with the executor below it (`strandExec w L`), the coupling between
   the strand's activations and the lower executor's protocol state, and the projection of a run of the composition
   onto a run of the single-strand model and a protocol-honouring run of the lower executor. -/
import YaclibModel.Proofs.StrandTower

namespace Yaclib.Strand

/-- every client job is handed over by its own `Submit` call (submitter a submits the one job `⟨a, 0⟩`) -/
def ones : Workload := { jobs := [], rest := 1 }

theorem jobsOf_ones (i : Nat) : jobsOf ones i = 1 := by simp [jobsOf, ones]

/-- the event a step of the strand is at the interface of the executor *below* it (activation a = its job a) -/
def syncEv (u : State) : Label → Option XEv
  | .sSched _ => some (.sub u.nacts)
  | .aResub _ => some (.sub u.nacts)
  | .aCall a => some (.call a)
  | .aDropX a => some (.drop a)
  | _ => none

/-- the event a step of the strand is at the interface towards its *clients* (job `⟨a, 0⟩` = client job a) -/
def upEv : Label → Option XEv
  | .sLoad i _ => some (.sub i)
  | .aBegin _ j => some (.call j.sub)
  | .aEnd _ j => some (.ret j.sub)
  | .aDrop _ j => some (.drop j.sub)
  | _ => none

inductive PLab (L : Exec) where
  | up (l : Label)                    -- a step of the strand alone
  | sync (l : Label) (lx : L.Lab)     -- a step of the strand that is an event of the executor below
  | low (lx : L.Lab)                  -- a step of the executor below alone

abbrev PState (L : Exec) := State × L.σ × Prot

/-- the strand over `L`: the environment steps of the single-strand model (`_executor->Submit(*this)`, the start of
    an activation as Call or as Drop) happen only together with the corresponding event of `L`; the body of `L`'s job
    a — the strand's activation a — returns only after that activation has returned.  The third component is the
    (ghost) protocol state at the interface between the two. -/
inductive PStep (L : Exec) : PState L → PLab L → PState L → Prop where
  | up {u l u' x pl} : Step u l u' → syncEv u l = none → PStep L (u, x, pl) (.up l) (u', x, pl)
  | sync {u l u' x lx x' pl e} : Step u l u' → syncEv u l = some e → L.step x lx x' → L.ev lx = some e →
      PStep L (u, x, pl) (.sync l lx) (u', x', specPost pl e)
  | low {u x lx x' pl} : L.step x lx x' → L.ev lx = none → PStep L (u, x, pl) (.low lx) (u, x', pl)
  | lret {u x lx x' pl a} : L.step x lx x' → L.ev lx = some (.ret a) → pl a = .calling → actTerminal (u.acts a) →
      PStep L (u, x, pl) (.low lx) (u, x', specPost pl (.ret a))

def pEv (L : Exec) : PLab L → Option XEv
  | .up l => upEv l
  | _ => none

def strandExec (w : Workload) (L : Exec) : Exec :=
  { σ := PState L, Lab := PLab L, init := (init w, L.init, protInit), step := PStep L, ev := pEv L }

/-- the strand's activations and the lower executor's protocol state agree -/
structure Coupled (u : State) (pl : Prot) : Prop where
  fresh_iff : ∀ a, pl a = .fresh ↔ u.nacts ≤ a
  pending_iff : ∀ a, pl a = .pending ↔ u.acts a = .queued

theorem coupled_init (w : Workload) : Coupled (init w) protInit := by
  constructor <;> simp [init, protInit]

/-- steps that are not events of the lower executor neither create an activation nor start one -/
theorem nonsync_frame {u l u'} (hs : Step u l u') (hn : syncEv u l = none) :
    u'.nacts = u.nacts ∧ ∀ a, (u'.acts a = .queued ↔ u.acts a = .queued) := by
  cases hs with
  | sLoad i v h hj hv => simp [doLoad]
  | sCasOk i exp h he => simp [doCasOk]
  | sCasFail i exp v h hne hv => simp [doLoad]
  | sCasSpur i exp h => simp
  | sSched i h => simp [syncEv] at hn
  | aCall a h => simp [syncEv] at hn
  | aBegin a j rem h => simp only [doBegin, upd]; grind
  | aEnd a j rem h => simp only [doEnd, upd]; grind
  | aLoad a b h hv => cases b <;> (simp only [doALoad, upd]; grind)
  | aCasOk a h hw => simp only [doACasOk, upd]; grind
  | aCasFail a h hw => simp only [doACasFail, upd]; grind
  | aResub a h => simp [syncEv] at hn
  | aDropX a h => simp [syncEv] at hn
  | aDrop a j rem h => by_cases hr : rem = [] <;> (simp only [doDrop, upd]; grind)

theorem coupled_sync {u l u' pl e} (hc : Coupled u pl) (hs : Step u l u') (he : syncEv u l = some e) :
    Coupled u' (specPost pl e) ∧ (e.isInput = true → specPre pl e) := by
  obtain ⟨hf, hp⟩ := hc
  cases hs with
  | sSched i h =>
      simp only [syncEv, Option.some.injEq] at he; subst he
      refine ⟨?_, fun _ => (hf _).mpr (Nat.le_refl _)⟩
      constructor <;> simp only [doSched, specPost, upd] <;> grind
  | aResub a h =>
      simp only [syncEv, Option.some.injEq] at he; subst he
      refine ⟨?_, fun _ => (hf _).mpr (Nat.le_refl _)⟩
      constructor <;> simp only [doResub, specPost, upd] <;> grind
  | aCall a h =>
      simp only [syncEv, Option.some.injEq] at he; subst he
      refine ⟨?_, fun hi => by simp [XEv.isInput] at hi⟩
      have h1 := (hp a).mpr h
      cases hw : u.word with
      | mark => constructor <;> simp only [doCall, hw, specPost, upd] <;> grind
      | list js =>
          cases js with
          | nil => constructor <;> simp only [doCall, hw, specPost, upd] <;> grind
          | cons j js => constructor <;> simp only [doCall, hw, specPost, upd] <;> grind
  | aDropX a h =>
      simp only [syncEv, Option.some.injEq] at he; subst he
      refine ⟨?_, fun hi => by simp [XEv.isInput] at hi⟩
      have h1 := (hp a).mpr h
      cases hw : u.word with
      | mark => constructor <;> simp only [doDropX, hw, specPost, upd] <;> grind
      | list js =>
          cases js with
          | nil => constructor <;> simp only [doDropX, hw, specPost, upd] <;> grind
          | cons j js => constructor <;> simp only [doDropX, hw, specPost, upd] <;> grind
  | sLoad i v h hj hv => simp [syncEv] at he
  | sCasOk i exp h he' => simp [syncEv] at he
  | sCasFail i exp v h hne hv => simp [syncEv] at he
  | sCasSpur i exp h => simp [syncEv] at he
  | aBegin a j rem h => simp [syncEv] at he
  | aEnd a j rem h => simp [syncEv] at he
  | aLoad a b h hv => simp [syncEv] at he
  | aCasOk a h hw => simp [syncEv] at he
  | aCasFail a h hw => simp [syncEv] at he
  | aDrop a j rem h => simp [syncEv] at he

theorem syncEv_input_or_output {u l e} (he : syncEv u l = some e) :
    (e.isInput = true ∧ ∃ a, e = .sub a) ∨ (e.isInput = false) := by
  cases l <;> simp [syncEv] at he <;> subst he <;> simp [XEv.isInput]

/-- **projection**: every reachable state of the composition consists of a reachable state of the single-strand
    model (so every theorem about it applies to the strand at this level), a state the executor below reaches with a
    client that honours the protocol (the strand is such a client), and the two are coupled. -/
def ProdInv (w : Workload) (L : Exec) (s : PState L) : Prop :=
  Reachable w s.1 ∧ L.Run s.2.1 s.2.2 ∧ Coupled s.1 s.2.2

theorem prod_inv {w : Workload} {L : Exec} {s : (strandExec w L).σ} (h : (strandExec w L).Reach s) :
    ProdInv w L s := by
  induction h with
  | init => exact ⟨.init, .init, coupled_init w⟩
  | step _ hs ih =>
      obtain ⟨hr, hl, hc⟩ := ih
      cases hs with
      | up hst hn =>
          obtain ⟨h1, h2⟩ := nonsync_frame hst hn
          refine ⟨.step hr hst, hl, ⟨fun a => ?_, fun a => ?_⟩⟩
          · simp only; rw [h1]; exact hc.fresh_iff a
          · simp only; rw [h2 a]; exact hc.pending_iff a
      | sync hst he hlx hev =>
          obtain ⟨hc', hpre⟩ := coupled_sync hc hst he
          refine ⟨.step hr hst, ?_, hc'⟩
          rcases syncEv_input_or_output he with ⟨hi, _⟩ | ho
          · exact .inp hl hlx hev hi (hpre hi)
          · exact .out hl hlx hev ho
      | low hlx hev => exact ⟨hr, .tau hl hlx hev, hc⟩
      | lret hlx hev hp ht =>
          refine ⟨hr, .inp hl hlx hev rfl hp, ⟨fun b => ?_, fun b => ?_⟩⟩
          · have := hc.fresh_iff b
            simp only [specPost, upd]; grind
          · have := hc.pending_iff b
            simp only [specPost, upd]; grind

end Yaclib.Strand
