/- C15 over the library's executors: instances of Proofs/CoSharedMutexExec.lean for Inline, ManualExecutor, the
   FairThreadPool model and towers of Strands (executor models and contract proofs: Proofs/StrandTowerInline.lean,
   StrandTowerManual.lean, PoolExecContract.lean, StrandTowerN.lean). -/
import YaclibModel.Proofs.CoSharedMutexExec
import YaclibModel.Proofs.StrandTowerInline
import YaclibModel.Proofs.StrandTowerManual
import YaclibModel.Proofs.PoolExecContract

namespace Yaclib.CoSharedMutex
open Yaclib.Strand (Exec XEv Prot Phase specPre specPost protInit ExecContract)
open Yaclib.CoMutex (NeverDrops)

theorem inline_neverDrops : NeverDrops (Yaclib.Strand.inlineExec true) := by
  intro x l x' a hs he
  have : l = .drop a := Option.some.inj he
  subst this
  exact Yaclib.Strand.inline_alive_never_drops hs

theorem manual_neverDrops (d : Bool) : NeverDrops (Yaclib.Strand.manualExec d) := by
  intro x l x' a hs he
  cases l with
  | ev e =>
      have : e = .drop a := Option.some.inj he
      subst this
      exact Yaclib.Strand.manual_never_drops hs
  | drainEnter => simp [Yaclib.Strand.manualExec, Yaclib.Strand.manualEv] at he
  | drainExit => simp [Yaclib.Strand.manualExec, Yaclib.Strand.manualEv] at he
  | destroy => simp [Yaclib.Strand.manualExec, Yaclib.Strand.manualEv] at he

/-- what "nobody is forgotten" means over an executor -/
def QuiescentDone (_cfg : Cfg) {E : Exec} (s : XState E) : Prop :=
  s.m.W = 0 ∧ s.m.R = 0 ∧ s.m.rwait = 0 ∧ s.m.spin = .free ∧ s.m.Q.length = 0 ∧ s.m.WQ.length = 0 ∧
  ∀ c, s.m.pc c = .idle ∧ s.m.todo c = []

theorem xshared_quiescent_done {cfg : Cfg} {E : Exec} (hc : ExecContract E) (hnd : NeverDrops E) {s : XState E}
    (h : XReach cfg E s) (hq : ∀ s', ¬ XStep E s s') : QuiescentDone cfg s := by
  have hi := inv_reachable (xshared_projects h).1
  have hq' := xshared_quiescent hc hnd h hq
  have hall := quiescent hi hq'
  have hfree := spin_free_of_quiescent hi hq'
  have hnone : ∀ {l : List Cid} {P : Pc → Bool}, (∀ c, l.count c = if P (s.m.pc c) then 1 else 0) → P .idle = false →
      l.length = 0 := by
    intro l P hl hP
    cases l with
    | nil => rfl
    | cons a t =>
        have := hl a
        rw [(hall a).1, hP] at this
        simp at this
  have har : s.m.ar.length = 0 := hnone hi.l_ar rfl
  have hifl : s.m.ifl.length = 0 := hnone hi.l_ifl rfl
  have htorun : s.m.torun.length = 0 :=
    hnone (P := fun p => decide (p = .rgranted)) (by intro c; simpa using hi.l_torun c) rfl
  have hQ : s.m.Q.length = 0 := hnone (P := fun p => decide (p = .rparked)) (by intro c; simpa using hi.l_q c) rfl
  have hWQ : s.m.WQ.length = 0 := hnone (P := fun p => decide (p = .wparkedQ)) (by intro c; simpa using hi.l_wq c) rfl
  have hexcl : s.m.excl = none := by
    cases he : s.m.excl with
    | none => rfl
    | some x => have := (hi.l_excl x).mpr he; rw [(hall x).1] at this; cases this
  have hpw : s.m.pw = .none := by
    cases hp : s.m.pw with
    | none => rfl
    | a n r => have := hi.pw_a n r hp; rw [(hall n).1] at this; cases this
    | b n => have := hi.pw_b n hp; rw [(hall n).1] at this; cases this
    | c n b => have := (hi.pw_c n b hp).1; rw [(hall n).1] at this; cases this
  have hW : s.m.W = 0 := by
    have h5 := hi.j5
    rw [hi.l_ew_none hexcl, hpw, hWQ, hi.l_enq_free hfree] at h5
    simpa using h5
  have hR : s.m.R = 0 := by have := hi.j4; omega
  exact ⟨hW, hR, hi.j3n hexcl hpw, hfree, hQ, hWQ, hall⟩

/-- Inline (alive) -/
theorem cosharedmutex_over_inline {cfg : Cfg} {s : XState (Yaclib.Strand.inlineExec true)}
    (h : XReach cfg (Yaclib.Strand.inlineExec true) s) (hq : ∀ s', ¬ XStep _ s s') : QuiescentDone cfg s :=
  xshared_quiescent_done (Yaclib.Strand.inline_contract true) inline_neverDrops h hq

/-- ManualExecutor whose owner keeps draining (and does not destroy it) -/
theorem cosharedmutex_over_manual {cfg : Cfg} {s : XState (Yaclib.Strand.manualExec false)}
    (h : XReach cfg (Yaclib.Strand.manualExec false) s) (hq : ∀ s', ¬ XStep _ s s') : QuiescentDone cfg s :=
  xshared_quiescent_done Yaclib.Strand.manual_contract (manual_neverDrops false) h hq

/-- FairThreadPool with n ≥ 1 workers: the contract is `pool_contract`; "never Drops" (nobody stops it) is the remaining
    hypothesis -/
theorem cosharedmutex_over_pool {cfg : Cfg} {n : Nat} (hn : 0 < n) (stop : Option Yaclib.Pool.StopKind) (spur : Bool)
    (hnd : NeverDrops (Yaclib.Pool.poolExec n stop spur)) {s : XState (Yaclib.Pool.poolExec n stop spur)}
    (h : XReach cfg (Yaclib.Pool.poolExec n stop spur) s) (hq : ∀ s', ¬ XStep _ s s') : QuiescentDone cfg s :=
  xshared_quiescent_done (Yaclib.Pool.pool_contract hn stop spur) hnd h hq

/-- a tower of k Strands over any contract-honouring base -/
theorem cosharedmutex_over_strand_tower {cfg : Cfg} {base : Exec} (hb : ExecContract base) (k : Nat)
    (hnd : NeverDrops (Yaclib.Strand.tower base k)) {s : XState (Yaclib.Strand.tower base k)}
    (h : XReach cfg (Yaclib.Strand.tower base k) s) (hq : ∀ s', ¬ XStep _ s s') : QuiescentDone cfg s :=
  xshared_quiescent_done (Yaclib.Strand.tower_satisfies_contract hb k) hnd h hq

end Yaclib.CoSharedMutex
