/- preservation of InvB: the counter steps of the multi awaiters, the Task store, the resumption -/
import YaclibModel.Proofs.CoroB4
namespace Yaclib.Coro

theorem subNext_afterReg (k : AKind) : afterRegPc (subNext k) = true := by cases k <;> rfl
theorem subNext_decided (k : AKind) : decided (subNext k) = false := by cases k <;> rfl
theorem subNext_regPos (k : AKind) : regPos (subNext k) = none := by cases k <;> rfl
theorem subNext_fresh (k : AKind) : freshPc (subNext k) = false := by cases k <;> rfl
theorem subNext_ne_susp (k : AKind) : subNext k ≠ .susp := by cases k <;> simp [subNext]
theorem subNext_ne_rdyL (k : AKind) (x : Obs) : subNext k ≠ .rdyL x := by cases k <;> simp [subNext]
theorem subNext_ne_wake (k : AKind) (c : Ctx) : subNext k ≠ .wake c := by cases k <;> simp [subNext]

theorem upd_cell_word (f : Nat → Cell) (j i : Nat) (c : Cell) :
    (upd f j c i).word = if i = j then c.word else (f i).word := by
  simp only [upd]; split <;> simp_all

set_option maxHeartbeats 16000000 in
theorem invB_step_6 {w s l s'} (hwf : w.WF) (ha : InvA w s) (hb : InvB w s) (hc : InvC w s) (hs : Step s l s')
    (hl : match l with | .msub | .msuspend | .tstore | .resume _ _ => True | _ => False) : InvB w s' := by
  cases hs with
  | msub op rest h ht =>
      simp only [doMsub]
      cases hb
      constructor <;> (try simp only [State.word] at *) <;>
        grind [inOp, decided, regPos, freshPc, afterRegPc, subNext_afterReg, subNext_decided, subNext_regPos, subNext_fresh,
          subNext_ne_susp, subNext_ne_rdyL, subNext_ne_wake, inOp_subNext]
  | msuspend op rest h ht =>
      have hpk := ha.pc_kind op rest ht
      rw [h] at hpk
      have hm : isMulti op.kind = true := by simpa [pcKindOk] using hpk
      simp only [doMsuspend]
      split
      · -- the coroutine's own SubEqual(1) was the last decrement: nothing is pending any more
        rename_i h1
        have hmid := hc.multi_mid op rest ht (Or.inr (Or.inl h))
        have hnp : ∀ (q : Nat), s.st[q]? ≠ some CbSt.pending := forall_ne_of_count_eq_zero (by omega)
        have hnt := hb.no_todo (by rw [h]; rfl)
        have hno := no_cbs_of_no_pending ha hb hnp
        have hall : ∀ op' rest' j, s.todo = op' :: rest' → j ∈ op'.cells → (s.word j).isResult = true := by
          intro op' rest' j ht' hj
          exact all_result_of_settled (ha.st_len op' rest' ht' (by rw [h]; rfl)) hnt hnp
            (fun p j hp hs => hb.settled_res op' rest' p j ht' (by rw [h]; rfl) hp hs) j hj
        cases hb
        constructor <;> (try simp only [State.word] at *) <;>
          grind [inOp, decided, regPos, freshPc, afterRegPc, selfDone_decided, selfDone_not_cell,
            selfDone_regPos, selfDone_fresh, selfDone_afterReg, selfDone_ne_susp, selfDone_ne_rdyL, inOp_selfDone]
      · cases hb
        constructor <;> (try simp only [State.word] at *) <;>
          grind [inOp, decided, regPos, freshPc, afterRegPc]
  | tstore op rest j h ht hj =>
      have hpk := ha.pc_kind op rest ht
      rw [h] at hpk
      have hk : op.kind = .task := by simpa [pcKindOk] using hpk
      have hn1 := wf_single (op_wf hwf ha ht) (by rw [hk]; rfl) (by rw [hk]; rfl)
      have hlen := ha.st_len op rest ht (by rw [h]; rfl)
      have hno := no_cbs_of_fresh ha hb (by rw [h]; rfl)
      have hf := hb.fresh (by rw [h]; rfl)
      have hcells : ∀ j', j' ∈ op.cells → j' = j := fun j' hj' => mem_single hn1 hj hj'
      have hq0 : ∀ (q : Nat) (j' : Nat), op.cells[q]? = some j' → q = 0 ∧ j' = j := by
        intro q j' hq
        have := lt_of_getElem?_some hq
        have hq0 : q = 0 := by omega
        subst hq0
        rw [hj] at hq; exact ⟨rfl, (Option.some.inj hq).symm⟩
      simp only [doTstore]
      cases hb
      constructor <;> (try simp only [State.word, upd_cell_word] at *) <;>
        grind [inOp, decided, regPos, freshPc, afterRegPc, isMulti, Word.cbs, Word.isResult, List.length_set]
  | resume op rest c h ht =>
      have hno := no_cbs_of_decided hb (by rw [h]; rfl)
      simp only [doResume]
      cases hb
      constructor <;> (try simp only [State.word] at *) <;>
        grind [inOp, decided, regPos, freshPc, afterRegPc]
  | _ => simp at hl

end Yaclib.Coro
