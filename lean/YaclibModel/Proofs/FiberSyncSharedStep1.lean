import YaclibModel.Proofs.FiberSyncShared
namespace Yaclib.FiberSync.Sm
open Yaclib.FiberSync

set_option maxHeartbeats 4000000 in
theorem inv_step_1 {k s l s'} (hi : Inv k s) (hs : Step s l s') (hg : grpOf l = 1) : Inv k s' := by
  cases hs with
  | sFast f h hx => cases hi; sm_auto
  | sPark f h hx => cases hi; sm_auto
  | sRecheckAcq f h hx => cases hi; sm_auto
  | sRepark f h hx => cases hi; sm_auto
  | trySOk f h hx => cases hi; sm_auto
  | trySFail f h hx => cases hi; sm_auto
  | _ => simp [grpOf] at hg

end Yaclib.FiberSync.Sm
