import YaclibModel.Proofs.FiberSyncShared
namespace Yaclib.FiberSync.Sm
open Yaclib.FiberSync

set_option maxHeartbeats 4000000 in
theorem inv_step_1 {k s l s'} (hi : Inv k s) (hs : Step s l s') (hg : grpOf l = 1) : Inv k s' := by
  cases hi
  cases hs with
  | unlock f coin w hx h hh hc hw => cases w <;> sm_auto
  | unlockF f w hx h hh hw => cases w <;> sm_auto
  | _ => simp [grpOf] at hg

end Yaclib.FiberSync.Sm
