import YaclibModel.Proofs.CoSharedMutex
namespace Yaclib.CoSharedMutex

set_option maxHeartbeats 4000000 in
theorem inv_wrFadd {cfg : Cfg} {s : State} (hi : Inv cfg s) (c : Cid) (h : s.pc c = .wLocked) (hs : s.spin = .held c) :
    Inv cfg ((doWrFadd s c)) := by
  have hpb := pendBy_none_of_held hi hs (by rw [h]; rfl)
  have hpd := hi.pend_none hpb
  by_cases hW : s.W = 0
  · have hpwn : s.pw = .none := by
      have h5 := hi.j5
      cases hp : s.pw.isSome
      · exact PW.eq_none_of_isSome hp
      · rw [hW, hp] at h5; simp at h5 <;> omega
    cases hi
    by_cases hR : s.R = 0
    · simp only [doWrFadd, hW, hR, ↓reduceIte]; sm_auto [List.count_le_length]
    · simp only [doWrFadd, hW, hR, ↓reduceIte]; sm_auto [List.count_le_length]
  · cases hi
    simp only [doWrFadd, hW, ↓reduceIte]; sm_auto [List.count_le_length]

end Yaclib.CoSharedMutex
