import YaclibModel.Proofs.CoSharedMutexS_wrFadd_1
import YaclibModel.Proofs.CoSharedMutexS_wrFadd_2
import YaclibModel.Proofs.CoSharedMutexS_wrFadd_3
namespace Yaclib.CoSharedMutex

theorem inv_wrFadd {cfg : Cfg} {s : State} (hi : Inv cfg s) (c : Cid) (h : s.pc c = .wLocked) (hs : s.spin = .held c) :
    Inv cfg ((doWrFadd s c)) := by
  by_cases hW : s.W = 0
  · by_cases hR : s.R = 0
    · exact inv_wrFadd_1 hi c h hs hW hR
    · exact inv_wrFadd_2 hi c h hs hW hR
  · exact inv_wrFadd_3 hi c h hs hW

end Yaclib.CoSharedMutex
