/- C08 ↔ C07: the open FairThreadPool honours the `IExecutor` contract (`Strand.ExecContract`). -/
import YaclibModel.Proofs.PoolExecAbs

namespace Yaclib.Pool
open Yaclib.Strand (Exec XEv Prot Phase specPre specPost protInit ExecContract upd)

theorem pad_zero (s : State) : pad s 0 = s := by
  simp [pad]

theorem total_one {n stop} {s : State} (h : Reachable (wN n stop s.subs.length) s) {a : Nat} {sb : Sub}
    (hg : s.subs[a]? = some sb) : sb.total = 1 := by
  have hlt := (List.getElem?_eq_some_iff.mp hg).1
  have := ((invB_reachable h).sub_wf a sb hg).1
  simp [wN, hlt] at this
  exact this.symm

/-- a client that has not submitted yet has (after creating its stream) an idle one-job stream -/
theorem fresh_stream {n stop} {x : PX} (hi : PXInv n stop x) {a : Nat} (hf : freshB x.m a = true) :
    ∃ sb, (pad x.m (a + 1)).subs[a]? = some sb ∧ sb.pc = .idle ∧ sb.k = 0 ∧ sb.total = 1 := by
  have hrp := reachable_pad hi.reach (a + 1)
  have hlt : a < (pad x.m (a + 1)).subs.length := by rw [pad_length]; omega
  have hg : (pad x.m (a + 1)).subs[a]? = some (pad x.m (a + 1)).subs[a] := List.getElem?_eq_getElem hlt
  refine ⟨_, hg, ?_⟩
  have hf' : freshB (pad x.m (a + 1)) a = true := by rw [fresh_pad]; exact hf
  simp only [freshB, hg, decide_eq_true_eq] at hf'
  exact ⟨hf'.1, hf'.2, total_one hrp hg⟩

/-- when only `Submit` calls (and spurious wake-ups) remain possible and no body is running, no job is pending -/
theorem nothing_pending {n stop} (hn : 0 < n) {x : PX} (hi : PXInv n stop x) (hb0 : x.inBody = [])
    (hq : ∀ l m', Step x.m l m' → l.isSpurious = true ∨ ∃ i j, l = .submit i j) (a : Nat) : absP x a ≠ .pending := by
  intro hpend
  have hR := hi.reach
  have ha := invA_reachable hR
  have hb := invB_reachable hR
  have hno : ∀ {l m'}, Step x.m l m' → l.isSpurious = false → (∀ i j, l ≠ .submit i j) → False := by
    intro l m' hs h1 h2
    rcases hq l m' hs with h | ⟨i, j, h⟩
    · rw [h1] at h; cases h
    · exact h2 i j h
  have hrest : PoolAtRest x.m := by
    intro l m' hs
    rcases hq l m' hs with h | ⟨i, j, h⟩
    · cases l <;> simp [Label.isSpurious] at h; simp [ClientControlled]
    · subst h; simp [ClientControlled]
  obtain ⟨hul, hhead, hnot⟩ := heading_zero_of_at_rest ha hrest
  -- unfold the interface state
  have hnf : freshB x.m a = false := not_fresh_of_absP (by rw [hpend]; simp)
  have hnfin : ¬ finB x.m a := by
    intro hf; simp [absP, hnf, hb0, hf] at hpend
  -- the stream exists
  cases hg : x.m.subs[a]? with
  | none => simp [freshB, hg] at hnf
  | some sb =>
      have htot := total_one hR hg
      have hwf := hb.sub_wf a sb hg
      cases hpc : sb.pc with
      | want => exact hno (.sLock x.m a sb hg hpc hul) rfl (by intro i j h; cases h)
      | held =>
          obtain ⟨m', hs⟩ := sub_unlock_enabled hg hpc
          exact hno hs rfl (by intro i j h; cases h)
      | dropping => exact hno (.sDrop x.m a sb hg hpc) rfl (by intro i j h; cases h)
      | notifying =>
          by_cases hp : WPc.parked ∈ x.m.workers
          · obtain ⟨v, hv⟩ := List.mem_iff_getElem?.mp hp
            exact hno (.sNotifyOne x.m a sb v hg hpc hv) rfl (by intro i j h; cases h)
          · exact hno (.sNotifyNone x.m a sb hg hpc hp) rfl (by intro i j h; cases h)
      | idle =>
          have hk : sb.k = 1 := by
            have h1 := hwf.2.1
            have : sb.k ≠ 0 := by
              intro h0; simp [freshB, hg, hpc, h0] at hnf
            omega
          have hsub : (⟨a, 0⟩ : JobId) ∈ x.m.submitted := (hb.sub_all a sb hg).1 0 (by omega)
          obtain ⟨c1, c2, c3, c4, c5⟩ := job_counts hR ⟨a, 0⟩
          have hfl : inFlight x.m ⟨a, 0⟩ = 0 := by simp [inFlight, hg, hpc]
          have hs1 := List.count_pos_iff.mpr hsub
          have hst0 : x.m.started.count ⟨a, 0⟩ = 0 := count_zero_of_not_mem (fun h => hnfin (Or.inl h))
          have hrj0 : x.m.rejected.count ⟨a, 0⟩ = 0 := count_zero_of_not_mem (fun h => hnfin (Or.inr (Or.inl h)))
          have hhd0 : x.m.hardDropped.count ⟨a, 0⟩ = 0 := count_zero_of_not_mem (fun h => hnfin (Or.inr (Or.inr h)))
          -- where is the job?
          by_cases hpop : 0 < x.m.popped.count ⟨a, 0⟩
          · -- popped and not started: a worker is about to Call it
            have hc : 0 < x.m.workers.countP (WPc.isCalling ⟨a, 0⟩) := by omega
            obtain ⟨pc, hm, hp⟩ := List.countP_pos_iff.mp hc
            obtain ⟨i, hiw⟩ := List.mem_iff_getElem?.mp hm
            cases pc with
            | calling j =>
                have : j = ⟨a, 0⟩ := by simpa [WPc.isCalling] using hp
                subst this
                exact hno (.wCall x.m i _ hiw) rfl (by intro i j h; cases h)
            | _ => simp [WPc.isCalling] at hp
          · by_cases hsto : 0 < x.m.stolen.count ⟨a, 0⟩
            · -- taken by HardStop and not dropped yet: the Drop loop is not finished
              have hne : x.m.stolen ≠ [] := by intro h; rw [h] at hsto; simp at hsto
              cases hx : x.m.xpc with
              | done => have := hb.hard_done hx; rw [this] at hhd0; omega
              | dropping l =>
                  cases l with
                  | nil => exact absurd rfl (ha.x_drop [] hx).2.2
                  | cons j rest => exact hno (.xDrop x.m j rest hx) rfl (by intro i j h; cases h)
              | notifyAll => exact hno (.xNotifyAll x.m hx) rfl (by intro i j h; cases h)
              | idle => exact hne (ha.x_pre (Or.inl hx)).2.1
              | want => exact hne (ha.x_pre (Or.inr (Or.inl hx))).2.1
              | held => exact hne (ha.x_pre (Or.inr (Or.inr hx))).2.1
            · -- still queued: but then a worker is on its way, or everybody has left (impossible with a queue)
              have hqc : 0 < x.m.queue.count ⟨a, 0⟩ := by omega
              have hqne : x.m.queue ≠ [] := by intro h; rw [h] at hqc; simp at hqc
              have hnp : WPc.parked ∉ x.m.workers := by
                intro hp
                have := (invW_reachable hR).conserve hp
                rw [hhead, hnot] at this
                exact hqne (List.eq_nil_of_length_eq_zero (by omega))
              have hall : ∀ pc ∈ x.m.workers, pc = .exited := by
                intro pc hm
                obtain ⟨i, hiw⟩ := List.mem_iff_getElem?.mp hm
                have hh := List.countP_eq_zero.mp hhead pc hm
                cases pc with
                | exited => rfl
                | parked => exact absurd hm hnp
                | start => simp [WPc.heading] at hh
                | woken => simp [WPc.heading] at hh
                | held b => simp [WPc.heading] at hh
                | calling j => exact (hno (.wCall x.m i j hiw) rfl (by intro i j h; cases h)).elim
                | relock => exact (hno (.wRelock x.m i hiw hul) rfl (by intro i j h; cases h)).elim
                | stopping => exact (hno (.wNotifyAll x.m i hiw) rfl (by intro i j h; cases h)).elim
              have hlen : 0 < x.m.workers.length := by rw [ha.wlen]; exact hn
              obtain ⟨pc, hm⟩ := List.exists_mem_of_length_pos hlen
              have := hall pc hm
              subst this
              exact hqne (ha.gone_queue _ hm rfl)

/-- **the FairThreadPool honours the IExecutor contract** — for every number of workers n ≥ 1, whichever of
    Stop / SoftStop / HardStop is called (or none), at whatever moment, with or without spurious wake-ups:
    * it Calls / Drops only pending jobs (so every submitted job at most once, never both, only after its Submit);
    * a client can always call `Submit` and a job body can always return (the pool never makes its clients wait:
      `Call` and `Drop` happen outside the mutex and a critical section always ends);
    * when the pool has nothing left to do and no body is running, nothing is pending (no job is left in the queue, in
      HardStop's Drop loop or inside a Submit: work conservation + the quiescence analysis). -/
theorem pool_contract {n : Nat} (hn : 0 < n) (stop : Option StopKind) (spur : Bool) :
    ExecContract (poolExec n stop spur) := by
  refine ⟨?_, ?_, ?_, ?_⟩
  · intro x p l x' e hr hs he ho
    rw [run_abs hr]
    exact (abs_step (pxinv_reach hr.reach) hs).1 e he ho
  · intro x p a hr hp
    have hi := pxinv_reach hr.reach
    rw [run_abs hr] at hp
    obtain ⟨sb, hg, hpc, hk, htot⟩ := fresh_stream hi (fresh_of_absP_fresh hp)
    have hst := Step.sBegin (pad x.m (a + 1)) a sb hg hpc (by omega)
    exact ⟨.m (.submit a ⟨a, sb.k⟩), _, PStep.m (a + 1) hst trivial (fun _ => rfl), rfl⟩
  · intro x p a hr hp
    rw [run_abs hr] at hp
    have hm : a ∈ x.inBody.map Prod.snd := by
      have hnf := not_fresh_of_absP (x := x) (a := a) (by rw [hp]; simp)
      by_cases hm : a ∈ x.inBody.map Prod.snd
      · exact hm
      · exfalso
        by_cases hf : finB x.m a <;> simp [absP, hnf, hm, hf] at hp
    obtain ⟨⟨i, a'⟩, hm', ha'⟩ := List.mem_map.mp hm
    simp only at ha'; subst ha'
    exact ⟨.ret i a', _, PStep.ret hm', rfl⟩
  · intro x p hr hq hnc a
    have hi := pxinv_reach hr.reach
    rw [run_abs hr] at hnc ⊢
    -- no body is running
    have hb0 : x.inBody = [] := by
      cases hbz : x.inBody with
      | nil => rfl
      | cons pr rest =>
          obtain ⟨i, b⟩ := pr
          exfalso
          have hm : (i, b) ∈ x.inBody := by rw [hbz]; simp
          have hst := hi.body_started i b hm
          have hnf := (submitted_one hi.reach (fin_submitted hi.reach (Or.inl hst))).2
          simp only at hnf
          have hmm : b ∈ x.inBody.map Prod.snd := List.mem_map.mpr ⟨(i, b), hm, rfl⟩
          exact hnc b (by simp [absP, hnf, hmm])
    apply nothing_pending hn hi hb0
    intro l m' hs
    by_cases hsp : l.isSpurious = true
    · exact Or.inl hsp
    · right
      have hsp' : l.isSpurious = false := by simpa using hsp
      have hbo : bodyOk x l := by
        cases l with
        | lock t => cases t <;> simp [bodyOk, hb0]
        | _ => trivial
      have hps : (poolExec n stop spur).step x (.m l) ⟨m', bodyAfter x l⟩ :=
        PStep.m 0 (by rw [pad_zero]; exact hs) hbo (fun _ => hsp')
      obtain ⟨e, he, hin⟩ := hq _ _ hps
      cases l <;> simp [poolExec, pEv] at he <;> subst he <;> simp [XEv.isInput] at hin
      exact ⟨_, _, rfl⟩

end Yaclib.Pool
