/- C11 invariant: preservation by the registration loop and by the start of a wait call -/
import YaclibModel.Proofs.WaitR0

namespace Yaclib.Wait
variable {w : Workload} {s : State}


/-- a registration attempt on future `i` that found the word not empty found the result -/
theorem reg_fail_ready (hi : Inv w s) (i : Nat) (hp : s.wpc = .reg i ∨ s.wpc = .regCas i)
    (hne : (s.fut i).word ≠ .empty) : (s.fut i).g = .out ∧ (s.fut i).word = .result := by
  have hal : s.alive = true := hi.alive_iff.mpr (by rcases hp with hp | hp <;> simp [hp, WPc.inCall])
  have hr := hi.reg_inv i hp
  have hg : (s.fut i).g = .out := by
    cases hg : (s.fut i).g with
    | out => rfl
    | _ =>
        have := hi.g_range hal i (by simp [hg])
        rcases hp with hp | hp <;> simp only [regBound, hp] at this <;> omega
  refine ⟨hg, ?_⟩
  rcases hi.out_word hal hr.1 hg with h | h
  · exact absurd h hne
  · exact h

set_option maxHeartbeats 1000000 in
/-- registration of future `i` failed: move on -/
theorem inv_regNext (hi : Inv w s) (i : Nat) (hp : s.wpc = .reg i ∨ s.wpc = .regCas i)
    (hne : (s.fut i).word ≠ .empty) : Inv w (advReg s (i + 1)) := by
  have hal : s.alive = true := hi.alive_iff.mpr (by rcases hp with hp | hp <;> simp [hp, WPc.inCall])
  have hr := hi.reg_inv i hp
  have hf := reg_fail_ready hi i hp hne
  rw [← advReg_wpc s (.reg (i + 1))]
  apply inv_advReg _ (i + 1) rfl
  rcases hp with hp | hp <;> inv_fields_pc_at hi hp i



set_option maxHeartbeats 1000000 in
theorem inv_toRegCas (hi : Inv w s) (i : Nat) (hp : s.wpc = .reg i ∨ s.wpc = .regCas i) :
    Inv w { s with wpc := .regCas i } := by
  have hr := hi.reg_inv i hp
  rcases hp with hp | hp
  · inv_fields_pc hi hp
  · inv_fields_pc hi hp

set_option maxHeartbeats 1000000 in
theorem inv_wRegCasOk (hi : Inv w s) (i : Nat) (hp : s.wpc = .regCas i) (hw : (s.fut i).word = .empty) :
    Inv w (doRegCasOk s i) := by
  have hal : s.alive = true := hi.alive_iff.mpr (by simp [hp, WPc.inCall])
  have hr := hi.reg_inv i (Or.inr hp)
  have hg : (s.fut i).g = .out := by
    cases hg : (s.fut i).g with
    | out => rfl
    | _ =>
        have := hi.g_range hal i (by simp [hg])
        grind
  have hlt : i < s.hi := by grind
  unfold doRegCasOk
  rw [← advReg_wpc _ (.reg (i + 1))]
  apply inv_advReg _ (i + 1) rfl
  have e := cnt4 (f := s.fut) (x := { s.fut i with word := .ev, prev := .ev, g := .inn }) hlt .out .inn hg rfl
  simp at e
  obtain ⟨e1, e2, e3, e4⟩ := e
  simp only [Ninn, Ntaken, Ndecd, Nback] at *
  constructor <;> (try simp only [Ninn, Ntaken, Ndecd, Nback, e2, e3, e4])
  inv_solve_pc_at hi hp i



set_option maxHeartbeats 1000000 in
/-- a wait call starts: the event is constructed (both for a call of the client and for the wait inside `Get`) -/
theorem inv_begin (hi : Inv w s) (lo hi' : Nat) (timed inGet : Bool) (hp : s.wpc = .idle)
    (hlh : lo ≤ hi') (hfi : s.fi ≤ lo) (hcalls : s.calls ≠ [] → inGet = false)
    (hget : inGet = true → s.calls = [] ∧ lo = s.fi ∧ hi' = s.fi + 1 ∧ timed = false ∧ s.w.fin s.fi = .get ∧ s.fi < s.w.n)
    (hhi : (∀ c, c ∈ w.calls → c.hi ≤ w.n) → hi' ≤ s.w.n) :
    Inv w (doBegin s lo hi' timed inGet) := by
  have hal : s.alive = false := by
    cases ha : s.alive with
    | false => rfl
    | true => have := hi.alive_iff.mp ha; simp [hp, WPc.inCall] at this
  have hdead := hi.dead hal
  unfold doBegin
  rw [← advReg_wpc _ (.reg lo)]
  apply inv_advReg _ lo rfl
  have c1 : ∀ m, cntG (fun j => { s.fut j with g := .out }) .inn m = 0 := fun m => cntG_clear (by simp)
  have c2 : ∀ m, cntG (fun j => { s.fut j with g := .out }) .taken m = 0 := fun m => cntG_clear (by simp)
  have c3 : ∀ m, cntG (fun j => { s.fut j with g := .out }) .decd m = 0 := fun m => cntG_clear (by simp)
  have c4 : ∀ m, cntG (fun j => { s.fut j with g := .out }) .back m = 0 := fun m => cntG_clear (by simp)
  constructor <;> (try simp only [Ninn, Ntaken, Ndecd, Nback, c1, c2, c3, c4])
  inv_solve_pc hi hp


end Yaclib.Wait
