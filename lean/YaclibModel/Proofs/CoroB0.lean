/- preservation of InvB / InvC: steps that do not touch the awaited words' callbacks nor the status list -/
import YaclibModel.Proofs.Coro
namespace Yaclib.Coro

theorem upd_word_cexec (s : State) (j e i : Nat) :
    (upd s.cells j { s.cells j with cexec := e } i).word = (s.cells i).word := by
  simp only [upd]; split <;> simp_all

macro "invB_auto0" : tactic =>
  `(tactic| (constructor <;> (try simp only [doSubmit, doDrop, doCurrent, doLdtor, doRet, doPublish, doFdtor, doTdtor, State.word, upd_word_cexec]) <;>
      (try simp only [State.word] at *) <;>
      grind [inOp, decided, regPos, freshPc, afterRegPc, obsOk]))

set_option maxHeartbeats 8000000 in
theorem invB_step_0 {w s l s'} (ha : InvA w s) (hb : InvB w s) (hs : Step s l s')
    (hl : match l with | .envSwap _ _ | .exCall | .exDrop | .ldtor | .ret | .publish _ | .fdtor
                       | .rdLoad _ | .mload _ | .submit _ | .current _ | .tdtor _ => True | _ => False) : InvB w s' := by
  cases hb
  cases hs with
  | envSwap j e hu => invB_auto0
  | exCall e h => invB_auto0
  | exDrop e h => invB_auto0
  | ldtor h hl => invB_auto0
  | ret h ht => invB_auto0
  | publish r h hr hl => invB_auto0
  | fdtor h hl => invB_auto0
  | rdLoad op rest j x h ht hj hx => cases x <;> simp only [obsOk, State.word] at hx <;> invB_auto0
  | mload v h hv => invB_auto0
  | submit e h => invB_auto0
  | current op rest h ht => invB_auto0
  | tdtor j h hl hr => invB_auto0
  | _ => simp at hl

end Yaclib.Coro
