import YaclibModel.Proofs.When
namespace Yaclib.When

set_option maxHeartbeats 4000000 in
theorem invc_step_2 {w s l s'} (hi : InvC w s) (hs : Step w s l s') (hg : l.grp = 2) : InvC w s' := by
  have hidx := @InvC.idx w s hi
  have hlast := @InvC.last_holder w s hi
  have hpos := @InvC.count_pos w s hi
  cases hi
  cases hs with
  | load3 i x hc hp hs hx =>
      cases hv : ok (w.inp i) <;> cases x <;> simp only [doLoad3, hv] <;> invc_auto
  | xchg3 i hc hp hs hv =>
      by_cases hf : s.st3 = .value <;> simp only [doXchg3, hf] <;> invc_auto
  | cas3 i hc hp hs hv =>
      by_cases hf : s.st3 = .empty <;> simp only [doCas3, hf] <;> invc_auto
  | _ => simp [Label.grp] at hg

end Yaclib.When
