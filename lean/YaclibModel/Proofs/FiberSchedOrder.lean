import YaclibModel.Proofs.FiberSchedShift
namespace Yaclib.Sched
open Yaclib.Extracted.FiberSched
variable {F : Type}

/-- `WakeUpNeeded` appends the due buckets in key order, each bucket in its own (push) order -/
theorem wakeUp_order (t : Nat) (sl : List (Nat × List F)) :
    (wakeUp t sl).1 = ((sl.takeWhile (fun kb => decide (kb.1 ≤ t))).map (·.2)).flatten := by
  induction sl with
  | nil => rfl
  | cons kb rest ih =>
    obtain ⟨k, b⟩ := kb
    simp only [wakeUp, stop_eq, List.takeWhile_cons]
    by_cases h : k > t
    · have : ¬ k ≤ t := by omega
      simp [h, this]
    · have : k ≤ t := by omega
      simp [h, this, ih]

/-- the sleep map is kept in strictly ascending key order -/
def SortedKeys (sl : List (Nat × List F)) : Prop := sl.Pairwise (fun a b => a.1 < b.1)

theorem lookup_none_of_lt (ns : Nat) (sl : List (Nat × List F)) (h : ∀ kb ∈ sl, ns < kb.1) : sl.lookup ns = none := by
  induction sl with
  | nil => rfl
  | cons kb rest ih =>
    obtain ⟨k, b⟩ := kb
    have hk : ns < k := h (k, b) (by simp)
    have hne : (ns == k) = false := by simp; omega
    simp only [List.lookup_cons, hne]
    exact ih (fun kb hm => h kb (by simp [hm]))

theorem sleepInsert_keys (ns : Nat) (f : F) (sl : List (Nat × List F)) :
    ∀ kb ∈ sleepInsert ns f sl, kb.1 = ns ∨ ∃ kb' ∈ sl, kb'.1 = kb.1 := by
  induction sl with
  | nil => intro kb h; simp [sleepInsert] at h; left; simp [h]
  | cons kc rest ih =>
    obtain ⟨k, b⟩ := kc
    intro kb h
    simp only [sleepInsert] at h
    split at h
    · simp only [List.mem_cons] at h
      rcases h with h | h | h
      · left; simp [h]
      · right; exact ⟨(k, b), by simp, by simp [h]⟩
      · right; exact ⟨kb, by simp [h], rfl⟩
    · split at h
      · simp only [List.mem_cons] at h
        rcases h with h | h
        · right; exact ⟨(k, b), by simp, by simp [h]⟩
        · right; exact ⟨kb, by simp [h], rfl⟩
      · simp only [List.mem_cons] at h
        rcases h with h | h
        · right; exact ⟨(k, b), by simp, by simp [h]⟩
        · rcases ih kb h with h' | ⟨kb', hm, he⟩
          · left; exact h'
          · right; exact ⟨kb', by simp [hm], he⟩

/-- going to sleep until `ns` appends the fiber to the bucket of `ns` (creating it if need be) and keeps the map sorted -/
theorem sleepInsert_spec (ns : Nat) (f : F) (sl : List (Nat × List F)) (hs : SortedKeys sl) :
    (sleepInsert ns f sl).lookup ns = some ((sl.lookup ns).getD [] ++ [f]) ∧ SortedKeys (sleepInsert ns f sl) := by
  induction sl with
  | nil => simp [sleepInsert, SortedKeys]
  | cons kc rest ih =>
    obtain ⟨k, b⟩ := kc
    have hs' := List.pairwise_cons.mp hs
    simp only [sleepInsert]
    by_cases h1 : ns < k
    · simp only [h1, if_true]
      have hnone : ((k, b) :: rest).lookup ns = none := by
        apply lookup_none_of_lt
        intro kb hm
        simp only [List.mem_cons] at hm
        rcases hm with hm | hm
        · simp [hm]; exact h1
        · have := hs'.1 kb hm; simp at this; omega
      refine ⟨by simp [hnone], ?_⟩
      apply List.pairwise_cons.mpr
      refine ⟨?_, hs⟩
      intro kb hm
      simp only [List.mem_cons] at hm
      rcases hm with hm | hm
      · simp [hm]; exact h1
      · have := hs'.1 kb hm; simp at this ⊢; omega
    · simp only [h1, if_false]
      by_cases h2 : ns = k
      · subst h2
        simp only [if_true, List.lookup_cons, beq_self_eq_true, Option.getD_some, true_and]
        apply List.pairwise_cons.mpr
        exact ⟨fun kb hm => by have := hs'.1 kb hm; simpa using this, hs'.2⟩
      · simp only [h2, if_false]
        have hne : (ns == k) = false := by simp [h2]
        have ihh := ih hs'.2
        refine ⟨by simp only [List.lookup_cons, hne]; exact ihh.1, ?_⟩
        apply List.pairwise_cons.mpr
        refine ⟨?_, ihh.2⟩
        intro kb hm
        rcases sleepInsert_keys ns f rest kb hm with h | ⟨kb', hm', he⟩
        · simp [h]; omega
        · have := hs'.1 kb' hm'; simp at this ⊢; omega

/-- **ties are broken by insertion order**: two fibers that go to sleep until the same virtual time — in whatever state of
    the (sorted) sleep map, `g` after `f` — sit in the bucket of that time with `f` before `g`, after everybody who was
    there before; `wakeUp_order` then moves the bucket to the run queue in exactly this order.  No address, no id. -/
theorem equal_wake_up_time_is_insertion_order (ns : Nat) (f g : F) (sl : List (Nat × List F)) (hs : SortedKeys sl) :
    (sleepInsert ns g (sleepInsert ns f sl)).lookup ns = some ((sl.lookup ns).getD [] ++ [f, g]) := by
  have h1 := sleepInsert_spec ns f sl hs
  have h2 := sleepInsert_spec ns g (sleepInsert ns f sl) h1.2
  rw [h2.1, h1.1]
  simp

section
variable {E F Q : Type} [DecidableEq F] [DecidableEq Q]

theorem sorted_sleepRemove (f : F) (sl : List (Nat × List F)) (h : SortedKeys sl) : SortedKeys (sleepRemove f sl) := by
  unfold SortedKeys sleepRemove at *
  exact List.Pairwise.map _ (fun _ _ hab => hab) h

theorem wakeUp_sublist (t : Nat) (sl : List (Nat × List F)) : (wakeUp t sl).2.Sublist sl := by
  induction sl with
  | nil => simp [wakeUp]
  | cons kb rest ih =>
    obtain ⟨k, b⟩ := kb
    simp only [wakeUp]
    split
    · exact List.Sublist.refl _
    · exact List.Sublist.cons _ ih

theorem sorted_wakeUp (t : Nat) (sl : List (Nat × List F)) (h : SortedKeys sl) : SortedKeys (wakeUp t sl).2 :=
  List.Pairwise.sublist (wakeUp_sublist t sl) h

theorem sorted_cleanup (ns : Nat) (sl : List (Nat × List F)) (h : SortedKeys sl) : SortedKeys (cleanupBucket ns sl) := by
  unfold cleanupBucket
  split
  · exact h
  · split
    · exact List.Pairwise.sublist List.filter_sublist h
    · exact h

theorem sorted_resumeIn (s1 : St E F Q) (f : F) (h : SortedKeys s1.sleep) : SortedKeys (resumeIn s1 f).1.sleep := by
  unfold resumeIn
  cases s1.timed f with
  | none => exact h
  | some nq => exact sorted_cleanup _ _ h

theorem sorted_dispatchBody (en : Engine E) (cfg : Cfg) (again : St E F Q → St E F Q × List (Out F))
    (hagain : ∀ s, SortedKeys s.sleep → SortedKeys (again s).1.sleep) (s : St E F Q) (h : SortedKeys s.sleep) :
    SortedKeys (dispatchBody en cfg again s).1.sleep := by
  unfold dispatchBody
  split
  · exact h
  · simp only
    split
    · exact hagain _ (sorted_wakeUp _ _ h)
    · split
      · exact sorted_wakeUp _ _ h
      · exact sorted_resumeIn _ _ (sorted_wakeUp _ _ h)

theorem sorted_dispatch (en : Engine E) (cfg : Cfg) (s : St E F Q) (h : SortedKeys s.sleep) :
    SortedKeys (dispatch en cfg s).1.sleep := by
  unfold dispatch
  generalize s.sleep.length = fuel
  induction fuel generalizing s with
  | zero => exact sorted_dispatchBody en cfg _ (fun _ h => h) s h
  | succ n ih => exact sorted_dispatchBody en cfg _ (fun s' h' => ih s' h') s h

theorem sorted_scheduleAndRemove (s : St E F Q) (f : F) (h : SortedKeys s.sleep) : SortedKeys (scheduleAndRemove s f).sleep := by
  unfold scheduleAndRemove schedule
  split
  · exact h
  · exact sorted_sleepRemove f _ h

theorem sorted_foldl (l : List F) (s : St E F Q) (h : SortedKeys s.sleep) : SortedKeys (l.foldl scheduleAndRemove s).sleep := by
  induction l generalizing s with
  | nil => exact h
  | cons f rest ih => exact ih _ (sorted_scheduleAndRemove s f h)

theorem sorted_block (en : Engine E) (cfg : Cfg) (s : St E F Q) (prep : F → St E F Q) (h : SortedKeys s.sleep)
    (hp : ∀ f, SortedKeys (prep f).sleep) : SortedKeys (block en cfg s prep).1.sleep := by
  unfold block
  cases s.cur with
  | none => exact h
  | some f => exact sorted_dispatch en cfg _ (hp f)

theorem sorted_step (en : Engine E) (cfg : Cfg) (s : St E F Q) (r : Req F Q) (h : SortedKeys s.sleep) :
    SortedKeys (step en cfg s r).1.sleep := by
  cases r with
  | inject =>
    simp only [step]
    split
    · split
      · exact h
      · exact sorted_dispatch en cfg _ h
    · exact h
  | failWeak => exact h
  | yield =>
    simp only [step]
    split
    · exact h
    · exact sorted_dispatch en cfg _ h
  | spawn g =>
    simp only [step]
    split
    · exact sorted_dispatch en cfg _ h
    · exact h
  | sleepFor d =>
    simp only [step]
    split
    · exact h
    · exact sorted_block en cfg s _ h (fun f => (sleepInsert_spec _ f _ h).2)
  | park q => exact sorted_block en cfg s _ h (fun _ => h)
  | parkFor q d =>
    simp only [step]
    split
    · exact h
    · split
      · exact sorted_cleanup _ _ h
      · exact sorted_dispatch en cfg _ (sleepInsert_spec _ _ _ h).2
  | notifyOne q =>
    simp only [step]
    split
    · exact h
    · split
      · exact h
      · exact sorted_scheduleAndRemove _ _ h
  | notifyAll q => exact sorted_foldl _ _ h
  | suspend => exact sorted_block en cfg s _ h (fun _ => h)
  | wake g => exact h
  | exit => exact sorted_block en cfg s _ h (fun _ => h)

/-- the sleep map of every reachable state is sorted by wake-up time (strictly: one bucket per time), so
    `wake_up_ties_in_insertion_order` applies to every reachable state -/
theorem sorted_reachable (en : Engine E) (cfg : Cfg) (seed c0 : Nat) {s : St E F Q} (h : Reachable en cfg seed c0 s) :
    SortedKeys s.sleep := by
  induction h with
  | init => exact List.Pairwise.nil
  | step r _ ih => exact sorted_step en cfg _ r ih

end

end Yaclib.Sched
