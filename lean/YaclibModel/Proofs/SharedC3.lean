import YaclibModel.Proofs.SharedC
namespace Yaclib.Shared

set_option maxHeartbeats 4000000 in
theorem invC_step_3 {w s l s'} (ha : InvA w s) (hi : InvC s) (hs : Step s l s') (hg : grpOf l = 3) : InvC s' := by
  cases ha
  cases hi
  cases hs with
  | oCasFail t c e x h hw hx =>
      cases x with
      | list l => invC_auto
      | result =>
          by_cases hke : c.kind = .event
          · simp only [reload, failPath, hke, ↓reduceIte]; invC_auto
          · simp only [reload, failPath, hke, ↓reduceIte]; invC_auto
  | oCasSpur t c e x h hw hx =>
      cases x with
      | list l => invC_auto
      | result =>
          by_cases hke : c.kind = .event
          · simp only [reload, failPath, hke, ↓reduceIte]; invC_auto
          · simp only [reload, failPath, hke, ↓reduceIte]; invC_auto
  | oInvoke t c h hk => invC_auto
  | oIncRef t c h hk => invC_auto
  | oSubmit t c h => invC_auto
  | _ => simp [grpOf] at hg

end Yaclib.Shared
