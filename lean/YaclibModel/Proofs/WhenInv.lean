/- All invariants of the combinator model together, and what follows for crashes. -/
import YaclibModel.Proofs.WhenFinal

namespace Yaclib.When

/-- `Any<LastFail>` computes `2 * count` in a size_t -/
def Workload.wf (w : Workload) : Prop := w.strat = .anyLF → 2 * w.n < two64

structure Inv (w : Workload) (s : State) : Prop where
  c : InvC w s
  r : InvR w s
  o : InvO w s
  f : w.strat.usesFlag = true → InvF w s
  g : w.strat = .anyFF → InvG w s
  l : w.strat = .anyLF → w.n ≠ 0 → InvL w s

theorem no_step_of_empty {w s l s'} (hC : InvC w s) (hn : w.n = 0) (hs : Step w s l s') : False := by
  have hidx := @InvC.idx w s hC
  cases hs with
  | regSet i okb hc hb hr hn' => omega
  | fire i hc hp => have := @hidx i (by rw [hp]; simp); omega
  | retire i hc hp => have := @hidx i (by rw [hp]; simp); omega
  | loadFlag i b hc hp hs hb => have := @hidx i (by rw [hp]; simp); omega
  | xchgFlag i hc hp hs => have := @hidx i (by rw [hp]; simp); omega
  | setOut i o hc hp => have := @hidx i (by rw [hp]; simp); omega
  | load3 i x hc hp hs hx => have := @hidx i (by rw [hp]; simp); omega
  | xchg3 i hc hp hs hv => have := @hidx i (by rw [hp]; simp); omega
  | cas3 i hc hp hs hv => have := @hidx i (by rw [hp]; simp); omega
  | loadLf i d hc hp hs hd => have := @hidx i (by rw [hp]; simp); omega
  | xchgLf i hc hp hs hv => have := @hidx i (by rw [hp]; simp); omega
  | fsubLf i hc hp hs hv => have := @hidx i (by rw [hp]; simp); omega
  | dec i store hc hp => have := @hidx i (by rw [hp]; simp); omega
  | dtorRel i j hc hp => have := @hidx i (by rw [hp]; simp); omega
  | dtorSet i o hc hp ho => have := @hidx i (by rw [hp]; simp); omega
  | dtorThrow i hc hp ho => have := @hidx i (by rw [hp]; simp); omega
  | crash i hc hp =>
      rcases hp with hp | hp
      · have := @hidx i (by rw [hp]; simp); omega
      · have := @hidx i (by rw [hp]; simp); omega

theorem invl_reachable' {w s} (hst : w.strat = .anyLF) (hwf : w.wf) (hn0 : w.n ≠ 0) (h : Reachable w s) : InvL w s :=
  invl_reachable hst (hwf hst) hn0 h

theorem inv_reachable {w s} (hwf : w.wf) (h : Reachable w s) : Inv w s := by
  induction h with
  | init =>
      exact ⟨inv_init w, invr_init w, invo_init w, fun _ => invf_init w, fun _ => invg_init w,
        fun hl hn0 => invl_init w (hwf hl) hn0⟩
  | step hr hs ih =>
      have hW := winFree_of ih.c ih.r ih.f ih.g (fun hl => ih.l hl (fun h0 => no_step_of_empty ih.c h0 hs))
      exact ⟨invc_step ih.c hs, invr_step ih.c ih.r hs, invo_step ih.c hW ih.o hs,
        fun hu => invf_step hu ih.c (ih.f hu) hs, fun hg => invg_step hg ih.c (ih.g hg) hs,
        fun hl hn0 => invl_step hl ih.c ih.r (ih.l hl hn0) hs⟩

/-- crashes: no consumption ever reaches a throwing state, no destructor ever throws -/
structure InvB (w : Workload) (s : State) : Prop where
  no_dboom : ∀ i, s.pc i ≠ .dboom
  no_boom : ∀ i, s.pc i ≠ .boom
  not_crashed : s.crashed = false

theorem invb_init (w : Workload) : InvB w (init w) := by
  constructor <;> simp [init]

macro "invb_auto" : tactic =>
  `(tactic| (constructor <;> (try simp only [doRegSet, doFire, doRetire, doLoadFlag, doXchgFlag, doLoad3, doXchg3, doCas3, doLoadLf,
      doXchgLf, doFsubLf, doSetOut, doDec, doDtorRel, doDtorSet, setPc, finish] at *) <;>
      grind [= upd_apply]))

set_option maxHeartbeats 4000000 in
theorem invb_step {w s l s'} (hI : Inv w s) (hi : InvB w s) (hs : Step w s l s') : InvB w s' := by
  have hC := hI.c
  cases hi
  cases hs with
  | regSet i okb hc hb hr hn =>
      have h1 := consumeStart_cases w.strat (w.inp i)
      have h2 := afterRetire_cases w.strat (w.inp i)
      cases okb <;> invb_auto
  | fire i hc hp =>
      have h1 := consumeStart_cases w.strat (w.inp i)
      have h2 := afterRetire_cases w.strat (w.inp i)
      invb_auto
  | retire i hc hp =>
      have h2 := afterRetire_cases w.strat (w.inp i)
      invb_auto
  | loadFlag i b hc hp hs hb =>
      have h3 := lose_cases w.strat
      cases b <;> invb_auto
  | xchgFlag i hc hp hs =>
      have h3 := lose_cases w.strat
      cases hf : s.flag <;> simp only [doXchgFlag, hf] <;> invb_auto
  | setOut i o hc hp => invb_auto
  | load3 i x hc hp hs hx =>
      cases hv : ok (w.inp i) <;> cases x <;> simp only [doLoad3, hv] <;> invb_auto
  | xchg3 i hc hp hs hv =>
      by_cases hf : s.st3 = .value <;> simp only [doXchg3, hf] <;> invb_auto
  | cas3 i hc hp hs hv =>
      by_cases hf : s.st3 = .empty <;> simp only [doCas3, hf] <;> invb_auto
  | loadLf i d hc hp hs hd => cases d <;> invb_auto
  | xchgLf i hc hp hs hv =>
      by_cases hf : s.lf % 2 = 0 <;> simp only [doXchgLf, hf] <;> invb_auto
  | fsubLf i hc hp hs hv =>
      by_cases hf : s.lf = 2 <;> simp only [doFsubLf, hf] <;> invb_auto
  | dec i store hc hp =>
      have h1 := dtorStart_cases w.strat s.pValid
      by_cases hc1 : s.count = 1
      · rcases h1 with h1 | h1 | h1 <;> simp only [doDec, hc1, h1.1, if_true] <;> invb_auto
      · simp only [doDec, hc1, if_false] <;> invb_auto
  | dtorRel i j hc hp =>
      have hd : inDtor (s.pc i) = true := by rw [hp]; rfl
      have hjn := (hC.dtorRel i j hp).1
      cases hst : w.strat with
      | allVec b =>
          cases b
          · by_cases hj : j + 1 < w.n <;> simp only [doDtorRel, hst, hj, if_true, if_false] <;> invb_auto
          · have hF := hI.f (by rw [hst]; rfl)
            by_cases hv : s.pValid = true
            · have hok := all_ok_in_dtor hC hI.r hI.o hF hd hv j hjn
              by_cases hj : j + 1 < w.n <;> simp only [doDtorRel, hst, hj, hv, hok, if_true, if_false] <;> invb_auto
            · by_cases hj : j + 1 < w.n <;> simp only [doDtorRel, hst, hj, hv, if_true, if_false] <;> invb_auto
      | _ => have := (hC.dtorRel i j hp).2.2; simp [hst, Strat.isAllVec] at this
  | dtorSet i o hc hp ho => invb_auto
  | dtorThrow i hc hp ho =>
      exfalso
      cases hst : w.strat with
      | anyFF =>
          obtain ⟨_, e, _, hsv⟩ := saved_in_dtor hC hI.r hI.o (hI.g hst) hp
          simp [dtorOut, hst, hsv] at ho
      | _ => simp [dtorOut, hst] at ho
  | crash i hc hp => invb_auto

theorem invb_reachable {w s} (hwf : w.wf) (h : Reachable w s) : InvB w s := by
  induction h with
  | init => exact invb_init w
  | step hr hs ih => exact invb_step (inv_reachable hwf hr) ih hs

end Yaclib.When
