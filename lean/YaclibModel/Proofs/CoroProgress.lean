/- Progress for the C13 model: in a state in which only the environment could still act (fulfil an awaited object, register a
   foreign callback, swap an executor) the coroutine has finished and its frame is gone, or it is suspended on an awaited
   object that has not been fulfilled. -/
import YaclibModel.Proofs.CoroAll
namespace Yaclib.Coro

/-- the environment's free choices: fulfilment of an awaited object, registrations and executor swaps by other parties -/
def isEnv : Label → Bool
  | .pXchg _ | .envPush _ | .envSwap _ _ => true
  | _ => false

theorem obsOk_self (wd : Word) : obsOk wd wd.obs := by
  cases wd with
  | result l => simp [obsOk, Word.obs, Word.isResult]
  | «open» l f =>
      cases l <;> cases f <;> simp [obsOk, Word.obs]

/-- suspended on an awaited object that is registered on and not fulfilled yet -/
def Waiting (s : State) : Prop :=
  s.pc = .susp ∧ ∃ (op : Op) (rest : List Op) (p j : Nat), s.todo = op :: rest ∧ op.cells[p]? = some j ∧
    s.st[p]? = some .pending ∧ (s.word j).isResult = false

theorem exists_pending_of_count {l : List CbSt} (h : 0 < l.count .pending) : ∃ (p : Nat), l[p]? = some CbSt.pending :=
  List.mem_iff_getElem?.mp (List.count_pos_iff.mp h)

theorem quiescent_cases {w : Workload} {s : State} (hwf : w.WF) (hf : Full w s)
    (hq : ∀ l s', Step s l s' → isEnv l = true) : s.pc = .gone ∨ Waiting s := by
  have ha := hf.i.a
  have hb := hf.i.b
  have hc := hf.i.c
  have hd := hf.d
  have no : ∀ {l s'}, Step s l s' → isEnv l = false → False := by
    intro l s' hs hl; have := hq l s' hs; rw [hl] at this; cases this
  cases hpc : s.pc with
  | gone => left; rfl
  | idle =>
      exfalso
      cases ht : s.todo with
      | nil => exact no (Step.ret s hpc ht) rfl
      | cons op rest => exact no (Step.start s op rest hpc ht) rfl
  | rdy =>
      exfalso
      obtain ⟨op, rest, ht⟩ := todo_cons_of_inop ha (by rw [hpc]; rfl)
      have hpk := ha.pc_kind op rest ht
      rw [hpc] at hpk
      have hes := emptyBased_single (by simpa [pcKindOk] using hpk)
      have hlen := wf_single (op_wf hwf ha ht) hes.1 hes.2
      have hj : ∃ j, op.cells[0]? = some j := by
        match hcs : op.cells, hlen with
        | [a], _ => exact ⟨a, rfl⟩
      obtain ⟨j, hj⟩ := hj
      exact no (Step.rdLoad s op rest j _ hpc ht hj (obsOk_self _)) rfl
  | rdyL x => exact absurd (no (Step.ready s x hpc) rfl) id
  | reg p =>
      exfalso
      obtain ⟨op, rest, ht⟩ := todo_cons_of_inop ha (by rw [hpc]; rfl)
      obtain ⟨_, hpl, _⟩ := st_at_reg ha hb ht (by rw [hpc]; rfl : regPos s.pc = some p)
      have hj : op.cells[p]? = some op.cells[p] := List.getElem?_eq_getElem hpl
      exact no (Step.regLoad s op rest p _ _ hpc ht hj (obsOk_self _)) rfl
  | cas p =>
      exfalso
      obtain ⟨op, rest, ht⟩ := todo_cons_of_inop ha (by rw [hpc]; rfl)
      obtain ⟨_, hpl, _⟩ := st_at_reg ha hb ht (by rw [hpc]; rfl : regPos s.pc = some p)
      have hj : op.cells[p]? = some op.cells[p] := List.getElem?_eq_getElem hpl
      cases hsh : (s.w.cell op.cells[p]).shared with
      | true =>
          cases hwd : s.word op.cells[p] with
          | «open» l f => exact no (Step.casOk s op rest p _ l f hpc ht hj hwd (Or.inl hsh)) rfl
          | result walk =>
              exact no (Step.casFail s op rest p _ hpc ht hj (Or.inl ⟨hsh, by rw [hwd]; rfl⟩)) rfl
      | false =>
          by_cases he : s.word op.cells[p] = .open [] false
          · exact no (Step.casOk s op rest p _ [] false hpc ht hj he (Or.inr ⟨rfl, rfl⟩)) rfl
          · exact no (Step.casFail s op rest p _ hpc ht hj (Or.inr ⟨hsh, he⟩)) rfl
  | msub =>
      exfalso
      obtain ⟨op, rest, ht⟩ := todo_cons_of_inop ha (by rw [hpc]; rfl)
      exact no (Step.msub s op rest hpc ht) rfl
  | mld => exact absurd (no (Step.mload s s.cnt hpc (Nat.le_refl _)) rfl) id
  | mrd v => exact absurd (no (Step.mready s v hpc) rfl) id
  | msusp =>
      exfalso
      obtain ⟨op, rest, ht⟩ := todo_cons_of_inop ha (by rw [hpc]; rfl)
      exact no (Step.msuspend s op rest hpc ht) rfl
  | tstore =>
      exfalso
      obtain ⟨op, rest, ht⟩ := todo_cons_of_inop ha (by rw [hpc]; rfl)
      have hpk := ha.pc_kind op rest ht
      rw [hpc] at hpk
      have hk : op.kind = .task := by simpa [pcKindOk] using hpk
      have hlen := wf_single (op_wf hwf ha ht) (by rw [hk]; rfl) (by rw [hk]; rfl)
      have hj : ∃ j, op.cells[0]? = some j := by
        match hcs : op.cells, hlen with
        | [a], _ => exact ⟨a, rfl⟩
      obtain ⟨j, hj⟩ := hj
      exact no (Step.tstore s op rest j hpc ht hj) rfl
  | curr =>
      exfalso
      obtain ⟨op, rest, ht⟩ := todo_cons_of_inop ha (by rw [hpc]; rfl)
      exact no (Step.current s op rest hpc ht) rfl
  | subm e => exact absurd (no (Step.submit s e hpc) rfl) id
  | queued e => exact absurd (no (Step.exCall s e hpc) rfl) id
  | wake c =>
      exfalso
      obtain ⟨op, rest, ht⟩ := todo_cons_of_inop ha (by rw [hpc]; rfl)
      exact no (Step.resume s op rest c hpc ht) rfl
  | fin =>
      exfalso
      have hr := (hd.fin_res hpc).1
      by_cases hdr : s.dropped = true
      · exact no (Step.publish s _ hpc hr (Or.inl hdr)) rfl
      · by_cases hl : s.live = 0
        · exact no (Step.publish s _ hpc hr (Or.inr hl)) rfl
        · exact no (Step.ldtor s (Or.inl ⟨hpc, by simpa using hdr⟩) (by omega)) rfl
  | done =>
      exfalso
      by_cases hl : s.live = 0
      · exact no (Step.fdtor s hpc hl) rfl
      · exact no (Step.ldtor s (Or.inr hpc) (by omega)) rfl
  | susp =>
      right
      refine ⟨hpc, ?_⟩
      obtain ⟨op, rest, ht⟩ := todo_cons_of_inop ha (by rw [hpc]; rfl)
      have hin : inOp s.pc = true := by rw [hpc]; rfl
      -- something is pending …
      have hp : ∃ (p : Nat), s.st[p]? = some CbSt.pending := by
        cases hm : isMulti op.kind with
        | false => exact ⟨0, hb.susp_single hpc op rest ht hm⟩
        | true =>
            have := hc.multi_susp op rest ht hm hpc
            exact exists_pending_of_count (by omega)
      obtain ⟨p, hp⟩ := hp
      have hpl : p < op.cells.length := by
        have := lt_of_getElem?_some hp
        have := ha.st_len op rest ht hin
        omega
      have hj : op.cells[p]? = some op.cells[p] := List.getElem?_eq_getElem hpl
      -- … its callback sits in the word of its object, which therefore has not been fulfilled (or the fulfiller could run it)
      have hcb := hb.pend_cbs op rest p _ ht hin hj hp
      refine ⟨op, rest, p, _, ht, hj, hp, ?_⟩
      cases hwd : s.word op.cells[p] with
      | «open» l f => rfl
      | result walk =>
          exfalso
          rw [hwd] at hcb
          exact no (Step.fire s op rest _ p walk ht hwd hcb) rfl

end Yaclib.Coro
