/- C14 over the library's executors: instances of Proofs/CoMutexExec.lean for Inline, ManualExecutor, the FairThreadPool
   model and towers of Strands (the executor models and their contract proofs are C05/C07/C08's:
   Proofs/StrandTowerInline.lean, StrandTowerManual.lean, PoolExecContract.lean, StrandTowerN.lean). -/
import YaclibModel.Proofs.CoMutexExec
import YaclibModel.Proofs.StrandTowerInline
import YaclibModel.Proofs.StrandTowerManual
import YaclibModel.Proofs.PoolExecContract
import YaclibModel.Proofs.PoolExecNoDrop

namespace Yaclib.CoMutex
open Yaclib.Strand (Exec XEv Prot Phase specPre specPost protInit ExecContract)

theorem inline_neverDrops : NeverDrops (Yaclib.Strand.inlineExec true) := by
  intro x l x' a hs he
  have : l = .drop a := Option.some.inj he
  subst this
  exact Yaclib.Strand.inline_alive_never_drops hs

theorem manual_neverDrops (d : Bool) : NeverDrops (Yaclib.Strand.manualExec d) := by
  intro x l x' a hs he
  cases l with
  | ev e =>
      have : e = .drop a := Option.some.inj he
      subst this
      exact Yaclib.Strand.manual_never_drops hs
  | drainEnter => simp [Yaclib.Strand.manualExec, Yaclib.Strand.manualEv] at he
  | drainExit => simp [Yaclib.Strand.manualExec, Yaclib.Strand.manualEv] at he
  | destroy => simp [Yaclib.Strand.manualExec, Yaclib.Strand.manualEv] at he

/-- what "no lost wake-up" means over an executor: a composed state in which neither a coroutine nor the executor can
    move has the mutex free, nobody parked, nothing outstanding, every coroutine finished -/
def QuiescentDone (_cfg : Cfg) {E : Exec} (s : XState E) : Prop :=
  s.m.word = .notLocked ∧ s.m.receiver = [] ∧ s.m.own = .free ∧ ∀ c, s.m.pc c = .idle ∧ s.m.todo c = []

theorem xmutex_quiescent_done {cfg : Cfg} {E : Exec} (hc : ExecContract E) (hnd : NeverDrops E) {s : XState E}
    (h : XReach cfg E s) (hq : ∀ s', ¬ XStep E s s') : QuiescentDone cfg s := by
  have hi := inv_reachable (xmutex_projects h).1
  obtain ⟨hf, hw, hr, hall⟩ := quiescent hi (xmutex_quiescent hc hnd h hq)
  exact ⟨hw, hr, hf, hall⟩

/-- Inline (alive): resumption in the releaser's thread -/
theorem comutex_over_inline {cfg : Cfg} {s : XState (Yaclib.Strand.inlineExec true)}
    (h : XReach cfg (Yaclib.Strand.inlineExec true) s) (hq : ∀ s', ¬ XStep _ s s') : QuiescentDone cfg s :=
  xmutex_quiescent_done (Yaclib.Strand.inline_contract true) inline_neverDrops h hq

/-- ManualExecutor whose owner keeps draining (and does not destroy it) -/
theorem comutex_over_manual {cfg : Cfg} {s : XState (Yaclib.Strand.manualExec false)}
    (h : XReach cfg (Yaclib.Strand.manualExec false) s) (hq : ∀ s', ¬ XStep _ s s') : QuiescentDone cfg s :=
  xmutex_quiescent_done Yaclib.Strand.manual_contract (manual_neverDrops false) h hq

/-- FairThreadPool with n ≥ 1 workers: the contract is `pool_contract`; "keeps accepting work" = it never Drops (nobody
    stops it) is the remaining hypothesis -/
theorem comutex_over_pool {cfg : Cfg} {n : Nat} (hn : 0 < n) (stop : Option Yaclib.Pool.StopKind) (spur : Bool)
    (hnd : NeverDrops (Yaclib.Pool.poolExec n stop spur)) {s : XState (Yaclib.Pool.poolExec n stop spur)}
    (h : XReach cfg (Yaclib.Pool.poolExec n stop spur) s) (hq : ∀ s', ¬ XStep _ s s') : QuiescentDone cfg s :=
  xmutex_quiescent_done (Yaclib.Pool.pool_contract hn stop spur) hnd h hq

/-- `NeverDrops` quantifies over all states, reachable or not, and the pool model's step relation does not depend on its
    `stop` parameter (only `init` does): from the unreachable state in which the stopper sits in HardStop's Drop loop a drop
    step exists.  So `NeverDrops (poolExec n none spur)` is false as stated … -/
theorem pool_none_neverDrops_false (n : Nat) (spur : Bool) : ¬ NeverDrops (Yaclib.Pool.poolExec n none spur) := by
  intro h
  let m0 : Yaclib.Pool.State := { Yaclib.Pool.init (Yaclib.Pool.wN n none 0) with xpc := .dropping [⟨0, 0⟩] }
  have hs : Yaclib.Pool.Step (Yaclib.Pool.pad m0 0) (.drop .stopper ⟨0, 0⟩) _ := Yaclib.Pool.Step.xDrop _ ⟨0, 0⟩ [] rfl
  exact h ⟨m0, []⟩ (.m (.drop .stopper ⟨0, 0⟩)) _ 0 (Yaclib.Pool.PStep.m 0 hs trivial (fun _ => rfl)) rfl

/-- … while in every *reachable* state of the unstopped pool no Drop is possible (`Pool.unstopped_no_drop`), so the same
    system with the unreachable drop steps removed from its step relation (`Pool.poolExecAlive`: same reachable states and
    steps, `Pool.alive_reach_iff` / `Pool.alive_step_iff`) never Drops in the literal sense and honours the contract -/
theorem pool_alive_neverDrops (n : Nat) (spur : Bool) : NeverDrops (Yaclib.Pool.poolExecAlive n spur) :=
  Yaclib.Pool.alive_never_drops n spur

/-- FairThreadPool with n ≥ 1 workers that nobody stops: no hypothesis left -/
theorem comutex_over_pool_unstopped {cfg : Cfg} {n : Nat} (hn : 0 < n) (spur : Bool)
    {s : XState (Yaclib.Pool.poolExecAlive n spur)} (h : XReach cfg (Yaclib.Pool.poolExecAlive n spur) s)
    (hq : ∀ s', ¬ XStep _ s s') : QuiescentDone cfg s :=
  xmutex_quiescent_done (Yaclib.Pool.alive_contract hn spur) (pool_alive_neverDrops n spur) h hq

/-- a tower of k Strands over any contract-honouring base -/
theorem comutex_over_strand_tower {cfg : Cfg} {base : Exec} (hb : ExecContract base) (k : Nat)
    (hnd : NeverDrops (Yaclib.Strand.tower base k)) {s : XState (Yaclib.Strand.tower base k)}
    (h : XReach cfg (Yaclib.Strand.tower base k) s) (hq : ∀ s', ¬ XStep _ s s') : QuiescentDone cfg s :=
  xmutex_quiescent_done (Yaclib.Strand.tower_satisfies_contract hb k) hnd h hq

end Yaclib.CoMutex
