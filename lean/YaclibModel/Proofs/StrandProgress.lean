/- Progress for the C07 model: no strand thread ever waits; a state without enabled steps is a finished one. -/
import YaclibModel.Proofs.StrandInv

namespace Yaclib.Strand

/-- submitter i has returned from its last Submit -/
def subFinished (w : Workload) (s : State) (i : Nat) : Prop := s.spc i = .idle ∧ s.sidx i = jobsOf w i

/-- the activation does not exist or has returned -/
def actTerminal (x : APc) : Prop := x = .none ∨ x = .done

/-- a submitter that has not finished always has an enabled step of its own (no waiting rule exists) -/
theorem sub_enabled {w s} (hi : InvTok w s) (i : Nat) (h : ¬ subFinished w s i) :
    ∃ l s', Step s l s' ∧ l.actor = .sub i := by
  cases hp : s.spc i with
  | idle =>
      have hlt : s.sidx i < jobsOf s.w i := by
        have := hi.sidx_le i
        rw [hi.hw]
        have hne : s.sidx i ≠ jobsOf w i := fun he => h ⟨hp, he⟩
        omega
      exact ⟨_, _, .sLoad s i s.word.head hp hlt (Or.inl rfl), rfl⟩
  | cas exp => exact ⟨_, _, .sCasSpur s i exp hp, rfl⟩
  | sched => exact ⟨_, _, .sSched s i hp, rfl⟩

/-- an activation that exists and has not returned always has an enabled step of its own: a queued one can be
    started by the underlying executor, a started one never waits for anybody -/
theorem act_enabled {w s} (hi : InvTok w s) (a : Nat) (h : ¬ actTerminal (s.acts a)) :
    ∃ l s', Step s l s' ∧ l.actor = .act a := by
  cases hp : s.acts a with
  | none => exact absurd (Or.inl hp) h
  | done => exact absurd (Or.inr hp) h
  | crashed => exact absurd hp (hi.no_crash a)
  | queued => exact ⟨_, _, .aCall s a hp, rfl⟩
  | run rem =>
      cases rem with
      | nil => exact ⟨_, _, .aLoad s a true hp (by simp), rfl⟩
      | cons j rem => exact ⟨_, _, .aBegin s a j rem hp, rfl⟩
  | busy j rem => exact ⟨_, _, .aEnd s a j rem hp, rfl⟩
  | cas =>
      by_cases hw : s.word = .list []
      · exact ⟨_, _, .aCasOk s a hp hw, rfl⟩
      · exact ⟨_, _, .aCasFail s a hp hw, rfl⟩
  | resub => exact ⟨_, _, .aResub s a hp, rfl⟩
  | drain rem =>
      cases rem with
      | nil => exact absurd hp (hi.drain_ne a)
      | cons j rem => exact ⟨_, _, .aDrop s a j rem hp, rfl⟩

theorem quiescent_threads {w s} (hi : InvTok w s) (hq : ∀ l s', ¬ Step s l s') :
    (∀ i, subFinished w s i) ∧ (∀ a, actTerminal (s.acts a)) := by
  constructor
  · intro i
    apply Classical.byContradiction
    intro h
    obtain ⟨l, s', hs, _⟩ := sub_enabled hi i h
    exact hq l s' hs
  · intro a
    apply Classical.byContradiction
    intro h
    obtain ⟨l, s', hs, _⟩ := act_enabled hi a h
    exact hq l s' hs

/-- conversely, once every thread has finished nothing can move -/
theorem finished_quiescent {w s} (hi : InvTok w s) (hs : ∀ i, subFinished w s i) (ha : ∀ a, actTerminal (s.acts a)) :
    ∀ l s', ¬ Step s l s' := by
  intro l s' hst
  have hsub : ∀ i, s.spc i = .idle := fun i => (hs i).1
  have hact : ∀ a x, s.acts a = x → x = .none ∨ x = .done := fun a x hx => by rw [← hx]; exact ha a
  cases hst with
  | sLoad i v h hj hv => have := (hs i).2; rw [hi.hw] at hj; omega
  | sCasOk i exp h he => rw [hsub i] at h; cases h
  | sCasFail i exp v h hne hv => rw [hsub i] at h; cases h
  | sCasSpur i exp h => rw [hsub i] at h; cases h
  | sSched i h => rw [hsub i] at h; cases h
  | aCall a h => rcases hact a _ h with h | h <;> cases h
  | aBegin a j rem h => rcases hact a _ h with h | h <;> cases h
  | aEnd a j rem h => rcases hact a _ h with h | h <;> cases h
  | aLoad a b h hv => rcases hact a _ h with h | h <;> cases h
  | aCasOk a h hw => rcases hact a _ h with h | h <;> cases h
  | aCasFail a h hw => rcases hact a _ h with h | h <;> cases h
  | aResub a h => rcases hact a _ h with h | h <;> cases h
  | aDropX a h => rcases hact a _ h with h | h <;> cases h
  | aDrop a j rem h => rcases hact a _ h with h | h <;> cases h

/-- in a quiescent state nobody holds the token: the word is the idle marker -/
theorem quiescent_idle {w s} (hi : InvTok w s) (hq : ∀ l s', ¬ Step s l s') : s.holder = none ∧ s.word = .mark := by
  obtain ⟨hs, ha⟩ := quiescent_threads hi hq
  have hh : s.holder = none := by
    cases hho : s.holder with
    | none => rfl
    | some x =>
        cases x with
        | sub i =>
            have := (hi.tok_sub i).mpr hho
            rw [(hs i).1] at this; cases this
        | act a =>
            have := (hi.tok_act a).mpr hho
            rcases ha a with h | h <;> rw [h] at this <;> cases this
  exact ⟨hh, hi.tok_none.mp hh⟩

end Yaclib.Strand
