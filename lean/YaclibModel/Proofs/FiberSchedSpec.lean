/-
Closed forms of the extracted decision functions (`Extracted/FiberSched.lean`).  Everything here is re-proved against
the regenerated definitions on every run: an edit of the C++ bodies that changes what they compute breaks these lemmas.
-/
import YaclibModel.Model.FiberSched

namespace Yaclib.Sched
open Yaclib.SchedImp
open Yaclib.Extracted.FiberSched

variable {E : Type}

theorem Engine.after_succ' (en : Engine E) (n : Nat) (e : E) : en.after (n + 1) e = (en.draw (en.after n e)).1 := by
  induction n generalizing e with
  | zero => rfl
  | succ n ih => simp only [Engine.after] at *; exact ih _

theorem Engine.after_add (en : Engine E) (m n : Nat) (e : E) : en.after (m + n) e = en.after n (en.after m e) := by
  induction m generalizing e with
  | zero => simp [Engine.after]
  | succ m ih => rw [Nat.succ_add]; simp only [Engine.after]; exact ih _

/-- `GetRandNumber(max)`: the counter goes up by one, the engine makes exactly one draw, whatever `max` is -/
theorem GetRandNumber_eq (draw : E → E × Nat) (rc : Nat) (e : E) (max : Nat) :
    GetRandNumber draw rc e max = (rc + 1, (draw e).1, (draw e).2 % max) := rfl

private theorem fwd_loop (en : Engine E) (n : Nat) : ∀ (k i rc : Nat) (e : E), i + k = n →
      whileLoop k (fun (x : Nat × E × Nat) => decide (x.2.2 ≠ n))
        (fun (x : Nat × E × Nat) => (true, (x.1 + 1, (en.draw x.2.1).1, x.2.2 + 1)))
        (rc, e, i) = (rc + k, en.after k e, n) := by
  intro k
  induction k with
  | zero => intro i rc e hi; simp [whileLoop_zero, Engine.after]; omega
  | succ k ih =>
    intro i rc e hi
    rw [whileLoop_succ]
    have hne : i ≠ n := by omega
    simp only [hne, ne_eq, not_false_eq_true, decide_true, if_true]
    rw [ih (i + 1) (rc + 1) (en.draw e).1 (by omega)]
    simp only [Engine.after]
    congr 1; omega

/-- `ForwardToRandCount(n)`: `n` draws, counter `+ n` -/
theorem ForwardToRandCount_eq (en : Engine E) (rc : Nat) (e : E) (n : Nat) :
    ForwardToRandCount en.draw rc e n = (rc + n, en.after n e) := by
  have h := fwd_loop en n n 0 rc e (by omega)
  unfold ForwardToRandCount
  simp only [Nat.sub_zero, GetRandNumber_eq]
  rw [h]

theorem Reset_eq (draw : E → E × Nat) (rc : Nat) (e : E) (c f : Nat) :
    Injector.Reset draw rc e c f = (rc + 1, (draw e).1, u32 ((draw e).2 % f)) := rfl

/-- `Injector::NeedInject` -/
theorem NeedInject_eq (draw : E → E × Nat) (rc : Nat) (e : E) (c : Nat) (p : Bool) (f : Nat) :
    Injector.NeedInject draw rc e c p f =
      if p = true then (rc, e, c, false)
      else if c ≥ f then (rc + 1, (draw e).1, u32 ((draw e).2 % f), true)
      else (rc, e, c + 1, false) := by
  unfold Injector.NeedInject
  simp only [Reset_eq]

/-- the injector counter stays a 32-bit value (the `u32` is the identity) as long as the frequency is one -/
theorem NeedInject_count_lt (draw : E → E × Nat) (rc : Nat) (e : E) (c : Nat) (p : Bool) (f : Nat)
    (hf : f < 4294967296) (hc : c < 4294967296) :
    (Injector.NeedInject draw rc e c p f).2.2.1 < 4294967296 := by
  rw [NeedInject_eq]
  split
  · exact hc
  · split
    · exact Nat.mod_lt _ (by decide)
    · simp only; omega

/-- … and with a positive frequency the reset value is the draw modulo the frequency, exactly as in C++ -/
theorem NeedInject_reset_exact (draw : E → E × Nat) (rc : Nat) (e : E) (c f : Nat) (hf : 0 < f) (hf' : f < 4294967296)
    (h : c ≥ f) : Injector.NeedInject draw rc e c false f = (rc + 1, (draw e).1, (draw e).2 % f, true) := by
  rw [NeedInject_eq]
  have : (draw e).2 % f < 4294967296 := Nat.lt_trans (Nat.mod_lt _ hf) hf'
  simp [h, u32_of_lt this]

/-- `ShouldFailAtomicWeak`: no draw at all when the frequency is 0 -/
theorem ShouldFailAtomicWeak_eq (draw : E → E × Nat) (rc : Nat) (e : E) (f : Nat) :
    ShouldFailAtomicWeak draw rc e f =
      if f ≠ 0 then (rc + 1, (draw e).1, decide ((draw e).2 % f = 0)) else (rc, e, false) := by
  unfold ShouldFailAtomicWeak
  by_cases h : f = 0
  · simp [h]
  · simp only [h, ne_eq, not_false_eq_true, decide_true, if_true, GetRandNumber_eq]
    rfl

theorem TickTime_eq (tick time : Nat) : Scheduler.TickTime tick time = time + tick := rfl

/-- `AdvanceTime` jumps to the earliest sleeper, never backwards -/
theorem AdvanceTime_eq (time k : Nat) : Scheduler.AdvanceTime time k = if k ≥ time then k else time := by
  unfold Scheduler.AdvanceTime
  split <;> simp <;> omega

theorem stop_eq (time k : Nat) : Scheduler.WakeUpNeeded.stop time k = decide (k > time) := rfl
theorem skip_eq (time ns : Nat) : Scheduler.Sleep.skip time ns = decide (ns ≤ time) := rfl
theorem deadline_eq (draw : E → E × Nat) (rc : Nat) (e : E) (st ns : Nat) :
    Scheduler.SleepPreemptive.deadline draw rc e st ns = (rc + 1, (draw e).1, ns + (draw e).2 % st) := rfl

/-- the index law of `BiList::GetElement` for a list of `n > 0` elements (positions counted from the front):
    in range, `ind` counts from the chosen end; out of range it wraps — and the two branches disagree about what
    "reversed" means (`ind = n` reversed is the *front* element, `ind = n - 1` reversed is the front element too) -/
def indexLaw (n ind : Nat) (reversed : Bool) : Nat :=
  if ind < n then (if reversed then n - 1 - ind else ind)
  else (if reversed then (n - ind % n) % n else ind % n)

theorem indexLaw_lt {n : Nat} (hn : 0 < n) (ind : Nat) (r : Bool) : indexLaw n ind r < n := by
  unfold indexLaw
  split
  · split <;> omega
  · split <;> exact Nat.mod_lt _ hn

/-! the three loops of `GetElement` -/

private theorem walk_fwd (n ind : Nat) : ∀ (k i : Nat), i ≤ n → i + k = ind →
    whileLoop k (fun (x : Nat × Nat) => decide (x.1 ≠ ind))
      (fun (x : Nat × Nat) => if x.2 = hd n then (false, (x.1, x.2)) else (true, (x.1 + 1, nxt n x.2))) (i, i)
    = (min ind n, min ind n) := by
  intro k
  induction k with
  | zero => intro i hi hk; simp [whileLoop_zero]; omega
  | succ k ih =>
    intro i hi hk
    rw [whileLoop_succ]
    have hne : i ≠ ind := by omega
    simp only [hne, ne_eq, not_false_eq_true, decide_true, if_true, hd]
    by_cases hin : i = n
    · simp [hin]; omega
    · have hlt : i < n := by omega
      simp only [hin, if_false, nxt, hlt, if_true]
      exact ih (i + 1) (by omega) (by omega)

/-- cursor after `i` steps backwards from the last element -/
private def revCur (n i : Nat) : Nat := if i < n then n - 1 - i else n

private theorem walk_bwd (n ind : Nat) : ∀ (k i : Nat), i ≤ n → i + k = ind →
    whileLoop k (fun (x : Nat × Nat) => decide (x.1 ≠ ind))
      (fun (x : Nat × Nat) => if x.2 = hd n then (false, (x.1, x.2)) else (true, (x.1 + 1, prv n x.2))) (i, revCur n i)
    = (min ind n, revCur n (min ind n)) := by
  intro k
  induction k with
  | zero =>
    intro i hi hk
    have : min ind n = i := by omega
    simp [whileLoop_zero, this]
  | succ k ih =>
    intro i hi hk
    rw [whileLoop_succ]
    have hne : i ≠ ind := by omega
    simp only [hne, ne_eq, not_false_eq_true, decide_true, if_true, hd]
    by_cases hin : i = n
    · have : min ind n = n := by omega
      simp [hin, revCur, this]
    · have hlt : i < n := by omega
      have h1 : revCur n i ≠ n := by unfold revCur; simp [hlt]; omega
      have h2 : prv n (revCur n i) = revCur n (i + 1) := by
        unfold prv revCur
        simp only [hlt, if_true]
        have h4 : ¬ (n - 1 - i = 0 ∧ i < n) ∨ i + 1 = n := by omega
        by_cases h3 : i + 1 < n
        · have : n - 1 - i ≠ 0 := by omega
          simp [h3, this]; omega
        · have : n - 1 - i = 0 := by omega
          simp [h3, this]
      simp only [h1, if_false, h2]
      exact ih (i + 1) (by omega) (by omega)

private theorem seek_fwd (n t : Nat) : ∀ (k c node : Nat), c + k = t → t ≤ n → node = c →
    whileLoop k (fun (x : Nat × Nat) => decide (x.2 < t))
      (fun (x : Nat × Nat) => (true, (nxt n x.1, x.2 + 1))) (node, c) = (t, t) := by
  intro k
  induction k with
  | zero => intro c node h _ hn; simp [whileLoop_zero, hn]; omega
  | succ k ih =>
    intro c node h h2 hn
    rw [whileLoop_succ]
    have : c < t := by omega
    simp only [this, decide_true, if_true]
    have h3 : nxt n node = c + 1 := by
      unfold nxt; subst hn
      have : node < n := by omega
      simp [this]
    rw [h3]
    exact ih (c + 1) (c + 1) (by omega) h2 rfl

private theorem seek_bwd (n t : Nat) : ∀ (k c node : Nat), c = t + k → c < n → node = c →
    whileLoop k (fun (x : Nat × Nat) => decide (x.2 > t))
      (fun (x : Nat × Nat) => (true, (prv n x.1, x.2 - 1))) (node, c) = (t, t) := by
  intro k
  induction k with
  | zero => intro c node h _ hn; simp [whileLoop_zero, hn]; omega
  | succ k ih =>
    intro c node h hc hn
    rw [whileLoop_succ]
    have : c > t := by omega
    simp only [this, decide_true, if_true]
    have h3 : prv n node = c - 1 := by
      unfold prv; subst hn
      have : node ≠ 0 := by omega
      simp [this]
    rw [h3]
    exact ih (c - 1) (c - 1) (by omega) (by omega) rfl

/-- `BiList::GetElement`, closed form: `nullptr` exactly for the empty list, otherwise the element at `indexLaw` -/
theorem GetElement_eq (n ind : Nat) (r : Bool) :
    BiList.GetElement n ind r = if n = 0 then none else some (indexLaw n ind r) := by
  unfold BiList.GetElement
  simp only [Nat.sub_zero]
  -- first loop
  have hloop : whileLoop ind (fun (x : Nat × Nat) => decide (x.1 ≠ ind))
      (fun (x : Nat × Nat) => if x.2 = hd n then (false, (x.1, x.2))
        else (true, (x.1 + 1, if r = true then prv n x.2 else nxt n x.2)))
      (0, if r = true then prv n (hd n) else nxt n (hd n))
      = (min ind n, if r = true then revCur n (min ind n) else min ind n) := by
    cases r with
    | false =>
      have h0 : nxt n (hd n) = 0 := by simp [nxt, hd]
      simp only [Bool.false_eq_true, if_false, h0]
      exact walk_fwd n ind ind 0 (by omega) (by omega)
    | true =>
      have h0 : prv n (hd n) = revCur n 0 := by
        unfold prv hd revCur
        by_cases hn : n = 0
        · simp [hn]
        · simp [hn]
      simp only [if_true, h0]
      exact walk_bwd n ind ind 0 (by omega) (by omega)
  simp only [hloop]
  by_cases hlt : ind < n
  · have hmin : min ind n = ind := by omega
    have hn : n ≠ 0 := by omega
    simp only [hmin, true_and, hd, indexLaw, hlt, if_true, hn, if_false]
    cases r with
    | false =>
      have : ind ≠ n := by omega
      simp [this]
    | true =>
      have hrc : revCur n ind = n - 1 - ind := by simp [revCur, hlt]
      have : n - 1 - ind ≠ n := by omega
      simp [hrc, this]
  · have hmin : min ind n = n := by omega
    have hcur : (if r = true then revCur n n else n) = n := by cases r <;> simp [revCur]
    simp only [hmin, hcur, hd, ne_eq, not_true_eq_false, and_false, if_false]
    by_cases hn : n = 0
    · simp [hn]
    · simp only [hn, if_false]
      have hnpos : 0 < n := by omega
      have hlaw : indexLaw n ind r = (if r = true then (n - ind % n) % n else ind % n) := by
        simp [indexLaw, hlt]
      rw [hlaw]
      generalize hw : (if r = true then (n - ind % n) % n else ind % n) = w
      have hwlt : w < n := by
        rw [← hw]; split <;> exact Nat.mod_lt _ hnpos
      have hf := seek_fwd n w w 0 (nxt n n) (by omega) (by omega) (by simp [nxt])
      have hb := seek_bwd n w (n - 1 - w) (n - 1) (prv n n) (by omega) (by omega) (by simp [prv, hn])
      rw [hf, hb]
      simp

end Yaclib.Sched
