/- preservation of the counter invariant InvC -/
import YaclibModel.Proofs.CoroB7
namespace Yaclib.Coro

theorem emptyBased_excl {k : AKind} (h : emptyBased k = true) : isMulti k = false ∧ counted k = false := by
  cases k <;> simp_all [emptyBased, isMulti, counted]
theorem task_excl {k : AKind} (h : k = .task) : isMulti k = false ∧ counted k = false := by
  subst h; simp [isMulti, counted]

macro "invC_auto" : tactic =>
  `(tactic| (constructor <;> (try simp only [doSubmit, doDrop, doCurrent, doLdtor, doRet, doPublish, doFdtor, doTdtor, doResume, doReady, doMReady,
      State.setWord]) <;>
      grind [inOp, decided, regPos]))

set_option maxHeartbeats 8000000 in
theorem invC_step_0 {w s l s'} (ha : InvA w s) (hc : InvC w s) (hs : Step s l s')
    (hl : match l with | .pXchg _ | .envPush _ | .envSwap _ _ | .exCall | .exDrop | .ldtor | .ret | .publish _ | .fdtor
                       | .rdLoad _ | .mload _ | .submit _ | .current _ | .resume _ _ | .ready _ | .tstore | .tdtor _ => True | _ => False) :
    InvC w s' := by
  cases hc
  cases hs with
  | pXchg j l f hw hl => invC_auto
  | envPush j l f hw hu => invC_auto
  | envSwap j e hu => invC_auto
  | exCall e h => invC_auto
  | exDrop e h => invC_auto
  | ldtor h hl => invC_auto
  | ret h ht => invC_auto
  | publish r h hr hl => invC_auto
  | fdtor h hl => invC_auto
  | rdLoad op rest j x h ht hj hx => invC_auto
  | mload v h hv => invC_auto
  | submit e h => invC_auto
  | current op rest h ht => invC_auto
  | tdtor j h hl hr => invC_auto
  | resume op rest c h ht => invC_auto
  | ready x h =>
      have hpk := ha.pc_kind
      cases hb : awaitReady x <;> (constructor <;> (try simp only [doReady]) <;>
        grind [inOp, decided, regPos, pcKindOk, emptyBased_excl])
  | mready v h => cases hb : decide (v = 1) <;> invC_auto
  | tstore op rest j h ht hj =>
      have hpk := ha.pc_kind
      simp only [doTstore]; constructor <;> grind [inOp, decided, regPos, pcKindOk, task_excl]
  | _ => simp at hl

end Yaclib.Coro
