/- C03 on the combinator model (Model/When.lean): ownership of the combinator object and of the input cores.

   The combinator (`MakeShared<Combinator>(count, …)`) is deleted by the `DecRef` that reads 1 (`dt := some i`); the thread of
   that consumption then runs `~Strategy` / `~Promise`.  Everything here is a corollary of `InvC` (Proofs/When.lean): no new
   inductive invariant, no change to the model. -/
import YaclibModel.Proofs.WhenProgress

namespace Yaclib.When

variable {w : Workload} {s s' : State} {l : Label}

/-- the input whose consumption (or registration) makes the step -/
def Label.input : Label → Nat
  | .regSet i _ | .fire i | .retire i | .loadFlag i _ | .xchgFlag i _ | .load3 i _ | .xchg3 i _ | .cas3 i _ | .loadLf i _
  | .xchgLf i _ | .fsubLf i _ | .setOut i _ | .dec i _ | .dtorRel i _ | .dtorSet i _ | .dtorThrow i | .crash i => i

/-- once the last reference was dropped every consumption except the destructor's has finished -/
theorem others_done_of_dt (hC : InvC w s) {i : Nat} (hd : s.dt = some i) :
    s.count = 0 ∧ ∀ j, j < w.n → j ≠ i → s.pc j = .done := by
  have hc : s.count = 0 := hC.dt_cnt (by rw [hd]; simp)
  refine ⟨hc, ?_⟩
  intro j hj hji
  have hcnt := hC.count
  rw [hc] at hcnt
  have hh : holding (s.pc j) = false := cnt_zero (p := fun j => holding (s.pc j)) hcnt.symm j hj
  cases hin : inDtor (s.pc j) with
  | false => exact done_of_not_holding hh hin
  | true =>
      have := hC.dtor_dt j hin
      rw [hd] at this
      exact absurd (Option.some.inj this).symm hji

/-- … so only the destructor's own thread can still take a step -/
theorem only_dtor_steps (hC : InvC w s) {i : Nat} (hd : s.dt = some i) (hs : Step w s l s') : l.input = i := by
  obtain ⟨hc, hdone⟩ := others_done_of_dt hC hd
  have hcnt := hC.count
  rw [hc] at hcnt
  have hnh : ∀ j, j < w.n → holding (s.pc j) = false :=
    fun j hj => cnt_zero (p := fun j => holding (s.pc j)) hcnt.symm j hj
  have key : ∀ j, s.pc j ≠ .done → s.pc j ≠ .unreg → j = i := by
    intro j h1 h2
    apply Classical.byContradiction
    intro hne
    exact h1 (hdone j (hC.idx h2) hne)
  cases hs with
  | regSet j okb hc hb hr hn =>
      have hu : s.pc j = .unreg := (hC.unreg j).mpr (by omega)
      have := hnh j hn
      rw [hu] at this; cases this
  | fire j hc hp => exact key j (by rw [hp]; simp) (by rw [hp]; simp)
  | retire j hc hp => exact key j (by rw [hp]; simp) (by rw [hp]; simp)
  | loadFlag j b hc hp hs hb => exact key j (by rw [hp]; simp) (by rw [hp]; simp)
  | xchgFlag j hc hp hs => exact key j (by rw [hp]; simp) (by rw [hp]; simp)
  | load3 j x hc hp hs hx => exact key j (by rw [hp]; simp) (by rw [hp]; simp)
  | xchg3 j hc hp hs hv => exact key j (by rw [hp]; simp) (by rw [hp]; simp)
  | cas3 j hc hp hs hv => exact key j (by rw [hp]; simp) (by rw [hp]; simp)
  | loadLf j d hc hp hs hd => exact key j (by rw [hp]; simp) (by rw [hp]; simp)
  | xchgLf j hc hp hs hv => exact key j (by rw [hp]; simp) (by rw [hp]; simp)
  | fsubLf j hc hp hs hv => exact key j (by rw [hp]; simp) (by rw [hp]; simp)
  | setOut j o hc hp => exact key j (by rw [hp]; simp) (by rw [hp]; simp)
  | dec j store hc hp => exact key j (by rw [hp]; simp) (by rw [hp]; simp)
  | dtorRel j k hc hp => exact key j (by rw [hp]; simp) (by rw [hp]; simp)
  | dtorSet j o hc hp ho => exact key j (by rw [hp]; simp) (by rw [hp]; simp)
  | dtorThrow j hc hp ho => exact key j (by rw [hp]; simp) (by rw [hp]; simp)
  | crash j hc hp =>
      rcases hp with hp | hp
      · exact key j (by rw [hp]; simp) (by rw [hp]; simp)
      · exact key j (by rw [hp]; simp) (by rw [hp]; simp)

/-- how a step changes the ghost `dt` -/
theorem dt_step (hs : Step w s l s') : s'.dt = s.dt ∨ (∃ i, l = .dec i 1 ∧ s.count = 1 ∧ s'.dt = some i) := by
  cases hs with
  | regSet i okb hc hb hr hn => left; cases okb <;> simp [doRegSet]
  | fire i hc hp => left; simp [doFire]
  | retire i hc hp => left; simp [doRetire]
  | loadFlag i b hc hp hs hb => left; simp [doLoadFlag, setPc]
  | xchgFlag i hc hp hs => left; simp only [doXchgFlag]; split <;> rfl
  | load3 i x hc hp hs hx => left; simp only [doLoad3, setPc]; split <;> rfl
  | xchg3 i hc hp hs hv => left; simp only [doXchg3]; split <;> rfl
  | cas3 i hc hp hs hv => left; simp only [doCas3]; split <;> rfl
  | loadLf i d hc hp hs hd => left; simp [doLoadLf, setPc]
  | xchgLf i hc hp hs hv => left; simp only [doXchgLf]; split <;> rfl
  | fsubLf i hc hp hs hv => left; simp only [doFsubLf]; split <;> rfl
  | setOut i o hc hp => left; simp [doSetOut]
  | dec i store hc hp =>
      by_cases h1 : s.count = 1
      · right
        refine ⟨i, by rw [h1], h1, ?_⟩
        simp only [doDec, h1, ↓reduceIte]
        split <;> simp [setPc, finish]
      · left
        simp only [doDec, h1, ↓reduceIte, finish]
  | dtorRel i j hc hp =>
      left
      simp only [doDtorRel]
      split
      · split
        · split <;> simp [setPc]
        · split <;> simp [setPc, finish]
      · simp [setPc]
  | dtorSet i o hc hp ho => left; simp [doDtorSet, finish]
  | dtorThrow i hc hp ho => left; simp [setPc]
  | crash i hc hp => left; rfl

/-- the combinator is destroyed at most once: once `dt` names the consumption that dropped the last reference, it never changes -/
theorem dt_stable (hC : InvC w s) {i : Nat} (hd : s.dt = some i) (hs : Step w s l s') : s'.dt = some i := by
  rcases dt_step hs with h | ⟨k, _, h1, _⟩
  · rw [h, hd]
  · have := hC.dt_cnt (by rw [hd]; simp)
    omega

/-- a step that releases input `j` (`core.Retire()` / `core.DecRef()` by its own consumption, or the loop of `~All`) -/
def Label.releases (l : Label) (j : Nat) : Prop := l = .retire j ∨ ∃ i, l = .dtorRel i j

theorem released_step (hs : Step w s l s') {j : Nat} (hl : l.releases j) : s'.released j = s.released j + 1 := by
  rcases hl with hl | ⟨i, hl⟩ <;> subst hl
  · cases hs with
    | retire _ hc hp => simp [doRetire, upd]
  · cases hs with
    | dtorRel _ _ hc hp =>
        simp only [doDtorRel]
        split
        · split
          · split <;> simp [setPc, upd]
          · split <;> simp [setPc, finish, upd]
        · simp [setPc, upd]

/-- the consumption that makes a step has not finished; a registration step acts on an input that is still unregistered -/
theorem step_input_not_done (hC : InvC w s) (hs : Step w s l s') : s.pc l.input ≠ .done := by
  cases hs with
  | regSet j okb hc hb hr hn =>
      have hu : s.pc j = .unreg := (hC.unreg j).mpr (by omega)
      simp [Label.input, hu]
  | crash j hc hp => rcases hp with hp | hp <;> simp [Label.input, hp]
  | _ => simp_all [Label.input]

/-- a step that touches input core `j`: `SetCallback` on it by the registration loop, the completing thread taking the installed
    callback out of it, its release -/
def Label.touchesInput (l : Label) (j : Nat) : Prop := (∃ okb, l = .regSet j okb) ∨ l = .fire j ∨ l.releases j

/-- an input core that was released is past registration and past the hand-off of its callback -/
theorem released_past_handoff (hC : InvC w s) {j : Nat} (hr : s.released j = 1) : s.pc j ≠ .unreg ∧ s.pc j ≠ .pending := by
  cases hm : w.strat.managed with
  | true =>
      have h1 := hC.released_m hm j
      rw [hr] at h1
      constructor <;> intro hp <;> rw [hp] at h1 <;> simp [beforeRetire] at h1
  | false =>
      have h1 := hC.released_o hm j
      rw [hr] at h1
      have hlt : j < s.relIdx := by
        apply Classical.byContradiction
        intro hn
        simp [hn] at h1
      have hle := hC.rel_le
      have hdt : s.dt ≠ none := fun hn => by have := hC.rel0 hn; omega
      cases hd : s.dt with
      | none => exact absurd hd hdt
      | some i =>
          by_cases hji : j = i
          · subst hji
            have hh := hC.dt_pc j hd
            constructor <;> intro hp <;> rw [hp] at hh <;> cases hh
          · have := (others_done_of_dt hC hd).2 j (by omega) hji
            constructor <;> intro hp <;> rw [hp] at this <;> cases this

end Yaclib.When
