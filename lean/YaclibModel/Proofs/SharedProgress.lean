/- Progress for the C06 model: in a state in which no step is enabled the fulfiller has finished, no executor job
   is pending, every observer is idle (with nothing left to do, or without any SharedFuture left) and nothing is
   in flight. -/
import YaclibModel.Proofs.SharedInv
namespace Yaclib.Shared

theorem loadOk_word {w s} (hi : InvA w s) : loadOk s s.word := by
  cases hw : s.word with
  | result => simp [loadOk, hw]
  | list l => simp only [loadOk]; rw [hi.chain_word l hw]; exact staleOk_self l

theorem ful_done_of_quiescent {w s} (hi : Inv w s) (hq : ∀ l s', ¬ Step s l s') : s.fpc = .dec 0 := by
  cases hp : s.fpc with
  | start =>
      cases hw : s.word with
      | result => exact absurd hp (hi.a.word_iff.mp hw)
      | list l => exact absurd (Step.fXchg s l hp hw) (hq _ _)
  | dec n =>
      cases n with
      | zero => rfl
      | succ k => exact absurd (Step.fDec s k hp) (hq _ _)
  | walk l d st =>
      have hne := hi.a.walk_ne l d st hp
      cases l with
      | nil => exact absurd rfl hne.1
      | cons c rest =>
          have hk := hi.a.walk_kind c rest d st hp
          cases st with
          | begin =>
              by_cases hf : canFire rest d
              · cases hkind : c.kind with
                | inl => exact absurd (Step.fInvoke s c rest d hp hkind hf) (hq _ _)
                | event => exact absurd (Step.fSet s c rest d hp hkind hf) (hq _ _)
                | exec => exact absurd (Step.fIncRef s c rest d hp hkind hf) (hq _ _)
                | target => exact absurd (Step.fRefLoad s c rest d hp hkind hf) (hq _ _)
                | retire => exact absurd (Step.fEnter s c rest d hp hkind hf) (hq _ _)
              · simp only [canFire, Classical.not_imp] at hf
                obtain ⟨hr, hd⟩ := hf
                subst hr
                have hd' : d = false := by cases d <;> simp_all
                subst hd'
                exact absurd (Step.fDec1 s c hp) (hq _ _)
          | incd => exact absurd (Step.fSubmit s c rest d hp) (hq _ _)
          | refd n =>
              have hn := (hi.r.f_refd c rest d n hp).1
              exact absurd (Step.fForward s c rest d n hp (hk.2.1 n rfl) (by omega)) (hq _ _)
          | post => exact absurd hp (hi.r.f_post _ _)

theorem jobs_nil_of_quiescent {s} (hq : ∀ l s', ¬ Step s l s') : s.jobs = [] ∧ s.jobsRun = [] := by
  constructor
  · cases hj : s.jobs with
    | nil => rfl
    | cons c r => exact absurd (Step.jInvoke s c (by rw [hj]; simp)) (hq _ _)
  · cases hj : s.jobsRun with
    | nil => rfl
    | cons c r => exact absurd (Step.jDec s c (by rw [hj]; simp)) (hq _ _)

theorem rets_nil_of_quiescent {s} (hq : ∀ l s', ¬ Step s l s') : s.rets = [] ∧ s.retsLd = [] := by
  constructor
  · cases hj : s.rets with
    | nil => rfl
    | cons c r => exact absurd (Step.rRefLoad s c (by rw [hj]; simp)) (hq _ _)
  · cases hj : s.retsLd with
    | nil => rfl
    | cons x r => exact absurd (Step.rRetire s x.1 x.2 (by rw [hj]; simp)) (hq _ _)

/-- an observer that is neither idle nor blocked in a wait can always move -/
theorem obs_idle_or_evt_of_quiescent {w s} (hi : Inv w s) (hq : ∀ l s', ¬ Step s l s') (t : Nat) :
    (s.obs t).pc = .idle ∨ ∃ c, (s.obs t).pc = .evt c := by
  cases hp : (s.obs t).pc with
  | idle => exact Or.inl rfl
  | evt c => exact Or.inr ⟨c, rfl⟩
  | att c e =>
      by_cases hw : s.word = .list e
      · exact absurd (Step.oCasOk s t c e hp hw) (hq _ _)
      · exact absurd (Step.oCasFail s t c e s.word hp hw (loadOk_word hi.a)) (hq _ _)
  | run c st =>
      have hs := hi.a.run_shape t c st hp
      cases st with
      | begin =>
          cases hkind : c.kind with
          | inl => exact absurd (Step.oInvoke s t c hp hkind) (hq _ _)
          | exec => exact absurd (Step.oIncRef s t c hp hkind) (hq _ _)
          | target => exact absurd (Step.oForward s t c hp hkind) (hq _ _)
          | retire => exact absurd (Step.oEnter s t c hp hkind) (hq _ _)
          | event => exact absurd hkind hs.2.1
      | incd => exact absurd (Step.oSubmit s t c hp) (hq _ _)
      | refd n => exact absurd rfl (hs.2.2.2.2 n)
      | post => exact absurd rfl hs.2.2.1
  | rep x => exact absurd (Step.oReady s t x hp) (hq _ _)
  | touching => exact absurd (Step.oTouch s t hp) (hq _ _)
  | gotRef n => exact absurd (Step.oGot s t n hp) (hq _ _)

theorem inflight_nil_of_quiescent {w s} (hi : Inv w s) (hq : ∀ l s', ¬ Step s l s') : s.inflight = [] := by
  cases hf : s.inflight with
  | nil => rfl
  | cons c r =>
      have hh := hi.c.link2 c (by rw [hf]; simp)
      rcases obs_idle_or_evt_of_quiescent hi hq c.owner with h | ⟨c', h⟩ <;> rw [h] at hh <;> simp at hh

theorem fired_of_quiescent {w s} (hi : Inv w s) (hq : ∀ l s', ¬ Step s l s') (c : Cb) :
    s.registered.count c = (firedIds s).count c := by
  have h1 := hi.c.conserve c
  have hf := ful_done_of_quiescent hi hq
  have hj := (jobs_nil_of_quiescent hq).1
  have hin := inflight_nil_of_quiescent hi hq
  have hw : s.word = .result := hi.a.word_iff.mpr (by rw [hf]; simp)
  rw [hf, hj, hin, hw] at h1
  simpa using h1

theorem obs_done_of_quiescent {w s} (hi : Inv w s) (hq : ∀ l s', ¬ Step s l s') (t : Nat) :
    (s.obs t).pc = .idle ∧ ((s.obs t).todo = [] ∨ (s.obs t).refs = 0) := by
  rcases obs_idle_or_evt_of_quiescent hi hq t with hp | ⟨c, hp⟩
  · refine ⟨hp, ?_⟩
    cases ht : (s.obs t).todo with
    | nil => exact Or.inl rfl
    | cons op rest =>
        right
        apply Classical.byContradiction
        intro hr0
        have hr : 0 < (s.obs t).refs := by omega
        cases op with
        | attach k => exact absurd (Step.oLoad s t _ rest k s.word hp ht rfl hr (loadOk_word hi.a)) (hq _ _)
        | getc => exact absurd (Step.oLoad s t _ rest .event s.word hp ht rfl hr (loadOk_word hi.a)) (hq _ _)
        | getMove => exact absurd (Step.oLoad s t _ rest .event s.word hp ht rfl hr (loadOk_word hi.a)) (hq _ _)
        | ready => exact absurd (Step.oRdLoad s t _ rest s.word hp ht rfl hr (loadOk_word hi.a)) (hq _ _)
        | readyTouch => exact absurd (Step.oRdLoad s t _ rest s.word hp ht rfl hr (loadOk_word hi.a)) (hq _ _)
        | copy => exact absurd (Step.oCopy s t rest hp ht hr) (hq _ _)
        | drop => exact absurd (Step.oDrop s t rest hp ht hr) (hq _ _)
  · -- blocked in a wait although its event has fired: impossible
    exfalso
    have hreg := hi.c.evt_reg t c hp
    have hcnt := fired_of_quiescent hi hq c
    have hpos : 0 < s.registered.count c := List.count_pos_iff.mpr hreg
    have hfired : c ∈ firedIds s := List.count_pos_iff.mp (by omega)
    have hh := hi.a.evt_head t c hp
    cases ht : (s.obs t).todo with
    | nil => rw [ht] at hh; simp at hh
    | cons op rest =>
        rw [ht] at hh
        cases op with
        | attach k =>
            simp [opKind] at hh; subst hh
            exact absurd (Step.oWaited s t c rest hp ht hfired) (hq _ _)
        | getc => exact absurd (Step.oGetc s t c rest hp ht hfired) (hq _ _)
        | getMove => exact absurd (Step.oGetRef s t c rest hp ht hfired) (hq _ _)
        | ready => simp [opKind] at hh
        | readyTouch => simp [opKind] at hh
        | copy => simp [opKind] at hh
        | drop => simp [opKind] at hh

end Yaclib.Shared
