/- C08 progress: a state in which no step except a spurious wake-up is enabled is a state in which every thread
   has finished (or, if nobody ever stops the pool, every worker sleeps on an empty queue). -/
import YaclibModel.Proofs.PoolInv
namespace Yaclib.Pool
open Yaclib.Extracted.PoolConsts

/-- nothing can happen any more, except that a parked worker wakes up without having been notified -/
def Quiescent (s : State) : Prop := ∀ l s', Step s l s' → l.isSpurious = true

theorem Quiescent.no {s : State} (hq : Quiescent s) {l : Label} {s' : State} (hs : Step s l s') (hl : l.isSpurious = false) :
    False := by
  have := hq l s' hs; rw [hl] at this; cases this

theorem worker_unlock_enabled {s : State} {i : Nat} {b : Bool} (h : s.workers[i]? = some (.held b)) :
    ∃ s', Step s (.unlock (.worker i)) s' := by
  cases hq : s.queue with
  | cons j rest => exact ⟨_, .wPop s i b j rest h hq⟩
  | nil =>
      cases hc : (noJobs (cntAfter b s.cnt) && wantStop (cntAfter b s.cnt)) with
      | true => exact ⟨_, .wStop s i b h hq hc⟩
      | false =>
          cases hw : wasStop (cntAfter b s.cnt) with
          | true => exact ⟨_, .wExit s i b h hq hc hw⟩
          | false => exact ⟨_, .wWait s i b h hq hc hw⟩

theorem sub_unlock_enabled {s : State} {i : Nat} {sb : Sub} (h : s.subs[i]? = some sb) (hpc : sb.pc = .held) :
    ∃ s', Step s (.unlock (.sub i)) s' := by
  cases hw : wasStop s.cnt with
  | true => exact ⟨_, .sReject s i sb h hpc hw⟩
  | false => exact ⟨_, .sAccept s i sb h hpc hw⟩

theorem stopper_unlock_enabled {w : Workload} {s : State} (ha : InvA w s) (h : s.xpc = .held) :
    ∃ s', Step s (.unlock .stopper) s' := by
  have hk := (ha.x_pre (Or.inr (Or.inr h))).2.2
  cases hkind : s.kind with
  | none => exact absurd hkind hk
  | some k =>
      cases k with
      | stop => exact ⟨_, .xStop s h hkind⟩
      | hard => exact ⟨_, .xHard s h hkind⟩
      | soft =>
          cases hn : noJobs s.cnt with
          | true => exact ⟨_, .xSoftNow s h hkind hn⟩
          | false => exact ⟨_, .xSoftWant s h hkind hn⟩

theorem unlocked_of_quiescent {w : Workload} {s : State} (ha : InvA w s) (hq : Quiescent s) : s.locked = false := by
  cases hl : s.locked with
  | false => rfl
  | true =>
      exfalso
      have hc := ha.lock_cnt
      rw [hl] at hc
      simp only [↓reduceIte] at hc
      by_cases hx : s.xpc = .held
      · obtain ⟨s', hs⟩ := stopper_unlock_enabled ha hx
        exact hq.no hs rfl
      · by_cases hw : 0 < s.workers.countP WPc.isHeld
        · obtain ⟨pc, hm, hp⟩ := List.countP_pos_iff.mp hw
          obtain ⟨i, hi⟩ := List.mem_iff_getElem?.mp hm
          cases pc with
          | held b =>
              obtain ⟨s', hs⟩ := worker_unlock_enabled hi
              exact hq.no hs rfl
          | _ => simp [WPc.isHeld] at hp
        · have hs0 : 0 < s.subs.countP Sub.isHeld := by simp [hx] at hc; omega
          obtain ⟨sb, hm, hp⟩ := List.countP_pos_iff.mp hs0
          obtain ⟨i, hi⟩ := List.mem_iff_getElem?.mp hm
          have hpc : sb.pc = .held := by simpa [Sub.isHeld] using hp
          obtain ⟨s', hs⟩ := sub_unlock_enabled hi hpc
          exact hq.no hs rfl

theorem subs_done_of_quiescent {w : Workload} {s : State} (ha : InvA w s) (hb : InvB w s) (hq : Quiescent s) :
    ∀ sb ∈ s.subs, sb.pc = .idle ∧ sb.k = sb.total := by
  have hul := unlocked_of_quiescent ha hq
  intro sb hm
  obtain ⟨i, hi⟩ := List.mem_iff_getElem?.mp hm
  have hwf := hb.sub_wf i sb hi
  cases hpc : sb.pc with
  | idle =>
      refine ⟨rfl, ?_⟩
      by_cases hk : sb.k < sb.total
      · exact (hq.no (.sBegin s i sb hi hpc hk) rfl).elim
      · omega
  | want => exact (hq.no (.sLock s i sb hi hpc hul) rfl).elim
  | held =>
      obtain ⟨s', hs⟩ := sub_unlock_enabled hi hpc
      exact (hq.no hs rfl).elim
  | dropping => exact (hq.no (.sDrop s i sb hi hpc) rfl).elim
  | notifying =>
      by_cases hp : WPc.parked ∈ s.workers
      · obtain ⟨v, hv⟩ := List.mem_iff_getElem?.mp hp
        exact (hq.no (.sNotifyOne s i sb v hi hpc hv) rfl).elim
      · exact (hq.no (.sNotifyNone s i sb hi hpc hp) rfl).elim

theorem stopper_done_of_quiescent {w : Workload} {s : State} (ha : InvA w s) (hq : Quiescent s) : s.xpc = .done := by
  have hul := unlocked_of_quiescent ha hq
  cases hx : s.xpc with
  | done => rfl
  | idle =>
      have hk := (ha.x_pre (Or.inl hx)).2.2
      cases hkind : s.kind with
      | none => exact absurd hkind hk
      | some k => exact (hq.no (.xBegin s k hx hkind) rfl).elim
  | want => exact (hq.no (.xLock s hx hul) rfl).elim
  | held =>
      obtain ⟨s', hs⟩ := stopper_unlock_enabled ha hx
      exact (hq.no hs rfl).elim
  | notifyAll => exact (hq.no (.xNotifyAll s hx) rfl).elim
  | dropping l =>
      cases l with
      | nil => exact absurd rfl (ha.x_drop [] hx).2.2
      | cons j rest => exact (hq.no (.xDrop s j rest hx) rfl).elim

theorem workers_rest_of_quiescent {w : Workload} {s : State} (ha : InvA w s) (hq : Quiescent s) :
    ∀ pc ∈ s.workers, pc = .parked ∨ pc = .exited := by
  have hul := unlocked_of_quiescent ha hq
  intro pc hm
  obtain ⟨i, hi⟩ := List.mem_iff_getElem?.mp hm
  cases pc with
  | parked => exact Or.inl rfl
  | exited => exact Or.inr rfl
  | start => exact (hq.no (.wLock s i _ hi (Or.inl rfl) hul) rfl).elim
  | woken => exact (hq.no (.wLock s i _ hi (Or.inr rfl) hul) rfl).elim
  | held b =>
      obtain ⟨s', hs⟩ := worker_unlock_enabled hi
      exact (hq.no hs rfl).elim
  | calling j => exact (hq.no (.wCall s i j hi) rfl).elim
  | relock => exact (hq.no (.wRelock s i hi hul) rfl).elim
  | stopping => exact (hq.no (.wNotifyAll s i hi) rfl).elim

/-- the state of the pool when nothing can happen any more -/
structure Rest (w : Workload) (s : State) : Prop where
  unlocked : s.locked = false
  subs_done : ∀ sb ∈ s.subs, sb.pc = .idle ∧ sb.k = sb.total
  stopper_done : s.xpc = .done
  queue_empty : s.queue = []
  none_running : s.workers.countP WPc.running = 0
  /-- nobody stops the pool: all workers sleep; somebody does: all workers have left and Wait has returned -/
  workers : (w.stop = none ∧ wasStop s.cnt = false ∧ ∀ pc ∈ s.workers, pc = .parked) ∨
    (w.stop ≠ none ∧ wasStop s.cnt = true ∧ s.waitReturned = true ∧ ∀ pc ∈ s.workers, pc = .exited)

theorem rest_of_quiescent {w : Workload} {s : State} (ha : InvA w s) (hb : InvB w s) (hc : InvC w s)
    (hn : 0 < w.workers) (hq : Quiescent s) : Rest w s := by
  have hul := unlocked_of_quiescent ha hq
  have hsd := subs_done_of_quiescent ha hb hq
  have hxd := stopper_done_of_quiescent ha hq
  have hwr := workers_rest_of_quiescent ha hq
  have hrun : s.workers.countP WPc.running = 0 := by
    apply List.countP_eq_zero.mpr
    intro pc hm
    rcases hwr pc hm with h | h <;> subst h <;> simp [WPc.running]
  have hact : s.workers.countP WPc.active = 0 := by
    apply List.countP_eq_zero.mpr
    intro pc hm
    rcases hwr pc hm with h | h <;> subst h <;> simp [WPc.active]
  have hnot : s.subs.countP Sub.isNotifying = 0 := by
    apply List.countP_eq_zero.mpr
    intro sb hm
    simp [Sub.isNotifying, (hsd sb hm).1]
  have hqe : s.queue = [] := by
    cases hqq : s.queue with
    | nil => rfl
    | cons j rest =>
        have := hc.queue_watch (by rw [hqq]; simp) hn
        rw [hact, hnot, hxd] at this
        simp at this
  have hnostop : WPc.stopping ∉ s.workers := by
    intro hm; rcases hwr _ hm with h | h <;> cases h
  have hxna : s.xpc ≠ .notifyAll := by rw [hxd]; simp
  have hcj := ha.cnt_jobs
  rw [hqe, hrun] at hcj
  simp only [List.length_nil, Nat.zero_add] at hcj
  refine ⟨hul, hsd, hxd, hqe, hrun, ?_⟩
  by_cases hwas : s.cnt % 2 = 1
  · -- stopped: nobody is parked any more, so everybody has left, so Wait can return
    right
    have hnp := hc.no_parked_after_stop hwas hxna hnostop
    have hall : ∀ pc ∈ s.workers, pc = .exited := by
      intro pc hm
      rcases hwr pc hm with h | h
      · subst h; exact absurd hm hnp
      · exact h
    refine ⟨?_, by rw [Bits.wasStop_eq]; simp [hwas], ?_, hall⟩
    · intro hnone
      have := (ha.x_none (by rw [ha.kind_eq]; exact hnone)).2.1
      omega
    · cases hr : s.waitReturned with
      | true => rfl
      | false => exact (hq.no (.waitRet s hall hr) rfl).elim
  · -- not stopped: nobody has left …
    have hpark : ∀ pc ∈ s.workers, pc = .parked := by
      intro pc hm
      rcases hwr pc hm with h | h
      · exact h
      · subst h; exact absurd (ha.gone_was _ hm rfl) hwas
    -- … and nobody will ever stop the pool (a finished stopper would have set a bit)
    have hkind : s.kind = none := by
      cases hk : s.kind with
      | none => rfl
      | some k =>
          exfalso
          rcases ha.x_done hxd (by rw [hk]; simp) with h | ⟨_, h⟩
          · exact hwas h
          · have hj := ha.want_jobs h (by omega)
            have hst : s.stolen = [] := by
              cases hs : s.stolen with
              | nil => rfl
              | cons a as => exact absurd (ha.stolen_kind (by rw [hs]; simp)).2 hwas
            rw [hst] at hcj
            simp at hcj
            omega
    left
    refine ⟨by rw [← ha.kind_eq]; exact hkind, by rw [Bits.wasStop_eq]; simp [hwas], hpark⟩

/-! ### helpers for the statements in Props/C08.lean -/

theorem count_le_one_of_nodup {l : List JobId} (h : l.Nodup) (j : JobId) : l.count j ≤ 1 :=
  List.nodup_iff_count.mp h j

theorem hardDropped_le_stolen {w : Workload} {s : State} (h : Reachable w s) (j : JobId) : s.hardDropped.count j ≤ s.stolen.count j := by
  have hb := invB_reachable h
  cases hx : s.xpc with
  | done => rw [hb.hard_done hx]; exact Nat.le_refl _
  | dropping l =>
      have := hb.hard_drop l hx
      rw [← this, List.count_append]; omega
  | idle => rw [hb.hard_pre (by rw [hx]; simp) (by rw [hx]; simp)]; simp
  | want => rw [hb.hard_pre (by rw [hx]; simp) (by rw [hx]; simp)]; simp
  | held => rw [hb.hard_pre (by rw [hx]; simp) (by rw [hx]; simp)]; simp
  | notifyAll => rw [hb.hard_pre (by rw [hx]; simp) (by rw [hx]; simp)]; simp

/-- a later state of the same run -/
inductive Later (s : State) : State → Prop where
  | refl : Later s s
  | step {t l t'} : Later s t → Step t l t' → Later s t'

theorem later_reachable {w : Workload} {s : State} (h : Reachable w s) {t : State} (hl : Later s t) : Reachable w t := by
  induction hl with
  | refl => exact h
  | step _ hs ih => exact .step ih hs

theorem wait_stable {s : State} {l : Label} {s' : State} (hs : Step s l s') (hr : s.waitReturned = true) : s'.waitReturned = true := by
  cases hs <;> first | exact hr | rfl

end Yaclib.Pool
