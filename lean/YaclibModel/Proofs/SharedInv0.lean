/- reference bookkeeping per thread is preserved by every step -/
import YaclibModel.Proofs.Shared
namespace Yaclib.Shared

macro "inv0_o" hi:term "," t:term "," hp:term : tactic =>
  `(tactic| (refine inv0_of $hi $t rfl $hp ?_ ?_ ?_ <;> sh_unfold <;> (try simp) <;> (try omega)))

set_option maxHeartbeats 1000000 in
theorem inv0_step {s l s'} (hi : Inv0 s) (hs : Step s l s') : Inv0 s' := by
  cases hs with
  | fXchg l h hw => exact inv0_same hi rfl rfl rfl
  | fDec1 c h => exact inv0_same hi rfl rfl rfl
  | fTargetDec c rest d h hk => exact inv0_same hi rfl rfl rfl
  | fDec k h => exact inv0_same hi rfl rfl rfl
  | fInvoke c rest d h hk hf => exact inv0_same hi rfl rfl rfl
  | fSet c rest d h hk hf => exact inv0_same hi rfl rfl rfl
  | fIncRef c rest d h hk hf => exact inv0_same hi rfl rfl rfl
  | fSubmit c rest d h => exact inv0_same hi rfl rfl rfl
  | fRefLoad c rest d h hk hf => exact inv0_same hi rfl rfl rfl
  | fForward c rest d n h hk hn => exact inv0_same hi rfl rfl rfl
  | fForwardPost c rest d h hk => exact inv0_same hi rfl rfl rfl
  | fEnter c rest d h hk hf => exact inv0_same hi rfl rfl rfl
  | rRefLoad c h => exact inv0_same hi rfl rfl rfl
  | rRetire c n h => exact inv0_same hi rfl rfl rfl
  | jInvoke c h => exact inv0_same hi rfl rfl rfl
  | jDec c h => exact inv0_same hi rfl rfl rfl
  | oLoad t op rest k x h ht hk hr hx =>
      cases x with
      | list l => inv0_o hi, t, hr
      | result =>
          by_cases hke : k = .event
          · subst hke; inv0_o hi, t, hr
          · simp only [doLoad, reload, failPath, hke, ↓reduceIte]; inv0_o hi, t, hr
  | oCasOk t c e h hw =>
      have hp := hi.busy t (by rw [h]; simp)
      by_cases hke : c.kind = .event
      · simp only [doCasOk, hke, ↓reduceIte]; inv0_o hi, t, hp
      · by_cases hkr : c.kind = .retire
        · simp only [doCasOk, hkr, ↓reduceIte, reduceCtorEq]
          have := hi.le t
          inv0_o hi, t, hp
        · simp only [doCasOk, hke, hkr, ↓reduceIte]; inv0_o hi, t, hp
  | oCasFail t c e x h hw hx =>
      have hp := hi.busy t (by rw [h]; simp)
      cases x with
      | list l => inv0_o hi, t, hp
      | result =>
          by_cases hke : c.kind = .event
          · simp only [reload, failPath, hke, ↓reduceIte]; inv0_o hi, t, hp
          · simp only [reload, failPath, hke, ↓reduceIte]; inv0_o hi, t, hp
  | oCasSpur t c e x h hw hx =>
      have hp := hi.busy t (by rw [h]; simp)
      cases x with
      | list l => inv0_o hi, t, hp
      | result =>
          by_cases hke : c.kind = .event
          · simp only [reload, failPath, hke, ↓reduceIte]; inv0_o hi, t, hp
          · simp only [reload, failPath, hke, ↓reduceIte]; inv0_o hi, t, hp
  | oInvoke t c h hk => have hp := hi.busy t (by rw [h]; simp); inv0_o hi, t, hp
  | oIncRef t c h hk => have hp := hi.busy t (by rw [h]; simp); inv0_o hi, t, hp
  | oSubmit t c h => have hp := hi.busy t (by rw [h]; simp); have := hi.le t; inv0_o hi, t, hp
  | oForward t c h hk => have hp := hi.busy t (by rw [h]; simp); inv0_o hi, t, hp
  | oEnter t c h hk => have hp := hi.busy t (by rw [h]; simp); have := hi.le t; inv0_o hi, t, hp
  | oWaited t c rest h ht hf => have hp := hi.busy t (by rw [h]; simp); inv0_o hi, t, hp
  | oGetc t c rest h ht hf => have hp := hi.busy t (by rw [h]; simp); inv0_o hi, t, hp
  | oGetRef t c rest h ht hf => have hp := hi.busy t (by rw [h]; simp); inv0_o hi, t, hp
  | oGot t n h => have hp := hi.busy t (by rw [h]; simp); inv0_o hi, t, hp
  | oRdLoad t op rest x h ht hop hr hx => inv0_o hi, t, hr
  | oReady t x h =>
      have hp := hi.busy t (by rw [h]; simp)
      by_cases hc : x = .result ∧ (s.obs t).todo.head? = some .readyTouch
      · simp only [doReady, readyNext_pos hc]; inv0_o hi, t, hp
      · simp only [doReady, readyNext_neg hc]; inv0_o hi, t, hp
  | oTouch t h => have hp := hi.busy t (by rw [h]; simp); inv0_o hi, t, hp
  | oCopy t rest h ht hr => inv0_o hi, t, hr
  | oDrop t rest h ht hr => have := hi.le t; inv0_o hi, t, hr

end Yaclib.Shared
