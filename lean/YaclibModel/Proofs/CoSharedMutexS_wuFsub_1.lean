import YaclibModel.Proofs.CoSharedMutex
namespace Yaclib.CoSharedMutex

set_option maxHeartbeats 4000000 in
theorem inv_wuFsub_1 {cfg : Cfg} {s : State} (hi : Inv cfg s) (c : Cid) (h : s.pc c = .uLocked) (hs : s.spin = .held c) (hb1 : s.cfg.fifo = true ∧ s.prio ≠ 0) :
    Inv cfg ((doWuFsub s c)) := by
  cases hi
  simp only [doWuFsub, branchOf, hb1, and_self, givesUp, Bool.false_eq_true, ↓reduceIte]
  sm_auto [List.count_le_length]

end Yaclib.CoSharedMutex
