import YaclibModel.Proofs.FiberSync
namespace Yaclib.FiberSync.Mx
open Yaclib.FiberSync

set_option maxHeartbeats 4000000 in
theorem inv_step_2 {k s l s'} (hi : Inv k s) (hs : Step s l s') (hg : grpOf l = 2) : Inv k s' := by
  cases hi
  cases hs with
  | tlfFast f hk h ho => mx_auto
  | tlfPark f t d j hk h ho ht => mx_auto
  | tlfRecheckAcq f req hk h ho => mx_auto
  | tlfRepark f req j hk h ho => mx_auto
  | tlfTimeout f t req dl hk h hd ht => mx_auto
  | _ => simp [grpOf] at hg

end Yaclib.FiberSync.Mx
