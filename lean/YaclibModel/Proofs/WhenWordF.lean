import YaclibModel.Proofs.WhenWord
namespace Yaclib.When

set_option maxHeartbeats 4000000 in
theorem invf_step {w s l s'} (hst : w.strat.usesFlag = true) (hC : InvC w s) (hi : InvF w s) (hs : Step w s l s') :
    InvF w s' := by
  have hu := Strat.usesFlag_cases hst
  have hword := hC.word
  cases hi
  cases hs with
  | regSet i okb hc hb hr hn =>
      have h1 := consumeStart_cases w.strat (w.inp i)
      have h2 := afterRetire_cases w.strat (w.inp i)
      have h0 := (hC.unreg i).mpr (by omega)
      cases okb <;> invw_auto
  | fire i hc hp =>
      have h1 := consumeStart_cases w.strat (w.inp i)
      have h2 := afterRetire_cases w.strat (w.inp i)
      invw_auto
  | retire i hc hp =>
      have h2 := afterRetire_cases w.strat (w.inp i)
      invw_auto
  | loadFlag i b hc hp hs hb =>
      have h3 := lose_cases w.strat
      cases b <;> invw_auto
  | xchgFlag i hc hp hs =>
      have h3 := lose_cases w.strat
      cases hf : s.flag <;> simp only [doXchgFlag, hf] <;> invw_auto
  | setOut i o hc hp => invw_auto
  | load3 i x hc hp hs hx => simp [hs, Strat.usesFlag] at hst
  | xchg3 i hc hp hs hv => simp [hs, Strat.usesFlag] at hst
  | cas3 i hc hp hs hv => simp [hs, Strat.usesFlag] at hst
  | loadLf i d hc hp hs hd => simp [hs, Strat.usesFlag] at hst
  | xchgLf i hc hp hs hv => simp [hs, Strat.usesFlag] at hst
  | fsubLf i hc hp hs hv => simp [hs, Strat.usesFlag] at hst
  | dec i store hc hp =>
      have h1 := dtorStart_cases w.strat s.pValid
      by_cases hc1 : s.count = 1
      · rcases h1 with h1 | h1 | h1 <;> simp only [doDec, hc1, h1.1, if_true] <;> invw_auto
      · simp only [doDec, hc1, if_false] <;> invw_auto
  | dtorRel i j hc hp =>
      cases hst' : w.strat with
      | allVec b =>
          cases b
          · by_cases hj : j + 1 < w.n <;> simp only [doDtorRel, hst', hj, if_true, if_false] <;> invw_auto
          · by_cases hv : s.pValid = true <;> by_cases hj : j + 1 < w.n <;> cases hok : ok (w.inp j) <;>
              simp only [doDtorRel, hst', hj, hv, hok, if_true, if_false] <;> invw_auto
      | _ => have := (hC.dtorRel i j hp).2.2; simp [hst', Strat.isAllVec] at this
  | dtorSet i o hc hp ho => invw_auto
  | dtorThrow i hc hp ho => invw_auto
  | crash i hc hp => invw_auto

theorem invf_reachable {w s} (hst : w.strat.usesFlag = true) (h : Reachable w s) : InvF w s := by
  induction h with
  | init => exact invf_init w
  | step hr hs ih => exact invf_step hst (invc_reachable hr) ih hs

end Yaclib.When
