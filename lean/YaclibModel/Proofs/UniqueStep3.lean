import YaclibModel.Proofs.Unique
namespace Yaclib.Unique

set_option maxHeartbeats 4000000 in
theorem inv_step_3 {w s l s'} (hi : Inv w s) (hs : Step s l s') (hg : grpOf l = 3) : Inv w s' := by
  cases hi
  cases hs with
  | cReadyLoad rest x h ht hx => inv_auto
  | cGetcLoad rest x h ht hx => inv_auto
  | cAttLoad op rest k x h ht hk hx =>
      have hb := head_bind_cons (rest := rest) hk
      rw [← ht] at hb
      by_cases hxe : x = .empty
      · simp only [doAttLoad, hxe, ↓reduceIte]; inv_auto
      · cases k <;> cases hop : decide (op = .fin .getMove) <;>
          simp only [doAttLoad, hxe, afterFail, hop, Bool.false_eq_true, ↓reduceIte] <;> inv_auto
  | _ => simp [grpOf] at hg

end Yaclib.Unique
