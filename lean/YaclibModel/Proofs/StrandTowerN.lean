/- C07, towers of strands (6): towers of any height over any contract-honouring base; every level is a reachable
   state of the single-strand model; quiescence of the tower is quiescence of every level. -/
import YaclibModel.Proofs.StrandTowerContract

namespace Yaclib.Strand

/-- n strands on top of each other over `base` (level 0 is the lowest strand) -/
def tower (base : Exec) : Nat → Exec
  | 0 => base
  | n + 1 => strandOver (tower base n)

/-- **a tower of strands of any height over a contract-honouring executor honours the contract** -/
theorem tower_satisfies_contract {base : Exec} (hb : ExecContract base) : ∀ n, ExecContract (tower base n)
  | 0 => hb
  | n + 1 => strand_refines_contract (tower_satisfies_contract hb n)

/-- the states of the strands of a tower, topmost first -/
def levels (base : Exec) : (n : Nat) → (tower base n).σ → List State
  | 0, _ => []
  | n + 1, s => (show PState (tower base n) from s).1 :: levels base n (show PState (tower base n) from s).2.1

/-- every level of a tower is in a reachable state of the single-strand model: all its theorems apply per level -/
theorem tower_levels_reachable {base : Exec} : ∀ (n : Nat) {s : (tower base n).σ} {p : Prot},
    (tower base n).Run s p → ∀ v ∈ levels base n s, Reachable ones v
  | 0, _, _, _, v, hv => by simp [levels] at hv
  | n + 1, s, p, hr, v, hv => by
      obtain ⟨hru, hrl, _⟩ := prod_inv (w := ones) (L := tower base n) hr.reach
      simp only [levels, List.mem_cons] at hv
      rcases hv with hv | hv
      · rw [hv]; exact hru
      · exact tower_levels_reachable n hrl v hv

/-- a level at which everything has been done -/
structure LevelDone (v : State) : Prop where
  idle : v.word = .mark
  subs : ∀ i, v.spc i = .idle
  acts : ∀ a, actTerminal (v.acts a)
  none_running : v.running = 0
  all_done : ∀ i k, k < v.sidx i → (⟨i, k⟩ : JobId) ∈ v.executed ∨ (⟨i, k⟩ : JobId) ∈ v.dropped

theorem levelDone_of {w v} (hr : Reachable w v) (hs : ∀ i, v.spc i = .idle) (ha : ∀ a, actTerminal (v.acts a)) :
    LevelDone v := by
  have hi := inv_reachable hr
  obtain ⟨hh, hw, hd⟩ := all_done_of_terminal hi hs ha
  refine ⟨hw, hs, ha, ?_, hd⟩
  rw [hi.tok.running_eq, curBusy, hh]; rfl

/-- **quiescence of a tower**: when the tower has nothing left to do and no client body is running, every level is
    idle and has Called or Dropped every job that was handed to it -/
theorem tower_levels_quiescent {base : Exec} (hb : ExecContract base) : ∀ (n : Nat) {s : (tower base n).σ} {p : Prot},
    (tower base n).Run s p → (tower base n).Quiet s → (∀ a, p a ≠ .calling) → ∀ v ∈ levels base n s, LevelDone v
  | 0, _, _, _, _, _, v, hv => by simp [levels] at hv
  | n + 1, s, p, hr, hq, hnc, v, hv => by
      have hp := run_abs (L := tower base n) hr
      obtain ⟨hru, hrl, _⟩ := prod_inv (w := ones) (L := tower base n) hr.reach
      have hbz := no_busy_of_not_calling hru (fun a => by rw [← hp]; exact hnc a)
      obtain ⟨hLq, hLc, hs, ha⟩ := quiet_down (w := ones) (tower_satisfies_contract hb n) hr.reach hq hbz
      simp only [levels, List.mem_cons] at hv
      rcases hv with hv | hv
      · rw [hv]; exact levelDone_of hru hs ha
      · exact tower_levels_quiescent hb n hrl hLq hLc v hv

/-- a closed system: clients with an arbitrary workload `w` (program-ordered job lists) on top of a tower -/
def towerTop (w : Workload) (base : Exec) (n : Nat) : Exec := strandExec w (tower base n)

theorem top_levels_reachable {w : Workload} {base : Exec} {n : Nat} {s : (towerTop w base n).σ}
    (hr : (towerTop w base n).Reach s) :
    Reachable w s.1 ∧ ∀ v ∈ levels base n s.2.1, Reachable ones v := by
  obtain ⟨hru, hrl, _⟩ := prod_inv (w := w) (L := tower base n) hr
  exact ⟨hru, tower_levels_reachable n hrl⟩

/-- **nothing is lost in a tower**: if no thread of the whole system (clients, strands of every level, base
    executor) can take a step, then every client has returned from its last Submit, every job of the workload has
    been Called or Dropped by the top strand, and every level is idle with all its jobs done -/
theorem top_quiescent {w : Workload} {base : Exec} (hb : ExecContract base) {n : Nat} {s : (towerTop w base n).σ}
    (hr : (towerTop w base n).Reach s) (hq : ∀ l s', ¬ (towerTop w base n).step s l s') :
    LevelDone s.1 ∧ (∀ i, s.1.sidx i = jobsOf w i) ∧ ∀ v ∈ levels base n s.2.1, LevelDone v := by
  obtain ⟨u, x, pl⟩ := s
  obtain ⟨hru, hrl, _⟩ := prod_inv (w := w) (L := tower base n) hr
  simp only at hru hrl ⊢
  have hQ : (towerTop w base n).Quiet (u, x, pl) := fun l s' hs => (hq l s' hs).elim
  have hbz : ∀ b, isBusy (u.acts b) = false := by
    intro b
    cases hp : u.acts b with
    | busy j rem => exact (hq _ _ (PStep.up (.aEnd u b j rem hp) rfl)).elim
    | _ => rfl
  obtain ⟨hLq, hLc, hs, ha⟩ := quiet_down (w := w) (tower_satisfies_contract hb n) hr hQ hbz
  simp only at hLq hLc hs ha
  refine ⟨levelDone_of hru hs ha, fun i => ?_, tower_levels_quiescent hb n hrl hLq hLc⟩
  have hi := (inv_reachable hru).tok
  have hle := hi.sidx_le i
  apply Classical.byContradiction
  intro hne
  have hlt : u.sidx i < jobsOf u.w i := by rw [hi.hw]; omega
  exact hq _ _ (PStep.up (.sLoad u i u.word.head (hs i) hlt (Or.inl rfl)) rfl)

/-! helpers for concrete runs -/

/-- a step of the single-strand model taken through the executable `next` -/
theorem viaNext {s : State} (l : Label) {s' : State} (h : next s l = some s') : Step s l s' := next_sound h

theorem specBase_step (p : Prot) (e : XEv) (h : specPre p e) : specBase.step p e (specPost p e) := ⟨h, rfl⟩

end Yaclib.Strand
