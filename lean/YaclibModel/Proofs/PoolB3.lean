import YaclibModel.Proofs.Pool
namespace Yaclib.Pool
open Yaclib.Extracted.PoolConsts

set_option maxHeartbeats 2000000 in
theorem invB_step_3 {w s l s'} (ha : InvA w s) (hi : InvB w s) (hs : Step s l s') (hg : grpOf l = 3) : InvB w s' := by
  have hsk := ha.stolen_kind
  have hxp := ha.x_pre
  have hxd := ha.x_drop
  cases hs with
  | xBegin k h hk => cases hi; invB_close
  | xLock h hl => cases hi; invB_close
  | xStop h hk => cases hi; invB_close
  | xSoftNow h hk hn => cases hi; invB_close
  | xSoftWant h hk hn => cases hi; invB_close
  | xHard h hk => cases hi; invB_close
  | xNotifyAll h => cases hi; invB_close
  | xDrop j rest h => cases hi; invB_close
  | waitRet h hr => cases hi; invB_close
  | _ => simp [grpOf] at hg

end Yaclib.Pool
