import YaclibModel.Proofs.Shared
namespace Yaclib.Shared

set_option maxHeartbeats 4000000 in
theorem invA_step_0 {w s l s'} (hi : InvA w s) (hs : Step s l s') (hg : grpOf l = 0) : InvA w s' := by
  cases hi
  cases hs with
  | fXchg l h hw => invA_auto
  | fDec1 c h => invA_auto
  | fTargetDec c rest d h hk => invA_auto
  | fDec k h => invA_auto
  | fInvoke c rest d h hk hf => invA_auto
  | fSet c rest d h hk hf => invA_auto
  | fIncRef c rest d h hk hf => invA_auto
  | fSubmit c rest d h => invA_auto
  | _ => simp [grpOf] at hg

end Yaclib.Shared
