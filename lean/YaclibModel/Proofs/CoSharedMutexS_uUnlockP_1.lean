import YaclibModel.Proofs.CoSharedMutex
namespace Yaclib.CoSharedMutex

set_option maxHeartbeats 4000000 in
theorem inv_uUnlockP_1 {cfg : Cfg} {s : State} (hi : Inv cfg s) (c : Cid) (b : Branch) (h : s.pc c = .uUnl b) (hs : s.spin = .held c) (hb : needsWriter b = false) (sr : Nat) (hbr : b = .readersPass sr) :
    Inv cfg ((doUUnlock s c b 0 [])) := by
  subst hbr
  have hpa := hi.pend_amt c sr (Or.inl h)
  cases hi
  simp only [doUUnlock]
  sm_auto [List.count_le_length]

end Yaclib.CoSharedMutex
