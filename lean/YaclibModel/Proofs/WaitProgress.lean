/- Progress for the C11 model: a state in which only spurious wake-ups are possible is a state in which every thread has
   finished and every consumed result has been delivered — in particular the waiter is never stuck (no lost wake-up):
   if every producer has finished, the sleeping waiter finds the flag set. -/
import YaclibModel.Proofs.WaitInv

namespace Yaclib.Wait
variable {w : Workload} {s : State}

/-- a wake-up of the sleeping waiter while the flag is not set: it goes back to sleep (condition variables may do that) -/
def Spur (s : State) (l : Label) : Prop := l = .lock .w ∧ (∃ f, s.wpc = .asleep f) ∧ s.ready = false

/-- every wait call names futures that exist -/
def Workload.wf (w : Workload) : Prop := ∀ c, c ∈ w.calls → c.hi ≤ w.n

structure Done (s : State) : Prop where
  wpc : s.wpc = .idle
  calls : s.calls = []
  fi : s.fi = s.w.n
  prod : ∀ i, i < s.w.n → (s.fut i).ppc = .done
  del : ∀ i, i < s.w.n → s.w.fin i ≠ .none → (s.fut i).ndel = 1

theorem cntG_exists {f : Nat → Fut} {a : G} {m : Nat} (h : 1 ≤ cntG f a m) : ∃ j, j < m ∧ (f j).g = a := by
  induction m with
  | zero => simp [cntG] at h
  | succ m ih =>
      by_cases hm : (f m).g = a
      · exact ⟨m, by omega, hm⟩
      · simp only [cntG, hm, ↓reduceIte, Nat.add_zero] at h
        obtain ⟨j, hj, hg⟩ := ih h
        exact ⟨j, by omega, hg⟩

section
set_option linter.unusedSectionVars false
variable (hi : Inv w s) (hq : ∀ l s', Step s l s' → Spur s l)
include hi hq

theorem q_unlock_w {s'} : ¬ Step s (.unlock .w) s' := fun h => by cases (hq _ _ h).1
theorem q_unlock_p {i s'} : ¬ Step s (.unlock (.p i)) s' := fun h => by cases (hq _ _ h).1
theorem q_lock_p {i s'} : ¬ Step s (.lock (.p i)) s' := fun h => by cases (hq _ _ h).1
theorem q_wLoad {i x s'} : ¬ Step s (.wLoad i x) s' := fun h => by cases (hq _ _ h).1
theorem q_wCas {i b s'} : ¬ Step s (.wCas i b) s' := fun h => by cases (hq _ _ h).1
theorem q_wSub {a o s'} : ¬ Step s (.wSub a o) s' := fun h => by cases (hq _ _ h).1

theorem q_holder : s.holder = none := by
  cases hh : s.holder with
  | none => rfl
  | some t =>
      exfalso
      cases t with
      | p j => exact q_unlock_p hi hq (Step.pUnlock s j ((hi.holder_p j).mp hh))
      | w =>
          have hh' := hi.holder_w.mp hh
          cases hp : s.wpc <;> simp [hp, WPc.holds] at hh'
          case held f => exact q_unlock_w hi hq (Step.wSleep s f hp)
          case rst i => exact q_wLoad hi hq (Step.wRstLoad s i _ hp (Or.inl rfl))
          case rstCas i x =>
            by_cases hw : (s.fut i).word = x
            · exact q_wCas hi hq (Step.wRstCasOk s i x hp hw)
            · exact q_wCas hi hq (Step.wRstCasFail s i x hp hw)
          case sub2 => exact q_wSub hi hq (Step.wSub2 s hp)
          case unlockRet b => exact q_unlock_w hi hq (Step.wUnlockRet s b hp)

theorem q_prod (i : Nat) (hlt : i < s.w.n) : (s.fut i).ppc = .done := by
  have hm := q_holder hi hq
  cases hp : (s.fut i).ppc with
  | done => rfl
  | start =>
      have hw := (hi.start_iff i).mp hp
      have := hq _ _ (Step.pXchg s i hlt hp hw); cases this.1
  | took => have := hq _ _ (Step.pSub s i hp); cases this.1
  | setting => exact absurd (Step.pLock s i hp hm) (q_lock_p hi hq)
  | locked => exact absurd (Step.pUnlock s i hp) (q_unlock_p hi hq)
  | fire => have := hq _ _ (Step.pInvoke s i hp); cases this.1

/-- no lost wake-up: when every producer has finished, a sleeping waiter finds the flag set -/
theorem asleep_ready (hwf : w.wf) (f : Bool) (hp : s.wpc = .asleep f) : s.ready = true := by
  have hal : s.alive = true := hi.alive_iff.mpr (by simp [hp, WPc.inCall])
  have hn : s.hi ≤ s.w.n := hi.hi_le hwf hal
  have hdone : ∀ j, (s.fut j).g ≠ .out → (s.fut j).ppc = .done := fun j hg =>
    q_prod hi hq j (by have := hi.lt_hi hal hg; omega)
  have h1 : Ninn s = 0 := by
    apply cntG_zero_of
    intro j _ hg
    have := hdone j (by simp [hg])
    have h2 := (hi.start_iff j).mpr (by rw [hi.g_inn hal j hg]; simp)
    rw [this] at h2; cases h2
  have h2 : Ntaken s = 0 := by
    apply cntG_zero_of
    intro j _ hg
    have := hdone j (by simp [hg])
    rw [hi.g_taken hal j hg] at this; cases this
  have hwc := hi.c_wc hal
  have hrc := hi.c_rc hal
  have hpost := hi.post_inv (by simp [hp, WPc.postReg])
  have hrc0 : s.sub2done = false → s.rc = 0 := by
    intro h2d
    cases f with
    | false => exact (hi.pre_to (by simp [hp, WPc.preTimeout])).1
    | true => exact hi.final_rc (Or.inr hp) h2d
  by_cases hone : s.hi - s.lo = 1
  · have h2d : s.sub2done = false := by
      cases h : s.sub2done with
      | false => rfl
      | true => exact absurd hone (hi.sub2done_inv hal h).2
    have := hrc0 h2d
    have hpos : 1 ≤ Ndecd s := by simp only [Ninn, Ntaken, Ndecd, Nback] at *; omega
    obtain ⟨j, hj, hg⟩ := cntG_exists hpos
    have hs := hi.one_set hal hone j hg
    exact hi.set_done hal j hs (hdone j (by simp [hg]))
  · have hs1 : s.sub1done = true := by
      rcases hi.later_inv (by simp [hp, WPc.postReg]) (by simp [hp]) with h | h
      · exact absurd h hone
      · exact h
    have hcnt := hi.c_cnt hal hone
    have hc0 : s.counter = 0 := by
      simp only [hs1, ↓reduceIte, Ninn, Ntaken, Ndecd, Nback] at *
      cases h2d : s.sub2done with
      | true => simp only [h2d, ↓reduceIte] at hcnt; omega
      | false => have := hrc0 h2d; simp only [h2d, Bool.false_eq_true, ↓reduceIte] at hcnt; omega
    rcases hi.cnt0 hal hone hc0 with h | h
    · cases hs : s.setter with
      | none => exact absurd hs h
      | some j =>
          have hg := hi.set_g hal j hs
          exact hi.set_done hal j hs (hdone j (by simp [hg]))
    · rw [hp] at h; cases h

theorem q_waiter (hwf : w.wf) : s.wpc = .idle ∧ s.calls = [] ∧ s.fi = s.w.n := by
  have hm := q_holder hi hq
  cases hp : s.wpc with
  | idle =>
      refine ⟨rfl, ?_⟩
      cases hc : s.calls with
      | cons c rest => have := hq _ _ (Step.wCall s c rest hp hc); cases this.1
      | nil =>
          refine ⟨rfl, ?_⟩
          by_cases hlt : s.fi < s.w.n
          · have := hq _ _ (Step.wFin s hp hc hlt); cases this.1
          · have := hi.fi_le; omega
  | reg i => exact absurd (Step.wRegLoad s i _ hp (Or.inl rfl)) (q_wLoad hi hq)
  | regCas i =>
      by_cases hw : (s.fut i).word = .empty
      · exact absurd (Step.wRegCasOk s i hp hw) (q_wCas hi hq)
      · exact absurd (Step.wRegCasFail s i hp hw) (q_wCas hi hq)
  | sub1 => exact absurd (Step.wSub1 s hp) (q_wSub hi hq)
  | lock1 =>
      have := hq _ _ (Step.wLock1 s hp hm)
      obtain ⟨_, ⟨f, hf⟩, _⟩ := this; rw [hp] at hf; cases hf
  | held f => exact absurd (Step.wSleep s f hp) (q_unlock_w hi hq)
  | asleep f =>
      have := hq _ _ (Step.wWake s f hp hm)
      have hr := asleep_ready hi hq hwf f hp
      rw [this.2.2] at hr; cases hr
  | timedOut =>
      have := hq _ _ (Step.wLockT s hp hm)
      obtain ⟨_, ⟨f, hf⟩, _⟩ := this; rw [hp] at hf; cases hf
  | rst i => exact absurd (Step.wRstLoad s i _ hp (Or.inl rfl)) (q_wLoad hi hq)
  | rstCas i x =>
      by_cases hw : (s.fut i).word = x
      · exact absurd (Step.wRstCasOk s i x hp hw) (q_wCas hi hq)
      · exact absurd (Step.wRstCasFail s i x hp hw) (q_wCas hi hq)
  | sub2 => exact absurd (Step.wSub2 s hp) (q_wSub hi hq)
  | unlockRet b => exact absurd (Step.wUnlockRet s b hp) (q_unlock_w hi hq)
  | retn b => have := hq _ _ (Step.wRet s b hp); cases this.1
  | att i => exact absurd (Step.wAttLoad s i _ hp (Or.inl rfl)) (q_wLoad hi hq)
  | attCas i =>
      by_cases hw : (s.fut i).word = .empty
      · exact absurd (Step.wAttCasOk s i hp hw) (q_wCas hi hq)
      · exact absurd (Step.wAttCasFail s i hp hw) (q_wCas hi hq)
  | attFail i => have := hq _ _ (Step.wInvoke s i hp (hi.attfail i hp)); cases this.1
  | gotRep i =>
      have hg := hi.got_inv i hp
      have hig := hi.inget hg.2.2.2.2 (Or.inr ⟨i, hp⟩)
      have hr := hi.ret_true (Or.inr (Or.inr ⟨i, hp⟩)) i (by omega) (by omega)
      have := hq _ _ (Step.wGot s i hp hr); cases this.1

end

/-- quiescence: if nothing but spurious wake-ups is possible, everything has finished and every consumed future has
    delivered exactly once -/
theorem quiescent_done (hi : Inv w s) (hwf : w.wf) (hq : ∀ l s', Step s l s' → Spur s l) : Done s := by
  have hw := q_waiter hi hq hwf
  have hp := q_prod hi hq
  refine ⟨hw.1, hw.2.1, hw.2.2, hp, ?_⟩
  intro i hlt hfin
  have hd := hi.del_some i (by omega) hfin
  have hpi := hp i hlt
  have hres : (s.fut i).word = .result := by
    cases hwd : (s.fut i).word with
    | result => rfl
    | _ => have := (hi.start_iff i).mpr (by simp [hwd]); rw [hpi] at this; cases this
  simp [hres, hpi] at hd
  exact hd

end Yaclib.Wait
