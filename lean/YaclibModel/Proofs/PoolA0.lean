import YaclibModel.Proofs.Pool
namespace Yaclib.Pool
open Yaclib.Extracted.PoolConsts

set_option maxHeartbeats 2000000 in
theorem invA_step_0 {w s l s'} (hi : InvA w s) (hs : Step s l s') (hg : grpOf l = 0) : InvA w s' := by
  cases hs with
  | sBegin i sb h hpc hk => sfacts h; cases hi; invA_close
  | sLock i sb h hpc hl => sfacts h; cases hi; invA_close
  | sAccept i sb h hpc hw => sfacts h; cases hi; invA_close
  | sReject i sb h hpc hw => sfacts h; cases hi; invA_close
  | sDrop i sb h hpc => sfacts h; cases hi; invA_close
  | sNotifyNone i sb h hpc hn => sfacts h; cases hi; invA_close
  | sNotifyOne i sb v h hpc hv => sfacts h; wfacts hv; cases hi; invA_close
  | _ => simp [grpOf] at hg

end Yaclib.Pool
