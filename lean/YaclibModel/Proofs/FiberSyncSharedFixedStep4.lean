import YaclibModel.Proofs.FiberSyncSharedFixed
namespace Yaclib.FiberSync.Sm
open Yaclib.FiberSync

set_option maxHeartbeats 4000000 in
theorem invF_step_4 {k s l s'} (hi : InvF k s) (hs : Step s l s') (hg : grpF l = 4) : InvF k s' := by
  cases hs with
  | txFastF f hk hfx h ho => cases hi; smf_auto
  | txPark f t d j hk h ho ht => cases hi; smf_auto
  | txRecheckAcq f req hk h ho => cases hi; smf_auto
  | txRepark f req j hk h ho => cases hi; smf_auto
  | txTimeout f t req dl hk h hd ht => cases hi; smf_auto
  | txWokenAcq f hk h => have := hi.no_old f; rw [h] at this; simp [Pc.oldWoken] at this
  | txFast f hk hfx h ho => have h1 := hi.hfx; rw [hfx] at h1; cases h1
  | _ => simp [grpF] at hg

end Yaclib.FiberSync.Sm
