/- C07, towers of strands (4): every step of a strand (open workload) is, at its client interface, a step the
   `IExecutor` protocol allows. -/
import YaclibModel.Proofs.StrandTowerAbs

namespace Yaclib.Strand

def postOpt (p : Prot) : Option XEv → Prot
  | none => p
  | some e => specPost p e

macro "abs_simp" : tactic =>
  `(tactic| simp only [postOpt, upEv, specPost, specPre, absP, curJob, doLoad, doCasOk, doBegin, doEnd, doALoad, doACasOk,
      doACasFail, doDrop, doSched, doResub, upd, XEv.isInput] at *)

/-- steps of the strand that are not events of the executor below: the protocol state towards the clients moves
    exactly as the event says, and an output (Call / Drop) happens only to a pending job -/
theorem abs_up {u l u'} (hi : Inv ones u) (hx : InvX u) (hs : Step u l u') (hn : syncEv u l = none) :
    absP u' = postOpt (absP u) (upEv l) ∧ (∀ e, upEv l = some e → e.isInput = false → specPre (absP u) e) := by
  cases hs with
  | sLoad i v h hj hv =>
      have h0 : u.sidx i = 0 := by rw [hi.tok.hw, jobsOf_ones] at hj; omega
      have h1 : (⟨i, 0⟩ : JobId) ∉ u.executed := fun he => by
        have := (pushed_ones hi (exec_pushed hi he)).2; simp at this; omega
      have h2 : (⟨i, 0⟩ : JobId) ∉ u.dropped := fun he => by
        have := (pushed_ones hi (drop_pushed hi he)).2; simp at this; omega
      have h3 : jobOf u.acts u.holder ≠ some ⟨i, 0⟩ := fun hc => h1 (curJob_exec hx hc)
      refine ⟨?_, fun e he hi' => by simp [upEv] at he; subst he; simp [XEv.isInput] at hi'⟩
      funext a; abs_simp; grind
  | sCasOk i exp h he =>
      have hj : jobOf u.acts (if exp = .mark then some (.sub i) else u.holder) = jobOf u.acts u.holder := by
        by_cases hm : exp = .mark
        · subst hm
          have hwm : u.word = .mark := Word.head_eq_mark.mp he.symm
          rw [hi.tok.tok_none.mpr hwm]; simp [jobOf]
        · simp [hm]
      refine ⟨?_, fun e he' => by simp [upEv] at he'⟩
      funext a; abs_simp; grind
  | sCasFail i exp v h hne hv =>
      refine ⟨?_, fun e he' => by simp [upEv] at he'⟩
      funext a; abs_simp; grind
  | sCasSpur i exp h => exact ⟨rfl, fun e he' => by simp [upEv] at he'⟩
  | sSched i h => simp [syncEv] at hn
  | aCall a h => simp [syncEv] at hn
  | aResub a h => simp [syncEv] at hn
  | aDropX a h => simp [syncEv] at hn
  | aBegin b j rem h =>
      obtain ⟨h1, h2, h3, h4, hh⟩ := begin_pre hi h
      have hc : jobOf u.acts u.holder = none := by rw [hh]; simp [jobOf, h, busyJob]
      have hc' : jobOf (upd u.acts b (.busy j rem)) u.holder = some j := by rw [hh]; simp [jobOf, upd, busyJob]
      refine ⟨?_, fun e he hi' => ?_⟩
      · funext a; abs_simp; grind
      · simp only [upEv, Option.some.injEq] at he; subst he
        abs_simp; grind
  | aEnd b j rem h =>
      have hh := (hi.tok.tok_act b).mp (by rw [h]; rfl)
      have he := hx.busy_exec b j rem h
      obtain ⟨h1, h2⟩ := pushed_ones hi (exec_pushed hi he)
      have hc : jobOf u.acts u.holder = some j := by rw [hh]; simp [jobOf, h, busyJob]
      have hc' : jobOf (upd u.acts b (.run rem)) u.holder = none := by rw [hh]; simp [jobOf, upd, busyJob]
      refine ⟨?_, fun e he hi' => by simp [upEv] at he; subst he; simp [XEv.isInput] at hi'⟩
      funext a; abs_simp; grind
  | aLoad b sn h hv =>
      have hh := (hi.tok.tok_act b).mp (by rw [h]; rfl)
      have hc : jobOf u.acts u.holder = none := by rw [hh]; simp [jobOf, h, busyJob]
      have hc' : jobOf (upd u.acts b (if sn = true then .cas else .resub)) u.holder = none := by
        rw [hh]; cases sn <;> simp [jobOf, upd, busyJob]
      refine ⟨?_, fun e he' => by simp [upEv] at he'⟩
      funext a; abs_simp; grind
  | aCasOk b h hw =>
      have hh := (hi.tok.tok_act b).mp (by rw [h]; rfl)
      have hc : jobOf u.acts u.holder = none := by rw [hh]; simp [jobOf, h, busyJob]
      refine ⟨?_, fun e he' => by simp [upEv] at he'⟩
      funext a; abs_simp; grind [jobOf]
  | aCasFail b h hw =>
      have hh := (hi.tok.tok_act b).mp (by rw [h]; rfl)
      have hc : jobOf u.acts u.holder = none := by rw [hh]; simp [jobOf, h, busyJob]
      have hc' : jobOf (upd u.acts b .resub) u.holder = none := by rw [hh]; simp [jobOf, upd, busyJob]
      refine ⟨?_, fun e he' => by simp [upEv] at he'⟩
      funext a; abs_simp; grind
  | aDrop b j rem h =>
      obtain ⟨h1, h2, h3, h4, h5, hh⟩ := drop_pre hi hx h
      have hc' : ∀ v, jobOf (upd u.acts b v) u.holder = jobOf u.acts u.holder := fun v => jobOf_upd_other hh
      refine ⟨?_, fun e he hi' => ?_⟩
      · funext a; abs_simp; grind
      · simp only [upEv, Option.some.injEq] at he; subst he
        abs_simp; grind

/-- steps of the strand that are events of the executor below are invisible to the clients -/
theorem abs_sync {u l u' e} (hi : Inv ones u) (hx : InvX u) (hs : Step u l u') (he : syncEv u l = some e) :
    absP u' = absP u := by
  cases hs with
  | sSched i h =>
      have hh := (hi.tok.tok_sub i).mp h
      have h0 := hx.sched_pushed i h
      have hc : jobOf u.acts u.holder = none := by rw [hh]; simp [jobOf]
      have hc' : jobOf (upd u.acts u.nacts .queued) (some (.act u.nacts)) = none := by simp [jobOf, upd, busyJob]
      funext a; abs_simp; grind
  | aResub b h =>
      have hh := (hi.tok.tok_act b).mp (by rw [h]; rfl)
      have hc : jobOf u.acts u.holder = none := by rw [hh]; simp [jobOf, h, busyJob]
      have hc' : jobOf (upd (upd u.acts b .done) u.nacts .queued) (some (.act u.nacts)) = none := by
        simp [jobOf, upd, busyJob]
      funext a; abs_simp; grind
  | aCall b h =>
      have hh := (hi.tok.tok_act b).mp (by rw [h]; rfl)
      have hc : jobOf u.acts u.holder = none := by rw [hh]; simp [jobOf, h, busyJob]
      obtain ⟨j, js, hwd⟩ := word_nonempty_cases (hi.tok.tok_act_word b (by rw [h]; rfl))
      have hc' : jobOf (upd u.acts b (.run (j :: js).reverse)) u.holder = none := by rw [hh]; simp [jobOf, upd, busyJob]
      funext a; simp only [absP, curJob, doCall, hwd]; grind
  | aDropX b h =>
      have hh := (hi.tok.tok_act b).mp (by rw [h]; rfl)
      have hc : jobOf u.acts u.holder = none := by rw [hh]; simp [jobOf, h, busyJob]
      obtain ⟨j, js, hwd⟩ := word_nonempty_cases (hi.tok.tok_act_word b (by rw [h]; rfl))
      funext a; simp only [absP, curJob, doDropX, hwd]; grind [jobOf]
  | sLoad i v h hj hv => simp [syncEv] at he
  | sCasOk i exp h he' => simp [syncEv] at he
  | sCasFail i exp v h hne hv => simp [syncEv] at he
  | sCasSpur i exp h => simp [syncEv] at he
  | aBegin a j rem h => simp [syncEv] at he
  | aEnd a j rem h => simp [syncEv] at he
  | aLoad a b h hv => simp [syncEv] at he
  | aCasOk a h hw => simp [syncEv] at he
  | aCasFail a h hw => simp [syncEv] at he
  | aDrop a j rem h => simp [syncEv] at he

end Yaclib.Strand
