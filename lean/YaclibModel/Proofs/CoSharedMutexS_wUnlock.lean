import YaclibModel.Proofs.CoSharedMutex
namespace Yaclib.CoSharedMutex

set_option maxHeartbeats 4000000 in
theorem inv_wUnlock {cfg : Cfg} {s : State} (hi : Inv cfg s) (c : Cid) (k : WUnl) (h : s.pc c = .wUnl k) (hs : s.spin = .held c) :
    Inv cfg ((doWUnlock s c k)) := by
  cases hi
  cases k
  · simp only [doWUnlock]; sm_auto [List.count_le_length]
  · by_cases hc : (s.cfg.fifo = true ∧ s.Q = [])
    · simp only [doWUnlock, hc, and_self, ↓reduceIte]; sm_auto [List.count_le_length]
    · simp only [doWUnlock, hc, ↓reduceIte]; sm_auto [List.count_le_length]

end Yaclib.CoSharedMutex
