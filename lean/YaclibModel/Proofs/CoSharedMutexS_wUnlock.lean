import YaclibModel.Proofs.CoSharedMutexS_wUnlock_1
import YaclibModel.Proofs.CoSharedMutexS_wUnlock_2
import YaclibModel.Proofs.CoSharedMutexS_wUnlock_3
namespace Yaclib.CoSharedMutex

theorem inv_wUnlock {cfg : Cfg} {s : State} (hi : Inv cfg s) (c : Cid) (k : WUnl) (h : s.pc c = .wUnl k) (hs : s.spin = .held c) :
    Inv cfg ((doWUnlock s c k)) := by
  have hkd : k = .acq ∨ k = .enq := by cases k <;> simp
  rcases hkd with hk | hk
  · exact inv_wUnlock_1 hi c k h hs hk
  · by_cases hc : (s.cfg.fifo = true ∧ s.Q = [])
    · exact inv_wUnlock_2 hi c k h hs hk hc
    · exact inv_wUnlock_3 hi c k h hs hk hc

end Yaclib.CoSharedMutex
