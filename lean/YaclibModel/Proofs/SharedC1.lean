import YaclibModel.Proofs.SharedC
namespace Yaclib.Shared

set_option maxHeartbeats 4000000 in
theorem invC_step_1 {w s l s'} (ha : InvA w s) (hi : InvC s) (hs : Step s l s') (hg : grpOf l = 1) : InvC s' := by
  cases ha
  cases hi
  cases hs with
  | fRefLoad c rest d h hk hf => invC_auto
  | fForward c rest d n h hk hn => invC_auto
  | fForwardPost c rest d h hk => invC_auto
  | fEnter c rest d h hk hf => invC_auto
  | rRefLoad c h => invC_auto
  | rRetire c n h => invC_auto
  | jInvoke c h => invC_auto
  | jDec c h => invC_auto
  | _ => simp [grpOf] at hg

end Yaclib.Shared
