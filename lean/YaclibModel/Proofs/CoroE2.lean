/- preservation of InvE: the steps that touch the stored executor, register / run callbacks, or resume -/
import YaclibModel.Proofs.CoroE
namespace Yaclib.Coro

theorem wft_lazy {w : Workload} {s : State} {op : Op} {rest : List Op} {j : Nat} (hwt : w.WFT) (ha : InvA w s)
    (ht : s.todo = op :: rest) (hj : j ∈ op.cells) : (op.kind = .task ↔ (w.cell j).lazy = true) := by
  rcases ha.todo_eq with h | h
  · apply hwt op _ j hj
    have : op ∈ w.prog.drop s.k := by rw [← h, ht]; simp
    exact List.mem_of_mem_drop this
  · rw [h.2] at ht; cases ht

set_option maxHeartbeats 16000000 in
theorem invE_step_2 {w s l s'} (hwt : w.WFT) (hi : Inv w s) (he : InvE w s) (hs : Step s l s')
    (hl : match l with | .envSwap _ _ | .start | .cas _ _ | .tstore | .fire _ _ | .resume _ _ => True | _ => False) :
    InvE w s' := by
  have ha := hi.a
  have hb := hi.b
  have hw := ha.hw
  cases hs with
  | envSwap j e hu =>
      have hnot : w.unsafeCell j = false → (w.cell j).lazy = false → False := by
        intro h1 h2; simp [swapAllowed, hw, h1, h2] at hu
      cases he
      constructor <;> (simp only [State.word, upd]) <;> (try simp only [State.word] at *) <;> grind
  | start op rest h ht =>
      cases he
      cases hk : op.kind <;> (try (rename_i o; cases o)) <;>
        (simp only [doStart, regFrom, afterReg, hk, isMulti, startExec, startCnt, selfDone]) <;>
        (repeat' split) <;>
        (constructor <;> (simp only [State.word]) <;> (try simp only [State.word] at *) <;> grind)
  | casOk op rest p j l f h ht hj hw' hu =>
      have hw2 : (s.cells j).word = .open l f := hw'
      cases he
      simp only [doCasOk, regFrom, afterReg]
      (repeat' split) <;>
        (constructor <;> (simp only [State.word, setWord_cells_word, upd_cexec_word, setWord_resumed]) <;>
          (try simp only [State.word] at *) <;> grind [Word.cbs, Word.isResult, selfDone_ne_wake_cell])
  | casRetry op rest p j h ht hj hw' hu => exact he
  | casFail op rest p j h ht hj hw' =>
      cases he
      simp only [regFail, regFrom, afterReg]
      (repeat' split) <;>
        (constructor <;> (simp only [State.word]) <;>
          (try simp only [State.word] at *) <;> grind [Word.cbs, Word.isResult, selfDone_ne_wake_cell])
  | tstore op rest j h ht hj =>
      have hpk := ha.pc_kind op rest ht
      rw [h] at hpk
      have hk : op.kind = .task := by simpa [pcKindOk] using hpk
      have hlazy : (w.cell j).lazy = true := (wft_lazy hwt ha ht (List.mem_iff_getElem?.mpr ⟨0, hj⟩)).mp hk
      cases he
      simp only [doTstore]
      constructor <;> (simp only [State.word, upd]) <;> (try simp only [State.word] at *) <;> grind
  | fire op rest j p walk ht hw' hp =>
      have hw2 : (s.cells j).word = .result walk := hw'
      have hne : (s.word j).cbs ≠ [] := by rw [hw']; exact List.ne_nil_of_mem hp
      have hne2 : (s.cells j).word.cbs ≠ [] := hne
      cases he
      simp only [doFire]
      (repeat' split) <;>
        (constructor <;> (simp only [State.word, setWord_cells_word, upd_cexec_word, setWord_resumed, setWord_pc]) <;>
          (try simp only [State.word] at *) <;> grind [Word.cbs, Word.isResult, cbDone_wake_cell])
  | resume op rest c h ht =>
      have hdec : decided s.pc = true := by rw [h]; rfl
      have hno := no_cbs_of_decided hb hdec
      have hcbs : ∀ j, (s.cells j).word.cbs = [] := fun j => List.eq_nil_iff_forall_not_mem.mpr (hno j)
      have hall : ∀ j, c = .cell j → (s.cells j).word.isResult = true := by
        intro j hc
        exact hb.all_res hdec op rest j ht (hb.wake_cell j (by rw [h, hc]) op rest ht)
      have hcex := he.cexec
      have hold : ∀ j, c = .cell j → w.unsafeCell j = false → (w.cell j).lazy = false →
          (s.cells j).cexec = (w.cell j).exec0 := by
        intro j hc h1 h2
        rcases hcex j h1 h2 with h3 | h3
        · exact h3
        · exact absurd (by rw [h, hc]) h3.2.2
      cases he
      simp only [doResume]
      constructor <;> (simp only [State.word, cellsAfter_word, cellsAfter_cexec]) <;>
        (try simp only [State.word] at *) <;> grind [execAfter]
  | _ => simp at hl

end Yaclib.Coro
