import YaclibModel.Proofs.CoSharedMutex
namespace Yaclib.CoSharedMutex

set_option maxHeartbeats 4000000 in
theorem inv_step_10 {cfg s l s'} (hi : Inv cfg s) (hs : Step s l s') (hg : grpOf l = 10) : Inv cfg s' := by
  cases hs with
  | rwStore c sw h hs =>
      cases hi
      sm_auto [List.count_le_length]
  | _ => simp [grpOf] at hg

end Yaclib.CoSharedMutex
