/- Output invariants of the combinator model: the output promise is set at most once, by the elected winner or by the
   destructor. -/
import YaclibModel.Proofs.WhenWordF
import YaclibModel.Proofs.WhenWordG
import YaclibModel.Proofs.WhenWordL

namespace Yaclib.When

/-- what the strategies' word invariants give to the output invariant: an RMW that elects a winner finds none elected -/
structure WinFree (w : Workload) (s : State) : Prop where
  f : w.strat.usesFlag = true → s.flag = false → s.win = none
  g : w.strat = .anyFF → s.st3 ≠ .value → s.win = none
  l : w.strat = .anyLF → ∀ i, s.pc i = .rmw → s.lf % 2 = 0 → s.win = none

structure InvO (w : Workload) (s : State) : Prop where
  pvalid : s.pValid = true ↔ s.outSet = []
  len : s.outSet.length ≤ 1
  win_pc : ∀ i o, s.pc i = .setOut o → s.win = some i ∧ s.pValid = true
  win_set : ∀ k, s.win = some k → isSetOut (s.pc k) = true ∨ s.pValid = false
  dtorset : ∀ i, s.pc i = .dtorSet → s.pValid = true
  dt_done_out : ∀ i, s.dt = some i → s.pc i = .done → s.pValid = false
  none_win : w.strat.noneKind = true → s.win = none
  /-- the promise was consumed either by an elected winner or by the destructor of the last consumption -/
  valid_or : s.pValid = false → s.win ≠ none ∨ (s.dt ≠ none ∧ ∀ i, s.dt = some i → s.pc i = .done)

theorem invo_init (w : Workload) : InvO w (init w) := by
  constructor <;> simp [init]

macro "invo_auto" : tactic =>
  `(tactic| (constructor <;> (try simp only [doRegSet, doFire, doRetire, doLoadFlag, doXchgFlag, doLoad3, doXchg3, doCas3, doLoadLf,
      doXchgLf, doFsubLf, doSetOut, doDec, doDtorRel, doDtorSet, setPc, finish] at *) <;>
      grind [= upd_apply, isSetOut, holding, inDtor]))

set_option maxHeartbeats 4000000 in
theorem invo_step {w s l s'} (hC : InvC w s) (hW : WinFree w s) (hi : InvO w s) (hs : Step w s l s') : InvO w s' := by
  have hdt_cnt := hC.dt_cnt
  have hdt_pc := hC.dt_pc
  have hdtor_dt := hC.dtor_dt
  have hdtor := hC.dtor
  have hidx := @InvC.idx w s hC
  have hpos := @InvC.count_pos w s hC
  have hnk := @Strat.noneKind_cases w.strat
  obtain ⟨wf, wg, wl⟩ := hW
  cases hi
  cases hs with
  | regSet i okb hc hb hr hn =>
      have h1 := consumeStart_cases w.strat (w.inp i)
      have h2 := afterRetire_cases w.strat (w.inp i)
      have h0 := (hC.unreg i).mpr (by omega)
      cases okb <;> invo_auto
  | fire i hc hp =>
      have h1 := consumeStart_cases w.strat (w.inp i)
      have h2 := afterRetire_cases w.strat (w.inp i)
      invo_auto
  | retire i hc hp =>
      have h2 := afterRetire_cases w.strat (w.inp i)
      invo_auto
  | loadFlag i b hc hp hs hb =>
      have h3 := lose_cases w.strat
      cases b <;> invo_auto
  | xchgFlag i hc hp hs =>
      have h3 := lose_cases w.strat
      cases hf : s.flag <;> simp only [doXchgFlag, hf] <;> invo_auto
  | setOut i o hc hp => invo_auto
  | load3 i x hc hp hs hx =>
      cases hv : ok (w.inp i) <;> cases x <;> simp only [doLoad3, hv] <;> invo_auto
  | xchg3 i hc hp hs hv =>
      by_cases hf : s.st3 = .value <;> simp only [doXchg3, hf] <;> invo_auto
  | cas3 i hc hp hs hv =>
      by_cases hf : s.st3 = .empty <;> simp only [doCas3, hf] <;> invo_auto
  | loadLf i d hc hp hs hd => cases d <;> invo_auto
  | xchgLf i hc hp hs hv =>
      by_cases hf : s.lf % 2 = 0 <;> simp only [doXchgLf, hf] <;> invo_auto
  | fsubLf i hc hp hs hv =>
      by_cases hf : s.lf = 2 <;> simp only [doFsubLf, hf] <;> invo_auto
  | dec i store hc hp =>
      have h1 := dtorStart_cases w.strat s.pValid
      by_cases hc1 : s.count = 1
      · rcases h1 with h1 | h1 | h1 <;> simp only [doDec, hc1, h1.1, if_true] <;> invo_auto
      · simp only [doDec, hc1, if_false] <;> invo_auto
  | dtorRel i j hc hp =>
      cases hst : w.strat with
      | allVec b =>
          cases b
          · have hnone : w.strat.noneKind = true := by rw [hst]; rfl
            by_cases hj : j + 1 < w.n <;> simp only [doDtorRel, hst, hj, if_true, if_false] <;> invo_auto
          · by_cases hv : s.pValid = true <;> by_cases hj : j + 1 < w.n <;> cases hok : ok (w.inp j) <;>
              simp only [doDtorRel, hst, hj, hv, hok, if_true, if_false] <;> invo_auto
      | _ => have := (hC.dtorRel i j hp).2.2; simp [hst, Strat.isAllVec] at this
  | dtorSet i o hc hp ho => invo_auto
  | dtorThrow i hc hp ho => invo_auto
  | crash i hc hp => invo_auto

end Yaclib.When
