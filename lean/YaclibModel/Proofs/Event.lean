/- Invariants of the C16 model (Model/Event.lean), part 1: futures (Ready is sound, consumed cores are released exactly as
   often as they were consumed) and "a release happens only after a decrement has reached zero". -/
import YaclibModel.Model.Event

namespace Yaclib.Event

theorem updT_same (f : Nat → Thr) (i : Nat) (x : Thr) : updT f i x i = x := by simp [updT]
theorem updT_other (f : Nat → Thr) (i j : Nat) (x : Thr) (h : j ≠ i) : updT f i x j = f j := by simp [updT, h]
theorem updF_same (f : Nat → Fut) (i : Nat) (x : Fut) : updF f i x i = x := by simp [updF]
theorem updF_other (f : Nat → Fut) (i j : Nat) (x : Fut) (h : j ≠ i) : updF f i x j = f j := by simp [updF, h]
theorem updJ_same (f : Nat → Job) (i : Nat) (x : Job) : updJ f i x i = x := by simp [updJ]
theorem updJ_other (f : Nat → Job) (i j : Nat) (x : Job) (h : j ≠ i) : updJ f i x j = f j := by simp [updJ, h]

attribute [grind =] updT_same updT_other updF_same updF_other updJ_same updJ_other

theorem markRunning_mem (job : Nat → Job) (l : List Nat) (j : Nat) (h : j ∈ l) :
    markRunning job l j = { job j with st := .running } := by simp [markRunning, h]
theorem markRunning_not_mem (job : Nat → Job) (l : List Nat) (j : Nat) (h : j ∉ l) : markRunning job l j = job j := by
  simp [markRunning, h]

attribute [grind =] markRunning_mem markRunning_not_mem

/-- thread is inside `SetImpl` -/
def Pc.setter : Pc → Bool
  | .xchgHead | .run _ _ | .runDec _ _ => true
  | _ => false

/-- the job whose owner-side wait operation the thread is executing -/
def Pc.owner : Pc → Option Nat
  | .tryL j | .tryC j _ | .resume j | .bLock j | .bHeld j | .bAsleep j | .bTimedOut j | .bUnlockRet j _ | .bDec j _ | .rep j _ => some j
  | _ => none

/-- the thread is about to report a release of job `j` (or is on the straight path to it) -/
def Pc.releasing : Pc → Bool
  | .resume _ | .bUnlockRet _ true | .bDec _ true | .rep _ true => true
  | _ => false

theorem headObs_done (h : Option (List Nat)) : headObs h .done ↔ h = none := by simp [headObs]
theorem headObs_cur (h : Option (List Nat)) (l : List Nat) : headObs h (.cur l) ↔ h = some l := by simp [headObs]
theorem expOf_done (h : Option (List Nat)) : expOf h = .done ↔ h = none := by cases h <;> simp [expOf]
theorem expOf_cur (h : Option (List Nat)) (l : List Nat) : expOf h = .cur l ↔ h = some l := by cases h <;> simp [expOf]
theorem expOf_ne_stale (h : Option (List Nat)) : expOf h ≠ .stale := by cases h <;> simp [expOf]

theorem Pc.releasing_rep (j : Nat) (b : Bool) : (Pc.rep j b).releasing = b := by cases b <;> rfl
theorem Pc.releasing_bUnlockRet (j : Nat) (b : Bool) : (Pc.bUnlockRet j b).releasing = b := by cases b <;> rfl
theorem Pc.releasing_bDec (j : Nat) (b : Bool) : (Pc.bDec j b).releasing = b := by cases b <;> rfl

attribute [grind =] headObs_done headObs_cur expOf_done expOf_cur Pc.releasing_rep Pc.releasing_bUnlockRet Pc.releasing_bDec
attribute [grind .] expOf_ne_stale

/-- futures: `Ready()` is sound, the accounting of consumed cores -/
structure InvA (s : State) : Prop where
  a_res : ∀ f, (s.fut f).word = .result ↔ (s.fut f).completed = true
  a_rdy : ∀ t f b c, (s.thr t).pc = .rdy f b c → b = true → c = true
  a_obs : ∀ x, x ∈ s.readyObs → x.2.1 = true → x.2.2 = true
  a_con : ∀ f, (s.fut f).nfree + (if (s.fut f).word = .drop then 1 else 0) = (s.fut f).ncon

/-- a release only after a decrement has reached zero -/
structure InvZ (s : State) : Prop where
  z_head : s.head = none → s.zeroed = true
  z_pc : ∀ t, (s.thr t).pc.setter = true → s.zeroed = true
  z_ready : ∀ j, (s.job j).ready = true → s.zeroed = true
  z_failed : ∀ j, (s.job j).st = .failed → s.zeroed = true
  z_rel : ∀ t, (s.thr t).pc.releasing = true → s.zeroed = true
  z_nz : s.zeroed = true ↔ 1 ≤ s.nzero

theorem invA_init (w : Workload) : InvA (init w) := by
  constructor <;> simp [init] <;> intro t <;> split <;> simp

theorem invZ_init (w : Workload) : InvZ (init w) := by
  constructor <;> simp [init] <;> intro t <;> split <;> simp [Pc.setter, Pc.releasing]

end Yaclib.Event
