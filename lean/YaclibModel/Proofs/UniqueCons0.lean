import YaclibModel.Proofs.UniqueConserve
namespace Yaclib.Unique

set_option maxHeartbeats 4000000 in
theorem inv2_step_0 {w s l s'} (hi : Inv w s) (h2 : Inv2 w s) (hs : Step s l s') (hg : grpOf l = 0) : Inv2 w s' := by
  cases hi
  cases h2
  cases hs with
  | pXchg h hw => inv2_auto
  | pInvoke r h hv hr => inv2_auto
  | pSubmit h hv => inv2_auto
  | pInvokeSub r h hr => inv2_auto
  | pForward r h hr => inv2_auto
  | pEvLock h hm => inv2_auto
  | pEvUnlock h => inv2_auto
  | _ => simp [grpOf] at hg

end Yaclib.Unique
