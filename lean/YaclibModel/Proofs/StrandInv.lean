/- C07 model: the three invariants hold in every reachable state. -/
import YaclibModel.Proofs.StrandTok0
import YaclibModel.Proofs.StrandTok1
import YaclibModel.Proofs.StrandOrd0
import YaclibModel.Proofs.StrandOrd1
import YaclibModel.Proofs.StrandDrop0
import YaclibModel.Proofs.StrandDrop1
namespace Yaclib.Strand

structure Inv (w : Workload) (s : State) : Prop where
  tok : InvTok w s
  ord : InvOrd w s
  drop : InvDrop w s

theorem inv_init (w : Workload) : Inv w (init w) := ⟨invTok_init w, invOrd_init w, invDrop_init w⟩

theorem actor_cases (l : Label) : (∃ i, l.actor = .sub i) ∨ (∃ a, l.actor = .act a) := by
  cases l <;> simp [Label.actor]

theorem inv_step {w s l s'} (hi : Inv w s) (hs : Step s l s') : Inv w s' := by
  refine ⟨?_, ?_, ?_⟩
  · rcases actor_cases l with h | h
    · exact invTok_step_s hi.tok hs h
    · exact invTok_step_a hi.tok hs h
  · rcases actor_cases l with h | h
    · exact invOrd_step_s hi.tok hi.ord hs h
    · exact invOrd_step_a hi.tok hi.ord hs h
  · cases l with
    | aCall a => exact invDrop_step_1 hi.tok hi.ord hi.drop hs (Or.inl ⟨a, rfl⟩)
    | aDropX a => exact invDrop_step_1 hi.tok hi.ord hi.drop hs (Or.inr (Or.inl ⟨a, rfl⟩))
    | aDrop a j => exact invDrop_step_1 hi.tok hi.ord hi.drop hs (Or.inr (Or.inr ⟨a, j, rfl⟩))
    | sLoad i v => exact invDrop_step_0 hi.tok hi.ord hi.drop hs (Or.inl ⟨i, rfl⟩)
    | sCasOk i => exact invDrop_step_0 hi.tok hi.ord hi.drop hs (Or.inl ⟨i, rfl⟩)
    | sCasFail i v => exact invDrop_step_0 hi.tok hi.ord hi.drop hs (Or.inl ⟨i, rfl⟩)
    | sCasSpur i => exact invDrop_step_0 hi.tok hi.ord hi.drop hs (Or.inl ⟨i, rfl⟩)
    | sSched i => exact invDrop_step_0 hi.tok hi.ord hi.drop hs (Or.inl ⟨i, rfl⟩)
    | aBegin a j => exact invDrop_step_0 hi.tok hi.ord hi.drop hs (Or.inr (Or.inl ⟨a, j, rfl⟩))
    | aEnd a j => exact invDrop_step_0 hi.tok hi.ord hi.drop hs (Or.inr (Or.inr (Or.inl ⟨a, j, rfl⟩)))
    | aLoad a b => exact invDrop_step_0 hi.tok hi.ord hi.drop hs (Or.inr (Or.inr (Or.inr (Or.inl ⟨a, b, rfl⟩))))
    | aCasOk a => exact invDrop_step_0 hi.tok hi.ord hi.drop hs (Or.inr (Or.inr (Or.inr (Or.inr (Or.inl ⟨a, rfl⟩)))))
    | aCasFail a =>
        exact invDrop_step_0 hi.tok hi.ord hi.drop hs (Or.inr (Or.inr (Or.inr (Or.inr (Or.inr (Or.inl ⟨a, rfl⟩))))))
    | aResub a =>
        exact invDrop_step_0 hi.tok hi.ord hi.drop hs (Or.inr (Or.inr (Or.inr (Or.inr (Or.inr (Or.inr ⟨a, rfl⟩))))))

theorem inv_reachable {w s} (h : Reachable w s) : Inv w s := by
  induction h with
  | init => exact inv_init w
  | step _ hs ih => exact inv_step ih hs

end Yaclib.Strand
