/- WhenM: simulation for packs mixing unique and shared inputs, from the per-kind lemmas of WhenU and WhenS. -/
import YaclibModel.Model.WhenComposeMixed
import YaclibModel.Proofs.WhenComposeSim
import YaclibModel.Proofs.WhenComposeSharedSim

namespace Yaclib.WhenM
open Yaclib

variable {W : Workload} {S : State}

theorem upd_eq {α : Type} (f : Nat → α) (i j : Nat) (x : α) : When.upd f i x j = if j = i then x else f j := rfl

/-- every instance (of either kind) is a run of its model; the ones of the other kind never move -/
theorem parts_reachable (h : Reachable W S) :
    ∀ i, (Unique.Reachable (WhenU.wU W.w i) (S.u i) ∧ WhenU.UOk (S.u i)) ∧
         (Shared.Reachable (WhenS.wS (wsOf W) i) (S.sh i) ∧ WhenS.O0 (S.sh i)) := by
  induction h with
  | init => intro i; exact ⟨⟨.init, WhenU.uok_init W.w i⟩, ⟨.init, WhenS.o0_init (wsOf W) i⟩⟩
  | step hr hs ih =>
      intro j
      have keyU : ∀ (i : Nat) (l : Unique.Label) (u' : Unique.State) (uu : Nat → Unique.State), WhenU.used l = true →
          Unique.Step (uu i) l u' → (Unique.Reachable (WhenU.wU W.w i) (uu i) ∧ WhenU.UOk (uu i)) →
          (Unique.Reachable (WhenU.wU W.w j) (uu j) ∧ WhenU.UOk (uu j)) →
          Unique.Reachable (WhenU.wU W.w j) (When.upd uu i u' j) ∧ WhenU.UOk (When.upd uu i u' j) := by
        intro i l u' uu hl hst hi hj
        rw [upd_eq]
        by_cases hji : j = i
        · subst hji; simp; exact ⟨.step hi.1 hst, WhenU.uok_step hi.2 hst hl⟩
        · simp [hji]; exact hj
      have keyS : ∀ (i : Nat) (l : Shared.Label) (s' : Shared.State) (ss : Nat → Shared.State),
          Shared.Step (ss i) l s' → Shared.Reachable (WhenS.wS (wsOf W) i) (ss i) → WhenS.O0 s' →
          (Shared.Reachable (WhenS.wS (wsOf W) j) (ss j) ∧ WhenS.O0 (ss j)) →
          Shared.Reachable (WhenS.wS (wsOf W) j) (When.upd ss i s' j) ∧ WhenS.O0 (When.upd ss i s' j) := by
        intro i l s' ss hst hi ho hj
        rw [upd_eq]
        by_cases hji : j = i
        · subst hji; simp; exact ⟨.step hi hst, ho⟩
        · simp [hji]; exact hj
      cases hs with
      | «when» l wh' hl h => exact ih j
      | uprod i old u' hk hi h => exact ⟨keyU i _ u' _ rfl h (ih i).1 (ih j).1, (ih j).2⟩
      | ucload i x u' hk hr h => exact ⟨keyU i _ u' _ rfl h (ih i).1 (ih j).1, (ih j).2⟩
      | ucasOk i u' hk hr h => exact ⟨keyU i _ u' _ rfl h (ih i).1 (ih j).1, (ih j).2⟩
      | ucasFail i u' hk hr h => exact ⟨keyU i _ u' _ rfl h (ih i).1 (ih j).1, (ih j).2⟩
      | uenterC i r u' hk hr h => exact ⟨keyU i _ u' _ rfl h (ih i).1 (ih j).1, (ih j).2⟩
      | uenterP i r u' hk hi h => exact ⟨keyU i _ u' _ rfl h (ih i).1 (ih j).1, (ih j).2⟩
      | sfree i l s' hk hi hl h =>
          have hf := WhenS.free_frame (Shared.inv_reachable (ih i).2.1) (ih i).2.2.jobs h hl
          exact ⟨(ih j).1, keyS i l s' _ h (ih i).2.1 ⟨by rw [hf.1]; exact (ih i).2.2.shape, hf.2.1⟩ (ih j).2⟩
      | sreg i l s' hk hr hl h => exact ⟨(ih j).1, keyS i l s' _ h (ih i).2.1 (WhenS.reg_frame (ih i).2.2 h hl).1 (ih j).2⟩
      | scasOk i s' hk hr h => exact ⟨(ih j).1, keyS i _ s' _ h (ih i).2.1 (WhenS.casOk_frame (ih i).2.2 h).1 (ih j).2⟩
      | senterC i s' hk hr h =>
          exact ⟨(ih j).1, keyS i _ s' _ h (ih i).2.1 (WhenS.enterC_frame (Shared.inv_reachable (ih i).2.1) (ih i).2.2 h).1 (ih j).2⟩
      | senterP i s' hk hi h =>
          exact ⟨(ih j).1, keyS i _ s' _ h (ih i).2.1 (WhenS.enterP_frame (Shared.inv_reachable (ih i).2.1) (ih i).2.2 h).1 (ih j).2⟩

/-- the coupling invariant: per input, the coupling of its kind -/
structure K (W : Workload) (S : State) : Prop where
  u_fire : ∀ i, W.kind i = false → (S.u i).ppc = .fire .cont → S.wh.pc i = .pending
  u_word : ∀ i, W.kind i = false → (S.u i).word = .cb .cont → S.wh.pc i = .pending
  u_entries : ∀ i, W.kind i = false → S.wh.consumed i = (S.u i).delivered.length
  u_todo : ∀ i, W.kind i = false → ((S.u i).todo = [] ↔ i < S.wh.reg)
  s_lists : ∀ i, W.kind i = true → WhenS.inLists (S.sh i) → S.wh.pc i = .pending
  s_entries : ∀ i, W.kind i = true → S.wh.consumed i = (Shared.firedIds (S.sh i)).count WhenS.cb0
  s_todo : ∀ i, W.kind i = true → (((S.sh i).obs 0).todo = [] ↔ i < S.wh.reg)

theorem k_init (W : Workload) : K W (init W) := by
  constructor <;>
    simp [init, When.init, Unique.init, WhenU.wU, Shared.init, WhenS.wS, WhenS.inLists, Shared.wordList, Shared.walkList,
      Shared.firedIds]

macro "km_auto" : tactic =>
  `(tactic| (constructor <;>
      (try simp only [Unique.doPInvoke, Unique.doCInvoke, Unique.doCasOk, Unique.afterFail, When.doRegSet, When.doFire,
        Bool.false_eq_true, if_false, if_true]) <;> grind [= upd_eq]))

set_option maxHeartbeats 1000000 in
theorem sim_step {S' : State} {l : Label} (hwf : W.w.wf) (hR : Reachable W S) (hW : When.Reachable W.w S.wh) (hK : K W S)
    (hs : Step W S l S') : When.Reachable W.w S'.wh ∧ K W S' := by
  have hP := parts_reachable hR
  have hC := When.invc_reachable hW
  have hcr : S.wh.crashed = false := (When.invb_reachable hwf hW).not_crashed
  have hun := hC.unreg
  obtain ⟨k1, k2, k3, k4, k5, k6, k7⟩ := hK
  cases hs with
  | «when» l wh' hl h =>
      obtain ⟨f1, f2, f3, f4⟩ := WhenU.when_frame h hl
      refine ⟨.step hW h, ?_⟩
      constructor <;> simp only [] <;> grind
  | uprod i old u' hk hi h =>
      refine ⟨hW, ?_⟩
      obtain ⟨c1, c2, c3, c4, c5⟩ := (hP i).1.2
      cases h
      rename_i hp hw
      rcases c3 with c3 | c3 | c3
      · simp only [Unique.doXchg, c3]; km_auto
      · simp only [Unique.doXchg, c3]; km_auto
      · exact absurd c3 hw
  | ucload i x u' hk hr h =>
      refine ⟨hW, ?_⟩
      obtain ⟨c1, c2, c3, c4, c5⟩ := (hP i).1.2
      cases h with
      | cAttLoad op rest k x' hc ht hk' hx =>
          have hop : op = .fin (.attach false) ∧ k = .cont := by
            rcases c2 with c2 | c2
            · rw [c2] at ht; cases ht; simp [Unique.opCb, Unique.finCb] at hk'; exact ⟨rfl, hk'.symm⟩
            · rw [c2.1] at ht; cases ht
          obtain ⟨rfl, rfl⟩ := hop
          by_cases hx0 : x = .empty <;> simp only [Unique.doAttLoad, hx0, if_true, if_false] <;> km_auto
      | cReadyLoad rest x' hc ht hx =>
          rcases c2 with c2 | c2
          · rw [c2] at ht; cases ht
          · rw [c2.1] at ht; cases ht
      | cGetcLoad rest x' hc ht hx =>
          rcases c2 with c2 | c2
          · rw [c2] at ht; cases ht
          · rw [c2.1] at ht; cases ht
  | ucasOk i u' hk hr h =>
      obtain ⟨r1, r2, r3, r4⟩ := hr
      refine ⟨.step hW (.regSet S.wh i true r4 r2 r1 r3), ?_⟩
      obtain ⟨c1, c2, c3, c4, c5⟩ := (hP i).1.2
      cases h
      rename_i hp hw
      km_auto
  | ucasFail i u' hk hr h =>
      refine ⟨hW, ?_⟩
      cases h
      rename_i hp hw
      km_auto
  | uenterC i r u' hk hr h =>
      obtain ⟨r1, r2, r3, r4⟩ := hr
      refine ⟨.step hW (.regSet S.wh i false r4 r2 r1 r3), ?_⟩
      obtain ⟨c1, c2, c3, c4, c5⟩ := (hP i).1.2
      have hI := Unique.inv_reachable (hP i).1.1
      have hne := WhenU.consumeStart_ne_pending W.w.strat (W.w.inp i)
      cases h with
      | cInvoke r' hp hv hst =>
          have hca := hI.c_after (Or.inl ⟨_, hp⟩)
          km_auto
      | cInvokeSub r' hp hst => rw [hp] at c1; simp at c1
  | uenterP i r u' hk hi h =>
      obtain ⟨c1, c2, c3, c4, c5⟩ := (hP i).1.2
      have hI := Unique.inv_reachable (hP i).1.1
      have hne := WhenU.consumeStart_ne_pending W.w.strat (W.w.inp i)
      cases h with
      | pInvoke r' hp hv hst =>
          have hpend := k1 i hk hp
          have hword : (S.u i).word = .result := by
            cases hw : (S.u i).word with
            | result => rfl
            | empty => have := hI.start_iff.mpr (by rw [hw]; simp); rw [hp] at this; cases this
            | cb k => have := hI.start_iff.mpr (by rw [hw]; simp); rw [hp] at this; cases this
          refine ⟨.step hW (.fire S.wh i hcr hpend), ?_⟩
          km_auto
      | pInvokeSub r' hp hst => rw [hp] at c4; simp at c4
  | sfree i l s' hk hi hl h =>
      obtain ⟨f1, f2, f3, f4⟩ := WhenS.free_frame (Shared.inv_reachable (hP i).2.1) (hP i).2.2.jobs h hl
      refine ⟨hW, ?_⟩
      km_auto
  | sreg i l s' hk hr hl h =>
      obtain ⟨f1, f2, f3, f4⟩ := WhenS.reg_frame (hP i).2.2 h hl
      refine ⟨hW, ?_⟩
      km_auto
  | scasOk i s' hk hr h =>
      obtain ⟨r1, r2, r3, r4⟩ := hr
      obtain ⟨f1, f2, f3, f4⟩ := WhenS.casOk_frame (hP i).2.2 h
      refine ⟨.step hW (.regSet S.wh i true r4 r2 r1 r3), ?_⟩
      km_auto
  | senterC i s' hk hr h =>
      obtain ⟨r1, r2, r3, r4⟩ := hr
      obtain ⟨f1, f2, f3, f4, f5, f6, f7⟩ := WhenS.enterC_frame (Shared.inv_reachable (hP i).2.1) (hP i).2.2 h
      have hne := WhenU.consumeStart_ne_pending W.w.strat (W.w.inp i)
      refine ⟨.step hW (.regSet S.wh i false r4 r2 r1 r3), ?_⟩
      km_auto
  | senterP i s' hk hi h =>
      obtain ⟨f1, f2, f3, f4, f5, f6, f7⟩ := WhenS.enterP_frame (Shared.inv_reachable (hP i).2.1) (hP i).2.2 h
      have hne := WhenU.consumeStart_ne_pending W.w.strat (W.w.inp i)
      refine ⟨.step hW (.fire S.wh i hcr (k5 i hk f2)), ?_⟩
      km_auto

/-- **the simulation** for mixed packs -/
theorem sim (hwf : W.w.wf) (h : Reachable W S) : When.Reachable W.w S.wh ∧ K W S := by
  induction h with
  | init => exact ⟨.init, k_init W⟩
  | step hr hs ih => exact sim_step hwf hr ih.1 ih.2 hs

end Yaclib.WhenM
