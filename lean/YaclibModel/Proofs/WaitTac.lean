/- helper lemmas and automation set-up for the preservation proofs of the C11 invariant -/
import YaclibModel.Proofs.Wait

namespace Yaclib.Wait

attribute [grind =] upd_same
attribute [grind =] upd_other
attribute [grind =] regBound rstBound
attribute [grind =] WPc.inCall WPc.holds WPc.postReg WPc.early WPc.preTimeout WPc.timedOnly WPc.resetting

theorem regBound_congr {s s' : State} (h1 : s'.wpc = s.wpc) (h2 : s'.hi = s.hi) : regBound s' = regBound s := by
  simp [regBound, h1, h2]

theorem rstBound_congr {s s' : State} (h1 : s'.wpc = s.wpc) (h2 : s'.hi = s.hi) (h3 : s'.lo = s.lo) :
    rstBound s' = rstBound s := by
  simp [rstBound, h1, h2, h3]

variable {b : Bool} {w : Workload} {s : State}

theorem InvG.regBound_le (hi : InvG b w s) : regBound s ≤ s.hi := by
  unfold regBound
  split
  · rename_i i h; have := hi.reg_inv i (Or.inl h); omega
  · rename_i i h; have := hi.reg_inv i (Or.inr h); omega
  · omega

theorem InvG.alive_of_ev (hi : InvG b w s) {i : Nat} (h : (s.fut i).word = .ev) : s.alive = true := by
  cases ha : s.alive with
  | true => rfl
  | false => exact absurd h (hi.dead ha i).1

theorem InvG.alive_of_took (hi : InvG b w s) {i : Nat} (h : (s.fut i).ppc = .took) : s.alive = true := by
  cases ha : s.alive with
  | true => rfl
  | false => exact absurd h (hi.dead ha i).2.1

theorem InvG.alive_of_setting (hi : InvG b w s) {i : Nat} (h : (s.fut i).ppc = .setting) : s.alive = true := by
  cases ha : s.alive with
  | true => rfl
  | false => exact absurd h (hi.dead ha i).2.2.1

theorem InvG.alive_of_locked (hi : InvG b w s) {i : Nat} (h : (s.fut i).ppc = .locked) : s.alive = true := by
  cases ha : s.alive with
  | true => rfl
  | false => exact absurd h (hi.dead ha i).2.2.2

theorem InvG.lt_hi (hi : InvG b w s) (hal : s.alive = true) {i : Nat} (hg : (s.fut i).g ≠ .out) : i < s.hi := by
  have := hi.g_range hal i hg
  have := hi.regBound_le
  omega

/-- `wait_count ≤ count` while the event exists -/
theorem InvG.wc_le (hi : InvG b w s) (hal : s.alive = true) : s.wc + s.lo ≤ s.hi := by
  have hc := hi.alive_iff.mp hal
  cases hp : s.wpc <;> simp [hp, WPc.inCall] at hc
  case reg i => have := hi.reg_inv i (Or.inl hp); omega
  case regCas i => have := hi.reg_inv i (Or.inr hp); omega
  all_goals exact (hi.post_inv (by simp [hp, WPc.postReg])).2

/-- every future is `out` when nothing is registered -/
theorem InvG.all_out (hi : InvG b w s) (hal : s.alive = true) (h0 : s.wc = 0) : ∀ j, (s.fut j).g = .out := by
  intro j
  have hc := hi.c_wc hal
  by_cases hj : j < s.hi
  · cases hg : (s.fut j).g with
    | out => rfl
    | inn => have := cntG_pos hj hg; simp only [Ninn, Ntaken, Ndecd, Nback] at hc; omega
    | taken => have := cntG_pos hj hg; simp only [Ninn, Ntaken, Ndecd, Nback] at hc; omega
    | decd => have := cntG_pos hj hg; simp only [Ninn, Ntaken, Ndecd, Nback] at hc; omega
    | back => have := cntG_pos hj hg; simp only [Ninn, Ntaken, Ndecd, Nback] at hc; omega
  · cases hg : (s.fut j).g with
    | out => rfl
    | _ => have := hi.lt_hi hal (i := j) (by simp [hg]); omega

/-- a future in range that is neither registered nor consumed holds `empty` or `result` -/
theorem InvG.out_word (hi : InvG b w s) (hal : s.alive = true) {i : Nat} (hlo : s.lo ≤ i) (hg : (s.fut i).g = .out) :
    (s.fut i).word = .empty ∨ (s.fut i).word = .result := by
  cases hw : (s.fut i).word with
  | empty => simp
  | result => simp
  | ev => have := hi.g_ev hal i hw; rw [hg] at this; cases this
  | cont => have := hi.fi_lo hal; exact absurd hw (hi.todo i (by omega)).2.1

/-- how the four counts change when future `i < m` moves from ghost phase `a` to `b` -/
theorem cnt4 {f : Nat → Fut} {i : Nat} {x : Fut} {m : Nat} (hlt : i < m) (a b : G) (ha : (f i).g = a) (hb : x.g = b) :
    (cntG (upd f i x) .inn m + (if a = .inn then 1 else 0) = cntG f .inn m + (if b = .inn then 1 else 0)) ∧
    (cntG (upd f i x) .taken m + (if a = .taken then 1 else 0) = cntG f .taken m + (if b = .taken then 1 else 0)) ∧
    (cntG (upd f i x) .decd m + (if a = .decd then 1 else 0) = cntG f .decd m + (if b = .decd then 1 else 0)) ∧
    (cntG (upd f i x) .back m + (if a = .back then 1 else 0) = cntG f .back m + (if b = .back then 1 else 0)) := by
  subst ha hb
  exact ⟨cntG_upd_lt hlt, cntG_upd_lt hlt, cntG_upd_lt hlt, cntG_upd_lt hlt⟩

/-- a count of zero means no future at all is in that phase (futures beyond `hi` are `out`) -/
theorem InvG.none_of_zero (hi : InvG b w s) (hal : s.alive = true) {a : G} (ha : a ≠ .out) (h0 : cntG s.fut a s.hi = 0) :
    ∀ j, (s.fut j).g ≠ a := by
  intro j hg
  by_cases hj : j < s.hi
  · exact cntG_zero h0 hj hg
  · have := hi.lt_hi hal (i := j) (by rw [hg]; exact ha); omega

/-- nobody holds the event pointer and nobody is inside `Set` when no future is `inn`, `taken` and there is no setter -/
theorem InvG.clean_of (hi : InvG b w s) (hal : s.alive = true) (h1 : Ninn s = 0) (h2 : Ntaken s = 0) (h3 : s.setter = none) :
    ∀ j, (s.fut j).g ≠ .inn ∧ (s.fut j).g ≠ .taken ∧ (s.fut j).ppc ≠ .setting ∧ (s.fut j).ppc ≠ .locked := by
  intro j
  refine ⟨hi.none_of_zero hal (by simp) h1 j, hi.none_of_zero hal (by simp) h2 j, ?_, ?_⟩
  · intro h; have := hi.set_pp hal j (Or.inl h); rw [h3] at this; cases this
  · intro h; have := hi.set_pp hal j (Or.inr h); rw [h3] at this; cases this

/-- the same when the flag is set and the waiter holds the mutex: the setter has left `Set` -/
theorem InvG.clean_of_ready (hi : InvG b w s) (hal : s.alive = true) (h1 : Ninn s = 0) (h2 : Ntaken s = 0)
    (hr : s.ready = true) (hh : ∀ i, s.holder ≠ some (.p i)) :
    ∀ j, (s.fut j).g ≠ .inn ∧ (s.fut j).g ≠ .taken ∧ (s.fut j).ppc ≠ .setting ∧ (s.fut j).ppc ≠ .locked := by
  intro j
  have hs := hi.rdy_set hal hr
  refine ⟨hi.none_of_zero hal (by simp) h1 j, hi.none_of_zero hal (by simp) h2 j, ?_, ?_⟩
  · intro h
    have h1 := hi.set_pp hal j (Or.inl h)
    rcases hs.2 j h1 with h2 | h2 <;> rw [h] at h2 <;> cases h2
  · intro h
    exact hh j ((hi.holder_p j).mpr h)

/-- every future of the range is fulfilled when none is `inn` or `back` -/
theorem InvG.all_ready (hi : InvG b w s) (hal : s.alive = true) (hb : regBound s = s.hi) (h1 : Ninn s = 0) (h2 : Nback s = 0) :
    ∀ j, s.lo ≤ j → j < s.hi → (s.fut j).word = .result := by
  intro j hlo hhi
  cases hg : (s.fut j).g with
  | out => exact hi.g_out hal j hlo (by omega) hg
  | inn => exact absurd hg (hi.none_of_zero hal (by simp) h1 j)
  | back => exact absurd hg (hi.none_of_zero hal (by simp) h2 j)
  | taken =>
      have := hi.g_taken hal j hg
      have hs := hi.start_iff j
      cases hw : (s.fut j).word with
      | result => rfl
      | _ => have := hs.mpr (by simp [hw]); simp_all
  | decd =>
      have := hi.g_decd hal j hg
      have hs := hi.start_iff j
      cases hw : (s.fut j).word with
      | result => rfl
      | _ => have := hs.mpr (by simp [hw]); simp_all

/-- once the flag is set every registered future has been decremented or reset -/
theorem InvG.ready_counts (hi : InvG b w s) (hal : s.alive = true) (hr : s.ready = true) :
    Ninn s = 0 ∧ Ntaken s = 0 ∧ (s.sub2done = false → Nback s = 0) := by
  have hs := hi.rdy_set hal hr
  cases hset : s.setter with
  | none => exact absurd hset hs.1
  | some j =>
      have hgj := hi.set_g hal j hset
      have hj := hi.lt_hi hal (i := j) (by simp [hgj])
      have hpos := cntG_pos hj hgj
      have hwc := hi.c_wc hal
      have hrc := hi.c_rc hal
      have hle := hi.wc_le hal
      simp only [Ninn, Ntaken, Ndecd, Nback] at *
      by_cases hone : s.hi - s.lo = 1
      · refine ⟨by omega, by omega, fun _ => by omega⟩
      · have hc := hi.set_cnt hal hone (by simp [hset])
        have hcnt := hi.c_cnt hal hone
        simp only [hc.1, hc.2, ↓reduceIte, Ndecd] at hcnt
        cases h2 : s.sub2done with
        | true => simp only [h2, ↓reduceIte] at hcnt; refine ⟨by omega, by omega, fun h => by cases h⟩
        | false => simp only [h2, Bool.false_eq_true, ↓reduceIte] at hcnt; refine ⟨by omega, by omega, fun _ => by omega⟩

/-! relations between the phase predicates -/
theorem WPc.resetting_holds {c : WPc} (h : c.resetting = true) : c.holds = true := by cases c <;> simp_all [WPc.resetting, WPc.holds]
theorem WPc.resetting_timedOnly {c : WPc} (h : c.resetting = true) : c.timedOnly = true := by cases c <;> simp_all [WPc.resetting, WPc.timedOnly]
theorem WPc.holds_postReg {c : WPc} (h : c.holds = true) : c.postReg = true := by cases c <;> simp_all [WPc.holds, WPc.postReg]
theorem WPc.postReg_inCall {c : WPc} (h : c.postReg = true) : c.inCall = true := by cases c <;> simp_all [WPc.inCall, WPc.postReg]
theorem WPc.early_inCall {c : WPc} (h : c.early = true) : c.inCall = true := by cases c <;> simp_all [WPc.inCall, WPc.early]
theorem WPc.early_preTimeout {c : WPc} (h : c.early = true) : c.preTimeout = true := by cases c <;> simp_all [WPc.preTimeout, WPc.early]
theorem WPc.early_not_holds {c : WPc} (h : c.early = true) : c.holds = false := by cases c <;> simp_all [WPc.holds, WPc.early]
theorem WPc.preTimeout_inCall {c : WPc} (h : c.preTimeout = true) : c.inCall = true := by
  cases c <;> simp_all [WPc.inCall, WPc.preTimeout]
theorem WPc.preTimeout_not_resetting {c : WPc} (h : c.preTimeout = true) : c.resetting = false := by
  cases c <;> simp_all [WPc.resetting, WPc.preTimeout]
theorem WPc.timedOnly_postReg {c : WPc} (h : c.timedOnly = true) : c.postReg = true := by
  cases c <;> simp_all [WPc.timedOnly, WPc.postReg]

attribute [grind →] WPc.resetting_holds WPc.resetting_timedOnly WPc.holds_postReg WPc.postReg_inCall WPc.early_inCall
  WPc.early_preTimeout WPc.early_not_holds WPc.preTimeout_inCall WPc.preTimeout_not_resetting WPc.timedOnly_postReg

/-! The auxiliary (matcher) lemmas `grind` derives for these definitions are generated here once, so that the modules
    that import this file do not each generate their own copy. -/
theorem regBound_reg {s : State} {i : Nat} (h : s.wpc = .reg i) : regBound s = i := by grind
theorem regBound_regCas {s : State} {i : Nat} (h : s.wpc = .regCas i) : regBound s = i := by grind
theorem regBound_sub1 {s : State} (h : s.wpc = .sub1) : regBound s = s.hi := by grind
theorem rstBound_rst {s : State} {i : Nat} (h : s.wpc = .rst i) : rstBound s = i := by grind
theorem rstBound_rstCas {s : State} {i : Nat} {x : Word} (h : s.wpc = .rstCas i x) : rstBound s = i := by grind
theorem rstBound_sub2 {s : State} (h : s.wpc = .sub2) : rstBound s = s.hi := by grind
theorem rstBound_idle {s : State} (h : s.wpc = .idle) : rstBound s = s.lo := by grind
theorem phases_aux {s : State} {f : Bool} (h : s.wpc = .held f) :
    s.wpc.inCall = true ∧ s.wpc.holds = true ∧ s.wpc.postReg = true ∧ s.wpc.early = false ∧ s.wpc.resetting = false ∧
    (f = false → s.wpc.preTimeout = true ∧ s.wpc.timedOnly = true) := by
  cases f <;> grind
theorem phases_aux2 {s : State} (h : s.wpc = .idle) :
    s.wpc.inCall = false ∧ s.wpc.holds = false ∧ s.wpc.postReg = false ∧ s.wpc.early = false ∧ s.wpc.resetting = false ∧
    s.wpc.preTimeout = false ∧ s.wpc.timedOnly = false := by
  grind

/-- the tactic that closes one field of the invariant after the effect has been unfolded -/
macro "inv_close" : tactic => `(tactic| first | assumption | grind)

end Yaclib.Wait
