/- helper lemmas and automation set-up for the preservation proofs of the C11 invariant -/
import YaclibModel.Proofs.Wait

namespace Yaclib.Wait

attribute [grind =] upd_same
attribute [grind =] upd_other

theorem regBound_congr {s s' : State} (h1 : s'.wpc = s.wpc) (h2 : s'.hi = s.hi) : regBound s' = regBound s := by
  simp [regBound, h1, h2]

theorem rstBound_congr {s s' : State} (h1 : s'.wpc = s.wpc) (h2 : s'.hi = s.hi) (h3 : s'.lo = s.lo) :
    rstBound s' = rstBound s := by
  simp [rstBound, h1, h2, h3]

variable {b : Bool} {w : Workload} {s : State}

theorem InvG.regBound_le (hi : InvG b w s) : regBound s ≤ s.hi := by
  unfold regBound
  split
  · rename_i i h; have := hi.reg_inv i (Or.inl h); omega
  · rename_i i h; have := hi.reg_inv i (Or.inr h); omega
  · omega

theorem InvG.alive_of_ev (hi : InvG b w s) {i : Nat} (h : (s.fut i).word = .ev) : s.alive = true := by
  cases ha : s.alive with
  | true => rfl
  | false => exact absurd h (hi.dead ha i).1

theorem InvG.alive_of_took (hi : InvG b w s) {i : Nat} (h : (s.fut i).ppc = .took) : s.alive = true := by
  cases ha : s.alive with
  | true => rfl
  | false => exact absurd h (hi.dead ha i).2.1

theorem InvG.alive_of_setting (hi : InvG b w s) {i : Nat} (h : (s.fut i).ppc = .setting) : s.alive = true := by
  cases ha : s.alive with
  | true => rfl
  | false => exact absurd h (hi.dead ha i).2.2.1

theorem InvG.alive_of_locked (hi : InvG b w s) {i : Nat} (h : (s.fut i).ppc = .locked) : s.alive = true := by
  cases ha : s.alive with
  | true => rfl
  | false => exact absurd h (hi.dead ha i).2.2.2

theorem InvG.lt_hi (hi : InvG b w s) (hal : s.alive = true) {i : Nat} (hg : (s.fut i).g ≠ .out) : i < s.hi := by
  have := hi.g_range hal i hg
  have := hi.regBound_le
  omega

/-- `wait_count ≤ count` while the event exists -/
theorem InvG.wc_le (hi : InvG b w s) (hal : s.alive = true) : s.wc + s.lo ≤ s.hi := by
  have hc := hi.alive_iff.mp hal
  cases hp : s.wpc <;> simp [hp, WPc.inCall] at hc
  case reg i => have := hi.reg_inv i (Or.inl hp); omega
  case regCas i => have := hi.reg_inv i (Or.inr hp); omega
  all_goals exact (hi.post_inv (by simp [hp, WPc.postReg])).2

/-- every future is `out` when nothing is registered -/
theorem InvG.all_out (hi : InvG b w s) (hal : s.alive = true) (h0 : s.wc = 0) : ∀ j, (s.fut j).g = .out := by
  intro j
  have hc := hi.c_wc hal
  by_cases hj : j < s.hi
  · cases hg : (s.fut j).g with
    | out => rfl
    | inn => have := cntG_pos hj hg; simp only [Ninn, Ntaken, Ndecd, Nback] at hc; omega
    | taken => have := cntG_pos hj hg; simp only [Ninn, Ntaken, Ndecd, Nback] at hc; omega
    | decd => have := cntG_pos hj hg; simp only [Ninn, Ntaken, Ndecd, Nback] at hc; omega
    | back => have := cntG_pos hj hg; simp only [Ninn, Ntaken, Ndecd, Nback] at hc; omega
  · cases hg : (s.fut j).g with
    | out => rfl
    | _ => have := hi.lt_hi hal (i := j) (by simp [hg]); omega

/-- a future in range that is neither registered nor consumed holds `empty` or `result` -/
theorem InvG.out_word (hi : InvG b w s) (hal : s.alive = true) {i : Nat} (hlo : s.lo ≤ i) (hg : (s.fut i).g = .out) :
    (s.fut i).word = .empty ∨ (s.fut i).word = .result := by
  cases hw : (s.fut i).word with
  | empty => simp
  | result => simp
  | ev => have := hi.g_ev hal i hw; rw [hg] at this; cases this
  | cont => have := hi.fi_lo hal; exact absurd hw (hi.todo i (by omega)).2.1

/-- the tactic that closes one field of the invariant after the effect has been unfolded -/
macro "inv_close" : tactic => `(tactic| first | assumption | grind)

end Yaclib.Wait
