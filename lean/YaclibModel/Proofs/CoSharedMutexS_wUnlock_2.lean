import YaclibModel.Proofs.CoSharedMutex
namespace Yaclib.CoSharedMutex

set_option maxHeartbeats 4000000 in
theorem inv_wUnlock_2 {cfg : Cfg} {s : State} (hi : Inv cfg s) (c : Cid) (k : WUnl) (h : s.pc c = .wUnl k) (hs : s.spin = .held c) (hk : k = .enq) (hc : s.cfg.fifo = true ∧ s.Q = []) :
    Inv cfg ((doWUnlock s c k)) := by
  subst hk
  cases hi
  simp only [doWUnlock, hc, and_self, ↓reduceIte]
  sm_auto [List.count_le_length]

end Yaclib.CoSharedMutex
