/- C07 model: running the executable `next` along a label list (used by the non-vacuity examples and witnesses),
   and two small corollaries of the order invariant. -/
import YaclibModel.Proofs.StrandProgress

namespace Yaclib.Strand

theorem calls_eq_fsts {l : List (JobId × Bool)} (h : ∀ p ∈ l, p.2 = true) : calls l = fsts l := by
  unfold calls fsts
  rw [List.filter_eq_self.mpr (by simpa using h)]

theorem executed_taken {w : Workload} {s : State} (ho : InvOrd w s) {j : JobId} (hj : j ∈ s.executed) :
    (j, true) ∈ s.taken := by
  apply mem_calls.mp; rw [ho.exec_eq]; exact List.mem_append_left _ hj

/-- run the executable model along a list of labels -/
def runL (s : State) : List Label → Option State
  | [] => some s
  | l :: ls => (next s l).bind (fun s' => runL s' ls)

theorem runL_reachable {w : Workload} {s : State} {ls : List Label} {s' : State} (h : Reachable w s)
    (hr : runL s ls = some s') : Reachable w s' := by
  induction ls generalizing s with
  | nil => simp [runL] at hr; subst hr; exact h
  | cons l ls ih =>
      simp only [runL] at hr
      cases hn : next s l with
      | none => rw [hn] at hr; cases hr
      | some s1 => rw [hn] at hr; exact ih (.step h (next_sound hn)) hr

theorem run_witness {α : Type} {w : Workload} {ls : List Label} (f : State → α) (v : α)
    (h : (runL (init w) ls).map f = some v) : ∃ s, Reachable w s ∧ f s = v := by
  cases hr : runL (init w) ls with
  | none => rw [hr] at h; cases h
  | some s => rw [hr] at h; exact ⟨s, runL_reachable .init hr, by simpa using h⟩

end Yaclib.Strand
