import YaclibModel.Proofs.StrandDrop
namespace Yaclib.Strand

theorem invDrop_step_0 {w s l s'} (ht : InvTok w s) (_ho : InvOrd w s) (hi : InvDrop w s) (hs : Step s l s')
    (hg : (∃ i, l.actor = .sub i) ∨ (∃ a j, l = .aBegin a j) ∨ (∃ a j, l = .aEnd a j) ∨ (∃ a b, l = .aLoad a b) ∨
      (∃ a, l = .aCasOk a) ∨ (∃ a, l = .aCasFail a) ∨ (∃ a, l = .aResub a)) :
    InvDrop w s' := by
  cases hs with
  | sLoad i v h hj hv => cases hi; drop_auto
  | sCasOk i exp h he => cases hi; drop_auto
  | sCasFail i exp v h hne hv => cases hi; drop_auto
  | sCasSpur i exp h => exact hi
  | sSched i h =>
      have hf := ht.fresh s.nacts (Nat.le_refl _)
      cases hi; drop_auto
  | aBegin a j rem h => cases hi; drop_auto
  | aEnd a j rem h => cases hi; drop_auto
  | aLoad a sawNull h hv => cases sawNull <;> (cases hi; drop_auto)
  | aCasOk a h hw => cases hi; drop_auto
  | aCasFail a h hw => cases hi; drop_auto
  | aResub a h =>
      have hf := ht.fresh s.nacts (Nat.le_refl _)
      cases hi; drop_auto
  | _ => simp [Label.actor] at hg

end Yaclib.Strand
