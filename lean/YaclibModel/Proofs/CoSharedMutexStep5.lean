import YaclibModel.Proofs.CoSharedMutex
namespace Yaclib.CoSharedMutex

set_option maxHeartbeats 4000000 in
theorem inv_step_5 {cfg s l s'} (hi : Inv cfg s) (hs : Step s l s') (hg : grpOf l = 5) : Inv cfg s' := by
  cases hs with
  | trCasOk c r h hW hR =>
      have hpwn : s.pw = .none := by
        have h5 := hi.j5
        cases hp : s.pw.isSome
        · exact PW.eq_none_of_isSome hp
        · rw [hW, hp] at h5; simp at h5 <;> omega
      cases hi
      sm_auto [List.count_le_length]
  | trCasFail c r h =>
      cases hi
      sm_auto [List.count_le_length]
  | twLoad c sawZero h ht ho =>
      cases hi
      cases sawZero
      · by_cases ht' : curOp s c = .tryWr <;> simp only [doTwLoad, failW, ht', Bool.false_eq_true, ↓reduceIte] <;> sm_auto [List.count_le_length]
      · simp only [doTwLoad, ↓reduceIte]; sm_auto [List.count_le_length]
  | _ => simp [grpOf] at hg

end Yaclib.CoSharedMutex
