import YaclibModel.Proofs.CoSharedMutex
namespace Yaclib.CoSharedMutex

set_option maxHeartbeats 4000000 in
theorem inv_step_5 {cfg s l s'} (hi : Inv cfg s) (hs : Step s l s') (hg : grpOf l = 5) : Inv cfg s' := by
  cases hi
  cases hs with
  | trCasOk c r h hW hR => sm_dbg [List.count_le_length, List.length_eq_zero_iff, length_pos_of_ne_nil]
  | trCasFail c r h => sm_dbg [List.count_le_length, List.length_eq_zero_iff, length_pos_of_ne_nil]
  | twLoad c sawZero h ht ho =>
      cases sawZero
      · by_cases ht' : curOp s c = .tryWr <;> simp only [doTwLoad, failW, ht', Bool.false_eq_true, ↓reduceIte] <;> sm_dbg [List.count_le_length, List.length_eq_zero_iff, length_pos_of_ne_nil]
      · simp only [doTwLoad, ↓reduceIte]; sm_dbg [List.count_le_length, List.length_eq_zero_iff, length_pos_of_ne_nil]
  | _ => simp [grpOf] at hg

end Yaclib.CoSharedMutex
