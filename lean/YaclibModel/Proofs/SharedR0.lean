import YaclibModel.Proofs.SharedR
namespace Yaclib.Shared

set_option maxHeartbeats 4000000 in
theorem invR_step_0 {w s l s'} (h0 : Inv0 s) (ha : InvA w s) (hi : InvR s) (hs : Step s l s') (hg : grpOf l = 0) :
    InvR s' := by
  have hle := h0.le
  have htwo := h0.two'
  have hbusy := h0.busy
  cases ha
  cases hi
  cases hs with
  | fXchg l h hw => cases l <;> invR_auto
  | fDec1 c h => invR_auto
  | fTargetDec c rest d h hk => invR_auto
  | fDec k h => invR_auto
  | fInvoke c rest d h hk hf => cases rest <;> invR_auto
  | fSet c rest d h hk hf => cases rest <;> invR_auto
  | fIncRef c rest d h hk hf => invR_auto
  | fSubmit c rest d h => cases rest <;> invR_auto
  | _ => simp [grpOf] at hg

end Yaclib.Shared
