/- Glue between the invariants and the property statements of C09 / C10. -/
import YaclibModel.Proofs.WhenProgress

namespace Yaclib.When

variable {w : Workload} {s : State}

theorem range_map_inp (w : Workload) : (List.range w.n).map (fun j => some (w.inp j)) = w.inputs.map some := by
  apply List.ext_getElem
  · simp [Workload.n]
  · intro i h1 h2
    simp [Workload.n] at h1
    simp [Workload.inp, h1]

theorem past_of_not_holding {p : IPc} (h : holding p = false) : past p = true := by
  cases p <;> simp_all [holding, past]

/-- the output was published by the destructor (nobody was elected): every consumption has dropped its reference -/
theorem all_finished_of_out_dtor (hC : InvC w s) (hO : InvO w s) (hne : s.outSet ≠ []) (hw : s.win = none) :
    ∀ j, j < w.n → holding (s.pc j) = false := by
  have hv : s.pValid = false := by
    cases h : s.pValid with
    | false => rfl
    | true => exact absurd (hO.pvalid.mp h) hne
  rcases hO.valid_or hv with h | h
  · exact absurd hw h
  · have hc := hC.dt_cnt h.1
    rw [hC.count] at hc
    exact cnt_zero hc

theorem win_lt (hC : InvC w s) (hR : InvR w s) {k : Nat} (hw : s.win = some k) : k < w.n := by
  have h1 := hR.done_past k (hR.win_done k hw)
  exact hC.idx (by intro h; rw [h] at h1; cases h1)

theorem err_lt (hC : InvC w s) (hR : InvR w s) {e : Nat} (he : s.errBy = some e) : e < w.n := by
  have h1 := hR.done_past e (hR.err_done e he)
  exact hC.idx (by intro h; rw [h] at h1; cases h1)

theorem wf_of_ne {w : Workload} (h : w.strat ≠ .anyLF) : w.wf := fun h' => absurd h' h

end Yaclib.When
