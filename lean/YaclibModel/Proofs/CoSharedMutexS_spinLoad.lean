import YaclibModel.Proofs.CoSharedMutexS_spinLoad_1
import YaclibModel.Proofs.CoSharedMutexS_spinLoad_2
import YaclibModel.Proofs.CoSharedMutexS_spinLoad_3
import YaclibModel.Proofs.CoSharedMutexS_spinLoad_4
import YaclibModel.Proofs.CoSharedMutexS_spinLoad_5
import YaclibModel.Proofs.CoSharedMutexS_spinLoad_6
namespace Yaclib.CoSharedMutex

theorem inv_spinLoad {cfg : Cfg} {s : State} (hi : Inv cfg s) (c : Cid) (k : SpinK) (sawFree : Bool) (h : s.pc c = .spinning k true) :
    Inv cfg ({ s with pc := upd s.pc c (.spinning k (!sawFree)) }) := by
  have hkd : k = .rd ∨ k = .wr ∨ k = .un := by cases k <;> simp
  have hsd : sawFree = false ∨ sawFree = true := by cases sawFree <;> simp
  rcases hkd with hk | hk | hk <;> rcases hsd with hsf | hsf
  · exact inv_spinLoad_1 hi c k sawFree h hk hsf
  · exact inv_spinLoad_2 hi c k sawFree h hk hsf
  · exact inv_spinLoad_3 hi c k sawFree h hk hsf
  · exact inv_spinLoad_4 hi c k sawFree h hk hsf
  · exact inv_spinLoad_5 hi c k sawFree h hk hsf
  · exact inv_spinLoad_6 hi c k sawFree h hk hsf

end Yaclib.CoSharedMutex
