import YaclibModel.Proofs.CoSharedMutex
namespace Yaclib.CoSharedMutex

set_option maxHeartbeats 4000000 in
theorem inv_spinLoad {cfg : Cfg} {s : State} (hi : Inv cfg s) (c : Cid) (k : SpinK) (sawFree : Bool) (h : s.pc c = .spinning k true) :
    Inv cfg ({ s with pc := upd s.pc c (.spinning k (!sawFree)) }) := by
  cases hi
  cases k <;> cases sawFree <;> simp only [Bool.not_true, Bool.not_false] <;> sm_auto [List.count_le_length]

end Yaclib.CoSharedMutex
