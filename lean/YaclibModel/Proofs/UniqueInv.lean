import YaclibModel.Proofs.UniqueStep0
import YaclibModel.Proofs.UniqueStep1
import YaclibModel.Proofs.UniqueStep2
import YaclibModel.Proofs.UniqueStep3
import YaclibModel.Proofs.UniqueStep4
namespace Yaclib.Unique

theorem inv_step {w s l s'} (hi : Inv w s) (hs : Step s l s') : Inv w s' := by
  have h5 : grpOf l = 0 ∨ grpOf l = 1 ∨ grpOf l = 2 ∨ grpOf l = 3 ∨ grpOf l = 4 := by
    cases l with
    | invoke t r => cases t <;> simp [grpOf]
    | submit t => cases t <;> simp [grpOf]
    | forward t r => cases t <;> simp [grpOf]
    | lock t => cases t <;> simp [grpOf]
    | unlock t => cases t <;> simp [grpOf]
    | cCas k ok => cases ok <;> simp [grpOf]
    | _ => simp [grpOf]
  rcases h5 with h | h | h | h | h
  · exact inv_step_0 hi hs h
  · exact inv_step_1 hi hs h
  · exact inv_step_2 hi hs h
  · exact inv_step_3 hi hs h
  · exact inv_step_4 hi hs h

theorem inv_reachable {w s} (h : Reachable w s) : Inv w s := by
  induction h with
  | init => exact inv_init w
  | step _ hs ih => exact inv_step ih hs

end Yaclib.Unique
