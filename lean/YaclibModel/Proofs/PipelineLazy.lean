/- Lazy pipelines: nothing happens while the client holds an unstarted Task; cancel; the eager twin. -/
import YaclibModel.Proofs.PipelineSpec

namespace Yaclib.Pipeline
open Yaclib.Extracted

/-- an unstarted Task: only cores and functors have been allocated -/
def Untouched (st : State) : Prop :=
  (∃ src steps, st.ctl = .task src steps) ∧ st.crashed = false ∧ st.g.invoked = [] ∧ st.g.ran = [] ∧ st.g.subs = [] ∧
  st.g.jobs = [] ∧ st.g.submitCalls = 0 ∧ st.g.cFree = 0 ∧ st.g.fFree = 0 ∧ st.result = none ∧ st.got = none

theorem clientEv_task (ph : Prog × Handle) (ev : Event) (h : (clientEv ph ev).2 = .task) : ph.2 = .task := by
  obtain ⟨p, hd⟩ := ph
  cases ev <;> cases hd <;> simp only [clientEv] at h ⊢ <;> (try exact h) <;> (try cases h)
  all_goals (split at h <;> (try exact h) <;> (try cases h))

theorem untouched_step (cfg : Cfg) (st : State) (ph : Prog × Handle) (ev : Event)
    (hu : Untouched st) (h1 : ph.2 = .task) (h : (clientEv ph ev).2 = .task) : Untouched (mech cfg st ev) := by
  obtain ⟨p, hd⟩ := ph
  simp only at h1
  subst h1
  obtain ⟨⟨src, steps, hctl⟩, hc, rest⟩ := hu
  obtain ⟨ctl, held, ended, got, result, crashed, g⟩ := st
  simp only at hctl hc rest
  subst hctl hc
  cases ev with
  | attach s =>
    cases hdm : s.mode.isDetach <;> simp_all [mech, Untouched, G.allocCore, G.allocFunctor]
  | start k =>
    simp only [clientEv] at h
    split at h <;> cases h
  | src s lazy head => simp_all [mech, Untouched]
  | set q => simp_all [mech, Untouched]
  | call k => simp_all [mech, Untouched]
  | dropFuture => simp_all [mech, Untouched]
  | get => simp_all [mech, Untouched]

theorem untouched_fold (cfg : Cfg) : ∀ (evs : List Event) (st : State) (ph : Prog × Handle),
    (ph.2 = .task → Untouched st) → (evs.foldl clientEv ph).2 = .task → Untouched (run cfg st evs)
  | [], st, ph, hu, h => hu h
  | ev :: evs, st, ph, hu, h => by
    rw [run_cons]
    simp only [List.foldl_cons] at h
    exact untouched_fold cfg evs (mech cfg st ev) (clientEv ph ev)
      (fun h2 => untouched_step cfg st ph ev (hu (clientEv_task ph ev h2)) (clientEv_task ph ev h2) h2) h

/-- as long as the client holds the Task it has not started (whatever else it does: attaching steps, poking executors,
    using promises), nothing has run, nothing was submitted, nothing was released — for every program, D10 or not -/
theorem untouched_run (cfg : Cfg) : ∀ (evs : List Event) (p : Prog),
    client evs = some (p, .task) → Untouched (run cfg {} evs)
  | [], p, h => by simp [client] at h
  | ev :: evs, p, h => by
    rw [run_cons]
    cases ev with
    | src s lazy head =>
      simp only [client] at h
      cases hwf : ((s == Src.unit) != head.isSome)
      · simp only [hwf, Bool.false_eq_true, ite_false, Option.some.injEq] at h
        have h2 : (evs.foldl clientEv (⟨s, lazy, head.toList, none⟩, if lazy = true then Handle.task else Handle.fut)).2
            = .task := by rw [h]
        refine untouched_fold cfg evs _ _ ?_ h2
        intro h3
        cases lazy with
        | false => simp at h3
        | true => simp [mech, hwf, Untouched, G.allocCore, G.allocFunctor]
      · simp only [hwf, ite_true] at h
        rw [mech_idle cfg _ (fun s' l' h' he => by cases he; exact hwf)]
        exact untouched_run cfg evs p h
    | attach s => rw [mech_idle cfg _ (fun _ _ _ he => by cases he)]; exact untouched_run cfg evs p (by simpa [client] using h)
    | set q => rw [mech_idle cfg _ (fun _ _ _ he => by cases he)]; exact untouched_run cfg evs p (by simpa [client] using h)
    | call k => rw [mech_idle cfg _ (fun _ _ _ he => by cases he)]; exact untouched_run cfg evs p (by simpa [client] using h)
    | start k => rw [mech_idle cfg _ (fun _ _ _ he => by cases he)]; exact untouched_run cfg evs p (by simpa [client] using h)
    | dropFuture => rw [mech_idle cfg _ (fun _ _ _ he => by cases he)]; exact untouched_run cfg evs p (by simpa [client] using h)
    | get => rw [mech_idle cfg _ (fun _ _ _ he => by cases he)]; exact untouched_run cfg evs p (by simpa [client] using h)

/-! ### the eager twin -/

/-- the same pipeline written eagerly: MakeTask ↦ MakeFuture, Schedule(e, f) ↦ Run(e', f), LazyContract(e, f) ↦
    AsyncContract(e', f), where e' is the executor the start named (ToFuture(e') / Detach(e')) or else e -/
def Prog.twin (p : Prog) : Prog :=
  let ovr := p.start.bind StartKind.ovr
  { src := (match p.src with
            | .promiseFn e q f => .promiseFn (ovr.getD e) q f
            | s => s),
    lazy := false,
    steps := overrideHead p.steps (if p.src == .unit then ovr else none),
    start := none }

theorem overrideHead_none (steps : List Step) : overrideHead steps none = steps := by
  cases steps <;> rfl

/-- a started lazy pipeline reads like its eager twin (a MakeTask head started *on* an executor has no eager
    counterpart: MakeFuture is never submitted anywhere) -/
theorem spec_lazy_eq_twin (cfg : Cfg) (p : Prog) (hl : p.lazy = true)
    (hready : p.src.isReady = true → p.start.bind StartKind.ovr = none) :
    spec cfg p = spec cfg p.twin := by
  obtain ⟨src, lazy, steps, start⟩ := p
  simp only at hl
  subst hl
  cases src with
  | ready r =>
    have := hready rfl
    simp only at this
    simp [spec, Prog.twin, this, specSrc, offered, overrideHead_none]
  | promiseFn e q f =>
    have h1 : ∀ e', (Src.promiseFn e' q f == Src.unit) = false := fun _ => rfl
    simp [spec, Prog.twin, specSrc, overrideHead_none, h1]
  | unit => simp [spec, Prog.twin, specSrc, overrideHead_none]
  | contract q f => simp [spec, Prog.twin, specSrc, overrideHead_none]
  | contractOn e q f => simp [spec, Prog.twin, specSrc, overrideHead_none]
  | sharedReady r => simp [spec, Prog.twin, specSrc, overrideHead_none]
  | sharedContract q f => simp [spec, Prog.twin, specSrc, overrideHead_none]
  | sharedKept e q f pre => simp [spec, Prog.twin, specSrc, overrideHead_none]

/-! ### cancel -/

def allValue : List Step → Bool
  | [] => true
  | s :: ss => (s.sig == .val) && allValue ss

theorem offered_err (cfg : Cfg) (e : Exec) (c : Nat) (subs : List Nat) : ∃ c', (offered cfg e (.err c) subs).1 = .err c' := by
  cases e with
  | inl => exact ⟨c, rfl⟩
  | stp => exact ⟨0, rfl⟩
  | user k =>
    simp only [offered]
    by_cases h : rejects cfg subs k = true
    · exact ⟨0, by simp [h, R.stop]⟩
    · exact ⟨c, by simp [h]⟩

/-- a chain of value callbacks fed with an error: none is invoked, an error comes out -/
theorem specSteps_allValue_err (cfg : Cfg) : ∀ (ss : List Step) (c : Nat) (inh : Exec) (subs inv : List Nat),
    allValue ss = true →
    (specSteps cfg ss false (.err c) inh subs inv).invoked = inv ∧ ∃ c', (specSteps cfg ss false (.err c) inh subs inv).r = .err c'
  | [], c, inh, subs, inv, _ => by rw [specSteps_nil]; exact ⟨rfl, c, rfl⟩
  | (.mk id sig mode beh) :: ss, c, inh, subs, inv, h => by
    simp only [allValue, Bool.and_eq_true, Step.sig, beq_iff_eq] at h
    obtain ⟨hs, hss⟩ := h
    subst hs
    rw [specSteps_cons]
    simp only [Bool.or_false, Bool.false_eq_true, ite_false, Step.mode]
    by_cases hsub : mode.submits = true
    · simp only [hsub, ite_true]
      obtain ⟨c', hc'⟩ := offered_err cfg (ownExec mode inh) c subs
      rw [specCall_skip _ _ _ _ _ _ _ _ _ (by rw [hc']; rfl)]
      simp only [hc']
      exact specSteps_allValue_err cfg ss c' _ _ _ hss
    · simp only [hsub, Bool.false_eq_true, ite_false]
      rw [specCall_skip _ _ _ _ _ _ _ _ _ (by rfl)]
      exact specSteps_allValue_err cfg ss c _ _ _ hss

/-- a cancelled Schedule head (value callback, no argument) is Dropped: not invoked, StopError goes down the chain -/
theorem specSteps_cancel_head (cfg : Cfg) (i : Nat) (b : Beh) (as : List Step) (inh : Exec) (subs inv : List Nat)
    (has : allValue as = true) :
    (specSteps cfg ((.mk i .val (.on .stp) b) :: as) true (.val 0) inh subs inv).invoked = inv ∧
    ∃ c, (specSteps cfg ((.mk i .val (.on .stp) b) :: as) true (.val 0) inh subs inv).r = .err c := by
  rw [specSteps_cons]
  simp only [Step.mode, Mode.submits, Bool.or_true, ite_true, ownExec, Mode.explicit, offered]
  rw [specCall_skip _ _ _ _ _ _ _ _ _ (by rfl)]
  exact specSteps_allValue_err cfg as 0 _ _ _ has

end Yaclib.Pipeline
