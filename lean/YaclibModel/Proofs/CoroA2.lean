/- preservation of the structural invariant InvA: the steps of the awaiters -/
import YaclibModel.Proofs.CoroA
namespace Yaclib.Coro

macro "invA_auto2" : tactic =>
  `(tactic| (constructor <;> (try simp only [doStart, regFrom, afterReg, doReady, doMReady, regFail, doRegLoad, doCasOk, doMsub, doMsuspend,
      doTstore, doFire, doSubmit, doDrop, doResume, doCurrent, doLdtor, doRet, doPublish, doFdtor, State.setWord]) <;>
      grind [inOp, pcKindOk, ownKind, pcExec, awaitsCells, selfDone_ok, cbDone_ok, subNext_ok, inOp_selfDone, inOp_cbDone, inOp_subNext,
        pcExec_selfDone, pcExec_cbDone, pcExec_subNext, regKind_of_emptyBased, regKind_of_isMulti, awaitsCells_of_regKind,
        ctxOk_inl_of_emptyBased, ctxOk_inl_of_mld, isMulti_of_mld,
        List.length_set, List.length_replicate, drop_succ_of_cons]))

set_option maxHeartbeats 8000000 in
theorem invA_step_start {w s l s'} (ha : InvA w s) (hs : Step s l s') (hl : l = .start) : InvA w s' := by
  cases ha
  cases hs with
  | start op rest h ht =>
      cases hk : op.kind <;> (try (rename_i o; cases o)) <;>
      (constructor <;> (simp only [doStart, regFrom, afterReg, hk, isMulti, startExec, startCnt, selfDone]) <;>
        grind [inOp, pcKindOk, ownKind, pcExec, execOk, ctxOk, emptyBased, isMulti, regKind, awaitsCells, List.length_replicate])
  | _ => cases hl

set_option maxHeartbeats 8000000 in
theorem invA_step_aw {w s l s'} (ha : InvA w s) (hs : Step s l s')
    (hfire : ∀ j p op rest, p ∈ (s.word j).cbs → s.todo = op :: rest → inOp s.pc = true ∧ awaitsCells op.kind = true)
    (hl : match l with | .ready _ | .regLoad _ _ | .cas _ _ | .msub | .msuspend | .tstore | .fire _ _ | .resume _ _ => True
                       | _ => False) : InvA w s' := by
  cases ha
  cases hs with
  | ready x h => cases hb : awaitReady x <;> invA_auto2
  | mready v h => cases hb : decide (v = 1) <;> invA_auto2
  | regLoad op rest p j x h ht hj hx => cases hg : loadGoesOn (s.w.cell j).shared x <;> invA_auto2
  | casOk op rest p j l f h ht hj hw hu => invA_auto2
  | casRetry op rest p j h ht hj hw hu => invA_auto2
  | casFail op rest p j h ht hj hw => invA_auto2
  | msub op rest h ht => invA_auto2
  | msuspend op rest h ht => invA_auto2
  | tstore op rest j h ht hj => invA_auto2
  | fire op rest j p walk ht hw hp =>
      have hin := hfire j p op rest (by simp [hw, Word.cbs, hp]) ht
      invA_auto2
  | resume op rest c h ht => cases he : escapes s op <;> invA_auto2
  | _ => simp at hl

end Yaclib.Coro
