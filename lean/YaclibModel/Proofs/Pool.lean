/- C08: helper definitions, list lemmas and the invariants of the FairThreadPool model (Model/Pool.lean).
   Preservation proofs are in PoolA*.lean / PoolB*.lean / PoolC*.lean (split by label group). -/
import YaclibModel.Model.Pool
import YaclibModel.Proofs.PoolBits

namespace Yaclib.Pool
open Yaclib.Extracted.PoolConsts

/-! ### classification of program counters -/

/-- the worker has popped a job and not yet subtracted it from the counter -/
def WPc.running : WPc → Bool
  | .calling _ => true | .relock => true | .held true => true | _ => false

def WPc.isHeld : WPc → Bool
  | .held _ => true | _ => false

def WPc.isCalling (j : JobId) : WPc → Bool
  | .calling j' => j' == j | _ => false

/-- the worker will look at the queue (under the mutex) before it parks or leaves -/
def WPc.active : WPc → Bool
  | .start => true | .held _ => true | .calling _ => true | .relock => true | .woken => true | _ => false

/-- the worker has decided to leave `Loop` -/
def WPc.gone : WPc → Bool
  | .stopping => true | .exited => true | _ => false

def Sub.isHeld (sb : Sub) : Bool := sb.pc == .held
def Sub.isNotifying (sb : Sub) : Bool := sb.pc == .notifying

/-- submitter `j.sub` is inside `Submit(j)` and has neither pushed nor dropped `j` yet -/
def inFlight (s : State) (j : JobId) : Nat :=
  match s.subs[j.sub]? with
  | some sb => if sb.k = j.seq ∧ (sb.pc = .want ∨ sb.pc = .held ∨ sb.pc = .dropping) then 1 else 0
  | none => 0

def pendOf : WPc → List JobId
  | .calling j => [j] | _ => []

attribute [grind ext] JobId

theorem nodup_snoc {α : Type} {l : List α} {a : α} (h : l.Nodup) (ha : a ∉ l) : (l ++ [a]).Nodup := by
  rw [List.nodup_append]
  refine ⟨h, by simp, ?_⟩
  intro x hx y hy
  simp at hy; subst hy
  intro e; subst e; exact ha hx

/-! ### list lemmas -/

theorem countP_set_get {α : Type} (p : α → Bool) {l : List α} {i : Nat} {a : α} (h : l[i]? = some a) (b : α) :
    (l.set i b).countP p + (if p a then 1 else 0) = l.countP p + (if p b then 1 else 0) := by
  induction l generalizing i with
  | nil => simp at h
  | cons x xs ih =>
      cases i with
      | zero =>
          simp at h; subst h
          simp only [List.set_cons_zero, List.countP_cons]; omega
      | succ i =>
          simp at h
          have := ih h
          simp only [List.set_cons_succ, List.countP_cons]; omega

theorem countP_pos_get {α : Type} (p : α → Bool) {l : List α} {i : Nat} {a : α} (h : l[i]? = some a) (hp : p a = true) :
    0 < l.countP p := by
  have hm : a ∈ l := List.mem_of_getElem? h
  exact List.countP_pos_iff.mpr ⟨a, hm, hp⟩

theorem mem_set_cases {α : Type} {l : List α} {i : Nat} {b x : α} (h : x ∈ l.set i b) : x = b ∨ x ∈ l := by
  rcases List.mem_or_eq_of_mem_set h with h | h
  · exact Or.inr h
  · exact Or.inl h

theorem mem_set_self' {α : Type} {l : List α} {i : Nat} {a b : α} (h : l[i]? = some a) : b ∈ l.set i b := by
  have hlt : i < l.length := by
    rcases List.getElem?_eq_some_iff.mp h with ⟨hlt, _⟩; exact hlt
  exact List.mem_set hlt b

theorem mem_set_of_ne {α : Type} {l : List α} {i : Nat} {a b x : α} (hx : x ∈ l) (h : l[i]? = some a) (hne : a ≠ x) :
    x ∈ l.set i b := by
  obtain ⟨k, hk⟩ := List.mem_iff_getElem?.mp hx
  have hik : i ≠ k := by
    intro e; subst e; rw [h] at hk; cases hk; exact hne rfl
  apply List.mem_iff_getElem?.mpr
  exact ⟨k, by rw [List.getElem?_set]; simp [hik, hk]⟩

theorem countP_all_pos {α : Type} (p : α → Bool) {l : List α} (h : ∀ x ∈ l, p x = true) (hne : 0 < l.length) :
    0 < l.countP p := by
  cases l with
  | nil => simp at hne
  | cons x xs => exact List.countP_pos_iff.mpr ⟨x, by simp, h x (by simp)⟩

theorem countP_map_wake (p : WPc → Bool) (hp : ∀ pc, p (wake pc) = p pc) (l : List WPc) :
    (l.map wake).countP p = l.countP p := by
  rw [List.countP_map]
  apply List.countP_congr
  intro x _
  simp [hp x]

theorem running_wake (pc : WPc) : (wake pc).running = pc.running := by cases pc <;> rfl
theorem isHeld_wake (pc : WPc) : (wake pc).isHeld = pc.isHeld := by cases pc <;> rfl
theorem isCalling_wake (j : JobId) (pc : WPc) : (wake pc).isCalling j = pc.isCalling j := by cases pc <;> rfl
theorem gone_wake (pc : WPc) : (wake pc).gone = pc.gone := by cases pc <;> rfl

theorem parked_not_mem_wake (l : List WPc) : WPc.parked ∉ l.map wake := by
  intro h
  obtain ⟨pc, _, hpc⟩ := List.mem_map.mp h
  cases pc <;> simp [wake] at hpc

theorem mem_map_wake {l : List WPc} {pc : WPc} (h : pc ∈ l.map wake) : ∃ pc0 ∈ l, pc = wake pc0 := by
  obtain ⟨pc0, h0, h1⟩ := List.mem_map.mp h
  exact ⟨pc0, h0, h1.symm⟩

theorem active_wake_of_not_gone {pc : WPc} (h : pc.gone = false) : (wake pc).active = true := by
  cases pc <;> simp_all [wake, WPc.active, WPc.gone]

theorem active_of_not_gone_parked {pc : WPc} (h : pc.gone = false) (hp : pc ≠ .parked) : pc.active = true := by
  cases pc <;> simp_all [WPc.active, WPc.gone]

theorem eq_exited_wake {pc : WPc} (h : wake pc = .exited) : pc = .exited := by
  cases pc <;> simp_all [wake]

theorem dropPc_dropping {l l' : List JobId} (h : dropPc l = .dropping l') : l' = l ∧ l ≠ [] := by
  cases l with
  | nil => simp [dropPc] at h
  | cons a as => simp [dropPc] at h; subst h; simp

theorem dropPc_done {l : List JobId} (h : dropPc l = .done) : l = [] := by
  cases l with
  | nil => rfl
  | cons a as => simp [dropPc] at h

theorem dropPc_cases (l : List JobId) : (l = [] ∧ dropPc l = .done) ∨ (l ≠ [] ∧ dropPc l = .dropping l) := by
  cases l with
  | nil => left; simp [dropPc]
  | cons a as => right; simp [dropPc]

/-- pigeonhole for duplicate-free lists -/
theorem subset_of_nodup_length_le {α : Type} [DecidableEq α] {l1 l2 : List α} (h1 : l1.Nodup) (hs : ∀ x ∈ l1, x ∈ l2)
    (hl : l2.length ≤ l1.length) : ∀ x ∈ l2, x ∈ l1 := by
  induction l1 generalizing l2 with
  | nil =>
      intro x hx
      cases l2 with
      | nil => cases hx
      | cons y ys => simp at hl
  | cons a as ih =>
      intro x hx
      have ha : a ∈ l2 := hs a (by simp)
      have hnd := List.nodup_cons.mp h1
      by_cases hxa : x = a
      · subst hxa; simp
      · have hx' : x ∈ l2.erase a := (List.mem_erase_of_ne hxa).mpr hx
        have hs' : ∀ y ∈ as, y ∈ l2.erase a := by
          intro y hy
          have hya : y ≠ a := by intro e; subst e; exact hnd.1 hy
          exact (List.mem_erase_of_ne hya).mpr (hs y (by simp [hy]))
        have hl' : (l2.erase a).length ≤ as.length := by
          rw [List.length_erase_of_mem ha]; simp at hl; omega
        have := ih hnd.2 hs' hl' x hx'
        simp [this]

/-! ### the invariants -/

/-- counters, lock, stop bits -/
structure InvA (w : Workload) (s : State) : Prop where
  wlen : s.workers.length = w.workers
  kind_eq : s.kind = w.stop
  /-- `_jobs_count >> 2` = queued + running (+ what HardStop took away and never subtracts) -/
  cnt_jobs : s.cnt / 4 = s.queue.length + s.workers.countP WPc.running + s.stolen.length
  /-- the mutex is held by exactly the thread that is inside a critical section -/
  lock_cnt : s.workers.countP WPc.isHeld + s.subs.countP Sub.isHeld + (if s.xpc = .held then 1 else 0) =
    (if s.locked = true then 1 else 0)
  gone_was : ∀ pc ∈ s.workers, pc.gone = true → s.cnt % 2 = 1
  gone_queue : ∀ pc ∈ s.workers, pc.gone = true → s.queue = []
  x_pre : s.xpc = .idle ∨ s.xpc = .want ∨ s.xpc = .held → s.cnt % 4 = 0 ∧ s.stolen = [] ∧ s.kind ≠ none
  x_none : s.kind = none → s.xpc = .done ∧ s.cnt % 4 = 0 ∧ s.stolen = []
  x_na : s.xpc = .notifyAll → s.cnt % 2 = 1
  x_done : s.xpc = .done → s.kind ≠ none → s.cnt % 2 = 1 ∨ (s.kind = some .soft ∧ s.cnt / 2 % 2 = 1)
  x_drop : ∀ l, s.xpc = .dropping l → s.cnt % 2 = 1 ∧ s.kind = some .hard ∧ l ≠ []
  want_kind : s.cnt / 2 % 2 = 1 → s.kind = some .soft ∧ s.xpc = .done
  /-- SoftStop leaves the want bit only while a job is queued or running -/
  want_jobs : s.cnt / 2 % 2 = 1 → s.cnt % 2 = 0 → 1 ≤ s.cnt / 4
  stolen_kind : s.stolen ≠ [] → s.kind = some .hard ∧ s.cnt % 2 = 1
  wait_exited : s.waitReturned = true → ∀ pc ∈ s.workers, pc = .exited
  /-- `Submit` drops a job only if it saw the stop bit -/
  dropping_was : ∀ sb ∈ s.subs, sb.pc = .dropping → s.cnt % 2 = 1
  rejected_was : s.rejected ≠ [] → s.cnt % 2 = 1

/-- ghost histories -/
structure InvB (w : Workload) (s : State) : Prop where
  slen : s.subs.length = w.subs.length
  sub_wf : ∀ (i : Nat) (sb : Sub), s.subs[i]? = some sb → w.subs[i]? = some sb.total ∧ sb.k ≤ sb.total ∧ (sb.pc ≠ .idle → sb.k < sb.total)
  /-- FIFO: the accepted jobs in push order are the popped ones, then the queue, then what HardStop took -/
  acc_split : s.accepted = s.popped ++ s.queue ++ s.stolen
  sub_nodup : s.submitted.Nodup
  sub_bound : ∀ j ∈ s.submitted, ∀ sb : Sub, s.subs[j.sub]? = some sb → j.seq < sb.k ∨ (j.seq = sb.k ∧ sb.pc ≠ .idle)
  sub_all : ∀ (i : Nat) (sb : Sub), s.subs[i]? = some sb →
    (∀ k, k < sb.k → (⟨i, k⟩ : JobId) ∈ s.submitted) ∧ (sb.pc ≠ .idle → (⟨i, sb.k⟩ : JobId) ∈ s.submitted)
  /-- every submitted job is accepted, rejected or still inside `Submit` — exactly one of them -/
  sub_flight : ∀ j, s.submitted.count j = s.accepted.count j + s.rejected.count j + inFlight s j
  /-- every popped job has been Called or is about to be, by exactly one worker -/
  call_count : ∀ j, s.workers.countP (WPc.isCalling j) + s.started.count j = s.popped.count j
  hard_pre : s.xpc ≠ .done → (∀ l, s.xpc ≠ .dropping l) → s.hardDropped = []
  hard_drop : ∀ l, s.xpc = .dropping l → s.hardDropped ++ l = s.stolen
  hard_done : s.xpc = .done → s.hardDropped = s.stolen

/-- wake-ups are not lost -/
structure InvC (w : Workload) (s : State) : Prop where
  /-- once the stop bit is set and the `notify_all` that goes with it has been issued nobody is parked -/
  no_parked_after_stop : s.cnt % 2 = 1 → s.xpc ≠ .notifyAll → WPc.stopping ∉ s.workers → WPc.parked ∉ s.workers
  /-- a non-empty queue is watched: some worker is on its way to the queue, or a notification is still to come -/
  queue_watch : s.queue ≠ [] → 0 < w.workers →
    0 < s.workers.countP WPc.active + s.subs.countP Sub.isNotifying + (if s.xpc = .notifyAll then 1 else 0)

/-- with a single worker the Calls start in pop order -/
structure InvF (s : State) : Prop where
  fifo : ∀ pc, s.workers = [pc] → s.started ++ pendOf pc = s.popped

/-- splits the preservation proofs over several files (by label) so that they compile in parallel -/
def grpOf : Label → Nat
  | .submit _ _ => 0 | .lock (.sub _) => 0 | .unlock (.sub _) => 0 | .drop (.sub _) _ => 0 | .notifyOne _ _ => 0
  | .lock (.worker _) => 1 | .call _ _ => 1 | .spurious _ => 1 | .notifyAll (.worker _) => 1 | .drop (.worker _) _ => 1
  | .unlock (.worker _) => 2
  | .stopBegin _ => 3 | .lock .stopper => 3 | .unlock .stopper => 3 | .notifyAll .stopper => 3 | .drop .stopper _ => 3
  | .notifyAll (.sub _) => 3 | .waitReturn => 3

theorem grpOf_lt (l : Label) : grpOf l = 0 ∨ grpOf l = 1 ∨ grpOf l = 2 ∨ grpOf l = 3 := by
  cases l with
  | lock t => cases t <;> simp [grpOf]
  | unlock t => cases t <;> simp [grpOf]
  | drop t j => cases t <;> simp [grpOf]
  | notifyAll t => cases t <;> simp [grpOf]
  | _ => simp [grpOf]

theorem invA_init (w : Workload) : InvA w (init w) := by
  have hr : List.countP WPc.running (List.replicate w.workers WPc.start) = 0 := by
    apply List.countP_eq_zero.mpr; intro a ha; rw [List.eq_of_mem_replicate ha]; simp [WPc.running]
  have hh : List.countP WPc.isHeld (List.replicate w.workers WPc.start) = 0 := by
    apply List.countP_eq_zero.mpr; intro a ha; rw [List.eq_of_mem_replicate ha]; simp [WPc.isHeld]
  have hs : List.countP Sub.isHeld (w.subs.map fun n => ({ pc := .idle, k := 0, total := n } : Sub)) = 0 := by
    apply List.countP_eq_zero.mpr; intro a ha
    obtain ⟨n, _, hn⟩ := List.mem_map.mp ha
    subst hn; simp [Sub.isHeld]
  rcases w with ⟨n, subs, stop⟩
  cases stop <;> constructor <;> simp [init, Bits.initCount_eq, WPc.gone, hr, hh, hs]

/-! ### proof automation shared by the preservation files -/

/-- turn the extracted bit predicates / updates into arithmetic -/
macro "bits_simp" : tactic =>
  `(tactic| try simp only [Bits.wasStop_eq, Bits.wantStop_eq, Bits.noJobs_eq, Bits.loopSub_eq, Bits.stopSet_eq, Bits.softWant_eq,
      Bits.submitAdd_eq, cntAfter, Bool.and_eq_true, Bool.and_eq_false_iff, decide_eq_true_eq, decide_eq_false_iff_not,
      Bool.false_eq_true, ↓reduceIte] at *)

macro "unfold_do" : tactic =>
  `(tactic| try simp only [doSubmit, doSLock, doAccept, doReject, doSDrop, doNotifyNone, doNotifyOne, doWLock,
      doPop, doWStop, doWExit, doWWait, doCall, doWNotifyAll, doSpurious, doXLock, doXStop, doXSoftWant, doXHard, doXNotifyAll,
      doXDrop, countP_map_wake _ running_wake, countP_map_wake _ isHeld_wake, countP_map_wake _ (isCalling_wake _),
      List.length_map, List.length_set] at *)

/-- facts about `s.workers.set i _` from `h : s.workers[i]? = some pc` -/
macro "wfacts" h:ident : tactic =>
  `(tactic| (have hR := countP_set_get WPc.running $h
             have hH := countP_set_get WPc.isHeld $h
             have hAc := countP_set_get WPc.active $h
             have hCl := fun j => countP_set_get (WPc.isCalling j) $h
             have hMs := fun x b hx hne => @mem_set_of_ne _ _ _ _ b x hx $h hne
             have hmem := List.mem_of_getElem? $h))

/-- facts about `s.subs.set i _` from `h : s.subs[i]? = some sb` -/
macro "sfacts" h:ident : tactic =>
  `(tactic| (have hSH := countP_set_get Sub.isHeld $h
             have hsmem := List.mem_of_getElem? $h
             have hSN := countP_set_get Sub.isNotifying $h))

macro "invA_close" : tactic =>
  `(tactic| (constructor <;> unfold_do <;> bits_simp <;>
      grind [WPc.running, WPc.isHeld, WPc.gone, Sub.isHeld, dropPc_cases, mem_set_cases]))

macro "invB_close" : tactic =>
  `(tactic| (constructor <;> unfold_do <;> bits_simp <;> (try simp only [inFlight] at *) <;>
      grind [WPc.isCalling, dropPc_cases, mem_set_cases, nodup_snoc]))

theorem active_pos_of_no_parked {w : Workload} {s : State} (ha : InvA w s) (hq : s.queue ≠ [])
    (hn : WPc.parked ∉ s.workers) (hw : 0 < w.workers) : 0 < s.workers.countP WPc.active := by
  apply countP_all_pos
  · intro pc hpc
    apply active_of_not_gone_parked
    · cases hg : pc.gone with
      | false => rfl
      | true => exact absurd (ha.gone_queue pc hpc hg) hq
    · intro e; subst e; exact hn hpc
  · rw [ha.wlen]; exact hw

theorem active_pos_after_wake {w : Workload} {s : State} (ha : InvA w s) (hq : s.queue ≠ []) (hw : 0 < w.workers) :
    0 < (s.workers.map wake).countP WPc.active := by
  apply countP_all_pos
  · intro pc hpc
    obtain ⟨pc0, h0, h1⟩ := mem_map_wake hpc
    subst h1
    apply active_wake_of_not_gone
    cases hg : pc0.gone with
    | false => rfl
    | true => exact absurd (ha.gone_queue pc0 h0 hg) hq
  · rw [List.length_map, ha.wlen]; exact hw

macro "invC_close" : tactic =>
  `(tactic| (constructor <;> unfold_do <;> bits_simp <;>
      grind [WPc.active, WPc.gone, Sub.isNotifying, mem_set_cases, parked_not_mem_wake]))

end Yaclib.Pool
