import YaclibModel.Proofs.FiberSyncShared
namespace Yaclib.FiberSync.Sm
open Yaclib.FiberSync

set_option maxHeartbeats 4000000 in
theorem inv_step_4 {k s l s'} (hi : Inv k s) (hs : Step s l s') (hg : grpOf l = 4) : Inv k s' := by
  cases hs with
  | txFast f hk h ho => cases hi; sm_auto
  | txPark f t d j hk h ho ht => cases hi; sm_auto
  | txRecheckAcq f req hk h ho => cases hi; sm_auto
  | txRepark f req j hk h ho => cases hi; sm_auto
  | txTimeout f t req dl hk h hd ht => cases hi; sm_auto
  | _ => simp [grpOf] at hg

end Yaclib.FiberSync.Sm
