/- preservation of InvD: the resumption -/
import YaclibModel.Proofs.CoroD2
namespace Yaclib.Coro

theorem execAfter_not_cell {s : State} {c : Ctx} (h : ∀ j, c ≠ .cell j) : execAfter s c = s.exec := by
  cases c with
  | cell j => exact absurd rfl (h j)
  | inl => rfl
  | exec e => rfl

set_option maxHeartbeats 16000000 in
theorem invD_step_resume {w s l s'} (hi : Inv w s) (hd : InvD w s) (hs : Step s l s')
    (hl : match l with | .resume _ _ => True | _ => False) : InvD w s' := by
  have ha := hi.a
  have hb := hi.b
  cases hs with
  | resume op rest c h ht =>
      have hdec : decided s.pc = true := by rw [h]; rfl
      have hin : inOp s.pc = true := by rw [h]; rfl
      have hall : ∀ j, j ∈ op.cells → (s.word j).isResult = true := fun j hj => hb.all_res hdec op rest j ht hj
      have hop := prog_at_k ha ht
      have hpk := ha.pc_kind op rest ht
      rw [h] at hpk
      have hctx : ctxOk op.kind c = true := by simpa [pcKindOk] using hpk
      have hdrop : w.prog.drop s.k = op :: rest := by
        rcases ha.todo_eq with h1 | h1
        · rw [ht] at h1; exact h1.symm
        · rw [h1.2] at ht; cases ht
      have hkk := drop_succ_of_cons hdrop
      have hdone := allDone_of_all_res hall
      have hgot := got_eq_want ha.hw hall
      have hcell : ∀ j, c = .cell j → j ∈ op.cells := fun j hj => hb.wake_cell j (by rw [h, hj]) op rest ht
      have hown : ownKind op.kind = true → (c = .inl ∨ c = .exec s.ex0) ∧ execAfter s c = s.ex0 := by
        intro ho
        obtain ⟨h1, h2⟩ := ha.own_exec op rest ht hin ho
        rcases ctxOk_own_cases ho hctx with hc | ⟨e, hc⟩
        · subst hc; exact ⟨Or.inl rfl, h1⟩
        · subst hc
          have := h2 e (by rw [h]; rfl)
          subst this
          exact ⟨Or.inr rfl, h1⟩
      have hnamed : (∀ j, c ≠ .cell j) → op.kind ≠ .task → execAfter s c = startExec op.kind s.ex0 := by
        intro hc hk
        rw [execAfter_not_cell hc]
        exact hd.exec_op op rest ht hin (fun h => absurd h hk)
      have hesc : Rec.escaped w { k := s.k, op := op, ctx := c, allDone := allDoneOf s op, got := gotOf s op,
                                  exBefore := s.ex0, exAfter := execAfter s c } = escapes s op :=
        escaped_eq ha.hw rfl
      have hft := hd.failed_todo
      cases hd
      simp only [doResume]
      constructor <;>
        grind [inOp, outcome, finalRes, List.range_succ]
  | _ => simp at hl

end Yaclib.Coro
