import YaclibModel.Proofs.Pool
namespace Yaclib.Pool
open Yaclib.Extracted.PoolConsts

set_option maxHeartbeats 2000000 in
theorem invB_step_1 {w s l s'} (_ha : InvA w s) (hi : InvB w s) (hs : Step s l s') (hg : grpOf l = 1) : InvB w s' := by
  cases hs with
  | wLock i pc h hpc hl => wfacts h; cases hi; rcases hpc with hpc | hpc <;> subst hpc <;> invB_close
  | wRelock i h hl => wfacts h; cases hi; invB_close
  | wCall i j h => wfacts h; cases hi; invB_close
  | wSpurious i h => wfacts h; cases hi; invB_close
  | wNotifyAll i h => wfacts h; cases hi; invB_close
  | _ => simp [grpOf] at hg

end Yaclib.Pool
