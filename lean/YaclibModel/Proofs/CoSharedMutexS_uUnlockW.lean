import YaclibModel.Proofs.CoSharedMutexS_uUnlockW_1
import YaclibModel.Proofs.CoSharedMutexS_uUnlockW_2
import YaclibModel.Proofs.CoSharedMutexS_uUnlockW_3
import YaclibModel.Proofs.CoSharedMutexS_uUnlockW_4
namespace Yaclib.CoSharedMutex

theorem inv_uUnlockW {cfg : Cfg} {s : State} (hi : Inv cfg s) (c : Cid) (b : Branch) (n : Cid) (rest : List Cid) (h : s.pc c = .uUnl b) (hs : s.spin = .held c) (hb : needsWriter b = true) (hq : s.WQ = n :: rest) :
    Inv cfg ((doUUnlock s c b n rest)) := by
  have hbd : b = .runWriter ∨ (∃ sw, b = .stored sw) ∨ (∃ sr, b = .readersPass sr) ∨ (∃ sr, b = .passOnly sr) := by cases b <;> simp
  rcases hbd with hbr | ⟨sw, hbr⟩ | ⟨sr, hbr⟩ | ⟨sr, hbr⟩
  · cases hf : s.cfg.fifo
    · exact inv_uUnlockW_1 hi c b n rest h hs hb hq hbr hf
    · exact inv_uUnlockW_2 hi c b n rest h hs hb hq hbr hf
  · cases hf : s.cfg.fifo
    · exact inv_uUnlockW_3 hi c b n rest h hs hb hq sw hbr hf
    · exact inv_uUnlockW_4 hi c b n rest h hs hb hq sw hbr hf
  · rw [hbr] at hb; simp [needsWriter] at hb
  · rw [hbr] at hb; simp [needsWriter] at hb

end Yaclib.CoSharedMutex
