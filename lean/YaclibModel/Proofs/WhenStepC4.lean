import YaclibModel.Proofs.When
namespace Yaclib.When

set_option maxHeartbeats 4000000 in
theorem invc_step_4 {w s l s'} (hi : InvC w s) (hs : Step w s l s') (hg : l.grp = 4) : InvC w s' := by
  have hidx := @InvC.idx w s hi
  have hlast := @InvC.last_holder w s hi
  have hpos := @InvC.count_pos w s hi
  cases hi
  cases hs with
  | dec i store hc hp =>
      have hi' : i < w.n := hidx (by rw [hp]; simp)
      have hp' : 0 < s.count := hpos (i := i) (by rw [hp]; rfl) (by rw [hp]; simp)
      have hl : ∀ j, s.count = 1 → j < w.n → j ≠ i → holding (s.pc j) = false :=
        fun j h1 h2 h3 => hlast (i := i) h1 (by rw [hp]; rfl) (by rw [hp]; simp) h2 h3
      have h1 := dtorStart_cases w.strat s.pValid
      by_cases hc1 : s.count = 1
      · rcases h1 with h1 | h1 | h1 <;> simp only [doDec, hc1, h1.1, if_true] <;> invc_auto
      · simp only [doDec, hc1, if_false] <;> invc_auto
  | _ => simp [Label.grp] at hg

end Yaclib.When
