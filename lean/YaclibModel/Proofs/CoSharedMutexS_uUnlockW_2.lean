import YaclibModel.Proofs.CoSharedMutex
namespace Yaclib.CoSharedMutex

set_option maxHeartbeats 4000000 in
theorem inv_uUnlockW_2 {cfg : Cfg} {s : State} (hi : Inv cfg s) (c : Cid) (b : Branch) (n : Cid) (rest : List Cid) (h : s.pc c = .uUnl b) (hs : s.spin = .held c) (hb : needsWriter b = true) (hq : s.WQ = n :: rest) (hbr : b = .runWriter) (hf : s.cfg.fifo = true) :
    Inv cfg ((doUUnlock s c b n rest)) := by
  subst hbr
  have ⟨hn, hnr⟩ := head_pc_wq hi hq
  have hmem : ∀ x, x ∈ s.Q ↔ s.pc x = .rparked := fun x => mem_iff_of_count (hi.l_q x)
  have hst := hi.st_sw c
  have hlq := hi.l_qsize
  cases hi
  simp only [doUUnlock, hf, Bool.false_eq_true, ↓reduceIte]
  sm_auto [List.count_le_length]

end Yaclib.CoSharedMutex
