import YaclibModel.Proofs.FiberSync
namespace Yaclib.FiberSync.Mx
open Yaclib.FiberSync

set_option maxHeartbeats 4000000 in
theorem inv_step_0 {k s l s'} (hi : Inv k s) (hs : Step s l s') (hg : grpOf l = 0) : Inv k s' := by
  cases hi
  cases hs with
  | lockStart f h => mx_auto
  | lockAcq f k h ho => mx_auto
  | lockPark f k h ho => mx_auto
  | tryOk f h ho => mx_auto
  | tryFail f h ho => mx_auto
  | sleepStart f t d h ht => mx_auto
  | sleepWake f t dl h hd ht => mx_auto
  | finish f h => mx_auto
  | _ => simp [grpOf] at hg

end Yaclib.FiberSync.Mx
