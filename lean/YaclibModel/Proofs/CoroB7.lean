/- preservation of InvB: the fulfiller of an awaited object runs one of my callbacks -/
import YaclibModel.Proofs.CoroB6
namespace Yaclib.Coro

theorem cbDone_decided (k : AKind) (j e : Nat) : decided (cbDone k j e) = true := by cases k <;> rfl
theorem cbDone_regPos (k : AKind) (j e : Nat) : regPos (cbDone k j e) = none := by cases k <;> rfl
theorem cbDone_fresh (k : AKind) (j e : Nat) : freshPc (cbDone k j e) = false := by cases k <;> rfl
theorem cbDone_afterReg (k : AKind) (j e : Nat) : afterRegPc (cbDone k j e) = false := by cases k <;> rfl
theorem cbDone_ne_susp (k : AKind) (j e : Nat) : cbDone k j e ≠ .susp := by cases k <;> simp [cbDone]
theorem cbDone_ne_rdyL (k : AKind) (j e : Nat) (x : Obs) : cbDone k j e ≠ .rdyL x := by cases k <;> simp [cbDone]
theorem cbDone_cell (k : AKind) (j e j' : Nat) (h : cbDone k j e = .wake (.cell j')) : j' = j := by
  cases k <;> simp_all [cbDone]

theorem decided_facts {pc : CPc} (h : decided pc = true) :
    regPos pc = none ∧ freshPc pc = false ∧ afterRegPc pc = false ∧ inOp pc = true ∧ pc ≠ .susp ∧ (∀ x, pc ≠ .rdyL x) := by
  cases pc <;> simp_all [decided, regPos, freshPc, afterRegPc, inOp]

/-- InvB of a state in which the awaiter has decided: none of my callbacks is registered, nothing is pending, everything
    awaited is complete -/
theorem invB_of_decided {w : Workload} {s : State}
    (hfu : ∀ j l, s.word j = .open l true → w.unsafeCell j = true)
    (hno : ∀ j p, p ∉ (s.word j).cbs) (hdec : decided s.pc = true)
    (hnp : ∀ (q : Nat), s.st[q]? ≠ some CbSt.pending)
    (hall : ∀ op rest j, s.todo = op :: rest → j ∈ op.cells → (s.word j).isResult = true)
    (hwc : ∀ j, s.pc = .wake (.cell j) → ∀ op rest, s.todo = op :: rest → j ∈ op.cells) : InvB w s := by
  obtain ⟨h1, h2, h3, h4, h5, h6⟩ := decided_facts hdec
  constructor
  · exact hfu
  · intro j
    have : (s.word j).cbs = [] := List.eq_nil_iff_forall_not_mem.mpr (hno j)
    rw [this]; exact List.nodup_nil
  · intro j p hp; exact absurd hp (hno j p)
  · intro j p op rest hp; exact absurd hp (hno j p)
  · intro j p op rest hp; exact absurd hp (hno j p)
  · intro op rest p j _ _ _ hs; exact absurd hs (hnp p)
  · intro op rest p j ht _ hc _; exact hall op rest j ht (List.mem_iff_getElem?.mpr ⟨p, hc⟩)
  · intro p q x hp; rw [h1] at hp; cases hp
  · intro hf; rw [h2] at hf; cases hf
  · intro hf; rw [h3] at hf; cases hf
  · intro _; exact hnp
  · intro _; exact hall
  · intro hp; exact absurd hp (h6 _)
  · intro hp; exact absurd hp h5
  · exact hwc

theorem count_pos_of_getElem? {l : List CbSt} {p : Nat} {x : CbSt} (h : l[p]? = some x) : 0 < l.count x :=
  List.count_pos_iff.mpr (mem_of_getElem? h)

/-- what is known when a callback of mine is about to be run -/
theorem fire_pre {w : Workload} {s : State} {op : Op} {rest : List Op} {j p : Nat} {walk : List Nat}
    (hwf : w.WF) (ha : InvA w s) (hb : InvB w s) (hc : InvC w s) (ht : s.todo = op :: rest)
    (hw : s.word j = .result walk) (hp : p ∈ walk) :
    op.cells[p]? = some j ∧ s.st[p]? = some .pending ∧ inOp s.pc = true ∧ decided s.pc = false ∧ awaitsCells op.kind = true ∧
    (isMulti op.kind = false → s.pc = .susp ∧ op.cells.length = 1 ∧ p = 0 ∧ (counted op.kind = true → s.cnt = 1)) ∧
    (isMulti op.kind = true → s.cnt = 1 → s.pc = .susp ∧ s.st.count .pending = 1) := by
  have hpc : p ∈ (s.word j).cbs := by rw [hw]; exact hp
  obtain ⟨hcell, hst⟩ := hb.cbs_cell j p op rest hpc ht
  obtain ⟨hin, hnd⟩ := hb.cbs_inop j p hpc
  have hwfo := op_wf hwf ha ht
  have hpl := lt_of_getElem?_some hcell
  have haw : awaitsCells op.kind = true := by
    cases hk : awaitsCells op.kind with
    | true => rfl
    | false => have := wf_nocells hwfo hk; rw [this] at hpl; simp at hpl
  refine ⟨hcell, hst, hin, hnd, haw, ?_, ?_⟩
  · intro hm
    have hs := hb.cbs_single j p op rest hpc ht hm
    have hn1 := wf_single hwfo haw hm
    refine ⟨hs, hn1, by omega, ?_⟩
    intro hcnt
    exact hc.on_cnt op rest ht hcnt hm hin hnd
  · intro hm h1
    have hpos := count_pos_of_getElem? hst
    have hpart := count_partition s.st
    have hlen := ha.st_len op rest ht hin
    have hpk := ha.pc_kind op rest ht
    cases hpcv : s.pc with
    | susp => exact ⟨rfl, by have := (hc.multi_susp op rest ht hm hpcv).1; omega⟩
    | reg q => have := hc.multi_reg op rest ht hm (Or.inl (by rw [hpcv]; simp [regPos])); omega
    | cas q => have := hc.multi_reg op rest ht hm (Or.inl (by rw [hpcv]; simp [regPos])); omega
    | msub => have := hc.multi_reg op rest ht hm (Or.inr hpcv); omega
    | mld => have := hc.multi_mid op rest ht (Or.inl hpcv); omega
    | msusp => have := hc.multi_mid op rest ht (Or.inr (Or.inl hpcv)); omega
    | mrd v => have := hc.multi_mid op rest ht (Or.inr (Or.inr ⟨v, hpcv⟩)); omega
    | rdy => have := hb.fresh (by rw [hpcv]; rfl) p _ hst; cases this
    | rdyL x => have := hb.fresh (by rw [hpcv]; rfl) p _ hst; cases this
    | tstore => have := hb.fresh (by rw [hpcv]; rfl) p _ hst; cases this
    | idle => rw [hpcv] at hin; cases hin
    | fin => rw [hpcv] at hin; cases hin
    | done => rw [hpcv] at hin; cases hin
    | gone => rw [hpcv] at hin; cases hin
    | curr => rw [hpcv] at hnd; cases hnd
    | subm e => rw [hpcv] at hnd; cases hnd
    | queued e => rw [hpcv] at hnd; cases hnd
    | wake c => rw [hpcv] at hnd; cases hnd

end Yaclib.Coro
