/- Progress for the combinator model: in a state in which no step is enabled (and nothing crashed) every input's
   consumption has finished, the output has been set exactly once, every input was consumed and released exactly once. -/
import YaclibModel.Proofs.WhenValStep

namespace Yaclib.When

variable {w : Workload} {s : State}

theorem hasWord_cases {st : Strat} (h : st.hasWord = true) : st.usesFlag = true ∨ st = .anyFF ∨ st = .anyLF := by
  cases st with
  | allVec b => cases b <;> simp_all [Strat.hasWord, Strat.usesFlag]
  | allTuple b => cases b <;> simp_all [Strat.hasWord, Strat.usesFlag]
  | join b => cases b <;> simp_all [Strat.hasWord, Strat.usesFlag]
  | anyNone => left; rfl
  | anyFF => right; left; rfl
  | anyLF => right; right; rfl

/-- a consumption that has been entered and has not finished can always take its next step -/
theorem active_enabled (hC : InvC w s) (hc : s.crashed = false) {i : Nat} (ha : active (s.pc i) = true) :
    ∃ l s', Step w s l s' := by
  cases hp : s.pc i with
  | unreg => rw [hp] at ha; cases ha
  | pending => rw [hp] at ha; cases ha
  | done => rw [hp] at ha; cases ha
  | retire => exact ⟨_, _, .retire s i hc hp⟩
  | load =>
      rcases hasWord_cases (hC.word i (Or.inl hp)).1 with h | h | h
      · exact ⟨_, _, .loadFlag s i false hc hp h (by simp)⟩
      · exact ⟨_, _, .load3 s i .empty hc hp h (by cases s.st3 <;> rfl)⟩
      · exact ⟨_, _, .loadLf s i false hc hp h (by simp)⟩
  | rmw =>
      rcases hasWord_cases (hC.word i (Or.inr hp)).1 with h | h | h
      · exact ⟨_, _, .xchgFlag s i hc hp h⟩
      · cases hv : ok (w.inp i) with
        | true => exact ⟨_, _, .xchg3 s i hc hp h hv⟩
        | false => exact ⟨_, _, .cas3 s i hc hp h hv⟩
      · cases hv : ok (w.inp i) with
        | true => exact ⟨_, _, .xchgLf s i hc hp h hv⟩
        | false => exact ⟨_, _, .fsubLf s i hc hp h hv⟩
  | setOut o => exact ⟨_, _, .setOut s i o hc hp⟩
  | dec store => exact ⟨_, _, .dec s i store hc hp⟩
  | dtorRel j => exact ⟨_, _, .dtorRel s i j hc hp⟩
  | dtorSet =>
      cases ho : dtorOut w s with
      | some o => exact ⟨_, _, .dtorSet s i o hc hp ho⟩
      | none => exact ⟨_, _, .dtorThrow s i hc hp ho⟩
  | boom => exact ⟨_, _, .crash s i hc (Or.inl hp)⟩
  | dboom => exact ⟨_, _, .crash s i hc (Or.inr hp)⟩

theorem done_of_quiescent (hC : InvC w s) (hc : s.crashed = false) (hq : ∀ l s', ¬ Step w s l s') :
    ∀ i, i < w.n → s.pc i = .done := by
  have hact : ∀ i, active (s.pc i) = false := by
    intro i
    cases ha : active (s.pc i) with
    | false => rfl
    | true => obtain ⟨l, s', hs⟩ := active_enabled hC hc ha; exact absurd hs (hq l s')
  have hreg : s.reg = w.n := by
    have hle := hC.reg_le
    by_cases h : s.reg < w.n
    · exfalso
      cases hb : s.busy with
      | none => exact hq _ _ (.regSet s s.reg true hc hb rfl h)
      | some b => have := hC.busy b hb; rw [hact b] at this; cases this
    · omega
  intro i hi
  have hne : s.pc i ≠ .unreg := fun h => by have := (hC.unreg i).mp h; omega
  have ha := hact i
  cases hp : s.pc i with
  | unreg => exact absurd hp hne
  | pending => exact absurd (Step.fire s i hc hp) (hq _ _)
  | done => rfl
  | _ => rw [hp] at ha; cases ha

/-- at the end: output set exactly once, every input consumed and released exactly once -/
theorem complete_of_all_done (hC : InvC w s) (hO : InvO w s) (hn : w.n ≠ 0) (hd : ∀ i, i < w.n → s.pc i = .done) :
    s.outSet.length = 1 ∧ ∀ i, i < w.n → s.consumed i = 1 ∧ s.released i = 1 := by
  have hcnt : s.count = 0 := by
    rw [hC.count]
    exact cnt_all_false (fun i hi => by rw [hd i hi]; rfl)
  have hdt := hC.cnt_dt hcnt hn
  cases hk : s.dt with
  | none => exact absurd hk hdt
  | some k =>
      have hk' : k < w.n := by
        have h1 := hC.dt_pc k hk
        exact hC.idx (by intro h; rw [h] at h1; cases h1)
      have hv := hO.dt_done_out k hk (hd k hk')
      have hne : s.outSet ≠ [] := fun h => by have := hO.pvalid.mpr h; rw [hv] at this; cases this
      have hlen := hO.len
      refine ⟨?_, ?_⟩
      · cases ho : s.outSet with
        | nil => exact absurd ho hne
        | cons a t => rw [ho] at hlen; simp at hlen ⊢; exact hlen
      · intro i hi
        refine ⟨by rw [hC.consumed i, hd i hi]; rfl, ?_⟩
        cases hm : w.strat.managed with
        | true => rw [hC.released_m hm i, hd i hi]; rfl
        | false =>
            have hv : w.strat.isAllVec = true := by
              cases hst : w.strat <;> simp_all [Strat.managed, Strat.isAllVec]
            have hrel := hC.dt_done_rel k hk (hd k hk') hv
            rw [hC.released_o hm i, hrel]; simp [hi]

/-- ghost counters never exceed one -/
theorem consumed_released_le_one (hC : InvC w s) (i : Nat) : s.consumed i ≤ 1 ∧ s.released i ≤ 1 := by
  refine ⟨by rw [hC.consumed i]; split <;> omega, ?_⟩
  cases hm : w.strat.managed with
  | true => rw [hC.released_m hm i]; split <;> omega
  | false => rw [hC.released_o hm i]; split <;> omega

/-- every step only ever appends to the history of the output promise -/
theorem outSet_mono {l : Label} {s' : State} (hs : Step w s l s') :
    s'.outSet = s.outSet ∨ ∃ x, s'.outSet = s.outSet ++ [x] := by
  cases hs with
  | regSet i okb hc hb hr hn => cases okb <;> simp [doRegSet]
  | fire i hc hp => simp [doFire]
  | retire i hc hp => simp [doRetire]
  | loadFlag i b hc hp hs hb => simp [doLoadFlag, setPc]
  | xchgFlag i hc hp hs => simp only [doXchgFlag]; split <;> simp
  | setOut i o hc hp => right; exact ⟨o, rfl⟩
  | load3 i x hc hp hs hx => simp only [doLoad3, setPc]; split <;> simp
  | xchg3 i hc hp hs hv => simp only [doXchg3]; split <;> simp
  | cas3 i hc hp hs hv => simp only [doCas3]; split <;> simp
  | loadLf i d hc hp hs hd => simp [doLoadLf, setPc]
  | xchgLf i hc hp hs hv => simp only [doXchgLf]; split <;> simp
  | fsubLf i hc hp hs hv => simp only [doFsubLf]; split <;> simp
  | dec i store hc hp =>
      simp only [doDec]
      split
      · split <;> simp [setPc, finish]
      · simp [finish]
  | dtorRel i j hc hp =>
      simp only [doDtorRel]
      split
      · split
        · split <;> simp [setPc]
        · split <;> simp [setPc, finish]
      · simp [setPc]
  | dtorSet i o hc hp ho => right; exact ⟨o, by simp [doDtorSet, finish]⟩
  | dtorThrow i hc hp ho => simp [setPc]
  | crash i hc hp => simp

end Yaclib.When
