import YaclibModel.Proofs.CoSharedMutex
namespace Yaclib.CoSharedMutex

set_option maxHeartbeats 4000000 in
theorem inv_runR_2 {cfg : Cfg} {s : State} (hi : Inv cfg s) (c : Cid) (n : Cid) (rest : List Cid) (h : s.pc c = .uRunR) (ht : s.torun = n :: rest) (hr : ¬ rest = []) :
    Inv cfg ((doRunR s c n rest)) := by
  have ⟨hn, hnr⟩ := head_pc_torun hi ht
  cases hi
  simp only [doRunR, hr, ↓reduceIte]
  sm_auto [List.count_le_length]

end Yaclib.CoSharedMutex
