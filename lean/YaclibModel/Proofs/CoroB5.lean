/- preservation of InvB: a successful SetCallback, and the SetCallback steps put together -/
import YaclibModel.Proofs.CoroB4
namespace Yaclib.Coro

set_option maxHeartbeats 16000000 in
theorem invB_casOk {w : Workload} {s : State} {op : Op} {rest : List Op} {p j : Nat} {l : List Nat} {f : Bool}
    (hwf : w.WF) (ha : InvA w s) (hb : InvB w s) (ht : s.todo = op :: rest) (hp : regPos s.pc = some p)
    (hj : op.cells[p]? = some j) (hw : s.word j = .open l f) : InvB w (doCasOk s op p j l f) := by
  obtain ⟨hst, hpl, hin⟩ := st_at_reg ha hb ht hp
  have hwfo := op_wf hwf ha ht
  have hlen := ha.st_len op rest ht hin
  have hinj : ∀ q, op.cells[q]? = some j → q = p := fun q hq => wf_inj hwfo hq hj
  have hpk := ha.pc_kind op rest ht
  have hrk : regKind op.kind = true := by
    cases hpc : s.pc <;> simp_all [regPos, pcKindOk]
  have hpl' : p ∉ l := by
    intro hm
    have hq : p ∈ (s.word j).cbs := by rw [hw]; exact hm
    have := (hb.cbs_cell j p op rest hq ht).2
    rw [hst] at this; cases this
  have hnd : (p :: l).Nodup := by
    have := hb.nodup j; rw [hw] at this
    exact List.nodup_cons.mpr ⟨hpl', this⟩
  have hw' : (s.cells j).word = .open l f := hw
  have hns : isMulti op.kind = false → op.cells.length = 1 := fun hm => wf_single hwfo (awaitsCells_of_regKind hrk) hm
  simp only [doCasOk, regFrom, afterReg]
  split
  · cases hb; invB_reg_auto
  · split
    · cases hb; invB_reg_auto
    · rename_i hm
      have hn1 := wf_single hwfo (awaitsCells_of_regKind hrk) (by simpa using hm)
      have hp0 : p = 0 := by omega
      subst hp0
      have hcells : ∀ j', j' ∈ op.cells → j' = j := fun j' hj' => mem_single hn1 hj hj'
      split
      · cases hb; invB_reg_auto
      · rename_i h0
        exfalso; apply h0
        simp [show 0 < s.st.length by omega]

end Yaclib.Coro

namespace Yaclib.Coro

theorem obs_empty_iff {wd : Word} : wd.obs = .empty ↔ wd = .open [] false := by
  cases wd with
  | result l => simp [Word.obs]
  | «open» l f => cases l <;> cases f <;> simp [Word.obs]

set_option maxHeartbeats 16000000 in
theorem invB_step_reg {w s l s'} (hwf : w.WF) (ha : InvA w s) (hb : InvB w s) (hs : Step s l s')
    (hl : match l with | .regLoad _ _ | .cas _ _ => True | _ => False) : InvB w s' := by
  have hw := ha.hw
  cases hs with
  | regLoad op rest p j x h ht hj hx =>
      have hp : regPos s.pc = some p := by rw [h]; rfl
      simp only [doRegLoad]
      split
      · cases hb
        constructor <;> (try simp only [State.word] at *) <;> grind [inOp, decided, regPos, freshPc, afterRegPc]
      · rename_i hg
        apply invB_regFail hwf ha hb ht hp hj
        rw [hw] at hg
        cases hsh : (w.cell j).shared
        · -- unique: the load did not return kEmpty
          apply unique_nonempty_result hwf ha hb ht hp hj hsh
          intro he
          cases x with
          | empty => simp [loadGoesOn, hsh] at hg
          | cbs => have h1 : (s.word j).obs ≠ .empty := hx
                   rw [he] at h1; simp [Word.obs] at h1
          | result => have h1 : (s.word j).isResult = true := hx
                      rw [he] at h1; cases h1
        · cases x with
          | empty => simp [loadGoesOn, hsh] at hg
          | cbs => simp [loadGoesOn, hsh] at hg
          | result => exact hx
  | casOk op rest p j l f h ht hj hw hu => exact invB_casOk hwf ha hb ht (by rw [h]; rfl) hj hw
  | casRetry op rest p j h ht hj hw hu => exact hb
  | casFail op rest p j h ht hj hw' =>
      have hp : regPos s.pc = some p := by rw [h]; rfl
      apply invB_regFail hwf ha hb ht hp hj
      rw [hw] at hw'
      rcases hw' with ⟨_, hr⟩ | ⟨hsh, hne⟩
      · exact hr
      · exact unique_nonempty_result hwf ha hb ht hp hj hsh hne
  | _ => simp at hl

end Yaclib.Coro
