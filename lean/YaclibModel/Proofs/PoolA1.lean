import YaclibModel.Proofs.Pool
namespace Yaclib.Pool
open Yaclib.Extracted.PoolConsts

set_option maxHeartbeats 2000000 in
theorem invA_step_1 {w s l s'} (hi : InvA w s) (hs : Step s l s') (hg : grpOf l = 1) : InvA w s' := by
  cases hs with
  | wLock i pc h hpc hl => wfacts h; cases hi; rcases hpc with hpc | hpc <;> subst hpc <;> invA_close
  | wRelock i h hl => wfacts h; cases hi; invA_close
  | wCall i j h => wfacts h; cases hi; invA_close
  | wSpurious i h => wfacts h; cases hi; invA_close
  | wNotifyAll i h =>
      wfacts h
      have hmw := fun pc => @mem_map_wake (s.workers.set i .exited) pc
      cases hi
      constructor <;> unfold_do <;> bits_simp <;>
        grind [WPc.running, WPc.isHeld, WPc.gone, Sub.isHeld, dropPc_cases, mem_set_cases, gone_wake, eq_exited_wake, wake]
  | _ => simp [grpOf] at hg

end Yaclib.Pool
