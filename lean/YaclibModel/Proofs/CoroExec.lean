/- C13 over a real executor: the one-coroutine model composed with an executor given as an open transition system
   (`Yaclib.Strand.Exec`, Proofs/StrandTower.lean).

   In the plain model a submitted coroutine is Called or Dropped by an abstract contract executor (`exCall` / `exDrop`).  Here ONE
   named executor `ex` of the workload is a real executor model `E`; the other executor ids stay abstract contract executors:
     the model's `submit ex` (On(ex), AwaitOn(ex, …), Yield / sticky resumption when the coroutine's own executor is ex)
                        =  `sub j` of a fresh job j of `E`;
     the model's `exCall` from `queued ex`  =  `E` enters `call j`: the coroutine's next running segment is the body of job j;
     `ret j`            =  that body returns: possible once the segment is over (the coroutine is suspended, queued again, about to be
                           submitted by a completing thread, or finished) — for an older job of the coroutine at any time;
     `E`'s `drop j`     =  the model's `exDrop`: the coroutine is completed with StopError, its frame destroyed with its live locals.
   Drops are NOT excluded: they are what `stopped_executor_stop_error` / `frame_destroyed_once` are about.

   `xcoro_projects`: every reachable state of the composition projects onto a reachable state of the plain model and onto a
   protocol-honouring run of `E` — for EVERY `E`.  `resume_inside_call`: the segment resumed by `ex` runs inside a `call` of `E`.
   `xcoro_quiescent`: with `ExecContract E`, a composed state in which only the environment can act is one of the plain model. -/
import YaclibModel.Proofs.CoroProgress
import YaclibModel.Proofs.StrandTower

namespace Yaclib.Coro
open Yaclib.Strand (Exec XEv Prot Phase specPre specPost protInit ExecContract)

structure XState (E : Exec) where
  m : State
  x : E.σ
  p : Prot
  job : Option Nat      -- the job through which the coroutine sits in `E`'s queue
  calls : List Nat      -- jobs of the coroutine whose `Call()` has not returned yet (newest first)
  nj : Nat              -- next unused job number

/-- steps of the plain model that are events at the executor `ex` -/
def synced (ex : Nat) (m : State) : Label → Bool
  | .submit e => e == ex
  | .exCall => m.pc == .queued ex
  | .exDrop => m.pc == .queued ex
  | _ => false

/-- the running segment of the coroutine is over: the body of the job it runs in may return -/
def segEnded : CPc → Bool
  | .susp | .queued _ | .subm _ | .done | .gone => true
  | _ => false

inductive XLab where
  | plain (l : Label) | sub | call | drop | ret (j : Nat) | low

inductive XStep (E : Exec) (ex : Nat) : XState E → XLab → XState E → Prop where
  | plain {s : XState E} {l m'} : Step s.m l m' → synced ex s.m l = false → XStep E ex s (.plain l) { s with m := m' }
  | sub {s : XState E} {m' lx x'} : Step s.m (.submit ex) m' → E.step s.x lx x' → E.ev lx = some (.sub s.nj) →
      s.p s.nj = .fresh →
      XStep E ex s .sub { s with m := m', x := x', p := specPost s.p (.sub s.nj), job := some s.nj, nj := s.nj + 1 }
  | call {s : XState E} {j m' lx x'} : Step s.m .exCall m' → s.m.pc = .queued ex → s.job = some j → E.step s.x lx x' →
      E.ev lx = some (.call j) →
      XStep E ex s .call { s with m := m', x := x', p := specPost s.p (.call j), job := none, calls := j :: s.calls }
  | drop {s : XState E} {j m' lx x'} : Step s.m .exDrop m' → s.m.pc = .queued ex → s.job = some j → E.step s.x lx x' →
      E.ev lx = some (.drop j) →
      XStep E ex s .drop { s with m := m', x := x', p := specPost s.p (.drop j), job := none }
  | ret {s : XState E} {j lx x'} : E.step s.x lx x' → E.ev lx = some (.ret j) → j ∈ s.calls → s.p j = .calling →
      (s.calls.head? = some j → segEnded s.m.pc = true) →
      XStep E ex s (.ret j) { s with x := x', p := specPost s.p (.ret j), calls := s.calls.erase j }
  | low {s : XState E} {lx x'} : E.step s.x lx x' → E.ev lx = none → XStep E ex s .low { s with x := x' }

def xinit (w : Workload) (E : Exec) : XState E :=
  { m := init w, x := E.init, p := protInit, job := none, calls := [], nj := 0 }

inductive XReach (w : Workload) (E : Exec) (ex : Nat) : XState E → Prop where
  | init : XReach w E ex (xinit w E)
  | step {s l s'} : XReach w E ex s → XStep E ex s l s' → XReach w E ex s'

/-- **projection** (no assumption on `E`): the coroutine component is a reachable state of the plain model — every theorem of
    Props/C13 about `Reachable` applies — and the executor component is reached with a protocol-honouring client: the coroutine
    submits a job once and returns only from a body that was entered -/
theorem xcoro_projects {w : Workload} {E : Exec} {ex : Nat} {s : XState E} (h : XReach w E ex s) :
    Reachable w s.m ∧ E.Run s.x s.p := by
  induction h with
  | init => exact ⟨.init, .init⟩
  | step _ hs ih =>
      obtain ⟨hr, hl⟩ := ih
      cases hs with
      | plain hst _ => exact ⟨.step hr hst, hl⟩
      | sub hst hx hev hf => exact ⟨.step hr hst, .inp hl hx hev rfl hf⟩
      | call hst _ _ hx hev => exact ⟨.step hr hst, .out hl hx hev rfl⟩
      | drop hst _ _ hx hev => exact ⟨.step hr hst, .out hl hx hev rfl⟩
      | ret hx hev _ hc _ => exact ⟨hr, .inp hl hx hev rfl hc⟩
      | low hx hev => exact ⟨hr, .tau hl hx hev⟩

/-! ### how the program counter moves into and out of the executor's queue -/

/-- program positions that are neither "in a queue" nor "being resumed by an executor" -/
def pcSafe (pc : CPc) : Prop := (∀ e, pc ≠ .queued e) ∧ (∀ e, pc ≠ .wake (.exec e))

theorem pcSafe_selfDone (k : AKind) : pcSafe (selfDone k) := by cases k <;> simp [pcSafe, selfDone]
theorem pcSafe_cbDone (k : AKind) (j e : Nat) : pcSafe (cbDone k j e) := by cases k <;> simp [pcSafe, cbDone]
theorem pcSafe_subNext (k : AKind) : pcSafe (subNext k) := by cases k <;> simp [pcSafe, subNext]
theorem pcSafe_regFrom (s : State) (op : Op) (p : Nat) (h : pcSafe s.pc) : pcSafe (regFrom s op p).pc := by
  simp only [regFrom, afterReg]
  split
  · simp [pcSafe]
  · split
    · simp [pcSafe]
    · split
      · simp [pcSafe]
      · exact pcSafe_selfDone _

/-- what a step does to "in `e`'s queue" / "being resumed by `e`" -/
structure Track (m : State) (l : Label) (m' : State) (e : Nat) : Prop where
  into : m'.pc = .queued e → m.pc = .queued e ∨ l = .submit e
  outof : m.pc = .queued e → m'.pc = .queued e ∨ l = .exCall ∨ l = .exDrop
  wake : m'.pc = .wake (.exec e) → m.pc = .wake (.exec e) ∨ (l = .exCall ∧ m.pc = .queued e)

theorem track_same {m m' : State} {l : Label} {e : Nat} (h : m'.pc = m.pc) : Track m l m' e :=
  ⟨fun h' => Or.inl (by rw [← h]; exact h'), fun h' => Or.inl (by rw [h]; exact h'), fun h' => Or.inl (by rw [← h]; exact h')⟩

theorem track_safe {m m' : State} {l : Label} {e : Nat} (hsrc : ∀ e, m.pc ≠ .queued e) (hdst : pcSafe m'.pc) : Track m l m' e :=
  ⟨fun h' => absurd h' (hdst.1 e), fun h' => absurd h' (hsrc e), fun h' => absurd h' (hdst.2 e)⟩

theorem pc_track {w : Workload} {m : State} {l : Label} {m' : State} (hb : InvB w m) (hs : Step m l m') (e : Nat) :
    Track m l m' e := by
  cases hs with
  | pXchg j l f hw hl => exact track_same rfl
  | envPush j l f hw hu => exact track_same rfl
  | envSwap j e' hu => exact track_same rfl
  | fire op rest j p walk ht hw hp =>
      have hnd := (hb.cbs_inop j p (by rw [hw]; exact hp)).2
      have hsrc : ∀ e, m.pc ≠ .queued e := by intro e h; rw [h] at hnd; cases hnd
      have hsrc2 : ∀ e, m.pc ≠ .wake (.exec e) := by intro e h; rw [h] at hnd; cases hnd
      apply track_safe hsrc
      simp only [doFire]
      split
      · split
        · exact pcSafe_cbDone _ _ _
        · exact ⟨hsrc, hsrc2⟩
      · exact pcSafe_cbDone _ _ _
  | exCall e' h =>
      refine ⟨fun h' => (by cases h'), fun _ => Or.inr (Or.inl rfl), fun h' => ?_⟩
      right; simp only [CPc.wake.injEq, Ctx.exec.injEq] at h'; subst h'; exact ⟨rfl, h⟩
  | exDrop e' h =>
      exact ⟨fun h' => (by simp [doDrop] at h'), fun _ => Or.inr (Or.inr rfl), fun h' => (by simp [doDrop] at h')⟩
  | start op rest h ht =>
      apply track_safe (by rw [h]; simp)
      simp only [doStart]
      split <;> (try exact pcSafe_regFrom _ _ _ (by simp [pcSafe, h])) <;> simp [pcSafe]
  | rdLoad op rest j x h ht hj hx => exact track_safe (by rw [h]; simp) (by simp [pcSafe])
  | ready x h => apply track_safe (by rw [h]; simp); simp only [doReady]; split <;> simp [pcSafe]
  | mready v h => apply track_safe (by rw [h]; simp); simp only [doMReady]; split <;> simp [pcSafe]
  | regLoad op rest p j x h ht hj hx =>
      apply track_safe (by rw [h]; simp)
      simp only [doRegLoad, regFail]
      split
      · simp [pcSafe]
      · exact pcSafe_regFrom _ _ _ (by simp [pcSafe, h])
  | casOk op rest p j l f h ht hj hw hu =>
      exact track_safe (by rw [h]; simp) (pcSafe_regFrom _ _ _ (by simp [pcSafe, State.setWord, h]))
  | casRetry op rest p j h ht hj hw hu => exact track_same rfl
  | casFail op rest p j h ht hj hw =>
      exact track_safe (by rw [h]; simp) (pcSafe_regFrom _ _ _ (by simp [pcSafe, h]))
  | msub op rest h ht => exact track_safe (by rw [h]; simp) (pcSafe_subNext _)
  | mload v h hv => exact track_safe (by rw [h]; simp) (by simp [pcSafe])
  | msuspend op rest h ht =>
      apply track_safe (by rw [h]; simp)
      simp only [doMsuspend]
      split
      · exact pcSafe_selfDone _
      · simp [pcSafe]
  | tstore op rest j h ht hj => exact track_safe (by rw [h]; simp) (by simp [pcSafe, doTstore])
  | submit e' h =>
      refine ⟨fun h' => ?_, fun h' => (by rw [h] at h'; cases h'), fun h' => (by simp [doSubmit] at h')⟩
      simp only [doSubmit, CPc.queued.injEq] at h'; subst h'; exact Or.inr rfl
  | resume op rest c h ht => exact track_safe (by rw [h]; simp) (by simp [pcSafe, doResume])
  | current op rest h ht => exact track_safe (by rw [h]; simp) (by simp [pcSafe, doCurrent])
  | tdtor j h hl hr => exact track_same rfl
  | ret h ht => exact track_safe (by rw [h]; simp) (by simp [pcSafe, doRet])
  | ldtor h hl => exact track_same rfl
  | publish r h hr hl => exact track_safe (by rw [h]; simp) (by simp [pcSafe, doPublish])
  | fdtor h hl => exact track_safe (by rw [h]; simp) (by simp [pcSafe, doFdtor])

end Yaclib.Coro
