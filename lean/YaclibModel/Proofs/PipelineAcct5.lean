/- Every client event preserves the accounting invariant; the invariant along every event list. -/
import YaclibModel.Proofs.PipelineAcct4

namespace Yaclib.Pipeline
open Yaclib.Extracted

theorem wfProg_attach (p : Prog) (s : Step) (h : wfProg { p with steps := p.steps ++ [s] } = true) :
    wfProg p = true ∧ wfStep s = true := by
  simp only [wfProg, wfSteps_append, wfSteps, Bool.and_eq_true, Bool.and_true] at h
  exact h

theorem wfProg_clientEv (p : Prog) (h : Handle) (ev : Event) (hd : wfProg (clientEv (p, h) ev).1 = true) :
    wfProg p = true := by
  cases ev <;> cases h <;> simp only [clientEv] at hd <;> try exact hd
  all_goals first
    | exact (wfProg_attach _ _ hd).1
    | (split at hd
       · exact hd
       · exact (wfProg_attach _ _ hd).1)

theorem wfSteps_overrideHead (steps : List Step) (ovr : Option Exec) :
    wfSteps (overrideHead steps ovr) = wfSteps steps := by
  cases ovr with
  | none => cases steps <;> rfl
  | some e =>
    cases steps with
    | nil => rfl
    | cons a as =>
      cases a with
      | mk i sg m b => cases b <;> simp [overrideHead, wfSteps, wfStep]

theorem length_overrideHead (steps : List Step) (ovr : Option Exec) :
    (overrideHead steps ovr).length = steps.length := by
  cases ovr with
  | none => cases steps <;> rfl
  | some e =>
    cases steps with
    | nil => rfl
    | cons a as => cases a; rfl

theorem coresFrames_attach (s : Step) : ∀ (fs : List Frame), fs ≠ [] →
    coresFrames (attachFrames fs s) = coresFrames fs + 1 ∧ funsFrames (attachFrames fs s) = funsFrames fs + 1
  | [], h => (h rfl).elim
  | [f], _ => by simp [attachFrames, coresFrames, funsFrames]; omega
  | f :: f' :: fs, _ => by
    have := coresFrames_attach s (f' :: fs) (by simp)
    simp only [attachFrames, coresFrames, funsFrames] at this ⊢
    omega

theorem wfFrames_attach (s : Step) (hs : wfStep s = true) : ∀ (fs : List Frame), wfFrames fs = true →
    wfFrames (attachFrames fs s) = true
  | [], _ => rfl
  | [f], h => by
    simp only [wfFrames, Bool.and_true] at h
    simp [attachFrames, wfFrames, wfSteps_append, wfSteps, h, hs]
  | f :: f' :: fs, h => by
    simp only [wfFrames, Bool.and_eq_true] at h
    simp only [attachFrames, wfFrames, Bool.and_eq_true]
    exact ⟨h.1, wfFrames_attach s hs (f' :: fs) (by simp [wfFrames, h.2])⟩

theorem thread_attach_acct (t : Thread) (s : Step) (hs : wfStep s = true) (ht : wfThread t = true) :
    coresT (t.attach s) = coresT t + 1 ∧ funsT (t.attach s) = funsT t + 1 ∧ wfThread (t.attach s) = true := by
  simp only [wfThread, Bool.and_eq_true] at ht
  unfold Thread.attach
  cases ho : t.outer with
  | nil =>
    simp only [coresT, funsT, ho, coresFrames, funsFrames, List.length_append, List.length_cons, List.length_nil, wfThread,
      wfSteps_append, wfSteps, wfFrames, ht.1.1, ht.1.2, hs]
    exact ⟨by omega, by omega, by simp⟩
  | cons f fs =>
    have h1 := coresFrames_attach s (f :: fs) (by simp)
    have h2 := wfFrames_attach s hs (f :: fs) (by rw [← ho]; exact ht.2)
    simp only [coresT, funsT, ho, h1.1, h1.2, wfThread, ht.1.1, ht.1.2, h2]
    exact ⟨by omega, by omega, by simp⟩

theorem ainv_started (cfg : Cfg) (st0 : State) (steps : List Step) (hd flow : Bool) (s : Started) (p' : Prog) (h' : Handle)
    (hh : (h' = .fut ∧ st0.held = true) ∨ (h' = .none ∧ st0.held = false))
    (hsteps : wfSteps steps = true) (hne : hd = true → steps ≠ [])
    (hgo : ∀ r inh c g, s = .go r inh c g → Bal g ((if hd then 0 else 1) + steps.length) steps.length)
    (hwait : ∀ w inh g, s = .wait w inh g → Bal g (coresWait w + steps.length) (funsWait w + steps.length) ∧ wfWait w = true) :
    AInv (started cfg st0 steps hd flow s) p' h' := by
  cases s with
  | go r inh c g =>
    simp only [started]
    apply ainv_settle st0 _ p' h' hh
    exact runSteps_acct cfg steps hd flow _ r inh g 0 0 hsteps hne (by simpa using hgo r inh c g rfl)
  | wait w inh g =>
    have := hwait w inh g rfl
    simp only [started]
    apply ainv_settle st0 _ p' h' hh
    simp only [AcctOut, coresT, funsT, coresFrames, funsFrames, wfThread, wfFrames, this.2, hsteps]
    exact ⟨by simpa using this.1, by simp⟩
  | crash g => exact Or.inl (by simp [started, settle])

theorem ainv_step (cfg : Cfg) (st : State) (p : Prog) (h : Handle) (ev : Event)
    (hinv : wfProg p = true → AInv st p h)
    (hd' : wfProg (clientEv (p, h) ev).1 = true) :
    AInv (mech cfg st ev) (clientEv (p, h) ev).1 (clientEv (p, h) ev).2 := by
  have hdp := wfProg_clientEv p h ev hd'
  have hi := hinv hdp
  obtain ⟨ctl, held, ended, got, result, crashed, g⟩ := st
  cases hi with
  | inl hc =>
    simp only at hc
    subst hc
    exact Or.inl (by simp [mech])
  | inr hi =>
  cases crashed with
  | true => exact Or.inl (by simp [mech])
  | false =>
  simp only at hi
  unfold mech
  simp only [Bool.false_eq_true, ite_false]
  cases ctl with
  | idle => exact hi.elim
  | task src steps =>
    obtain ⟨h1, h2, h3, h4, h5⟩ := hi
    subst h1 h3
    cases ev with
    | attach s =>
      cases hdm : s.mode.isDetach
      · simp only [clientEv, hdm, Bool.false_eq_true, ite_false] at hd' ⊢
        refine Or.inr ⟨rfl, by simp [h2], rfl, fun _ => by simp, ?_⟩
        simp only [Bal, cnt_allocFunctor, cnt_allocCore, List.length_append, List.length_cons, List.length_nil] at h5 ⊢
        omega
      · simp only [clientEv, hdm, ite_true]
        exact Or.inr ⟨rfl, h2, rfl, h4, h5⟩
    | start sk =>
      simp only [clientEv]
      have hsteps : wfSteps steps = true := by
        have := hdp; simp only [wfProg, h2] at this; exact this
      have hsp := startLazy_acct cfg src sk.ovr none g
      refine ainv_started cfg _ _ _ true _ _ _ ?_ ?_ ?_ ?_ ?_
      · cases hk : sk.holds
        · exact Or.inr ⟨by simp, rfl⟩
        · exact Or.inl ⟨by simp, rfl⟩
      · rw [wfSteps_overrideHead]; exact hsteps
      · intro hu he
        have := h4 hu
        cases steps with
        | nil => exact this rfl
        | cons a as =>
          cases hov : (if (src == Src.unit) = true then sk.ovr else none) with
          | none => rw [hov] at he; simp [overrideHead] at he
          | some e => rw [hov] at he; cases a; simp [overrideHead] at he
      · intro r inh c g' hgo
        rw [hgo] at hsp
        simp only [Bal, hsp, length_overrideHead]
        simp only [Bal] at h5
        rw [srcCores_eq] at h5
        cases hu : (src == Src.unit) <;> simp [hu] at h5 ⊢ <;> omega
      · intro w inh g' hw
        rw [hw] at hsp
        obtain ⟨a1, a2, a3, a4, a5⟩ := hsp
        refine ⟨?_, a5⟩
        simp only [Bal, a1, length_overrideHead, a3]
        simp only [Bal, a4] at h5
        omega
    | src s lazy head => exact Or.inr ⟨rfl, h2, rfl, h4, h5⟩
    | set q => exact Or.inr ⟨rfl, h2, rfl, h4, h5⟩
    | call k => exact Or.inr ⟨rfl, h2, rfl, h4, h5⟩
    | dropFuture => exact Or.inr ⟨rfl, h2, rfl, h4, h5⟩
    | get => exact Or.inr ⟨rfl, h2, rfl, h4, h5⟩
  | future r inh =>
    obtain ⟨h1, h2, h3⟩ := hi
    subst h1 h2
    cases ev with
    | attach s =>
      have hws := (wfProg_attach p s (by simpa [clientEv] using hd')).2
      simp only [clientEv, Bool.not_true, Bool.false_eq_true, ite_false]
      have hacct : AcctOut 0 0 [] (runSteps cfg [s] false false none r inh g.allocCore.allocFunctor) := by
        apply runSteps_acct cfg [s] false false none r inh _ 0 0 (by simp [wfSteps, hws]) (by intro h; cases h)
        simp only [Bal, cnt_allocFunctor, cnt_allocCore] at h3 ⊢
        simp at h3 ⊢
        omega
      cases hdm : s.mode.isDetach
      · simp only [Bool.false_eq_true, ite_false]
        exact ainv_settle _ _ _ _ (Or.inl ⟨rfl, rfl⟩) hacct
      · simp only [ite_true]
        exact ainv_settle _ _ _ _ (Or.inr ⟨rfl, rfl⟩) hacct
    | dropFuture =>
      simp only [clientEv, ite_true]
      refine Or.inr ⟨rfl, ?_⟩
      simp only [Bal, cnt_freeCore] at h3 ⊢
      omega
    | get =>
      simp only [clientEv, ite_true]
      refine Or.inr ⟨rfl, ?_⟩
      simp only [Bal, cnt_freeCore] at h3 ⊢
      omega
    | src s lazy head => exact Or.inr ⟨rfl, rfl, h3⟩
    | set q => exact Or.inr ⟨rfl, rfl, h3⟩
    | call k => exact Or.inr ⟨rfl, rfl, h3⟩
    | start sk => exact Or.inr ⟨rfl, rfl, h3⟩
  | pending t =>
    obtain ⟨h1, h2, h3⟩ := hi
    cases ev with
    | attach s =>
      cases h1 with
      | inl h1 =>
        obtain ⟨a1, a2⟩ := h1
        subst a1 a2
        have hws := (wfProg_attach p s (by simpa [clientEv] using hd')).2
        simp only [clientEv, Bool.not_true, Bool.false_eq_true, ite_false]
        obtain ⟨b1, b2, b3⟩ := thread_attach_acct t s hws h3
        have hb : Bal g.allocCore.allocFunctor (coresT (t.attach s)) (funsT (t.attach s)) := by
          simp only [Bal, cnt_allocFunctor, cnt_allocCore, b1, b2] at h2 ⊢
          omega
        cases hdm : s.mode.isDetach
        · exact Or.inr ⟨Or.inl ⟨by simp, rfl⟩, hb, b3⟩
        · exact Or.inr ⟨Or.inr ⟨by simp, rfl⟩, hb, b3⟩
      | inr h1 =>
        obtain ⟨a1, a2⟩ := h1
        subst a1 a2
        exact Or.inr ⟨Or.inr ⟨rfl, rfl⟩, h2, h3⟩
    | set q =>
      simp only [clientEv]
      cases hw : t.wait with
      | job jid k jk => exact Or.inr (by simp only []; exact ⟨h1, h2, h3⟩)
      | promise q' f =>
        simp only []
        by_cases hq : q = q'
        · simp only [hq, ite_true]
          exact ainv_settle _ _ _ _ h1 (resume_acct cfg t none (g.markSet q') 0 0 h3 (by simpa [Bal, cnt] using h2))
        · simp only [hq, ite_false]
          exact Or.inr ⟨h1, h2, h3⟩
    | call k =>
      simp only [clientEv]
      cases hw : t.wait with
      | promise q' f => exact Or.inr (by simp only []; exact ⟨h1, h2, h3⟩)
      | job jid k' jk =>
        simp only []
        by_cases hq : k = k'
        · simp only [hq, ite_true]
          exact ainv_settle _ _ _ _ h1 (resume_acct cfg t (some k') g 0 0 h3 (by simpa using h2))
        · simp only [hq, ite_false]
          exact Or.inr ⟨h1, h2, h3⟩
    | dropFuture =>
      cases h1 with
      | inl h1 => obtain ⟨a1, a2⟩ := h1; subst a1 a2; exact Or.inr ⟨Or.inr ⟨rfl, rfl⟩, h2, h3⟩
      | inr h1 => obtain ⟨a1, a2⟩ := h1; subst a1 a2; exact Or.inr ⟨Or.inr ⟨rfl, rfl⟩, h2, h3⟩
    | get =>
      cases h1 with
      | inl h1 => obtain ⟨a1, a2⟩ := h1; subst a1 a2; exact Or.inr ⟨Or.inr ⟨rfl, rfl⟩, h2, h3⟩
      | inr h1 => obtain ⟨a1, a2⟩ := h1; subst a1 a2; exact Or.inr ⟨Or.inr ⟨rfl, rfl⟩, h2, h3⟩
    | src s lazy head =>
      cases h1 with
      | inl h1 => obtain ⟨a1, a2⟩ := h1; subst a1 a2; exact Or.inr ⟨Or.inl ⟨rfl, rfl⟩, h2, h3⟩
      | inr h1 => obtain ⟨a1, a2⟩ := h1; subst a1 a2; exact Or.inr ⟨Or.inr ⟨rfl, rfl⟩, h2, h3⟩
    | start sk =>
      cases h1 with
      | inl h1 => obtain ⟨a1, a2⟩ := h1; subst a1 a2; exact Or.inr ⟨Or.inl ⟨rfl, rfl⟩, h2, h3⟩
      | inr h1 => obtain ⟨a1, a2⟩ := h1; subst a1 a2; exact Or.inr ⟨Or.inr ⟨rfl, rfl⟩, h2, h3⟩
  | gone =>
    obtain ⟨h1, h2⟩ := hi
    subst h1
    cases ev <;> exact Or.inr ⟨rfl, h2⟩

end Yaclib.Pipeline

namespace Yaclib.Pipeline
open Yaclib.Extracted

theorem ainv_fold (cfg : Cfg) : ∀ (evs : List Event) (st : State) (p : Prog) (h : Handle),
    (wfProg p = true → AInv st p h) →
    wfProg (evs.foldl clientEv (p, h)).1 = true →
    AInv (run cfg st evs) (evs.foldl clientEv (p, h)).1 (evs.foldl clientEv (p, h)).2
  | [], st, p, h, hinv, hd => hinv hd
  | ev :: evs, st, p, h, hinv, hd => by
    rw [run_cons]
    simp only [List.foldl_cons] at hd ⊢
    exact ainv_fold cfg evs (mech cfg st ev) (clientEv (p, h) ev).1 (clientEv (p, h) ev).2
      (fun hd' => ainv_step cfg st p h ev hinv hd') hd

theorem ainv_src (cfg : Cfg) (s : Src) (lazy : Bool) (head : Option Step)
    (hwf : ((s == Src.unit) != head.isSome) = false)
    (hd : wfProg ⟨s, lazy, head.toList, none⟩ = true) :
    AInv (mech cfg {} (.src s lazy head)) ⟨s, lazy, head.toList, none⟩ (if lazy then .task else .fut) := by
  have hunit : (s == Src.unit) = head.isSome := by
    cases h1 : (s == Src.unit) <;> cases h2 : head.isSome <;> simp_all
  have hne : (s == Src.unit) = true → head.toList ≠ [] := by
    intro h; rw [hunit] at h; cases head <;> simp_all
  simp only [mech, Bool.false_eq_true, ite_false, hwf]
  cases lazy with
  | true =>
    refine Or.inr ⟨rfl, rfl, rfl, hne, ?_⟩
    simp [Bal, cnt, G.allocCore, G.allocFunctor]
  | false =>
    simp only [Bool.false_eq_true, ite_false]
    have hsp := startSrc_acct cfg s none
      ((G.allocCore {} (srcCores s + head.toList.length)).allocFunctor (srcFunctors s + head.toList.length))
    refine ainv_started cfg _ _ _ false _ _ _ (Or.inl ⟨rfl, rfl⟩) hd hne ?_ ?_
    · intro r inh c g' hgo
      rw [hgo] at hsp
      simp only [Bal, hsp, cnt_allocFunctor, cnt_allocCore]
      rw [srcCores_eq]
      cases hu : (s == Src.unit) <;> simp [cnt, G.allocCore, G.allocFunctor]
    · intro w inh g' hw
      rw [hw] at hsp
      obtain ⟨a1, a2, a3, a4, a5⟩ := hsp
      refine ⟨?_, a5⟩
      simp only [Bal, a1, cnt_allocFunctor, cnt_allocCore, a3, a4]
      simp [cnt, G.allocCore, G.allocFunctor]
      omega

/-- **the accounting invariant holds after every list of client events** (for well-formed programs) -/
theorem ainv_run (cfg : Cfg) : ∀ (evs : List Event),
    match client evs with
    | none => run cfg {} evs = {}
    | some (p, h) => wfProg p = true → AInv (run cfg {} evs) p h
  | [] => rfl
  | ev :: evs => by
    rw [run_cons]
    cases ev with
    | src s lazy head =>
      simp only [client]
      cases hwf : ((s == Src.unit) != head.isSome)
      · simp only [Bool.false_eq_true, ite_false]
        intro hd
        exact ainv_fold cfg evs _ _ _ (fun hd0 => ainv_src cfg s lazy head hwf hd0) hd
      · simp only [ite_true]
        rw [mech_idle cfg _ (fun s' l' h' he => by cases he; exact hwf)]
        exact ainv_run cfg evs
    | attach s => rw [mech_idle cfg _ (fun _ _ _ he => by cases he)]; exact ainv_run cfg evs
    | set p => rw [mech_idle cfg _ (fun _ _ _ he => by cases he)]; exact ainv_run cfg evs
    | call k => rw [mech_idle cfg _ (fun _ _ _ he => by cases he)]; exact ainv_run cfg evs
    | start k => rw [mech_idle cfg _ (fun _ _ _ he => by cases he)]; exact ainv_run cfg evs
    | dropFuture => rw [mech_idle cfg _ (fun _ _ _ he => by cases he)]; exact ainv_run cfg evs
    | get => rw [mech_idle cfg _ (fun _ _ _ he => by cases he)]; exact ainv_run cfg evs

end Yaclib.Pipeline
