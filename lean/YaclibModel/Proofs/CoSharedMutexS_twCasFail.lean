import YaclibModel.Proofs.CoSharedMutexS_twCasFail_1
import YaclibModel.Proofs.CoSharedMutexS_twCasFail_2
namespace Yaclib.CoSharedMutex

theorem inv_twCasFail {cfg : Cfg} {s : State} (hi : Inv cfg s) (c : Cid) (h : s.pc c = .twLoaded) (hne : ¬ (s.W = 0 ∧ s.R = 0)) :
    Inv cfg ((failW s c)) := by
  by_cases ht' : curOp s c = .tryWr
  · exact inv_twCasFail_1 hi c h hne ht'
  · exact inv_twCasFail_2 hi c h hne ht'

end Yaclib.CoSharedMutex
