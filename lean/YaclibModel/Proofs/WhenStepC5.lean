import YaclibModel.Proofs.When
namespace Yaclib.When

set_option maxHeartbeats 4000000 in
theorem invc_step_5 {w s l s'} (hi : InvC w s) (hs : Step w s l s') (hg : l.grp = 5) : InvC w s' := by
  have hidx := @InvC.idx w s hi
  have hlast := @InvC.last_holder w s hi
  have hpos := @InvC.count_pos w s hi
  have hdr := hi.dtorRel
  cases hi
  cases hs with
  | dtorRel i j hc hp =>
      have hi' : i < w.n := hidx (by rw [hp]; simp)
      cases hst : w.strat with
      | allVec b =>
          cases b
          · by_cases hj : j + 1 < w.n <;> simp only [doDtorRel, hst, hj, if_true, if_false] <;> invc_auto
          · by_cases hv : s.pValid = true <;> by_cases hj : j + 1 < w.n <;> cases hok : ok (w.inp j) <;>
              simp only [doDtorRel, hst, hj, hv, hok, if_true, if_false] <;> invc_auto
      | _ => have := (hdr i j hp).2.2; simp [hst, Strat.isAllVec] at this
  | _ => simp [Label.grp] at hg

end Yaclib.When
