import YaclibModel.Proofs.CoSharedMutex
namespace Yaclib.CoSharedMutex

set_option maxHeartbeats 4000000 in
theorem inv_step_1 {cfg s l s'} (hi : Inv cfg s) (hs : Step s l s') (hg : grpOf l = 1) : Inv cfg s' := by
  cases hs with
  | spinLoad c k sawFree h =>
      cases hi
      cases k <;> cases sawFree <;> simp only [Bool.not_true, Bool.not_false] <;> sm_auto [List.count_le_length]
  | rdUnlock c h hs =>
      have hpb := pendBy_none_of_held hi hs (by rw [h]; rfl)
      have hpd := hi.pend_none hpb
      have hc1 : s.ifl.count c = 1 := by have := hi.l_ifl c; rw [h] at this; simpa [Pc.isIFL] using this
      have hl := len_pos_of_count hc1
      have hWne : s.pass = 0 → s.W ≠ 0 := by
        intro hp0 hW0; have := (hi.j1 hW0).1; omega
      cases hi
      by_cases hp : s.pass = 0
      · cases hr : s.cfg.rfifo <;>
          simp only [doRdUnlock, hp, hr, ne_eq, not_true_eq_false, Bool.false_eq_true, ↓reduceIte] <;> sm_auto [List.count_le_length]
      · simp only [doRdUnlock, hp, ne_eq, not_false_eq_true, ↓reduceIte]; sm_auto [List.count_le_length]
  | _ => simp [grpOf] at hg

end Yaclib.CoSharedMutex
