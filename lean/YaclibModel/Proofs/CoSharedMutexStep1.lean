import YaclibModel.Proofs.CoSharedMutex
namespace Yaclib.CoSharedMutex

set_option maxHeartbeats 4000000 in
theorem inv_step_1 {cfg s l s'} (hi : Inv cfg s) (hs : Step s l s') (hg : grpOf l = 1) : Inv cfg s' := by
  cases hi
  cases hs with
  | spinLoad c k sawFree h => cases k <;> cases sawFree <;> simp only [Bool.not_true, Bool.not_false] <;> sm_dbg [List.count_le_length]
  | rdUnlock c h hs =>
      by_cases hp : s.pass = 0
      · cases hr : s.cfg.rfifo <;>
          simp only [doRdUnlock, hp, hr, ne_eq, not_true_eq_false, Bool.false_eq_true, ↓reduceIte] <;> sm_dbg [List.count_le_length]
      · simp only [doRdUnlock, hp, ne_eq, not_false_eq_true, ↓reduceIte]; sm_dbg [List.count_le_length]
  | _ => simp [grpOf] at hg

end Yaclib.CoSharedMutex
