/- C16: preservation of the job invariant (part 3) — steps that do not act on a job, and the steps of `SetImpl` -/
import YaclibModel.Proofs.EventJobAuto

namespace Yaclib.Event
variable {s s' : State} {l : Label} {w : Workload}

attribute [local grind =] Pc.setter Pc.releasing Pc.owner Pc.bphase JSt.inList List.nodup_cons
attribute [local grind →] Pc.bphase_owner

/-- steps that do not act on a job: only the program counter / program of thread `t` (not in an owner or setter phase before
    or after) and things outside the jobs change -/
macro "j_nojob" hi:ident t:term:max : tactic => `(tactic| (constructor; j_solve $hi $t 0))

set_option maxHeartbeats 4000000 in
theorem invJ_step_count (hi : InvJ s) (hs : Step s l s')
    (hl : (∃ t k o, l = .fadd t k o) ∨ (∃ t k o, l = .fsub t k o) ∨ (∃ t f x, l = .fLoad t f x) ∨ (∃ t f b, l = .fCas t f b) ∨
      (∃ t f o, l = .pXchg t f o) ∨ (∃ t f b, l = .rdy t f b)) : InvJ s' := by
  cases hs with
  | tAdd t k rest h hp =>
      simp only [doAdd, finish, setT]
      j_nojob hi t
  | tDone t k rest h hp =>
      simp only [doSub]
      split <;> j_nojob hi t
  | tInsAdd t consume fs rest h hp hne =>
      simp only [doInsAdd]
      j_nojob hi t
  | tInsLoad t f rest c wc consume x h hx =>
      simp only [doInsLoad, insFail, insNext, goto, finish, setT]
      repeat' split
      all_goals j_nojob hi t
  | tInsCasOk t f rest c wc consume h hw =>
      simp only [doInsCasOk, insNext, goto, finish, setT]
      repeat' split
      all_goals j_nojob hi t
  | tInsCasFail t f rest c wc consume h hw =>
      simp only [insFail, insNext, goto, finish, setT]
      repeat' split
      all_goals j_nojob hi t
  | tInsSub t k h =>
      simp only [doSub]
      split <;> j_nojob hi t
  | tFulfil t f rest h hp =>
      simp only [doFulfil, goto, finish, setT]
      split <;> j_nojob hi t
  | tCbSub t f rest h hp =>
      simp only [doCbSub, doSub]
      split <;> j_nojob hi t
  | tReadyLoad t f rest h hp =>
      simp only [goto, setT]
      j_nojob hi t
  | tReady t f b c h =>
      simp only [finish, setT]
      j_nojob hi t
  | _ => rcases hl with ⟨_, _, _, hl⟩ | ⟨_, _, _, hl⟩ | ⟨_, _, _, hl⟩ | ⟨_, _, _, hl⟩ | ⟨_, _, _, hl⟩ | ⟨_, _, _, hl⟩ <;> cases hl

set_option maxHeartbeats 4000000 in
theorem invJ_tXchgHead (ht : InvT s) (hi : InvJ s) (t : Nat) (h : (s.thr t).pc = .xchgHead) : InvJ (doXchgHead s t) := by
  have hx := ht.t_xh t h
  have h1 := ht.t_one t
  simp only [doXchgHead, runNext, goto, finish, setT]
  repeat' split
  all_goals (constructor; j_solve hi t 0)

set_option maxHeartbeats 4000000 in
theorem invJ_tRunLock (hi : InvJ s) (t j : Nat) (rest : List Nat)
    (h : (s.thr t).pc = .run (j :: rest) false) (hk : (s.job j).kind ≠ .coro) (hm : (s.job j).holder = none) :
    InvJ (doRunLock s t j rest) := by
  have hl := hi.l_run t _ _ h
  simp only [doRunLock, touch, goto, setT]
  constructor
  j_solve hi t j

set_option maxHeartbeats 4000000 in
theorem invJ_tRunUnlock (ht : InvT s) (hi : InvJ s) (t j : Nat) (rest : List Nat)
    (h : (s.thr t).pc = .run (j :: rest) true) : InvJ (doRunUnlock s t j rest) := by
  have hl := hi.l_run t _ _ h
  have hk := hi.l_runk t j rest h
  have h1 := ht.t_one t
  simp only [doRunUnlock, touch, runNext, goto, finish, setT]
  repeat' split
  all_goals (constructor; j_solve hi t j)

set_option maxHeartbeats 4000000 in
theorem invJ_tRunDec (ht : InvT s) (hi : InvJ s) (t j : Nat) (rest : List Nat)
    (h : (s.thr t).pc = .runDec j rest) : InvJ (doRunDec s t j rest) := by
  have hl := hi.l_dec t j rest h
  have h1 := ht.t_one t
  have hf := hi.f_timed j hl.2.1
  simp only [doRunDec, decJob, touch, runNext, goto, finish, setT]
  repeat' split
  all_goals (constructor; j_solve hi t j)

set_option maxHeartbeats 4000000 in
theorem invJ_tRunRel (ht : InvT s) (hi : InvJ s) (t j : Nat) (rest : List Nat)
    (h : (s.thr t).pc = .run (j :: rest) false) (hk : (s.job j).kind = .coro) : InvJ (doRunRel s t j rest) := by
  have hl := hi.l_run t _ _ h
  have h1 := ht.t_one t
  simp only [doRunRel, touch, runNext, goto, finish, setT]
  repeat' split
  all_goals (constructor; j_solve hi t j)

end Yaclib.Event
