import YaclibModel.Proofs.CoSharedMutex
namespace Yaclib.CoSharedMutex

set_option maxHeartbeats 4000000 in
theorem inv_twLoad_2 {cfg : Cfg} {s : State} (hi : Inv cfg s) (c : Cid) (sawZero : Bool) (h : s.pc c = .idle) (ht : s.todo c ≠ []) (ho : curOp s c = .wr ∨ curOp s c = .tryWr) (hz : sawZero = false) (ht' : ¬ curOp s c = .tryWr) :
    Inv cfg ((doTwLoad s c sawZero)) := by
  subst hz
  cases hi
  simp only [doTwLoad, failW, ht', Bool.false_eq_true, ↓reduceIte]
  sm_auto [List.count_le_length]

end Yaclib.CoSharedMutex
