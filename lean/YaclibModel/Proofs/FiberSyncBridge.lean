/-
C18, T1 bridge: the effects of the hand-written models (Model/FiberSync*.lean) on the fields of the primitives are the
functions that vlib/x_fibersync.py regenerates from the C++ method bodies on every check run
(Extracted/FiberSync.lean).  `core` projects a model state to the fields of the C++ object.

The bridge theorems themselves are in Props/C18.lean (namespace `Yaclib.Props.C18.Bridge`).  Each of them says: running the extracted method (from its entry, or from the return of its wait) in the projection
of a model state ends exactly as the model's `Step` rule says — same new field values, same return value, same
notification, same queue to wait on.  The defects are visible in the statements:
  D4  `bridge_Rm_unlock`: no notification;
  D5  `bridge_Sm_timed`: the exclusive request ends in the *shared* helper (`sharedHelperX`);
  D6  the `…_resume` theorems of everything but `Mutex::lock` take the lock whatever the fields say;
  D7  `bridge_Sm_lock_shared`: waits on "_exclusive_queue".
-/
import YaclibModel.Extracted.FiberSync
import YaclibModel.Model.FiberSync
import YaclibModel.Model.FiberSyncRec
import YaclibModel.Model.FiberSyncShared

namespace Yaclib.FiberSync
open Yaclib.Extracted.FiberSync

namespace Mx
def core (s : State) : Mutex := ⟨s.occupied⟩

@[simp] theorem core_notifyM (s : State) (w : Option Fid) : core (notifyM s w) = core s := by cases w <;> rfl
end Mx

namespace Rm
def core (s : State) : RecursiveMutex := ⟨s.owner, s.count⟩
end Rm

namespace Sm
def core (s : State) : SharedMutex := ⟨s.cnt, s.occ, s.excl⟩

/-- the queue-emptiness oracle of `unlock` as the model sees it -/
def qempty (s : State) (q : String) : Bool := if q = "_shared_queue" then s.sq.isEmpty else s.eq.isEmpty

@[simp] theorem core_notifyE (s : State) (w : Option Fid) : core (notifyE s w) = core s := by cases w <;> rfl

@[simp] theorem core_notifyAllS (b : Bool) (s : State) : core (notifyAllS b s) = core s := rfl
end Sm

end Yaclib.FiberSync
