/-
C18, T1 bridge: `core` projects a state of the hand-written models (Model/FiberSync*.lean) to the fields of the C++
object, so that the models' effects can be compared with the functions vlib/x_fibersync.py regenerates from the C++
method bodies on every check run (Extracted/FiberSync.lean).  The bridge theorems are in Props/C18.lean
(namespace `Yaclib.Props.C18.Bridge`).
-/
import YaclibModel.Extracted.FiberSync
import YaclibModel.Model.FiberSync
import YaclibModel.Model.FiberSyncRec
import YaclibModel.Model.FiberSyncShared

namespace Yaclib.FiberSync
open Yaclib.Extracted.FiberSync

namespace Mx
def core (s : State) : Mutex := ⟨s.occupied⟩

@[simp] theorem core_notifyM (s : State) (w : Option Fid) : core (notifyM s w) = core s := by cases w <;> rfl
end Mx

namespace Rm
def core (s : State) : RecursiveMutex := ⟨s.owner, s.count⟩

@[simp] theorem core_notifyR (s : State) (w : Option Fid) : core (notifyR s w) = core s := by cases w <;> rfl
end Rm

namespace Sm
def core (s : State) : SharedMutex := ⟨s.cnt, s.occ, s.excl⟩

@[simp] theorem core_notifyE (s : State) (w : Option Fid) : core (notifyE s w) = core s := by cases w <;> rfl

@[simp] theorem core_notifyAllS (b : Bool) (s : State) : core (notifyAllS b s) = core s := rfl
end Sm

end Yaclib.FiberSync
