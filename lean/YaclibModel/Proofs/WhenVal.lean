/- Values: what the slots hold, what the output promise was fulfilled with. -/
import YaclibModel.Proofs.WhenInv

namespace Yaclib.When

/-- what the strategy destructor publishes when nobody was elected -/
def dtorExpected (w : Workload) (errBy : Option Nat) : OutVal :=
  match w.strat with
  | .allVec _ => .vec ((List.range w.n).map fun j => some (w.inp j))
  | .allTuple _ => .vec ((List.range w.n).map fun j => some (w.inp j))
  | .join _ => .unit
  | .anyFF => match errBy with
      | some e => .one (w.inp e)
      | none => .broken
  | .anyNone => .broken
  | .anyLF => .broken

structure InvV (w : Workload) (s : State) : Prop where
  tuple_dec : ∀ ff, w.strat = .allTuple ff → ∀ j, s.pc j = .dec false → ok (w.inp j) = false ∧ ff = true
  tuple_set : ∀ ff, w.strat = .allTuple ff → ∀ j o, s.pc j = .setOut o → ok (w.inp j) = false ∧ ff = true
  /-- AllTuple: a consumption that has dropped its reference has written its slot (unless it was a failure under FirstFail) -/
  slot_t : ∀ ff, w.strat = .allTuple ff → ∀ j, holding (s.pc j) = false → (ok (w.inp j) = true ∨ ff = false) →
    s.slots j = some (w.inp j)
  /-- All: the destructor's loop has filled the slots below its index, in index order -/
  slot_v : ∀ ff, w.strat = .allVec ff → (ff = false ∨ s.pValid = true) → ∀ j, j < s.relIdx → s.slots j = some (w.inp j)
  out_win : ∀ o, o ∈ s.outSet → ∀ k, s.win = some k → o = .one (w.inp k)
  out_dtor : ∀ o, o ∈ s.outSet → s.win = none →
    o = dtorExpected w s.errBy ∧ w.strat ≠ .anyNone ∧ w.strat ≠ .anyLF ∧ (w.strat = .anyFF → s.errBy ≠ none)

theorem invv_init (w : Workload) : InvV w (init w) := by
  constructor <;> simp [init, holding]

theorem map_range_congr {α : Type} (f g : Nat → α) (n : Nat) (h : ∀ j, j < n → f j = g j) :
    (List.range n).map f = (List.range n).map g := by
  apply List.map_congr_left
  intro j hj
  exact h j (List.mem_range.mp hj)

variable {w : Workload} {s : State}

theorem usesFlag_tuple (ff : Bool) : (Strat.allTuple ff).usesFlag = ff := by cases ff <;> rfl
theorem allFF_tuple (ff : Bool) : (Strat.allTuple ff).allFF = ff := by cases ff <;> rfl
theorem noneKind_tuple (ff : Bool) : (Strat.allTuple ff).noneKind = !ff := by cases ff <;> rfl

theorem afterRetire_tuple (ff : Bool) (r : Res) :
    afterRetire (.allTuple ff) r = .dec true ∨ (afterRetire (.allTuple ff) r = .load ∧ ok r = false ∧ ff = true) := by
  cases ff <;> cases h : ok r <;> simp [afterRetire, h]

/-- what the destructor publishes is what is expected of it -/
theorem dtorOut_expected (hI : Inv w s) (hV : InvV w s) {i : Nat} {o : OutVal} (hp : s.pc i = .dtorSet)
    (ho : dtorOut w s = some o) :
    s.win = none ∧ o = dtorExpected w s.errBy ∧ w.strat ≠ .anyNone ∧ w.strat ≠ .anyLF ∧ (w.strat = .anyFF → s.errBy ≠ none) := by
  have hC := hI.c
  have hd : inDtor (s.pc i) = true := by rw [hp]; rfl
  have hv := hI.o.dtorset i hp
  have hw := win_none_in_dtor hC hI.r hI.o hd hv
  have hi' : i < w.n := hC.idx (by rw [hp]; simp)
  refine ⟨hw, ?_⟩
  cases hst : w.strat with
  | allVec ff =>
      simp only [dtorOut, hst, Option.some.injEq] at ho
      subst ho
      refine ⟨?_, by simp, by simp, by simp⟩
      simp only [dtorExpected, hst]
      congr 1
      apply map_range_congr
      intro j hj
      have hrel := hC.dtorSet_rel i hp (by rw [hst]; rfl)
      exact hV.slot_v ff hst (by cases ff <;> simp [hv]) j (by omega)
  | allTuple ff =>
      simp only [dtorOut, hst, Option.some.injEq] at ho
      subst ho
      refine ⟨?_, by simp, by simp, by simp⟩
      simp only [dtorExpected, hst]
      congr 1
      apply map_range_congr
      intro j hj
      have hnh : holding (s.pc j) = false := by
        by_cases hji : j = i
        · subst hji; rw [hp]; rfl
        · rw [hC.dtor i j hd hj hji]; rfl
      apply hV.slot_t ff hst j hnh
      cases ff with
      | false => exact Or.inr rfl
      | true =>
          have hF := hI.f (by rw [hst]; rfl)
          exact Or.inl (all_ok_in_dtor hC hI.r hI.o hF hd hv j hj)
  | join ff =>
      simp only [dtorOut, hst, Option.some.injEq] at ho
      subst ho
      simp [dtorExpected, hst]
  | anyNone =>
      exact absurd hp (no_dtorSet_anyNone hC hI.r hI.o (hI.f (by rw [hst]; rfl)) hst i)
  | anyLF =>
      exact absurd hp (no_dtorSet_anyLF hC hI.r hI.o (hI.l hst (by omega)) i)
  | anyFF =>
      obtain ⟨_, e, he, hsv⟩ := saved_in_dtor hC hI.r hI.o (hI.g hst) hp
      simp only [dtorOut, hst, hsv, Option.map_some, Option.some.injEq] at ho
      subst ho
      simp [dtorExpected, hst, he]

end Yaclib.When
