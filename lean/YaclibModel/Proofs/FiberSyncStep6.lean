import YaclibModel.Proofs.FiberSync
namespace Yaclib.FiberSync.Mx
open Yaclib.FiberSync

set_option maxHeartbeats 4000000 in
theorem inv_step_6 {k s l s'} (hi : Inv k s) (hs : Step s l s') (hg : grpOf l = 6) : Inv k s' := by
  cases hi
  cases hs with
  | cvWaitUntil f w t req j h hh hw ht => cases w <;> mx_auto
  | _ => simp [grpOf] at hg

end Yaclib.FiberSync.Mx
