/- C16: preservation of the invariants of part 4 — the owner's side of a wait operation -/
import YaclibModel.Proofs.EventQStep1

namespace Yaclib.Event
variable {s s' : State} {l : Label} {w : Workload}

attribute [local grind =] Pc.setter Pc.releasing Pc.owner Pc.bphase JSt.inList List.nodup_cons Pc.runList
attribute [local grind →] Pc.bphase_owner

set_option maxHeartbeats 4000000 in
theorem invQ_tStart (hz : InvZ s) (ht : InvT s) (hi : InvJ s) (hq : InvQ s) (t : Nat) (k : WKind) (chk : Bool) (x : Exp) (h : (s.thr t).pc = .idle) :
    InvQ (doStartLoad s t k chk x) := by
  have hnotz : 1 ≤ s.count → s.zeroed = false := ht.not_zeroed
  have hout := hi.j_out s.njobs (Nat.le_refl _)
  have hno : ∀ t', (s.thr t').pc.owner ≠ some s.njobs := fun t' h' => by have := (hi.j_own t' _ h').1; omega
  simp only [doStartLoad, tryWith, notAdded, newJob, goto, finish, setT, updJ_same]
  repeat' split
  all_goals (constructor <;> q_solve3 hz ht hi hq)


set_option maxHeartbeats 4000000 in
theorem invQ_tryWith (hz : InvZ s) (ht : InvT s) (hi : InvJ s) (hq : InvQ s) (t j : Nat) (x : Exp) (h : (s.thr t).pc = .tryL j ∨ ∃ y, (s.thr t).pc = .tryC j y) :
    InvQ (tryWith s t j x) := by
  have hnotz : 1 ≤ s.count → s.zeroed = false := ht.not_zeroed
  have ho : (s.thr t).pc.owner = some j := by rcases h with h | ⟨y, h⟩ <;> simp [h, Pc.owner]
  have hown := hi.j_own t j ho
  simp only [tryWith, notAdded, goto, finish, setT]
  repeat' split
  all_goals (constructor <;> q_solve3 hz ht hi hq)


set_option maxHeartbeats 4000000 in
theorem invQ_tCasOk (hz : InvZ s) (ht : InvT s) (hi : InvJ s) (hq : InvQ s) (t j : Nat) (l : List Nat) (h : (s.thr t).pc = .tryC j (.cur l)) (hh : s.head = some l) :
    InvQ (doPushed s t j l) := by
  have hnotz : 1 ≤ s.count → s.zeroed = false := ht.not_zeroed
  have hown := hi.j_own t j (by simp [h, Pc.owner])
  have hnew := hi.j_tryC t j _ h
  simp only [doPushed, goto, finish, setT, updJ_same]
  repeat' split
  all_goals (constructor <;> q_solve3 hz ht hi hq)


set_option maxHeartbeats 4000000 in
theorem invQ_tResume (hz : InvZ s) (ht : InvT s) (hi : InvJ s) (hq : InvQ s) (t j : Nat) (h : (s.thr t).pc = .resume j) :
    InvQ (doResume s t j) := by
  have hnotz : 1 ≤ s.count → s.zeroed = false := ht.not_zeroed
  have hown := hi.j_own t j (by simp [h, Pc.owner])
  have hr := hi.j_res t j h
  simp only [doResume, finish, setT]
  repeat' split
  all_goals (constructor <;> q_solve3 hz ht hi hq)


set_option maxHeartbeats 4000000 in
theorem invQ_tBLock (hz : InvZ s) (ht : InvT s) (hi : InvJ s) (hq : InvQ s) (t j : Nat) (to : Bool) (h : (s.thr t).pc = .bLock j ∨ (s.thr t).pc = .bAsleep j ∨ (s.thr t).pc = .bTimedOut j) (hto : to = true → (s.job j).kind = .timed) :
    InvQ (doBLock s t j to) := by
  have hnotz : 1 ≤ s.count → s.zeroed = false := ht.not_zeroed
  have ho : (s.thr t).pc.owner = some j := by rcases h with h | h | h <;> simp [h, Pc.owner]
  have hown := hi.j_own t j ho
  simp only [doBLock, touch, goto, setT]
  repeat' split
  all_goals (constructor <;> q_solve3 hz ht hi hq)


set_option maxHeartbeats 4000000 in
theorem invQ_tBSleep (hz : InvZ s) (ht : InvT s) (hi : InvJ s) (hq : InvQ s) (t j : Nat) (h : (s.thr t).pc = .bHeld j) :
    InvQ (doBSleep s t j) := by
  have hnotz : 1 ≤ s.count → s.zeroed = false := ht.not_zeroed
  simp only [doBSleep, touch, goto, setT]
  repeat' split
  all_goals (constructor <;> q_solve3 hz ht hi hq)


set_option maxHeartbeats 4000000 in
theorem invQ_tBTimeout (hz : InvZ s) (ht : InvT s) (hi : InvJ s) (hq : InvQ s) (t j : Nat) (h : (s.thr t).pc = .bAsleep j) :
    InvQ (goto s t (.bTimedOut j)) := by
  have hnotz : 1 ≤ s.count → s.zeroed = false := ht.not_zeroed
  simp only [goto, setT]
  repeat' split
  all_goals (constructor <;> q_solve3 hz ht hi hq)


set_option maxHeartbeats 4000000 in
theorem invQ_tBUnlockRet (hz : InvZ s) (ht : InvT s) (hi : InvJ s) (hq : InvQ s) (t j : Nat) (b : Bool) (h : (s.thr t).pc = .bUnlockRet j b) :
    InvQ (doBUnlockRet s t j b) := by
  have hnotz : 1 ≤ s.count → s.zeroed = false := ht.not_zeroed
  have hb := hq.q_uretb t j b h
  have hjb' := hi.j_b t j (by simp [h, Pc.bphase])
  simp only [doBUnlockRet, touch, goto, setT]
  repeat' split
  all_goals (constructor <;> q_solve3 hz ht hi hq)


set_option maxHeartbeats 4000000 in
theorem invQ_tBDec (hz : InvZ s) (ht : InvT s) (hi : InvJ s) (hq : InvQ s) (t j : Nat) (b : Bool) (h : (s.thr t).pc = .bDec j b) :
    InvQ (doBDec s t j b) := by
  have hnotz : 1 ≤ s.count → s.zeroed = false := ht.not_zeroed
  have hd := hi.j_dec t j b h
  simp only [doBDec, decJob, touch, goto, setT]
  repeat' split
  all_goals (constructor <;> q_solve3 hz ht hi hq)


set_option maxHeartbeats 4000000 in
theorem invQ_tRep (hz : InvZ s) (ht : InvT s) (hi : InvJ s) (hq : InvQ s) (t j : Nat) (b : Bool) (h : (s.thr t).pc = .rep j b) :
    InvQ (doRep s t j b) := by
  have hnotz : 1 ≤ s.count → s.zeroed = false := ht.not_zeroed
  have hown := hi.j_own t j (by simp [h, Pc.owner])
  have hr := hi.j_rep t j b h
  have hb := hq.q_repb t j b h
  have hfr := hq.q_rep t j b h
  have hrb' := hi.r_block j
  have hrn' := hi.r_nrel j
  simp only [doRep, finish, setT]
  cases b <;> (constructor <;> q_solve3 hz ht hi hq)


end Yaclib.Event
