/- the three invariants together are inductive -/
import YaclibModel.Proofs.CoroA2
import YaclibModel.Proofs.CoroB0
import YaclibModel.Proofs.CoroB1
import YaclibModel.Proofs.CoroB2
import YaclibModel.Proofs.CoroB5
import YaclibModel.Proofs.CoroB8
import YaclibModel.Proofs.CoroC3
namespace Yaclib.Coro

structure Inv (w : Workload) (s : State) : Prop where
  a : InvA w s
  b : InvB w s
  c : InvC w s

theorem inv_init (w : Workload) : Inv w (init w) := ⟨invA_init w, invB_init w, invC_init w⟩

theorem hfire_of {w : Workload} {s : State} (hwf : w.WF) (ha : InvA w s) (hb : InvB w s) :
    ∀ j p op rest, p ∈ (s.word j).cbs → s.todo = op :: rest → inOp s.pc = true ∧ awaitsCells op.kind = true := by
  intro j p op rest hp ht
  refine ⟨(hb.cbs_inop j p hp).1, ?_⟩
  have hcell := (hb.cbs_cell j p op rest hp ht).1
  have hpl := lt_of_getElem?_some hcell
  cases hk : awaitsCells op.kind with
  | true => rfl
  | false => have := wf_nocells (op_wf hwf ha ht) hk; rw [this] at hpl; simp at hpl

theorem inv_step {w s l s'} (hwf : w.WF) (hi : Inv w s) (hs : Step s l s') : Inv w s' := by
  obtain ⟨ha, hb, hc⟩ := hi
  have hf := hfire_of hwf ha hb
  cases l with
  | pXchg j => exact ⟨invA_step_env ha hs trivial, invB_step_1 ha hb hs trivial, invC_step_0 ha hc hs trivial⟩
  | envPush j => exact ⟨invA_step_env ha hs trivial, invB_step_1 ha hb hs trivial, invC_step_0 ha hc hs trivial⟩
  | envSwap j e => exact ⟨invA_step_env ha hs trivial, invB_step_0 ha hb hs trivial, invC_step_0 ha hc hs trivial⟩
  | fire j p => exact ⟨invA_step_aw ha hs hf trivial, invB_step_fire hwf ha hb hc hs trivial, invC_step_fire hwf ha hb hc hs trivial⟩
  | exCall => exact ⟨invA_step_env ha hs trivial, invB_step_0 ha hb hs trivial, invC_step_0 ha hc hs trivial⟩
  | exDrop => exact ⟨invA_step_env ha hs trivial, invB_step_0 ha hb hs trivial, invC_step_0 ha hc hs trivial⟩
  | start => exact ⟨invA_step_start ha hs rfl, invB_step_start hwf ha hb hs rfl, invC_step_start ha hc hs rfl⟩
  | rdLoad x => exact ⟨invA_step_env ha hs trivial, invB_step_0 ha hb hs trivial, invC_step_0 ha hc hs trivial⟩
  | ready b => exact ⟨invA_step_aw ha hs hf trivial, invB_step_ready hwf ha hb hc hs trivial, invC_step_0 ha hc hs trivial⟩
  | regLoad p x => exact ⟨invA_step_aw ha hs hf trivial, invB_step_reg hwf ha hb hs trivial, invC_step_reg ha hb hc hs trivial⟩
  | cas p o => exact ⟨invA_step_aw ha hs hf trivial, invB_step_reg hwf ha hb hs trivial, invC_step_reg ha hb hc hs trivial⟩
  | msub => exact ⟨invA_step_aw ha hs hf trivial, invB_step_6 hwf ha hb hc hs trivial, invC_step_sub ha hb hc hs trivial⟩
  | mload v => exact ⟨invA_step_env ha hs trivial, invB_step_0 ha hb hs trivial, invC_step_0 ha hc hs trivial⟩
  | msuspend => exact ⟨invA_step_aw ha hs hf trivial, invB_step_6 hwf ha hb hc hs trivial, invC_step_sub ha hb hc hs trivial⟩
  | tstore => exact ⟨invA_step_aw ha hs hf trivial, invB_step_6 hwf ha hb hc hs trivial, invC_step_0 ha hc hs trivial⟩
  | submit e => exact ⟨invA_step_env ha hs trivial, invB_step_0 ha hb hs trivial, invC_step_0 ha hc hs trivial⟩
  | resume got ad => exact ⟨invA_step_aw ha hs hf trivial, invB_step_6 hwf ha hb hc hs trivial, invC_step_0 ha hc hs trivial⟩
  | current e => exact ⟨invA_step_env ha hs trivial, invB_step_0 ha hb hs trivial, invC_step_0 ha hc hs trivial⟩
  | ldtor => exact ⟨invA_step_env ha hs trivial, invB_step_0 ha hb hs trivial, invC_step_0 ha hc hs trivial⟩
  | ret => exact ⟨invA_step_env ha hs trivial, invB_step_0 ha hb hs trivial, invC_step_0 ha hc hs trivial⟩
  | publish r => exact ⟨invA_step_env ha hs trivial, invB_step_0 ha hb hs trivial, invC_step_0 ha hc hs trivial⟩
  | fdtor => exact ⟨invA_step_env ha hs trivial, invB_step_0 ha hb hs trivial, invC_step_0 ha hc hs trivial⟩
  | tdtor j => exact ⟨invA_step_env ha hs trivial, invB_step_0 ha hb hs trivial, invC_step_0 ha hc hs trivial⟩

theorem inv_reachable {w s} (hwf : w.WF) (h : Reachable w s) : Inv w s := by
  induction h with
  | init => exact inv_init w
  | step _ hs ih => exact inv_step hwf ih hs

end Yaclib.Coro
