/- C11 invariant: preservation by the producers' exchange and by their decrement of the event counter -/
import YaclibModel.Proofs.WaitAuto

namespace Yaclib.Wait
variable {w : Workload} {s : State}

set_option maxHeartbeats 1000000 in
theorem inv_pSub (hi : Inv w s) (i : Nat) (h : (s.fut i).ppc = .took) : Inv w (doPSub s i) := by
  have hal := hi.alive_of_took h
  have hg := hi.g_took hal i h
  have hlt := hi.lt_hi hal (i := i) (by simp [hg])
  have hone : s.hi - s.lo ≠ 1 := fun ho => hi.one_taken hal ho i hg
  have hwc := hi.wc_le hal
  have hpos : 1 ≤ Ntaken s := cntG_pos hlt hg
  unfold doPSub
  by_cases hc1 : s.counter = 1
  · have e := cnt4 (f := s.fut) (x := { s.fut i with ppc := .setting, g := .decd }) hlt .taken .decd hg rfl
    simp at e
    obtain ⟨e1, e2, e3, e4⟩ := e
    simp only [Ninn, Ntaken, Ndecd, Nback] at *
    constructor <;> (try simp only [hc1, ↓reduceIte, Ninn, Ntaken, Ndecd, Nback, e1, e4])
    inv_solve_at hi i
  · have e := cnt4 (f := s.fut) (x := { s.fut i with ppc := .done, g := .decd }) hlt .taken .decd hg rfl
    simp at e
    obtain ⟨e1, e2, e3, e4⟩ := e
    simp only [Ninn, Ntaken, Ndecd, Nback] at *
    constructor <;> (try simp only [hc1, ↓reduceIte, Ninn, Ntaken, Ndecd, Nback, e1, e4])
    inv_solve_at hi i

set_option maxHeartbeats 1000000 in
theorem inv_pXchg (hi : Inv w s) (i : Nat) (h : (s.fut i).ppc = .start) (hw : (s.fut i).word ≠ .result) :
    Inv w (doXchg s i) := by
  unfold doXchg
  cases hwd : (s.fut i).word with
  | result => exact absurd hwd hw
  | empty =>
      have hc : ∀ a m, cntG (upd s.fut i { s.fut i with word := .result, ppc := .done }) a m = cntG s.fut a m :=
        fun a m => cntG_upd_g rfl
      constructor <;> (try simp only [Ninn, Ntaken, Ndecd, Nback, hc])
      inv_solve_at hi i
  | cont =>
      have hc : ∀ a m, cntG (upd s.fut i { s.fut i with word := .result, ppc := .fire }) a m = cntG s.fut a m :=
        fun a m => cntG_upd_g rfl
      have hfi : i < s.fi := by
        by_cases hlt : i < s.fi
        · exact hlt
        · exact absurd hwd (hi.todo i (by omega)).2.1
      constructor <;> (try simp only [Ninn, Ntaken, Ndecd, Nback, hc])
      inv_solve_at hi i
  | ev =>
      have hal := hi.alive_of_ev hwd
      have hg := hi.g_ev hal i hwd
      have hlt := hi.lt_hi hal (i := i) (by simp [hg])
      have hwc := hi.wc_le hal
      have hpos : 1 ≤ Ninn s := cntG_pos hlt hg
      have hfi : s.fi ≤ i := by
        have := hi.fi_lo hal; have := hi.g_range hal i (by simp [hg]); omega
      by_cases hone : s.hi - s.lo = 1
      · have e := cnt4 (f := s.fut) (x := { s.fut i with word := .result, ppc := .setting, g := .decd }) hlt .inn .decd hg rfl
        simp at e
        obtain ⟨e1, e2, e3, e4⟩ := e
        -- the only registered future: nobody has decremented yet, so nobody is the setter
        have hnos : s.setter = none := by
          cases hs : s.setter with
          | none => rfl
          | some j =>
              have hgj := hi.set_g hal j hs
              have hj := hi.lt_hi hal (i := j) (by simp [hgj])
              have := cntG_pos hj hgj
              have := hi.c_wc hal
              simp only [Ninn, Ntaken, Ndecd, Nback] at *
              omega
        simp only [Ninn, Ntaken, Ndecd, Nback] at *
        constructor <;> (try simp only [hone, ↓reduceIte, Ninn, Ntaken, Ndecd, Nback, e2, e4])
        inv_solve_at hi i
      · have e := cnt4 (f := s.fut) (x := { s.fut i with word := .result, ppc := .took, g := .taken }) hlt .inn .taken hg rfl
        simp at e
        obtain ⟨e1, e2, e3, e4⟩ := e
        simp only [Ninn, Ntaken, Ndecd, Nback] at *
        constructor <;> (try simp only [hone, ↓reduceIte, Ninn, Ntaken, Ndecd, Nback, e3, e4])
        inv_solve_at hi i

end Yaclib.Wait
