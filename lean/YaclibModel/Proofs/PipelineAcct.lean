/- Ownership accounting of the pipeline mechanism (C03 sequential part, C20, C12 frees):
   cores and functors allocated = released + what the suspended control state still owns, in every reachable state.
   The release points are `Core::Done`'s DecRef condition, `CallResolveAsync`'s DecRef and functor destruction —
   taken from `Extracted/Dispatch.lean`. -/
import YaclibModel.Proofs.PipelineBase

namespace Yaclib.Pipeline
open Yaclib.Extracted

/-! ### the extracted release conditions, per kind of step -/

/-- Done releases the caller iff the core is not a Run head (all pipeline steps are FromUnique) -/
theorem doneDecRef_stepType (m : Mode) (hd b : Bool) : Dispatch.doneDecRef (stepType m hd) b false = !hd := by
  cases hd <;> cases m <;> cases b <;> simp [stepType] <;> decide
/-- async_done always releases the inner state -/
theorem doneDecRef_async (ty : Nat) (b : Bool) : Dispatch.doneDecRef ty b true = true := by
  simp [Dispatch.doneDecRef]
theorem asyncDecRefsCaller_stepType (m : Mode) (hd : Bool) : Dispatch.asyncDecRefsCaller (stepType m hd) = !hd := by
  simp [Dispatch.asyncDecRefsCaller, isRun_stepType]
theorem doneDestroysFunctor_false : Dispatch.doneDestroysFunctor false = true := rfl
theorem doneDestroysFunctor_true : Dispatch.doneDestroysFunctor true = false := rfl

/-! ### counters -/

/-- (cores allocated, cores released, functors stored, functors destroyed) -/
def cnt (g : G) : Nat × Nat × Nat × Nat := (g.cAlloc, g.cFree, g.fAlloc, g.fFree)

section cnt
variable (g : G) (n : Nat)
@[simp] theorem cnt_allocCore : cnt (g.allocCore n) = ((cnt g).1 + n, (cnt g).2.1, (cnt g).2.2.1, (cnt g).2.2.2) := rfl
@[simp] theorem cnt_allocFunctor : cnt (g.allocFunctor n) = ((cnt g).1, (cnt g).2.1, (cnt g).2.2.1 + n, (cnt g).2.2.2) := rfl
@[simp] theorem cnt_freeCore : cnt g.freeCore = ((cnt g).1, (cnt g).2.1 + 1, (cnt g).2.2.1, (cnt g).2.2.2) := rfl
@[simp] theorem cnt_freeFunctor : cnt g.freeFunctor = ((cnt g).1, (cnt g).2.1, (cnt g).2.2.1, (cnt g).2.2.2 + 1) := rfl
@[simp] theorem cnt_invoke (i : Nat) (c : Option Nat) (v : Option Exec) : cnt (g.invoke i c v) = cnt g := rfl
@[simp] theorem cnt_finishJob (j : Nat) (b : Bool) : cnt (g.finishJob j b) = cnt g := rfl

theorem cnt_doneAcct (m : Mode) (hd b : Bool) :
    cnt (doneAcct (stepType m hd) b g) =
      ((cnt g).1, (cnt g).2.1 + (if hd then 0 else 1), (cnt g).2.2.1, (cnt g).2.2.2 + 1) := by
  unfold doneAcct
  rw [doneDecRef_stepType, doneDestroysFunctor_false]
  cases hd <;> simp
theorem cnt_asyncRetAcct (m : Mode) (hd : Bool) :
    cnt (asyncRetAcct (stepType m hd) g) =
      ((cnt g).1, (cnt g).2.1 + (if hd then 0 else 1), (cnt g).2.2.1, (cnt g).2.2.2 + 1) := by
  unfold asyncRetAcct
  rw [asyncDecRefsCaller_stepType]
  cases hd <;> simp
theorem cnt_asyncDoneAcct (ty : Nat) :
    cnt (asyncDoneAcct ty g) = ((cnt g).1, (cnt g).2.1 + 1, (cnt g).2.2.1, (cnt g).2.2.2) := by
  unfold asyncDoneAcct
  rw [doneDecRef_async, doneDestroysFunctor_true]
  simp
end cnt

/-- exactly `c` cores and `f` functors are alive -/
def Bal (g : G) (c f : Nat) : Prop := (cnt g).1 = (cnt g).2.1 + c ∧ (cnt g).2.2.1 = (cnt g).2.2.2 + f

/-! ### what a suspended control state owns -/

def coresWait : Wait → Nat
  | .promise _ _ => 1
  | .job _ _ (.step _ _ hd) => if hd then 1 else 2
  | .job _ _ (.readyHead _) => 1
  | .job _ _ (.promiseHead _ _) => 1

def funsWait : Wait → Nat
  | .job _ _ (.step _ _ _) => 1
  | .job _ _ (.promiseHead _ _) => 1
  | _ => 0

def coresFrames : List Frame → Nat
  | [] => 0
  | f :: fs => 1 + f.rest.length + coresFrames fs

def funsFrames : List Frame → Nat
  | [] => 0
  | f :: fs => f.rest.length + funsFrames fs

def coresT (t : Thread) : Nat := coresWait t.wait + t.rest.length + coresFrames t.outer
def funsT (t : Thread) : Nat := funsWait t.wait + t.rest.length + funsFrames t.outer

def wfWait : Wait → Bool
  | .job _ _ (.step s _ _) => wfStep s
  | _ => true

def wfFrames : List Frame → Bool
  | [] => true
  | f :: fs => wfSteps f.rest && wfFrames fs

def wfThread (t : Thread) : Bool := wfWait t.wait && wfSteps t.rest && wfFrames t.outer

theorem coresFrames_append (a b : List Frame) : coresFrames (a ++ b) = coresFrames a + coresFrames b := by
  induction a with
  | nil => simp [coresFrames]
  | cons f fs ih => simp [coresFrames, ih]; omega
theorem funsFrames_append (a b : List Frame) : funsFrames (a ++ b) = funsFrames a + funsFrames b := by
  induction a with
  | nil => simp [funsFrames]
  | cons f fs ih => simp [funsFrames, ih]; omega
theorem wfFrames_append (a b : List Frame) : wfFrames (a ++ b) = (wfFrames a && wfFrames b) := by
  induction a with
  | nil => simp [wfFrames]
  | cons f fs ih => simp [wfFrames, ih, Bool.and_assoc]
theorem wfSteps_append (a b : List Step) : wfSteps (a ++ b) = (wfSteps a && wfSteps b) := by
  induction a with
  | nil => simp [wfSteps]
  | cons f fs ih => simp [wfSteps, ih, Bool.and_assoc]

/-- the accounting statement about the outcome of a cascade that started with `c + 1 + |k|`-ish cores:
    a finished one leaves its result core and the cores / functors of the continuations `k` it did not take along -/
def AcctOut (c f : Nat) (k : List Step) : Out → Prop
  | .done _ _ _ g => Bal g (c + 1 + k.length) (f + k.length)
  | .parked t g => Bal g (c + coresT t) (f + funsT t) ∧ wfThread t = true
  | .crash _ => True

end Yaclib.Pipeline
