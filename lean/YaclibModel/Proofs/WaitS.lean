/- C11 invariant: preservation by the first `SubEqual` and by the waiter's steps on the event's mutex -/
import YaclibModel.Proofs.WaitR0

namespace Yaclib.Wait
variable {w : Workload} {s : State}


set_option maxHeartbeats 1000000 in
theorem inv_wSub1 (hi : Inv w s) (hp : s.wpc = .sub1) : Inv w (doSub1 s) := by
  have hal : s.alive = true := hi.alive_iff.mpr (by simp [hp, WPc.inCall])
  have hone := hi.sub1_multi hp
  have hs1 := hi.early_inv (by simp [hp, WPc.early])
  have hpre := hi.pre_to (by simp [hp, WPc.preTimeout])
  have hcnt := hi.c_cnt hal hone
  have hwc := hi.c_wc hal
  have hrc := hi.c_rc hal
  have hle := hi.wc_le hal
  have hig : s.inGet = false := by
    cases hg : s.inGet with
    | false => rfl
    | true => have := hi.inget hg (Or.inl hal); omega
  simp only [hs1, hpre.2.1, Bool.false_eq_true, ↓reduceIte, Ninn, Ntaken, Ndecd, Nback] at hcnt hwc hrc
  unfold doSub1
  by_cases hz : s.counter = (((s.hi - s.lo) - s.wc + 1 : Nat) : Int)
  · have h1 : Ninn s = 0 := by simp only [Ninn]; omega
    have h2 : Ntaken s = 0 := by simp only [Ntaken]; omega
    have h3 : Nback s = 0 := by simp only [Nback]; omega
    have hnos : s.setter = none := by
      cases hs : s.setter with
      | none => rfl
      | some j => have := hi.set_cnt hal hone (by simp [hs]); omega
    have hclean := hi.clean_of hal h1 h2 hnos
    have hall := hi.all_ready hal (by simp [regBound, hp]) h1 h3
    have hev : ∀ j, (s.fut j).word ≠ .ev := fun j hw => (hclean j).1 (hi.g_ev hal j hw)
    have htk : ∀ j, (s.fut j).ppc ≠ .took := fun j hw => (hclean j).2.1 (hi.g_took hal j hw)
    simp only [hz, ↓reduceIte, toRet, hig, Bool.false_eq_true]
    inv_fields_pc hi hp
  · simp only [hz, ↓reduceIte]
    inv_fields_pc hi hp


/-- what the waiter knows when it finds the flag set while taking the mutex -/
theorem ready_facts (hi : Inv w s) (hal : s.alive = true) (hb : regBound s = s.hi) (hr : s.ready = true)
    (hm : s.holder = none) :
    (∀ j, (s.fut j).g ≠ .inn ∧ (s.fut j).g ≠ .taken ∧ (s.fut j).ppc ≠ .setting ∧ (s.fut j).ppc ≠ .locked) ∧
    (s.rc = 0 → ∀ j, s.lo ≤ j → j < s.hi → (s.fut j).word = .result) := by
  have hc := hi.ready_counts hal hr
  refine ⟨hi.clean_of_ready hal hc.1 hc.2.1 hr (by simp [hm]), ?_⟩
  intro h0
  have hrc := hi.c_rc hal
  exact hi.all_ready hal hb hc.1 (by omega)

set_option maxHeartbeats 1000000 in
theorem inv_wLock1 (hi : Inv w s) (hp : s.wpc = .lock1) (hm : s.holder = none) : Inv w (doLock1 s) := by
  have hal : s.alive = true := hi.alive_iff.mpr (by simp [hp, WPc.inCall])
  have hpre := hi.pre_to (by simp [hp, WPc.preTimeout])
  unfold doLock1
  by_cases hr : s.ready = true
  · have hf := ready_facts hi hal (by simp [regBound, hp]) hr hm
    have hclean := hf.1
    have hall := hf.2 hpre.1
    simp only [hr, ↓reduceIte]
    inv_fields_pc hi hp
  · simp only [hr, Bool.false_eq_true, ↓reduceIte]
    cases ht : s.timed <;> simp only [Bool.not_true, Bool.not_false] <;> inv_fields_pc hi hp

set_option maxHeartbeats 1000000 in
theorem inv_wSleep (hi : Inv w s) (f : Bool) (hp : s.wpc = .held f) : Inv w { s with wpc := .asleep f, holder := none } := by
  cases f <;> inv_fields_pc hi hp

set_option maxHeartbeats 1000000 in
theorem inv_wTimeout (hi : Inv w s) (hp : s.wpc = .asleep false) (ht : s.timed = true) :
    Inv w { s with wpc := .timedOut, timedOutSeen := true } := by
  inv_fields_pc hi hp



set_option maxHeartbeats 1000000 in
theorem inv_wWake (hi : Inv w s) (f : Bool) (hp : s.wpc = .asleep f) (hm : s.holder = none) : Inv w (doWake s f) := by
  have hal : s.alive = true := hi.alive_iff.mpr (by simp [hp, WPc.inCall])
  unfold doWake
  by_cases hr : s.ready = true
  · have hf := ready_facts hi hal (by simp [regBound, hp]) hr hm
    have hclean := hf.1
    have hall := hf.2
    have hseen := hi.rc_seen hal
    have hst := hi.seen_timed hal
    simp only [hr, ↓reduceIte]
    cases f
    · have hpre := hi.pre_to (by simp [hp, WPc.preTimeout])
      have hall' := hall hpre.1
      simp only [Bool.false_eq_true, ↓reduceIte]
      inv_fields_pc hi hp
    · simp only [↓reduceIte]
      by_cases h0 : s.rc = 0
      · have hall' := hall h0
        simp only [h0, decide_true]
        inv_fields_pc hi hp
      · simp only [h0, decide_false]
        inv_fields_pc hi hp
  · simp only [hr, Bool.false_eq_true, ↓reduceIte]
    cases f <;> inv_fields_pc hi hp

set_option maxHeartbeats 1000000 in
theorem inv_wLockT (hi : Inv w s) (hp : s.wpc = .timedOut) (hm : s.holder = none) : Inv w (doLockT s) := by
  have hal : s.alive = true := hi.alive_iff.mpr (by simp [hp, WPc.inCall])
  have hto := hi.timedout_inv hp
  unfold doLockT
  by_cases hr : s.ready = true
  · have hf := ready_facts hi hal (by simp [regBound, hp]) hr hm
    have hclean := hf.1
    have hall := hf.2 hto.1
    simp only [hr, ↓reduceIte]
    inv_fields_pc hi hp
  · simp only [hr, Bool.false_eq_true, ↓reduceIte]
    rw [← advRst_wpc _ (.rst s.lo)]
    apply inv_advRst _ s.lo rfl
    have hpost := hi.post_inv (by simp [hp, WPc.postReg])
    have hnb : ∀ j, (s.fut j).g ≠ .back := by
      have hrc := hi.c_rc hal
      exact hi.none_of_zero hal (by simp) (by simp only [Nback] at hrc; omega)
    inv_fields_pc hi hp


end Yaclib.Wait
