import YaclibModel.Proofs.WhenWord
namespace Yaclib.When

set_option maxHeartbeats 4000000 in
theorem invr_step {w s l s'} (hC : InvC w s) (hi : InvR w s) (hs : Step w s l s') : InvR w s' := by
  have hword := hC.word
  have haf := Strat.anyFF_facts
  have hal := Strat.anyLF_facts
  cases hi
  cases hs with
  | regSet i okb hc hb hr hn =>
      have h1 := consumeStart_cases w.strat (w.inp i)
      have h2 := afterRetire_cases w.strat (w.inp i)
      have h0 := (hC.unreg i).mpr (by omega)
      cases okb <;> invw_auto
  | fire i hc hp =>
      have h1 := consumeStart_cases w.strat (w.inp i)
      have h2 := afterRetire_cases w.strat (w.inp i)
      invw_auto
  | retire i hc hp =>
      have h2 := afterRetire_cases w.strat (w.inp i)
      invw_auto
  | loadFlag i b hc hp hs hb =>
      have h3 := lose_cases w.strat
      cases b <;> invw_auto
  | xchgFlag i hc hp hs =>
      have h3 := lose_cases w.strat
      cases hf : s.flag <;> simp only [doXchgFlag, hf] <;> invw_auto
  | setOut i o hc hp => invw_auto
  | load3 i x hc hp hs hx =>
      cases hv : ok (w.inp i) <;> cases x <;> simp only [doLoad3, hv] <;> invw_auto
  | xchg3 i hc hp hs hv =>
      by_cases hf : s.st3 = .value <;> simp only [doXchg3, hf] <;> invw_auto
  | cas3 i hc hp hs hv =>
      by_cases hf : s.st3 = .empty <;> simp only [doCas3, hf] <;> invw_auto
  | loadLf i d hc hp hs hd => cases d <;> invw_auto
  | xchgLf i hc hp hs hv =>
      by_cases hf : s.lf % 2 = 0 <;> simp only [doXchgLf, hf] <;> invw_auto
  | fsubLf i hc hp hs hv =>
      by_cases hf : s.lf = 2 <;> simp only [doFsubLf, hf] <;> invw_auto
  | dec i store hc hp =>
      have h1 := dtorStart_cases w.strat s.pValid
      by_cases hc1 : s.count = 1
      · rcases h1 with h1 | h1 | h1 <;> simp only [doDec, hc1, h1.1, if_true] <;> invw_auto
      · simp only [doDec, hc1, if_false] <;> invw_auto
  | dtorRel i j hc hp =>
      cases hst : w.strat with
      | allVec b =>
          cases b
          · by_cases hj : j + 1 < w.n <;> simp only [doDtorRel, hst, hj, if_true, if_false] <;> invw_auto
          · by_cases hv : s.pValid = true <;> by_cases hj : j + 1 < w.n <;> cases hok : ok (w.inp j) <;>
              simp only [doDtorRel, hst, hj, hv, hok, if_true, if_false] <;> invw_auto
      | _ => have := (hC.dtorRel i j hp).2.2; simp [hst, Strat.isAllVec] at this
  | dtorSet i o hc hp ho => invw_auto
  | dtorThrow i hc hp ho => invw_auto
  | crash i hc hp => invw_auto

end Yaclib.When
