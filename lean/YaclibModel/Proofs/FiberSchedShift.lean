/-
C17 — the scheduler transducer commutes with translating virtual time (and with offsetting the draw counter), and the
engine state is a function of the number of draws since seeding.
-/
import YaclibModel.Proofs.FiberSchedSpec

set_option linter.unusedSectionVars false
set_option linter.unusedSimpArgs false

namespace Yaclib.Sched
open Yaclib.SchedImp
open Yaclib.Extracted.FiberSched

variable {E F Q : Type} [DecidableEq F] [DecidableEq Q]

/-- the sleep map translated by `d` -/
def shiftS (d : Nat) (sl : List (Nat × List F)) : List (Nat × List F) := sl.map (fun kb => (kb.1 + d, kb.2))

theorem shift_sleep (d k : Nat) (s : St E F Q) : (shift d k s).sleep = shiftS d s.sleep := rfl

theorem wakeUp_shift (d t : Nat) (sl : List (Nat × List F)) :
    wakeUp (t + d) (shiftS d sl) = ((wakeUp t sl).1, shiftS d (wakeUp t sl).2) := by
  induction sl with
  | nil => rfl
  | cons kb rest ih =>
    obtain ⟨k, b⟩ := kb
    simp only [shiftS, List.map_cons, wakeUp, stop_eq] at *
    by_cases h : k > t
    · have : k + d > t + d := by omega
      simp [h, this]
    · have : ¬ k + d > t + d := by omega
      simp [h, this, ih]

theorem sleepInsert_shift (d ns : Nat) (f : F) (sl : List (Nat × List F)) :
    sleepInsert (ns + d) f (shiftS d sl) = shiftS d (sleepInsert ns f sl) := by
  induction sl with
  | nil => rfl
  | cons kb rest ih =>
    obtain ⟨k, b⟩ := kb
    simp only [shiftS, List.map_cons, sleepInsert] at *
    by_cases h1 : ns < k
    · have : ns + d < k + d := by omega
      simp [h1, this]
    · have h1' : ¬ ns + d < k + d := by omega
      by_cases h2 : ns = k
      · subst h2; simp
      · have : ¬ ns + d = k + d := by omega
        simp [h1, h1', h2, this, ih]

theorem sleepRemove_shift (d : Nat) (f : F) (sl : List (Nat × List F)) :
    sleepRemove f (shiftS d sl) = shiftS d (sleepRemove f sl) := by
  simp [sleepRemove, shiftS, List.map_map, Function.comp_def]

theorem cleanupBucket_shift (d ns : Nat) (sl : List (Nat × List F)) :
    cleanupBucket (ns + d) (shiftS d sl) = shiftS d (cleanupBucket ns sl) := by
  have hfind : ∀ l : List (Nat × List F),
      (shiftS d l).find? (fun kb => kb.1 == ns + d) = (l.find? (fun kb => kb.1 == ns)).map (fun kb => (kb.1 + d, kb.2)) := by
    intro l
    induction l with
    | nil => rfl
    | cons kb rest ih =>
      obtain ⟨k, b⟩ := kb
      simp only [shiftS, List.map_cons, List.find?_cons] at *
      by_cases h : k = ns
      · subst h; simp
      · have hb1 : (k == ns) = false := by simp [h]
        have hb2 : (k + d == ns + d) = false := by simp; omega
        simp only [hb1, hb2, ih]
  have hfilter : ∀ l : List (Nat × List F),
      (shiftS d l).filter (fun kb => !(kb.1 == ns + d)) = shiftS d (l.filter (fun kb => !(kb.1 == ns))) := by
    intro l
    induction l with
    | nil => rfl
    | cons kb rest ih =>
      obtain ⟨k, b⟩ := kb
      simp only [shiftS, List.map_cons, List.filter_cons] at *
      by_cases h : k = ns
      · subst h; simp [ih]
      · have : ¬ k + d = ns + d := by omega
        simp [h, this, ih]
  unfold cleanupBucket
  rw [hfind]
  cases h : sl.find? (fun kb => kb.1 == ns) with
  | none => simp
  | some kb =>
    simp only [Option.map_some]
    by_cases he : kb.2.isEmpty = true
    · simp [he, hfilter]
    · simp [he]

theorem advance_shift (d k : Nat) (s : St E F Q) : advance (shift d k s) = advance s + d := by
  unfold advance
  simp only [shift]
  by_cases hq : s.queue.isEmpty = true
  · simp only [hq, if_true]
    cases hs : s.sleep with
    | nil => simp
    | cons kb rest =>
      simp only [List.map_cons, List.head?_cons, AdvanceTime_eq]
      split <;> split <;> omega
  · simp [hq]


theorem shift_idem_fields (d k : Nat) (s : St E F Q) :
    (shift d k s).queue = s.queue ∧ (shift d k s).eng = s.eng ∧ (shift d k s).count = s.count ∧
    (shift d k s).pause = s.pause ∧ (shift d k s).waitq = s.waitq ∧ (shift d k s).waiting = s.waiting ∧
    (shift d k s).cur = s.cur ∧ (shift d k s).time = s.time + d ∧ (shift d k s).rc = s.rc + k :=
  ⟨rfl, rfl, rfl, rfl, rfl, rfl, rfl, rfl, rfl⟩

theorem poll_rc (en : Engine E) (cfg : Cfg) (rc k : Nat) (e : E) (l : List F) :
    poll en cfg (rc + k) e l = ((poll en cfg rc e l).1 + k, (poll en cfg rc e l).2.1, (poll en cfg rc e l).2.2) := by
  simp only [poll, PollRandomElementFromList, GetRandNumber_eq]
  congr 1; omega

theorem upd_comp {α β γ : Type} [DecidableEq α] (φ : β → γ) (m : α → β) (a : α) (v : β) :
    upd (fun g => φ (m g)) a (φ v) = fun g => φ (upd m a v g) := by
  funext g; unfold upd; split <;> rfl

theorem upd_timed_none (d : Nat) (m : F → Option (Nat × Q)) (f : F) :
    upd (fun g => (m g).map (fun nq => (nq.1 + d, nq.2))) f none
      = fun g => (upd m f none g).map (fun nq => (nq.1 + d, nq.2)) :=
  upd_comp (fun o : Option (Nat × Q) => o.map (fun nq => (nq.1 + d, nq.2))) m f none

theorem upd_timed_some (d : Nat) (m : F → Option (Nat × Q)) (f : F) (ns : Nat) (q : Q) :
    upd (fun g => (m g).map (fun nq => (nq.1 + d, nq.2))) f (some (ns + d, q))
      = fun g => (upd m f (some (ns, q)) g).map (fun nq => (nq.1 + d, nq.2)) :=
  upd_comp (fun o : Option (Nat × Q) => o.map (fun nq => (nq.1 + d, nq.2))) m f (some (ns, q))

theorem resumeIn_shift (d k : Nat) (s1 : St E F Q) (f : F) :
    resumeIn (shift d k s1) f = (shift d k (resumeIn s1 f).1, (resumeIn s1 f).2) := by
  unfold resumeIn
  cases ht : s1.timed f with
  | none => simp [shift, ht]
  | some nq =>
    obtain ⟨ns, q⟩ := nq
    have ht' : (shift d k s1).timed f = some (ns + d, q) := by simp [shift, ht]
    simp only [ht', shift_sleep, cleanupBucket_shift]
    refine Prod.ext ?_ rfl
    apply St.ext <;> simp [shift, upd_timed_none, shiftS]

theorem dispatchBody_shift (en : Engine E) (cfg : Cfg) (d k : Nat) (again : St E F Q → St E F Q × List (Out F))
    (hagain : ∀ s, again (shift d k s) = (shift d k (again s).1, (again s).2)) (s : St E F Q) :
    dispatchBody en cfg again (shift d k s) = (shift d k (dispatchBody en cfg again s).1, (dispatchBody en cfg again s).2) := by
  unfold dispatchBody
  have hq : (shift d k s).queue = s.queue := rfl
  have he : (shift d k s).sleep.isEmpty = s.sleep.isEmpty := by simp [shift]
  rw [hq, he]
  by_cases h0 : (s.queue.isEmpty && s.sleep.isEmpty) = true
  · simp only [h0, if_true]
    refine Prod.ext ?_ rfl
    apply St.ext <;> simp [shift]
  · have h0' : (s.queue.isEmpty && s.sleep.isEmpty) = false := by simpa using h0
    simp only [h0', Bool.false_eq_true, if_false, advance_shift, shift_sleep, wakeUp_shift]
    by_cases hw : (s.queue ++ (wakeUp (advance s) s.sleep).1).isEmpty = true
    · simp only [hw, if_true]
      have key : ∀ a b : St E F Q, a = shift d k b → again a = (shift d k (again b).1, (again b).2) := by
        intro a b h; subst h; exact hagain b
      apply key
      apply St.ext <;> simp [shift, shiftS]
    · simp only [hw, if_false]
      have hrc : (shift d k s).rc = s.rc + k := rfl
      have heng : (shift d k s).eng = s.eng := rfl
      rw [hrc, heng, poll_rc]
      simp only
      cases hp : (poll en cfg s.rc s.eng (s.queue ++ (wakeUp (advance s) s.sleep).1)).2.2 with
      | none =>
        simp only
        refine Prod.ext ?_ rfl
        apply St.ext <;> simp [shift, shiftS]
      | some fq =>
        obtain ⟨f, queue⟩ := fq
        simp only
        have key : ∀ a b : St E F Q, a = shift d k b → resumeIn a f = (shift d k (resumeIn b f).1, (resumeIn b f).2) := by
          intro a b h; subst h; exact resumeIn_shift d k b f
        apply key
        apply St.ext <;> simp [shift, shiftS, TickTime_eq] <;> omega

theorem dispatchLoop_shift (en : Engine E) (cfg : Cfg) (d k : Nat) : ∀ (fuel : Nat) (s : St E F Q),
    dispatchLoop en cfg fuel (shift d k s) = (shift d k (dispatchLoop en cfg fuel s).1, (dispatchLoop en cfg fuel s).2) := by
  intro fuel
  induction fuel with
  | zero =>
    intro s
    simp only [dispatchLoop]
    apply dispatchBody_shift
    intro s'
    refine Prod.ext ?_ rfl
    apply St.ext <;> simp [shift]
  | succ n ih =>
    intro s
    simp only [dispatchLoop]
    exact dispatchBody_shift en cfg d k _ ih s

theorem dispatch_shift (en : Engine E) (cfg : Cfg) (d k : Nat) (s : St E F Q) :
    dispatch en cfg (shift d k s) = (shift d k (dispatch en cfg s).1, (dispatch en cfg s).2) := by
  unfold dispatch
  have hl : (shift d k s).sleep.length = s.sleep.length := by simp [shift]
  rw [hl]
  exact dispatchLoop_shift en cfg d k _ s

theorem schedule_shift (d k : Nat) (s : St E F Q) (f : F) : schedule (shift d k s) f = shift d k (schedule s f) := by
  apply St.ext <;> simp [schedule, shift]

theorem scheduleAndRemove_shift (d k : Nat) (s : St E F Q) (f : F) :
    scheduleAndRemove (shift d k s) f = shift d k (scheduleAndRemove s f) := by
  unfold scheduleAndRemove
  have hw : (shift d k s).waiting f = s.waiting f := rfl
  rw [hw]
  split
  · rfl
  · rw [← schedule_shift]
    congr 1
    apply St.ext <;> simp [shift]
    exact sleepRemove_shift d f s.sleep

theorem foldl_scheduleAndRemove_shift (d k : Nat) (l : List F) (s : St E F Q) :
    l.foldl scheduleAndRemove (shift d k s) = shift d k (l.foldl scheduleAndRemove s) := by
  induction l generalizing s with
  | nil => rfl
  | cons f rest ih => simp only [List.foldl_cons, scheduleAndRemove_shift, ih]

theorem block_shift (en : Engine E) (cfg : Cfg) (d k : Nat) (s : St E F Q) (prep prep' : F → St E F Q)
    (h : ∀ f, prep' f = shift d k (prep f)) :
    block en cfg (shift d k s) prep' = (shift d k (block en cfg s prep).1, (block en cfg s prep).2) := by
  unfold block
  have hc : (shift d k s).cur = s.cur := rfl
  rw [hc]
  cases s.cur with
  | none => rfl
  | some f => simp only [h, dispatch_shift]

theorem NeedInject_rc (draw : E → E × Nat) (rc k : Nat) (e : E) (c : Nat) (p : Bool) (f : Nat) :
    Injector.NeedInject draw (rc + k) e c p f =
      ((Injector.NeedInject draw rc e c p f).1 + k, (Injector.NeedInject draw rc e c p f).2.1,
       (Injector.NeedInject draw rc e c p f).2.2.1, (Injector.NeedInject draw rc e c p f).2.2.2) := by
  simp only [NeedInject_eq]
  split
  · rfl
  · split
    · simp only [Prod.mk.injEq, and_true]; omega
    · rfl

theorem ShouldFail_rc (draw : E → E × Nat) (rc k : Nat) (e : E) (f : Nat) :
    ShouldFailAtomicWeak draw (rc + k) e f =
      ((ShouldFailAtomicWeak draw rc e f).1 + k, (ShouldFailAtomicWeak draw rc e f).2.1,
       (ShouldFailAtomicWeak draw rc e f).2.2) := by
  simp only [ShouldFailAtomicWeak_eq]
  split
  · simp only [Prod.mk.injEq, and_true]; omega
  · rfl

theorem dispatch_shift_of (en : Engine E) (cfg : Cfg) (d k : Nat) {a b : St E F Q} (h : a = shift d k b) :
    dispatch en cfg a = (shift d k (dispatch en cfg b).1, (dispatch en cfg b).2) := by
  subst h; exact dispatch_shift en cfg d k b

theorem dispatch_shift_cons (en : Engine E) (cfg : Cfg) (d k : Nat) {a b : St E F Q} (o : Out F) (h : a = shift d k b) :
    ((dispatch en cfg a).1, o :: (dispatch en cfg a).2) = (shift d k (dispatch en cfg b).1, o :: (dispatch en cfg b).2) := by
  subst h; rw [dispatch_shift en cfg d k b]

/-- **time-translation invariance, one call**: translating virtual time (and offsetting the draw counter) in the state
    before a call translates the state after it and changes nothing that is observed -/
theorem step_shift (en : Engine E) (cfg : Cfg) (d k : Nat) (s : St E F Q) (r : Req F Q) :
    step en cfg (shift d k s) r = (shift d k (step en cfg s r).1, (step en cfg s r).2) := by
  have hrc : (shift d k s).rc = s.rc + k := rfl
  have heng : (shift d k s).eng = s.eng := rfl
  have hcount : (shift d k s).count = s.count := rfl
  have hpause : (shift d k s).pause = s.pause := rfl
  have hcur : (shift d k s).cur = s.cur := rfl
  have htime : (shift d k s).time = s.time + d := rfl
  have hwq : (shift d k s).waitq = s.waitq := rfl
  cases r with
  | inject =>
    simp only [step, hrc, heng, hcount, hpause, hcur, NeedInject_rc]
    generalize Injector.NeedInject en.draw s.rc s.eng s.count s.pause cfg.yieldFreq = N
    obtain ⟨rc', e', c', b⟩ := N
    simp only
    cases b with
    | false =>
      simp only [Bool.false_eq_true, if_false]
      refine Prod.ext ?_ rfl
      apply St.ext <;> simp [shift]
    | true =>
      simp only [if_true]
      cases hcu : s.cur with
      | none =>
        simp only
        refine Prod.ext ?_ rfl
        apply St.ext <;> simp [shift]
      | some f =>
        simp only
        apply dispatch_shift_cons
        apply St.ext <;> simp [shift]
  | failWeak =>
    simp only [step, hrc, heng, ShouldFail_rc]
    refine Prod.ext ?_ rfl
    apply St.ext <;> simp [shift]
  | yield =>
    simp only [step, hcur]
    cases hcu : s.cur with
    | none => rfl
    | some f =>
      simp only
      apply dispatch_shift_of
      apply St.ext <;> simp [shift]
  | spawn f =>
    simp only [step, hcur, schedule_shift]
    cases hcu : s.cur with
    | none => simp only [dispatch_shift]
    | some g => rfl
  | sleepFor dd =>
    simp only [step, htime, skip_eq]
    by_cases hs : s.time + dd ≤ s.time
    · have : s.time + d + dd ≤ s.time + d := by omega
      simp only [hs, this, decide_true, if_true]
    · have : ¬ s.time + d + dd ≤ s.time + d := by omega
      simp only [hs, this, decide_false, Bool.false_eq_true, if_false]
      apply block_shift
      intro f
      apply St.ext <;> simp [shift]
      have := sleepInsert_shift d (s.time + dd) f s.sleep
      simp only [shiftS] at this
      rw [← this]
      congr 1; omega
  | park q =>
    simp only [step]
    apply block_shift
    intro f
    apply St.ext <;> simp [shift]
  | parkFor q dd =>
    simp only [step, hcur]
    cases hcu : s.cur with
    | none => rfl
    | some f =>
      simp only [hrc, heng, htime, deadline_eq, skip_eq]
      obtain ⟨j, hj⟩ : ∃ j, (en.draw s.eng).2 % cfg.sleepTime = j := ⟨_, rfl⟩
      have hns : s.time + d + dd + j = (s.time + dd + j) + d := by omega
      simp only [hj, hns]
      by_cases hs : s.time + dd + j ≤ s.time
      · have hs' : s.time + dd + j + d ≤ s.time + d := by omega
        simp only [hs, hs', decide_true, if_true, shift_sleep, cleanupBucket_shift]
        refine Prod.ext ?_ rfl
        apply St.ext <;> simp [shift, shiftS] <;> omega
      · have hs' : ¬ s.time + dd + j + d ≤ s.time + d := by omega
        simp only [hs, hs', decide_false, Bool.false_eq_true, if_false]
        apply dispatch_shift_of
        apply St.ext <;> simp [shift, hwq]
        · omega
        · have := sleepInsert_shift d (s.time + dd + j) f s.sleep
          simp only [shiftS] at this
          exact this
        · exact upd_timed_some d s.timed f (s.time + dd + j) q
  | notifyOne q =>
    simp only [step, hwq, hrc, heng, poll_rc]
    by_cases he : (s.waitq q).isEmpty = true
    · simp only [he, if_true]
    · simp only [he, Bool.false_eq_true, if_false]
      cases hp : (poll en cfg s.rc s.eng (s.waitq q)).2.2 with
      | none =>
        simp only
        refine Prod.ext ?_ rfl
        apply St.ext <;> simp [shift]
      | some fr =>
        obtain ⟨f, rest⟩ := fr
        simp only
        refine Prod.ext ?_ rfl
        simp only
        rw [← scheduleAndRemove_shift]
        congr 1
  | notifyAll q =>
    simp only [step, hwq]
    refine Prod.ext ?_ rfl
    simp only
    rw [← foldl_scheduleAndRemove_shift]
    congr 1
  | suspend =>
    simp only [step]
    apply block_shift
    intro f; rfl
  | wake f => simp only [step, schedule_shift]
  | exit =>
    simp only [step]
    apply block_shift
    intro f; rfl


/-- … and any number of calls, for every client -/
theorem run_shift (en : Engine E) (cfg : Cfg) (client : Client F Q) (d k : Nat) :
    ∀ (n : Nat) (s : St E F Q) (obs : List (Out F)),
      run en cfg client n (shift d k s) obs = (shift d k (run en cfg client n s obs).1, (run en cfg client n s obs).2) := by
  intro n
  induction n with
  | zero => intro s obs; rfl
  | succ n ih =>
    intro s obs
    simp only [run]
    cases client obs with
    | none => rfl
    | some r => simp only [step_shift]; exact ih _ _

/-! the engine state is a function of the number of draws -/

/-- `s'` is `s` after `j` more draws -/
def Adv (en : Engine E) (s s' : St E F Q) : Prop := ∃ j, s'.rc = s.rc + j ∧ s'.eng = en.after j s.eng

theorem Adv.same (en : Engine E) {s s' : St E F Q} (h1 : s'.rc = s.rc) (h2 : s'.eng = s.eng) : Adv en s s' :=
  ⟨0, by simp [h1], by simp [h2, Engine.after]⟩

theorem Adv.one (en : Engine E) {s s' : St E F Q} (h1 : s'.rc = s.rc + 1) (h2 : s'.eng = (en.draw s.eng).1) : Adv en s s' :=
  ⟨1, h1, by simp [h2, Engine.after]⟩

theorem Adv.trans (en : Engine E) {a b c : St E F Q} (h1 : Adv en a b) (h2 : Adv en b c) : Adv en a c := by
  obtain ⟨i, hi1, hi2⟩ := h1
  obtain ⟨j, hj1, hj2⟩ := h2
  exact ⟨i + j, by omega, by rw [hj2, hi2, Engine.after_add]⟩

theorem poll_rc_eng (en : Engine E) (cfg : Cfg) (rc : Nat) (e : E) (l : List F) :
    (poll en cfg rc e l).1 = rc + 1 ∧ (poll en cfg rc e l).2.1 = (en.draw e).1 := by
  simp [poll, PollRandomElementFromList, GetRandNumber_eq]

theorem resumeIn_rc_eng (s1 : St E F Q) (f : F) : (resumeIn s1 f).1.rc = s1.rc ∧ (resumeIn s1 f).1.eng = s1.eng := by
  unfold resumeIn
  cases s1.timed f with
  | none => exact ⟨rfl, rfl⟩
  | some nq => exact ⟨rfl, rfl⟩

theorem dispatchBody_adv (en : Engine E) (cfg : Cfg) (again : St E F Q → St E F Q × List (Out F))
    (hagain : ∀ s, Adv en s (again s).1) (s : St E F Q) : Adv en s (dispatchBody en cfg again s).1 := by
  unfold dispatchBody
  by_cases h0 : (s.queue.isEmpty && s.sleep.isEmpty) = true
  · simp only [h0, if_true]
    exact Adv.same en rfl rfl
  · have h0' : (s.queue.isEmpty && s.sleep.isEmpty) = false := by simpa using h0
    simp only [h0', Bool.false_eq_true, if_false]
    by_cases hw : (s.queue ++ (wakeUp (advance s) s.sleep).1).isEmpty = true
    · simp only [hw, if_true]
      exact Adv.trans en (Adv.same en (s' := { s with time := advance s, sleep := (wakeUp (advance s) s.sleep).2 }) rfl rfl) (hagain _)
    · have hw' : (s.queue ++ (wakeUp (advance s) s.sleep).1).isEmpty = false := by simpa using hw
      simp only [hw', Bool.false_eq_true, if_false]
      have hp := poll_rc_eng en cfg s.rc s.eng (s.queue ++ (wakeUp (advance s) s.sleep).1)
      cases hq : (poll en cfg s.rc s.eng (s.queue ++ (wakeUp (advance s) s.sleep).1)).2.2 with
      | none => exact Adv.one en hp.1 hp.2
      | some fq =>
        obtain ⟨f, queue⟩ := fq
        simp only
        have hr := resumeIn_rc_eng ({ s with time := Scheduler.TickTime cfg.tick (advance s), sleep := (wakeUp (advance s) s.sleep).2, queue := queue, rc := (poll en cfg s.rc s.eng (s.queue ++ (wakeUp (advance s) s.sleep).1)).1, eng := (poll en cfg s.rc s.eng (s.queue ++ (wakeUp (advance s) s.sleep).1)).2.1, cur := some f, waiting := upd s.waiting f false } : St E F Q) f
        exact Adv.one en (by rw [hr.1]; exact hp.1) (by rw [hr.2]; exact hp.2)

theorem dispatchLoop_adv (en : Engine E) (cfg : Cfg) : ∀ (fuel : Nat) (s : St E F Q),
    Adv en s (dispatchLoop en cfg fuel s).1 := by
  intro fuel
  induction fuel with
  | zero => intro s; exact dispatchBody_adv en cfg _ (fun _ => Adv.same en rfl rfl) s
  | succ n ih => intro s; exact dispatchBody_adv en cfg _ ih s

theorem dispatch_adv (en : Engine E) (cfg : Cfg) (s : St E F Q) : Adv en s (dispatch en cfg s).1 :=
  dispatchLoop_adv en cfg _ s

theorem scheduleAndRemove_rc_eng (s : St E F Q) (f : F) :
    (scheduleAndRemove s f).rc = s.rc ∧ (scheduleAndRemove s f).eng = s.eng := by
  unfold scheduleAndRemove schedule
  split <;> exact ⟨rfl, rfl⟩

theorem foldl_scheduleAndRemove_rc_eng (l : List F) (s : St E F Q) :
    (l.foldl scheduleAndRemove s).rc = s.rc ∧ (l.foldl scheduleAndRemove s).eng = s.eng := by
  induction l generalizing s with
  | nil => exact ⟨rfl, rfl⟩
  | cons f rest ih =>
    simp only [List.foldl_cons]
    have h1 := ih (scheduleAndRemove s f)
    have h2 := scheduleAndRemove_rc_eng s f
    exact ⟨h1.1.trans h2.1, h1.2.trans h2.2⟩

theorem block_adv (en : Engine E) (cfg : Cfg) (s : St E F Q) (prep : F → St E F Q)
    (h : ∀ f, (prep f).rc = s.rc ∧ (prep f).eng = s.eng) : Adv en s (block en cfg s prep).1 := by
  unfold block
  cases s.cur with
  | none => exact Adv.same en rfl rfl
  | some f => exact Adv.trans en (Adv.same en (h f).1 (h f).2) (dispatch_adv en cfg (prep f))

/-- every call into the fault layer advances the engine by exactly as many draws as it adds to the counter -/
theorem step_adv (en : Engine E) (cfg : Cfg) (s : St E F Q) (r : Req F Q) : Adv en s (step en cfg s r).1 := by
  cases r with
  | inject =>
    simp only [step, NeedInject_eq]
    by_cases hp : s.pause = true
    · simp only [hp, if_true, Bool.false_eq_true, if_false]
      exact Adv.same en rfl rfl
    · simp only [hp, if_false]
      by_cases hc : s.count ≥ cfg.yieldFreq
      · simp only [hc, if_true]
        cases s.cur with
        | none => exact Adv.one en rfl rfl
        | some f =>
          simp only
          exact Adv.trans en (Adv.one en (s' := { s with rc := s.rc + 1, eng := (en.draw s.eng).1, count := u32 ((en.draw s.eng).2 % cfg.yieldFreq), queue := s.queue ++ [f] }) rfl rfl) (dispatch_adv en cfg _)
      · simp only [hc, if_false, Bool.false_eq_true]
        exact Adv.same en rfl rfl
  | failWeak =>
    simp only [step, ShouldFailAtomicWeak_eq]
    by_cases hf : cfg.failFreq = 0
    · simp only [hf, ne_eq, not_true_eq_false, if_false]
      exact Adv.same en rfl rfl
    · simp only [hf, ne_eq, not_false_eq_true, if_true]
      exact Adv.one en rfl rfl
  | yield =>
    simp only [step]
    cases s.cur with
    | none => exact Adv.same en rfl rfl
    | some f => exact Adv.trans en (Adv.same en (s' := { s with queue := s.queue ++ [f] }) rfl rfl) (dispatch_adv en cfg _)
  | spawn f =>
    simp only [step]
    cases s.cur with
    | none => exact Adv.trans en (Adv.same en (s' := schedule s f) rfl rfl) (dispatch_adv en cfg _)
    | some g => exact Adv.same en rfl rfl
  | sleepFor dd =>
    simp only [step]
    split
    · exact Adv.same en rfl rfl
    · exact block_adv en cfg s _ (fun _ => ⟨rfl, rfl⟩)
  | park q => exact block_adv en cfg s _ (fun _ => ⟨rfl, rfl⟩)
  | parkFor q dd =>
    simp only [step, deadline_eq]
    cases s.cur with
    | none => exact Adv.same en rfl rfl
    | some f =>
      simp only
      by_cases h1 : Scheduler.Sleep.skip s.time (s.time + dd + (en.draw s.eng).2 % cfg.sleepTime) = true
      · simp only [h1, if_true]
        exact Adv.one en rfl rfl
      · simp only [h1, if_false]
        exact Adv.trans en (Adv.one en (s' := { s with rc := s.rc + 1, eng := (en.draw s.eng).1, waitq := upd s.waitq q (s.waitq q ++ [f]), timed := upd s.timed f (some (s.time + dd + (en.draw s.eng).2 % cfg.sleepTime, q)), sleep := sleepInsert (s.time + dd + (en.draw s.eng).2 % cfg.sleepTime) f s.sleep }) rfl rfl) (dispatch_adv en cfg _)
  | notifyOne q =>
    simp only [step]
    have hp := poll_rc_eng en cfg s.rc s.eng (s.waitq q)
    split
    · exact Adv.same en rfl rfl
    · split
      · exact Adv.one en hp.1 hp.2
      · rename_i f rest _
        have h := scheduleAndRemove_rc_eng ({ s with rc := (poll en cfg s.rc s.eng (s.waitq q)).1, eng := (poll en cfg s.rc s.eng (s.waitq q)).2.1, waitq := upd s.waitq q rest } : St E F Q) f
        exact Adv.one en (by rw [h.1]; exact hp.1) (by rw [h.2]; exact hp.2)
  | notifyAll q =>
    simp only [step]
    have h := foldl_scheduleAndRemove_rc_eng (s.waitq q).reverse ({ s with waitq := upd s.waitq q [] } : St E F Q)
    exact Adv.same en h.1 h.2
  | suspend => exact block_adv en cfg s _ (fun _ => ⟨rfl, rfl⟩)
  | wake f => exact Adv.same en rfl rfl
  | exit => exact block_adv en cfg s _ (fun _ => ⟨rfl, rfl⟩)



/-! the run loop never picks from an empty run queue, and the fuel of `dispatchLoop` never runs out -/

theorem wakeUp_length_le (t : Nat) (sl : List (Nat × List F)) : (wakeUp t sl).2.length ≤ sl.length := by
  induction sl with
  | nil => simp [wakeUp]
  | cons kb rest ih =>
    obtain ⟨k, b⟩ := kb
    simp only [wakeUp]
    split
    · simp
    · simp only [List.length_cons]; omega

/-- with an empty run queue `AdvanceTime` makes the first bucket due, so `WakeUpNeeded` erases at least that one -/
theorem wake_shrinks (s : St E F Q) (hq : s.queue.isEmpty = true) (hs : s.sleep ≠ []) :
    (wakeUp (advance s) s.sleep).2.length < s.sleep.length := by
  unfold advance
  simp only [hq, if_true]
  cases hsl : s.sleep with
  | nil => exact absurd hsl hs
  | cons kb rest =>
    obtain ⟨k, b⟩ := kb
    simp only [List.head?_cons, AdvanceTime_eq, wakeUp, stop_eq]
    have hstop : ¬ (k > if k ≥ s.time then k else s.time) := by split <;> omega
    simp only [hstop, decide_false, Bool.false_eq_true, if_false, List.length_cons]
    have := wakeUp_length_le (F := F) (if k ≥ s.time then k else s.time) rest
    omega

theorem poll_ne_none (en : Engine E) (cfg : Cfg) (rc : Nat) (e : E) (l : List F) (hl : l.isEmpty = false) :
    (poll en cfg rc e l).2.2 ≠ none := by
  have hne : l ≠ [] := by intro h; simp [h] at hl
  have hn : 0 < l.length := List.length_pos_iff.mpr hne
  simp only [poll, PollRandomElementFromList, GetRandNumber_eq, GetElement_eq]
  have hne0 : l.length ≠ 0 := by omega
  simp only [hne0, if_false, takeAt]
  generalize hidx : indexLaw l.length _ _ = i
  have hlt : i < l.length := by rw [← hidx]; exact indexLaw_lt hn _ _
  simp [List.getElem?_eq_getElem hlt]

theorem resumeIn_no_ub (s1 : St E F Q) (f : F) : Out.ub ∉ (resumeIn s1 f).2 := by
  unfold resumeIn
  cases s1.timed f with
  | none => simp
  | some nq => simp

theorem dispatchBody_no_ub (en : Engine E) (cfg : Cfg) (again : St E F Q → St E F Q × List (Out F)) (s : St E F Q)
    (hagain : s.queue.isEmpty = true → s.sleep ≠ [] →
      Out.ub ∉ (again { s with time := advance s, sleep := (wakeUp (advance s) s.sleep).2 }).2) :
    Out.ub ∉ (dispatchBody en cfg again s).2 := by
  unfold dispatchBody
  by_cases h0 : (s.queue.isEmpty && s.sleep.isEmpty) = true
  · simp [h0]
  · have h0' : (s.queue.isEmpty && s.sleep.isEmpty) = false := by simpa using h0
    simp only [h0', Bool.false_eq_true, if_false]
    by_cases hw : (s.queue ++ (wakeUp (advance s) s.sleep).1).isEmpty = true
    · simp only [hw, if_true]
      have hq : s.queue.isEmpty = true := by
        simp only [List.isEmpty_iff, List.append_eq_nil_iff] at hw ⊢; exact hw.1
      have hs : s.sleep ≠ [] := by
        intro h; simp [hq, h] at h0'
      exact hagain hq hs
    · have hw' : (s.queue ++ (wakeUp (advance s) s.sleep).1).isEmpty = false := by simpa using hw
      simp only [hw', Bool.false_eq_true, if_false]
      have hp := poll_ne_none en cfg s.rc s.eng _ hw'
      cases hq : (poll en cfg s.rc s.eng (s.queue ++ (wakeUp (advance s) s.sleep).1)).2.2 with
      | none => exact absurd hq hp
      | some fq =>
        obtain ⟨f, queue⟩ := fq
        exact resumeIn_no_ub _ f

theorem dispatchLoop_no_ub (en : Engine E) (cfg : Cfg) : ∀ (fuel : Nat) (s : St E F Q), s.sleep.length ≤ fuel →
    Out.ub ∉ (dispatchLoop en cfg fuel s).2 := by
  intro fuel
  induction fuel with
  | zero =>
    intro s hs
    simp only [dispatchLoop]
    apply dispatchBody_no_ub
    intro _ hne
    have : s.sleep = [] := List.eq_nil_of_length_eq_zero (by omega)
    exact absurd this hne
  | succ n ih =>
    intro s hs
    simp only [dispatchLoop]
    apply dispatchBody_no_ub
    intro hq hne
    apply ih
    have := wake_shrinks s hq hne
    simp only
    omega

/-- **D12 is gone**: the run loop (as fixed in /repo 33a96a1) never calls `GetNext` on an empty run queue and never
    leaves the loop with work pending — in *every* state, not only the reachable ones -/
theorem dispatch_no_ub (en : Engine E) (cfg : Cfg) (s : St E F Q) : Out.ub ∉ (dispatch en cfg s).2 :=
  dispatchLoop_no_ub en cfg _ s (Nat.le_refl _)

/-- the only undefined behaviour left in the model is a blocking call made outside a fiber -/
theorem step_ub_only_outside (en : Engine E) (cfg : Cfg) (s : St E F Q) (r : Req F Q) (hcur : s.cur ≠ none) :
    Out.ub ∉ (step en cfg s r).2 := by
  obtain ⟨f, hf⟩ : ∃ f, s.cur = some f := by
    cases h : s.cur with
    | none => exact absurd h hcur
    | some f => exact ⟨f, rfl⟩
  cases r with
  | inject =>
    simp only [step]
    split
    · simp only [hf, List.mem_cons, reduceCtorEq, false_or]
      exact dispatch_no_ub en cfg _
    · simp
  | failWeak => simp [step]
  | yield => simp only [step, hf]; exact dispatch_no_ub en cfg _
  | spawn g => simp [step, hf]
  | sleepFor d =>
    simp only [step]
    split
    · simp
    · simp only [block, hf]; exact dispatch_no_ub en cfg _
  | park q => simp only [step, block, hf]; exact dispatch_no_ub en cfg _
  | parkFor q d =>
    simp only [step, hf]
    split
    · simp
    · exact dispatch_no_ub en cfg _
  | notifyOne q =>
    simp only [step]
    split
    · simp
    · rename_i hne
      have hp := poll_ne_none en cfg s.rc s.eng (s.waitq q) (by simpa using hne)
      cases hq : (poll en cfg s.rc s.eng (s.waitq q)).2.2 with
      | none => exact absurd hq hp
      | some fr => obtain ⟨g, rest⟩ := fr; simp
  | notifyAll q => simp [step]
  | suspend => simp only [step, block, hf]; exact dispatch_no_ub en cfg _
  | wake g => simp [step]
  | exit => simp only [step, block, hf]; exact dispatch_no_ub en cfg _

/-- the engine is the seeded engine advanced by the draw counter (which `SetSeed` reset) -/
def EngAt (en : Engine E) (seed : Nat) (s : St E F Q) : Prop := s.eng = en.after s.rc (en.seed seed)

theorem engAt_init (en : Engine E) (seed c0 : Nat) : EngAt en seed (init en seed c0 : St E F Q) := rfl

theorem engAt_adv (en : Engine E) (seed : Nat) {s s' : St E F Q} (h : EngAt en seed s) (ha : Adv en s s') :
    EngAt en seed s' := by
  obtain ⟨j, j1, j2⟩ := ha
  unfold EngAt at *
  rw [j2, h, j1, Engine.after_add]

theorem engAt_reachable (en : Engine E) (cfg : Cfg) (seed c0 : Nat) {s : St E F Q}
    (h : Reachable en cfg seed c0 s) : EngAt en seed s := by
  induction h with
  | init => exact engAt_init en seed c0
  | step r _ ih => exact engAt_adv en seed ih (step_adv en cfg _ r)

/-- `SetSeed` forgets the counter and the engine: whatever the process drew before -/
theorem reseed_leftover (en : Engine E) (rc : Nat) (e : E) (cnt seed c0 : Nat) :
    reseed en (leftover rc e cnt : St E F Q) seed c0 = init en seed c0 := by
  apply St.ext <;> simp [reseed, leftover, init, Injector.SetState]

theorem restore_eq (en : Engine E) (s0 : St E F Q) (seed n c : Nat) :
    restore en s0 seed n c = { s0 with rc := n, eng := en.after n (en.seed seed), count := c } := by
  simp [restore, ForwardToRandCount_eq, SetSeed, Injector.SetState]

/-- a lone-fiber state is its time-0 / count-0 normal form translated back -/
theorem lone_normal {s : St E F Q} {f : F} (h : Lone s f) :
    s = shift s.time s.rc { s with time := 0, rc := 0 } := by
  apply St.ext <;> simp [shift, h.sleep]
  funext g; simp [h.timed g]

theorem restore_run (en : Engine E) (cfg : Cfg) (seed c0 : Nat) {s : St E F Q} {f : F}
    (hr : Reachable en cfg seed c0 s) (hl : Lone s f)
    (s0 : St E F Q) (hl0 : Lone s0 f) (hp : s0.pause = s.pause)
    (client : Client F Q) (n : Nat) (obs : List (Out F)) :
    (run en cfg client n (restore en s0 seed s.rc s.count) obs).2 = (run en cfg client n s obs).2 := by
  have hm : s.eng = en.after s.rc (en.seed seed) := engAt_reachable en cfg seed c0 hr
  rw [restore_eq]
  have hs := lone_normal hl
  have hs' : ({ s0 with rc := s.rc, eng := en.after s.rc (en.seed seed), count := s.count } : St E F Q)
      = shift s0.time s.rc { s with time := 0, rc := 0 } := by
    apply St.ext <;> simp [shift, hm, hp, hl.queue, hl0.queue, hl.sleep, hl0.sleep, hl.cur, hl0.cur]
    · funext q; rw [hl.waitq q, hl0.waitq q]
    · funext g; rw [hl.waiting g, hl0.waiting g]
    · funext g; simp [hl.timed g, hl0.timed g]
  rw [hs', run_shift]
  conv => rhs; rw [hs, run_shift]

/-- … and the restored process shows the recorded count again -/
theorem restore_rc (en : Engine E) (s0 : St E F Q) (seed n c : Nat) : (restore en s0 seed n c).rc = n := by
  rw [restore_eq]

end Yaclib.Sched
