import YaclibModel.Proofs.FiberSync
namespace Yaclib.FiberSync.Mx
open Yaclib.FiberSync

set_option maxHeartbeats 4000000 in
theorem inv_step_5 {k s l s'} (hi : Inv k s) (hs : Step s l s') (hg : grpOf l = 5) : Inv k s' := by
  cases hi
  cases hs with
  | cvTimeout f t req dl h hd ht => mx_auto
  | notifyOne f w h hw => cases w <;> mx_auto
  | notifyAll f h => mx_auto
  | _ => simp [grpOf] at hg

end Yaclib.FiberSync.Mx
