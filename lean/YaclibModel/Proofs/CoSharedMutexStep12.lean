import YaclibModel.Proofs.CoSharedMutex
namespace Yaclib.CoSharedMutex

set_option maxHeartbeats 4000000 in
theorem inv_step_12 {cfg s l s'} (hi : Inv cfg s) (hs : Step s l s') (hg : grpOf l = 12) : Inv cfg s' := by
  cases hs with
  | runW c n h =>
      cases hi
      sm_auto [List.count_le_length]
  | runR c n rest h ht =>
      have ⟨hn, hnr⟩ := head_pc_torun hi ht
      cases hi
      by_cases hr : rest = []
      · simp only [doRunR, hr, ↓reduceIte]; sm_auto [List.count_le_length]
      · simp only [doRunR, hr, ↓reduceIte]; sm_auto [List.count_le_length]
  | _ => simp [grpOf] at hg

end Yaclib.CoSharedMutex
