import YaclibModel.Proofs.CoSharedMutexStep0
import YaclibModel.Proofs.CoSharedMutexStep1
import YaclibModel.Proofs.CoSharedMutexStep2
import YaclibModel.Proofs.CoSharedMutexStep3
import YaclibModel.Proofs.CoSharedMutexStep4
import YaclibModel.Proofs.CoSharedMutexStep5
import YaclibModel.Proofs.CoSharedMutexStep6
import YaclibModel.Proofs.CoSharedMutexStep7
import YaclibModel.Proofs.CoSharedMutexStep8
import YaclibModel.Proofs.CoSharedMutexStep9
import YaclibModel.Proofs.CoSharedMutexStep10
import YaclibModel.Proofs.CoSharedMutexStep11
import YaclibModel.Proofs.CoSharedMutexStep12
namespace Yaclib.CoSharedMutex

theorem inv_step {cfg s l s'} (hi : Inv cfg s) (hs : Step s l s') : Inv cfg s' := by
  have h : grpOf l = 0 ∨ grpOf l = 1 ∨ grpOf l = 2 ∨ grpOf l = 3 ∨ grpOf l = 4 ∨ grpOf l = 5 ∨ grpOf l = 6 ∨
      grpOf l = 7 ∨ grpOf l = 8 ∨ grpOf l = 9 ∨ grpOf l = 10 ∨ grpOf l = 11 ∨ grpOf l = 12 := by
    cases l <;> simp [grpOf]
  rcases h with h | h | h | h | h | h | h | h | h | h | h | h | h
  · exact inv_step_0 hi hs h
  · exact inv_step_1 hi hs h
  · exact inv_step_2 hi hs h
  · exact inv_step_3 hi hs h
  · exact inv_step_4 hi hs h
  · exact inv_step_5 hi hs h
  · exact inv_step_6 hi hs h
  · exact inv_step_7 hi hs h
  · exact inv_step_8 hi hs h
  · exact inv_step_9 hi hs h
  · exact inv_step_10 hi hs h
  · exact inv_step_11 hi hs h
  · exact inv_step_12 hi hs h

theorem inv_reachable {cfg s} (h : Reachable cfg s) : Inv cfg s := by
  induction h with
  | init => exact inv_init cfg
  | step _ hs ih => exact inv_step ih hs

end Yaclib.CoSharedMutex
