import YaclibModel.Proofs.When
namespace Yaclib.When

set_option maxHeartbeats 4000000 in
theorem invc_step_0 {w s l s'} (hi : InvC w s) (hs : Step w s l s') (hg : l.grp = 0) : InvC w s' := by
  have hidx := @InvC.idx w s hi
  have hlast := @InvC.last_holder w s hi
  have hpos := @InvC.count_pos w s hi
  cases hi
  cases hs with
  | regSet i okb hc hb hr hn =>
      have h1 := consumeStart_cases w.strat (w.inp i)
      have h2 := afterRetire_cases w.strat (w.inp i)
      have h3 := lose_cases w.strat
      cases okb <;> invc_auto
  | fire i hc hp =>
      have h1 := consumeStart_cases w.strat (w.inp i)
      have h2 := afterRetire_cases w.strat (w.inp i)
      have h3 := lose_cases w.strat
      invc_auto
  | retire i hc hp =>
      have h1 := consumeStart_cases w.strat (w.inp i)
      have h2 := afterRetire_cases w.strat (w.inp i)
      have h3 := lose_cases w.strat
      invc_auto
  | _ => simp [Label.grp] at hg

end Yaclib.When
