import YaclibModel.Proofs.CoMutexStep0
import YaclibModel.Proofs.CoMutexStep1
import YaclibModel.Proofs.CoMutexStep2
import YaclibModel.Proofs.CoMutexStep3
import YaclibModel.Proofs.CoMutexStep4
namespace Yaclib.CoMutex

theorem inv_step {cfg s l s'} (hi : Inv cfg s) (hs : Step s l s') : Inv cfg s' := by
  have h5 : grpOf l = 0 ∨ grpOf l = 1 ∨ grpOf l = 2 ∨ grpOf l = 3 ∨ grpOf l = 4 := by
    cases l <;> simp [grpOf]
  rcases h5 with h | h | h | h | h
  · exact inv_step_0 hi hs h
  · exact inv_step_1 hi hs h
  · exact inv_step_2 hi hs h
  · exact inv_step_3 hi hs h
  · exact inv_step_4 hi hs h

theorem inv_reachable {cfg s} (h : Reachable cfg s) : Inv cfg s := by
  induction h with
  | init => exact inv_init cfg
  | step _ hs ih => exact inv_step ih hs

end Yaclib.CoMutex
