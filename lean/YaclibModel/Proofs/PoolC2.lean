import YaclibModel.Proofs.Pool
namespace Yaclib.Pool
open Yaclib.Extracted.PoolConsts

set_option maxHeartbeats 2000000 in
theorem invC_step_2 {w s l s'} (ha : InvA w s) (hi : InvC w s) (hs : Step s l s') (hg : grpOf l = 2) : InvC w s' := by
  have hcj := ha.cnt_jobs
  have hgq := ha.gone_queue
  have hwl := ha.wlen
  cases hs with
  | wPop i b j rest h hq => wfacts h; cases hi; cases b <;> invC_close
  | wStop i b h hq hc => wfacts h; have hself := mem_set_self' (b := WPc.stopping) h; cases hi; cases b <;> invC_close
  | wExit i b h hq hc hw => wfacts h; cases hi; cases b <;> invC_close
  | wWait i b h hq hc hw => wfacts h; cases hi; cases b <;> invC_close
  | _ => simp [grpOf] at hg

end Yaclib.Pool
