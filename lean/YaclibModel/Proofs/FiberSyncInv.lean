import YaclibModel.Proofs.FiberSyncStep0
import YaclibModel.Proofs.FiberSyncStep1
import YaclibModel.Proofs.FiberSyncStep2
import YaclibModel.Proofs.FiberSyncStep3
import YaclibModel.Proofs.FiberSyncStep4
import YaclibModel.Proofs.FiberSyncStep5
import YaclibModel.Proofs.FiberSyncStep6
namespace Yaclib.FiberSync.Mx
open Yaclib.FiberSync

theorem inv_step {k s l s'} (hi : Inv k s) (hs : Step s l s') : Inv k s' := by
  have h6 : grpOf l = 0 ∨ grpOf l = 1 ∨ grpOf l = 2 ∨ grpOf l = 3 ∨ grpOf l = 4 ∨ grpOf l = 5 ∨ grpOf l = 6 := by
    cases l <;> simp [grpOf]
  rcases h6 with h | h | h | h | h | h | h
  · exact inv_step_0 hi hs h
  · exact inv_step_1 hi hs h
  · exact inv_step_2 hi hs h
  · exact inv_step_3 hi hs h
  · exact inv_step_4 hi hs h
  · exact inv_step_5 hi hs h
  · exact inv_step_6 hi hs h

theorem inv_reachable {k n s} (h : Reachable k n s) : Inv k s := by
  induction h with
  | init => exact inv_init k n
  | step _ hs ih => exact inv_step ih hs

end Yaclib.FiberSync.Mx
