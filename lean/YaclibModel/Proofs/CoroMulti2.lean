/- the multi-coroutine system: the steps that are nobody's own (fulfilment, external subscriber, a Task moving) are environment
   steps of — or invisible to — every projection -/
import YaclibModel.Proofs.CoroMulti1

namespace Yaclib.CoroMulti
open Yaclib.Coro

/-- how one step of the system looks in a projection: nothing, or one step of the one-coroutine model -/
def ProjRel (s s' : State) : Prop := s' = s ∨ ∃ l, Step s l s'

theorem proj_of_cells' {W : MWorkload} {S' : MState} {k : Nat} {s' : State} (c : Nat → Cell)
    (hc : { S'.cor k with cells := c } = s') (hv : ∀ j, viewCell W k j (S'.cells j) = c j) : S'.proj W k = s' := by
  rw [← hc]
  simp only [MState.proj]
  have : (fun j => viewCell W k j (S'.cells j)) = c := funext hv
  rw [this]

theorem viewCell_hidden {W : MWorkload} {k j : Nat} (h : W.hidden k j = true) (c c' : GCell) :
    viewCell W k j c = viewCell W k j c' := by simp [viewCell, h]

theorem viewCell_visible {W : MWorkload} {k j : Nat} (h : W.hidden k j = false) (c : GCell) :
    viewCell W k j c = { word := viewWord (W.gcell j).shared k c.word, started := c.started, cexec := c.cexec } := by
  simp [viewCell, h]

theorem gupd_same (f : Nat → GCell) (j : Nat) (c : GCell) : gupd f j c j = c := by simp [gupd]
theorem gupd_other (f : Nat → GCell) (j k : Nat) (c : GCell) (h : k ≠ j) : gupd f j c k = f k := by simp [gupd, h]

/-- if the only cell that changed is hidden from coroutine k, or looks the same to it, its projection does not change -/
theorem proj_unchanged {W : MWorkload} {S : MState} {k j : Nat} {c : GCell} {cor' : Nat → State} (hcor : cor' k = S.cor k)
    (hv : viewCell W k j c = viewCell W k j (S.cells j)) :
    (MState.mk (gupd S.cells j c) cor').proj W k = S.proj W k := by
  apply proj_congr hcor
  intro j'
  by_cases h : j' = j
  · subst h; simp only [gupd_same]; exact hv
  · simp only [gupd_other _ _ _ _ h]

theorem step_prod_proj {W : MWorkload} {S : MState} {j : Nat} {cbs : List (Nat × Nat)} {e : Bool} (k : Nat)
    (hw : (S.cells j).word = .gopen cbs e) (hl : (W.gcell j).lazy = false ∨ (S.cells j).started = true)
    (hwk : (S.proj W k).w = W.proj k) :
    ProjRel (S.proj W k) (MState.proj W { S with cells := gupd S.cells j { S.cells j with word := .gresult cbs } } k) := by
  cases hh : W.hidden k j with
  | true => left; exact proj_unchanged rfl (viewCell_hidden hh _ _)
  | false =>
      right
      have hword : (S.proj W k).word j = .open (mineOf k cbs) ((W.gcell j).shared && (e || hasOther k cbs)) := by
        simp only [State.word, proj_cells, viewCell_visible hh, hw, viewWord]
      refine ⟨.pXchg j, ?_⟩
      have hst := Step.pXchg (S.proj W k) j _ _ hword (by
        rw [hwk, proj_cell]
        simp only [MWorkload.cellW, proj_cells, viewCell_visible hh]; exact hl)
      have heq : MState.proj W { S with cells := gupd S.cells j { S.cells j with word := .gresult cbs } } k =
          (S.proj W k).setWord j (.result (mineOf k cbs)) := by
        apply proj_of_cells' (upd (S.proj W k).cells j { (S.proj W k).cells j with word := .result (mineOf k cbs) })
        · rfl
        · intro j'
          by_cases h : j' = j
          · subst h; simp only [gupd_same, upd_same, proj_cells, viewCell_visible hh, viewWord]
          · simp only [gupd_other _ _ _ _ h, upd_other _ _ _ _ h, proj_cells]
      rw [heq]; exact hst

theorem step_ext_proj {W : MWorkload} {S : MState} {j : Nat} {cbs : List (Nat × Nat)} {e : Bool} (k : Nat)
    (hw : (S.cells j).word = .gopen cbs e) (hs : (W.gcell j).shared = true) (hx : (W.gcell j).ext = true)
    (hwk : (S.proj W k).w = W.proj k) :
    ProjRel (S.proj W k) (MState.proj W { S with cells := gupd S.cells j { S.cells j with word := .gopen cbs true } } k) := by
  cases hh : W.hidden k j with
  | true => left; exact proj_unchanged rfl (viewCell_hidden hh _ _)
  | false =>
      right
      have hword : (S.proj W k).word j = .open (mineOf k cbs) ((W.gcell j).shared && (e || hasOther k cbs)) := by
        simp only [State.word, proj_cells, viewCell_visible hh, hw, viewWord]
      refine ⟨.envPush j, ?_⟩
      have hst := Step.envPush (S.proj W k) j _ _ hword (by
        rw [hwk]; simp only [Workload.unsafeCell, proj_cell, MWorkload.cellW, MWorkload.others, hs, hx]; rfl)
      have heq : MState.proj W { S with cells := gupd S.cells j { S.cells j with word := .gopen cbs true } } k =
          (S.proj W k).setWord j (.open (mineOf k cbs) true) := by
        apply proj_of_cells' (upd (S.proj W k).cells j { (S.proj W k).cells j with word := .open (mineOf k cbs) true })
        · rfl
        · intro j'
          by_cases h : j' = j
          · subst h; simp only [gupd_same, upd_same, proj_cells, viewCell_visible hh, viewWord, hs]; simp
          · simp only [gupd_other _ _ _ _ h, upd_other _ _ _ _ h, proj_cells]
      rw [heq]; exact hst

theorem step_swap_proj {W : MWorkload} {S : MState} {j e : Nat} (k : Nat)
    (hl : (W.gcell j).lazy = true) (hs : (S.cells j).started = true) (hwk : (S.proj W k).w = W.proj k) :
    ProjRel (S.proj W k) (MState.proj W { S with cells := gupd S.cells j { S.cells j with cexec := e } } k) := by
  cases hh : W.hidden k j with
  | true => left; exact proj_unchanged rfl (viewCell_hidden hh _ _)
  | false =>
      right
      refine ⟨.envSwap j e, ?_⟩
      have hst := Step.envSwap (S.proj W k) j e (by
        rw [swapAllowed, hwk, proj_cell]
        simp only [MWorkload.cellW, proj_cells, viewCell_visible hh, hl, hs]; rfl)
      have heq : MState.proj W { S with cells := gupd S.cells j { S.cells j with cexec := e } } k =
          { (S.proj W k) with cells := upd (S.proj W k).cells j { (S.proj W k).cells j with cexec := e } } := by
        apply proj_of_cells' (upd (S.proj W k).cells j { (S.proj W k).cells j with cexec := e })
        · rfl
        · intro j'
          by_cases h : j' = j
          · subst h; simp only [gupd_same, upd_same, proj_cells, viewCell_visible hh]
          · simp only [gupd_other _ _ _ _ h, upd_other _ _ _ _ h, proj_cells]
      rw [heq]; exact hst

end Yaclib.CoroMulti
