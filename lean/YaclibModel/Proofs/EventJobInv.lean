/- C16: the job invariant holds in every reachable state of a workload that respects the token discipline -/
import YaclibModel.Proofs.EventJobStep
import YaclibModel.Proofs.EventJobStep2

namespace Yaclib.Event
variable {s s' : State} {l : Label} {w : Workload}

theorem invJ_step (ht : InvT s) (hi : InvJ s) (hs : Step s l s') : InvJ s' := by
  cases hs with
  | tAdd t k rest h hp => exact invJ_step_count hi (.tAdd s t k rest h hp) (Or.inl ⟨_, _, _, rfl⟩)
  | tDone t k rest h hp => exact invJ_step_count hi (.tDone s t k rest h hp) (Or.inr (Or.inl ⟨_, _, _, rfl⟩))
  | tInsAdd t consume fs rest h hp hne => exact invJ_step_count hi (.tInsAdd s t consume fs rest h hp hne) (Or.inl ⟨_, _, _, rfl⟩)
  | tInsLoad t f rest c wc consume x h hx =>
      exact invJ_step_count hi (.tInsLoad s t f rest c wc consume x h hx) (Or.inr (Or.inr (Or.inl ⟨_, _, _, rfl⟩)))
  | tInsCasOk t f rest c wc consume h hw =>
      exact invJ_step_count hi (.tInsCasOk s t f rest c wc consume h hw) (Or.inr (Or.inr (Or.inr (Or.inl ⟨_, _, _, rfl⟩))))
  | tInsCasFail t f rest c wc consume h hw =>
      exact invJ_step_count hi (.tInsCasFail s t f rest c wc consume h hw) (Or.inr (Or.inr (Or.inr (Or.inl ⟨_, _, _, rfl⟩))))
  | tInsSub t k h => exact invJ_step_count hi (.tInsSub s t k h) (Or.inr (Or.inl ⟨_, _, _, rfl⟩))
  | tFulfil t f rest h hp =>
      exact invJ_step_count hi (.tFulfil s t f rest h hp) (Or.inr (Or.inr (Or.inr (Or.inr (Or.inl ⟨_, _, _, rfl⟩)))))
  | tCbSub t f rest h hp => exact invJ_step_count hi (.tCbSub s t f rest h hp) (Or.inr (Or.inl ⟨_, _, _, rfl⟩))
  | tReadyLoad t f rest h hp =>
      exact invJ_step_count hi (.tReadyLoad s t f rest h hp) (Or.inr (Or.inr (Or.inl ⟨_, _, _, rfl⟩)))
  | tReady t f b c h =>
      exact invJ_step_count hi (.tReady s t f b c h) (Or.inr (Or.inr (Or.inr (Or.inr (Or.inr ⟨_, _, _, rfl⟩)))))
  | tXchgHead t h => exact invJ_tXchgHead ht hi t h
  | tRunLock t j rest h hk hm => exact invJ_tRunLock hi t j rest h hk hm
  | tRunUnlock t j rest h => exact invJ_tRunUnlock ht hi t j rest h
  | tRunDec t j rest h => exact invJ_tRunDec ht hi t j rest h
  | tRunRel t j rest h hk => exact invJ_tRunRel ht hi t j rest h hk
  | tStart t op rest k x h hp hk hx => exact invJ_tStart hi t k (opChecks op) x h
  | tTryLoad t j x h hx => exact invJ_tryWith hi t j x (Or.inl h)
  | tCasOk t j l h hh => exact invJ_tCasOk hi t j l h hh
  | tCasFail t j x h hh => exact invJ_tryWith hi t j _ (Or.inr ⟨x, h⟩)
  | tCasSpur t j x x' h hx => exact invJ_tryWith hi t j x' (Or.inr ⟨x, h⟩)
  | tResume t j h => exact invJ_tResume hi t j h
  | tBLock t j h hm =>
      exact invJ_tBLock hi t j false (by rcases h with h | h; exact Or.inl h; exact Or.inr (Or.inl h)) (fun h => by cases h) hm
  | tBSleep t j h => exact invJ_tBSleep hi t j h
  | tBTimeout t j h hk => exact invJ_tBTimeout hi t j h hk
  | tBLockT t j h hm => exact invJ_tBLock hi t j true (Or.inr (Or.inr h)) (fun _ => hi.j_to t j h) hm
  | tBUnlockRet t j b h => exact invJ_tBUnlockRet hi t j b h
  | tBDec t j b h => exact invJ_tBDec hi t j b h
  | tRep t j b h => exact invJ_tRep hi t j b h

theorem invJ_reachable (hok : w.ok) (h : Reachable w s) : InvJ s := by
  induction h with
  | init => exact invJ_init w
  | step hr hs ih => exact invJ_step (invT_reachable hok hr) ih hs

end Yaclib.Event
