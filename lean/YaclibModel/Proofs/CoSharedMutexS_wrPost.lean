import YaclibModel.Proofs.CoSharedMutexS_wrPost_1
import YaclibModel.Proofs.CoSharedMutexS_wrPost_2
namespace Yaclib.CoSharedMutex

theorem inv_wrPost {cfg : Cfg} {s : State} (hi : Inv cfg s) (c : Cid) (r : Nat) (h : s.pc c = .wPost r) (hs : s.spin = .held c) :
    Inv cfg ((doWrPost s c r)) := by
  by_cases hp : s.rwait = -(r : Int)
  · exact inv_wrPost_1 hi c r h hs hp
  · exact inv_wrPost_2 hi c r h hs hp

end Yaclib.CoSharedMutex
