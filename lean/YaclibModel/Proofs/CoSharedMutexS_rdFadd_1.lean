import YaclibModel.Proofs.CoSharedMutex
namespace Yaclib.CoSharedMutex

set_option maxHeartbeats 4000000 in
theorem inv_rdFadd_1 {cfg : Cfg} {s : State} (hi : Inv cfg s) (c : Cid) (h : s.pc c = .idle) (ht : s.todo c ≠ []) (ho : curOp s c = .rd) (hW : s.W = 0) :
    Inv cfg ((doRdFadd s c)) := by
  cases hi
  simp only [doRdFadd, hW, ↓reduceIte]; sm_auto [List.count_le_length]

end Yaclib.CoSharedMutex
