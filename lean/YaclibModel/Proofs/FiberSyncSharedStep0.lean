import YaclibModel.Proofs.FiberSyncShared
namespace Yaclib.FiberSync.Sm
open Yaclib.FiberSync

set_option maxHeartbeats 4000000 in
theorem inv_step_0 {k s l s'} (hi : Inv k s) (hs : Step s l s') (hg : grpOf l = 0) : Inv k s' := by
  cases hs with
  | xFast f h ho => cases hi; sm_auto
  | xPark f h ho => cases hi; sm_auto
  | xRecheckAcq f h ho => cases hi; sm_auto
  | xRepark f h ho => cases hi; sm_auto
  | tryXOk f h ho => cases hi; sm_auto
  | tryXFail f h ho => cases hi; sm_auto
  | _ => simp [grpOf] at hg

end Yaclib.FiberSync.Sm
