import YaclibModel.Proofs.FiberSyncShared
namespace Yaclib.FiberSync.Sm
open Yaclib.FiberSync

set_option maxHeartbeats 4000000 in
theorem inv_step_0 {k s l s'} (hi : Inv k s) (hs : Step s l s') (hg : grpOf l = 0) : Inv k s' := by
  cases hi
  cases hs with
  | xFast f h ho => sm_auto
  | xPark f h ho => sm_auto
  | xWokenAcq f h => sm_auto
  | xRecheckAcq f h ho => sm_auto
  | xRepark f h ho => sm_auto
  | tryXOk f h ho => sm_auto
  | tryXFail f h ho => sm_auto
  | sFast f h hx => sm_auto
  | sPark f hfx h hx => sm_auto
  | sParkF f hfx h hx => sm_auto
  | sRecheckAcq f h hx => sm_auto
  | sRepark f h hx => sm_auto
  | sWokenAcq f h => sm_auto
  | trySOk f h hx => sm_auto
  | trySFail f h hx => sm_auto
  | _ => simp [grpOf] at hg

end Yaclib.FiberSync.Sm
