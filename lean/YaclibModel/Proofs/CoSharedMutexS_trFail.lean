import YaclibModel.Proofs.CoSharedMutex
namespace Yaclib.CoSharedMutex

set_option maxHeartbeats 4000000 in
theorem inv_trFail {cfg : Cfg} {s : State} (hi : Inv cfg s) (c : Cid) (w r : Nat) (h : s.pc c = .trLoop w r) (hw : w ≠ 0) :
    Inv cfg ((doTryFail s c)) := by
  cases hi
  sm_auto [List.count_le_length]

end Yaclib.CoSharedMutex
