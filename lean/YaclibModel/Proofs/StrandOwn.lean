/- C03 on the Strand model (Model/Strand.lean): the strand's reference to itself.

   `Strand::Submit` does `static_cast<Job&>(*this).IncRef()` before `_executor->Submit(*this)` when it replaced the idle
   marker; `Strand::Call` does `DecRef()` when its final CAS `nullptr → Mark()` succeeded (otherwise it hands its reference on to
   the activation it re-submits); `Strand::Drop` does `DecRef()` after its loop.  The model folds these into the steps
   `sSched` / `aCasOk` / the last `aDrop` of an activation and has no counter for them, so the counter is added here as an
   EXTERNAL ghost: `ReachableRef w s inc dec` is `Reachable w s` together with the number of IncRefs / DecRefs of the run that
   led to `s` (computed from the labels; the model, its `next` and all its theorems are untouched).
   `RefInv`: IncRefs = DecRefs + [an activation holds the token] + number of activations inside `Strand::Drop`. -/
import YaclibModel.Proofs.StrandInv

namespace Yaclib.Strand

/-- `IncRef()` on the strand itself: only in `Submit`, by the submitter that replaced the idle marker -/
def incOf : Label → Nat
  | .sSched _ => 1
  | _ => 0

/-- `DecRef()` on the strand itself: the successful CAS `nullptr → Mark()` at the end of `Call`; the end of the loop of `Drop` -/
def decOf (s : State) : Label → Nat
  | .aCasOk _ => 1
  | .aDrop a j => if s.acts a = .drain [j] then 1 else 0
  | _ => 0

/-- runs of the model with the strand's own reference counter as ghost: `inc` IncRefs and `dec` DecRefs so far -/
inductive ReachableRef (w : Workload) : State → Nat → Nat → Prop where
  | init : ReachableRef w (init w) 0 0
  | step {s l s' inc dec} : ReachableRef w s inc dec → Step s l s' → ReachableRef w s' (inc + incOf l) (dec + decOf s l)

theorem ReachableRef.reachable {w s inc dec} (h : ReachableRef w s inc dec) : Reachable w s := by
  induction h with
  | init => exact .init
  | step _ hs ih => exact .step ih hs

/-- every reachable state is reached by a run with counters -/
theorem reachable_ref {w s} (h : Reachable w s) : ∃ inc dec, ReachableRef w s inc dec := by
  induction h with
  | init => exact ⟨0, 0, .init⟩
  | step _ hs ih => obtain ⟨i, d, hr⟩ := ih; exact ⟨_, _, .step hr hs⟩

def isDrain : APc → Bool
  | .drain _ => true
  | _ => false

theorem isDrain_drain (rem : List JobId) : isDrain (.drain rem) = true := rfl
theorem isDrain_done : isDrain .done = false := rfl
theorem isDrain_queued : isDrain .queued = false := rfl

/-- number of activations `a < n` that are inside `Strand::Drop` (they have released the token but not yet their reference) -/
def cntD (acts : Nat → APc) : Nat → Nat
  | 0 => 0
  | n + 1 => cntD acts n + (if isDrain (acts n) then 1 else 0)

/-- 1 iff an activation (queued, running a batch, about to re-submit) holds the token — and with it the reference that
    `Submit` took for it -/
def actTok : Option Holder → Nat
  | some (.act _) => 1
  | _ => 0

theorem cntD_upd_ge (acts : Nat → APc) (a : Nat) (v : APc) (n : Nat) (h : n ≤ a) : cntD (upd acts a v) n = cntD acts n := by
  induction n with
  | zero => rfl
  | succ k ih =>
      have hne : k ≠ a := by omega
      simp only [cntD]
      rw [ih (by omega), upd_other _ _ _ _ hne]

theorem cntD_upd_lt (acts : Nat → APc) (a : Nat) (v : APc) (n : Nat) (h : a < n) :
    cntD (upd acts a v) n + (if isDrain (acts a) then 1 else 0) = cntD acts n + (if isDrain v then 1 else 0) := by
  induction n with
  | zero => omega
  | succ k ih =>
      by_cases hk : a = k
      · subst hk
        have h1 := cntD_upd_ge acts a v a (Nat.le_refl _)
        simp only [cntD, h1, upd_same]
        omega
      · have h2 := ih (by omega)
        have hne : k ≠ a := fun h => hk h.symm
        simp only [cntD, upd_other _ _ _ _ hne]
        omega

theorem cntD_same (acts : Nat → APc) (a : Nat) (v : APc) (n : Nat) (h : a < n) (h1 : isDrain (acts a) = false)
    (h2 : isDrain v = false) : cntD (upd acts a v) n = cntD acts n := by
  have := cntD_upd_lt acts a v n h
  simp only [h1, h2] at this
  simpa using this

theorem cntD_zero (acts : Nat → APc) (n : Nat) (h : ∀ a, a < n → isDrain (acts a) = false) : cntD acts n = 0 := by
  induction n with
  | zero => rfl
  | succ k ih => simp only [cntD]; rw [ih (fun a ha => h a (by omega)), h k (by omega)]; rfl

theorem cntD_pos (acts : Nat → APc) (n a : Nat) (h : a < n) (hd : isDrain (acts a) = true) : 0 < cntD acts n := by
  have := cntD_upd_lt acts a .done n h
  simp only [hd, isDrain_done, Bool.false_eq_true, ↓reduceIte] at this
  omega

/-- IncRefs = DecRefs + references held -/
def RefInv (s : State) (inc dec : Nat) : Prop := inc = dec + actTok s.holder + cntD s.acts s.nacts

theorem act_lt {w s} (hi : InvTok w s) {a : Nat} (h : s.acts a ≠ .none) : a < s.nacts := by
  apply Classical.byContradiction
  intro hn
  exact h (hi.fresh a (by omega))

theorem refInv_step {w s l s' inc dec} (hi : InvTok w s) (hr : RefInv s inc dec) (hs : Step s l s') :
    RefInv s' (inc + incOf l) (dec + decOf s l) := by
  unfold RefInv at *
  cases hs with
  | sLoad i v h hj hv => simpa [doLoad, incOf, decOf] using hr
  | sCasFail i exp v h hne hv => simpa [doLoad, incOf, decOf] using hr
  | sCasSpur i exp h => simpa [incOf, decOf] using hr
  | sCasOk i exp h he =>
      by_cases hm : exp = .mark
      · subst hm
        have hh : s.holder = none := hi.tok_none.mpr (Word.head_eq_mark.mp he.symm)
        rw [hh] at hr
        simpa [doCasOk, incOf, decOf, actTok] using hr
      · simpa [doCasOk, incOf, decOf, hm] using hr
  | sSched i h =>
      have hh : s.holder = some (.sub i) := (hi.tok_sub i).mp h
      rw [hh] at hr
      have h1 := cntD_upd_ge s.acts s.nacts .queued s.nacts (Nat.le_refl _)
      simp only [doSched, incOf, decOf, actTok, cntD, h1, upd_same, isDrain_queued, Bool.false_eq_true, ↓reduceIte] at hr ⊢
      omega
  | aCall a h =>
      have hlt : a < s.nacts := act_lt hi (by rw [h]; simp)
      have hd : isDrain (s.acts a) = false := by rw [h]; rfl
      simp only [doCall]
      split
      · simpa [incOf, decOf, cntD_same _ _ _ _ hlt hd (by rfl : isDrain (.run _) = false)] using hr
      · simpa [incOf, decOf, cntD_same _ _ _ _ hlt hd (by rfl : isDrain .crashed = false)] using hr
  | aBegin a j rem h =>
      have hlt : a < s.nacts := act_lt hi (by rw [h]; simp)
      have hd : isDrain (s.acts a) = false := by rw [h]; rfl
      simpa [doBegin, incOf, decOf, cntD_same _ _ _ _ hlt hd (by rfl : isDrain (.busy j rem) = false)] using hr
  | aEnd a j rem h =>
      have hlt : a < s.nacts := act_lt hi (by rw [h]; simp)
      have hd : isDrain (s.acts a) = false := by rw [h]; rfl
      simpa [doEnd, incOf, decOf, cntD_same _ _ _ _ hlt hd (by rfl : isDrain (.run rem) = false)] using hr
  | aLoad a sawNull h hv =>
      have hlt : a < s.nacts := act_lt hi (by rw [h]; simp)
      have hd : isDrain (s.acts a) = false := by rw [h]; rfl
      have hv' : isDrain (if sawNull = true then APc.cas else APc.resub) = false := by cases sawNull <;> rfl
      simpa [doALoad, incOf, decOf, cntD_same _ _ _ _ hlt hd hv'] using hr
  | aCasFail a h hw =>
      have hlt : a < s.nacts := act_lt hi (by rw [h]; simp)
      have hd : isDrain (s.acts a) = false := by rw [h]; rfl
      simpa [doACasFail, incOf, decOf, cntD_same _ _ _ _ hlt hd (by rfl : isDrain .resub = false)] using hr
  | aCasOk a h hw =>
      have hlt : a < s.nacts := act_lt hi (by rw [h]; simp)
      have hd : isDrain (s.acts a) = false := by rw [h]; rfl
      have hh : s.holder = some (.act a) := (hi.tok_act a).mp (by rw [h]; rfl)
      rw [hh] at hr
      simp only [doACasOk, incOf, decOf, actTok, cntD_same _ _ _ _ hlt hd (by rfl : isDrain .done = false)] at hr ⊢
      omega
  | aResub a h =>
      have hlt : a < s.nacts := act_lt hi (by rw [h]; simp)
      have hd : isDrain (s.acts a) = false := by rw [h]; rfl
      have hh : s.holder = some (.act a) := (hi.tok_act a).mp (by rw [h]; rfl)
      rw [hh] at hr
      have h1 := cntD_upd_ge (upd s.acts a .done) s.nacts .queued s.nacts (Nat.le_refl _)
      simp only [doResub, incOf, decOf, actTok, cntD, h1, upd_same, isDrain_queued, Bool.false_eq_true, ↓reduceIte,
        cntD_same _ _ _ _ hlt hd (by rfl : isDrain .done = false)] at hr ⊢
      omega
  | aDropX a h =>
      have hlt : a < s.nacts := act_lt hi (by rw [h]; simp)
      have hd : isDrain (s.acts a) = false := by rw [h]; rfl
      have hh : s.holder = some (.act a) := (hi.tok_act a).mp (by rw [h]; rfl)
      obtain ⟨j, js, hw⟩ := word_nonempty_cases (hi.tok_act_word a (by rw [h]; rfl))
      rw [hh] at hr
      have h1 := cntD_upd_lt s.acts a (.drain (j :: js)) s.nacts hlt
      simp only [hd, isDrain_drain, Bool.false_eq_true, ↓reduceIte] at h1
      simp only [doDropX, hw, incOf, decOf, actTok] at hr ⊢
      omega
  | aDrop a j rem h =>
      have hlt : a < s.nacts := act_lt hi (by rw [h]; simp)
      have hd : isDrain (s.acts a) = true := by rw [h]; rfl
      by_cases hrem : rem = []
      · subst hrem
        have h1 := cntD_upd_lt s.acts a .done s.nacts hlt
        simp only [hd, isDrain_done, Bool.false_eq_true, ↓reduceIte] at h1
        simp only [doDrop, incOf, decOf, h, ↓reduceIte] at hr ⊢
        omega
      · have h1 := cntD_upd_lt s.acts a (.drain rem) s.nacts hlt
        simp only [hd, isDrain_drain, ↓reduceIte] at h1
        have hne : ¬ (APc.drain (j :: rem) = APc.drain [j]) := by
          intro he; injection he with he; injection he with _ he; exact hrem he
        simp only [doDrop, incOf, decOf, h, hrem, hne, ↓reduceIte] at hr ⊢
        omega

theorem refInv_reachable {w s inc dec} (h : ReachableRef w s inc dec) : RefInv s inc dec := by
  induction h with
  | init => simp [RefInv, init, actTok, cntD]
  | step hr hs ih => exact refInv_step (inv_reachable hr.reachable).tok ih hs

/-- run the executable model along a list of labels, counting IncRefs / DecRefs -/
def runRef (s : State) (inc dec : Nat) : List Label → Option (State × Nat × Nat)
  | [] => some (s, inc, dec)
  | l :: ls => (next s l).bind (fun s' => runRef s' (inc + incOf l) (dec + decOf s l) ls)

theorem runRef_reachable {w : Workload} {s : State} {inc dec : Nat} {ls : List Label} {r : State × Nat × Nat}
    (h : ReachableRef w s inc dec) (hr : runRef s inc dec ls = some r) : ReachableRef w r.1 r.2.1 r.2.2 := by
  induction ls generalizing s inc dec with
  | nil => simp [runRef] at hr; subst hr; exact h
  | cons l ls ih =>
      simp only [runRef] at hr
      cases hn : next s l with
      | none => rw [hn] at hr; cases hr
      | some s1 => rw [hn] at hr; exact ih (.step h (next_sound hn)) hr

theorem runRef_witness {α : Type} {w : Workload} {ls : List Label} (f : State × Nat × Nat → α) (v : α)
    (h : (runRef (init w) 0 0 ls).map f = some v) : ∃ s inc dec, ReachableRef w s inc dec ∧ f (s, inc, dec) = v := by
  cases hr : runRef (init w) 0 0 ls with
  | none => rw [hr] at h; cases h
  | some r => rw [hr] at h; exact ⟨r.1, r.2.1, r.2.2, runRef_reachable .init hr, by simpa using h⟩

end Yaclib.Strand
