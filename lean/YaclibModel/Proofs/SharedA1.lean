import YaclibModel.Proofs.Shared
namespace Yaclib.Shared

set_option maxHeartbeats 4000000 in
theorem invA_step_1 {w s l s'} (hi : InvA w s) (hs : Step s l s') (hg : grpOf l = 1) : InvA w s' := by
  cases hi
  cases hs with
  | fRefLoad c rest d h hk hf => invA_auto
  | fForward c rest d n h hk hn => invA_auto
  | fForwardPost c rest d h hk => invA_auto
  | fEnter c rest d h hk hf => invA_auto
  | rRefLoad c h => invA_auto
  | rRetire c n h => invA_auto
  | jInvoke c h => invA_auto
  | jDec c h => invA_auto
  | _ => simp [grpOf] at hg

end Yaclib.Shared
