import YaclibModel.Proofs.SharedC
namespace Yaclib.Shared

set_option maxHeartbeats 4000000 in
theorem invC_step_4 {w s l s'} (ha : InvA w s) (hi : InvC s) (hs : Step s l s') (hg : grpOf l = 4) : InvC s' := by
  cases ha
  cases hi
  cases hs with
  | oForward t c h hk => invC_auto
  | oEnter t c h hk => invC_auto
  | oWaited t c rest h ht hf => invC_auto
  | oGetc t c rest h ht hf => invC_auto
  | oGetRef t c rest h ht hf => invC_auto
  | oGot t n h => invC_auto
  | _ => simp [grpOf] at hg

end Yaclib.Shared
