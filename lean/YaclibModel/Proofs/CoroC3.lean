/- preservation of the counter invariant InvC: a callback of mine is run -/
import YaclibModel.Proofs.CoroC2
import YaclibModel.Proofs.CoroB1
namespace Yaclib.Coro

set_option maxHeartbeats 16000000 in
theorem invC_step_fire {w s l s'} (hwf : w.WF) (ha : InvA w s) (hb : InvB w s) (hc : InvC w s) (hs : Step s l s')
    (hl : match l with | .fire _ _ => True | _ => False) : InvC w s' := by
  cases hs with
  | fire op rest j p walk ht hw hp =>
      obtain ⟨hcell, hst, hin, hnd, haw, hsingle, hmulti⟩ := fire_pre hwf ha hb hc ht hw hp
      have hpend := count_set_of_getElem? (l := s.st) (p := p) (x := .pending) (a := .fired) (b := .pending) hst
      have hfired := count_set_of_getElem? (l := s.st) (p := p) (x := .pending) (a := .fired) (b := .fired) hst
      simp at hpend hfired
      have hpos := count_pos_of_getElem? hst
      have hpart := count_partition s.st
      have hlen := ha.st_len op rest ht hin
      have hreg := hc.multi_reg op rest ht
      have hmid := hc.multi_mid op rest ht
      have hsus := hc.multi_susp op rest ht
      have hle := hc.mrd_le
      simp only [doFire]
      split
      · split
        · -- the completing callback
          constructor <;> grind [inOp, decided, regPos, cbDone_decided, cbDone_regPos, cbDone_ne_susp]
        · rename_i hcn hc1
          have hm : isMulti op.kind = true := by
            cases hm : isMulti op.kind with
            | true => rfl
            | false => exact absurd ((hsingle hm).2.2.2 hcn) hc1
          constructor <;> (simp only [setWord_pc, setWord_todo, setWord_st]) <;> grind [inOp, decided, regPos]
      · constructor <;> grind [inOp, decided, regPos, cbDone_decided, cbDone_regPos, cbDone_ne_susp]
  | _ => simp at hl

end Yaclib.Coro
