/- C++ memory orders and atomic-operation sites (C04). -/
namespace Yaclib

inductive Ord where
  | rlx | con | acq | rel | acqRel | sc
  | param            -- forwarded from a parameter: not a literal at the call site
  deriving DecidableEq, Repr

/-- the order gives acquire semantics to a read -/
def Ord.hasAcq : Ord → Bool
  | .acq | .acqRel | .sc => true
  | _ => false

/-- the order gives release semantics to a write -/
def Ord.hasRel : Ord → Bool
  | .rel | .acqRel | .sc => true
  | _ => false

/-- one atomic operation in the source -/
structure Site where
  file : String
  fn : String
  obj : String
  op : String
  idx : Nat
  succ : Ord
  fail : Ord
  deriving DecidableEq, Repr

end Yaclib
