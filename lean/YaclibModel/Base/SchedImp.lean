/-
Target vocabulary of the C17 translator (`vlib/x_fibersched.py`): the handful of primitives the extracted
bodies of `src/fault/**` are expressed in.  Hand-written, tiny, no proofs about the code here.

* `whileLoop fuel cond body s` — a C++ `while`/`for` loop as bounded iteration.  `body` returns `(continue?, state)`
  (`false` = `break`).  The translator only emits it for counter loops whose iteration bound it can read off the
  loop (`while (i != e)`, `while (i < e)` with an unconditional `++i`, `while (i > e)` with `--i`) and passes that exact
  bound as `fuel`, so the fuel never cuts a loop short.
* `u32 x` — an explicit `static_cast<std::uint32_t>(x)`.
* `hd/nxt/prv` — positions in a circular doubly linked list with a sentinel (`BiList`): a list with `len` elements has
  the positions `0 … len-1` (front to back) and the sentinel `len` (`&_head`); `_head.next` is `nxt len (hd len)`.
-/
namespace Yaclib.SchedImp

def whileLoop {σ : Type} : Nat → (σ → Bool) → (σ → Bool × σ) → σ → σ
  | 0, _, _, s => s
  | fuel + 1, cond, body, s =>
    if cond s then
      let r := body s
      if r.1 then whileLoop fuel cond body r.2 else r.2
    else s

theorem whileLoop_zero {σ : Type} (c : σ → Bool) (b : σ → Bool × σ) (s : σ) : whileLoop 0 c b s = s := rfl

theorem whileLoop_succ {σ : Type} (n : Nat) (c : σ → Bool) (b : σ → Bool × σ) (s : σ) :
    whileLoop (n + 1) c b s = if c s then (if (b s).1 then whileLoop n c b (b s).2 else (b s).2) else s := rfl

theorem whileLoop_done {σ : Type} (n : Nat) (c : σ → Bool) (b : σ → Bool × σ) (s : σ) (h : c s = false) :
    whileLoop n c b s = s := by
  cases n with
  | zero => rfl
  | succ n => simp [whileLoop_succ, h]

def u32 (x : Nat) : Nat := x % 4294967296

theorem u32_of_lt {x : Nat} (h : x < 4294967296) : u32 x = x := Nat.mod_eq_of_lt h

/-- the sentinel `&_head` of a list with `len` elements -/
def hd (len : Nat) : Nat := len
/-- `p->next` -/
def nxt (len p : Nat) : Nat := if p < len then p + 1 else 0
/-- `p->prev` -/
def prv (len p : Nat) : Nat := if p = 0 then len else p - 1

end Yaclib.SchedImp
