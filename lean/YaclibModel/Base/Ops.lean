/-
Abstract arithmetic carrier for the atomic models (C19).

`α` is the stored type (`T`), `δ` the operand type of the arithmetic members (`T` itself for integral
and floating `T`, `std::ptrdiff_t` for `U*`).  No laws are required: the C19 theorems are
equalities between terms built from the same primitive operations, so they hold for every
carrier — every integer width (wrapping arithmetic), pointers (scaled offsets) and floating point
(non-associative addition).
-/
namespace Yaclib

class Ops (α : Type) (δ : outParam Type) where
  add : α → δ → α
  sub : α → δ → α
  and : α → δ → α
  or  : α → δ → α
  xor : α → δ → α
  one : δ

instance (n : Nat) : Ops (BitVec n) (BitVec n) where
  add := (· + ·)
  sub := (· - ·)
  and := (· &&& ·)
  or  := (· ||| ·)
  xor := (· ^^^ ·)
  one := 1

/-- pointers as element indices: `p + d` moves by `d` elements; bit operations do not exist for
pointers (the C++ specialisation has no such members), they are mapped to the identity. -/
instance : Ops Int Int where
  add := (· + ·)
  sub := (· - ·)
  and := fun a _ => a
  or  := fun a _ => a
  xor := fun a _ => a
  one := 1

end Yaclib
