// API instantiation sweep: the driver that runs the smoke test of every area in one binary.
//
// The sweep itself is the set of area TUs harness/api_probe_<area>.cpp (see api_probe.hpp for the conventions, vlib/apiprobe.py
// for the check stage that compiles them per property, notes/api_probe.md for the findings).  Each area TU has its own `main`
// unless it is compiled with -DAPI_PROBE_NO_MAIN; this file links them all:
//
//   L=$(python3 -c "import sys; sys.path.insert(0,'/verif'); from vlib import common as C; print(C.build_lib('plain'))")
//   g++ -O0 -std=c++20 -fcoroutines -DYACLIB_LOG_DEBUG -DAPI_PROBE_NO_MAIN -I/repo/include -I$L/include -I/verif/harness \
//       /verif/harness/api_probe.cpp /verif/harness/api_probe_*.cpp $L/src/libyaclib.a -lpthread -o api_probe && ./api_probe
//
// (about a minute of CPU: this compiles the whole matrix WITH code generation; the check stage uses -fsyntax-only for the matrix and
// compiles only the smoke part, -DAPI_PROBE_SMOKE_ONLY.)  With a library built without coroutines add -DAPI_PROBE_NO_CORO and leave
// api_probe_coro.cpp / api_probe_mutex.cpp out.
#include <cstdio>

int api_probe_util(int argc);
int api_probe_exe(int argc);
int api_probe_async(int argc);
int api_probe_then(int argc);
int api_probe_then2(int argc);
int api_probe_shared(int argc);
int api_probe_lazy(int argc);
int api_probe_when(int argc);
int api_probe_when2(int argc);
int api_probe_wg(int argc);
#ifndef API_PROBE_NO_CORO
int api_probe_coro(int argc);
int api_probe_mutex(int argc);
#endif

int main(int argc, char**) {
  struct Area {
    const char* name;
    int (*run)(int);
  };
  const Area areas[] = {
    {"util", api_probe_util},     {"exe", api_probe_exe},   {"async", api_probe_async},   {"then", api_probe_then},
    {"then2", api_probe_then2},   {"shared", api_probe_shared}, {"lazy", api_probe_lazy}, {"when", api_probe_when},
    {"when2", api_probe_when2},   {"wg", api_probe_wg},
#ifndef API_PROBE_NO_CORO
    {"coro", api_probe_coro},     {"mutex", api_probe_mutex},
#endif
  };
  int bad = 0;
  for (const Area& a : areas) {
    const int rc = a.run(argc);
    std::printf("api_probe %-6s %s\n", a.name, rc == 0 ? "ok" : "FAILED");
    bad += rc != 0;
  }
  return bad;
}
