// C11 correspondence harness: n producers (fibers) fulfil n contracts, one waiter fiber runs Wait / WaitFor / WaitUntil
// calls (variadic and iterator forms, unique and — untimed — shared futures) and afterwards consumes every future
// (Get / DetachInline).  Time is the FIBER backend's virtual clock (+10 ns per fiber switch), so the deadline of a timed
// wait falls before, between or after the completions depending on the explored schedule, the chosen timeout and
// the producers' start delays.  Emits canonical traces for `ymdriver validate wait` and checks the property's
// monitors directly on the implementation (from the hook trace, independently of the Lean model).
#include <common/vx.hpp>

#include <yaclib/async/contract.hpp>
#include <yaclib/async/future.hpp>
#include <yaclib/async/promise.hpp>
#include <yaclib/async/shared_contract.hpp>
#include <yaclib/async/shared_future.hpp>
#include <yaclib/async/shared_promise.hpp>
#include <yaclib/async/wait.hpp>
#include <yaclib/async/wait_for.hpp>
#include <yaclib/async/wait_until.hpp>

#include <chrono>
#include <map>
#include <cstdlib>
#include <new>
#include <yaclib_std/chrono>

// Freed heap blocks are kept until the end of the execution, so that a core allocated later (continuation cores of
// DetachInline) never reuses the address of a traced word.  Not under ASAN (it has its own quarantine).
#if !defined(__SANITIZE_ADDRESS__)
namespace {
bool gQuarantine = false;
constexpr std::size_t kQuarantineSize = 1 << 16;
void* gQuarantined[kQuarantineSize];
std::size_t gQuarantinedCount = 0;
void Release(void* p) noexcept {
  if (gQuarantine && gQuarantinedCount < kQuarantineSize) gQuarantined[gQuarantinedCount++] = p;
  else std::free(p);
}
}  // namespace
void* operator new(std::size_t n) {
  void* p = std::malloc(n != 0 ? n : 1);
  if (p == nullptr) throw std::bad_alloc{};
  return p;
}
void operator delete(void* p) noexcept { Release(p); }
void operator delete(void* p, std::size_t) noexcept { Release(p); }
namespace {
struct QuarantineScope {
  QuarantineScope() { gQuarantine = true; }
  ~QuarantineScope() {
    gQuarantine = false;
    while (gQuarantinedCount != 0) std::free(gQuarantined[--gQuarantinedCount]);
  }
};
}  // namespace
#else
namespace {
struct QuarantineScope {};
}  // namespace
#endif

namespace {

using Ns = std::chrono::nanoseconds;

struct Peek : yaclib::detail::BaseCore {
  static yaclib_std::atomic_uintptr_t& Word(yaclib::detail::BaseCore& c) { return c.*(&Peek::_callback); }
};

// The Event template parameter of Wait*/WaitFor/WaitUntil (default: MutexEvent).  This subclass only tells the trace
// recorder where the event's counter lives; it adds no behaviour.
std::ptrdiff_t gCountOffset = 0;
bool gNaming = false;
// virtual time of the sync-hook lines of the trace (index into ctx.trace -> ns)
std::vector<std::pair<std::size_t, unsigned long long>> gSyncTimes;
bool gInGet = false;  // the waiter is inside Future::Get()
// address ranges of wait events that have been destroyed in this execution (and not been overwritten by a new one)
std::vector<std::pair<const char*, const char*>> gDeadEvents;
// … and of the MutexEvent (+ counter) parts of the wait events that are alive right now
std::vector<std::pair<const char*, const char*>> gLiveEvents;
void EraseRange(std::vector<std::pair<const char*, const char*>>& v, const char* b) {
  for (auto it = v.begin(); it != v.end();) {
    if (it->first == b) it = v.erase(it);
    else ++it;
  }
}
struct TracedEvent : yaclib::detail::MutexEvent {
  static constexpr std::size_t kSpan = sizeof(yaclib::detail::MutexEvent) + 2 * sizeof(std::size_t);
  TracedEvent() {
    if (!gNaming || vx::gCtx == nullptr) return;
    auto* b = reinterpret_cast<const char*>(this);
    gLiveEvents.emplace_back(b, b + kSpan);
    vx::gCtx->NameObj(reinterpret_cast<char*>(this) + gCountOffset, "cnt", true);
  }
  ~TracedEvent() {
    if (!gNaming || vx::gCtx == nullptr) return;
    vx::gCtx->ForgetObj(reinterpret_cast<char*>(this) + gCountOffset);
    auto* b = reinterpret_cast<const char*>(this);
    EraseRange(gLiveEvents, b);
    gDeadEvents.emplace_back(b, b + kSpan);
  }
};

// A violation that must end the process at once: the library is about to operate on a destroyed stack object (what happens
// next is undefined: with the fiber backend typically an endless walk through a garbage wait queue).  Reported like a crash:
// scenario + choice sequence + trace, then exit.
[[noreturn]] void FatalViolation(const std::string& msg) {
  auto* ex = vx::gExplorer;
  if (ex != nullptr) {
    ++ex->stats.violations;
    ++ex->stats.executions;
    std::string v = "violation: " + msg + "\nscenario: " + ex->current_header + "\nchoices: " + ex->ctx.ChoiceString() + "\ntrace:";
    for (auto& l : ex->ctx.trace) v += "\n  " + l;
    ex->violations.insert(ex->violations.begin(), v);
    if (ex->out) std::fflush(ex->out);
    ex->Report();
  }
  std::_Exit(1);
}

void CheckAlive(const void* obj) {
  if (gDeadEvents.empty() || vx::gCtx == nullptr || vx::gCtx->Cur()[0] != 'p') return;  // only the producers: the waiter reuses its own stack
  auto* p = reinterpret_cast<const char*>(obj);
  for (auto& r : gLiveEvents) {
    if (r.first <= p && p < r.second) return;  // part of an event that exists (stack slots are reused, also partially)
  }
  for (auto& r : gDeadEvents) {
    if (r.first <= p && p < r.second) {
      FatalViolation("a completion touched the waiter's event after the wait had returned (stack use after return)");
    }
  }
}

// extent of the untraced wait event of Future::Get() && / SharedFuture::Get(): Wait(*this) with the default event, one future
using GetEvent = yaclib::detail::MultiEvent<yaclib::detail::DefaultEvent, yaclib::detail::OneCounter, yaclib::detail::CallCallback>;
std::ptrdiff_t gGetCallbackOffset = 0;  // of the callback node inside the event
std::ptrdiff_t gGetMutexOffset = 0;     // of the MutexEvent part inside the event
const char* gGetEventLive = nullptr;    // the MutexEvent part of the Get event that is alive right now

void ComputeCountOffset() {
  {
    GetEvent sample{1};
    gGetCallbackOffset = reinterpret_cast<char*>(static_cast<yaclib::detail::InlineCore*>(&sample.GetCall())) -
                         reinterpret_cast<char*>(&sample);
    gGetMutexOffset = reinterpret_cast<char*>(static_cast<yaclib::detail::DefaultEvent*>(&sample)) - reinterpret_cast<char*>(&sample);
  }
  using AC = yaclib::detail::AtomicCounter<TracedEvent, yaclib::detail::SetDeleter>;
  AC sample{1};
  gCountOffset = reinterpret_cast<char*>(&sample.count) - reinterpret_cast<char*>(static_cast<TracedEvent*>(&sample));
}

struct CallSpec {
  int lo, hi;
  bool timed;
  long long ns;  // timeout
  char form;     // 'v' variadic, 'i' iterator (begin, end), 'c' iterator (begin, count)
  bool until;    // WaitUntil instead of WaitFor
};

struct Scenario {
  int n;
  std::string kind;  // unique | shared | mixed (future 0 unique, the others shared)
  std::vector<std::string> res;
  std::vector<CallSpec> calls;
  std::vector<std::string> fin;  // none | attach | get
  std::vector<long long> delay;  // producer i sleeps this long (virtual ns) before Set
  bool presub = false;           // every shared future already has a subscriber (SubscribeInline) when the waiter starts
  bool Shared(int i) const { return kind == "shared" || (kind == "mixed" && i > 0); }
  std::string Header() const {
    auto join = [](const std::vector<std::string>& v) {
      if (v.empty()) return std::string("-");
      std::string s;
      for (auto& x : v) s += (s.empty() ? "" : ",") + x;
      return s;
    };
    std::vector<std::string> sh, cs, impl, dl;
    for (int i = 0; i < n; ++i) sh.push_back(Shared(i) ? "1" : "0");
    for (auto& c : calls) {
      cs.push_back(std::to_string(c.lo) + ":" + std::to_string(c.hi) + ":" + (c.timed ? "t" : "u"));
      impl.push_back(std::string(1, c.form) + (c.timed ? (c.until ? "until" : "for") + std::to_string(c.ns) : ""));
    }
    for (auto d : delay) dl.push_back(std::to_string(d));
    return "wait n=" + std::to_string(n) + " res=" + join(res) + " shared=" + join(sh) + " calls=" + join(cs) +
           " fin=" + join(fin) + " kind=" + kind + " impl=" + join(impl) + " delay=" + join(dl) + (presub ? " presub=1" : "");
  }
};

struct CallObs {
  bool ret = false;
  unsigned long long t0 = 0, t1 = 0;
};

struct Observed {
  std::vector<int> subinv;            // invocations of the earlier subscriber of shared future i
  std::vector<std::string> subval;
  std::vector<int> invoked, got;
  std::vector<std::string> val;
  std::vector<CallObs> calls;
};
Observed gObs;

std::string Show(const yaclib::Result<int>& r) {
  switch (r.State()) {
    case yaclib::ResultState::Value: return "val:" + std::to_string(std::as_const(r).Value());
    case yaclib::ResultState::Error: return "err";
    case yaclib::ResultState::Exception: return "exc";
    default: return "EMPTY";
  }
}

unsigned long long Now() { return yaclib::fault::Scheduler::GetScheduler()->GetTimeNs(); }

template <typename... F>
bool CallVar(const CallSpec& c, F&... f) {
  if (!c.timed) {
    yaclib::Wait<TracedEvent>(f...);
    return true;
  }
  if constexpr ((... && yaclib::is_waitable_with_timeout_v<F&>)) {
    if (c.until) return yaclib::WaitUntil<TracedEvent>(yaclib_std::chrono::steady_clock::now() + Ns{c.ns}, f...);
    return yaclib::WaitFor<TracedEvent>(Ns{c.ns}, f...);
  }
  return true;
}

template <typename It>
bool CallIt(const CallSpec& c, It begin) {
  std::size_t count = static_cast<std::size_t>(c.hi - c.lo);
  if (!c.timed) {
    if (c.form == 'i') yaclib::Wait<TracedEvent>(begin, begin + count);
    else yaclib::Wait<TracedEvent>(begin, count);
    return true;
  }
  if constexpr (yaclib::is_waitable_with_timeout_v<typename std::iterator_traits<It>::reference>) {
    if (c.until) {
      auto tp = yaclib_std::chrono::steady_clock::now() + Ns{c.ns};
      return c.form == 'i' ? yaclib::WaitUntil<TracedEvent>(tp, begin, begin + count)
                           : yaclib::WaitUntil<TracedEvent>(tp, begin, count);
    }
    return c.form == 'i' ? yaclib::WaitFor<TracedEvent>(Ns{c.ns}, begin, begin + count)
                         : yaclib::WaitFor<TracedEvent>(Ns{c.ns}, begin, count);
  }
  return true;
}

template <typename V>
bool CallOn(const CallSpec& c, V& fs) {
  if (c.form != 'v') return CallIt(c, fs.begin() + c.lo);
  switch (c.hi - c.lo) {
    case 1: return CallVar(c, fs[c.lo]);
    case 2: return CallVar(c, fs[c.lo], fs[c.lo + 1]);
    case 3: return CallVar(c, fs[c.lo], fs[c.lo + 1], fs[c.lo + 2]);
  }
  std::abort();
}

void RunScenario(const Scenario& sc) {
  QuarantineScope quarantine;
  gDeadEvents.clear();
  gSyncTimes.clear();
  gLiveEvents.clear();
  gInGet = false;
  gGetEventLive = nullptr;
  gObs = Observed{};
  gObs.invoked.assign(sc.n, 0);
  gObs.subinv.assign(sc.n, 0);
  gObs.subval.assign(sc.n, "");
  gObs.got.assign(sc.n, 0);
  gObs.val.assign(sc.n, "");
  gObs.calls.assign(sc.calls.size(), CallObs{});
  auto& ctx = *vx::gCtx;
  ctx.NameValWord(0, "empty");
  ctx.NameValWord(~0ULL, "result");
  std::vector<yaclib::Future<int>> uf(sc.n);
  std::vector<yaclib::Promise<int>> up(sc.n);
  std::vector<yaclib::SharedFuture<int>> sf(sc.n);
  std::vector<yaclib::SharedPromise<int>> sp(sc.n);
  for (int i = 0; i < sc.n; ++i) {
    if (sc.Shared(i)) {
      auto [f, p] = yaclib::MakeSharedContract<int>();
      if (sc.presub) {
        // an earlier consumer of the shared future (registered before the word is traced)
        f.SubscribeInline([i](const yaclib::Result<int>& r) {
          ++gObs.subinv[i];
          gObs.subval[i] = Show(r);
          vx::Ev("subinv " + std::to_string(i) + " " + gObs.subval[i]);
        });
        ctx.NameValWord(*reinterpret_cast<const std::uintptr_t*>(&Peek::Word(*f.GetCore())), "sub" + std::to_string(i));
      }
      ctx.NameObj(&Peek::Word(*f.GetCore()), "w" + std::to_string(i));
      sf[i] = std::move(f);
      sp[i] = std::move(p);
    } else {
      auto [f, p] = yaclib::MakeContract<int>();
      ctx.NameObj(&Peek::Word(*f.GetCore()), "w" + std::to_string(i));
      uf[i] = std::move(f);
      up[i] = std::move(p);
    }
  }
  gNaming = true;
  std::vector<vx::Thread> producers;
  for (int i = 0; i < sc.n; ++i) {
    producers.emplace_back("p" + std::to_string(i), [&, i]() mutable {
      if (sc.delay[i] != 0) yaclib_std::this_thread::sleep_for(Ns{sc.delay[i]});
      bool err = sc.res[i] == "err";
      if (sc.Shared(i)) {
        auto p = std::move(sp[i]);
        if (err) std::move(p).Set(yaclib::StopTag{});
        else std::move(p).Set(i + 1);
      } else {
        auto p = std::move(up[i]);
        if (err) std::move(p).Set(yaclib::StopTag{});
        else std::move(p).Set(i + 1);
      }
    });
  }
  vx::Thread waiter("c", [&]() mutable {
    for (std::size_t k = 0; k < sc.calls.size(); ++k) {
      auto& c = sc.calls[k];
      vx::Ev("call " + std::to_string(c.lo) + " " + std::to_string(c.hi) + " " + (c.timed ? "1" : "0"));
      gObs.calls[k].t0 = Now();
      bool r;
      if (sc.kind == "unique") {
        r = CallOn(c, uf);
      } else if (sc.kind == "shared") {
        r = CallOn(c, sf);
      } else {  // mixed: variadic over the whole range only
        if (sc.n == 2) r = CallVar(c, uf[0], sf[1]);
        else r = CallVar(c, uf[0], sf[1], sf[2]);
      }
      gObs.calls[k].t1 = Now();
      gObs.calls[k].ret = r;
      vx::Ev(std::string("ret ") + (r ? "1" : "0"));
    }
    for (int i = 0; i < sc.n; ++i) {
      vx::Ev("fin " + std::to_string(i) + " " + sc.fin[i]);
      if (sc.fin[i] == "attach") {
        std::move(uf[i]).DetachInline([i](yaclib::Result<int>&& r) {
          ++gObs.invoked[i];
          gObs.val[i] = Show(r);
          vx::Ev("invoke " + std::to_string(i) + " " + gObs.val[i]);
        });
      } else if (sc.fin[i] == "get") {
        gInGet = true;
        if (sc.Shared(i)) {
          const auto& r = sf[i].Get();
          gObs.val[i] = Show(r);
        } else {
          auto r = std::move(uf[i]).Get();
          gObs.val[i] = Show(r);
        }
        gInGet = false;
        if (gGetEventLive != nullptr) {
          EraseRange(gLiveEvents, gGetEventLive);
          gGetEventLive = nullptr;
        }
        ++gObs.got[i];
        vx::Ev("got " + std::to_string(i) + " " + gObs.val[i]);
      }
    }
  });
  for (auto& p : producers) p.join();
  waiter.join();
  gNaming = false;
}


unsigned long long TimeOfLine(std::size_t idx) {
  for (auto& p : gSyncTimes) {
    if (p.first == idx) return p.second;
  }
  return 0;
}

// No lost wake-up, checked on the implementation in virtual time: `Set()` notifies the event's condition variable (queue q) under
// the event's mutex, exactly once.  A timed waiter that parks on q AFTER that notification went to sleep although the flag was
// already set — nothing will wake it but its own timeout — and a timeout wake-up on q after the notification means the waiter
// sat out its deadline although it had been released before (model: `sleeping_waiter_is_woken`, `quiescent_complete`).
// `reset_at`: trace lines at which event addresses may be reused (a new wait call of the same waiter).
std::string LostWakeUp(const std::vector<std::string>& trace, const char* model_ref,
                       bool (*reset_at)(const std::vector<std::string>&)) {
  std::map<std::string, std::pair<std::string, std::size_t>> notified;  // queue -> (notifier, line)
  for (std::size_t k = 0; k < trace.size(); ++k) {
    std::vector<std::string> t;
    {
      std::string cur;
      for (char ch : trace[k]) {
        if (ch == ' ') {
          if (!cur.empty()) t.push_back(cur);
          cur.clear();
        } else {
          cur += ch;
        }
      }
      if (!cur.empty()) t.push_back(cur);
    }
    if (t.size() < 4) continue;
    if (reset_at != nullptr && reset_at(t)) notified.clear();
    if (t[1] != "M" || t[2][0] != 'q') continue;
    if (t[3] == "notify_one" || t[3] == "notify_all") {
      if (!notified.count(t[2])) notified[t[2]] = {t[0], k};
    } else if (t[3] == "park_timed") {
      auto it = notified.find(t[2]);
      if (it != notified.end() && it->second.first != t[0]) {
        return "timed waiter " + t[0] + " slept although the event was already set (released only by its timeout): Set by " +
               it->second.first + " at virtual time " + std::to_string(TimeOfLine(it->second.second)) + " ns, waiter parked at " +
               std::to_string(TimeOfLine(k)) + " ns [lost wake-up; model: " + model_ref + "]";
      }
    } else if (t[3] == "wake" && t.size() > 4 && t[4] == "1") {
      auto it = notified.find(t[2]);
      if (it != notified.end() && it->second.first != t[0]) {
        return "timed waiter " + t[0] + " was released only at its deadline T=" + std::to_string(TimeOfLine(k)) +
               " ns although the event was set at t0=" + std::to_string(TimeOfLine(it->second.second)) + " ns < T [model: " +
               model_ref + "]";
      }
    }
  }
  return "";
}

bool StartsWith(const std::string& s, const std::string& p) { return s.rfind(p, 0) == 0; }

std::vector<std::string> Split(const std::string& s) {
  std::vector<std::string> out;
  std::string cur;
  for (char ch : s) {
    if (ch == ' ') {
      if (!cur.empty()) out.push_back(cur);
      cur.clear();
    } else {
      cur += ch;
    }
  }
  if (!cur.empty()) out.push_back(cur);
  return out;
}

// The property, checked on the implementation's own trace:
//  * a call that returns true (or an untimed one) returns after the exchange of every future in its range;
//  * false only after the deadline (virtual clock);
//  * when a call returns no word holds a callback pointer any more, and between that return and the next call no producer
//    operates on an event counter or an event mutex (nobody touches the dead stack event);
//  * no fetch_sub takes a counter below zero; a producer calls Set (locks the event mutex) only after its own
//    decrement returned 1 (multi-future events);
//  * afterwards every consumed future delivers exactly once, with the value that was set.
std::string Monitor(const Scenario& sc, bool done) {
  auto& ctx = *vx::gCtx;
  // D8 (C18): WaitFor(0ns) makes SleepPreemptive look up a sleep list that does not exist; debug builds report it
  for (auto it = ctx.asserts.begin(); it != ctx.asserts.end();) {
    if (it->find("sleep_list for time that is not passed yet") != std::string::npos) it = ctx.asserts.erase(it);
    else ++it;
  }
  if (!done) return "";
  {
    auto lost = LostWakeUp(ctx.trace, "Props.C11.sleeping_waiter_is_woken / quiescent_complete", [](const std::vector<std::string>& t) {
      return t[1] == "E" && (t[2] == "call" || t[2] == "fin");  // a new wait event may reuse the stack slot (same queue name)
    });
    if (!lost.empty()) return lost;
  }
  std::vector<bool> completed(sc.n, false);
  std::vector<std::string> word(sc.n, "empty");
  std::vector<bool> dec1(sc.n, false);  // producer i's last fetch_sub returned 1
  bool in_call = false, in_get = false;
  int call_idx = -1;
  bool multi = false;
  for (auto& l : ctx.trace) {
    auto t = Split(l);
    if (t.size() < 3) continue;
    if (t[1] == "E") {
      if (t[2] == "call") {
        in_call = true;
        ++call_idx;
        multi = sc.calls[call_idx].hi - sc.calls[call_idx].lo >= 2;
        dec1.assign(sc.n, false);
      } else if (t[2] == "ret") {
        in_call = false;
        auto& c = sc.calls[call_idx];
        bool r = t[3] == "1";
        if (r) {
          for (int i = c.lo; i < c.hi; ++i)
            if (!completed[i]) return "wait returned true although future " + std::to_string(i) + " is not fulfilled";
        } else {
          if (!c.timed) return "an untimed wait returned false";
          if (gObs.calls[call_idx].t1 < gObs.calls[call_idx].t0 + static_cast<unsigned long long>(c.ns))
            return "timed wait returned false before its deadline";
        }
        for (int i = 0; i < sc.n; ++i)
          if (word[i] != "empty" && word[i] != "result")
            return "word of future " + std::to_string(i) + " still holds a callback after the wait returned";
      } else if (t[2] == "fin") {
        in_get = t[4] == "get";
        dec1.assign(sc.n, false);
        multi = false;
      } else if (t[2] == "subinv") {
        int i = std::atoi(t[3].c_str());
        if (!completed[i]) return "the earlier subscriber of shared future " + std::to_string(i) + " ran before that future was fulfilled";
      } else if (t[2] == "got") {
        in_get = false;
        int i = std::atoi(t[3].c_str());
        if (!completed[i]) return "Get returned although future " + std::to_string(i) + " is not fulfilled";
      }
      continue;
    }
    bool producer = t[0][0] == 'p';
    if (t[1] == "A" && t[2] == "cnt") {
      if (producer && !in_call) return "a producer decremented the event counter after the wait returned";
      if (t[3] == "fsub") {
        unsigned long long a = std::strtoull(t[5].c_str(), nullptr, 10), old = std::strtoull(t[7].c_str(), nullptr, 10);
        if (old < a) return "event counter underflow";
        if (producer) dec1[std::atoi(t[0].c_str() + 1)] = old == 1;
      }
    } else if (t[1] == "A" && t[2][0] == 'w') {
      int i = std::atoi(t[2].c_str() + 1);
      if (t[3] == "xchg") {
        completed[i] = true;
        word[i] = "result";
      } else if ((t[3] == "cas_strong" || t[3] == "cas_weak") && t[7] == "ok") {
        word[i] = t[5].substr(t[5].find('>') + 1);
      }
    } else if (t[1] == "M" && t[2][0] == 'm' && (t[3] == "lock" || t[3] == "unlock") && producer) {
      if (!in_call && !in_get) return "a producer touched the event mutex after the wait returned";
      if (multi && t[3] == "lock" && !dec1[std::atoi(t[0].c_str() + 1)])
        return "Set called by a producer whose decrement did not reach zero";
    }
  }
  for (int i = 0; i < sc.n; ++i) {
    std::string want = sc.res[i];
    if (sc.presub && sc.Shared(i)) {
      if (gObs.subinv[i] != 1)
        return "the earlier subscriber of shared future " + std::to_string(i) + " was invoked " + std::to_string(gObs.subinv[i]) + " times";
      if (gObs.subval[i] != want) return "the earlier subscriber of shared future " + std::to_string(i) + " saw " + gObs.subval[i];
    }
    if (sc.fin[i] == "attach") {
      if (gObs.invoked[i] != 1) return "continuation of future " + std::to_string(i) + " invoked " + std::to_string(gObs.invoked[i]) + " times";
      if (gObs.val[i] != want) return "continuation saw " + gObs.val[i] + " instead of " + want;
    } else if (sc.fin[i] == "get") {
      if (gObs.got[i] != 1 || gObs.val[i] != want) return "Get returned " + gObs.val[i] + " instead of " + want;
      if (gObs.invoked[i] != 0) return "a continuation ran although none was attached";
    } else if (gObs.invoked[i] != 0 || gObs.got[i] != 0) {
      return "a delivery happened on a future that was not consumed";
    }
  }
  return "";
}

std::vector<Scenario> AllScenarios(bool thorough) {
  std::vector<Scenario> out;
  auto resOf = [](int n, bool with_err) {
    std::vector<std::string> r;
    for (int i = 0; i < n; ++i) r.push_back(with_err && i == n - 1 ? "err" : "val:" + std::to_string(i + 1));
    return r;
  };
  const long long kLarge = 1000000;
  // ---- n = 1: OneCounter fast path
  for (const char* fin : {"get", "attach"}) {
    out.push_back({1, "unique", resOf(1, false), {{0, 1, false, 0, 'v', false}}, {fin}, {0}});
    for (long long ns : {0LL, 15LL, 35LL, kLarge}) {
      out.push_back({1, "unique", resOf(1, false), {{0, 1, true, ns, 'v', false}}, {fin}, {0}});
    }
    out.push_back({1, "unique", resOf(1, true), {{0, 1, true, 15, 'v', true}}, {fin}, {0}});
    out.push_back({1, "unique", resOf(1, false), {{0, 1, true, 15, 'c', false}}, {fin}, {20}});
    out.push_back({1, "unique", resOf(1, false), {{0, 1, true, 5, 'v', false}, {0, 1, false, 0, 'i', false}}, {fin}, {0}});
    out.push_back({1, "unique", resOf(1, false), {{0, 1, true, 5, 'v', false}, {0, 1, true, 15, 'v', true}}, {fin}, {30}});
  }
  out.push_back({1, "unique", resOf(1, false), {{0, 0, false, 0, 'c', false}, {0, 1, false, 0, 'i', false}}, {"none"}, {0}});
  // ---- n = 2
  for (auto fin : std::vector<std::vector<std::string>>{{"get", "attach"}, {"attach", "get"}}) {
    out.push_back({2, "unique", resOf(2, false), {{0, 2, false, 0, 'v', false}}, fin, {0, 0}});
    out.push_back({2, "unique", resOf(2, true), {{0, 2, false, 0, 'i', false}}, fin, {0, 20}});
    for (long long ns : {0LL, 15LL, 25LL, 45LL, kLarge}) {
      out.push_back({2, "unique", resOf(2, false), {{0, 2, true, ns, 'v', false}}, fin, {0, 0}});
    }
    out.push_back({2, "unique", resOf(2, false), {{0, 2, true, 25, 'i', false}}, fin, {0, 40}});
    out.push_back({2, "unique", resOf(2, false), {{0, 2, true, 25, 'c', true}}, fin, {40, 0}});
    out.push_back({2, "unique", resOf(2, false), {{0, 2, true, 15, 'v', true}}, fin, {20, 20}});
  }
  out.push_back({2, "unique", resOf(2, false), {{0, 2, true, 15, 'v', false}, {0, 2, false, 0, 'v', false}}, {"none", "get"}, {0, 0}});
  out.push_back({2, "unique", resOf(2, false), {{0, 2, true, 5, 'v', false}, {1, 2, true, 15, 'v', false}, {0, 1, false, 0, 'v', false}}, {"attach", "attach"}, {0, 30}});
  // ---- n = 3
  out.push_back({3, "unique", resOf(3, false), {{0, 3, false, 0, 'v', false}}, {"get", "attach", "none"}, {0, 0, 0}});
  out.push_back({3, "unique", resOf(3, false), {{0, 3, true, 25, 'v', false}}, {"attach", "get", "get"}, {0, 0, 0}});
  out.push_back({3, "unique", resOf(3, true), {{0, 3, true, 35, 'i', false}}, {"get", "get", "attach"}, {0, 30, 60}});
  out.push_back({3, "unique", resOf(3, false), {{1, 3, true, 15, 'c', true}, {0, 2, false, 0, 'i', false}}, {"get", "attach", "get"}, {0, 0, 20}});
  // ---- shared futures (untimed only)
  out.push_back({1, "shared", resOf(1, false), {{0, 1, false, 0, 'v', false}}, {"get"}, {0}});
  out.push_back({1, "shared", resOf(1, false), {{0, 1, false, 0, 'i', false}, {0, 1, false, 0, 'v', false}}, {"none"}, {0}});
  out.push_back({2, "shared", resOf(2, false), {{0, 2, false, 0, 'v', false}}, {"get", "none"}, {0, 0}});
  out.push_back({2, "shared", resOf(2, true), {{0, 2, false, 0, 'i', false}}, {"none", "get"}, {0, 0}});
  out.push_back({2, "mixed", resOf(2, false), {{0, 2, false, 0, 'v', false}}, {"attach", "get"}, {0, 0}});
  // shared futures that already have a consumer: the waiter's node goes on top of a non-empty list
  out.push_back({1, "shared", resOf(1, false), {{0, 1, false, 0, 'v', false}}, {"get"}, {0}, true});
  out.push_back({2, "shared", resOf(2, false), {{0, 2, false, 0, 'v', false}}, {"get", "none"}, {0, 0}, true});
  out.push_back({2, "shared", resOf(2, true), {{0, 2, false, 0, 'i', false}}, {"none", "get"}, {0, 20}, true});
  out.push_back({3, "mixed", resOf(3, false), {{0, 3, false, 0, 'v', false}}, {"attach", "none", "get"}, {0, 0, 0}, true});
  out.push_back({3, "mixed", resOf(3, false), {{0, 3, false, 0, 'v', false}}, {"get", "get", "none"}, {0, 0, 0}});
  if (thorough) {
    for (long long ns : {5LL, 15LL, 25LL, 35LL, 45LL, 55LL, 65LL}) {
      out.push_back({3, "unique", resOf(3, false), {{0, 3, true, ns, 'v', false}}, {"get", "attach", "get"}, {0, 0, 0}});
      out.push_back({3, "unique", resOf(3, false), {{0, 3, true, ns, 'c', true}}, {"attach", "get", "attach"}, {0, 20, 40}});
      out.push_back({2, "unique", resOf(2, false), {{0, 2, true, ns, 'v', false}, {0, 2, true, ns, 'i', false}}, {"get", "get"}, {0, 30}});
    }
    out.push_back({3, "shared", resOf(3, false), {{0, 3, false, 0, 'c', false}}, {"get", "get", "get"}, {0, 0, 0}});
  }
  return out;
}

}  // namespace

int main(int argc, char** argv) {
  auto opt = vx::ParseOptions(argc, argv);
  bool thorough = false;
  for (int i = 1; i < argc; ++i) thorough |= std::string(argv[i]) == "--thorough";
  ComputeCountOffset();
  vx::Explorer ex(opt);
  // every atomic / mutex / wait-queue operation is first checked against the destroyed wait events of this execution
  yaclib::verif::gHooks.on_atomic = [](void* c, const void* obj, int op, int so, int fo, unsigned long long a,
                                       unsigned long long e, unsigned long long r, int ok) {
    CheckAlive(obj);
    auto* ctx = static_cast<vx::Ctx*>(c);
    if ((op == yaclib::verif::kCasStrong || op == yaclib::verif::kCasWeak) && ok != 0 && gInGet && ctx->Cur() == "c" && a != 0 &&
        a != ~0ULL) {
      // Get's own (untraced) wait event registers its callback node: its MutexEvent part is alive until Get returns
      const char* b = reinterpret_cast<const char*>(static_cast<std::uintptr_t>(a)) - gGetCallbackOffset + gGetMutexOffset;
      gGetEventLive = b;
      gLiveEvents.emplace_back(b, b + sizeof(yaclib::detail::DefaultEvent));
    }
    ctx->OnAtomic(obj, op, so, fo, a, e, r, ok);
  };
  yaclib::verif::gHooks.on_sync = [](void* c, const void* obj, int op, int res) {
    auto* ctx = static_cast<vx::Ctx*>(c);
    std::size_t before = ctx->trace.size();
    ctx->OnSync(obj, op, res);
    if (ctx->trace.size() > before) gSyncTimes.emplace_back(before, Now());
    CheckAlive(obj);
  };
  for (auto& sc : AllScenarios(thorough)) {
    ex.Run(sc.Header(), [&] { RunScenario(sc); }, [&](bool done) { return Monitor(sc, done); });
  }
  ex.Report();
  return ex.stats.violations == 0 ? 0 : 1;
}
