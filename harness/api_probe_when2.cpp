// API instantiation sweep, area `when2`: async/when_any.hpp, async/join.hpp, and async/when/when.hpp used directly with
// user-defined strategies (util/combinator_strategy.hpp documents the strategy interface: "Every combinator strategy shall be
// parametrized with ..."; the library's own strategies never use ConsumePolicy::Dynamic or Static + Owned).  C++17-clean.
// See api_probe.hpp for the conventions.
#include <yaclib/async/join.hpp>
#include <yaclib/async/when_any.hpp>
// the two headers above are the whole include list a user of WhenAny / Join needs
#include <yaclib/async/contract.hpp>
#include <yaclib/async/make.hpp>
#include <yaclib/async/run.hpp>
#include <yaclib/async/when/when.hpp>
#include <yaclib/exe/manual.hpp>
#include <yaclib/util/combinator_strategy.hpp>

#include "api_probe.hpp"
#include "api_probe_cb.hpp"

#include <array>
#include <variant>
#include <vector>

#ifndef API_PROBE_SMOKE_ONLY
namespace probe {
namespace {

using yaclib::FailPolicy;
using yaclib::Future;
using yaclib::FutureOn;
using yaclib::Result;
using yaclib::SharedFuture;
using yaclib::SharedFutureOn;
using yaclib::StopError;

template <typename H>
H Src() {
  return Build<H>::Do();
}
template <typename H>
std::vector<H> Vec() {
  std::vector<H> v;
  v.push_back(Src<H>());
  v.push_back(Src<H>());
  return v;
}

template <typename V>
using Wrapped = yaclib::wrap_void_t<V>;

// ---- WhenAny -------------------------------------------------------------------------------------------------------------
template <FailPolicy F, typename H, typename V, typename E>
void WhenAnySameF() {
  auto a = yaclib::WhenAny<F>(Src<H>());
  auto b = yaclib::WhenAny<F>(Src<H>(), Src<H>());
  auto c = yaclib::WhenAny<F>(Src<H>(), Src<H>(), Src<H>());
  static_assert(std::is_same_v<decltype(b), Future<V, E>>);
  auto v = Vec<H>();
  auto d = yaclib::WhenAny<F>(v.begin(), v.end());
  v = Vec<H>();
  auto e = yaclib::WhenAny<F>(v.begin(), v.size());
  v = Vec<H>();
  auto f = yaclib::WhenAny<F>(v.data(), v.size());
  static_assert(std::is_same_v<decltype(d), Future<V, E>> && std::is_same_v<decltype(e), Future<V, E>>);
  Sink(a, b, c, d, e, f);
}
template <typename H, typename V, typename E>
void WhenAnySame() {
  WhenAnySameF<FailPolicy::None, H, V, E>();
  WhenAnySameF<FailPolicy::FirstFail, H, V, E>();
  WhenAnySameF<FailPolicy::LastFail, H, V, E>();
  auto a = yaclib::WhenAny(Src<H>(), Src<H>());  // default policy: LastFail
  auto v = Vec<H>();
  auto b = yaclib::WhenAny(v.begin(), v.end());
  std::array<H, 2> arr{Src<H>(), Src<H>()};
  auto c = yaclib::WhenAny(arr.begin(), arr.size());
  Sink(a, b, c);
}

template <FailPolicy F, typename E>
void WhenAnyVariantF() {
  auto a = yaclib::WhenAny<F>(Src<Future<int, E>>(), Src<Future<std::string, E>>());
  static_assert(std::is_same_v<decltype(a), Future<std::variant<int, std::string>, E>>);
  auto b = yaclib::WhenAny<F>(Src<Future<int, E>>(), Src<FutureOn<MoveOnly, E>>(), Src<Future<int, E>>(), Src<Future<Pinned, E>>());
  static_assert(std::is_same_v<decltype(b), Future<std::variant<MoveOnly, int, Pinned>, E>>);
  auto c = yaclib::WhenAny<F>(Src<SharedFuture<int, E>>(), Src<Future<std::string, E>>(), Src<SharedFutureOn<int, E>>());
  auto d = yaclib::WhenAny<F>(Src<Future<int, E>>(), Src<SharedFuture<int, E>>());  // same value, mixed handles
  static_assert(std::is_same_v<decltype(d), Future<int, E>>);
  Sink(a, b, c, d);
  // a void input is the alternative Unit, as in WhenAll's tuple (std::variant<void, ...> before /repo 3ec8b78), #4
  auto e = yaclib::WhenAny<F>(Src<Future<void, E>>(), Src<Future<int, E>>());
  static_assert(std::is_same_v<decltype(e), Future<std::variant<yaclib::Unit, int>, E>>);
  auto f = yaclib::WhenAny<F>(Src<Future<int, E>>(), Src<SharedFuture<void, E>>(), Src<FutureOn<void, E>>(), Src<Future<Pinned, E>>());
  static_assert(std::is_same_v<decltype(f), Future<std::variant<int, yaclib::Unit, Pinned>, E>>);
  auto g = yaclib::WhenAny<F>(Src<Future<void, E>>(), Src<FutureOn<void, E>>());  // all void: no variant
  static_assert(std::is_same_v<decltype(g), Future<void, E>>);
  Sink(e, f, g);
}

// ---- Join ----------------------------------------------------------------------------------------------------------------
template <typename H, typename E>
void JoinSame() {
  auto a = yaclib::Join(Src<H>());  // default policy: None
  auto b = yaclib::Join(Src<H>(), Src<H>());
  auto c = yaclib::Join<FailPolicy::FirstFail>(Src<H>(), Src<H>());
  auto d = yaclib::Join<FailPolicy::None>(Src<H>(), Src<H>(), Src<H>());
  static_assert(std::is_same_v<decltype(b), Future<void, E>> && std::is_same_v<decltype(c), Future<void, E>>);
  auto v = Vec<H>();
  auto e = yaclib::Join(v.begin(), v.end());
  v = Vec<H>();
  auto f = yaclib::Join(v.begin(), v.size());
  v = Vec<H>();
  auto g = yaclib::Join<FailPolicy::FirstFail>(v.begin(), v.end());
  v = Vec<H>();
  auto h = yaclib::Join<FailPolicy::FirstFail>(v.data(), v.size());
  static_assert(std::is_same_v<decltype(e), Future<void, E>> && std::is_same_v<decltype(h), Future<void, E>>);
  Sink(a, b, c, d, e, f, g, h);
}
template <typename E>
void JoinMixed() {
  auto a = yaclib::Join(Src<Future<int, E>>(), Src<Future<void, E>>(), Src<FutureOn<Pinned, E>>());
  auto b = yaclib::Join<FailPolicy::FirstFail>(Src<Future<int, E>>(), Src<SharedFuture<std::string, E>>(), Src<SharedFutureOn<int, E>>(),
                                               Src<Future<int, E>>());
  auto c = yaclib::Join(Src<SharedFuture<int, E>>(), Src<SharedFuture<int, E>>());
  auto d = yaclib::Join<FailPolicy::FirstFail>(Src<SharedFuture<void, E>>(), Src<Future<void, E>>());
  Sink(a, b, c, d);
}

// ---- user-defined strategies: every ConsumePolicy x CorePolicy ----------------------------------------------------------------
// The output is the number of inputs that were consumed with a value.
template <yaclib::ConsumePolicy CP, yaclib::CorePolicy KP>
struct Counting {
  template <FailPolicy F, typename OutputValue, typename OutputError, typename InputCore>
  struct Strategy {
    using PromiseType = yaclib::Promise<OutputValue, OutputError>;
    static constexpr yaclib::ConsumePolicy kConsumePolicy = CP;
    static constexpr yaclib::CorePolicy kCorePolicy = KP;

    Strategy(std::size_t count, PromiseType p) : _p{std::move(p)} {
      _cores.resize(count);
    }
    // CorePolicy::Owned
    void Register(std::size_t i, InputCore& core) {
      _cores[i] = &core;
    }
    // ConsumePolicy::Unordered
    template <typename T>
    void Consume(T&& target) {
      Seen(std::forward<T>(target));
    }
    // ConsumePolicy::Static
    template <std::size_t Index, typename T>
    void Consume(T&& target) {
      Seen(std::forward<T>(target));
      _last = Index;
    }
    // ConsumePolicy::Dynamic
    template <typename T>
    void Consume(std::size_t index, T&& target) {
      Seen(std::forward<T>(target));
      _last = index;
    }
    ~Strategy() {
      if constexpr (KP == yaclib::CorePolicy::Owned) {
        for (auto* core : _cores) {
          if (core != nullptr) {
            core->DecRef();
          }
        }
      }
      std::move(_p).Set(_seen);
    }

   private:
    template <typename T>
    void Seen(T&& target) {
      if constexpr (KP == yaclib::CorePolicy::Owned) {
        ++_seen;  // a core: left to the destructor
      } else {
        _seen += target ? 1 : 0;  // a Result (by value)
      }
    }
    std::vector<InputCore*> _cores;
    std::size_t _seen = 0;
    std::size_t _last = 0;
    PromiseType _p;
  };
};

template <yaclib::ConsumePolicy Consume, yaclib::CorePolicy Core, typename V, typename E>
void CustomStrategy() {
  using S = Counting<Consume, Core>;
  // variadic form: one core type, several core types, unique / shared
  auto a = yaclib::when::When<S::template Strategy, FailPolicy::None, std::size_t, E>(Src<Future<V, E>>());
  auto b = yaclib::when::When<S::template Strategy, FailPolicy::None, std::size_t, E>(Src<Future<V, E>>(), Src<FutureOn<V, E>>());
  auto c = yaclib::when::When<S::template Strategy, FailPolicy::FirstFail, std::size_t, E>(Src<Future<V, E>>(), Src<Future<int, E>>(),
                                                                                          Src<Future<V, E>>());
  static_assert(std::is_same_v<decltype(c), Future<std::size_t, E>>);
  Sink(a, b, c);
  if constexpr (kCopyable<V, E>) {
    auto d = yaclib::when::When<S::template Strategy, FailPolicy::None, std::size_t, E>(Src<SharedFuture<V, E>>(), Src<SharedFuture<V, E>>());
    auto e = yaclib::when::When<S::template Strategy, FailPolicy::None, std::size_t, E>(Src<SharedFuture<V, E>>(), Src<Future<V, E>>(),
                                                                                       Src<SharedFutureOn<int, E>>());
    Sink(d, e);
  }
  // iterator form (ConsumePolicy::Static is rejected there by a static_assert of the library: documented)
  if constexpr (Consume != yaclib::ConsumePolicy::Static) {
    auto v = Vec<Future<V, E>>();
    auto f = yaclib::when::When<S::template Strategy, FailPolicy::None, std::size_t, E>(v.begin(), v.size());
    Sink(f);
    if constexpr (kCopyable<V, E>) {
      auto sv = Vec<SharedFuture<V, E>>();
      auto g = yaclib::when::When<S::template Strategy, FailPolicy::None, std::size_t, E>(sv.begin(), sv.size());
      Sink(g);
    }
  }
}
template <typename V, typename E>
void CustomStrategies() {
  using yaclib::ConsumePolicy;
  using yaclib::CorePolicy;
  CustomStrategy<ConsumePolicy::None, CorePolicy::Managed, V, E>();
  CustomStrategy<ConsumePolicy::None, CorePolicy::Owned, V, E>();
  CustomStrategy<ConsumePolicy::Unordered, CorePolicy::Managed, V, E>();
  CustomStrategy<ConsumePolicy::Unordered, CorePolicy::Owned, V, E>();
  CustomStrategy<ConsumePolicy::Static, CorePolicy::Managed, V, E>();
  CustomStrategy<ConsumePolicy::Static, CorePolicy::Owned, V, E>();
  CustomStrategy<ConsumePolicy::Dynamic, CorePolicy::Managed, V, E>();
  CustomStrategy<ConsumePolicy::Dynamic, CorePolicy::Owned, V, E>();
}
template void CustomStrategies<void, StopError>();
template void CustomStrategies<Pinned, UserError>();

// ---- the matrix --------------------------------------------------------------------------------------------------------------
template <typename V, typename E>
void UniqueForms() {
  WhenAnySame<Future<V, E>, V, E>();
  WhenAnySame<FutureOn<V, E>, V, E>();
  JoinSame<Future<V, E>, E>();
  JoinSame<FutureOn<V, E>, E>();
}
template <typename V, typename E>
void SharedForms() {
  WhenAnySame<SharedFuture<V, E>, V, E>();
  WhenAnySame<SharedFutureOn<V, E>, V, E>();
  JoinSame<SharedFuture<V, E>, E>();
  JoinSame<SharedFutureOn<V, E>, E>();
}
template <typename E>
void AllForms() {
  UniqueForms<void, E>();
  UniqueForms<int, E>();
  UniqueForms<std::string, E>();
  UniqueForms<MoveOnly, E>();
  UniqueForms<Pinned, E>();
  SharedForms<void, E>();
  SharedForms<int, E>();
  SharedForms<std::string, E>();
  SharedForms<NoDefault, E>();
  WhenAnyVariantF<FailPolicy::None, E>();
  WhenAnyVariantF<FailPolicy::FirstFail, E>();
  WhenAnyVariantF<FailPolicy::LastFail, E>();
  JoinMixed<E>();
}
// a user error type: one copyable, one move-only value type (the strategies do not depend on E beyond passing it through)
template <typename E>
void SomeForms() {
  UniqueForms<int, E>();
  UniqueForms<Pinned, E>();
  SharedForms<NoDefault, E>();
  WhenAnyVariantF<FailPolicy::None, E>();
  WhenAnyVariantF<FailPolicy::FirstFail, E>();
  WhenAnyVariantF<FailPolicy::LastFail, E>();
  JoinMixed<E>();
}
template void AllForms<StopError>();
template void SomeForms<UserError>();

}  // namespace
}  // namespace probe
#endif  // API_PROBE_SMOKE_ONLY

int api_probe_when2(int argc) {
  (void)argc;
#ifndef API_PROBE_SMOKE_ONLY
  if (argc > 1000) {
    probe::AllForms<yaclib::StopError>();
    probe::CustomStrategies<probe::Pinned, probe::UserError>();
  }
#endif
  // smoke
  yaclib::ManualExecutor manual;
  auto run = [&](int x) {
    return yaclib::Run(manual, [x] {
      return x;
    });
  };
  auto any = yaclib::WhenAny(run(5), run(6));
  auto variant = yaclib::WhenAny(run(1), yaclib::MakeFuture(std::string{"s"}));
  std::vector<yaclib::FutureOn<int>> fs;
  fs.push_back(run(7));
  fs.push_back(run(8));
  auto join = yaclib::Join(fs.begin(), fs.end());
  auto first_fail = yaclib::Join<yaclib::FailPolicy::FirstFail>(run(1), yaclib::MakeFuture<int>(yaclib::StopTag{}));
  // WhenAny over void and non-void inputs (#4, /repo 3ec8b78): alternative 0 is Unit (the void input), alternative 1 the int
  auto [void_first_f, void_first_p] = yaclib::MakeContract<void>();
  auto [int_later_f, int_later_p] = yaclib::MakeContract<int>();
  auto void_wins = yaclib::WhenAny(std::move(void_first_f), std::move(int_later_f));
  auto [void_later_f, void_later_p] = yaclib::MakeContract<void>();
  auto [int_first_f, int_first_p] = yaclib::MakeContract<int>();
  auto int_wins = yaclib::WhenAny(std::move(void_later_f), std::move(int_first_f));
  std::move(void_first_p).Set();
  std::move(int_later_p).Set(1);
  std::move(int_first_p).Set(9);
  std::move(void_later_p).Set();
  {
    const std::variant<yaclib::Unit, int> a = std::move(void_wins).Get().Ok();
    const std::variant<yaclib::Unit, int> b = std::move(int_wins).Get().Ok();
    if (a.index() != 0 || b.index() != 1 || std::get<1>(b) != 9) {
      return 2;
    }
    auto failed = yaclib::WhenAny(yaclib::MakeFuture<void>(yaclib::StopTag{}), yaclib::MakeFuture<int>(yaclib::StopTag{}));
    if (std::move(failed).Get().State() != yaclib::ResultState::Error) {
      return 3;
    }
  }
  while (manual.Drain() != 0) {
  }
  int sum = 0;
  const int first = std::move(any).Get().Ok();
  sum += (first == 5 || first == 6) ? 5 : 1000;
  sum += static_cast<int>(std::move(variant).Get().Ok().index());                                   // 1: the ready string
  sum += static_cast<int>(std::move(join).Get().State());                                           // 0: Value
  sum += std::move(first_fail).Get().State() == yaclib::ResultState::Error ? 10 : 1000;
  return sum == 5 + 1 + 0 + 10 ? 0 : 1;
}

#ifndef API_PROBE_NO_MAIN
int main(int argc, char**) {
  return api_probe_when2(argc);
}
#endif
