// API instantiation sweep, area `shared`: async/{shared_future,shared_promise,shared_contract,share,split}.hpp, the shared
// forms of async/{connect,run,wait}.hpp.  C++17-clean.  See api_probe.hpp for the conventions.
//
// Documented constraints that are NOT probed because they are static_asserts of the library (misuse, class (b)):
//   SharedFuture<V, E> / SharedPromise<V, E> / Split require a copy-constructible Result<V, E> (no MoveOnly / Pinned);
//   callbacks of a shared source receive `const Result<V, E>&` / `const V&`: a callback taking `Result<V, E>&&` or `V&&` does not bind.
#include <yaclib/async/shared_contract.hpp>
#include <yaclib/async/shared_future.hpp>
#include <yaclib/async/shared_promise.hpp>
// the three headers above are the whole include list a user of SharedFuture / SharedPromise needs
#include <yaclib/async/connect.hpp>
#include <yaclib/async/run.hpp>
#include <yaclib/async/share.hpp>
#include <yaclib/async/split.hpp>
#include <yaclib/async/wait.hpp>
#include <yaclib/async/wait_for.hpp>
#include <yaclib/exe/manual.hpp>

#include "api_probe.hpp"
#include "api_probe_cb.hpp"

#include <array>
#include <vector>

#ifndef API_PROBE_SMOKE_ONLY
namespace probe {
namespace {

using yaclib::Future;
using yaclib::FutureOn;
using yaclib::Promise;
using yaclib::Result;
using yaclib::SharedFuture;
using yaclib::SharedFutureOn;
using yaclib::SharedPromise;
using yaclib::StopError;
using yaclib::StopTag;

// ---- async/shared_contract.hpp, async/shared_promise.hpp ---------------------------------------------------------------
template <typename V, typename E>
void Contracts() {
  {
    yaclib::SharedContract<V, E> c = yaclib::MakeSharedContract<V, E>();
    auto [f, p] = yaclib::MakeSharedContract<V, E>();
    static_assert(std::is_same_v<decltype(f), SharedFuture<V, E>> && std::is_same_v<decltype(p), SharedPromise<V, E>>);
    Sink(c, f, p);
  }
  {
    yaclib::SharedContractOn<V, E> c = yaclib::MakeSharedContractOn<V, E>(Exec());
    auto [f, p] = yaclib::MakeSharedContractOn<V, E>(Exec());
    static_assert(std::is_same_v<decltype(f), SharedFutureOn<V, E>> && std::is_same_v<decltype(p), SharedPromise<V, E>>);
    Sink(c, f, p);
  }
  auto promise = [] {
    return yaclib::MakeSharedPromise<V, E>();
  };
  static_assert(std::is_same_v<decltype(promise()), SharedPromise<V, E>>);
  SharedPromise<V, E> def;
  SharedPromise<V, E> moved{promise()};
  def = std::move(moved);
  Sink(def.Valid(), def.GetCore());
  if constexpr (std::is_void_v<V>) {
    std::move(def).Set();
    promise().Set(yaclib::Unit{});
    promise().Set(std::in_place);
  } else {
    std::move(def).Set(Make<V>());
    V v = Make<V>();
    promise().Set(v);
    promise().Set(std::as_const(v));
    promise().Set(std::in_place, Make<V>());
  }
  promise().Set(StopTag{});
  promise().Set(E{StopTag{}});
  promise().Set(std::make_exception_ptr(0));
  promise().Set(Build<Result<V, E>>::Do());
  auto r = Build<Result<V, E>>::Do();
  promise().Set(r);
  SharedPromise<V, E> explicit_core{yaclib::detail::SharedCorePtr<V, E>{}};
  Sink(explicit_core.Valid());
}

void ContractsDefaults() {
  auto [f0, p0] = yaclib::MakeSharedContract();
  auto [f1, p1] = yaclib::MakeSharedContractOn(Exec());
  auto p2 = yaclib::MakeSharedPromise();
  auto [f3, p3] = yaclib::MakeSharedContract<int>();
  auto [f4, p4] = yaclib::MakeSharedContractOn<int>(Exec());
  auto p5 = yaclib::MakeSharedPromise<int>();
  static_assert(std::is_same_v<decltype(f0), SharedFuture<>> && std::is_same_v<decltype(f1), SharedFutureOn<>> &&
                std::is_same_v<decltype(p2), SharedPromise<>> && std::is_same_v<decltype(f3), SharedFuture<int>> &&
                std::is_same_v<decltype(f4), SharedFutureOn<int>> && std::is_same_v<decltype(p5), SharedPromise<int>>);
  Sink(f0, p0, f1, p1, p2, f3, p3, f4, p4, p5);
}

// ---- async/shared_future.hpp: the non-template members ----------------------------------------------------------------------
template <template <typename, typename> class H, typename V, typename E>
void FutureMembers() {
  using F = H<V, E>;
  F def;
  F f = Build<F>::Do();
  F copy{f};             // shared futures are copyable
  F moved{std::move(copy)};
  copy = f;
  copy = std::move(moved);
  const F& cf = f;
  Sink(cf.Valid(), cf.Ready(), def.Valid());
  const Result<V, E>& got = cf.Get();        // Get() const&
  const Result<V, E>& touched = cf.Touch();  // Touch() const&
  const Result<V, E>& got_lvalue = f.Get();  // (an lvalue is fine for shared futures)
  Sink(got, touched, got_lvalue, f.GetCore(), cf.GetCore(), cf.GetHandle());
  static_assert(std::is_same_v<typename F::Handle, yaclib::detail::SharedHandle>);
  static_assert(std::is_same_v<typename F::Core, yaclib::detail::SharedCore<V, E>>);
  Result<V, E> r1 = F{f}.Get();    // Get() &&
  Result<V, E> r2 = F{f}.Touch();  // Touch() &&
  F{f}.Detach();                   // Detach() &&
  Sink(r1, r2);
  if constexpr (std::is_same_v<F, SharedFutureOn<V, E>>) {
    SharedFuture<V, E> off = F{f}.On(nullptr);
    Sink(off);
  }
  const yaclib::SharedFutureBase<V, E>& base = f;
  Sink(base.Valid());
  F from_core{yaclib::detail::SharedCorePtr<V, E>{}};
  Sink(from_core.Valid());
}

template <typename E>
void MembersAllV() {
  FutureMembers<SharedFuture, void, E>();
  FutureMembers<SharedFuture, int, E>();
  FutureMembers<SharedFuture, std::string, E>();
  FutureMembers<SharedFuture, NoDefault, E>();
  FutureMembers<SharedFutureOn, void, E>();
  FutureMembers<SharedFutureOn, int, E>();
  FutureMembers<SharedFutureOn, std::string, E>();
  FutureMembers<SharedFutureOn, NoDefault, E>();
  Contracts<void, E>();
  Contracts<int, E>();
  Contracts<std::string, E>();
  Contracts<NoDefault, E>();
}
template void MembersAllV<StopError>();
template void MembersAllV<UserError>();

template <typename F, typename = void>
struct CanGetConstRvalue : std::false_type {};
template <typename F>
struct CanGetConstRvalue<F, std::void_t<decltype(std::declval<const F&&>().Get())>> : std::true_type {};
template <typename F, typename = void>
struct CanTouchConstRvalue : std::false_type {};
template <typename F>
struct CanTouchConstRvalue<F, std::void_t<decltype(std::declval<const F&&>().Touch())>> : std::true_type {};
static_assert(!CanGetConstRvalue<SharedFuture<int>>::value, "API_PROBE_DELETED: SharedFuture::Get() const&& is deleted");
static_assert(!CanTouchConstRvalue<SharedFuture<int>>::value, "API_PROBE_DELETED: SharedFuture::Touch() const&& is deleted");
static_assert(std::is_copy_constructible_v<SharedFuture<int>> && !std::is_copy_constructible_v<SharedPromise<int>>);

// ---- the continuation API of the shared handles ------------------------------------------------------------------------------
// the handle is NOT consumed: the methods are const
struct SThenInline {
  template <typename H, typename F>
  static void Do(const H& h, F&& f) {
    Sink(h.ThenInline(std::forward<F>(f)));
  }
};
struct SThenExec {
  template <typename H, typename F>
  static void Do(const H& h, F&& f) {
    Sink(h.Then(Exec(), std::forward<F>(f)));
  }
};
struct SThenOn {  // SharedFutureOn only
  template <typename H, typename F>
  static void Do(const H& h, F&& f) {
    Sink(h.Then(std::forward<F>(f)));
  }
};
struct SubscribeInline {
  template <typename H, typename F>
  static void Do(const H& h, F&& f) {
    h.SubscribeInline(std::forward<F>(f));
  }
};
struct SubscribeExec {
  template <typename H, typename F>
  static void Do(const H& h, F&& f) {
    h.Subscribe(Exec(), std::forward<F>(f));
  }
};
struct SubscribeOn {  // SharedFutureOn only
  template <typename H, typename F>
  static void Do(const H& h, F&& f) {
    h.Subscribe(std::forward<F>(f));
  }
};

// the signature classes that bind to what a shared source passes (const Result<V, E>& / const V&)
template <typename M, typename H, typename V, typename E, typename R>
void SArgs() {
  using S = Sig<V, E, R>;
  M::Do(Build<H>::Do(), typename S::Value{});     // V by value (a copy) / no argument
  M::Do(Build<H>::Do(), typename S::ValueCr{});   // const V& / const Unit&
  M::Do(Build<H>::Do(), typename S::Result{});    // Result<V, E> by value (a copy)
  M::Do(Build<H>::Do(), typename S::ResultCr{});  // const Result<V, E>&
}
template <typename M, typename H, typename V, typename E, typename R>
void SRecover() {
  using S = Sig<V, E, R>;
  M::Do(Build<H>::Do(), typename S::Error{});
  M::Do(Build<H>::Do(), typename S::ErrorCr{});
  M::Do(Build<H>::Do(), typename S::Exception{});
}
template <typename M, typename H, typename V, typename E, typename U>
void SArgsRets() {
  SArgs<M, H, V, E, U>();
  SArgs<M, H, V, E, Result<U, E>>();
  SArgs<M, H, V, E, Future<U, E>>();
  SArgs<M, H, V, E, FutureOn<U, E>>();
  SArgs<M, H, V, E, yaclib::Task<U, E>>();
  if constexpr (kCopyable<U, E>) {
    SArgs<M, H, V, E, SharedFuture<U, E>>();
    SArgs<M, H, V, E, SharedFutureOn<U, E>>();
  }
}
template <typename M, typename H, typename V, typename E>
void SRecoverRets() {
  SRecover<M, H, V, E, V>();
  SRecover<M, H, V, E, Result<V, E>>();
  SRecover<M, H, V, E, Future<V, E>>();
  SRecover<M, H, V, E, FutureOn<V, E>>();
  SRecover<M, H, V, E, yaclib::Task<V, E>>();
  SRecover<M, H, V, E, SharedFuture<V, E>>();
  SRecover<M, H, V, E, SharedFutureOn<V, E>>();
}
template <typename M, typename H, typename V, typename E>
void SSubscribes() {
  SArgs<M, H, V, E, void>();
  SArgs<M, H, V, E, Result<void, E>>();
  if constexpr (std::is_void_v<V>) {
    SRecover<M, H, V, E, void>();
  }
}

template <typename V, typename E, typename U>
void Continuations() {
  SArgsRets<SThenInline, SharedFuture<V, E>, V, E, U>();
  SRecoverRets<SThenInline, SharedFuture<V, E>, V, E>();
  SArgsRets<SThenExec, SharedFuture<V, E>, V, E, U>();
  SRecoverRets<SThenExec, SharedFuture<V, E>, V, E>();
  SArgsRets<SThenInline, SharedFutureOn<V, E>, V, E, U>();
  SArgsRets<SThenExec, SharedFutureOn<V, E>, V, E, U>();
  SArgsRets<SThenOn, SharedFutureOn<V, E>, V, E, U>();
  SRecoverRets<SThenOn, SharedFutureOn<V, E>, V, E>();
  SSubscribes<SubscribeInline, SharedFuture<V, E>, V, E>();
  SSubscribes<SubscribeExec, SharedFuture<V, E>, V, E>();
  SSubscribes<SubscribeInline, SharedFutureOn<V, E>, V, E>();
  // the inherited Subscribe(IExecutor&, Func&&) of a SharedFutureOn: hidden before /repo a50f9bd (no `using Base::Subscribe;`), #2
  SSubscribes<SubscribeExec, SharedFutureOn<V, E>, V, E>();
  SSubscribes<SubscribeOn, SharedFutureOn<V, E>, V, E>();
}
// one method per core shape for the remaining (V, E, U) combinations
template <typename V, typename E, typename U>
void ContinuationsLite() {
  SArgsRets<SThenInline, SharedFuture<V, E>, V, E, U>();
  SArgsRets<SThenOn, SharedFutureOn<V, E>, V, E, U>();
  SRecover<SThenExec, SharedFuture<V, E>, V, E, V>();
  SRecover<SThenInline, SharedFutureOn<V, E>, V, E, Future<V, E>>();
  SSubscribes<SubscribeExec, SharedFuture<V, E>, V, E>();
  SSubscribes<SubscribeOn, SharedFutureOn<V, E>, V, E>();
}
template void Continuations<void, StopError, int>();
template void ContinuationsLite<NoDefault, UserError, Pinned>();
template void ContinuationsLite<int, StopError, void>();
template void ContinuationsLite<std::string, UserError, MoveOnly>();
template void ContinuationsLite<void, UserError, void>();

void ReturnedHandleKinds() {
  auto sf = Build<SharedFuture<int>>::Do();
  auto sfo = Build<SharedFutureOn<int>>::Do();
  Fn<int, int> f;
  static_assert(std::is_same_v<decltype(sf.ThenInline(f)), Future<int>>);
  static_assert(std::is_same_v<decltype(sf.Then(Exec(), f)), FutureOn<int>>);
  static_assert(std::is_same_v<decltype(sfo.ThenInline(f)), FutureOn<int>>);
  static_assert(std::is_same_v<decltype(sfo.Then(f)), FutureOn<int>>);
  static_assert(std::is_same_v<decltype(sfo.Then(Exec(), f)), FutureOn<int>>);
  // callables
  Sink(sf.ThenInline([](int x) {
    return x;
  }));
  Sink(sf.ThenInline(MutFn<int, const int&>{}), sf.ThenInline(RvFn<int, int>{}), sf.ThenInline(FreeFn<int, int>),
       sf.ThenInline(&FreeFn<int, const Result<int>&>), sf.ThenInline(std::function<int(int)>{f}));
  sf.SubscribeInline([](const auto& x) {
    Sink(x);
  });
  sfo.Subscribe(FreeFn<void, int>);
}

// ---- async/run.hpp (shared forms) ------------------------------------------------------------------------------------------
template <typename E, typename R>
void RunWith() {
  Sink(yaclib::RunShared<E>(Fn<R>{}), yaclib::RunShared<E>(Exec(), Fn<R>{}));
  Sink(yaclib::RunShared<E>(Fn<R, Result<void, E>>{}), yaclib::RunShared<E>(Exec(), Fn<R, yaclib::Unit>{}));
}
template <typename E, typename U>
void RunRets() {
  RunWith<E, U>();
  RunWith<E, Result<U, E>>();
  RunWith<E, Future<U, E>>();
  RunWith<E, FutureOn<U, E>>();
  RunWith<E, yaclib::Task<U, E>>();
  RunWith<E, SharedFuture<U, E>>();
  RunWith<E, SharedFutureOn<U, E>>();
}
template <typename V, typename E>
void AsyncContracts() {
  Sink(yaclib::AsyncSharedContract<V, E>(Fn<void, SharedPromise<V, E>>{}), yaclib::AsyncSharedContract<V, E>(Fn<void, SharedPromise<V, E>&&>{}),
       yaclib::AsyncSharedContract<V, E>(Exec(), Fn<void, SharedPromise<V, E>>{}),
       yaclib::AsyncSharedContract<V, E>(Exec(), MutFn<void, SharedPromise<V, E>>{}));
  static_assert(std::is_same_v<decltype(yaclib::AsyncSharedContract<V, E>(Exec(), Fn<void, SharedPromise<V, E>>{})), SharedFutureOn<V, E>>);
  // the executor-less form is a SharedFuture like RunShared(f) (it returned a SharedFutureOn before /repo dfc7662), #7
  static_assert(std::is_same_v<decltype(yaclib::AsyncSharedContract<V, E>(Fn<void, SharedPromise<V, E>>{})), SharedFuture<V, E>>);
  SharedFuture<V, E> no_executor = yaclib::AsyncSharedContract<V, E>(Fn<void, SharedPromise<V, E>>{});
  Sink(no_executor);
}
template <typename E>
void Runs() {
  RunRets<E, void>();
  RunRets<E, int>();
  RunRets<E, std::string>();
  RunRets<E, NoDefault>();
  AsyncContracts<void, E>();
  AsyncContracts<int, E>();
  AsyncContracts<std::string, E>();
  AsyncContracts<NoDefault, E>();
  static_assert(std::is_same_v<decltype(yaclib::RunShared<E>(Fn<int>{})), SharedFuture<int, E>>);
  static_assert(std::is_same_v<decltype(yaclib::RunShared<E>(Exec(), Fn<int>{})), SharedFutureOn<int, E>>);
}
// a user error type: void and one non-default-constructible value type (the error type is only passed through)
template <typename E>
void RunsLite() {
  RunRets<E, void>();
  RunRets<E, NoDefault>();
  AsyncContracts<void, E>();
  AsyncContracts<NoDefault, E>();
}
template void Runs<StopError>();
template void RunsLite<UserError>();

void RunDefaults() {
  Sink(yaclib::RunShared([] {
  }));
  Sink(yaclib::RunShared(Exec(), [] {
    return 1;
  }));
  Sink(yaclib::AsyncSharedContract([](SharedPromise<> p) {
    std::move(p).Set();
  }));
  Sink(yaclib::AsyncSharedContract<int>(Exec(), [](SharedPromise<int> p) {
    std::move(p).Set(1);
  }));
}

// ---- async/share.hpp, async/split.hpp, async/connect.hpp (shared forms) --------------------------------------------------------
template <typename V, typename E>
void ShareSplitConnect() {
  SharedFuture<V, E> sf = Build<SharedFuture<V, E>>::Do();
  SharedFutureOn<V, E> sfo = Build<SharedFutureOn<V, E>>::Do();
  SharedPromise<V, E> sp = yaclib::MakeSharedPromise<V, E>();
  // Share
  Future<V, E> a = yaclib::Share(sf);
  Future<V, E> b = yaclib::Share(sfo);
  FutureOn<V, E> c = yaclib::Share(sf, Exec());
  FutureOn<V, E> d = yaclib::Share(sfo, Exec());
  Future<V, E> e = yaclib::Share(sp);
  FutureOn<V, E> f = yaclib::Share(sp, Exec());
  const SharedFuture<V, E>& csf = sf;
  Future<V, E> g = yaclib::Share(csf);
  // Split
  SharedFuture<V, E> s1 = yaclib::Split(Build<Future<V, E>>::Do());
  SharedFuture<V, E> s2 = yaclib::Split(Build<FutureOn<V, E>>::Do());
  SharedFuture<V, E> s3 = yaclib::Split(sp);
  yaclib::FutureBase<V, E>&& base = Build<Future<V, E>>::Do();
  SharedFuture<V, E> s4 = yaclib::Split(std::move(base));
  Sink(a, b, c, d, e, f, g, s1, s2, s3, s4);
  // Connect: shared future -> promise
  {
    auto [uf, up] = yaclib::MakeContract<V, E>();
    yaclib::Connect(sf, std::move(up));
    auto [uf1, up1] = yaclib::MakeContract<V, E>();
    yaclib::Connect(sfo, std::move(up1));
    Sink(uf, uf1);
  }
  // Connect: future -> shared promise
  {
    yaclib::Connect(Build<Future<V, E>>::Do(), yaclib::MakeSharedPromise<V, E>());
    yaclib::Connect(Build<FutureOn<V, E>>::Do(), yaclib::MakeSharedPromise<V, E>());
    auto [uf, up] = yaclib::MakeContract<V, E>();
    yaclib::Connect(std::move(uf), yaclib::MakeSharedPromise<V, E>());
    Sink(up);
  }
  // Connect: shared future -> shared promise
  {
    yaclib::Connect(sf, yaclib::MakeSharedPromise<V, E>());
    yaclib::Connect(sfo, yaclib::MakeSharedPromise<V, E>());
  }
  // Connect: shared promise subsumes a promise / a shared promise
  {
    auto [uf, up] = yaclib::MakeContract<V, E>();
    yaclib::Connect(sp, std::move(up));
    auto [sf2, sp2] = yaclib::MakeSharedContract<V, E>();
    yaclib::Connect(sp, std::move(sp2));
    Sink(uf, sf2);
  }
}
template <typename E>
void ShareSplitConnectAllV() {
  ShareSplitConnect<void, E>();
  ShareSplitConnect<int, E>();
  ShareSplitConnect<std::string, E>();
  ShareSplitConnect<NoDefault, E>();
}
template void ShareSplitConnectAllV<StopError>();
template void ShareSplitConnectAllV<UserError>();

// ---- async/wait.hpp with shared futures -------------------------------------------------------------------------------------------
template <typename V, typename E>
void Waits() {
  SharedFuture<V, E> s1 = Build<SharedFuture<V, E>>::Do();
  SharedFuture<V, E> s2 = s1;
  SharedFutureOn<V, E> so = Build<SharedFutureOn<V, E>>::Do();
  const SharedFuture<V, E>& cs = s1;
  Future<int, E> u = Build<Future<int, E>>::Do();
  yaclib::Wait(s1);
  yaclib::Wait(cs);  // a const shared future is waitable
  yaclib::Wait(so);
  yaclib::Wait(s1, s2);
  yaclib::Wait(s1, s2, so);
  yaclib::Wait(s1, u);  // mixed unique / shared
  yaclib::Wait(u, cs, so);
  yaclib::Wait<yaclib::detail::MutexEvent>(s1, s2);
  const yaclib::SharedFutureBase<V, E>& base = s1;
  yaclib::Wait(base);
  std::vector<SharedFuture<V, E>> vec{s1, s2};
  yaclib::Wait(vec.begin(), vec.end());
  yaclib::Wait(vec.begin(), vec.size());
  yaclib::Wait(vec.cbegin(), vec.cend());  // const iterators
  yaclib::Wait(vec.data(), vec.size());
  std::array<SharedFutureOn<V, E>, 2> arr{so, so};
  yaclib::Wait(arr.begin(), arr.end());
  yaclib::Wait<yaclib::detail::MutexEvent>(arr.begin(), arr.size());
}
template <typename E>
void WaitsAllV() {
  Waits<void, E>();
  Waits<int, E>();
  Waits<NoDefault, E>();
}
template void WaitsAllV<StopError>();
template void WaitsAllV<UserError>();

// type_traits.hpp: "shared futures cannot be waited with timeout" - removed by SFINAE, documented
template <typename F, typename = void>
struct CanWaitFor : std::false_type {};
template <typename F>
struct CanWaitFor<F, std::void_t<decltype(yaclib::WaitFor(std::chrono::seconds{1}, std::declval<F&>()))>> : std::true_type {};
static_assert(CanWaitFor<Future<int>>::value && !CanWaitFor<SharedFuture<int>>::value,
              "API_PROBE_DELETED: WaitFor(timeout, SharedFuture&) is SFINAE-d out");

}  // namespace
}  // namespace probe
#endif  // API_PROBE_SMOKE_ONLY

int api_probe_shared(int argc) {
  (void)argc;
#ifndef API_PROBE_SMOKE_ONLY
  using namespace probe;
  if (argc > 1000) {
    ContractsDefaults();
    MembersAllV<StopError>();
    Continuations<void, StopError, int>();
    ReturnedHandleKinds();
    Runs<StopError>();
    RunDefaults();
    ShareSplitConnectAllV<StopError>();
    WaitsAllV<StopError>();
  }
#endif
  // smoke
  yaclib::ManualExecutor manual;
  auto [sf, sp] = yaclib::MakeSharedContractOn<int>(manual);
  int sum = 0;
  sf.Subscribe([&](int x) {
    sum += x;
  });
  auto f1 = sf.Then([](const yaclib::Result<int>& r) {
    return r.Ok() + 1;
  });
  auto f2 = yaclib::Share(sf);
  auto s2 = yaclib::Split(sf.ThenInline([](int x) {
    return yaclib::MakeFuture(x * 2);
  }));
  // Subscribe(e, f) of a SharedFutureOn (#2, /repo a50f9bd): the callback runs on `other`, not on the future's own executor
  yaclib::ManualExecutor other;
  int on_other = 0;
  sf.Subscribe(other, [&](int x) {
    on_other = x;
  });
  std::move(sp).Set(10);
  while (manual.Drain() != 0) {
  }
  if (on_other != 0 || other.Drain() != 1 || on_other != 10) {
    return 2;  // it must not have run while only `manual` was drained, and must be the one job of `other`
  }
  yaclib::Wait(sf, f1, f2, s2);
  sum += std::move(f1).Get().Ok() + std::move(f2).Get().Ok() + s2.Get().Ok() + sf.Get().Ok();
  // AsyncSharedContract(f) is a SharedFuture fulfilled through the SharedPromise handed to f (#7, /repo dfc7662)
  yaclib::SharedPromise<int> kept;
  yaclib::SharedFuture<int> contract = yaclib::AsyncSharedContract<int>([&](yaclib::SharedPromise<int> p) {
    kept = std::move(p);
  });
  yaclib::SharedFuture<int> copy = contract;
  if (contract.Ready() || !kept.Valid()) {
    return 3;  // f ran inline and kept the promise: not ready yet
  }
  std::move(kept).Set(7);
  if (!copy.Ready() || copy.Get().Ok() != 7 || std::move(contract).Get().Ok() != 7) {
    return 4;
  }
  return sum == 10 + 11 + 10 + 20 + 10 ? 0 : 1;
}

#ifndef API_PROBE_NO_MAIN
int main(int argc, char**) {
  return api_probe_shared(argc);
}
#endif
