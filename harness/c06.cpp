// C06 correspondence harness: one fulfiller fiber and 2-3 observer fibers, each running a short program on its own
// SharedFuture copies, over a real shared core.  Producer forms (`prod=`): the SharedPromise of MakeSharedContract<Val> /
// MakeSharedContractOn<Val> (set, drop), a shared core that is ITSELF the callback of an upstream unique core —
// Split(future) / Connect(future, SharedPromise) — reached through SharedCore::Here (upstream = a Promise) or through
// SharedCore::Next (upstream = a coroutine Future finishing in final_suspend, with or without a ThenInline step in
// between: symmetric transfer), and a coroutine returning SharedFuture (its own promise object is the shared core).  All schedules under a
// preemption bound (or random schedules).  Emits canonical traces for `ymdriver validate shared` (the callback word
// `w` and the reference counter `cnt` of the shared core are traced) and checks the property's monitors directly on
// the implementation, independently of the model.
#include <common/vx.hpp>

#include <yaclib/async/connect.hpp>
#include <yaclib/async/contract.hpp>
#include <yaclib/async/future.hpp>
#include <yaclib/async/promise.hpp>
#include <yaclib/async/shared_contract.hpp>
#include <yaclib/async/shared_future.hpp>
#include <yaclib/async/shared_promise.hpp>
#include <yaclib/async/split.hpp>
#include <yaclib/async/wait.hpp>
#include <yaclib/coro/await.hpp>
#include <yaclib/coro/future.hpp>
#include <yaclib/coro/shared_future.hpp>
#include <yaclib/exe/executor.hpp>
#include <yaclib/util/cast.hpp>
#include <yaclib/util/helper.hpp>

#include <cstring>
#include <map>
#include <memory>
#include <optional>

namespace {

// ---- payload that makes copies / moves out of the core observable
const char* gCoreLo = nullptr;  // address range of the shared core's result storage
const char* gCoreHi = nullptr;
int gCoreMoves = 0;                // move-constructions whose source lives in the core
std::vector<std::string> gMovers;  // … the fibers that made them and have not reported them in an event yet
int gCoreDtors = 0;                // destructions of the Val that lives in the core

bool InCore(const void* p) {
  auto* c = static_cast<const char*>(p);
  return gCoreLo != nullptr && c >= gCoreLo && c < gCoreHi;
}

struct Val {
  int v = 0;
  explicit Val(int x) noexcept : v{x} {
  }
  Val(const Val& o) noexcept : v{o.v} {
  }
  Val(Val&& o) noexcept : v{o.v} {
    if (InCore(&o)) {
      ++gCoreMoves;
      gMovers.push_back(vx::gCtx->Cur());
    }
    o.v = -1;  // moved-from marker: any later read of it shows val:-1
  }
  Val& operator=(const Val&) noexcept = default;
  Val& operator=(Val&& o) noexcept {
    v = o.v;
    if (InCore(&o)) {
      ++gCoreMoves;
      gMovers.push_back(vx::gCtx->Cur());
    }
    o.v = -1;
    return *this;
  }
  ~Val() {
    if (InCore(this)) {
      ++gCoreDtors;
    }
  }
};

using SF = yaclib::SharedFuture<Val>;
using CoreT = yaclib::detail::SharedCore<Val, yaclib::StopError>;
using HelperT = yaclib::detail::Helper<yaclib::detail::AtomicCounter, CoreT>;
// the shared core of a `SharedFuture` coroutine is its promise object
using CoroCounterT = yaclib::detail::AtomicCounter<CoreT, yaclib::detail::PromiseTypeDeleter<false, true>>;

struct Peek : yaclib::detail::BaseCore {
  static yaclib_std::atomic_uintptr_t& Word(yaclib::detail::BaseCore& c) {
    return c.*(&Peek::_callback);
  }
};

std::string Show(const yaclib::Result<Val>& r) {
  switch (r.State()) {
    case yaclib::ResultState::Value:
      return "val:" + std::to_string(std::as_const(r).Value().v);
    case yaclib::ResultState::Error:
      return "err";
    case yaclib::ResultState::Exception:
      return "exc";
    default:
      return "none";  // not a state a constructed Result set through the promise can have
  }
}

struct Scenario {
  // set:42 | drop | seton:42 | split_set:42 | split_drop | conn_set:42 | split_coro:42 | split_coro_then:42 | conn_coro:42 |
  // scoro:42
  std::string prod;
  std::string exec;                             // now | late
  std::vector<std::vector<std::string>> progs;  // per observer
  int pb_extra = 0;                             // explored with a larger preemption bound than the rest
  std::string Header() const {
    std::string h = "shared prod=" + prod + " exec=" + exec;
    for (std::size_t i = 0; i < progs.size(); ++i) {
      h += " o" + std::to_string(i) + "=";
      for (std::size_t j = 0; j < progs[i].size(); ++j) h += (j ? "," : "") + progs[i][j];
    }
    return h;
  }
};

// ---- what the monitors look at
struct Observed {
  bool set_started = false;
  bool value_payload = false;
  std::map<std::string, int> attached;  // callback name -> 1
  std::map<std::string, int> ran;       // callback name -> number of runs
  std::vector<std::string> bad;         // violations noticed on the spot
  std::string d3;                       // the known one (D3), kept apart so that it cannot hide anything else
  int waits = 0;
};
Observed gObs;
std::uint64_t gD3Seen = 0;  // executions in which D3 showed; only the first few are reported in full
std::string gWant;
bool gLate = false;
std::vector<yaclib::Job*> gQueue;

void Bad(const std::string& s) {
  gObs.bad.push_back(s);
}

std::string MvFlag() {
  if (!gObs.value_payload) return "-";  // an error / exception Result carries no Val: moves are not observable
  auto me = vx::gCtx->Cur();  // a move is reported by the fiber that made it (fibers are sequential)
  for (auto it = gMovers.begin(); it != gMovers.end(); ++it) {
    if (*it == me) {
      gMovers.erase(it);
      return "1";
    }
  }
  return "0";
}

void CheckRead(const std::string& who, const std::string& val) {
  if (!gObs.set_started) Bad(who + " happened before Set started");
  if (val == "val:-1") Bad(who + " read a moved-from value");
  else if (val != gWant) Bad(who + " saw " + val + " instead of " + gWant);
}

void OnRun(const char* ev, const std::string& name, const std::string& val, bool with_mv) {
  ++gObs.ran[name];
  CheckRead(std::string(ev) + " " + name, val);
  vx::Ev(std::string(ev) + " " + name + " " + val + (with_mv ? " mv=" + MvFlag() : ""));
}

struct TraceExec final : yaclib::IExecutor {
  explicit TraceExec(std::string n) : name{std::move(n)} {
  }
  Type Tag() const noexcept final {
    return Type::Custom;
  }
  bool Alive() const noexcept final {
    return true;
  }
  void Submit(yaclib::Job& job) noexcept final {
    vx::Ev("submit " + name);
    if (gLate) {
      gQueue.push_back(&job);
    } else {
      job.Call();
    }
  }
  std::string name;
};

// what a When* combinator callback does with a shared input (when.hpp), reduced to its core: it is ENTERED (Here / Next, or
// inline by the registrar) and its combinator calls `core.Retire()` — at once inside the entry (Managed strategies, `own =
// false`) or later, from the combinator's destructor, possibly on another thread (Owned strategies, `own = true`: here the
// root fiber retires after every other fiber has finished).
struct RetireCb;
std::vector<std::pair<RetireCb*, CoreT*>> gOwned;

struct RetireCb final : yaclib::detail::InlineCore {
  RetireCb(std::string n, bool o) : name{std::move(n)}, own{o} {
  }
  void Enter(CoreT& core) {
    if (!gObs.set_started) Bad("combinator callback " + name + " entered before Set started");
    if (++entered != 1) Bad("combinator callback " + name + " entered " + std::to_string(entered) + " times");
    vx::Ev("enter " + name);
    if (own) {
      gOwned.emplace_back(this, &core);
    } else {
      Retire(core);
    }
  }
  void Retire(CoreT& core) {
    vx::Ev("retiring " + name);
    auto r = core.Retire();
    OnRun("consume", name, Show(r), true);
    delete this;
  }
  [[nodiscard]] yaclib::detail::InlineCore* Here(yaclib::detail::InlineCore& caller) noexcept final {
    Enter(yaclib::DownCast<CoreT>(caller));
    return nullptr;
  }
#if YACLIB_SYMMETRIC_TRANSFER != 0
  [[nodiscard]] yaclib_std::coroutine_handle<> Next(yaclib::detail::InlineCore& caller) noexcept final {
    Enter(yaclib::DownCast<CoreT>(caller));
    return yaclib_std::noop_coroutine();
  }
#endif
  std::string name;
  bool own;
  int entered = 0;
};

struct ObsCtx {
  int id = 0;
  int seq = 0;
  std::vector<SF> copies;
  std::vector<std::unique_ptr<TraceExec>> execs;
  std::string NewCb() {
    std::string n = "o" + std::to_string(id) + "." + std::to_string(seq++);
    gObs.attached[n] = 1;
    return n;
  }
};

void RunOp(ObsCtx& o, const std::string& op) {
  if (o.copies.empty()) {
    Bad("harness: operation " + op + " without a SharedFuture");
    return;
  }
  SF& sf = o.copies.back();
  if (op == "sub_inline") {
    auto n = o.NewCb();
    sf.SubscribeInline([n](const yaclib::Result<Val>& r) {
      OnRun("invoke", n, Show(r), false);
    });
  } else if (op == "then_inline") {
    auto n = o.NewCb();
    sf.ThenInline([n](const yaclib::Result<Val>& r) {
        OnRun("invoke", n, Show(r), false);
      })
      .Detach();
  } else if (op == "sub_exec") {
    auto n = o.NewCb();
    o.execs.push_back(std::make_unique<TraceExec>(n));
    sf.Subscribe(*o.execs.back(), [n](const yaclib::Result<Val>& r) {
      OnRun("invoke", n, Show(r), false);
    });
  } else if (op == "then_exec") {
    auto n = o.NewCb();
    o.execs.push_back(std::make_unique<TraceExec>(n));
    sf.Then(*o.execs.back(),
            [n](const yaclib::Result<Val>& r) {
              OnRun("invoke", n, Show(r), false);
            })
      .Detach();
  } else if (op == "wait") {
    auto n = o.NewCb();
    gObs.attached.erase(n);  // a waiter's event has no body to count
    yaclib::Wait(sf);
    if (!gObs.set_started) Bad("Wait returned before Set started");
    vx::Ev("waited");
  } else if (op == "getc") {
    auto n = o.NewCb();
    gObs.attached.erase(n);
    const auto& r = sf.Get();
    auto v = Show(r);
    CheckRead("Get() const&", v);
    vx::Ev("getc " + v);
  } else if (op == "get_move") {
    auto n = o.NewCb();
    gObs.attached.erase(n);
    auto r = std::move(sf).Get();
    auto v = Show(r);
    CheckRead("Get() &&", v);
    vx::Ev("got " + v + " mv=" + MvFlag());
    o.copies.pop_back();  // the future that was moved from is destroyed
  } else if (op == "ready") {
    bool b = sf.Ready();
    vx::Ev(std::string("ready ") + (b ? "1" : "0"));
  } else if (op == "ready_touch") {
    bool b = sf.Ready();
    vx::Ev(std::string("ready ") + (b ? "1" : "0"));
    if (b) {
      // the documented contract of Touch(): "Ready() must be true"
      const auto& r = sf.Touch();
      auto v = Show(r);
      vx::Ev("touch " + v);
      if (v != gWant && !gObs.set_started) {
        gObs.d3 = "Ready() == true before the value exists: Touch() const& then read " + v + " instead of " + gWant +
                  " (Set has not even started)";
      } else {
        CheckRead("Touch() const& after Ready()", v);
      }
    }
  } else if (op == "copy") {
    o.copies.push_back(SF{sf});
  } else if (op == "drop") {
    o.copies.pop_back();
  } else if (op == "connect") {
    auto n = o.NewCb();
    auto [f2, p2] = yaclib::MakeContract<Val>();
    std::move(f2).DetachInline([n](yaclib::Result<Val>&& r) {
      OnRun("forward", n, Show(r), true);
    });
    yaclib::Connect(sf, std::move(p2));
  } else if (op == "connect_sp") {
    auto n = o.NewCb();
    auto [sf2, sp2] = yaclib::MakeSharedContract<Val>();
    sf2.SubscribeInline([n](const yaclib::Result<Val>& r) {
      OnRun("forward", n, Show(r), true);
    });
    yaclib::Connect(sf, std::move(sp2));
  } else if (op == "retire" || op == "retire_own") {
    auto n = o.NewCb();
    auto* cb = new RetireCb{n, op == "retire_own"};
    auto& core = *sf.GetCore().Release();  // when.hpp: the combinator takes the future's reference
    o.copies.pop_back();
    if (!core.SetCallback(*cb)) {
      cb->Enter(core);
    }
  } else {
    Bad("harness: unknown operation " + op);
  }
}

// upstream producers that complete on the symmetric-transfer path (final_suspend -> SetResult<true> -> callback.Next)
yaclib::Future<Val> UniqueCoro(yaclib::Future<> gate) {
  co_await Await(gate);
  gObs.set_started = true;  // no scheduling point between here and the Store of co_return
  co_return Val{42};
}

yaclib::SharedFuture<Val> SharedCoro(yaclib::Future<> gate) {
  co_await Await(gate);
  gObs.set_started = true;
  co_return Val{42};
}

TraceExec gOnExec{"on"};

void RunScenario(const Scenario& sc) {
  gObs = Observed{};
  gCoreMoves = gCoreDtors = 0;
  gMovers.clear();
  gQueue.clear();
  gOwned.clear();
  gLate = sc.exec == "late";
  gObs.value_payload = sc.prod.size() > 3 && sc.prod.compare(sc.prod.size() - 3, 3, ":42") == 0;
  gWant = gObs.value_payload ? "val:42" : "err";
  // ---- build the shared state; what the fulfiller fiber has to do is one of: set/drop `sp`, set/drop `up`, open `gate`
  SF f;
  std::optional<yaclib::SharedPromise<Val>> sp;
  std::optional<yaclib::Promise<Val>> up;
  std::optional<yaclib::Promise<>> gate;
  bool coro_core = false;
  auto upstream = [&](bool coro, bool step) -> yaclib::Future<Val> {
    if (!coro) {
      auto [uf, p0] = yaclib::MakeContract<Val>();
      up.emplace(std::move(p0));
      return std::move(uf);
    }
    auto [gf, gp] = yaclib::MakeContract<>();
    gate.emplace(std::move(gp));
    auto cf = UniqueCoro(std::move(gf));
    if (!step) return cf;
    return std::move(cf).ThenInline([](Val v) {
      return v;
    });
  };
  if (sc.prod == "set:42" || sc.prod == "drop") {
    auto [f0, p0] = yaclib::MakeSharedContract<Val>();
    f = std::move(f0);
    sp.emplace(std::move(p0));
  } else if (sc.prod == "seton:42") {
    auto [f0, p0] = yaclib::MakeSharedContractOn<Val>(gOnExec);
    f = std::move(f0).On(nullptr);
    sp.emplace(std::move(p0));
  } else if (sc.prod == "split_set:42" || sc.prod == "split_drop") {
    f = yaclib::Split(upstream(false, false));
  } else if (sc.prod == "split_coro:42") {
    f = yaclib::Split(upstream(true, false));
  } else if (sc.prod == "split_coro_then:42") {
    f = yaclib::Split(upstream(true, true));
  } else if (sc.prod == "conn_set:42" || sc.prod == "conn_coro:42") {
    auto [f0, p0] = yaclib::MakeSharedContract<Val>();
    f = std::move(f0);
    yaclib::Connect(upstream(sc.prod == "conn_coro:42", false), std::move(p0));
  } else if (sc.prod == "scoro:42") {
    auto [gf, gp] = yaclib::MakeContract<>();
    gate.emplace(std::move(gp));
    f = SharedCoro(std::move(gf));
    coro_core = true;
  } else {
    Bad("harness: unknown producer " + sc.prod);
    return;
  }
  CoreT* core = f.GetCore().Get();
  // make reads of the not yet constructed storage deterministic (they are what D3 leads to)
  std::memset(static_cast<void*>(&core->_result), 0xEE, sizeof(core->_result));
  gCoreLo = reinterpret_cast<const char*>(&core->_result);
  gCoreHi = gCoreLo + sizeof(core->_result);
  std::vector<ObsCtx> obs(sc.progs.size());
  for (std::size_t i = 0; i < obs.size(); ++i) {
    obs[i].id = static_cast<int>(i);
    obs[i].copies.reserve(8);
    if (i + 1 < obs.size()) {
      obs[i].copies.push_back(SF{f});
    } else {
      obs[i].copies.push_back(std::move(f));
    }
  }
  auto& ctx = *vx::gCtx;
  ctx.NameObj(&Peek::Word(*core), "w");
  ctx.NameObj(coro_core ? &static_cast<CoroCounterT*>(core)->count : &static_cast<HelperT*>(core)->count, "cnt", true);
  ctx.NameValWord(0, "empty");
  ctx.NameValWord(~0ULL, "result");
  vx::Thread tp("p", [&] {
    if (gate) {
      std::move(*gate).Set();  // resumes the coroutine here; it sets `set_started` right before its co_return
      gate.reset();
      return;
    }
    // SharedPromise: no scheduling point between here and the Store inside Set.  Upstream Promise: the value reaches the
    // shared core's storage a little later (after the upstream word's exchange), which only makes the monitors lenient.
    gObs.set_started = true;
    if (sp) {
      if (gObs.value_payload) {
        std::move(*sp).Set(Val{42});
      }
      sp.reset();  // a still valid promise is dropped here
    } else {
      if (gObs.value_payload) {
        std::move(*up).Set(Val{42});
      }
      up.reset();
    }
  });
  std::vector<vx::Thread> ts;
  for (std::size_t i = 0; i < obs.size(); ++i) {
    ts.emplace_back("o" + std::to_string(i), [&, i] {
      for (auto& op : sc.progs[i]) RunOp(obs[i], op);
    });
  }
  tp.join();
  for (auto& t : ts) t.join();
  for (auto* job : gQueue) job->Call();  // executor drained late: the jobs outlive every SharedFuture
  gQueue.clear();
  for (auto& [cb, core] : gOwned) cb->Retire(*core);  // Owned combinators are destroyed last, on this (the root) fiber
  gOwned.clear();
  for (auto& o : obs) {
    if (!o.copies.empty()) Bad("harness: unbalanced program, a SharedFuture copy was left");
    o.copies.clear();
  }
  gCoreLo = gCoreHi = nullptr;
}

std::string Monitor(const Scenario&, bool done) {
  if (!done) return "";
  if (!gObs.bad.empty()) return gObs.bad[0];
  for (auto& [name, one] : gObs.attached) {
    auto it = gObs.ran.find(name);
    int n = it == gObs.ran.end() ? 0 : it->second;
    if (n != 1) return "callback " + name + " ran " + std::to_string(n) + " times";
  }
  for (auto& [name, n] : gObs.ran) {
    if (!gObs.attached.count(name)) return "callback " + name + " ran but was never attached";
  }
  if (gCoreMoves > 1) return "the value was moved out of the core " + std::to_string(gCoreMoves) + " times";
  if (!gMovers.empty()) return "a move out of the core was made outside Get()&& / Retire() / a Connect target (by " + gMovers[0] + ")";
  if (gObs.value_payload && gCoreDtors != 1) {
    return "the core's result was destroyed " + std::to_string(gCoreDtors) + " times (core freed exactly once?)";
  }
  if (!gObs.d3.empty() && ++gD3Seen <= 3) return gObs.d3;
  return "";
}

using Prog = std::vector<std::string>;

std::vector<Scenario> AllScenarios(std::uint64_t seed, bool big) {
  std::vector<Scenario> out;
  const std::vector<Prog> singles = {
    {"sub_inline", "drop"}, {"then_inline", "drop"}, {"sub_exec", "drop"}, {"then_exec", "drop"}, {"wait", "drop"},
    {"getc", "drop"},       {"get_move"},            {"ready", "drop"},    {"ready_touch", "drop"}, {"copy", "drop", "drop"},
    {"connect", "drop"},    {"connect_sp", "drop"},  {"retire"},           {"drop"},
    {"retire_own"},
  };
  const std::vector<Prog> doubles = {
    {"sub_inline", "get_move"},          {"copy", "get_move", "drop"},   {"ready_touch", "sub_inline", "drop"},
    {"connect", "get_move"},             {"copy", "retire", "get_move"}, {"sub_exec", "ready", "drop"},
    {"wait", "ready_touch", "drop"},     {"copy", "drop", "retire"},     {"then_exec", "connect", "drop"},
    {"getc", "get_move"},                {"copy", "retire_own", "get_move"}, {"copy", "drop", "retire_own"},
  };
  // every pair of single-operation observers
  auto core_op = [](const Prog& p) {
    static const std::set<std::string> core = {"sub_inline", "sub_exec", "wait", "get_move", "ready_touch", "connect", "retire"};
    return core.count(p[0]) != 0;
  };
  for (std::size_t i = 0; i < singles.size(); ++i)
    for (std::size_t j = i; j < singles.size(); ++j)
      out.push_back({"set:42", "now", {singles[i], singles[j]}, core_op(singles[i]) && core_op(singles[j]) ? 1 : 0});
  // a dropped promise and a late executor against everything
  for (auto& a : singles) {
    out.push_back({"drop", "now", {a, {"sub_inline", "drop"}}});
    out.push_back({"set:42", "late", {a, {"sub_exec", "drop"}}});
  }
  for (auto& a : doubles) {
    out.push_back({"set:42", "now", {a, {"sub_inline", "drop"}}});
    out.push_back({"set:42", "late", {a, {"then_exec", "drop"}}});
    out.push_back({"drop", "now", {a, {"connect", "drop"}}});
  }
  // three observers
  const std::vector<std::vector<Prog>> triples = {
    {{"sub_inline", "drop"}, {"ready_touch", "drop"}, {"get_move"}},
    {{"connect", "drop"}, {"sub_exec", "drop"}, {"getc", "drop"}},
    {{"retire"}, {"connect_sp", "drop"}, {"copy", "drop", "drop"}},
    {{"wait", "drop"}, {"then_inline", "drop"}, {"retire"}},
    {{"get_move"}, {"get_move"}, {"connect", "drop"}},
    {{"retire_own"}, {"retire"}, {"connect", "drop"}},
    {{"retire_own"}, {"then_exec", "drop"}, {"get_move"}},
  };
  for (auto& t : triples) out.push_back({"set:42", "now", t});
  // the other producer forms (shared core entered as a callback through Here / through Next, shared coroutine, contract-on),
  // each against a few subscriber sets with two or three subscribers pending at completion time
  const std::vector<std::string> forms = {"seton:42",      "split_set:42",       "split_drop",   "conn_set:42",
                                          "split_coro:42", "split_coro_then:42", "conn_coro:42", "scoro:42"};
  const std::vector<std::vector<Prog>> subscribers = {
    {{"sub_inline", "drop"}, {"then_exec", "drop"}, {"wait", "drop"}},
    {{"then_inline", "drop"}, {"get_move"}},
    {{"connect", "drop"}, {"sub_inline", "drop"}},
    {{"getc", "drop"}, {"retire"}},
    {{"retire_own"}, {"retire_own"}, {"sub_inline", "drop"}},
  };
  for (auto& form : forms)
    for (auto& subs : subscribers) out.push_back({form, "now", subs});
  // seed dependent extras
  vx::SplitMix rng{seed * 0x9e3779b97f4a7c15ULL + 99};
  std::vector<Prog> pool = singles;
  pool.insert(pool.end(), doubles.begin(), doubles.end());
  std::size_t extra = big ? 40 : 10;
  for (std::size_t k = 0; k < extra; ++k) {
    Scenario sc;
    sc.prod = rng.below(4) == 0 ? "drop" : rng.below(3) == 0 ? forms[rng.below(forms.size())] : "set:42";
    sc.exec = rng.below(3) == 0 ? "late" : "now";
    std::size_t n = 2 + rng.below(2);
    for (std::size_t i = 0; i < n; ++i) sc.progs.push_back(pool[rng.below(pool.size())]);
    out.push_back(sc);
  }
  return out;
}

}  // namespace

int main(int argc, char** argv) {
  auto opt = vx::ParseOptions(argc, argv);
  bool big = false;
  for (int i = 1; i < argc; ++i) big = big || std::string(argv[i]) == "--big";
  vx::Explorer ex(opt);
  std::set<std::string> seen;
  for (auto& sc : AllScenarios(opt.seed, big)) {
    if (!seen.insert(sc.Header()).second) continue;
    ex.ctx.preempt_bound = opt.preempt_bound + sc.pb_extra;
    ex.Run(sc.Header(), [&] { RunScenario(sc); }, [&](bool done) { return Monitor(sc, done); });
  }
  std::printf("D3-EXECUTIONS %llu\n", static_cast<unsigned long long>(gD3Seen));  // before the report: its parser ignores it
  ex.Report();
  return ex.stats.violations == 0 ? 0 : 1;
}
