// C19 correspondence harness: runs operation sequences on
//   std   : std::atomic<T> / std::atomic_flag
//   fiber : yaclib::detail::Atomic<yaclib::detail::fiber::Atomic<T>, T>   (= yaclib_std::atomic under YACLIB_FAULT=FIBER)
//   thread: yaclib::detail::Atomic<std::atomic<T>, T>                     (= yaclib_std::atomic under YACLIB_FAULT=THREAD)
// and prints one canonical line per input line (same format as `ymdriver atomic`).
// Built WITHOUT -DYACLIB_VERIF so that the wrapper sits directly on the fiber implementation, as users get it.
#include <atomic>
#include <cstdint>

#include <yaclib/fault/config.hpp>
#include <yaclib/fault/detail/atomic.hpp>
#include <yaclib/fault/detail/atomic_flag.hpp>
#include <yaclib/fault/detail/fiber/atomic.hpp>
#include <yaclib/fault/detail/fiber/atomic_flag.hpp>

#include <atomic>
#include <cstdint>
#include <cstdio>
#include <cstring>
#include <iostream>
#include <memory>
#include <sstream>
#include <string>
#include <type_traits>
#include <vector>

namespace {

int gImpl = 0;  // 0 std, 1 fiber, 2 thread
static int gArray[1 << 16];
static int* const gBase = gArray + (1 << 15);

template <typename T>
std::string Show(T v) {
  if constexpr (std::is_same_v<T, bool>) {
    return v ? "1" : "0";
  } else if constexpr (std::is_pointer_v<T>) {
    return std::to_string(static_cast<long long>(v - gBase));
  } else if constexpr (std::is_same_v<T, float>) {
    std::uint32_t b;
    std::memcpy(&b, &v, 4);
    return std::to_string(b);
  } else if constexpr (std::is_same_v<T, double>) {
    std::uint64_t b;
    std::memcpy(&b, &v, 8);
    return std::to_string(b);
  } else {
    using U = std::make_unsigned_t<T>;
    return std::to_string(static_cast<unsigned long long>(static_cast<U>(v)));
  }
}

template <typename T>
bool Parse(const std::string& s, T& out) {
  try {
    if constexpr (std::is_same_v<T, bool>) {
      if (s != "0" && s != "1") return false;
      out = s == "1";
    } else if constexpr (std::is_pointer_v<T>) {
      out = gBase + std::stoll(s);
    } else if constexpr (std::is_same_v<T, float>) {
      std::uint32_t b = static_cast<std::uint32_t>(std::stoull(s));
      std::memcpy(&out, &b, 4);
    } else if constexpr (std::is_same_v<T, double>) {
      std::uint64_t b = std::stoull(s);
      std::memcpy(&out, &b, 8);
    } else {
      using U = std::make_unsigned_t<T>;
      out = static_cast<T>(static_cast<U>(std::stoull(s)));
    }
    return true;
  } catch (...) {
    return false;
  }
}

struct IObj {
  virtual ~IObj() = default;
  virtual std::string Do(const std::vector<std::string>& t) = 0;
};

template <typename T, typename A0, bool Volatile = false>
struct Obj final : IObj {
  using A = std::conditional_t<Volatile, volatile A0, A0>;
  A0 storage;
  A& a;
  explicit Obj(T init) : storage{init}, a{storage} {}
  using D = std::conditional_t<std::is_pointer_v<T>, std::ptrdiff_t, T>;

  std::string Stored() { return Show<T>(a.load(std::memory_order_relaxed)); }
  std::string Val(T r) { return "val " + Show<T>(r) + " " + Stored(); }

  static bool ParseD(const std::string& s, D& d) {
    if constexpr (std::is_pointer_v<T>) {
      try {
        d = std::stoll(s);
        return true;
      } catch (...) {
        return false;
      }
    } else {
      return Parse<T>(s, d);
    }
  }

  std::string Do(const std::vector<std::string>& t) final {
    const std::string& op = t[0];
    T x{}, y{};
    if (op == "store" && t.size() == 2 && Parse<T>(t[1], x)) {
      a.store(x, std::memory_order_seq_cst);
      return "unit " + Stored();
    }
    if (op == "load" && t.size() == 1) return Val(a.load(std::memory_order_seq_cst));
    if (op == "exchange" && t.size() == 2 && Parse<T>(t[1], x)) return Val(a.exchange(x, std::memory_order_seq_cst));
    // compare_exchange forms: <name> = 4 orders (seq_cst, seq_cst); <name>3 = one-order form; <name>4r = (acq_rel, relaxed)
    if constexpr (Volatile) {
      // the fiber implementation's volatile compare_exchange overloads do not compile (non-volatile helper): not exercised
      if (op.rfind("cas_", 0) == 0) return "bad-op";
    }
    if ((op == "cas_strong" || op == "cas_strong3" || op == "cas_strong4r") && t.size() == 3 && Parse<T>(t[1], x) &&
        Parse<T>(t[2], y)) {
      bool ok;
      if constexpr (Volatile) {
        ok = false;
      } else if (op == "cas_strong") {
        ok = a.compare_exchange_strong(x, y, std::memory_order_seq_cst, std::memory_order_seq_cst);
      } else if (op == "cas_strong3") {
        ok = a.compare_exchange_strong(x, y, std::memory_order_seq_cst);
      } else {
        ok = a.compare_exchange_strong(x, y, std::memory_order_acq_rel, std::memory_order_relaxed);
      }
      return std::string("cas ") + (ok ? "1 " : "0 ") + Show<T>(x) + " " + Stored();
    }
    if ((op == "cas_weak" || op == "cas_weak3" || op == "cas_weak4r") && t.size() == 4 && Parse<T>(t[1], x) &&
        Parse<T>(t[2], y) && (t[3] == "0" || t[3] == "1")) {
      bool spurious = t[3] == "1";
      bool ok;
      if constexpr (Volatile) {
        ok = false;
      } else
      if (gImpl == 0) {
        // std::atomic on this platform never fails spuriously; the std *contract* for a spurious failure is
        // "false, expected := current value, object unchanged" -- produce exactly that as the reference.
        if (spurious) {
          x = a.load(std::memory_order_seq_cst);
          ok = false;
        } else {
          ok = a.compare_exchange_strong(x, y, std::memory_order_seq_cst, std::memory_order_seq_cst);
        }
      } else {
        yaclib::SetAtomicFailFrequency(spurious ? 1 : 0);  // 1: GetRandNumber(1) == 0 always; 0: never
        if (op == "cas_weak") {
          ok = a.compare_exchange_weak(x, y, std::memory_order_seq_cst, std::memory_order_seq_cst);
        } else if (op == "cas_weak3") {
          ok = a.compare_exchange_weak(x, y, std::memory_order_seq_cst);
        } else {
          ok = a.compare_exchange_weak(x, y, std::memory_order_acq_rel, std::memory_order_relaxed);
        }
        yaclib::SetAtomicFailFrequency(0);
      }
      return std::string("cas ") + (ok ? "1 " : "0 ") + Show<T>(x) + " " + Stored();
    }
    if constexpr (!std::is_same_v<T, bool>) {
      D d{};
      if (t.size() == 2 && ParseD(t[1], d)) {
        if (op == "fetch_add") return Val(a.fetch_add(d, std::memory_order_seq_cst));
        if (op == "fetch_sub") return Val(a.fetch_sub(d, std::memory_order_seq_cst));
        if (op == "add_assign") return Val(a += d);
        if (op == "sub_assign") return Val(a -= d);
        if constexpr (std::is_integral_v<T>) {
          if (op == "fetch_and") return Val(a.fetch_and(d, std::memory_order_seq_cst));
          if (op == "fetch_or") return Val(a.fetch_or(d, std::memory_order_seq_cst));
          if (op == "fetch_xor") return Val(a.fetch_xor(d, std::memory_order_seq_cst));
          if (op == "and_assign") return Val(a &= d);
          if (op == "or_assign") return Val(a |= d);
          if (op == "xor_assign") return Val(a ^= d);
        }
      }
      // (the wrapper's volatile ++/-- overloads do not compile either: `static_cast<Impl&>(*this)` on a volatile object)
      if constexpr (!std::is_floating_point_v<T> && !Volatile) {
        if (t.size() == 1) {
          if (op == "pre_inc") return Val(++a);
          if (op == "post_inc") return Val(a++);
          if (op == "pre_dec") return Val(--a);
          if (op == "post_dec") return Val(a--);
        }
      }
    }
    return "bad-op";
  }
};

template <typename A0, bool Volatile = false>
struct FlagObj final : IObj {
  using A = std::conditional_t<Volatile, volatile A0, A0>;
  A0 storage;
  A& a;
  bool shadow;
  explicit FlagObj(bool init) : a{storage}, shadow{init} {
    a.clear(std::memory_order_seq_cst);
    if (init) (void)a.test_and_set(std::memory_order_seq_cst);
  }
  std::string Do(const std::vector<std::string>& t) final {
    if (t[0] == "clear" && t.size() == 1) {
      a.clear(std::memory_order_seq_cst);
      shadow = false;
      return "unit";
    }
    if (t[0] == "test_and_set" && t.size() == 1) {
      bool r = a.test_and_set(std::memory_order_seq_cst);
      return std::string("val ") + (r ? "1" : "0");
    }
    return "bad-op";
  }
};

template <typename T, bool Volatile = false>
std::unique_ptr<IObj> Make(const std::string& init, std::string& shown) {
  T v{};
  if (!Parse<T>(init, v)) return nullptr;
  shown = Show<T>(v);
  switch (gImpl) {
    case 0: return std::make_unique<Obj<T, std::atomic<T>, Volatile>>(v);
    case 1: return std::make_unique<Obj<T, yaclib::detail::Atomic<yaclib::detail::fiber::Atomic<T>, T>, Volatile>>(v);
    default: return std::make_unique<Obj<T, yaclib::detail::Atomic<std::atomic<T>, T>, Volatile>>(v);
  }
}

std::unique_ptr<IObj> MakeAny(const std::string& ty, const std::string& init, std::string& shown) {
  // volatile-qualified objects (v-prefixed types) go through the volatile overloads
  if (ty == "vu8") return Make<std::uint8_t, true>(init, shown);
  if (ty == "vi32") return Make<std::int32_t, true>(init, shown);
  if (ty == "vu64") return Make<std::uint64_t, true>(init, shown);
  if (ty == "vbool") return Make<bool, true>(init, shown);
  if (ty == "vptr") return Make<int*, true>(init, shown);
  if (ty == "vf64") return Make<double, true>(init, shown);
  if (ty == "vflag") {
    bool b = init == "1";
    shown = b ? "1" : "0";
    switch (gImpl) {
      case 0: return std::make_unique<FlagObj<std::atomic_flag, true>>(b);
      case 1: return std::make_unique<FlagObj<yaclib::detail::AtomicFlag<yaclib::detail::fiber::AtomicFlag>, true>>(b);
      default: return std::make_unique<FlagObj<yaclib::detail::AtomicFlag<std::atomic_flag>, true>>(b);
    }
  }
  if (ty == "u8") return Make<std::uint8_t>(init, shown);
  if (ty == "i8") return Make<std::int8_t>(init, shown);
  if (ty == "u16") return Make<std::uint16_t>(init, shown);
  if (ty == "i16") return Make<std::int16_t>(init, shown);
  if (ty == "u32") return Make<std::uint32_t>(init, shown);
  if (ty == "i32") return Make<std::int32_t>(init, shown);
  if (ty == "u64") return Make<std::uint64_t>(init, shown);
  if (ty == "i64") return Make<std::int64_t>(init, shown);
  if (ty == "bool") return Make<bool>(init, shown);
  if (ty == "ptr") return Make<int*>(init, shown);
  if (ty == "f32") return Make<float>(init, shown);
  if (ty == "f64") return Make<double>(init, shown);
  if (ty == "flag") {
    bool b = init == "1";
    shown = b ? "1" : "0";
    switch (gImpl) {
      case 0: return std::make_unique<FlagObj<std::atomic_flag>>(b);
      case 1: return std::make_unique<FlagObj<yaclib::detail::AtomicFlag<yaclib::detail::fiber::AtomicFlag>>>(b);
      default: return std::make_unique<FlagObj<yaclib::detail::AtomicFlag<std::atomic_flag>>>(b);
    }
  }
  return nullptr;
}

}  // namespace

int main(int argc, char** argv) {
  std::string impl = argc > 1 ? argv[1] : "std";
  gImpl = impl == "std" ? 0 : impl == "fiber" ? 1 : 2;
  yaclib::SetFaultFrequency(1000000);  // no yields needed: single thread
  yaclib::SetAtomicFailFrequency(0);
  std::unique_ptr<IObj> obj;
  std::string line;
  while (std::getline(std::cin, line)) {
    std::istringstream is(line);
    std::vector<std::string> t;
    for (std::string w; is >> w;) t.push_back(w);
    if (t.empty()) {
      std::puts("bad-op");
      continue;
    }
    if (t[0] == "new" && t.size() == 3) {
      std::string shown;
      obj = MakeAny(t[1], t[2], shown);
      std::puts(obj ? ("new " + t[1] + " " + shown).c_str() : "bad-op");
      continue;
    }
    std::puts(obj ? obj->Do(t).c_str() : "bad-op");
  }
  return 0;
}
