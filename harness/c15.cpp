// C15 correspondence harness: the real yaclib::SharedMutex<FIFO, ReadersFIFO> (all four option combinations) used by
// k = 2..3 yaclib::Future<> coroutines, each doing 1..2 shared / exclusive / try rounds, all schedules under a
// preemption bound.  Emits canonical traces for `ymdriver validate cosharedmutex` and checks the property's monitors
// directly on the implementation.
//
// Executors: the instrumented `Exec` of the C14 harness (inline / one worker at a time / two workers), driven by
// harness fibers that are spawned on demand and exit when the queue is empty.
//
// Private members (`_state`, `_readers_wait`, `_lock`, `Spinlock::_state`) are reached through the explicit-
// instantiation loophole for private members (no layout assumption, no change to /repo).
//
// The spinlock.  `Spinlock::lock` busy-waits; under a cooperative scheduler with a preemption bound a spinning fiber
// would spin forever once the bound is used up.  The harness therefore wraps the trace hook: a fiber whose spin `load`
// saw the lock taken is suspended (Scheduler::Suspend) and made runnable again by the unlocking `store`.  Every trace
// produced this way is a trace of the real code (the spinner simply was not scheduled in between); the failed
// `exchange` and the spin loads are in the trace and are validated against the model.
//
// Extra forms.  `wrw` / `rdw` = Lock() / LockShared() whose section waits (suspended on a harness gate, not on the mutex)
// until every other coroutine has been through the spinlock-protected part of its lock call (= queued, or got a pass),
// reported a failed try, or finished: this forces "1 holder + a reader queued behind it + 2..3 writers queued behind the
// reader" (k = 4/5) in the first execution on the single-worker executor.  `dtryrd` / `dtrywr` = SharedGuard / UniqueGuard
// built with std::defer_lock + guard.TryLock(); `prd`/`pwr` + `rtryrd`/`rtrywr` = a guard that lives across rounds, unlocked
// with UnlockHere and re-locked with guard.TryLock(); monitor: TryLock() == OwnsLock().
#include <common/vx.hpp>

#include <yaclib/async/future.hpp>
#include <yaclib/coro/future.hpp>
#include <yaclib/coro/on.hpp>
#include <yaclib/coro/shared_mutex.hpp>
#include <yaclib/exe/executor.hpp>

#include <deque>
#include <map>
#include <set>
#include <sstream>

namespace {

// ---- private member access -----------------------------------------------------------------------------------------
template <typename Tag, typename Tag::type M>
struct Rob {
  friend typename Tag::type Get(Tag) { return M; }
};
#pragma GCC diagnostic push
#pragma GCC diagnostic ignored "-Wnon-template-friend"
template <bool F, bool RF>
struct StateTag {
  using type = yaclib_std::atomic_uint64_t yaclib::detail::SharedMutexImpl<F, RF>::*;
  friend type Get(StateTag);
};
template <bool F, bool RF>
struct WaitTag {
  using type = yaclib_std::atomic_uint32_t yaclib::detail::SharedMutexImpl<F, RF>::*;
  friend type Get(WaitTag);
};
template <bool F, bool RF>
struct LockTag {
  using type = yaclib::detail::Spinlock<std::uint32_t> yaclib::detail::SharedMutexImpl<F, RF>::*;
  friend type Get(LockTag);
};
struct SpinTag {
  using type = yaclib_std::atomic<std::uint32_t> yaclib::detail::Spinlock<std::uint32_t>::*;
  friend type Get(SpinTag);
};
#pragma GCC diagnostic pop
#define ROB(F, RF)                                                                                           \
  template struct Rob<StateTag<F, RF>, &yaclib::detail::SharedMutexImpl<F, RF>::_state>;                     \
  template struct Rob<WaitTag<F, RF>, &yaclib::detail::SharedMutexImpl<F, RF>::_readers_wait>;               \
  template struct Rob<LockTag<F, RF>, &yaclib::detail::SharedMutexImpl<F, RF>::_lock>;
ROB(false, false)
ROB(false, true)
ROB(true, false)
ROB(true, true)
template struct Rob<SpinTag, &yaclib::detail::Spinlock<std::uint32_t>::_state>;

// ---- spinlock handling -------------------------------------------------------------------------------------------------
const void* gSpinWord = nullptr;
bool gSpinHeld = false;
std::vector<yaclib::detail::fiber::FiberBase*> gSpinWaiters;

void GateArrive(const std::string& who);

void OnAtomicHook(void* c, const void* obj, int op, int so, int fo, unsigned long long a, unsigned long long e,
                  unsigned long long r, int ok) {
  static_cast<vx::Ctx*>(c)->OnAtomic(obj, op, so, fo, a, e, r, ok);
  if (obj != gSpinWord) return;
  using namespace yaclib::verif;
  if (op == kExchange) {
    if (r == 0) gSpinHeld = true;
  } else if (op == kStore) {
    gSpinHeld = false;
    GateArrive(static_cast<vx::Ctx*>(c)->Cur());  // the coroutine has been through a spinlock-protected block
    auto waiters = std::move(gSpinWaiters);
    gSpinWaiters.clear();
    for (auto* f : waiters) yaclib::fault::Scheduler::GetScheduler()->Schedule(f);
  } else if (op == kLoad && r != 0 && gSpinHeld) {
    gSpinWaiters.push_back(yaclib::fault::Scheduler::Current());
    yaclib::fault::Scheduler::Suspend();
  }
}

// ---- scenario ----------------------------------------------------------------------------------------------------------
struct Scenario {
  bool fifo, rfifo;
  std::string exec;                            // inline | pool1 | pool2
  std::vector<std::vector<std::string>> prog;  // rd grd wr gwr tryrd gtryrd trywr gtrywr wrw rdw dtryrd dtrywr prd pwr rtryrd rtrywr
  std::uint64_t cap = 0;                       // bound on the executions of this scenario (0 = the command line's)
  std::string Header() const {
    std::string p;
    for (std::size_t i = 0; i < prog.size(); ++i) {
      if (i) p += ";";
      for (std::size_t j = 0; j < prog[i].size(); ++j) {
        if (j) p += ",";
        p += prog[i][j];
      }
    }
    return std::string("cosharedmutex fifo=") + (fifo ? "1" : "0") + " rfifo=" + (rfifo ? "1" : "0") + " exec=" + exec +
           " k=" + std::to_string(prog.size()) + " prog=" + p;
  }
};

struct Shared {
  std::map<const yaclib::Job*, std::string> job_name;
  std::map<std::string, bool> started;
  // gate of the `wrw` / `rdw` forms
  int gate_need = 0;
  std::string gate_holder;
  std::set<std::string> gate_arrived;
  yaclib::Job* gate_waiting = nullptr;
  int readers_inside = 0, writers_inside = 0;
  int plain = 0, wsections = 0;
  int finished = 0;
  std::string violation;
  void Bad(const std::string& s) {
    if (violation.empty()) violation = s;
  }
};

Shared gShared;
Shared* gS = &gShared;
yaclib_std::atomic<int> gYieldPoint{0};  // not traced: only creates a preemption point inside the sections

struct Exec final : yaclib::IExecutor {
  int workers = 0;  // 0 = inline
  std::deque<yaclib::Job*> q;
  int active = 0;
  int spawned = 0;
  std::deque<vx::Thread> threads;

  Type Tag() const noexcept final { return Type::Custom; }
  bool Alive() const noexcept final { return true; }
  void Submit(yaclib::Job& job) noexcept final {
    auto& ctx = *vx::gCtx;
    auto it = gS->job_name.find(&job);
    std::string jn = it == gS->job_name.end() ? std::string("job?") : it->second;
    if (!gS->started[jn]) {
      gS->started[jn] = true;  // the initial `co_await On(exec)`: not an operation of the mutex
    } else {
      vx::Ev("submit " + jn);
    }
    if (workers == 0) {
      std::string saved = ctx.Cur();
      job.Call();
      ctx.NameSelf(saved);
    } else {
      Enqueue(job);
    }
  }
  void Enqueue(yaclib::Job& job) {
    q.push_back(&job);
    if (active < workers) {
      ++active;
      threads.emplace_back("w" + std::to_string(spawned++), [this] { Drain(); });
    }
  }
  void Drain() {
    while (!q.empty()) {
      auto* j = q.front();
      q.pop_front();
      j->Call();
    }
    --active;
  }
  void JoinAll() {
    for (std::size_t i = 0; i < threads.size(); ++i) threads[i].join();
  }
};

struct SelfAwaiter {
  yaclib::detail::BaseCore* core = nullptr;
  bool await_ready() const noexcept { return false; }
  template <typename P>
  bool await_suspend(yaclib_std::coroutine_handle<P> h) noexcept {
    core = &static_cast<yaclib::detail::BaseCore&>(h.promise());
    return false;
  }
  yaclib::detail::BaseCore* await_resume() const noexcept { return core; }
};

#define ME() vx::gCtx->NameSelf(me)

Exec* gExec = nullptr;

void GateArrive(const std::string& who) {
  if (gS->gate_need == 0 || who == gS->gate_holder || who.empty() || who[0] != 'c') return;
  gS->gate_arrived.insert(who);
  if (static_cast<int>(gS->gate_arrived.size()) >= gS->gate_need && gS->gate_waiting != nullptr) {
    auto* j = gS->gate_waiting;
    gS->gate_waiting = nullptr;
    gExec->Enqueue(*j);  // not a mutex operation: no event
  }
}

struct GateAwaiter {
  bool await_ready() const noexcept { return static_cast<int>(gS->gate_arrived.size()) >= gS->gate_need; }
  template <typename P>
  void await_suspend(yaclib_std::coroutine_handle<P> h) noexcept {
    gS->gate_waiting = static_cast<yaclib::Job*>(&static_cast<yaclib::detail::BaseCore&>(h.promise()));
  }
  void await_resume() const noexcept {}
};

void EnterR() {
  vx::Ev("cs_enter r");
  ++gS->readers_inside;
  if (gS->writers_inside != 0) gS->Bad("a shared holder overlaps with an exclusive holder");
  gYieldPoint.fetch_add(1, std::memory_order_relaxed);
  if (gS->writers_inside != 0) gS->Bad("a shared holder overlaps with an exclusive holder");
}
void ExitR() {
  --gS->readers_inside;
  vx::Ev("cs_exit r");
}
void EnterW() {
  vx::Ev("cs_enter w");
  if (++gS->writers_inside != 1 || gS->readers_inside != 0) gS->Bad("an exclusive holder overlaps with another holder");
  int v = gS->plain;
  gYieldPoint.fetch_add(1, std::memory_order_relaxed);
  if (gS->writers_inside != 1 || gS->readers_inside != 0) gS->Bad("an exclusive holder overlaps with another holder");
  gS->plain = v + 1;
}
void ExitW() {
  ++gS->wsections;
  --gS->writers_inside;
  vx::Ev("cs_exit w");
}

template <bool FIFO, bool RFIFO>
yaclib::Future<> Coro(const Scenario& sc, int id, yaclib::SharedMutex<FIFO, RFIFO>& m, Exec& ex) {
  using M = yaclib::SharedMutex<FIFO, RFIFO>;
  const std::string me = "c" + std::to_string(id);
  ME();
  auto* core = co_await SelfAwaiter{};
  vx::gCtx->NameVal(core, me);
  gS->job_name[static_cast<yaclib::Job*>(core)] = me;
  co_await yaclib::On(ex);
  ME();
  yaclib::SharedGuard<M> psg;  // guards of the `prd`/`pwr`/`rtry*` forms live across rounds
  yaclib::UniqueGuard<M> pug;
  for (const std::string& op : sc.prog[id]) {
    if (op == "wrw") {
      co_await m.Lock();
      ME();
      EnterW();
      co_await GateAwaiter{};  // still inside the exclusive section
      ME();
      ExitW();
      m.UnlockHere();
    } else if (op == "rdw") {
      co_await m.LockShared();
      ME();
      EnterR();
      co_await GateAwaiter{};  // still inside the shared section
      ME();
      ExitR();
      m.UnlockHereShared();
    } else if (op == "prd") {
      if (psg.Mutex() == nullptr) {
        psg = co_await m.GuardShared();
      } else {
        co_await psg.Lock();
      }
      ME();
      EnterR();
      ExitR();
      psg.UnlockHere();
    } else if (op == "pwr") {
      if (pug.Mutex() == nullptr) {
        pug = co_await m.Guard();
      } else {
        co_await pug.Lock();
      }
      ME();
      EnterW();
      ExitW();
      pug.UnlockHere();
    } else if (op == "dtryrd" || op == "rtryrd") {
      if (op == "dtryrd" || psg.Mutex() == nullptr) psg = yaclib::SharedGuard<M>{m, std::defer_lock};
      const bool ok = psg.TryLock();
      if (ok != psg.OwnsLock()) {
        gS->Bad(std::string("SharedGuard::TryLock() returned ") + (ok ? "true" : "false") + " but OwnsLock() is " +
                (psg.OwnsLock() ? "true" : "false"));
        if (!ok) std::ignore = psg.Release();  // keep the run sane: do not release a lock that was never taken
      }
      if (ok) {
        if (gS->writers_inside != 0) gS->Bad("SharedGuard::TryLock() succeeded while an exclusive holder is inside");
        EnterR();
        ExitR();
        if (op == "dtryrd") {
          yaclib::SharedGuard<M> dying = std::move(psg);
        } else {
          psg.UnlockHere();
        }
      } else {
        vx::Ev("try_fail");
        GateArrive(me);
      }
    } else if (op == "dtrywr" || op == "rtrywr") {
      if (op == "dtrywr" || pug.Mutex() == nullptr) pug = yaclib::UniqueGuard<M>{m, std::defer_lock};
      const bool ok = pug.TryLock();
      if (ok != pug.OwnsLock()) {
        gS->Bad(std::string("UniqueGuard::TryLock() returned ") + (ok ? "true" : "false") + " but OwnsLock() is " +
                (pug.OwnsLock() ? "true" : "false"));
        if (!ok) std::ignore = pug.Release();
      }
      if (ok) {
        if (gS->writers_inside != 0 || gS->readers_inside != 0) {
          gS->Bad("UniqueGuard::TryLock() succeeded while another holder is inside");
        }
        EnterW();
        ExitW();
        if (op == "dtrywr") {
          yaclib::UniqueGuard<M> dying = std::move(pug);
        } else {
          pug.UnlockHere();
        }
      } else {
        vx::Ev("try_fail");
        GateArrive(me);
      }
    } else if (op == "rd") {
      co_await m.LockShared();
      ME();
      EnterR();
      ExitR();
      m.UnlockHereShared();
    } else if (op == "grd") {
      auto g = co_await m.GuardShared();
      ME();
      EnterR();
      ExitR();
    } else if (op == "wr") {
      co_await m.Lock();
      ME();
      EnterW();
      ExitW();
      m.UnlockHere();
    } else if (op == "gwr") {
      auto g = co_await m.Guard();
      ME();
      EnterW();
      ExitW();
    } else if (op == "tryrd") {
      if (m.TryLockShared()) {
        if (gS->writers_inside != 0) gS->Bad("TryLockShared succeeded while an exclusive holder is inside");
        EnterR();
        ExitR();
        m.UnlockHereShared();
      } else {
        vx::Ev("try_fail");
        GateArrive(me);
      }
    } else if (op == "gtryrd") {
      yaclib::SharedGuard<M> g = m.TryGuardShared();
      if (g) {
        if (gS->writers_inside != 0) gS->Bad("TryGuardShared succeeded while an exclusive holder is inside");
        EnterR();
        ExitR();
        g.UnlockHere();
      } else {
        vx::Ev("try_fail");
        GateArrive(me);
      }
    } else if (op == "trywr") {
      if (m.TryLock()) {
        if (gS->writers_inside != 0 || gS->readers_inside != 0) gS->Bad("TryLock succeeded while another holder is inside");
        EnterW();
        ExitW();
        m.UnlockHere();
      } else {
        vx::Ev("try_fail");
        GateArrive(me);
      }
    } else if (op == "gtrywr") {
      yaclib::UniqueGuard<M> g = m.TryGuard();
      if (g) {
        if (gS->writers_inside != 0 || gS->readers_inside != 0) gS->Bad("TryGuard succeeded while another holder is inside");
        EnterW();
        ExitW();
      } else {
        vx::Ev("try_fail");
        GateArrive(me);
      }
    }
    ME();  // an unlock / a guard destructor may have resumed another coroutine in place (inline executor)
  }
  ME();
  vx::Ev("done");
  ++gS->finished;
  GateArrive(me);
  co_return{};
}

template <bool FIFO, bool RFIFO>
void RunScenarioT(const Scenario& sc) {
  gShared = Shared{};
  gSpinHeld = false;
  gSpinWaiters.clear();
  auto& ctx = *vx::gCtx;
  yaclib::verif::gHooks.on_atomic = &OnAtomicHook;
  for (std::size_t i = 0; i < sc.prog.size(); ++i)
    for (auto& op : sc.prog[i])
      if (op == "wrw" || op == "rdw") {
        gShared.gate_need = static_cast<int>(sc.prog.size()) - 1;
        gShared.gate_holder = "c" + std::to_string(i);
      }
  using M = yaclib::SharedMutex<FIFO, RFIFO>;
  M m;
  auto& base = M::template Cast<typename M::Base>(m);
  ctx.NameObj(&(base.*Get(StateTag<FIFO, RFIFO>{})), "st", true);
  ctx.NameObj(&(base.*Get(WaitTag<FIFO, RFIFO>{})), "rw", true);
  gSpinWord = &((base.*Get(LockTag<FIFO, RFIFO>{})).*Get(SpinTag{}));
  ctx.NameObj(gSpinWord, "sp", true);
  Exec ex;
  gExec = &ex;
  ex.workers = sc.exec == "inline" ? 0 : sc.exec == "pool1" ? 1 : 2;
  const int k = static_cast<int>(sc.prog.size());
  std::vector<yaclib::Future<>> futs(k);
  if (ex.workers == 0) {
    std::vector<vx::Thread> starters;
    for (int i = 0; i < k; ++i) {
      starters.emplace_back("t" + std::to_string(i), [&, i] { futs[i] = Coro(sc, i, m, ex); });
    }
    for (auto& t : starters) t.join();
  } else {
    for (int i = 0; i < k; ++i) {
      futs[i] = Coro(sc, i, m, ex);
      ctx.NameSelf("r");
    }
    ex.JoinAll();
  }
  ctx.NameSelf("r");
  gSpinWord = nullptr;
  gExec = nullptr;
}

void RunScenario(const Scenario& sc) {
  if (sc.fifo) {
    sc.rfifo ? RunScenarioT<true, true>(sc) : RunScenarioT<true, false>(sc);
  } else {
    sc.rfifo ? RunScenarioT<false, true>(sc) : RunScenarioT<false, false>(sc);
  }
}

std::vector<std::string> Split(const std::string& s, char sep = ' ') {
  std::vector<std::string> out;
  std::stringstream ss(s);
  std::string t;
  while (std::getline(ss, t, sep)) {
    if (!t.empty()) out.push_back(t);
  }
  return out;
}

std::string Monitor(const Scenario& sc, bool done) {
  if (!done) return "";
  if (!gS->violation.empty()) return gS->violation;
  const int k = static_cast<int>(sc.prog.size());
  if (gS->finished != k) {
    return "lost wake-up: " + std::to_string(k - gS->finished) + " coroutine(s) never finished although no fiber is runnable";
  }
  if (gS->plain != gS->wsections) return "lost update on the variable protected by the exclusive lock";
  int rounds = 0, tries = 0, entered = 0, failed = 0;
  for (auto& p : sc.prog)
    for (auto& op : p) {
      ++rounds;
      if (op.find("try") != std::string::npos) ++tries;
    }
  // holders according to the trace
  int rin = 0, win = 0;
  for (auto& l : vx::gCtx->trace) {
    auto t = Split(l);
    if (t.size() >= 4 && t[1] == "E" && t[2] == "cs_enter") {
      ++entered;
      if (t[3] == "w") {
        if (rin != 0 || win != 0) return "trace: exclusive section entered while another holder is inside";
        ++win;
      } else {
        if (win != 0) return "trace: shared section entered while an exclusive holder is inside";
        ++rin;
      }
    }
    if (t.size() >= 4 && t[1] == "E" && t[2] == "cs_exit") (t[3] == "w" ? win : rin)--;
    if (t.size() >= 3 && t[1] == "E" && t[2] == "try_fail") ++failed;
  }
  if (entered + failed != rounds) {
    return "a request was not granted exactly once: " + std::to_string(entered) + " sections + " + std::to_string(failed) +
           " failed tries for " + std::to_string(rounds) + " rounds";
  }
  if (failed > tries) return "a blocking lock form reported failure";
  return "";
}

std::vector<std::string> P(std::initializer_list<const char*> ops) { return {ops.begin(), ops.end()}; }

std::vector<Scenario> AllScenarios() {
  std::vector<std::vector<std::vector<std::string>>> progs = {
    {P({"rd"}), P({"wr"})},
    {P({"wr"}), P({"wr"})},
    {P({"grd", "gwr"}), P({"gwr", "grd"})},
    {P({"rd", "rd"}), P({"wr", "tryrd"})},
    {P({"trywr", "rd"}), P({"gtryrd", "wr"})},
    {P({"rd"}), P({"rd"}), P({"wr"})},
    {P({"wr"}), P({"wr"}), P({"rd"})},
    {P({"wr"}), P({"rd"}), P({"rd"})},
    {P({"gwr"}), P({"gwr"}), P({"gwr"})},
    {P({"rd", "wr"}), P({"wr"}), P({"grd"})},
    {P({"wr", "rd"}), P({"gtrywr", "rd"}), P({"wr"})},
    {P({"wr"}), P({"wr", "rd"}), P({"rd", "tryrd"})},
  };
  // guard-level TryLock on a deferred / unlocked guard (Guard::TryLock, not SharedMutex::TryLock*)
  std::vector<std::vector<std::vector<std::string>>> guard_progs = {
    {P({"wr"}), P({"dtryrd"})},
    {P({"rd"}), P({"dtrywr"})},
    {P({"gwr", "rd"}), P({"prd", "rtryrd"}), P({"pwr", "rtrywr"})},
  };
  // the same with the incompatible holder parked inside its section until the trier has reported
  std::vector<std::vector<std::vector<std::string>>> gated_guard_progs = {
    {P({"wrw"}), P({"dtryrd", "tryrd"})},
    {P({"rdw"}), P({"dtrywr", "tryrd"})},
  };
  // 1 holder + 1 reader queued behind it + 2..3 writers queued behind the reader
  std::vector<std::vector<std::vector<std::string>>> batch_progs = {
    {P({"wrw"}), P({"rd"}), P({"wr"}), P({"wr"})},
    {P({"wrw"}), P({"grd"}), P({"gwr"}), P({"wr"}), P({"wr"})},
  };
  std::vector<Scenario> out;
  for (int f = 0; f < 2; ++f)
    for (int rf = 0; rf < 2; ++rf)
      for (const char* e : {"pool2", "pool1", "inline"}) {
        for (auto& p : progs) out.push_back(Scenario{f != 0, rf != 0, e, p});
        for (auto& p : guard_progs) out.push_back(Scenario{f != 0, rf != 0, e, p});
        if (std::string(e) != "inline") {
          for (auto& p : gated_guard_progs) out.push_back(Scenario{f != 0, rf != 0, e, p, 1000});
          for (auto& p : batch_progs) out.push_back(Scenario{f != 0, rf != 0, e, p, 1000});
        }
      }
  return out;
}

}  // namespace

int main(int argc, char** argv) {
  auto opt = vx::ParseOptions(argc, argv);
  vx::Explorer ex(opt);
  const auto user_max = ex.opt.max_exec;
  for (auto& sc : AllScenarios()) {
    ex.opt.max_exec = sc.cap != 0 && sc.cap < user_max ? sc.cap : user_max;
    ex.Run(sc.Header(), [&] { RunScenario(sc); }, [&](bool done) { return Monitor(sc, done); });
  }
  ex.Report();
  return ex.stats.violations == 0 ? 0 : 1;
}
