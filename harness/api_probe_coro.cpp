// API instantiation sweep, area `coro`: coro/{future,task,shared_future,await,await_inline,await_sticky,await_on,on,yield,
// current_executor,coro}.hpp.  C++20 with coroutines only.  See api_probe.hpp for the conventions.
#include <yaclib/coro/await.hpp>
#include <yaclib/coro/await_inline.hpp>
#include <yaclib/coro/await_on.hpp>
#include <yaclib/coro/await_sticky.hpp>
#include <yaclib/coro/coro.hpp>
#include <yaclib/coro/current_executor.hpp>
#include <yaclib/coro/future.hpp>
#include <yaclib/coro/on.hpp>
#include <yaclib/coro/shared_future.hpp>
#include <yaclib/coro/task.hpp>
#include <yaclib/coro/yield.hpp>
// the headers above are the whole include list a user of the coroutine layer needs
#include <yaclib/exe/manual.hpp>

#include "api_probe.hpp"
#include "api_probe_cb.hpp"

#include <array>
#include <vector>

#ifndef API_PROBE_SMOKE_ONLY
namespace probe {
namespace {

using yaclib::Future;
using yaclib::FutureOn;
using yaclib::IExecutor;
using yaclib::Result;
using yaclib::SharedFuture;
using yaclib::SharedFutureOn;
using yaclib::StopError;
using yaclib::StopTag;
using yaclib::Task;

// ---- coroutine return objects: coro/future.hpp, coro/task.hpp, coro/shared_future.hpp ----------------------------------
// every way to finish a coroutine of handle kind K<V, E>
template <template <typename, typename> class K, typename V, typename E>
K<V, E> ReturnValue() {
  if constexpr (std::is_void_v<V>) {
    co_return{};
  } else {
    co_return Make<V>();
  }
}
template <template <typename, typename> class K, typename V, typename E>
K<V, E> ReturnUnit() {  // only meaningful for void
  co_return yaclib::Unit{};
}
template <template <typename, typename> class K, typename V, typename E>
K<V, E> ReturnStop() {
  co_return StopTag{};
}
template <template <typename, typename> class K, typename V, typename E>
K<V, E> ReturnError() {
  co_return E{StopTag{}};
}
template <template <typename, typename> class K, typename V, typename E>
K<V, E> ReturnException() {
  co_return std::make_exception_ptr(1);
}
template <template <typename, typename> class K, typename V, typename E>
K<V, E> ReturnResult() {
  co_return Build<Result<V, E>>::Do();
}
template <template <typename, typename> class K, typename V, typename E>
K<V, E> ReturnLvalue() {
  if constexpr (std::is_void_v<V>) {
    yaclib::Unit u;
    co_return u;
  } else if constexpr (std::is_copy_constructible_v<V>) {
    const V v = Make<V>();
    co_return v;
  } else {
    V v = Make<V>();
    co_return v;  // implicitly moved
  }
}
template <template <typename, typename> class K, typename V, typename E>
K<V, E> Throws(int x, std::string by_value, const MoveOnly& by_ref) {  // coroutine_traits<K, Args...>: any parameter list
  if (x == 0) {
    throw x;
  }
  Sink(by_value, by_ref);
  co_return ReturnValue<K, V, E>().Valid() ? StopTag{} : StopTag{};
}
struct Member {
  template <template <typename, typename> class K, typename V, typename E>
  K<V, E> Coro() {  // member coroutine: coroutine_traits<K, Member&>
    co_return StopTag{};
  }
  template <template <typename, typename> class K, typename V, typename E>
  K<V, E> ConstCoro() const {
    co_return StopTag{};
  }
};

template <template <typename, typename> class K, typename V, typename E>
void Returns() {
  Sink(ReturnValue<K, V, E>(), ReturnStop<K, V, E>(), ReturnError<K, V, E>(), ReturnException<K, V, E>(), ReturnResult<K, V, E>(),
       ReturnLvalue<K, V, E>(), Throws<K, V, E>(1, "s", MoveOnly{}));
  if constexpr (std::is_void_v<V>) {
    Sink(ReturnUnit<K, V, E>());
  }
  Member m;
  Sink(m.Coro<K, V, E>(), std::as_const(m).ConstCoro<K, V, E>());
  auto lambda = []() -> K<V, E> {
    co_return StopTag{};
  };
  Sink(lambda());
}
template <typename E>
void ReturnsAll() {
  Returns<Future, void, E>();
  Returns<Future, int, E>();
  Returns<Future, std::string, E>();
  Returns<Future, MoveOnly, E>();
  Returns<Future, Pinned, E>();
  Returns<Task, void, E>();
  Returns<Task, int, E>();
  Returns<Task, std::string, E>();
  Returns<Task, MoveOnly, E>();
  Returns<Task, Pinned, E>();
  Returns<SharedFuture, void, E>();
  Returns<SharedFuture, int, E>();
  Returns<SharedFuture, std::string, E>();
  Returns<SharedFuture, NoDefault, E>();
}
template void ReturnsAll<StopError>();
template void ReturnsAll<UserError>();

// ---- co_await of a single handle (operator co_await of coro/await.hpp): the result is the value, failures throw -------------
template <typename K, typename V, typename E>
K AwaitValue() {
  if constexpr (std::is_void_v<V>) {
    co_await Build<Future<V, E>>::Do();
    co_await Build<FutureOn<V, E>>::Do();
    co_await Build<Task<V, E>>::Do();
    co_await Build<SharedFuture<V, E>>::Do();
    co_await Build<SharedFutureOn<V, E>>::Do();
  } else {
    V a = co_await Build<Future<V, E>>::Do();
    V b = co_await Build<FutureOn<V, E>>::Do();
    V c = co_await Build<Task<V, E>>::Do();
    Sink(a, b, c);
    auto f = Build<Future<V, E>>::Do();
    V d = co_await std::move(f);  // xvalue
    yaclib::FutureBase<V, E>&& base = Build<Future<V, E>>::Do();
    V e = co_await std::move(base);
    Sink(d, e);
    if constexpr (kCopyable<V, E>) {
      V s1 = co_await Build<SharedFuture<V, E>>::Do();    // rvalue shared future
      V s2 = co_await Build<SharedFutureOn<V, E>>::Do();
      auto sf = Build<SharedFuture<V, E>>::Do();
      V s3 = co_await sf;                 // lvalue
      V s4 = co_await std::as_const(sf);  // const lvalue
      Sink(s1, s2, s3, s4);
    }
  }
  co_return StopTag{};
}
template <typename K>
void AwaitValues() {
  Sink(AwaitValue<K, void, StopError>(), AwaitValue<K, int, StopError>(), AwaitValue<K, std::string, UserError>(),
       AwaitValue<K, MoveOnly, StopError>(), AwaitValue<K, Pinned, UserError>(), AwaitValue<K, NoDefault, UserError>());
}
template void AwaitValues<Future<int>>();
template void AwaitValues<Task<int, UserError>>();
template void AwaitValues<SharedFuture<>>();

// ---- Await / AwaitInline / AwaitSticky / AwaitOn: variadic and iterator forms, unique / shared / mixed ------------------------
struct ByAwait {
  template <typename... A>
  static auto Do(IExecutor&, A&&... a) {
    return yaclib::Await(std::forward<A>(a)...);
  }
};
struct ByAwaitInline {
  template <typename... A>
  static auto Do(IExecutor&, A&&... a) {
    return yaclib::AwaitInline(std::forward<A>(a)...);
  }
};
struct ByAwaitSticky {
  template <typename... A>
  static auto Do(IExecutor&, A&&... a) {
    return yaclib::AwaitSticky(std::forward<A>(a)...);
  }
};
struct ByAwaitOn {
  template <typename... A>
  static auto Do(IExecutor& e, A&&... a) {
    return yaclib::AwaitOn(e, std::forward<A>(a)...);
  }
};

// K: the awaiting coroutine's handle kind (its promise type is what await_suspend is instantiated with)
template <typename K, typename By, typename V, typename E>
K AwaitForms(IExecutor& e) {
  Future<V, E> f1 = Build<Future<V, E>>::Do();
  Future<V, E> f2 = Build<Future<V, E>>::Do();
  FutureOn<V, E> fo = Build<FutureOn<V, E>>::Do();
  Future<std::string, E> other = Build<Future<std::string, E>>::Do();
  // variadic, unique
  co_await By::Do(e, f1);
  co_await By::Do(e, fo);
  co_await By::Do(e, f1, f2);
  co_await By::Do(e, f1, fo, other, f2);
  yaclib::FutureBase<V, E>& base = f1;
  co_await By::Do(e, base);
  co_await By::Do(e, base, f2);
  // iterators, unique
  std::vector<Future<V, E>> vec;
  vec.push_back(std::move(f1));
  vec.push_back(std::move(f2));
  co_await By::Do(e, vec.begin(), vec.end());
  co_await By::Do(e, vec.begin(), vec.size());
  co_await By::Do(e, vec.data(), vec.data() + vec.size());
  co_await By::Do(e, vec.data(), vec.size());
  std::array<FutureOn<V, E>, 1> arr{std::move(fo)};
  co_await By::Do(e, arr.begin(), arr.end());
  if constexpr (kCopyable<V, E>) {
    SharedFuture<V, E> s1 = Build<SharedFuture<V, E>>::Do();
    SharedFuture<V, E> s2 = s1;
    SharedFutureOn<V, E> so = Build<SharedFutureOn<V, E>>::Do();
    const SharedFuture<V, E>& cs = s1;
    // variadic, shared and mixed
    co_await By::Do(e, s1);
    co_await By::Do(e, cs);
    co_await By::Do(e, so);
    co_await By::Do(e, s1, s2);
    co_await By::Do(e, s1, so, cs);
    co_await By::Do(e, s1, other);
    co_await By::Do(e, other, cs, vec[0], so);
    const yaclib::SharedFutureBase<V, E>& sbase = s1;
    co_await By::Do(e, sbase);
    co_await By::Do(e, sbase, other);
    // iterators, shared
    std::vector<SharedFuture<V, E>> svec{s1, s2};
    co_await By::Do(e, svec.begin(), svec.end());
    co_await By::Do(e, svec.begin(), svec.size());
    co_await By::Do(e, svec.cbegin(), svec.cend());
    co_await By::Do(e, svec.data(), svec.size());
    std::array<SharedFutureOn<V, E>, 2> sarr{so, so};
    co_await By::Do(e, sarr.begin(), sarr.end());
  }
  co_return StopTag{};
}
template <typename K, typename By>
void AwaitFormsAllV(IExecutor& e) {
  Sink(AwaitForms<K, By, void, StopError>(e), AwaitForms<K, By, int, UserError>(e), AwaitForms<K, By, Pinned, StopError>(e),
       AwaitForms<K, By, NoDefault, UserError>(e));
}
template <typename K>
void AwaitFormsAll(IExecutor& e) {
  AwaitFormsAllV<K, ByAwait>(e);
  AwaitFormsAllV<K, ByAwaitInline>(e);
  AwaitFormsAllV<K, ByAwaitSticky>(e);
  AwaitFormsAllV<K, ByAwaitOn>(e);
}
template void AwaitFormsAll<Future<>>(IExecutor&);
template void AwaitFormsAll<Task<int>>(IExecutor&);
template void AwaitFormsAll<SharedFuture<int, UserError>>(IExecutor&);

// Await(task): a Task is awaited by lvalue and stays the owner of the result (Touch afterwards)
template <typename K, typename V, typename E>
K AwaitTask() {
  Task<V, E> task = Build<Task<V, E>>::Do();
  co_await yaclib::Await(task);
  Sink(std::as_const(task).Touch(), std::move(task).Touch());
  co_return StopTag{};
}
template <typename K>
void AwaitTasks() {
  Sink(AwaitTask<K, void, StopError>(), AwaitTask<K, int, UserError>(), AwaitTask<K, Pinned, StopError>());
}
template void AwaitTasks<Future<>>();
template void AwaitTasks<Task<>>();
template void AwaitTasks<SharedFuture<>>();

// ---- coro/on.hpp, coro/yield.hpp, coro/current_executor.hpp ----------------------------------------------------------------------
template <typename K>
K Scheduling(IExecutor& e) {
  co_await yaclib::On(e);
  co_await yaclib::kYield;
  IExecutor& yielded = co_await yaclib::Yield();
  IExecutor& current = co_await yaclib::CurrentExecutor();
  Sink(&yielded, &current);
  co_return StopTag{};
}
template Future<> Scheduling<Future<>>(IExecutor&);
template Task<int, UserError> Scheduling<Task<int, UserError>>(IExecutor&);
template SharedFuture<std::string> Scheduling<SharedFuture<std::string>>(IExecutor&);

// a const Future is not awaitable through Await* (is_waitable_v): documented constraint, SFINAE
template <typename F>
concept CanAwait = requires(F& f) { yaclib::Await(f); };
static_assert(CanAwait<Future<int>> && CanAwait<const SharedFuture<int>> && !CanAwait<const Future<int>>,
              "API_PROBE_DELETED: Await(const Future&) is SFINAE-d out");

}  // namespace
}  // namespace probe
#endif  // API_PROBE_SMOKE_ONLY

namespace {

yaclib::Future<int> SmokeInner(yaclib::IExecutor& e, int x) {
  co_await yaclib::On(e);
  co_return x + 1;
}
yaclib::Task<int> SmokeTask(int x) {
  co_return x * 2;
}
yaclib::SharedFuture<int> SmokeShared(yaclib::IExecutor& e) {
  co_await yaclib::On(e);
  co_return 5;
}
yaclib::Future<int> SmokeOuter(yaclib::IExecutor& e) {
  auto a = SmokeInner(e, 1);
  auto b = SmokeInner(e, 2);
  auto s = SmokeShared(e);
  co_await yaclib::Await(a, b, s);
  int sum = std::move(a).Touch().Ok() + std::move(b).Touch().Ok() + s.Touch().Ok();  // 2 + 3 + 5
  sum += co_await SmokeInner(e, 10);                                                // 11
  sum += co_await SmokeTask(4);                                                     // 8
  sum += co_await s;                                                                // 5
  auto t = SmokeTask(3);
  co_await yaclib::Await(t);
  sum += std::move(t).Touch().Ok();  // 6
  std::vector<yaclib::Future<int>> fs;
  fs.push_back(SmokeInner(e, 0));
  fs.push_back(SmokeInner(e, 0));
  co_await yaclib::AwaitOn(e, fs.begin(), fs.end());
  co_await yaclib::AwaitSticky(fs[0], fs[1]);
  sum += std::move(fs[0]).Touch().Ok() + std::move(fs[1]).Touch().Ok();  // 2
  auto& current = co_await yaclib::CurrentExecutor();
  co_await yaclib::kYield;
  co_return &current == &e ? sum : -1;
}

}  // namespace

int api_probe_coro(int argc) {
  (void)argc;
#ifndef API_PROBE_SMOKE_ONLY
  using namespace probe;
  if (argc > 1000) {
    ReturnsAll<yaclib::StopError>();
    AwaitValues<yaclib::Future<int>>();
    AwaitFormsAll<yaclib::Future<>>(yaclib::MakeInline());
    AwaitTasks<yaclib::Future<>>();
    Sink(Scheduling<yaclib::Future<>>(yaclib::MakeInline()));
  }
#endif
  yaclib::ManualExecutor manual;
  auto f = SmokeOuter(manual);
  while (manual.Drain() != 0) {
  }
  return (f.Ready() && std::move(f).Get().Ok() == 42) ? 0 : 1;
}

#ifndef API_PROBE_NO_MAIN
int main(int argc, char**) {
  return api_probe_coro(argc);
}
#endif
