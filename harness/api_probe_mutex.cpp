// API instantiation sweep, area `mutex`: coro/{mutex,shared_mutex,guard,guard_sticky}.hpp.  C++20 with coroutines only.
// See api_probe.hpp for the conventions.
#include <yaclib/coro/mutex.hpp>
#include <yaclib/coro/shared_mutex.hpp>
// the two headers above are the whole include list a user of the coroutine mutexes needs (guards come with them)
#include <yaclib/coro/future.hpp>
#include <yaclib/coro/on.hpp>
#include <yaclib/coro/shared_future.hpp>
#include <yaclib/coro/task.hpp>
#include <yaclib/exe/inline.hpp>
#include <yaclib/exe/manual.hpp>

#include "api_probe.hpp"

#include <mutex>

#ifndef API_PROBE_SMOKE_ONLY
namespace probe {
namespace {

using yaclib::Future;
using yaclib::IExecutor;
using yaclib::SharedFuture;
using yaclib::StopTag;
using yaclib::Task;

// ---- guards: everything that is not an awaitable -------------------------------------------------------------------------
template <typename G, typename M>
void GuardPlainMembers(M& m) {
  static_assert(std::is_same_v<typename G::MutexType, M>);
  G def;                        // Guard()
  G deferred{m, std::defer_lock};
  G tried{m, std::try_to_lock};
  if (tried) {
    tried.UnlockHere();
  }
  G moved{std::move(deferred)};
  def = std::move(moved);
  def.Swap(tried);
  Sink(def.OwnsLock(), static_cast<bool>(def), def.Mutex());
  if (def.TryLock()) {
    def.UnlockHere();
  }
  M* released = def.Release();
  Sink(released);
  if (m.TryLock()) {
    G adopted{m, std::adopt_lock};
    Sink(adopted.OwnsLock());
  }
}

// ---- coro/mutex.hpp -------------------------------------------------------------------------------------------------------
// K: handle kind of the coroutine that uses the mutex (await_suspend is instantiated with its promise type)
template <typename K, bool Batching, bool FIFO>
K MutexForms(IExecutor& e) {
  using M = yaclib::Mutex<Batching, FIFO>;
  M m;
  // the mutex itself
  co_await m.Lock();
  co_await m.Unlock();
  co_await m.Lock();
  co_await m.UnlockOn(e);
  co_await m.Lock();
  m.UnlockHere();
  if (m.TryLock()) {
    m.UnlockHere();
  }
  // UniqueGuard
  {
    yaclib::UniqueGuard<M> g = co_await m.Guard();
    co_await g.Unlock();
    co_await g.Lock();
    co_await g.UnlockOn(e);
    co_await g.Lock();
    g.UnlockHere();
    yaclib::UniqueGuard<M> t = m.TryGuard();
    Sink(t.OwnsLock());
  }
  GuardPlainMembers<yaclib::UniqueGuard<M>>(m);
  // StickyGuard
  {
    yaclib::StickyGuard<M> g = co_await m.GuardSticky();
    co_await g.Unlock();
    co_await g.Lock();
    co_await g.UnlockOn(e);  // inherited from the plain guard
    co_await g.Lock();
    g.UnlockHere();
    yaclib::StickyGuard<M> moved{std::move(g)};
    g = std::move(moved);
    g.Swap(moved);
    yaclib::StickyGuard<M> deferred{m, std::defer_lock};
    co_await deferred.Lock();
    co_await deferred.Unlock();
  }
  GuardPlainMembers<yaclib::StickyGuard<M>>(m);
  co_return StopTag{};
}
template <typename K>
void MutexFormsAll(IExecutor& e) {
  Sink(MutexForms<K, true, false>(e), MutexForms<K, true, true>(e), MutexForms<K, false, false>(e), MutexForms<K, false, true>(e));
}
template void MutexFormsAll<Future<>>(IExecutor&);
template void MutexFormsAll<Task<int>>(IExecutor&);
template void MutexFormsAll<SharedFuture<int>>(IExecutor&);

Future<> MutexDefault() {
  yaclib::Mutex<> m;  // defaults: Batching = true, FIFO = false
  static_assert(std::is_same_v<yaclib::Mutex<>, yaclib::Mutex<true, false>>);
  auto g = co_await m.Guard();
  co_return{};
}

// ---- coro/shared_mutex.hpp ---------------------------------------------------------------------------------------------------
template <typename K, bool FIFO, bool ReadersFIFO>
K SharedMutexForms(IExecutor& e) {
  using M = yaclib::SharedMutex<FIFO, ReadersFIFO>;
  M m;
  co_await m.Lock();
  m.UnlockHere();
  co_await m.LockShared();
  m.UnlockHereShared();
  if (m.TryLock()) {
    m.UnlockHere();
  }
  if (m.TryLockShared()) {
    m.UnlockHereShared();
  }
  {
    yaclib::UniqueGuard<M> g = co_await m.Guard();
    g.UnlockHere();
    co_await g.Lock();
    yaclib::UniqueGuard<M> t = m.TryGuard();
    Sink(t.OwnsLock());
#ifdef API_PROBE_KNOWN_6
    // KNOWN_6 (a): SharedMutex has no Unlock() / UnlockOn(e) (and no UnlockShared() / UnlockOnShared(e)), but the guards it hands
    // out (UniqueGuard<SharedMutex> from Guard() / TryGuard(), SharedGuard<SharedMutex> from GuardShared() / TryGuardShared())
    // forward Guard::Unlock() / UnlockOn(e) to exactly these members: "'class yaclib::SharedMutex<>' has no member named 'Unlock'".
    // Only UnlockHere() (and the destructor) can release such a guard.  notes/api_probe.md #6.
    co_await g.Unlock();
    co_await g.Lock();
    co_await g.UnlockOn(e);
#endif
  }
  GuardPlainMembers<yaclib::UniqueGuard<M>>(m);
  {
    yaclib::SharedGuard<M> g = co_await m.GuardShared();
    g.UnlockHere();
    co_await g.Lock();
    yaclib::SharedGuard<M> t = m.TryGuardShared();
    Sink(t.OwnsLock());
#ifdef API_PROBE_KNOWN_6
    co_await g.Unlock();
    co_await g.Lock();
    co_await g.UnlockOn(e);
#endif
    // the non-awaitable members of a shared guard
    static_assert(std::is_same_v<typename yaclib::SharedGuard<M>::MutexType, M>);
    yaclib::SharedGuard<M> def;
    yaclib::SharedGuard<M> deferred{m, std::defer_lock};
    yaclib::SharedGuard<M> tried{m, std::try_to_lock};
    yaclib::SharedGuard<M> moved{std::move(deferred)};
    def = std::move(moved);
    def.Swap(tried);
    Sink(def.OwnsLock(), static_cast<bool>(def), def.Mutex(), def.TryLock(), def.Release());
    if (m.TryLockShared()) {
      yaclib::SharedGuard<M> adopted{m, std::adopt_lock};
      Sink(adopted.OwnsLock());
    }
  }
  Sink(&e);
  co_return StopTag{};
}
template <typename K>
void SharedMutexFormsAll(IExecutor& e) {
  Sink(SharedMutexForms<K, true, false>(e), SharedMutexForms<K, true, true>(e), SharedMutexForms<K, false, false>(e),
       SharedMutexForms<K, false, true>(e));
}
template void SharedMutexFormsAll<Future<>>(IExecutor&);
template void SharedMutexFormsAll<Task<int>>(IExecutor&);
template void SharedMutexFormsAll<SharedFuture<int>>(IExecutor&);

Future<> SharedMutexDefault() {
  yaclib::SharedMutex<> m;  // defaults: FIFO = true, ReadersFIFO = false
  static_assert(std::is_same_v<yaclib::SharedMutex<>, yaclib::SharedMutex<true, false>>);
  auto g = co_await m.GuardShared();
  co_return{};
}

}  // namespace
}  // namespace probe
#endif  // API_PROBE_SMOKE_ONLY

namespace {

template <typename M>
yaclib::Future<> SmokeWriter(yaclib::IExecutor& e, M& m, int& shared, int add) {
  co_await yaclib::On(e);
  auto guard = co_await m.Guard();
  int seen = shared;
  co_await yaclib::On(e);  // suspend inside the critical section
  shared = seen + add;
  co_return{};
}
yaclib::Future<> SmokeReader(yaclib::IExecutor& e, yaclib::SharedMutex<>& m, const int& shared, int& out) {
  co_await yaclib::On(e);
  auto guard = co_await m.GuardShared();
  out = shared;
  co_return{};
}
yaclib::Future<> SmokeSticky(yaclib::IExecutor& e, yaclib::Mutex<>& m, int& shared) {
  co_await yaclib::On(e);
  auto guard = co_await m.GuardSticky();
  ++shared;
  co_await guard.Unlock();
  co_return{};
}

}  // namespace

int api_probe_mutex(int argc) {
  (void)argc;
#ifndef API_PROBE_SMOKE_ONLY
  using namespace probe;
  if (argc > 1000) {
    MutexFormsAll<yaclib::Future<>>(yaclib::MakeInline());
    SharedMutexFormsAll<yaclib::Future<>>(yaclib::MakeInline());
    Sink(MutexDefault(), SharedMutexDefault());
  }
#endif
  yaclib::ManualExecutor manual;
  yaclib::Mutex<> m;
  yaclib::SharedMutex<> sm;
  int a = 0;
  int b = 0;
  int read = -1;
  auto f1 = SmokeWriter(manual, m, a, 1);
  auto f2 = SmokeWriter(manual, m, a, 2);
  auto f3 = SmokeSticky(manual, m, a);
  auto f4 = SmokeWriter(manual, sm, b, 5);
  auto f5 = SmokeReader(manual, sm, b, read);
  auto f6 = SmokeWriter(manual, sm, b, 6);
  while (manual.Drain() != 0) {
  }
  bool done = f1.Ready() && f2.Ready() && f3.Ready() && f4.Ready() && f5.Ready() && f6.Ready();
  return (done && a == 4 && b == 11 && (read == 0 || read == 5 || read == 6 || read == 11)) ? 0 : 1;
}

#ifndef API_PROBE_NO_MAIN
int main(int argc, char**) {
  return api_probe_mutex(argc);
}
#endif
