// API instantiation sweep, area `then2`: the continuation API of the unique handles (async/future.hpp Future / FutureOn:
// ThenInline, Then(e, f), Then(f), DetachInline, Detach(e, f), Detach(f)) over the matrix
//   value type x error type x signature class of the callback argument x return class x kind of callable.
// This TU: every method x the star of signature / return classes, over value types x error types (api_probe_then.cpp has the
// full signature x return cross for void / int).  The shared handles are in api_probe_shared.cpp, Task in api_probe_lazy.cpp.  C++17-clean.
#include <yaclib/async/future.hpp>
#include <yaclib/async/make.hpp>
#include <yaclib/exe/inline.hpp>
#include <yaclib/exe/manual.hpp>

#include "api_probe.hpp"
#include "api_probe_cb.hpp"

#ifndef API_PROBE_SMOKE_ONLY
namespace probe {
namespace {

using yaclib::Future;
using yaclib::FutureOn;
using yaclib::IExecutor;
using yaclib::Result;
using yaclib::StopError;

template <typename V, typename E, typename U>
void ContinuationsStar() {
  Star<ThenInline, Future<V, E>, V, E, U>();
  Star<ThenExec, Future<V, E>, V, E, U>();
  Star<ThenInline, FutureOn<V, E>, V, E, U>();
  Star<ThenExec, FutureOn<V, E>, V, E, U>();
  Star<ThenOn, FutureOn<V, E>, V, E, U>();
  Detaches<DetachInline, Future<V, E>, V, E>();
  Detaches<DetachExec, Future<V, E>, V, E>();
  Detaches<DetachInline, FutureOn<V, E>, V, E>();
  Detaches<DetachExec, FutureOn<V, E>, V, E>();
  Detaches<DetachOn, FutureOn<V, E>, V, E>();
}

// one method per core shape for the remaining (V, E, U) combinations
template <typename V, typename E, typename U>
void ContinuationsLite() {
  Star<ThenInline, Future<V, E>, V, E, U>();
  Star<ThenOn, FutureOn<V, E>, V, E, U>();
  Detaches<DetachExec, Future<V, E>, V, E>();
}

template void ContinuationsStar<void, StopError, int>();
template void ContinuationsStar<std::string, StopError, std::string>();
template void ContinuationsStar<Pinned, UserError, MoveOnly>();
template void ContinuationsLite<void, StopError, void>();
template void ContinuationsLite<int, StopError, void>();
template void ContinuationsLite<MoveOnly, UserError, void>();
template void ContinuationsLite<int, StopError, std::string>();
template void ContinuationsLite<MoveOnly, StopError, MoveOnly>();
template void ContinuationsLite<Pinned, StopError, Pinned>();
template void ContinuationsLite<void, UserError, void>();
template void ContinuationsLite<int, UserError, std::string>();
template void ContinuationsLite<std::string, UserError, Pinned>();

}  // namespace
}  // namespace probe
#endif  // API_PROBE_SMOKE_ONLY

int api_probe_then2(int argc) {
#ifndef API_PROBE_SMOKE_ONLY
  if (argc > 1000) {
    probe::ContinuationsStar<probe::Pinned, probe::UserError, probe::MoveOnly>();
    probe::ContinuationsLite<int, probe::UserError, std::string>();
  }
#endif
  // smoke: a move-only, not default-constructible value through executor / inline / final continuations
  (void)argc;
  yaclib::ManualExecutor manual;
  int seen = 0;
  yaclib::MakeFuture<probe::Pinned, probe::UserError>(20)
    .Then(manual,
          [](probe::Pinned&& p) {
            return probe::MoveOnly{p.x + 1};
          })
    .ThenInline([](yaclib::Result<probe::MoveOnly, probe::UserError>&& r) {
      return probe::Pinned{std::move(r).Ok().x * 2};
    })
    .Detach([&](const probe::Pinned& p) {
      seen = p.x;
    });
  while (manual.Drain() != 0) {
  }
  return seen == 42 ? 0 : 1;
}

#ifndef API_PROBE_NO_MAIN
int main(int argc, char**) {
  return api_probe_then2(argc);
}
#endif
