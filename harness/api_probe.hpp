// Shared vocabulary of the API instantiation sweep (harness/api_probe_<area>.cpp, vlib/apiprobe.py, notes/api_probe.md).
//
// The probes do not test behaviour: they ODR-use every public function / member template of the library with a
// representative matrix of arguments so that a public API that cannot be instantiated (AwaitSticky(fs...) before /repo
// 268e868, MakeSharedContractOn before /repo 9e60e6b) is a compile error of the probe.  Each area TU has a tiny runtime
// smoke test (inline / manual executor only) and is linked against libyaclib.a at -O0, so a declared-but-undefined
// symbol (`extern template`, out-of-line members) is a link error of the probe.
//
// Conventions
//   * every use sits in a function template that is explicitly instantiated, or in a function that is only *called*
//     behind `if (argc > 1000)`: nothing has to run, everything has to compile and link;
//   * constructs that do NOT compile on the tree the probe was written against are kept under
//     `#ifdef API_PROBE_KNOWN_<n>` with a comment (classification + reference to notes/api_probe.md);
//     vlib/apiprobe.py compiles each of them separately to notice when one starts to compile (fixed) ;
//   * `requires` / SFINAE probes (API_PROBE_DELETED) are used ONLY to document an overload the library deletes on purpose.
#pragma once

#include <yaclib/util/result.hpp>

#include <exception>
#include <string>
#include <system_error>
#include <type_traits>
#include <utility>

namespace probe {

// ---- value types ---------------------------------------------------------------------------------------------------
struct MoveOnly {
  MoveOnly() = default;
  explicit MoveOnly(int v) : x{v} {
  }
  MoveOnly(MoveOnly&&) noexcept = default;
  MoveOnly& operator=(MoveOnly&&) noexcept = default;
  MoveOnly(const MoveOnly&) = delete;
  MoveOnly& operator=(const MoveOnly&) = delete;
  int x = 0;
};

// neither default-constructible nor copyable (movable)
struct Pinned {
  explicit Pinned(int v) : x{v} {
  }
  Pinned(Pinned&&) noexcept = default;
  Pinned& operator=(Pinned&&) noexcept = default;
  Pinned(const Pinned&) = delete;
  Pinned& operator=(const Pinned&) = delete;
  int x;
};

// copyable but not default-constructible (the shared forms require a copyable Result)
struct NoDefault {
  explicit NoDefault(int v) : x{v} {
  }
  int x;
};

// neither movable nor copyable: only the in-place subset of the API applies (MakeContract/Set(args...)/Get() const&)
struct Immovable {
  explicit Immovable(int v) : x{v} {
  }
  Immovable(Immovable&&) = delete;
  Immovable& operator=(Immovable&&) = delete;
  int x;
};

// ---- error types ---------------------------------------------------------------------------------------------------
// a user error type in the style of the library's own test suite (test/util/error_code.hpp): constructible from StopTag,
// What() for ResultError<E>::what()
struct UserError : std::error_code {
  using std::error_code::error_code;
  UserError(yaclib::StopTag) : std::error_code{std::make_error_code(std::errc::operation_canceled)} {
  }
  UserError(UserError&&) noexcept = default;
  UserError(const UserError&) noexcept = default;
  UserError& operator=(UserError&&) noexcept = default;
  UserError& operator=(const UserError&) noexcept = default;
  const char* What() const noexcept {
    return "probe::UserError";
  }
};

// ---- making values -------------------------------------------------------------------------------------------------
template <typename V>
V Make() {
  if constexpr (std::is_same_v<V, int>) {
    return 1;
  } else if constexpr (std::is_same_v<V, std::string>) {
    return "s";
  } else if constexpr (std::is_same_v<V, double>) {
    return 1.5;
  } else if constexpr (std::is_same_v<V, MoveOnly>) {
    return MoveOnly{1};
  } else if constexpr (std::is_same_v<V, Pinned>) {
    return Pinned{1};
  } else if constexpr (std::is_same_v<V, NoDefault>) {
    return NoDefault{1};
  } else {
    static_assert(std::is_void_v<V>);
  }
}

template <typename... T>
void Sink(T&&...) {
}

template <typename... Ts>
struct List {};

// calls f.template operator()<T>() for every T of the list (C++17: f is a generic functor object with `template <class T> void Do()`)
template <typename F, typename... Ts>
void ForEach(F f, List<Ts...>) {
  (f.template Do<Ts>(), ...);
}

}  // namespace probe
