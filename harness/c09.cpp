// C09 / C10 correspondence harness (c10.cpp is a symlink to this file; the family compiled in is chosen from the file
// name, `--family all|any` restricts at run time): the real WhenAll / Join / WhenAny over n = 0..3 contract futures,
// one producer fiber per input racing with the registration loop, every success / failure pattern, each FailPolicy,
// static (variadic) and dynamic (iterator) forms, unique / shared / mixed inputs.  Emits canonical traces for
// `ymdriver validate when` and checks the properties' monitors directly on the implementation.
//
// Traced: the hand-off word of every input (`w<i>`), the combinator's reference count (`cnt`) and the strategy's atomic
// (`st`) — both live inside the combinator object that the library allocates; they are named lazily: the second
// allocation made by the registering fiber inside the When call is the combinator, an atomic inside it that is first
// touched by `fetch_sub(1, release)` is the counter, any other one the strategy word —, the output core's word (`out`,
// first allocation inside the When call), the release (operator delete) of every unique input core (`release i`).
#include <common/vx.hpp>

#include <yaclib/async/contract.hpp>
#include <yaclib/async/future.hpp>
#include <yaclib/async/join.hpp>
#include <yaclib/async/promise.hpp>
#include <yaclib/async/shared_contract.hpp>
#include <yaclib/async/shared_future.hpp>
#include <yaclib/async/shared_promise.hpp>
#include <yaclib/async/when_all.hpp>
#include <yaclib/async/when_any.hpp>

#include <cxxabi.h>
#include <signal.h>
#include <sys/wait.h>
#include <unistd.h>

#include <array>
#include <exception>
#include <functional>
#include <new>
#include <optional>
#include <stdexcept>
#include <tuple>
#include <variant>

namespace {

constexpr bool EndsWith(const char* s, const char* suf) {
  std::size_t n = 0, m = 0;
  while (s[n]) ++n;
  while (suf[m]) ++m;
  if (m > n) return false;
  for (std::size_t i = 0; i < m; ++i)
    if (s[n - m + i] != suf[i]) return false;
  return true;
}
constexpr bool kBuildAll = !EndsWith(__FILE__, "c10.cpp");
constexpr bool kBuildAny = !EndsWith(__FILE__, "c09.cpp");

// ------------------------------------------------------------------------------------------------ allocation tracking
struct Alloc {
  const char* p;
  std::size_t n;
};
bool gInWhen = false;              // the registering fiber is inside the When call
unsigned long long gRegFiber = 0;  // its id
Alloc gWhenAllocs[64];
int gWhenAllocN = 0;

struct TrackedCore {
  const void* p = nullptr;
  bool shared = false;
  int freed = 0;
  const void* word = nullptr;
};
const void* gNamed[8];  // lazily named atomics inside the When allocations
int gNamedN = 0;
TrackedCore gCores[4];
int gCoreN = 0;
bool gRunning = false;

void NoteDelete(void* p) {
  if (!gRunning || p == nullptr) return;
  for (int i = 0; i < gCoreN; ++i) {
    if (gCores[i].p == p) {
      gCores[i].p = nullptr;  // the address may be reused
      ++gCores[i].freed;
      if (vx::gCtx != nullptr) {
        vx::gCtx->ForgetObj(gCores[i].word);
        if (!gCores[i].shared) vx::Ev("release " + std::to_string(i));
      }
    }
  }
  for (int k = 0; k < gWhenAllocN; ++k) {
    if (gWhenAllocs[k].p == p && gWhenAllocs[k].n != 0) {
      for (int j = 0; j < gNamedN; ++j) {
        auto* q = static_cast<const char*>(gNamed[j]);
        if (q >= gWhenAllocs[k].p && q < gWhenAllocs[k].p + gWhenAllocs[k].n && vx::gCtx != nullptr) vx::gCtx->ForgetObj(q);
      }
      gWhenAllocs[k].n = 0;  // freed: the range may be reused by anything
    }
  }
}

}  // namespace

void* operator new(std::size_t n) {
  void* p = std::malloc(n ? n : 1);
  if (p == nullptr) throw std::bad_alloc{};
  if (gInWhen && gWhenAllocN < 64 && yaclib::fault::Scheduler::GetId() == gRegFiber) {
    gWhenAllocs[gWhenAllocN++] = {static_cast<const char*>(p), n};
  }
  return p;
}
void operator delete(void* p) noexcept {
  NoteDelete(p);
  std::free(p);
}
void operator delete(void* p, std::size_t) noexcept {
  NoteDelete(p);
  std::free(p);
}

namespace {

// ------------------------------------------------------------------------------------------------ instrumented payloads
struct VErr {
  int code;
  VErr(yaclib::StopTag) noexcept : code{-1} {}  // what a broken promise produces
  explicit VErr(int c) noexcept : code{c} {}
  static const char* What() noexcept { return "VErr"; }
};

int gLive = 0;        // live (not moved-from) payload objects
int gBadDestroy = 0;  // destructor ran twice on one object

template <int Tag>
struct Val {
  int id = -1;
  int state = 0;  // 0 default constructed (no payload), 1 live, 2 moved-from, 3 destroyed
  Val() = default;
  explicit Val(int i) : id{i}, state{1} { ++gLive; }
  Val(const Val& o) : id{o.id}, state{o.state == 1 ? 1 : o.state} {
    if (state == 1) ++gLive;
  }
  Val(Val&& o) noexcept : id{o.id}, state{o.state} {
    if (o.state == 1) o.state = 2;
  }
  Val& operator=(const Val& o) {
    if (this != &o) {
      Drop();
      id = o.id;
      state = o.state;
      if (state == 1) ++gLive;
    }
    return *this;
  }
  Val& operator=(Val&& o) noexcept {
    if (this != &o) {
      Drop();
      id = o.id;
      state = o.state;
      if (o.state == 1) o.state = 2;
    }
    return *this;
  }
  ~Val() {
    if (state == 3) ++gBadDestroy;
    Drop();
    state = 3;
  }

 private:
  void Drop() {
    if (state == 1) --gLive;
  }
};
using V0 = Val<0>;
using V1 = Val<1>;

template <int T>
std::string ShowV(const Val<T>& v) {
  if (v.state == 1) return "val:" + std::to_string(v.id);
  if (v.state == 0) return "-";
  return "val:dead";
}
std::string ShowV(const yaclib::Unit&) { return "unit"; }
template <typename... Ts>
std::string ShowV(const std::variant<Ts...>& v) {
  return std::visit([](const auto& x) { return ShowV(x); }, v);
}

std::string ShowExc(const std::exception_ptr& e) {
  try {
    std::rethrow_exception(e);
  } catch (const std::runtime_error& x) {
    return std::string("exc:") + x.what();
  } catch (...) {
    return "exc:?";
  }
}

template <typename V>
std::string ShowFail(const yaclib::Result<V, VErr>& r) {
  switch (r.State()) {
    case yaclib::ResultState::Error: {
      int c = std::as_const(r).Error().code;
      return c < 0 ? "broken" : "err:" + std::to_string(c);
    }
    case yaclib::ResultState::Exception: return ShowExc(std::as_const(r).Exception());
    default: return "-";
  }
}
template <typename V>
std::string ShowR(const yaclib::Result<V, VErr>& r) {
  if (r.State() != yaclib::ResultState::Value) return ShowFail(r);
  if constexpr (std::is_void_v<V>) return "unit";
  else return ShowV(std::as_const(r).Value());
}
template <int T>
std::string ShowElem(const Val<T>& v) { return ShowV(v); }
template <typename V>
std::string ShowElem(const yaclib::Result<V, VErr>& r) { return ShowR(r); }

template <typename T>
struct IsVector : std::false_type {};
template <typename T>
struct IsVector<std::vector<T>> : std::true_type {};
template <typename T>
struct IsTuple : std::false_type {};
template <typename... Ts>
struct IsTuple<std::tuple<Ts...>> : std::true_type {};

// canonical rendering of the output Result (matches the driver's rendering of OutVal)
template <typename T>
std::string ShowOut(const yaclib::Result<T, VErr>& r) {
  if (r.State() != yaclib::ResultState::Value) return "one:" + ShowFail(r);
  if constexpr (std::is_void_v<T>) {
    return "unit";
  } else if constexpr (IsVector<T>::value) {
    std::string s = "vec:";
    bool first = true;
    for (auto& e : std::as_const(r).Value()) {
      s += (first ? "" : ",") + ShowElem(e);
      first = false;
    }
    return s;
  } else if constexpr (IsTuple<T>::value) {
    std::string s = "vec:";
    bool first = true;
    std::apply([&](const auto&... e) { ((s += (first ? "" : ",") + ShowElem(e), first = false), ...); },
               std::as_const(r).Value());
    return s;
  } else {
    return "one:" + ShowV(std::as_const(r).Value());
  }
}

// ------------------------------------------------------------------------------------------------ scenarios
struct Peek : yaclib::detail::BaseCore {
  static yaclib_std::atomic_uintptr_t& Word(yaclib::detail::BaseCore& c) { return c.*(&Peek::_callback); }
};

struct Scenario;
using Body = void (*)(const Scenario&);

struct Scenario {
  std::string kind, policy, form, api;
  int n = 0;
  std::string pattern;  // one char per input: V value, E error, X exception
  std::string shape;    // one char per input: u unique, s shared, k shared with a copy kept by the client,
                        // p shared with a subscriber attached before the combinator call, d the SAME SharedFuture as input i-1
  Body body = nullptr;
  bool passthrough = false;  // dynamic WhenAny with count == 1 returns the input itself: no combinator
  std::string Header() const {
    auto commas = [](const std::string& s) {
      std::string o;
      for (char c : s) o += (o.empty() ? "" : ",") + std::string(1, c);
      return o.empty() ? std::string("-") : o;
    };
    return "when kind=" + std::string(passthrough ? "passthrough" : kind) + " policy=" + policy + " n=" + std::to_string(n) +
           " pattern=" + commas(pattern) + " shape=" + commas(shape) + " form=" + form + " api=" + api;
  }
};

struct Observed {
  int out_calls = 0;
  std::string out;
  bool invalid = false;
  bool crashed = false;
  std::string crash_what;
  bool finished_api = false;
};
Observed gObs;

// the subscriber a 'p' input got before the combinator call: must run exactly once, after its own input, with its value
struct SubRec {
  bool armed = false;
  int calls = 0;
  std::string val;
};
SubRec gSub[4];

// input i's outcome comes from input Src(i) (itself, or the future it duplicates)
int Src(const std::string& shape, int i) {
  while (i > 0 && shape[static_cast<std::size_t>(i)] == 'd') --i;
  return i;
}

struct InputBase {
  virtual ~InputBase() = default;
  virtual void Make(int i, char shape) = 0;
  virtual void Complete(char kind, int i) = 0;
  virtual void DropKept() = 0;
  virtual std::string Kept(int i) = 0;  // "" if fine
  virtual void CopyFrom(InputBase& other) = 0;
};

void Track(int i, const void* most_derived, bool shared, yaclib::detail::BaseCore& core) {
  gCores[i] = TrackedCore{most_derived, shared, 0, &Peek::Word(core)};
  if (gCoreN < i + 1) gCoreN = i + 1;
  vx::gCtx->NameObj(&Peek::Word(core), "w" + std::to_string(i));
}

template <typename V, bool Shared>
struct Input final : InputBase {
  using Fut = std::conditional_t<Shared, yaclib::SharedFuture<V, VErr>, yaclib::Future<V, VErr>>;
  using Prom = std::conditional_t<Shared, yaclib::SharedPromise<V, VErr>, yaclib::Promise<V, VErr>>;
  Fut f{};
  Prom p{};
  std::optional<Fut> keep;
  char want = 'V';

  void Make(int i, char shape) final {
    if (shape == 'd') return;  // no contract of its own: the call passes the previous input's SharedFuture again
    if constexpr (Shared) {
      auto [ff, pp] = yaclib::MakeSharedContract<V, VErr>();
      f = std::move(ff);
      p = std::move(pp);
      if (shape == 'k') keep.emplace(f);
      if (shape == 'p') {
        gSub[i].armed = true;
        f.SubscribeInline([i](const yaclib::Result<V, VErr>& r) {
          ++gSub[i].calls;
          gSub[i].val = ShowR(r);
          vx::Ev("sub " + std::to_string(i) + " " + gSub[i].val);
        });
      }
    } else {
      auto [ff, pp] = yaclib::MakeContract<V, VErr>();
      f = std::move(ff);
      p = std::move(pp);
    }
    auto* core = f.GetCore().Get();
    Track(i, dynamic_cast<const void*>(core), Shared, *core);
  }
  void Complete(char kind, int i) final {
    want = kind;
    if (!p.Valid()) return;  // a 'd' input: completed through the input it duplicates
    if (kind == 'V') {
      if constexpr (std::is_void_v<V>) std::move(p).Set();
      else std::move(p).Set(V{i});
    } else if (kind == 'E') {
      std::move(p).Set(VErr{i});
    } else {
      std::move(p).Set(std::make_exception_ptr(std::runtime_error{std::to_string(i)}));
    }
  }
  void DropKept() final { keep.reset(); }
  void CopyFrom(InputBase& other) final {
    if constexpr (Shared) f = static_cast<Input&>(other).f;
  }
  std::string Kept(int i) final {
    if constexpr (Shared) {
      if (keep) {
        const auto& r = std::as_const(*keep).Get();
        std::string got = ShowR(r);
        std::string exp = want == 'V' ? (std::is_void_v<V> ? std::string("unit") : "val:" + std::to_string(i))
                                      : (want == 'E' ? "err:" : "exc:") + std::to_string(i);
        if (got != exp) return "the SharedFuture copy kept by the client reads " + got + " instead of " + exp;
      }
    }
    return "";
  }
};

template <typename T>
void Observe(yaclib::Future<T, VErr>&& f) {
  if (!f.Valid()) {
    gObs.invalid = true;
    vx::Ev("invalid");
    return;
  }
  std::move(f).DetachInline([](yaclib::Result<T, VErr>&& r) {
    ++gObs.out_calls;
    gObs.out = ShowOut(r);
    vx::Ev("out " + gObs.out);
  });
}

[[noreturn]] void OnTerminate() {
  gObs.crashed = true;
  gObs.crash_what = "std::terminate";
  if (auto e = std::current_exception()) {
    try {
      std::rethrow_exception(e);
    } catch (const std::exception& x) {
      gObs.crash_what += std::string(" (") + x.what() + " escaped a noexcept function)";
    } catch (...) {
    }
  }
  vx::Ev("crash");
  // the fiber that would have killed the process is parked for ever; the other fibers go on, the run ends as "blocked"
  yaclib::fault::Scheduler::Suspend();
  std::abort();
}

void Drive(const Scenario& sc, const std::vector<InputBase*>& ins, const std::function<void()>& api,
           const std::function<void()>& prepare = {}) {
  gObs = Observed{};
  gCoreN = 0;
  gWhenAllocN = 0;
  gNamedN = 0;
  gLive = 0;
  gBadDestroy = 0;
  for (auto& r : gSub) r = SubRec{};
  auto& ctx = *vx::gCtx;
  ctx.NameValWord(0, "empty");
  ctx.NameValWord(~0ULL, "result");
  gRunning = true;
  for (int i = 0; i < sc.n; ++i) ins[i]->Make(i, sc.shape[i]);
  std::vector<vx::Thread> producers;
  producers.reserve(sc.n);
  for (int i = 0; i < sc.n; ++i) {
    producers.emplace_back("t" + std::to_string(i), [&, i] { ins[i]->Complete(sc.pattern[i], i); });
  }
  if (prepare) prepare();
  gRegFiber = yaclib::fault::Scheduler::GetId();
  gInWhen = true;
  try {
    api();
  } catch (const std::exception& x) {
    gObs.crashed = true;
    gObs.crash_what = std::string("exception ") + x.what() + " thrown out of the combinator call";
    vx::Ev("crash");
  }
  gInWhen = false;
  gObs.finished_api = true;
  for (auto& t : producers) t.join();
}

// after the run (also after a blocked run): release what the client still holds
void Finish(const Scenario& sc, const std::vector<InputBase*>& ins, std::string& kept_problem) {
  for (int i = 0; i < sc.n; ++i) {
    auto k = ins[i]->Kept(i);
    if (!k.empty() && kept_problem.empty()) kept_problem = k;
    ins[i]->DropKept();
  }
}

std::string gKeptProblem;

template <typename... Ins, typename Api>
void RunWith(const Scenario& sc, Api api) {
  std::tuple<Ins...> t;
  std::vector<InputBase*> ins;
  std::apply([&](auto&... x) { (ins.push_back(&x), ...); }, t);
  Drive(sc, ins, [&] { std::apply([&](auto&... x) { api(x...); }, t); }, [&] {
    // a 'd' input is the previous input's SharedFuture once more (copied before the call: the copy is an atomic IncRef)
    for (int i = 1; i < sc.n; ++i)
      if (sc.shape[static_cast<std::size_t>(i)] == 'd') ins[static_cast<std::size_t>(i)]->CopyFrom(*ins[static_cast<std::size_t>(i) - 1]);
  });
  gKeptProblem.clear();
  Finish(sc, ins, gKeptProblem);
}

template <typename In, typename Api>
void RunDyn(const Scenario& sc, Api api) {
  std::vector<In> v(static_cast<std::size_t>(sc.n));
  std::vector<InputBase*> ins;
  for (auto& x : v) ins.push_back(&x);
  std::vector<typename In::Fut> fs;
  Drive(sc, ins, [&] { api(fs); }, [&] {
    fs.reserve(v.size());
    for (auto& x : v) fs.push_back(std::move(x.f));
  });
  gKeptProblem.clear();
  Finish(sc, ins, gKeptProblem);
}

using U0 = Input<V0, false>;
using U1 = Input<V1, false>;
using S0 = Input<V0, true>;
using S1 = Input<V1, true>;
using UV = Input<void, false>;

constexpr yaclib::FailPolicy kNone = yaclib::FailPolicy::None;
constexpr yaclib::FailPolicy kFF = yaclib::FailPolicy::FirstFail;
constexpr yaclib::FailPolicy kLF = yaclib::FailPolicy::LastFail;

const char* PolName(yaclib::FailPolicy f) { return f == kNone ? "none" : f == kFF ? "firstfail" : "lastfail"; }

std::vector<std::string> Patterns(int n, bool reduced) {
  if (n == 0) return {""};
  if (n == 1) return {"V", "E", "X"};
  if (n == 2) {
    if (reduced) return {"VV", "VE", "EV", "EE", "XX", "XV"};
    return {"VV", "VE", "VX", "EV", "EE", "EX", "XV", "XE", "XX"};
  }
  if (n >= 4) return {"EV" + std::string(static_cast<std::size_t>(n) - 2, 'V')};  // five fibers: one pattern
  if (reduced) return {"VVV", "EVE", "EEX"};
  return {"VVV", "VVE", "VEV", "VEE", "EVV", "EVE", "EEV", "EEE", "XEV", "EXX"};
}

std::vector<Scenario> gScenarios;

void Add(const std::string& kind, yaclib::FailPolicy f, const std::string& form, const std::string& api,
         const std::string& shape, Body body, bool reduced = false, bool passthrough = false) {
  int n = static_cast<int>(shape.size());
  for (auto& pat : Patterns(n, reduced)) {
    if (shape.find('p') != std::string::npos && pat.find('X') != std::string::npos) continue;  // V / E patterns suffice there
    bool consistent = true;  // a duplicated future has one outcome
    for (int i = 1; i < n; ++i) consistent = consistent && (shape[i] != 'd' || pat[i] == pat[i - 1]);
    if (!consistent) continue;
    Scenario sc;
    sc.kind = kind;
    sc.policy = PolName(f);
    sc.form = form;
    sc.api = api;
    sc.n = n;
    sc.pattern = pat;
    sc.shape = shape;
    sc.body = body;
    sc.passthrough = passthrough;
    gScenarios.push_back(sc);
  }
}


// shared inputs of TWO value types in one variadic unordered combinator: the callback slot of a shared input is its rank
// among ALL shared inputs (`translate_index_v`), whatever their types; one input has another subscriber already
template <typename... Ins, typename Call>
void AddMixedShared(const std::string& kind, yaclib::FailPolicy f, const std::string& name, const std::string& types, Call) {
  constexpr std::size_t n = sizeof...(Ins);
  for (std::size_t sub = 0; sub < n; ++sub) {
    std::string shape(n, 's');
    shape[sub] = 'p';
    std::string api = name + "(";
    for (std::size_t i = 0; i < n; ++i) api += (i ? "," : "") + std::string(1, shape[i]) + std::string(1, types[i]);
    api += ")";
    Add(kind, f, "static", api, shape, [](const Scenario& sc) {
      RunWith<Ins...>(sc, [](auto&... x) { Observe(Call{}(std::move(x.f)...)); });
    }, true);
  }
}
template <yaclib::FailPolicy F>
struct CallJoin {
  template <typename... Fs>
  auto operator()(Fs&&... fs) const { return yaclib::Join<F>(std::forward<Fs>(fs)...); }
};
template <yaclib::FailPolicy F>
struct CallAny {
  template <typename... Fs>
  auto operator()(Fs&&... fs) const { return yaclib::WhenAny<F>(std::forward<Fs>(fs)...); }
};

// ---- WhenAll / Join
template <yaclib::FailPolicy F, bool B = kBuildAll>
void AddAllFor() {
  if constexpr (B) {
    // vector form, static
    Add("allvec", F, "static", "WhenAll(u)", "u",
        [](const Scenario& sc) { RunWith<U0>(sc, [](auto& a) { Observe(yaclib::WhenAll<F>(std::move(a.f))); }); });
    Add("allvec", F, "static", "WhenAll(u,u)", "uu", [](const Scenario& sc) {
      RunWith<U0, U0>(sc, [](auto& a, auto& b) { Observe(yaclib::WhenAll<F>(std::move(a.f), std::move(b.f))); });
    });
    Add("allvec", F, "static", "WhenAll(u,u,u)", "uuu", [](const Scenario& sc) {
      RunWith<U0, U0, U0>(sc, [](auto& a, auto& b, auto& c) {
        Observe(yaclib::WhenAll<F>(std::move(a.f), std::move(b.f), std::move(c.f)));
      });
    });
    Add("allvec", F, "static", "WhenAll(s,k)", "sk", [](const Scenario& sc) {
      RunWith<S0, S0>(sc, [](auto& a, auto& b) { Observe(yaclib::WhenAll<F>(std::move(a.f), std::move(b.f))); });
    }, true);
    Add("allvec", F, "static", "WhenAll(u,s)", "us", [](const Scenario& sc) {
      RunWith<U0, S0>(sc, [](auto& a, auto& b) { Observe(yaclib::WhenAll<F>(std::move(a.f), std::move(b.f))); });
    }, true);
    // shared inputs of ONE type in the variadic form: every one needs its own callback node (a SharedCore threads its
    // subscriber list through the nodes); one input has another subscriber already, or the same future is passed twice
    auto ss = [](const Scenario& sc) {
      RunWith<S0, S0>(sc, [](auto& a, auto& b) { Observe(yaclib::WhenAll<F>(std::move(a.f), std::move(b.f))); });
    };
    Add("allvec", F, "static", "WhenAll(p,s)", "ps", ss, true);
    Add("allvec", F, "static", "WhenAll(s,p)", "sp", ss, true);
    Add("allvec", F, "static", "WhenAll(s,p,s)", "sps", [](const Scenario& sc) {
      RunWith<S0, S0, S0>(sc, [](auto& a, auto& b, auto& c) {
        Observe(yaclib::WhenAll<F>(std::move(a.f), std::move(b.f), std::move(c.f)));
      });
    }, true);
    Add("allvec", F, "static", "WhenAll(f,f)", "sd", [](const Scenario& sc) {
      RunWith<S0, S0>(sc, [](auto& a, auto& b) { Observe(yaclib::WhenAll<F>(std::move(a.f), std::move(b.f))); });
    }, true);
    Add("join", F, "static", "Join(s,p)", "sp", [](const Scenario& sc) {
      RunWith<S0, S0>(sc, [](auto& a, auto& b) { Observe(yaclib::Join<F>(std::move(a.f), std::move(b.f))); });
    }, true);
    Add("join", F, "static", "Join(f,f)", "sd", [](const Scenario& sc) {
      RunWith<S0, S0>(sc, [](auto& a, auto& b) { Observe(yaclib::Join<F>(std::move(a.f), std::move(b.f))); });
    }, true);
    AddMixedShared<S0, S1, S1>("join", F, "Join", "011", CallJoin<F>{});
    AddMixedShared<S1, S0, S1>("join", F, "Join", "101", CallJoin<F>{});
    AddMixedShared<S0, S1, S1, S0>("join", F, "Join", "0110", CallJoin<F>{});
    // vector form, dynamic
    auto dyn = [](const Scenario& sc) {
      RunDyn<U0>(sc, [](auto& fs) { Observe(yaclib::WhenAll<F>(fs.begin(), fs.size())); });
    };
    Add("allvec", F, "dynamic", "WhenAll(it,0)", "", dyn);
    Add("allvec", F, "dynamic", "WhenAll(it,1)", "u", dyn);
    Add("allvec", F, "dynamic", "WhenAll(it,2)", "uu", dyn);
    Add("allvec", F, "dynamic", "WhenAll(it,3)", "uuu", dyn, true);
    Add("allvec", F, "dynamic", "WhenAll(it:shared,2)", "ks", [](const Scenario& sc) {
      RunDyn<S0>(sc, [](auto& fs) { Observe(yaclib::WhenAll<F>(fs.begin(), fs.end())); });
    }, true);
    // tuple form
    Add("alltuple", F, "static", "WhenAll(u0,u1)", "uu", [](const Scenario& sc) {
      RunWith<U0, U1>(sc, [](auto& a, auto& b) { Observe(yaclib::WhenAll<F>(std::move(a.f), std::move(b.f))); });
    });
    Add("alltuple", F, "static", "WhenAll(u0,u1,u0)", "uuu", [](const Scenario& sc) {
      RunWith<U0, U1, U0>(sc, [](auto& a, auto& b, auto& c) {
        Observe(yaclib::WhenAll<F>(std::move(a.f), std::move(b.f), std::move(c.f)));
      });
    });
    Add("alltuple", F, "static", "WhenAll(u0,s1)", "uk", [](const Scenario& sc) {
      RunWith<U0, S1>(sc, [](auto& a, auto& b) { Observe(yaclib::WhenAll<F>(std::move(a.f), std::move(b.f))); });
    }, true);
    // Join
    Add("join", F, "static", "Join(u)", "u",
        [](const Scenario& sc) { RunWith<U0>(sc, [](auto& a) { Observe(yaclib::Join<F>(std::move(a.f))); }); });
    Add("join", F, "static", "Join(u0,u1)", "uu", [](const Scenario& sc) {
      RunWith<U0, U1>(sc, [](auto& a, auto& b) { Observe(yaclib::Join<F>(std::move(a.f), std::move(b.f))); });
    });
    Add("join", F, "static", "Join(u,u,u)", "uuu", [](const Scenario& sc) {
      RunWith<U0, U0, U0>(sc, [](auto& a, auto& b, auto& c) {
        Observe(yaclib::Join<F>(std::move(a.f), std::move(b.f), std::move(c.f)));
      });
    }, true);
    Add("join", F, "static", "Join(s,u)", "su", [](const Scenario& sc) {
      RunWith<S0, U0>(sc, [](auto& a, auto& b) { Observe(yaclib::Join<F>(std::move(a.f), std::move(b.f))); });
    }, true);
    auto jdyn = [](const Scenario& sc) {
      RunDyn<U0>(sc, [](auto& fs) { Observe(yaclib::Join<F>(fs.begin(), fs.size())); });
    };
    Add("join", F, "dynamic", "Join(it,0)", "", jdyn);
    Add("join", F, "dynamic", "Join(it,2)", "uu", jdyn);
    Add("join", F, "dynamic", "Join(it,3)", "uuu", jdyn, true);
  }
}

template <bool B = kBuildAll>
void AddAllExtra() {
  if constexpr (B) {
    // WhenAll over void futures with FirstFail is routed to Join
    Add("join", kFF, "static", "WhenAll(void,void)", "uu", [](const Scenario& sc) {
      RunWith<UV, UV>(sc, [](auto& a, auto& b) { Observe(yaclib::WhenAll<kFF>(std::move(a.f), std::move(b.f))); });
    }, true);
    Add("join", kFF, "dynamic", "WhenAll(it:void,2)", "uu", [](const Scenario& sc) {
      RunDyn<UV>(sc, [](auto& fs) { Observe(yaclib::WhenAll<kFF>(fs.begin(), fs.size())); });
    }, true);
  }
}

// ---- WhenAny
template <yaclib::FailPolicy F, bool B = kBuildAny>
void AddAnyFor() {
  if constexpr (B) {
    Add("any", F, "static", "WhenAny(u)", "u",
        [](const Scenario& sc) { RunWith<U0>(sc, [](auto& a) { Observe(yaclib::WhenAny<F>(std::move(a.f))); }); });
    Add("any", F, "static", "WhenAny(u,u)", "uu", [](const Scenario& sc) {
      RunWith<U0, U0>(sc, [](auto& a, auto& b) { Observe(yaclib::WhenAny<F>(std::move(a.f), std::move(b.f))); });
    });
    Add("any", F, "static", "WhenAny(u,u,u)", "uuu", [](const Scenario& sc) {
      RunWith<U0, U0, U0>(sc, [](auto& a, auto& b, auto& c) {
        Observe(yaclib::WhenAny<F>(std::move(a.f), std::move(b.f), std::move(c.f)));
      });
    });
    Add("any", F, "static", "WhenAny(u0,u1)", "uu", [](const Scenario& sc) {
      RunWith<U0, U1>(sc, [](auto& a, auto& b) { Observe(yaclib::WhenAny<F>(std::move(a.f), std::move(b.f))); });
    });
    Add("any", F, "static", "WhenAny(s,k)", "sk", [](const Scenario& sc) {
      RunWith<S0, S0>(sc, [](auto& a, auto& b) { Observe(yaclib::WhenAny<F>(std::move(a.f), std::move(b.f))); });
    }, true);
    Add("any", F, "static", "WhenAny(u,s)", "us", [](const Scenario& sc) {
      RunWith<U0, S0>(sc, [](auto& a, auto& b) { Observe(yaclib::WhenAny<F>(std::move(a.f), std::move(b.f))); });
    }, true);
    auto ss = [](const Scenario& sc) {
      RunWith<S0, S0>(sc, [](auto& a, auto& b) { Observe(yaclib::WhenAny<F>(std::move(a.f), std::move(b.f))); });
    };
    Add("any", F, "static", "WhenAny(p,s)", "ps", ss, true);
    Add("any", F, "static", "WhenAny(s,p)", "sp", ss, true);
    Add("any", F, "static", "WhenAny(f,f)", "sd", [](const Scenario& sc) {
      RunWith<S0, S0>(sc, [](auto& a, auto& b) { Observe(yaclib::WhenAny<F>(std::move(a.f), std::move(b.f))); });
    }, true);
    AddMixedShared<S0, S1, S1>("any", F, "WhenAny", "011", CallAny<F>{});
    AddMixedShared<S1, S0, S1>("any", F, "WhenAny", "101", CallAny<F>{});
    AddMixedShared<S0, S1, S1, S0>("any", F, "WhenAny", "0110", CallAny<F>{});
    auto dyn = [](const Scenario& sc) {
      RunDyn<U0>(sc, [](auto& fs) { Observe(yaclib::WhenAny<F>(fs.begin(), fs.size())); });
    };
    Add("any", F, "dynamic", "WhenAny(it,0)", "", dyn);
    Add("any", F, "dynamic", "WhenAny(it,1)", "u", dyn, false, true);
    Add("any", F, "dynamic", "WhenAny(it,2)", "uu", dyn);
    Add("any", F, "dynamic", "WhenAny(it,3)", "uuu", dyn, true);
    Add("any", F, "dynamic", "WhenAny(it:shared,2)", "ks", [](const Scenario& sc) {
      RunDyn<S0>(sc, [](auto& fs) { Observe(yaclib::WhenAny<F>(fs.begin(), fs.end())); });
    }, true);
  }
}

// ------------------------------------------------------------------------------------------------ monitors
std::string InputRepr(char kind, int i);
std::string Repr(const Scenario& sc, int i) { return InputRepr(sc.pattern[static_cast<std::size_t>(i)], Src(sc.shape, i)); }

std::string InputRepr(char kind, int i) {
  return (kind == 'V' ? "val:" : kind == 'E' ? "err:" : "exc:") + std::to_string(i);
}

struct Lin {
  std::vector<int> fired;         // inputs in the order in which their callbacks were entered
  std::vector<int> st_rmw;        // inputs in the order of their RMWs on the strategy word
  std::vector<std::string> st_op; // the RMW: xchg / cas_ok / cas_fail / fsub
  int out_setter = -1;            // input whose consumption performed the exchange on the output word
  std::size_t out_line = 0, last_fire_line = 0;
  int out_sets = 0;
  std::vector<int> released;      // per input
  std::vector<std::size_t> sub_line;   // per input: 1 + line of its subscriber's invocation (0 = none)
  std::vector<std::size_t> done_line;  // per word: line of the completer's exchange
};

// who is consuming which input is recovered from the hand-off words.  The registering thread works through the inputs in
// index order: its `load -> result` / failed CAS on the word of the next input means "consumed inline", a successful CAS
// "callback installed".  A completer's exchange that returns a callback list hands it every callback installed on that
// word, most recently installed first (one per input; two if the same SharedFuture was passed twice); every consumption
// ends with its `cnt fsub`, after which the thread's next operation on `st` / `cnt` belongs to the next callback.
Lin Linearise(const Scenario& sc) {
  Lin L;
  L.released.assign(static_cast<std::size_t>(sc.n), 0);
  L.sub_line.assign(static_cast<std::size_t>(sc.n), 0);
  L.done_line.assign(static_cast<std::size_t>(sc.n), 0);
  std::map<std::string, std::vector<int>> queue;  // thread -> inputs it still has to consume, front = current
  std::map<std::string, bool> finished;           // the current consumption of the thread did its DecRef
  std::map<int, std::vector<int>> installed;      // word -> inputs installed on it, in installation order
  int reg = 0;
  auto& tr = vx::gCtx->trace;
  auto current = [&](const std::string& th, std::size_t k, bool starts_op) -> int {
    auto& q = queue[th];
    if (starts_op && finished[th] && !q.empty()) {
      q.erase(q.begin());
      finished[th] = false;
      if (!q.empty()) {
        L.fired.push_back(q.front());
        L.last_fire_line = k;
      }
    }
    return q.empty() ? -1 : q.front();
  };
  for (std::size_t k = 0; k < tr.size(); ++k) {
    std::vector<std::string> t;
    {
      std::string w;
      for (char c : tr[k]) {
        if (c == ' ') {
          if (!w.empty()) t.push_back(w);
          w.clear();
        } else w += c;
      }
      if (!w.empty()) t.push_back(w);
    }
    if (t.size() < 3) continue;
    if (t[1] == "A" && t[2].size() >= 2 && t[2][0] == 'w' && t[2] != "w") {
      int word = std::atoi(t[2].c_str() + 1);
      const std::string& res = t.back();
      if (t[0] == "r") {
        if (reg < sc.n && Src(sc.shape, reg) == word) {
          bool inl = (t[3] == "load" && res == "result") || (t[3].rfind("cas", 0) == 0 && res == "fail:result");
          bool inst = t[3].rfind("cas", 0) == 0 && res == "ok";
          if (inl) {
            queue["r"] = {reg};
            finished["r"] = false;
            L.fired.push_back(reg);
            L.last_fire_line = k;
            ++reg;
          } else if (inst) {
            installed[word].push_back(reg);
            ++reg;
          }
        }
      } else if (t[3] == "xchg" && res != "result") {
        if (word >= 0 && word < sc.n) L.done_line[static_cast<std::size_t>(word)] = k;
        if (res != "empty") {
          auto& in = installed[word];
          queue[t[0]].assign(in.rbegin(), in.rend());
          finished[t[0]] = false;
          if (!in.empty()) {
            L.fired.push_back(in.back());
            L.last_fire_line = k;
          }
        }
      }
    } else if (t[1] == "A" && t[2] == "st") {
      int i = current(t[0], k, true);
      if (t[3] != "load") {
        L.st_rmw.push_back(i);
        std::string op = t[3];
        if (op == "cas_strong") op = t.back() == "ok" ? "cas_ok" : "cas_fail";
        L.st_op.push_back(op + ":" + t.back());
      }
    } else if (t[1] == "A" && t[2] == "cnt") {
      current(t[0], k, true);
      finished[t[0]] = true;
    } else if (t[1] == "A" && t[2] == "out" && t[3] == "xchg") {
      L.out_setter = current(t[0], k, false);
      L.out_line = k;
      ++L.out_sets;
    } else if (t[1] == "E" && t[2] == "release" && t.size() >= 4) {
      int i = std::atoi(t[3].c_str());
      if (i >= 0 && i < sc.n) ++L.released[static_cast<std::size_t>(i)];
    } else if (t[1] == "E" && t[2] == "sub" && t.size() >= 4) {
      int i = std::atoi(t[3].c_str());
      if (i >= 0 && i < sc.n) L.sub_line[static_cast<std::size_t>(i)] = k + 1;
    }
  }
  return L;
}

std::string Monitor(const Scenario& sc, bool done) {
  gRunning = false;
  if (gObs.crashed) return "crash: " + gObs.crash_what;
  if (!done) return "";
  if (sc.n == 0) {
    if (!gObs.invalid) return "an empty input set did not yield an invalid future";
    return "";
  }
  if (gObs.invalid) return "the combinator returned an invalid future for a non-empty input set";
  if (gObs.out_calls != 1) return "the output was delivered " + std::to_string(gObs.out_calls) + " times";
  if (!gKeptProblem.empty()) return gKeptProblem;
  if (gBadDestroy != 0) return "a payload object was destroyed twice";
  Lin L = Linearise(sc);
  for (int i = 0; i < sc.n; ++i) {
    if (!gSub[i].armed) continue;
    std::string who = "the subscriber attached to input " + std::to_string(i) + " before the combinator call ";
    if (gSub[i].calls != 1) return who + "ran " + std::to_string(gSub[i].calls) + " times";
    if (gSub[i].val != Repr(sc, i)) return who + "received " + gSub[i].val + " instead of " + Repr(sc, i);
    if (L.sub_line[static_cast<std::size_t>(i)] <= L.done_line[static_cast<std::size_t>(i)]) {
      return who + "ran before its input completed";
    }
  }
  for (int i = 0; i < sc.n; ++i) {
    if (sc.shape[static_cast<std::size_t>(i)] == 'd') continue;
    if (gCores[i].freed != 1) {
      return "the core of input " + std::to_string(i) + " was freed " + std::to_string(gCores[i].freed) + " times";
    }
  }
  // one payload is still alive inside the output Result iff it carries values; that is checked through gLive at the end
  bool failing = sc.pattern.find_first_not_of('V') != std::string::npos;
  std::string want;
  if (sc.passthrough) {
    want = "one:" + Repr(sc, 0);
  } else if (sc.kind == "allvec" || sc.kind == "alltuple") {
    if (sc.policy == "none" || !failing) {
      want = "vec:";
      for (int i = 0; i < sc.n; ++i) want += (i ? "," : "") + Repr(sc, i);
    }
  } else if (sc.kind == "join") {
    if (sc.policy == "none" || !failing) want = "unit";
  }
  if (!sc.passthrough) {
    if (L.out_sets != 1) return "the output promise was set " + std::to_string(L.out_sets) + " times";
    bool at_end = sc.kind != "any" && (sc.policy == "none" || !failing);
    if (at_end) {
      if (static_cast<int>(L.fired.size()) != sc.n || L.out_line < L.last_fire_line) {
        return "the output was set before the last input was consumed";
      }
    } else if (sc.kind != "any") {
      // FirstFail with a failure: the first failing consumption in the order of the exchanges wins, and sets at once
      int winner = -1;
      for (std::size_t k = 0; k < L.st_rmw.size(); ++k) {
        if (L.st_op[k].rfind("xchg", 0) == 0) {
          winner = L.st_rmw[k];
          break;
        }
      }
      if (winner < 0) return "no exchange on the done flag although an input failed";
      want = "one:" + Repr(sc, winner);
      if (L.out_setter != winner) return "the output was not set by the consumption that won the done flag";
    } else {
      int winner = -1;
      if (sc.policy == "none") {
        if (!L.st_rmw.empty()) winner = L.st_rmw[0];
      } else if (sc.policy == "firstfail") {
        for (std::size_t k = 0; k < L.st_rmw.size() && winner < 0; ++k)
          if (L.st_op[k].rfind("xchg", 0) == 0) winner = L.st_rmw[k];
        for (std::size_t k = 0; k < L.st_rmw.size() && winner < 0; ++k)
          if (L.st_op[k].rfind("cas_ok", 0) == 0) winner = L.st_rmw[k];
      } else {
        for (std::size_t k = 0; k < L.st_rmw.size() && winner < 0; ++k)
          if (L.st_op[k].rfind("xchg", 0) == 0) winner = L.st_rmw[k];
        if (winner < 0)
          for (std::size_t k = 0; k < L.st_rmw.size(); ++k)
            if (L.st_op[k].rfind("fsub", 0) == 0) winner = L.st_rmw[k];
      }
      if (winner < 0) return "no deciding operation on the strategy word was observed";
      want = "one:" + Repr(sc, winner);
      // a value must win whenever there is one (LastFail / FirstFail)
      if (sc.policy != "none" && sc.pattern.find('V') != std::string::npos && sc.pattern[winner] != 'V') {
        return "a failure won although an input carried a value";
      }
    }
  }
  if (!want.empty() && gObs.out != want) return "the output is " + gObs.out + " instead of " + want;
  // payload accounting: what is still alive is exactly what the output carries (it was destroyed with the callback's
  // argument, so nothing may be alive), and the kept SharedFuture copies have been dropped
  if (gLive != 0) return std::to_string(gLive) + " payload object(s) still alive (or over-released) after everything was dropped";
  return "";
}

// a fatal signal inside the library (e.g. a second Set on a moved-from promise) must not lose the failing input:
// report the scenario + choice sequence as a violation and leave (not async-signal-safe, good enough for a crash report)
vx::Explorer* gEx = nullptr;
std::string gCurHeader;
alignas(16) char gSigStack[1 << 16];

void OnFatalSignal(int sig) {
  static bool once = false;
  if (once || gEx == nullptr) _exit(3);
  once = true;
  auto& ctx = gEx->ctx;
  std::string v = "violation: crash: fatal signal " + std::to_string(sig) + " inside the library\nscenario: " + gCurHeader +
                  "\nchoices: " + ctx.ChoiceString() + "\ntrace:";
  for (auto& l : ctx.trace) v += "\n  " + l;
  gEx->violations.insert(gEx->violations.begin(), v);
  ++gEx->stats.violations;
  ++gEx->stats.executions;
  gEx->Report();
  _exit(1);
}

#if defined(__SANITIZE_ADDRESS__)
extern "C" void __asan_set_error_report_callback(void (*)(const char*));
// AddressSanitizer found a memory error inside the library: report scenario + choices + trace + the head of its report
void OnAsanReport(const char* report) {
  static bool once = false;
  if (once || gEx == nullptr) return;
  once = true;
  std::string head;
  int lines = 0;
  for (const char* c = report; *c && lines < 12 && head.size() < 1500; ++c) {
    head += *c;
    if (*c == '\n') {
      head += "  ";
      ++lines;
    }
  }
  std::string first = head.substr(0, head.find('\n'));
  auto at = first.find("ERROR: ");
  if (at != std::string::npos) first = first.substr(at + 7);
  auto on = first.find(" on address");
  if (on != std::string::npos) first = first.substr(0, on);
  auto& ctx = gEx->ctx;
  std::string v = "violation: memory error: " + first + "\nscenario: " + gCurHeader + "\nchoices: " + ctx.ChoiceString() +
                  "\ntrace:";
  for (auto& l : ctx.trace) v += "\n  " + l;
  v += "\nsanitizer report:\n  " + head;
  gEx->violations.insert(gEx->violations.begin(), v);
  ++gEx->stats.violations;
  ++gEx->stats.executions;
  gEx->Report();
}
#endif

void InstallSignalHandlers() {
#if defined(__SANITIZE_ADDRESS__)
  __asan_set_error_report_callback(&OnAsanReport);
#endif
  stack_t ss{};
  ss.ss_sp = gSigStack;
  ss.ss_size = sizeof(gSigStack);
  sigaltstack(&ss, nullptr);
  struct sigaction sa{};
  sa.sa_handler = &OnFatalSignal;
  sa.sa_flags = SA_ONSTACK;
  sigemptyset(&sa.sa_mask);
  for (int sig : {SIGSEGV, SIGBUS, SIGABRT, SIGFPE, SIGILL}) sigaction(sig, &sa, nullptr);
}

void WriteAll(int fd, const void* p, std::size_t n) {
  auto* c = static_cast<const char*>(p);
  while (n > 0) {
    auto k = ::write(fd, c, n);
    if (k <= 0) _exit(4);
    c += k;
    n -= static_cast<std::size_t>(k);
  }
}
bool ReadAll(int fd, void* p, std::size_t n) {
  auto* c = static_cast<char*>(p);
  while (n > 0) {
    auto k = ::read(fd, c, n);
    if (k <= 0) return false;
    c += k;
    n -= static_cast<std::size_t>(k);
  }
  return true;
}
void WriteStrings(int fd, const std::vector<std::string>& v) {
  std::uint64_t n = v.size();
  WriteAll(fd, &n, sizeof n);
  for (auto& x : v) {
    std::uint64_t k = x.size();
    WriteAll(fd, &k, sizeof k);
    WriteAll(fd, x.data(), x.size());
  }
}
bool ReadStrings(int fd, std::vector<std::string>& v) {
  std::uint64_t n = 0;
  if (!ReadAll(fd, &n, sizeof n)) return false;
  for (std::uint64_t i = 0; i < n; ++i) {
    std::uint64_t k = 0;
    if (!ReadAll(fd, &k, sizeof k)) return false;
    std::string x(k, '\0');
    if (!ReadAll(fd, x.data(), k)) return false;
    v.push_back(std::move(x));
  }
  return true;
}

// explores one scenario in a child process (same trace file: the descriptor and its offset are shared) and merges the
// child's statistics, samples and violations into the parent's explorer
template <typename Run>
void RunForked(vx::Explorer& ex, Run&& run) {
  if (ex.out) std::fflush(ex.out);
  std::fflush(stdout);
  int fds[2];
  if (::pipe(fds) != 0) {
    run();
    return;
  }
  pid_t pid = ::fork();
  if (pid < 0) {
    run();
    return;
  }
  if (pid == 0) {
    ::close(fds[0]);
    ex.stats = vx::Stats{};
    ex.samples.clear();
    ex.violations.clear();
    std::uint64_t ip0 = ex.ctx.injection_points;
    run();
    if (ex.out) std::fflush(ex.out);
    std::uint64_t ip = ex.ctx.injection_points - ip0;
    WriteAll(fds[1], &ex.stats, sizeof ex.stats);
    WriteAll(fds[1], &ip, sizeof ip);
    WriteStrings(fds[1], ex.samples);
    WriteStrings(fds[1], ex.violations);
    _exit(0);
  }
  ::close(fds[1]);
  vx::Stats st{};
  std::uint64_t ip = 0;
  std::vector<std::string> samples, violations;
  bool ok = ReadAll(fds[0], &st, sizeof st) && ReadAll(fds[0], &ip, sizeof ip) && ReadStrings(fds[0], samples) &&
            ReadStrings(fds[0], violations);
  ::close(fds[0]);
  int status = 0;
  ::waitpid(pid, &status, 0);
  if (!ok) {
    ++ex.stats.violations;
    ex.violations.push_back("violation: crash: the exploring child process died\nscenario: " + gCurHeader + "\nchoices: \ntrace:");
    return;
  }
  auto& a = ex.stats;
  a.executions += st.executions;
  a.distinct += st.distinct;
  a.violations += st.violations;
  a.deadlocks += st.deadlocks;
  a.exhausted_scenarios += st.exhausted_scenarios;
  a.truncated_scenarios += st.truncated_scenarios;
  a.scenarios += st.scenarios;
  a.trace_lines += st.trace_lines;
  a.nondeterministic += st.nondeterministic;
  a.asserts += st.asserts;
  a.max_choices = std::max(a.max_choices, st.max_choices);
  a.sum_preempts += st.sum_preempts;
  a.sum_weaks += st.sum_weaks;
  ex.ctx.injection_points += ip;
  for (auto& x : samples)
    if (ex.samples.size() < 3) ex.samples.push_back(x);
  for (auto& x : violations) ex.violations.push_back(x);
}

void OnAtomicLazy(void* c, const void* obj, int op, int so, int fo, unsigned long long a, unsigned long long e,
                  unsigned long long r, int ok) {
  auto* ctx = static_cast<vx::Ctx*>(c);
  if (gRunning && ctx->objs.find(obj) == ctx->objs.end()) {
    auto in = [&](int k) {
      auto* p = static_cast<const char*>(obj);
      return k < gWhenAllocN && p >= gWhenAllocs[k].p && p < gWhenAllocs[k].p + gWhenAllocs[k].n;
    };
    if ((in(0) || in(1)) && gNamedN < 8) gNamed[gNamedN++] = obj;
    if (in(0)) {
      ctx->NameObj(obj, "out");
    } else if (in(1)) {
      bool counter = op == yaclib::verif::kFetchSub && a == 1 && so == 3;
      const char* name = counter ? "cnt" : "st";
      bool taken = false;
      for (auto& kv : ctx->objs) taken = taken || kv.second == name;
      ctx->NameObj(obj, taken ? std::string(name) + "?" : name, true);
    }
  }
  ctx->OnAtomic(obj, op, so, fo, a, e, r, ok);
}

}  // namespace

int main(int argc, char** argv) {
  auto opt = vx::ParseOptions(argc, argv);
  std::string family;
  for (int i = 1; i + 1 < argc; ++i)
    if (std::string(argv[i]) == "--family") family = argv[i + 1];
  bool sanitizer_pass = false;
  for (int i = 1; i < argc; ++i)
    if (std::string(argv[i]) == "--sanitizer-pass") sanitizer_pass = true;
  int pb3 = -1;  // preemption bound for the three-input scenarios (default: one less than --pb)
  for (int i = 1; i + 1 < argc; ++i)
    if (std::string(argv[i]) == "--pb3") pb3 = std::atoi(argv[i + 1]);
  vx::Explorer ex(opt);
  yaclib::verif::gHooks.on_atomic = &OnAtomicLazy;
  std::set_terminate(&OnTerminate);
  gEx = &ex;
  InstallSignalHandlers();
  AddAllFor<kNone>();
  AddAllFor<kFF>();
  AddAllExtra();
  AddAnyFor<kNone>();
  AddAnyFor<kFF>();
  AddAnyFor<kLF>();
  for (auto& sc : gScenarios) {
    if (family == "all" && sc.kind == "any") continue;
    if (family == "any" && sc.kind != "any") continue;
    if (!opt.has_replay && opt.mode == "dfs") {
      int b3 = pb3 >= 0 ? pb3 : std::max(0, opt.preempt_bound - 1);
      // three shared inputs (weak-CAS registration, callback lists): one preemption less keeps the quick tier quick
      bool shared3 = sc.n >= 3 && sc.shape.find_first_not_of('u') != std::string::npos;
      ex.ctx.preempt_bound = sc.n >= 3 ? (shared3 ? std::max(1, b3 - 1) : b3) : opt.preempt_bound;
      // spurious weak-CAS failures of the shared registration are covered by the s / k scenarios
      bool lists = sc.shape.find_first_of("pd") != std::string::npos;
      ex.ctx.weak_bound = lists ? 0 : opt.weak_bound;
    }
    // --sanitizer-pass: the reduced scenario set of the AddressSanitizer build (memory errors are invisible otherwise):
    // everything with a shared input (callback lists, DynamicCombinator) and the iterator forms
    if (sanitizer_pass && sc.shape.find_first_not_of('u') == std::string::npos && sc.form != "dynamic") continue;
    if (sanitizer_pass && sc.n >= 4) continue;  // five fibers under ASan are slow; the plain explorer covers them
    gCurHeader = sc.Header();
    // every execution that ends in std::terminate leaks its parked fibers (their stacks are mmap'ed and the number of
    // mappings of a process is limited).  The scenarios of the former defect D2 (tuple form, FirstFail, two failures; fixed by
    // /repo 2b9a400) are still explored in a forked child and merged back, so that a regression cannot take the explorer down
    int fails = 0;
    for (char c : sc.pattern) fails += c != 'V';
    bool crash_prone = sc.kind == "alltuple" && sc.policy == "firstfail" && fails >= 2;
    auto run = [&] { ex.Run(gCurHeader, [&] { sc.body(sc); }, [&](bool done) { return Monitor(sc, done); }); };
    if (!crash_prone || opt.has_replay) {
      run();
    } else if (opt.only.empty() || opt.only == gCurHeader) {
      RunForked(ex, run);
    }
    // the explorer keeps the first 20 violations only: keep one per (message, api) so that a known finding that fails
    // in every schedule cannot crowd out anything else
    std::set<std::string> keys;
    std::vector<std::string> kept;
    for (auto& v : ex.violations) {
      auto api = v.find(" api=");
      std::string key = v.substr(0, v.find('\n')) + (api == std::string::npos ? "" : v.substr(api, v.find('\n', api) - api));
      if (keys.insert(key).second) kept.push_back(v);
    }
    ex.violations = kept;
  }
  ex.Report();
  return ex.stats.violations == 0 ? 0 : 1;
}
