// Callback vocabulary of the API instantiation sweep: functors of every signature class the continuation API accepts
// (async/future.hpp Then*/Detach*, async/shared_future.hpp Then*/Subscribe*, lazy/task.hpp Then*, async/run.hpp, lazy/schedule.hpp)
// and builders of every return class (value / void / Result / Future / FutureOn / SharedFuture / SharedFutureOn / Task).
#pragma once

#include <yaclib/async/contract.hpp>
#include <yaclib/async/make.hpp>
#include <yaclib/async/shared_contract.hpp>
#include <yaclib/exe/inline.hpp>
#include <yaclib/lazy/make.hpp>

#include "api_probe.hpp"

#include <functional>

namespace probe {

template <typename U, typename E>
inline constexpr bool kCopyable = std::is_copy_constructible_v<yaclib::Result<U, E>>;

// ---- return classes --------------------------------------------------------------------------------------------------
template <typename R>
struct Build {  // plain value (or void)
  static R Do() {
    if constexpr (!std::is_void_v<R>) {
      return Make<R>();
    }
  }
};
template <typename U, typename E>
struct Build<yaclib::Result<U, E>> {
  static yaclib::Result<U, E> Do() {
    if constexpr (std::is_void_v<U>) {
      return yaclib::Result<U, E>{std::in_place};
    } else {
      return yaclib::Result<U, E>{Make<U>()};
    }
  }
};
template <typename U, typename E>
struct Build<yaclib::Future<U, E>> {
  static yaclib::Future<U, E> Do() {
    if constexpr (std::is_void_v<U>) {
      return yaclib::MakeFuture<void, E>();
    } else {
      return yaclib::MakeFuture<U, E>(Make<U>());
    }
  }
};
template <typename U, typename E>
struct Build<yaclib::FutureOn<U, E>> {
  static yaclib::FutureOn<U, E> Do() {
    auto [f, p] = yaclib::MakeContractOn<U, E>(yaclib::MakeInline());
    if constexpr (std::is_void_v<U>) {
      std::move(p).Set();
    } else {
      std::move(p).Set(Make<U>());
    }
    return std::move(f);
  }
};
template <typename U, typename E>
struct Build<yaclib::SharedFuture<U, E>> {
  static yaclib::SharedFuture<U, E> Do() {
    auto [f, p] = yaclib::MakeSharedContract<U, E>();
    if constexpr (std::is_void_v<U>) {
      std::move(p).Set();
    } else {
      std::move(p).Set(Make<U>());
    }
    return std::move(f);
  }
};
template <typename U, typename E>
struct Build<yaclib::SharedFutureOn<U, E>> {
  static yaclib::SharedFutureOn<U, E> Do() {
    auto [f, p] = yaclib::MakeSharedContractOn<U, E>(yaclib::MakeInline());
    if constexpr (std::is_void_v<U>) {
      std::move(p).Set();
    } else {
      std::move(p).Set(Make<U>());
    }
    return std::move(f);
  }
};
template <typename U, typename E>
struct Build<yaclib::Task<U, E>> {
  static yaclib::Task<U, E> Do() {
    if constexpr (std::is_void_v<U>) {
      return yaclib::MakeTask<void, E>();
    } else {
      return yaclib::MakeTask<U, E>(Make<U>());
    }
  }
};

// ---- functors --------------------------------------------------------------------------------------------------------
// R operator()(Arg...) const: the argument list is the signature class, R the return class
template <typename R, typename... Arg>
struct Fn {
  R operator()(Arg...) const {
    return Build<R>::Do();
  }
};
// non-const call operator + move-only state: has to be passed as an rvalue
template <typename R, typename... Arg>
struct MutFn {
  MutFn() = default;
  MutFn(MutFn&&) noexcept = default;
  MutFn(const MutFn&) = delete;
  R operator()(Arg...) {
    return Build<R>::Do();
  }
  MoveOnly state;
};
// rvalue-qualified call operator
template <typename R, typename... Arg>
struct RvFn {
  R operator()(Arg...) && {
    return Build<R>::Do();
  }
};
template <typename R, typename... Arg>
R FreeFn(Arg...) {
  return Build<R>::Do();
}

// the argument lists of the signature classes for a source of value V / error E:
//   ByValue<V>  V      (no argument for void)      RvRef<V>  V&&     CRef<V>  const V&
template <typename V, typename E, typename R>
struct Sig {
  using Res = yaclib::Result<V, E>;
  using Value = std::conditional_t<std::is_void_v<V>, Fn<R>, Fn<R, std::conditional_t<std::is_void_v<V>, int, V>>>;
  using ValueRv = std::conditional_t<std::is_void_v<V>, Fn<R, yaclib::Unit>, Fn<R, std::conditional_t<std::is_void_v<V>, int, V>&&>>;
  using ValueCr = std::conditional_t<std::is_void_v<V>, Fn<R, const yaclib::Unit&>, Fn<R, const std::conditional_t<std::is_void_v<V>, int, V>&>>;
  using Result = Fn<R, Res>;
  using ResultRv = Fn<R, Res&&>;
  using ResultCr = Fn<R, const Res&>;
  using Error = Fn<R, E>;
  using ErrorCr = Fn<R, const E&>;
  using Exception = Fn<R, std::exception_ptr>;
};

inline yaclib::IExecutor& Exec() {
  return yaclib::MakeInline();
}

// ---- the continuation API ------------------------------------------------------------------------------------------------
// methods (each takes the handle by rvalue, as the API requires)
struct ThenInline {
  template <typename H, typename F>
  static void Do(H h, F&& f) {
    Sink(std::move(h).ThenInline(std::forward<F>(f)));
  }
};
struct ThenExec {
  template <typename H, typename F>
  static void Do(H h, F&& f) {
    Sink(std::move(h).Then(Exec(), std::forward<F>(f)));
  }
};
struct ThenOn {  // FutureOn only
  template <typename H, typename F>
  static void Do(H h, F&& f) {
    Sink(std::move(h).Then(std::forward<F>(f)));
  }
};
struct DetachInline {
  template <typename H, typename F>
  static void Do(H h, F&& f) {
    std::move(h).DetachInline(std::forward<F>(f));
  }
};
struct DetachExec {
  template <typename H, typename F>
  static void Do(H h, F&& f) {
    std::move(h).Detach(Exec(), std::forward<F>(f));
  }
};
struct DetachOn {  // FutureOn only
  template <typename H, typename F>
  static void Do(H h, F&& f) {
    std::move(h).Detach(std::forward<F>(f));
  }
};

// M x H<V, E> x every signature class of the argument, returning R
template <typename M, typename H, typename V, typename E, typename R>
void Args() {
  using S = Sig<V, E, R>;
  M::Do(Build<H>::Do(), typename S::Value{});
  M::Do(Build<H>::Do(), typename S::ValueRv{});
  M::Do(Build<H>::Do(), typename S::ValueCr{});
  M::Do(Build<H>::Do(), typename S::Result{});
  M::Do(Build<H>::Do(), typename S::ResultRv{});
  M::Do(Build<H>::Do(), typename S::ResultCr{});
}
// recovery callbacks keep the value type: R in {V, yaclib::Result<V, E>, yaclib::Future<V, E>, ...}
template <typename M, typename H, typename V, typename E, typename R>
void Recover() {
  using S = Sig<V, E, R>;
  M::Do(Build<H>::Do(), typename S::Error{});
  M::Do(Build<H>::Do(), typename S::ErrorCr{});
  M::Do(Build<H>::Do(), typename S::Exception{});
}

// every return class over the value type U
template <typename M, typename H, typename V, typename E, typename U>
void ArgsRets() {
  Args<M, H, V, E, U>();
  Args<M, H, V, E, yaclib::Result<U, E>>();
  Args<M, H, V, E, yaclib::Future<U, E>>();
  Args<M, H, V, E, yaclib::FutureOn<U, E>>();
  Args<M, H, V, E, yaclib::Task<U, E>>();
  if constexpr (kCopyable<U, E>) {
    Args<M, H, V, E, yaclib::SharedFuture<U, E>>();
    Args<M, H, V, E, yaclib::SharedFutureOn<U, E>>();
  }
}
template <typename M, typename H, typename V, typename E>
void RecoverRets() {
  Recover<M, H, V, E, V>();
  Recover<M, H, V, E, yaclib::Result<V, E>>();
  Recover<M, H, V, E, yaclib::Future<V, E>>();
  Recover<M, H, V, E, yaclib::FutureOn<V, E>>();
  Recover<M, H, V, E, yaclib::Task<V, E>>();
  if constexpr (kCopyable<V, E>) {
    Recover<M, H, V, E, yaclib::SharedFuture<V, E>>();
    Recover<M, H, V, E, yaclib::SharedFutureOn<V, E>>();
  }
}

// the star around (Value argument, plain return): every argument class with one return, every return class with one argument
template <typename M, typename H, typename V, typename E, typename U>
void Star() {
    Args<M, H, V, E, U>();
  M::Do(Build<H>::Do(), typename Sig<V, E, yaclib::Result<U, E>>::Value{});
  M::Do(Build<H>::Do(), typename Sig<V, E, yaclib::Future<U, E>>::ResultRv{});
  M::Do(Build<H>::Do(), typename Sig<V, E, yaclib::FutureOn<U, E>>::Value{});
  M::Do(Build<H>::Do(), typename Sig<V, E, yaclib::Task<U, E>>::ResultRv{});
  if constexpr (kCopyable<U, E>) {
    M::Do(Build<H>::Do(), typename Sig<V, E, yaclib::SharedFuture<U, E>>::Value{});
    M::Do(Build<H>::Do(), typename Sig<V, E, yaclib::SharedFutureOn<U, E>>::ResultRv{});
  }
  Recover<M, H, V, E, V>();
  M::Do(Build<H>::Do(), typename Sig<V, E, yaclib::Result<V, E>>::Error{});
  M::Do(Build<H>::Do(), typename Sig<V, E, yaclib::Future<V, E>>::Exception{});
  M::Do(Build<H>::Do(), typename Sig<V, E, yaclib::Task<V, E>>::Error{});
}

// final continuations return void (or yaclib::Result<void, E>)
template <typename M, typename H, typename V, typename E>
void Detaches() {
  Args<M, H, V, E, void>();
  Args<M, H, V, E, yaclib::Result<void, E>>();
  if constexpr (std::is_void_v<V>) {
    Recover<M, H, V, E, void>();
    Recover<M, H, V, E, yaclib::Result<void, E>>();
  }
}

}  // namespace probe
