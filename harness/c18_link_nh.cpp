// C18 link probe for D15: native_handle() of the yaclib_std lock types.  The wrappers re-export it (`using Impl::native_handle;`
// in include/yaclib/fault/detail/{mutex,condition_variable}.hpp); under FIBER the fiber primitives declare it
// `inline native_handle_type native_handle();` in include/yaclib/fault/detail/fiber/{mutex,recursive_mutex,shared_mutex}.hpp and
// define it in src/fault/fiber/*.cpp, so no translation unit outside the library can link a call.  Built only, never run.
#include <yaclib_std/condition_variable>
#include <yaclib_std/mutex>
#include <yaclib_std/shared_mutex>

int main() {
  yaclib_std::mutex m;
  yaclib_std::timed_mutex tm;
  yaclib_std::recursive_mutex rm;
  yaclib_std::recursive_timed_mutex rtm;
  yaclib_std::shared_mutex sm;
  yaclib_std::shared_timed_mutex stm;
  yaclib_std::condition_variable cv;
  void* a = m.native_handle();
  void* b = tm.native_handle();
  void* c = rm.native_handle();
  void* d = rtm.native_handle();
  void* e = sm.native_handle();
  void* f = stm.native_handle();
  auto g = cv.native_handle();
  return (a == b && c == d && e == f && g == nullptr) ? 0 : 1;
}
