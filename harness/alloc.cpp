// C20 — "… Wait/WaitFor/WaitUntil on plain futures, Future::Get, Strand submission of an existing job and co_await of futures
// allocate nothing."  One big measurement matrix; one output line per cell:
//
//     zero <section> | <description> | allocs=<k> ok=<0|1>
//
// `allocs` = calls of the (replaced) global operator new inside the measured window, `ok` = the operation did what it should
// (the coroutine was resumed / the wait returned what it must / the job was called), so a cell cannot pass by doing nothing.
//
//   coawait : {co_await std::move(f), Await, AwaitSticky, AwaitOn} x {variadic, (begin,count), (begin,end)} x {Future, FutureOn,
//             mixed (variadic only)} x n = 1,2,4,8,16 x {all ready, half ready, none ready}.  The window opens inside the
//             coroutine body immediately before the co_await expression and closes at the resumption: the frame allocation
//             of the coroutine is not inside; fulfilling the inputs and draining the executor are.
//   wait    : {Wait, WaitFor, WaitUntil} x {variadic (n <= 16), (begin,count), (begin,end)} x {Future, FutureOn} x
//             n = 1,2,4,8,9,16,64,512 x {all ready, half ready, none ready}; a timed wait on unready futures times out, an
//             untimed one is fulfilled by another thread (started before the window).
//   get     : Future::Get const& / && (ready; FutureOn; not ready + another thread), Task::Get.
//   strand  : Strand::Submit of an existing (stack) job: idle / 1..15 queued / second round after a drain / re-entrant (from a
//             job running on the strand) / over the inline executor / over the stopped inline executor (Drop) / strand over strand.
//
// Build: library kind `plain` (C++20, coroutines).  Run: `alloc` (everything) or `alloc <section>`.
#include <yaclib/async/contract.hpp>
#include <yaclib/async/future.hpp>
#include <yaclib/async/make.hpp>
#include <yaclib/async/run.hpp>
#include <yaclib/async/wait.hpp>
#include <yaclib/async/wait_for.hpp>
#include <yaclib/async/wait_until.hpp>
#include <yaclib/coro/await.hpp>
#include <yaclib/coro/await_on.hpp>
#include <yaclib/coro/await_sticky.hpp>
#include <yaclib/coro/future.hpp>
#include <yaclib/exe/inline.hpp>
#include <yaclib/exe/manual.hpp>
#include <yaclib/exe/strand.hpp>
#include <yaclib/lazy/schedule.hpp>
#include <yaclib/lazy/task.hpp>

#include <atomic>
#include <chrono>
#include <cstdio>
#include <cstdlib>
#include <cstring>
#include <new>
#include <string>
#include <thread>
#include <utility>
#include <vector>

// ------------------------------------------------------------------------------------------------ allocation counting
namespace cnt {
static std::atomic<bool> on{false};
static std::atomic<long> news{0};
struct Window {
  long a0;
  Window() : a0{news.load()} {
    on.store(true);
  }
  long Stop() {
    on.store(false);
    return news.load() - a0;
  }
};
}  // namespace cnt

static void* CountedAlloc(std::size_t n, std::size_t align) {
  void* p = align > alignof(std::max_align_t) ? std::aligned_alloc(align, (n + align - 1) / align * align) : std::malloc(n ? n : 1);
  if (p == nullptr) {
    std::abort();
  }
  if (cnt::on.load(std::memory_order_relaxed)) {
    cnt::news.fetch_add(1, std::memory_order_relaxed);
  }
  return p;
}
void* operator new(std::size_t n) {
  return CountedAlloc(n, 0);
}
void* operator new[](std::size_t n) {
  return CountedAlloc(n, 0);
}
void* operator new(std::size_t n, std::align_val_t a) {
  return CountedAlloc(n, static_cast<std::size_t>(a));
}
void* operator new[](std::size_t n, std::align_val_t a) {
  return CountedAlloc(n, static_cast<std::size_t>(a));
}
void* operator new(std::size_t n, const std::nothrow_t&) noexcept {
  return CountedAlloc(n, 0);
}
void* operator new[](std::size_t n, const std::nothrow_t&) noexcept {
  return CountedAlloc(n, 0);
}
void operator delete(void* p) noexcept {
  std::free(p);
}
void operator delete[](void* p) noexcept {
  std::free(p);
}
void operator delete(void* p, std::size_t) noexcept {
  std::free(p);
}
void operator delete[](void* p, std::size_t) noexcept {
  std::free(p);
}
void operator delete(void* p, std::align_val_t) noexcept {
  std::free(p);
}
void operator delete[](void* p, std::align_val_t) noexcept {
  std::free(p);
}
void operator delete(void* p, std::size_t, std::align_val_t) noexcept {
  std::free(p);
}
void operator delete[](void* p, std::size_t, std::align_val_t) noexcept {
  std::free(p);
}

// ------------------------------------------------------------------------------------------------ common
static yaclib::IExecutorPtr g_manual;
static const char* g_only = nullptr;
static long g_cells = 0;

static yaclib::ManualExecutor& Manual() {
  return static_cast<yaclib::ManualExecutor&>(*g_manual);
}

static void Report(const char* section, const std::string& what, long allocs, bool ok) {
  ++g_cells;
  std::printf("zero %s | %s | allocs=%ld ok=%d\n", section, what.c_str(), allocs, ok ? 1 : 0);
}

enum class Rdy { All, Half, None };
static const char* Name(Rdy r) {
  return r == Rdy::All ? "all ready" : r == Rdy::Half ? "half ready" : "none ready";
}
enum class Kind { Fut, On, Mixed };
static const char* Name(Kind k) {
  return k == Kind::Fut ? "Future" : k == Kind::On ? "FutureOn" : "mixed Future/FutureOn";
}

// n contracts of each future type; element i of a measurement is fu[i] or fo[i]
struct Inputs {
  std::vector<yaclib::Future<int>> fu;
  std::vector<yaclib::Promise<int>> pu;
  std::vector<yaclib::FutureOn<int>> fo;
  std::vector<yaclib::Promise<int>> po;
  std::vector<char> set_u, set_o;
  Kind kind;
  std::size_t n;

  Inputs(Kind k, std::size_t count, Rdy r) : kind{k}, n{count} {
    fu.reserve(n);
    pu.reserve(n);
    fo.reserve(n);
    po.reserve(n);
    set_u.assign(n, 0);
    set_o.assign(n, 0);
    for (std::size_t i = 0; i != n; ++i) {
      auto [f, p] = yaclib::MakeContract<int>();
      fu.push_back(std::move(f));
      pu.push_back(std::move(p));
      auto [g, q] = yaclib::MakeContractOn<int>(*g_manual);
      fo.push_back(std::move(g));
      po.push_back(std::move(q));
    }
    for (std::size_t i = 0; i != n; ++i) {
      if (r == Rdy::All || (r == Rdy::Half && i % 2 == 0)) {
        SetOne(i);
      }
    }
  }
  bool UsesOn(std::size_t i) const {
    return kind == Kind::On || (kind == Kind::Mixed && i % 2 == 1);
  }
  // no allocation in here: may run inside a window
  void SetOne(std::size_t i) {
    if (UsesOn(i)) {
      if (!set_o[i]) {
        set_o[i] = 1;
        std::move(po[i]).Set(static_cast<int>(i));
      }
    } else if (!set_u[i]) {
      set_u[i] = 1;
      std::move(pu[i]).Set(static_cast<int>(i));
    }
  }
  void SetAll() {
    for (std::size_t i = 0; i != n; ++i) {
      SetOne(i);
    }
  }
  bool AllReady() const {
    for (std::size_t i = 0; i != n; ++i) {
      if (UsesOn(i) ? !fo[i].Ready() : !fu[i].Ready()) {
        return false;
      }
    }
    return true;
  }
  // the unused twin contracts are fulfilled too, so that nothing is destroyed unfulfilled inside somebody's window
  void Cleanup() {
    for (std::size_t i = 0; i != n; ++i) {
      if (!set_u[i]) {
        set_u[i] = 1;
        std::move(pu[i]).Set(0);
      }
      if (!set_o[i]) {
        set_o[i] = 1;
        std::move(po[i]).Set(0);
      }
    }
  }
};

template <Kind K, std::size_t I>
static auto& Pick(Inputs& in) {
  if constexpr (K == Kind::On || (K == Kind::Mixed && I % 2 == 1)) {
    return in.fo[I];
  } else {
    return in.fu[I];
  }
}

// ------------------------------------------------------------------------------------------------ co_await
enum class Op { Await, Sticky, On };
static const char* Name(Op o) {
  return o == Op::Await ? "Await" : o == Op::Sticky ? "AwaitSticky" : "AwaitOn";
}
struct Out {
  long allocs = -1;
  bool resumed = false;
};

template <Op O, typename... F>
static yaclib::Future<> CoVariadic(Out& out, F&... f) {
  const long a0 = cnt::news.load();
  cnt::on.store(true);
  if constexpr (O == Op::Await) {
    co_await yaclib::Await(f...);
  } else if constexpr (O == Op::Sticky) {
    co_await yaclib::AwaitSticky(f...);
  } else {
    co_await yaclib::AwaitOn(*g_manual, f...);
  }
  cnt::on.store(false);
  out.allocs = cnt::news.load() - a0;
  out.resumed = true;
  co_return{};
}

template <Op O, bool ByEnd, typename F>
static yaclib::Future<> CoRange(Out& out, std::vector<F>& fs) {
  const long a0 = cnt::news.load();
  cnt::on.store(true);
  if constexpr (O == Op::Await) {
    if constexpr (ByEnd) {
      co_await yaclib::Await(fs.begin(), fs.end());
    } else {
      co_await yaclib::Await(fs.begin(), fs.size());
    }
  } else if constexpr (O == Op::Sticky) {
    if constexpr (ByEnd) {
      co_await yaclib::AwaitSticky(fs.begin(), fs.end());
    } else {
      co_await yaclib::AwaitSticky(fs.begin(), fs.size());
    }
  } else {
    if constexpr (ByEnd) {
      co_await yaclib::AwaitOn(*g_manual, fs.begin(), fs.end());
    } else {
      co_await yaclib::AwaitOn(*g_manual, fs.begin(), fs.size());
    }
  }
  cnt::on.store(false);
  out.allocs = cnt::news.load() - a0;
  out.resumed = true;
  co_return{};
}

template <typename F>
static yaclib::Future<> CoSingle(Out& out, F& f, int& got) {
  const long a0 = cnt::news.load();
  cnt::on.store(true);
  auto r = co_await std::move(f);
  cnt::on.store(false);
  out.allocs = cnt::news.load() - a0;
  out.resumed = true;
  got = r;
  co_return{};
}

// the inputs that are still pending are fulfilled and the executor drained with the window still open
static void Finish(Inputs& in, Out& out, yaclib::Future<>& co) {
  in.SetAll();
  for (int i = 0; i != 4 && !out.resumed; ++i) {
    (void)Manual().Drain();
  }
  cnt::on.store(false);
  (void)Manual().Drain();
  (void)co;
}

template <Op O, Kind K, std::size_t... Is>
static void AwaitVariadic(Rdy r, std::index_sequence<Is...>) {
  constexpr std::size_t n = sizeof...(Is);
  Inputs in{K, n, r};
  Out out;
  auto co = CoVariadic<O>(out, Pick<K, Is>(in)...);
  Finish(in, out, co);
  Report("coawait", std::string{"co_await "} + Name(O) + "(f1..fn) on " + std::to_string(n) + " " + Name(K) + ", " + Name(r),
         out.allocs, out.resumed && co.Ready() && in.AllReady());
  in.Cleanup();
}

template <Op O, Kind K>
static void AwaitVariadicAll(Rdy r) {
  AwaitVariadic<O, K>(r, std::make_index_sequence<1>{});
  AwaitVariadic<O, K>(r, std::make_index_sequence<2>{});
  AwaitVariadic<O, K>(r, std::make_index_sequence<4>{});
  AwaitVariadic<O, K>(r, std::make_index_sequence<8>{});
  AwaitVariadic<O, K>(r, std::make_index_sequence<16>{});
}

template <Op O, bool ByEnd>
static void AwaitRange(Kind k, std::size_t n, Rdy r) {
  Inputs in{k, n, r};
  Out out;
  auto co = k == Kind::On ? CoRange<O, ByEnd>(out, in.fo) : CoRange<O, ByEnd>(out, in.fu);
  Finish(in, out, co);
  Report("coawait",
         std::string{"co_await "} + Name(O) + (ByEnd ? "(begin,end) on " : "(begin,count) on ") + std::to_string(n) + " " + Name(k) +
           ", " + Name(r),
         out.allocs, out.resumed && co.Ready() && in.AllReady());
  in.Cleanup();
}

static void SectionAwait() {
  for (Rdy r : {Rdy::All, Rdy::Half, Rdy::None}) {
    AwaitVariadicAll<Op::Await, Kind::Fut>(r);
    AwaitVariadicAll<Op::Await, Kind::On>(r);
    AwaitVariadicAll<Op::Await, Kind::Mixed>(r);
    AwaitVariadicAll<Op::Sticky, Kind::Fut>(r);
    AwaitVariadicAll<Op::Sticky, Kind::On>(r);
    AwaitVariadicAll<Op::Sticky, Kind::Mixed>(r);
    AwaitVariadicAll<Op::On, Kind::Fut>(r);
    AwaitVariadicAll<Op::On, Kind::On>(r);
    AwaitVariadicAll<Op::On, Kind::Mixed>(r);
    for (Kind k : {Kind::Fut, Kind::On}) {
      for (std::size_t n : {1, 2, 4, 8, 16, 64}) {
        AwaitRange<Op::Await, false>(k, n, r);
        AwaitRange<Op::Await, true>(k, n, r);
        AwaitRange<Op::Sticky, false>(k, n, r);
        AwaitRange<Op::Sticky, true>(k, n, r);
        AwaitRange<Op::On, false>(k, n, r);
        AwaitRange<Op::On, true>(k, n, r);
      }
    }
  }
  for (Rdy r : {Rdy::All, Rdy::None}) {
    for (Kind k : {Kind::Fut, Kind::On}) {
      Inputs in{k, 1, r};
      Out out;
      int got = -2;
      auto co = k == Kind::On ? CoSingle(out, in.fo[0], got) : CoSingle(out, in.fu[0], got);
      in.SetAll();
      (void)Manual().Drain();
      cnt::on.store(false);
      Report("coawait", std::string{"co_await std::move(f) on 1 "} + Name(k) + ", " + Name(r), out.allocs,
             out.resumed && co.Ready() && got == 0);
      in.Cleanup();
    }
  }
}

// ------------------------------------------------------------------------------------------------ Wait / WaitFor / WaitUntil
enum class W { Wait, For, Until };
static const char* Name(W w) {
  return w == W::Wait ? "Wait" : w == W::For ? "WaitFor" : "WaitUntil";
}

// fulfils what is still pending from another thread once `go` is set (started before the window: its creation is not measured)
struct Helper {
  std::atomic<bool> go{false};
  std::thread t;
  explicit Helper(Inputs& in)
    : t{[this, &in] {
        while (!go.load(std::memory_order_acquire)) {
          std::this_thread::yield();
        }
        std::this_thread::sleep_for(std::chrono::microseconds{200});
        in.SetAll();
      }} {
  }
  ~Helper() {
    go.store(true, std::memory_order_release);
    t.join();
  }
};

template <W Op, typename... A>
static bool DoWait(A&&... a) {
  if constexpr (Op == W::Wait) {
    yaclib::Wait(std::forward<A>(a)...);
    return true;
  } else if constexpr (Op == W::For) {
    return yaclib::WaitFor(std::chrono::microseconds{50}, std::forward<A>(a)...);
  } else {
    return yaclib::WaitUntil(std::chrono::steady_clock::now() + std::chrono::microseconds{50}, std::forward<A>(a)...);
  }
}

// form 0 variadic, 1 (begin,count), 2 (begin,end)
template <W Op, Kind K, std::size_t... Is>
static void WaitVariadic(Rdy r, std::index_sequence<Is...>) {
  constexpr std::size_t n = sizeof...(Is);
  Inputs in{K, n, r};
  long allocs;
  bool ok;
  if (Op == W::Wait && r != Rdy::All) {
    Helper h{in};
    cnt::Window w;
    h.go.store(true, std::memory_order_release);
    DoWait<Op>(Pick<K, Is>(in)...);
    allocs = w.Stop();
    ok = in.AllReady();
  } else {
    const bool expect = in.AllReady();
    cnt::Window w;
    const bool got = DoWait<Op>(Pick<K, Is>(in)...);
    in.SetAll();  // after a time-out the futures must be usable again: fulfil and wait once more
    const bool again = DoWait<Op>(Pick<K, Is>(in)...);
    allocs = w.Stop();
    ok = got == expect && again && in.AllReady();
  }
  Report("wait", std::string{Name(Op)} + "(f1..fn) on " + std::to_string(n) + " " + Name(K) + ", " + Name(r), allocs, ok);
  in.Cleanup();
}

template <W Op, Kind K>
static void WaitVariadicAll(Rdy r) {
  WaitVariadic<Op, K>(r, std::make_index_sequence<1>{});
  WaitVariadic<Op, K>(r, std::make_index_sequence<2>{});
  WaitVariadic<Op, K>(r, std::make_index_sequence<4>{});
  WaitVariadic<Op, K>(r, std::make_index_sequence<8>{});
  WaitVariadic<Op, K>(r, std::make_index_sequence<9>{});
  WaitVariadic<Op, K>(r, std::make_index_sequence<16>{});
}

template <W Op, bool ByEnd, typename F>
static bool DoWaitRange(std::vector<F>& fs) {
  if constexpr (ByEnd) {
    return DoWait<Op>(fs.begin(), fs.end());
  } else {
    return DoWait<Op>(fs.begin(), fs.size());
  }
}

template <W Op, bool ByEnd>
static void WaitRangeCell(Kind k, std::size_t n, Rdy r) {
  Inputs in{k, n, r};
  auto call = [&] {
    return k == Kind::On ? DoWaitRange<Op, ByEnd>(in.fo) : DoWaitRange<Op, ByEnd>(in.fu);
  };
  long allocs;
  bool ok;
  if (Op == W::Wait && r != Rdy::All) {
    Helper h{in};
    cnt::Window w;
    h.go.store(true, std::memory_order_release);
    call();
    allocs = w.Stop();
    ok = in.AllReady();
  } else {
    const bool expect = in.AllReady();
    cnt::Window w;
    const bool got = call();
    in.SetAll();
    const bool again = call();
    allocs = w.Stop();
    ok = got == expect && again && in.AllReady();
  }
  Report("wait", std::string{Name(Op)} + (ByEnd ? "(begin,end) on " : "(begin,count) on ") + std::to_string(n) + " " + Name(k) + ", " +
                   Name(r),
         allocs, ok);
  in.Cleanup();
}

template <W Op>
static void WaitAll() {
  for (Rdy r : {Rdy::All, Rdy::Half, Rdy::None}) {
    WaitVariadicAll<Op, Kind::Fut>(r);
    WaitVariadicAll<Op, Kind::On>(r);
    WaitVariadicAll<Op, Kind::Mixed>(r);
    for (Kind k : {Kind::Fut, Kind::On}) {
      for (std::size_t n : {1, 2, 4, 8, 9, 16, 64, 512}) {
        WaitRangeCell<Op, false>(k, n, r);
        WaitRangeCell<Op, true>(k, n, r);
      }
    }
  }
}

static void SectionWait() {
  WaitAll<W::Wait>();
  WaitAll<W::For>();
  WaitAll<W::Until>();
}

// ------------------------------------------------------------------------------------------------ Get
static void SectionGet() {
  {
    auto f = yaclib::MakeFuture<int>(1);
    cnt::Window w;
    const auto* p = std::as_const(f).Get();
    auto r = std::move(f).Get();
    const long a = w.Stop();
    Report("get", "Get() const& and Get() && on a ready Future (MakeFuture)", a, p != nullptr && r && std::move(r).Ok() == 1);
  }
  {
    auto [f, p] = yaclib::MakeContract<int>();
    std::move(p).Set(2);
    cnt::Window w;
    auto r = std::move(f).Get();
    const long a = w.Stop();
    Report("get", "Get() && on a fulfilled contract", a, r && std::move(r).Ok() == 2);
  }
  {
    auto [f, p] = yaclib::MakeContractOn<int>(*g_manual);
    std::move(p).Set(3);
    cnt::Window w;
    auto r = std::move(f).Get();
    const long a = w.Stop();
    Report("get", "Get() && on a fulfilled FutureOn", a, r && std::move(r).Ok() == 3);
  }
  {
    auto f = yaclib::Run(*g_manual, [] {
      return 5;
    });
    (void)Manual().Drain();
    cnt::Window w;
    auto r = std::move(f).Get();
    const long a = w.Stop();
    Report("get", "Get() && on a completed FutureOn (Run on a manual executor)", a, r && std::move(r).Ok() == 5);
  }
  for (Kind k : {Kind::Fut, Kind::On}) {
    Inputs in{k, 1, Rdy::None};
    long a;
    bool ok;
    {
      Helper h{in};
      cnt::Window w;
      h.go.store(true, std::memory_order_release);
      if (k == Kind::On) {
        auto r = std::move(in.fo[0]).Get();
        a = w.Stop();
        ok = r && std::move(r).Ok() == 0;
      } else {
        auto r = std::move(in.fu[0]).Get();
        a = w.Stop();
        ok = r && std::move(r).Ok() == 0;
      }
    }
    Report("get", std::string{"Get() && on a not ready "} + Name(k) + " fulfilled by another thread", a, ok);
    in.Cleanup();
  }
  {
    auto t = yaclib::Schedule([] {
      return 7;
    });
    cnt::Window w;
    auto r = std::move(t).Get();
    const long a = w.Stop();
    Report("get", "Task::Get() && (Schedule on the inline executor)", a, r && std::move(r).Ok() == 7);
  }
}

// ------------------------------------------------------------------------------------------------ Strand
struct TestJob final : yaclib::Job {
  int calls = 0;
  int drops = 0;
  yaclib::IExecutor* resubmit_to = nullptr;
  TestJob* other = nullptr;
  long inner_allocs = -1;

  void Call() noexcept final {
    ++calls;
    if (resubmit_to != nullptr) {
      const long a0 = cnt::news.load();
      resubmit_to->Submit(*other);
      inner_allocs = cnt::news.load() - a0;
    }
  }
  void Drop() noexcept final {
    ++drops;
  }
};

static void SectionStrand() {
  {
    auto strand = yaclib::MakeStrand(g_manual);
    TestJob jobs[16];
    for (int round = 0; round != 2; ++round) {
      for (int i = 0; i != 16; ++i) {
        cnt::Window w;
        strand->Submit(jobs[i]);
        const long a = w.Stop();
        Report("strand", "round " + std::to_string(round) + ": Submit to a strand over a manual executor with " + std::to_string(i) +
                           " queued job(s)",
               a, true);
      }
      cnt::Window w;
      (void)Manual().Drain();
      const long a = w.Stop();
      bool ok = true;
      for (auto& j : jobs) {
        ok = ok && j.calls == round + 1 && j.drops == 0;
      }
      Report("strand", "round " + std::to_string(round) + ": the strand runs its 16 jobs", a, ok);
    }
  }
  {  // re-entrant: a job running on the strand submits another job to the same strand
    auto strand = yaclib::MakeStrand(g_manual);
    TestJob a, b;
    a.resubmit_to = strand.Get();
    a.other = &b;
    cnt::Window w;
    strand->Submit(a);
    (void)Manual().Drain();
    (void)Manual().Drain();
    const long n = w.Stop();
    Report("strand", "re-entrant Submit from a job running on the strand", n, a.calls == 1 && b.calls == 1 && a.inner_allocs == 0);
  }
  {  // a job submitted while the strand is running (queued behind the running batch)
    auto strand = yaclib::MakeStrand(g_manual);
    TestJob a, b, c;
    a.resubmit_to = strand.Get();
    a.other = &c;
    cnt::Window w;
    strand->Submit(a);
    strand->Submit(b);
    for (int i = 0; i != 3; ++i) {
      (void)Manual().Drain();
    }
    const long n = w.Stop();
    Report("strand", "Submit to a running strand that has another job queued", n, a.calls == 1 && b.calls == 1 && c.calls == 1);
  }
  {
    auto strand = yaclib::MakeStrand(&yaclib::MakeInline());
    TestJob jobs[4];
    bool ok = true;
    cnt::Window w;
    for (auto& j : jobs) {
      strand->Submit(j);
      ok = ok && j.calls == 1;
    }
    const long n = w.Stop();
    Report("strand", "Submit to a strand over the inline executor (4 jobs, each runs in place)", n, ok);
  }
  {
    auto strand = yaclib::MakeStrand(&yaclib::MakeInline(yaclib::StopTag{}));
    TestJob jobs[4];
    bool ok = true;
    cnt::Window w;
    for (auto& j : jobs) {
      strand->Submit(j);
      ok = ok && j.calls == 0 && j.drops == 1;
    }
    const long n = w.Stop();
    Report("strand", "Submit to a strand over the stopped inline executor (4 jobs, each Dropped)", n, ok);
  }
  {
    auto inner = yaclib::MakeStrand(g_manual);
    auto outer = yaclib::MakeStrand(inner);
    TestJob jobs[8];
    cnt::Window w;
    for (auto& j : jobs) {
      outer->Submit(j);
    }
    for (int i = 0; i != 3; ++i) {
      (void)Manual().Drain();
    }
    const long n = w.Stop();
    bool ok = true;
    for (auto& j : jobs) {
      ok = ok && j.calls == 1;
    }
    Report("strand", "Submit to a strand over a strand over a manual executor (8 jobs)", n, ok);
  }
}

static bool Want(const char* s) {
  return g_only == nullptr || std::strcmp(g_only, s) == 0;
}

int main(int argc, char** argv) {
  g_only = argc > 1 ? argv[1] : nullptr;
  g_manual = yaclib::MakeManual();
  if (Want("coawait")) {
    SectionAwait();
  }
  if (Want("wait")) {
    SectionWait();
  }
  if (Want("get")) {
    SectionGet();
  }
  if (Want("strand")) {
    SectionStrand();
  }
  std::printf("cells %ld\n", g_cells);
  return 0;
}
