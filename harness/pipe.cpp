// pipe — single-threaded run-time pipeline interpreter over PRE-INSTANTIATED yaclib templates
// (T3 differential for C02 / C05 / C12 / C20 / C03-sequential; line format: see lean/Driver/Pipeline.lean).
//
//   value type int, error type PErr{code} (StopTag -> code 0), exceptions PExc{tag}
//   functors: move-only, instance counted (Token), one class per (argument class x static return class)
//   handles : std::variant<Future, FutureOn, Task> (+ SharedFuture as a functor return)
//   executors: instrumented user executors (FIFO queue on yaclib::detail::List, or Call-inside-Submit), programmable
//              rejection after `limit` accepted Submits, a context stack telling every functor body where it runs
//   global operator new/delete counted while library calls are in progress
//
// Every program (lines up to `end`) runs in a forked child, so a crash of the library is reported as `crash`
// for the remaining lines of that program instead of killing the harness.
#include <yaclib/async/contract.hpp>
#include <yaclib/async/join.hpp>
#include <yaclib/async/wait.hpp>
#include <yaclib/async/wait_for.hpp>
#include <yaclib/async/when_all.hpp>
#include <yaclib/async/when_any.hpp>
#include <yaclib/async/make.hpp>
#include <yaclib/async/run.hpp>
#include <yaclib/async/shared_contract.hpp>
#include <yaclib/async/share.hpp>
#include <yaclib/async/shared_future.hpp>
#include <yaclib/exe/executor.hpp>
#include <yaclib/exe/manual.hpp>
#include <yaclib/exe/submit.hpp>
#include <yaclib/lazy/make.hpp>
#include <yaclib/lazy/schedule.hpp>
#include <yaclib/lazy/task.hpp>
#include <yaclib/util/detail/intrusive_list.hpp>

#include <sys/wait.h>
#include <unistd.h>

#include <chrono>
#include <cstdio>
#include <cstdlib>
#include <cstring>
#include <exception>
#include <iostream>
#include <memory>
#include <map>
#include <new>
#include <optional>
#include <sstream>
#include <stdexcept>
#include <string>
#include <variant>
#include <vector>

// ------------------------------------------------------------------------------------------------ allocation counting
namespace cnt {
static bool on = false;            // counting enabled (library code is running)
static long news = 0;              // operator new calls while `on`
static long live = 0;              // counted blocks not yet deleted
static constexpr size_t kTab = 1u << 14;
static void* tab[kTab];            // open addressing set of counted blocks
static void Insert(void* p) {
  size_t i = (reinterpret_cast<uintptr_t>(p) >> 4) & (kTab - 1);
  while (tab[i] != nullptr && tab[i] != reinterpret_cast<void*>(1)) {
    i = (i + 1) & (kTab - 1);
  }
  tab[i] = p;
}
static bool Erase(void* p) {
  size_t i = (reinterpret_cast<uintptr_t>(p) >> 4) & (kTab - 1);
  for (size_t n = 0; n < kTab && tab[i] != nullptr; ++n, i = (i + 1) & (kTab - 1)) {
    if (tab[i] == p) {
      tab[i] = reinterpret_cast<void*>(1);
      return true;
    }
  }
  return false;
}
struct Off {  // harness bookkeeping inside a library call
  bool prev;
  Off() : prev{on} {
    on = false;
  }
  ~Off() {
    on = prev;
  }
};
struct On {  // a library call
  bool prev;
  On() : prev{on} {
    on = true;
  }
  ~On() {
    on = prev;
  }
};
}  // namespace cnt

void* operator new(std::size_t n) {
  void* p = std::malloc(n ? n : 1);
  if (p == nullptr) {
    throw std::bad_alloc{};
  }
  if (cnt::on) {
    ++cnt::news;
    ++cnt::live;
    cnt::Insert(p);
  }
  return p;
}
void operator delete(void* p) noexcept {
  if (p != nullptr && cnt::Erase(p)) {
    --cnt::live;
  }
  std::free(p);
}
void operator delete(void* p, std::size_t) noexcept {
  operator delete(p);
}

// ------------------------------------------------------------------------------------------------ value / error types
struct PErr {
  int code;
  PErr(yaclib::StopTag) noexcept : code{0} {
  }
  explicit PErr(int c) noexcept : code{c} {
  }
  static const char* What() noexcept {
    return "PErr";
  }
};
struct PExc {
  int tag;
};

// the value type of every pipeline: an int whose moved-from state is visible (`dead`), so that a value moved out from under
// a holder that may still read it shows up in the output
struct Val {
  static constexpr int kDead = -777777;
  int v = 0;
  Val() noexcept = default;
  Val(int x) noexcept : v{x} {  // NOLINT
  }
  Val(const Val&) noexcept = default;
  Val& operator=(const Val&) noexcept = default;
  Val(Val&& o) noexcept : v{o.v} {
    o.v = kDead;
  }
  Val& operator=(Val&& o) noexcept {
    v = o.v;
    if (this != &o) {
      o.v = kDead;
    }
    return *this;
  }
};

using Res = yaclib::Result<Val, PErr>;
using ResV = yaclib::Result<void, PErr>;
using Fut = yaclib::Future<Val, PErr>;
using FutOn = yaclib::FutureOn<Val, PErr>;
using Tsk = yaclib::Task<Val, PErr>;
using Shr = yaclib::SharedFuture<Val, PErr>;
using Prom = yaclib::Promise<Val, PErr>;
using SProm = yaclib::SharedPromise<Val, PErr>;

struct RVal {
  char k = 'v';  // v e x
  long n = 0;
};
static std::string Show(const RVal& r) {
  if (r.k == 'd') {
    return "dead";  // a moved-from value was read
  }
  return std::string(1, r.k) + std::to_string(r.n);
}
static RVal ExcToR(const std::exception_ptr& p) {
  try {
    std::rethrow_exception(p);
  } catch (const PExc& e) {
    return {'x', e.tag};
  } catch (...) {
    return {'x', 888888};  // an exception the harness did not throw
  }
}
template <typename V>
static RVal ToR(const yaclib::Result<V, PErr>& r) {
  switch (r.State()) {
    case yaclib::ResultState::Value:
      if constexpr (std::is_void_v<V>) {
        return {'v', 0};
      } else {
        return ToR(r.Value());
      }
    case yaclib::ResultState::Error:
      return {'e', r.Error().code};
    case yaclib::ResultState::Exception:
      return ExcToR(r.Exception());
    default:
      return {'x', 777777};  // Empty
  }
}
static RVal ToR(const Val& v) {
  if (v.v == Val::kDead) {
    return {'d', 0};
  }
  return {'v', v.v};
}
[[maybe_unused]] static RVal ToR(int v) {
  return {'v', v};
}
static RVal ToR(const PErr& e) {
  return {'e', e.code};
}
static RVal ToR(const std::exception_ptr& p) {
  return ExcToR(p);
}
static Res MakeRes(const RVal& r) {
  switch (r.k) {
    case 'v':
      return Res{Val{static_cast<int>(r.n)}};
    case 'e':
      return Res{PErr{static_cast<int>(r.n)}};
    default:
      return Res{std::make_exception_ptr(PExc{static_cast<int>(r.n)})};
  }
}

// ------------------------------------------------------------------------------------------------ program description
enum class Md { Inline, On, Inherit, DetachInline, Detach, DetachInherit };
struct ExRef {
  char kind = 'i';  // i = MakeInline(), s = MakeInline(StopTag), u = user
  int k = 0;
};
struct BehD {
  char kind = 'v';  // v val, r res, t throw, a async
  long k = 0;
  RVal r;
  int pid = 0;
};
struct StepD {
  int id = 0;
  char sig = 'V';
  char spell = 0;  // how the parameter is SPELLED (0 = by value): r T&&, c const T&, a auto&&, g auto (R) / a generic constrained to V (V)
  Md mode = Md::Inline;
  ExRef ex;
  BehD beh;
};
struct FulD {
  bool drop = false;
  RVal r;
};
struct SrcD {
  int h = 0;  // shared_handle: which kept SharedFuture
  std::string kind;  // ready contract contract_on run async_contract task_ready schedule lazy_contract shared_ready shared_contract
  RVal r;
  ExRef ex;
  int p = 0;
  FulD ful;
  StepD head;
};
struct ProgD {
  SrcD src;
  std::vector<StepD> steps;
};

// ------------------------------------------------------------------------------------------------ global run state
struct RanE {
  int id;
  int ctx;  // -1 = none
};
struct JobE {
  int jid;
  bool called;
};
struct World;
static World* W = nullptr;

class UserExec;
// a job handed to the library's real ManualExecutor on behalf of a pipeline job (fixed pool, no heap)
struct Proxy final : yaclib::Job {
  yaclib::Job* real = nullptr;
  UserExec* owner = nullptr;
  int jid = 0;
  void Call() noexcept final;
};

class UserExec final : public yaclib::IExecutor {
 public:
  int k = 0;
  bool queue = true;
  bool manual = false;  // queue backed by the library's yaclib::ManualExecutor (Drain() runs every queued job)
  long limit = -1;
  long accepted = 0;

  [[nodiscard]] Type Tag() const noexcept final {
    return Type::Custom;
  }
  [[nodiscard]] bool Alive() const noexcept final {
    return limit < 0 || accepted < limit;
  }
  void Submit(yaclib::Job& job) noexcept final;
  bool CallOne() noexcept;
  bool Empty() const noexcept {
    return _head == _tail;
  }

 private:
  yaclib::detail::List _tasks;
  int _jids[1024];
  int _head = 0, _tail = 0;
  yaclib::ManualExecutor _manual;
  Proxy _proxies[64];
  int _next_proxy = 0;
};

struct World {
  std::map<int, UserExec> execs;
  std::map<int, ProgD> inner;
  std::vector<int> inv;
  std::vector<RanE> ran;
  std::vector<JobE> jobs;
  std::vector<int> subs;
  std::vector<int> ctx;
  std::map<int, Prom> proms;
  std::map<int, SProm> sproms;
  std::map<int, FulD> fuls;
  // SharedFuture handles the client keeps for the whole program (`shared s<j> …`) and observes again (`obs s<j>`)
  struct Kept {
    std::vector<Shr> handles;
    int p = 0;
    bool set = false;
  };
  std::map<int, Kept> kept;
  std::vector<std::pair<int, Shr>> stash;  // copies consumed by a Then on a not yet ready kept handle: held until its promise is used
  long virt_news = 0;                      // copies of kept handles handed to the pipeline (the model counts each as one source core)
  std::vector<std::string> asserts;
  long live_tokens = 0;
  long live_states = 0;  // heap states owned by free-job functors (OwnFn)
  bool bad = false;

  World() {
    inv.reserve(4096);
    ran.reserve(4096);
    jobs.reserve(4096);
    subs.reserve(4096);
    ctx.reserve(256);
  }
  int Ctx() const {
    return ctx.empty() ? -1 : ctx.back();
  }
};

void UserExec::Submit(yaclib::Job& job) noexcept {
  cnt::Off off;
  const int jid = static_cast<int>(W->subs.size());
  W->subs.push_back(k);
  if (!Alive()) {
    W->jobs.push_back({jid, false});
    W->ctx.push_back(k);
    {
      cnt::On on;
      job.Drop();
    }
    W->ctx.pop_back();
    return;
  }
  ++accepted;
  if (manual) {
    Proxy& p = _proxies[_next_proxy++ & 63];
    p.next = nullptr;
    p.real = &job;
    p.owner = this;
    p.jid = jid;
    _manual.Submit(p);
    return;
  }
  if (queue) {
    _jids[_tail++ & 1023] = jid;
    _tasks.PushBack(job);
    return;
  }
  W->jobs.push_back({jid, true});
  W->ctx.push_back(k);
  {
    cnt::On on;
    job.Call();
  }
  W->ctx.pop_back();
}

void Proxy::Call() noexcept {
  cnt::Off off;
  W->jobs.push_back({jid, true});
  W->ctx.push_back(owner->k);
  {
    cnt::On on;
    real->Call();
  }
  W->ctx.pop_back();
}

bool UserExec::CallOne() noexcept {
  if (manual) {
    cnt::On on;
    return _manual.Drain() != 0;
  }
  if (_tasks.Empty()) {
    return false;
  }
  const int jid = _jids[_head++ & 1023];
  auto& job = static_cast<yaclib::Job&>(_tasks.PopFront());
  W->jobs.push_back({jid, true});
  W->ctx.push_back(k);
  {
    cnt::On on;
    job.Call();
  }
  W->ctx.pop_back();
  return true;
}

static yaclib::IExecutor& Exec(const ExRef& e) {
  switch (e.kind) {
    case 'i':
      return yaclib::MakeInline();
    case 's':
      return yaclib::MakeInline(yaclib::StopTag{});
    default: {
      cnt::Off off;  // an executor that no cfg line declared is created here: not a library allocation
      auto& x = W->execs[e.k];
      x.k = e.k;
      return x;
    }
  }
}

// ------------------------------------------------------------------------------------------------ functors
struct Token {
  Token() noexcept {
    ++W->live_tokens;
  }
  Token(Token&&) noexcept {
    ++W->live_tokens;
  }
  Token(const Token&) = delete;
  Token& operator=(Token&&) = delete;
  ~Token() {
    --W->live_tokens;
  }
};

using Handle = std::variant<std::monostate, Fut, FutOn, Tsk, Shr>;
static Handle Build(const ProgD& p);

template <typename Ret>
static Ret Body(const StepD* d, const RVal& in) {
  cnt::Off off;
  W->inv.push_back(d->id);
  W->ran.push_back({d->id, W->Ctx()});
  const BehD& b = d->beh;
  if (b.kind == 't') {
    throw PExc{static_cast<int>(b.k)};
  }
  if constexpr (std::is_void_v<Ret>) {
    return;
  } else if constexpr (std::is_same_v<Ret, Val>) {
    return Val{static_cast<int>(in.k == 'v' ? in.n + b.k : b.k)};
  } else if constexpr (std::is_same_v<Ret, Res>) {
    return MakeRes(b.r);
  } else {
    Handle h = Build(W->inner.at(b.pid));
    if constexpr (std::is_same_v<Ret, Fut>) {
      if (auto* f = std::get_if<Fut>(&h)) {
        return std::move(*f);
      }
      return std::move(std::get<FutOn>(h)).On(nullptr);
    } else {
      return std::move(std::get<Ret>(h));
    }
  }
}

template <typename Arg, typename Ret>
struct Fn {
  const StepD* d;
  Token tok;
  Ret operator()(Arg a) {
    return Body<Ret>(d, ToR(a));
  }
};
// parameter SPELLINGS other than "by value": the first template argument of Fn is the parameter type itself (Res&&,
// const Res&, …) or one of these tags for generic parameters
struct AnyRef {};   // template <typename T> operator()(T&&)   — `auto&&`: invocable with everything, hence a Result callback
struct AnyVal {};   // template <typename T> operator()(T)     — `auto`
struct SameVal {};  // a generic parameter constrained to the value type: a value callback
template <typename Ret>
struct Fn<AnyRef, Ret> {
  const StepD* d;
  Token tok;
  template <typename T>
  Ret operator()(T&& a) {
    return Body<Ret>(d, ToR(a));
  }
};
template <typename Ret>
struct Fn<AnyVal, Ret> {
  const StepD* d;
  Token tok;
  template <typename T>
  Ret operator()(T a) {
    return Body<Ret>(d, ToR(a));
  }
};
template <typename Ret>
struct Fn<SameVal, Ret> {
  const StepD* d;
  Token tok;
  template <typename T, typename = std::enable_if_t<std::is_same_v<std::decay_t<T>, Val>>>
  Ret operator()(T&& a) {
    return Body<Ret>(d, ToR(a));
  }
};
template <typename Ret>
struct Fn0 {
  const StepD* d;
  Token tok;
  Ret operator()() {
    return Body<Ret>(d, RVal{'v', 0});
  }
};
// a job that is not a pipeline step: a functor handed to yaclib::Submit(executor, f) (exe/submit.hpp).  It OWNS heap state
// (its tag; instance-counted) so that a moved-from or aliased functor is visible: a husk logs kHusk, a functor that shares
// the caller's object logs the caller's current tag.  It logs itself like a callback and then ends as its outcome says.
struct UserStruct {
  int what;
};
struct OwnFn {
  static constexpr int kHusk = 999999;
  int* st = nullptr;  // owned; nullptr = moved-from
  char out = 'r';     // r returns, s throws std::runtime_error, i throws an int, u throws a user struct
  OwnFn(int tag, char o) : out{o} {
    cnt::Off off;
    st = new int{tag};
    ++W->live_states;
    ++W->live_tokens;
  }
  OwnFn(const OwnFn& o) : out{o.out} {
    cnt::Off off;
    if (o.st != nullptr) {
      st = new int{*o.st};
      ++W->live_states;
    }
    ++W->live_tokens;
  }
  OwnFn(OwnFn&& o) noexcept : st{o.st}, out{o.out} {
    o.st = nullptr;
    ++W->live_tokens;
  }
  OwnFn& operator=(const OwnFn&) = delete;
  OwnFn& operator=(OwnFn&&) = delete;
  ~OwnFn() {
    cnt::Off off;
    if (st != nullptr) {
      delete st;
      --W->live_states;
    }
    --W->live_tokens;
  }
  int Tag() const {
    return st != nullptr ? *st : kHusk;
  }
  void operator()() {
    cnt::Off off;
    W->inv.push_back(Tag());
    W->ran.push_back({Tag(), W->Ctx()});
    switch (out) {
      case 's':
        throw std::runtime_error{"free job"};
      case 'i':
        throw 42;
      case 'u':
        throw UserStruct{7};
      default:
        break;
    }
  }
};
struct PromFn {
  int p;
  bool shared;
  Token tok;
  void operator()(Prom pr) {
    cnt::Off off;
    W->proms.insert_or_assign(p, std::move(pr));
  }
};

static_assert(!yaclib::is_invocable_v<Fn<Val, Val>, Res> && !yaclib::is_invocable_v<Fn<Val, Val>, PErr> &&
              !yaclib::is_invocable_v<Fn<Val, Val>, std::exception_ptr>);
static_assert(!yaclib::is_invocable_v<Fn<PErr, Val>, Res> && !yaclib::is_invocable_v<Fn<PErr, Val>, Val> &&
              !yaclib::is_invocable_v<Fn<PErr, Val>, std::exception_ptr>);
static_assert(!yaclib::is_invocable_v<Fn<std::exception_ptr, Val>, Res> &&
              !yaclib::is_invocable_v<Fn<std::exception_ptr, Val>, Val> &&
              !yaclib::is_invocable_v<Fn<std::exception_ptr, Val>, PErr>);
static_assert(yaclib::is_invocable_v<Fn<Res, Val>, Res> && yaclib::is_invocable_v<Fn<Res, Val>, Val> &&
              yaclib::is_invocable_v<Fn<Res, Val>, PErr> && yaclib::is_invocable_v<Fn<Res, Val>, std::exception_ptr>);

// static kind of the handle a program produces: F Future, O FutureOn, T Task, S SharedFuture, N nothing, B ill-typed
static char KindOfStep(char k, const StepD& s) {
  switch (s.mode) {
    case Md::Inline:
      return (k == 'F' || k == 'O' || k == 'T') ? k : (k == 'S' ? 'F' : 'B');
    case Md::On:
      return (k == 'F' || k == 'O' || k == 'S') ? 'O' : (k == 'T' ? 'T' : 'B');
    case Md::Inherit:
      return (k == 'O' || k == 'T') ? k : 'B';
    case Md::DetachInline:
    case Md::Detach:
      return (k == 'F' || k == 'O') ? 'N' : 'B';
    case Md::DetachInherit:
      return k == 'O' ? 'N' : 'B';
  }
  return 'B';
}
static char KindOfSrc(const SrcD& s) {
  if (s.kind == "ready" || s.kind == "contract") {
    return 'F';
  }
  if (s.kind == "contract_on") {
    return 'O';
  }
  if (s.kind == "run" || s.kind == "async_contract") {
    return s.ex.kind == 'i' ? 'F' : 'O';
  }
  if (s.kind == "task_ready" || s.kind == "schedule" || s.kind == "lazy_contract") {
    return 'T';
  }
  if (s.kind == "shared_ready" || s.kind == "shared_contract" || s.kind == "shared_handle") {
    return 'S';
  }
  if (s.kind == "share") {
    return 'F';
  }
  if (s.kind == "share_on") {
    return 'O';
  }
  return 'B';
}
static char KindOf(const ProgD& p) {
  char k = KindOfSrc(p.src);
  for (const auto& s : p.steps) {
    k = KindOfStep(k, s);
  }
  return k;
}
// static return class of a functor: i int, r Result, v void, F O T S
static char RetClass(const StepD& s) {
  const bool det = s.mode == Md::DetachInline || s.mode == Md::Detach || s.mode == Md::DetachInherit;
  switch (s.beh.kind) {
    case 'v':
    case 't':
      return det ? 'v' : 'i';
    case 'r':
      return det ? 'B' : 'r';
    default: {
      if (det) {
        return 'B';
      }
      auto it = W->inner.find(s.beh.pid);
      if (it == W->inner.end()) {
        return 'B';
      }
      const char k = KindOf(it->second);
      return (k == 'F' || k == 'O' || k == 'T' || k == 'S') ? k : 'B';
    }
  }
}

template <typename H, typename FnT>
static Handle AttachFn(H&& h, const StepD& s, FnT&& fn) {
  using HT = std::decay_t<H>;
  cnt::On on;
  switch (s.mode) {
    case Md::Inline:
      return Handle{std::move(h).ThenInline(std::move(fn))};
    case Md::On:
      return Handle{std::move(h).Then(Exec(s.ex), std::move(fn))};
    case Md::Inherit:
      if constexpr (!std::is_same_v<HT, Fut>) {
        return Handle{std::move(h).Then(std::move(fn))};
      }
      break;
    default:
      break;
  }
  W->bad = true;
  return Handle{};
}
// a copy of a kept SharedFuture that the pipeline gives up before the SharedFuture is ready stays alive until its promise is
// used: in the model the source of a pipeline is released when it completes (for the Drop callback / its first consumer)
static void StashUntilSet(Shr&& h) {
  for (auto& [j, k] : W->kept) {
    if (k.handles[0].GetCore().Get() == h.GetCore().Get()) {
      W->stash.emplace_back(k.p, std::move(h));
      return;
    }
  }
}
template <typename FnT>
static Handle AttachFn(Shr&& h, const StepD& s, FnT&& fn) {
  // a continuation on a COPY of a kept SharedFuture; a copy that is not ready yet stays alive until its promise is used
  // (the model releases the source when its first consumer completes)
  const bool ready = h.Ready();
  Handle out;
  {
    cnt::On on;
    switch (s.mode) {
      case Md::Inline:
        out = Handle{h.ThenInline(std::move(fn))};
        break;
      case Md::On:
        out = Handle{h.Then(Exec(s.ex), std::move(fn))};
        break;
      default:
        W->bad = true;
        return Handle{};
    }
  }
  if (!ready) {
    StashUntilSet(std::move(h));
  }
  return out;
}
template <typename H, typename FnT>
static Handle DetachFn(H&& h, const StepD& s, FnT&& fn) {
  using HT = std::decay_t<H>;
  cnt::On on;
  if constexpr (std::is_same_v<HT, Fut> || std::is_same_v<HT, FutOn>) {
    switch (s.mode) {
      case Md::DetachInline:
        std::move(h).DetachInline(std::move(fn));
        return Handle{};
      case Md::Detach:
        std::move(h).Detach(Exec(s.ex), std::move(fn));
        return Handle{};
      case Md::DetachInherit:
        if constexpr (std::is_same_v<HT, FutOn>) {
          std::move(h).Detach(std::move(fn));
          return Handle{};
        }
        break;
      default:
        break;
    }
  }
  W->bad = true;
  return Handle{};
}

// Full: every return class; otherwise (the non-default spellings) int / Result / void: the dispatch on the PARAMETER does not
// depend on what the functor returns, and every instantiation costs compile time
template <typename H, typename Arg, bool Full>
static Handle AttachArg(H&& h, const StepD& s) {
  switch (RetClass(s)) {
    case 'i':
      return AttachFn(std::move(h), s, Fn<Arg, Val>{&s, {}});
    case 'r':
      return AttachFn(std::move(h), s, Fn<Arg, Res>{&s, {}});
    case 'v':
      return DetachFn(std::move(h), s, Fn<Arg, void>{&s, {}});
    default:
      break;
  }
  if constexpr (Full) {
    switch (RetClass(s)) {
      case 'F':
        return AttachFn(std::move(h), s, Fn<Arg, Fut>{&s, {}});
      case 'O':
        return AttachFn(std::move(h), s, Fn<Arg, FutOn>{&s, {}});
      case 'T':
        return AttachFn(std::move(h), s, Fn<Arg, Tsk>{&s, {}});
      case 'S':
        return AttachFn(std::move(h), s, Fn<Arg, Shr>{&s, {}});
      default:
        break;
    }
  }
  W->bad = true;
  return Handle{};
}
template <typename H>
static Handle AttachH(H&& h, const StepD& s) {
  // a SharedFuture passes `const Result&` / `const V&` / `const E&`: the && spellings do not compile there
  constexpr bool kUnique = !std::is_same_v<std::decay_t<H>, Shr>;
  switch (s.sig) {
    case 'R':
      switch (s.spell) {
        case 0:
          return AttachArg<H, Res, true>(std::move(h), s);
        case 'c':
          return AttachArg<H, const Res&, false>(std::move(h), s);
        case 'a':
          return AttachArg<H, AnyRef, false>(std::move(h), s);
        case 'g':
          return AttachArg<H, AnyVal, false>(std::move(h), s);
        case 'r':
          if constexpr (kUnique) {
            return AttachArg<H, Res&&, false>(std::move(h), s);
          }
          break;
        default:
          break;
      }
      break;
    case 'V':
      switch (s.spell) {
        case 0:
          return AttachArg<H, Val, true>(std::move(h), s);
        case 'c':
          return AttachArg<H, const Val&, false>(std::move(h), s);
        case 'g':
          return AttachArg<H, SameVal, false>(std::move(h), s);
        case 'r':
          if constexpr (kUnique) {
            return AttachArg<H, Val&&, false>(std::move(h), s);
          }
          break;
        default:
          break;
      }
      break;
    case 'E':
      switch (s.spell) {
        case 0:
          return AttachArg<H, PErr, true>(std::move(h), s);
        case 'c':
          return AttachArg<H, const PErr&, false>(std::move(h), s);
        default:  // `E&&` does not compile: CallResolveState passes the stored error as an lvalue (std::get of Internal())
          break;
      }
      break;
    case 'X':
      switch (s.spell) {
        case 0:
          return AttachArg<H, std::exception_ptr, true>(std::move(h), s);
        case 'c':
          return AttachArg<H, const std::exception_ptr&, false>(std::move(h), s);
        default:
          break;
      }
      break;
    default:
      break;
  }
  W->bad = true;
  return Handle{};
}
static Handle Attach(Handle h, const StepD& s) {
  if (auto* f = std::get_if<Fut>(&h)) {
    return AttachH(std::move(*f), s);
  }
  if (auto* f = std::get_if<FutOn>(&h)) {
    return AttachH(std::move(*f), s);
  }
  if (auto* t = std::get_if<Tsk>(&h)) {
    return AttachH(std::move(*t), s);
  }
  if (auto* sh = std::get_if<Shr>(&h)) {
    if (s.mode == Md::Inline || s.mode == Md::On) {
      return AttachH(std::move(*sh), s);
    }
  }
  W->bad = true;
  return Handle{};
}

template <bool Lazy, typename FnT>
static Handle HeadFn(const SrcD& src, FnT&& fn) {
  cnt::On on;
  if constexpr (Lazy) {
    if (src.ex.kind == 'i') {
      return Handle{yaclib::Schedule<PErr>(std::move(fn))};
    }
    return Handle{yaclib::Schedule<PErr>(Exec(src.ex), std::move(fn))};
  } else {
    if (src.ex.kind == 'i') {
      return Handle{yaclib::Run<PErr>(std::move(fn))};
    }
    return Handle{yaclib::Run<PErr>(Exec(src.ex), std::move(fn))};
  }
}
template <bool Lazy, template <typename> class Mk>
static Handle HeadRet(const SrcD& src) {
  const StepD& s = src.head;
  switch (RetClass(s)) {
    case 'i':
      return HeadFn<Lazy>(src, Mk<Val>::Make(&s));
    case 'r':
      return HeadFn<Lazy>(src, Mk<Res>::Make(&s));
    case 'F':
      return HeadFn<Lazy>(src, Mk<Fut>::Make(&s));
    case 'O':
      return HeadFn<Lazy>(src, Mk<FutOn>::Make(&s));
    case 'T':
      return HeadFn<Lazy>(src, Mk<Tsk>::Make(&s));
    case 'S':
      return HeadFn<Lazy>(src, Mk<Shr>::Make(&s));
    default:
      W->bad = true;
      return Handle{};
  }
}
template <typename Ret>
struct MkNoArg {
  static Fn0<Ret> Make(const StepD* s) {
    return Fn0<Ret>{s, {}};
  }
};
template <typename Ret>
struct MkResArg {
  static Fn<ResV, Ret> Make(const StepD* s) {
    return Fn<ResV, Ret>{s, {}};
  }
};
template <bool Lazy>
static Handle Head(const SrcD& src) {
  if (src.head.mode != Md::On) {
    W->bad = true;
    return Handle{};
  }
  if (src.head.sig == 'V') {
    return HeadRet<Lazy, MkNoArg>(src);
  }
  if (src.head.sig == 'R') {
    return HeadRet<Lazy, MkResArg>(src);
  }
  W->bad = true;
  return Handle{};
}

static Handle BuildSrc(const SrcD& s) {
  const std::string& k = s.kind;
  if (k == "ready") {
    cnt::On on;
    return Handle{yaclib::MakeFuture<Val, PErr>(MakeRes(s.r))};
  }
  if (k == "task_ready") {
    cnt::On on;
    return Handle{yaclib::MakeTask<Val, PErr>(MakeRes(s.r))};
  }
  if (k == "contract") {
    cnt::On on;
    auto [f, p] = yaclib::MakeContract<Val, PErr>();
    cnt::Off off;
    W->proms.insert_or_assign(s.p, std::move(p));
    W->fuls[s.p] = s.ful;
    return Handle{std::move(f)};
  }
  if (k == "contract_on") {
    if (s.ex.kind != 'u') {
      W->bad = true;
      return Handle{};
    }
    cnt::On on;
    auto [f, p] = yaclib::MakeContractOn<Val, PErr>(Exec(s.ex));
    cnt::Off off;
    W->proms.insert_or_assign(s.p, std::move(p));
    W->fuls[s.p] = s.ful;
    return Handle{std::move(f)};
  }
  if (k == "shared_handle") {
    auto it = W->kept.find(s.h);
    if (it == W->kept.end()) {
      W->bad = true;
      return Handle{};
    }
    ++W->virt_news;
    return Handle{Shr{it->second.handles[0]}};
  }
  if (k == "share" || k == "share_on") {
    // Share(kept handle) : Future / Share(kept handle, e) : FutureOn that carries e (async/share.hpp)
    auto it = W->kept.find(s.h);
    if (it == W->kept.end()) {
      W->bad = true;
      return Handle{};
    }
    const Shr& sh = it->second.handles[0];
    if (k == "share") {
      cnt::On on;
      return Handle{yaclib::Share(sh)};
    }
    yaclib::IExecutor& ex = Exec(s.ex);
    cnt::On on;
    return Handle{yaclib::Share(sh, ex)};
  }
  if (k == "shared_ready" || k == "shared_contract") {
    cnt::On on;
    auto [f, p] = yaclib::MakeSharedContract<Val, PErr>();
    if (k == "shared_ready") {
      std::move(p).Set(MakeRes(s.r));
    } else {
      cnt::Off off;
      W->sproms.insert_or_assign(s.p, std::move(p));
      W->fuls[s.p] = s.ful;
    }
    return Handle{std::move(f)};
  }
  if (k == "async_contract" || k == "lazy_contract") {
    W->fuls[s.p] = s.ful;
    cnt::On on;
    if (k == "async_contract") {
      if (s.ex.kind == 'i') {
        return Handle{yaclib::AsyncContract<Val, PErr>(PromFn{s.p, false, {}})};
      }
      return Handle{yaclib::AsyncContract<Val, PErr>(Exec(s.ex), PromFn{s.p, false, {}})};
    }
    if (s.ex.kind == 'i') {
      return Handle{yaclib::LazyContract<Val, PErr>(PromFn{s.p, false, {}})};
    }
    return Handle{yaclib::LazyContract<Val, PErr>(Exec(s.ex), PromFn{s.p, false, {}})};
  }
  if (k == "run") {
    return Head<false>(s);
  }
  if (k == "schedule") {
    return Head<true>(s);
  }
  W->bad = true;
  return Handle{};
}

static Handle Build(const ProgD& p) {
  Handle h = BuildSrc(p.src);
  for (const auto& s : p.steps) {
    if (W->bad) {
      break;
    }
    h = Attach(std::move(h), s);
  }
  return h;
}

// ------------------------------------------------------------------------------------------------ parsing
static std::vector<std::string> Toks(const std::string& line) {
  std::vector<std::string> t;
  std::istringstream is{line};
  std::string w;
  while (is >> w) {
    t.push_back(w);
  }
  return t;
}
static bool StartsWith(const std::string& s, const char* pre) {
  return s.rfind(pre, 0) == 0;
}
static bool ParseLong(const std::string& s, long& out) {
  if (s.empty()) {
    return false;
  }
  char* end = nullptr;
  out = std::strtol(s.c_str(), &end, 10);
  return *end == 0;
}
static bool ParseR(const std::string& s, RVal& r) {
  if (s.size() < 2 || (s[0] != 'v' && s[0] != 'e' && s[0] != 'x')) {
    return false;
  }
  r.k = s[0];
  return ParseLong(s.substr(1), r.n) && (s[0] == 'v' || r.n >= 0);
}
static bool ParseEx(const std::string& s, ExRef& e) {
  if (s == "inl") {
    e = {'i', 0};
    return true;
  }
  if (s == "stp") {
    e = {'s', 0};
    return true;
  }
  long k;
  if (s.size() >= 2 && s[0] == 'e' && ParseLong(s.substr(1), k) && k >= 0) {
    e = {'u', static_cast<int>(k)};
    return true;
  }
  return false;
}
static bool ParseP(const std::string& s, int& p) {
  long k;
  if (s.size() >= 2 && s[0] == 'p' && ParseLong(s.substr(1), k) && k >= 0) {
    p = static_cast<int>(k);
    return true;
  }
  return false;
}
static bool ParseFul(const std::string& s, FulD& f) {
  if (s == "drop") {
    f.drop = true;
    return true;
  }
  f.drop = false;
  return StartsWith(s, "set:") && ParseR(s.substr(4), f.r);
}
static bool ParseStep(const std::vector<std::string>& t, size_t i, StepD& s) {
  if (t.size() != i + 4) {
    return false;
  }
  long id;
  if (!ParseLong(t[i], id) || id < 0 || t[i + 1].empty() || t[i + 1].size() > 2 || std::strchr("RVEX", t[i + 1][0]) == nullptr) {
    return false;
  }
  s.id = static_cast<int>(id);
  s.sig = t[i + 1][0];
  s.spell = t[i + 1].size() == 2 ? t[i + 1][1] : 0;
  {
    const char* ok = s.sig == 'R' ? "rcag" : s.sig == 'V' ? "rcg" : s.sig == 'E' ? "c" : "c";
    if (s.spell != 0 && std::strchr(ok, s.spell) == nullptr) {
      return false;
    }
  }
  const std::string& m = t[i + 2];
  if (m == "inline") {
    s.mode = Md::Inline;
  } else if (m == "inherit") {
    s.mode = Md::Inherit;
  } else if (m == "detach_inline") {
    s.mode = Md::DetachInline;
  } else if (m == "detach_inherit") {
    s.mode = Md::DetachInherit;
  } else if (StartsWith(m, "on:") && ParseEx(m.substr(3), s.ex)) {
    s.mode = Md::On;
  } else if (StartsWith(m, "detach:") && ParseEx(m.substr(7), s.ex)) {
    s.mode = Md::Detach;
  } else {
    return false;
  }
  const std::string& b = t[i + 3];
  long k;
  if (StartsWith(b, "val:") && ParseLong(b.substr(4), k)) {
    s.beh.kind = 'v';
    s.beh.k = k;
  } else if (StartsWith(b, "res:") && ParseR(b.substr(4), s.beh.r)) {
    s.beh.kind = 'r';
  } else if (StartsWith(b, "throw:") && ParseLong(b.substr(6), k) && k >= 0) {
    s.beh.kind = 't';
    s.beh.k = k;
  } else if (StartsWith(b, "async:") && ParseLong(b.substr(6), k) && k >= 0 && W->inner.count(static_cast<int>(k))) {
    s.beh.kind = 'a';
    s.beh.pid = static_cast<int>(k);
  } else {
    return false;
  }
  return true;
}
static bool ParseSrc(const std::vector<std::string>& t, size_t i, SrcD& s) {
  if (t.size() <= i) {
    return false;
  }
  s.kind = t[i];
  const size_t n = t.size() - i - 1;
  if (s.kind == "ready" || s.kind == "task_ready" || s.kind == "shared_ready") {
    return n == 1 && ParseR(t[i + 1], s.r);
  }
  if (s.kind == "contract" || s.kind == "shared_contract") {
    return n == 2 && ParseP(t[i + 1], s.p) && ParseFul(t[i + 2], s.ful);
  }
  if (s.kind == "share_on") {
    long h;
    if (n != 2 || !ParseEx(t[i + 1], s.ex) || t[i + 2].size() < 2 || t[i + 2][0] != 's' || !ParseLong(t[i + 2].substr(1), h) ||
        !W->kept.count(static_cast<int>(h))) {
      return false;
    }
    s.h = static_cast<int>(h);
    return true;
  }
  if (s.kind == "shared_handle" || s.kind == "share") {
    long h;
    if (n != 1 || t[i + 1].size() < 2 || t[i + 1][0] != 's' || !ParseLong(t[i + 1].substr(1), h) || !W->kept.count(static_cast<int>(h))) {
      return false;
    }
    s.h = static_cast<int>(h);
    return true;
  }
  if (s.kind == "contract_on" || s.kind == "async_contract" || s.kind == "lazy_contract") {
    return n == 3 && ParseEx(t[i + 1], s.ex) && ParseP(t[i + 2], s.p) && ParseFul(t[i + 3], s.ful);
  }
  if (s.kind == "run" || s.kind == "schedule") {
    if (!ParseStep(t, i + 1, s.head)) {
      return false;
    }
    s.ex = s.head.ex;
    return s.head.mode == Md::On;
  }
  return false;
}

// ------------------------------------------------------------------------------------------------ interpreter
struct Interp {
  Handle cur;
  bool started = false;  // a src line was seen
  std::optional<RVal> got;
  bool free_mode = false;  // the program hands free jobs to the executors (no pipeline)
  std::map<int, std::unique_ptr<OwnFn>> named;  // the client's named functors f<j> (free-job programs)
  long last_news = 0;
  long last_virt = 0;
  ProgD top;  // keeps the StepD of the top-level pipeline alive (functors point into it)
  std::vector<std::unique_ptr<StepD>> top_steps;

  std::string State() {
    if (W->bad) {
      return "bad";
    }
    std::string s = "inv=";
    for (size_t i = 0; i < W->inv.size(); ++i) {
      s += (i ? "," : "") + std::to_string(W->inv[i]);
    }
    s += " ran=";
    for (size_t i = 0; i < W->ran.size(); ++i) {
      s += (i ? "," : "") + std::to_string(W->ran[i].id) + "@" +
           (W->ran[i].ctx < 0 ? std::string("-") : "e" + std::to_string(W->ran[i].ctx));
    }
    s += " jobs=";
    for (size_t i = 0; i < W->jobs.size(); ++i) {
      s += (i ? "," : "") + std::to_string(W->jobs[i].jid) + (W->jobs[i].called ? "c" : "d");
    }
    s += " sub=";
    for (size_t i = 0; i < W->subs.size(); ++i) {
      s += (i ? "," : "") + std::to_string(W->subs[i]);
    }
    s += " st=";
    if (!started) {
      s += "idle";
    } else if (std::holds_alternative<Tsk>(cur)) {
      s += "task";
    } else if (auto* f = std::get_if<Fut>(&cur)) {
      const Res* r = std::as_const(*f).Get();
      s += r ? "ready:" + Show(ToR(*r)) : "pending";
    } else if (auto* f = std::get_if<FutOn>(&cur)) {
      const Res* r = std::as_const(*f).Get();
      s += r ? "ready:" + Show(ToR(*r)) : "pending";
    } else if (auto* sh = std::get_if<Shr>(&cur)) {
      s += sh->Ready() ? "ready:" + Show(ToR(std::as_const(*sh).Get())) : "pending";
    } else {
      s += "gone";
    }
    if (got) {
      s += " got:" + Show(*got);
    }
    // references to kept SharedFutures held on behalf of the pipeline count like the source cores they stand for
    long virt_live = 0;
    for (auto& [j, k] : W->kept) {
      virt_live += static_cast<long>(k.handles[0].GetCore()->GetRef()) - static_cast<long>(k.handles.size()) - (k.set ? 0 : 3);
    }
    s += " al=" + std::to_string(cnt::news - last_news + W->virt_news - last_virt) + " lc=" + std::to_string(cnt::live + virt_live) +
         " lf=" + std::to_string(W->live_tokens);
    if (free_mode) {
      s += " ls=" + std::to_string(W->live_states) + " fns=";
      bool first = true;
      for (auto& [j, f] : named) {
        s += (first ? "f" : ",f") + std::to_string(j) + ":" + (f->st != nullptr ? std::to_string(*f->st) : std::string("husk"));
        first = false;
      }
    }
    last_news = cnt::news;
    last_virt = W->virt_news;
    for (const auto& a : W->asserts) {
      s += " ASSERT(" + a + ")";
    }
    W->asserts.clear();
    return s;
  }

  void Set(int p) {
    auto fit = W->fuls.find(p);
    if (fit == W->fuls.end()) {
      return;
    }
    const FulD ful = fit->second;
    if (auto it = W->proms.find(p); it != W->proms.end()) {
      Prom pr = std::move(it->second);
      W->proms.erase(it);
      cnt::On on;
      if (ful.drop) {
        Prom dead = std::move(pr);
        (void)dead;
      } else if (ful.r.k == 'v') {
        std::move(pr).Set(Val{static_cast<int>(ful.r.n)});
      } else if (ful.r.k == 'e') {
        std::move(pr).Set(PErr{static_cast<int>(ful.r.n)});
      } else {
        std::move(pr).Set(std::make_exception_ptr(PExc{static_cast<int>(ful.r.n)}));
      }
      return;
    }
    if (auto it = W->sproms.find(p); it != W->sproms.end()) {
      SProm pr = std::move(it->second);
      W->sproms.erase(it);
      cnt::On on;
      if (ful.drop) {
        SProm dead = std::move(pr);
        (void)dead;
      } else {
        std::move(pr).Set(MakeRes(ful.r));
      }
      for (auto& [j, k] : W->kept) {
        if (k.p == p) {
          k.set = true;
        }
      }
      for (size_t i = W->stash.size(); i-- > 0;) {
        if (W->stash[i].first == p) {
          W->stash.erase(W->stash.begin() + static_cast<long>(i));
        }
      }
    }
  }

  // returns the output line
  std::string Line(const std::string& line) {
    const auto t = Toks(line);
    if (t.empty()) {
      return "bad";
    }
    const std::string& c = t[0];
    if (c == "cfg") {
      ExRef e;
      if (t.size() < 3 || !ParseEx(t[1], e) || e.kind != 'u' || (t[2] != "queue" && t[2] != "inline" && t[2] != "manual")) {
        return "bad";
      }
      auto& x = W->execs[e.k];
      x.k = e.k;
      x.queue = t[2] != "inline";
      x.manual = t[2] == "manual";
      if (t.size() == 4 && StartsWith(t[3], "limit=")) {
        ParseLong(t[3].substr(6), x.limit);
      }
      return "ok";
    }
    if (c == "shared") {
      // shared s<j> p<k> <ful> ready|later copies=<1|2> : a SharedFuture the client keeps (not counted: it is the client's object)
      long h;
      int pp;
      FulD ful;
      if (t.size() != 6 || t[1].size() < 2 || t[1][0] != 's' || !ParseLong(t[1].substr(1), h) || !ParseP(t[2], pp) ||
          !ParseFul(t[3], ful) || (t[4] != "ready" && t[4] != "later") || (t[5] != "copies=1" && t[5] != "copies=2")) {
        return "bad";
      }
      auto [f, pr] = yaclib::MakeSharedContract<Val, PErr>();
      auto& k = W->kept[static_cast<int>(h)];
      k.p = pp;
      k.handles.push_back(f);
      if (t[5] == "copies=2") {
        k.handles.push_back(f);
      }
      W->fuls[pp] = ful;
      if (t[4] == "ready") {
        if (ful.drop) {
          SProm dead = std::move(pr);
          (void)dead;
        } else {
          std::move(pr).Set(MakeRes(ful.r));
        }
        k.set = true;
      } else {
        W->sproms.insert_or_assign(pp, std::move(pr));
      }
      return "ok";
    }
    if (c == "in") {
      long pid;
      if (t.size() < 4 || !ParseLong(t[1], pid)) {
        return "bad";
      }
      if (t[2] == "src") {
        ProgD p;
        if (!ParseSrc(t, 3, p.src)) {
          return "bad";
        }
        W->inner[static_cast<int>(pid)] = p;
        return "ok";
      }
      if (t[2] == "then") {
        auto it = W->inner.find(static_cast<int>(pid));
        StepD s;
        if (it == W->inner.end() || !ParseStep(t, 3, s)) {
          return "bad";
        }
        it->second.steps.reserve(64);
        it->second.steps.push_back(s);
        return "ok";
      }
      return "bad";
    }
    if (W->bad) {
      return "bad";
    }
    // a program without a pipeline: free jobs (Model/FreeJob.lean)
    //   submit <ex> <id> [ret|std|int|usr]    yaclib::Submit(<ex>, OwnFn{id})            (rvalue functor)
    //   fn f<j> <tag> [ret|std|int|usr]       the client creates the named functor f<j>
    //   submitl <ex> f<j>                     yaclib::Submit(<ex>, f<j>)                 (lvalue: the job gets a COPY)
    //   mut f<j> <tag>                        the client changes the state of f<j>
    //   kill f<j>                             the client destroys f<j>
    if (c == "submit" || c == "submitl" || c == "fn" || c == "mut" || c == "kill") {
      auto outcome = [&](size_t i, char& o) {
        o = 'r';
        if (t.size() <= i) {
          return true;
        }
        o = t[i] == "ret" ? 'r' : t[i] == "std" ? 's' : t[i] == "int" ? 'i' : t[i] == "usr" ? 'u' : '?';
        return o != '?' && t.size() == i + 1;
      };
      auto fname = [&](const std::string& x, long& j) {
        return x.size() >= 2 && x[0] == 'f' && ParseLong(x.substr(1), j);
      };
      ExRef e;
      long id, j;
      char o;
      if (started) {
        return "bad";
      }
      if (c == "submit" && t.size() >= 3 && ParseEx(t[1], e) && ParseLong(t[2], id) && outcome(3, o)) {
        free_mode = true;
        yaclib::IExecutor& ex = Exec(e);
        cnt::On on;
        yaclib::Submit(ex, OwnFn{static_cast<int>(id), o});
      } else if (c == "fn" && t.size() >= 3 && fname(t[1], j) && ParseLong(t[2], id) && outcome(3, o)) {
        free_mode = true;
        named.erase(static_cast<int>(j));
        named.emplace(static_cast<int>(j), std::make_unique<OwnFn>(static_cast<int>(id), o));
      } else if (c == "submitl" && t.size() == 3 && ParseEx(t[1], e) && fname(t[2], j) && named.count(static_cast<int>(j))) {
        free_mode = true;
        yaclib::IExecutor& ex = Exec(e);
        OwnFn& f = *named[static_cast<int>(j)];
        cnt::On on;
        yaclib::Submit(ex, f);
      } else if (c == "mut" && t.size() == 3 && fname(t[1], j) && ParseLong(t[2], id) && named.count(static_cast<int>(j))) {
        OwnFn& f = *named[static_cast<int>(j)];
        if (f.st != nullptr) {
          *f.st = static_cast<int>(id);
        }
      } else if (c == "kill" && t.size() == 2 && fname(t[1], j) && named.count(static_cast<int>(j))) {
        named.erase(static_cast<int>(j));
      } else {
        return "bad";
      }
      return State();
    }
    if (!started && !free_mode && (c == "set" || c == "flush" || c == "call" || c == "drain")) {
      return State();  // nothing is built yet: the client has nothing to deliver to
    }
    std::string obs;
    if (c == "src") {
      if (free_mode) {
        return "bad";
      }
      if (started || !ParseSrc(t, 1, top.src)) {
        W->bad = true;
        return "bad";
      }
      started = true;
      cur = BuildSrc(top.src);
    } else if (c == "then") {
      auto s = std::make_unique<StepD>();
      if (!started || !ParseStep(t, 1, *s)) {
        W->bad = true;
        return "bad";
      }
      top_steps.push_back(std::move(s));
      cur = Attach(std::move(cur), *top_steps.back());
    } else if (c == "set" && t.size() == 2) {
      int p;
      if (!ParseP(t[1], p)) {
        return "bad";
      }
      Set(p);
    } else if ((c == "call" || c == "drain") && t.size() == 2) {
      ExRef e;
      if (!ParseEx(t[1], e) || e.kind != 'u') {
        return "bad";
      }
      auto& x = W->execs[e.k];
      if (c == "call") {
        x.CallOne();
      } else {
        while (x.CallOne()) {
        }
      }
    } else if (c == "start" && t.size() == 2) {
      if (auto* tk = std::get_if<Tsk>(&cur)) {
        Tsk task = std::move(*tk);
        const std::string& k = t[1];
        ExRef e;
        cnt::On on;
        if (k == "tofuture") {
          cur = Handle{std::move(task).ToFuture()};
        } else if (k == "detach") {
          std::move(task).Detach();
          cur = Handle{};
        } else if (StartsWith(k, "tofuture:") && ParseEx(k.substr(9), e)) {
          cur = Handle{std::move(task).ToFuture(Exec(e))};
        } else if (StartsWith(k, "detach:") && ParseEx(k.substr(7), e)) {
          std::move(task).Detach(Exec(e));
          cur = Handle{};
        } else {
          cur = Handle{std::move(task)};
          return "bad";
        }
      }
    } else if (c == "droptask") {
      if (std::holds_alternative<Tsk>(cur)) {
        cnt::On on;
        cur = Handle{};
      }
    } else if (c == "obs" && t.size() == 2) {
      long h;
      if (t[1].size() < 2 || t[1][0] != 's' || !ParseLong(t[1].substr(1), h) || !W->kept.count(static_cast<int>(h))) {
        return "bad";
      }
      const Shr& sh = W->kept[static_cast<int>(h)].handles.back();
      obs = " obs=" + (sh.Ready() ? Show(ToR(sh.Get())) : std::string("pending"));
    } else if (c == "dropfuture") {
      if (auto* sh = std::get_if<Shr>(&cur); sh && !sh->Ready()) {
        StashUntilSet(std::move(*sh));
      }
      if (std::holds_alternative<Fut>(cur) || std::holds_alternative<FutOn>(cur) || std::holds_alternative<Shr>(cur)) {
        cnt::On on;
        cur = Handle{};
      }
    } else if (c == "get") {
      cnt::On on;
      if (auto* f = std::get_if<Fut>(&cur); f && f->Ready()) {
        got = ToR(std::move(*f).Get());
        cur = Handle{};
      } else if (auto* f = std::get_if<FutOn>(&cur); f && f->Ready()) {
        got = ToR(std::move(*f).Get());
        cur = Handle{};
      } else if (auto* sh = std::get_if<Shr>(&cur); sh && sh->Ready()) {
        got = ToR(std::as_const(*sh).Get());
        cur = Handle{};
      } else if (std::holds_alternative<Fut>(cur) || std::holds_alternative<FutOn>(cur) || std::holds_alternative<Shr>(cur)) {
        if (auto* sh2 = std::get_if<Shr>(&cur)) {
          StashUntilSet(std::move(*sh2));
        }
        cur = Handle{};  // Get() would block for ever in a single thread: the future is given up
      }
    } else if (c == "flush") {
      for (int fuel = 0; fuel < 100000; ++fuel) {
        int p = -1;
        if (!W->proms.empty()) {
          p = W->proms.begin()->first;
        }
        if (!W->sproms.empty() && (p < 0 || W->sproms.begin()->first < p)) {
          p = W->sproms.begin()->first;
        }
        if (p >= 0) {
          Set(p);
          continue;
        }
        bool ran = false;
        for (auto& [k, x] : W->execs) {
          if (x.CallOne()) {
            ran = true;
            break;
          }
        }
        if (!ran) {
          break;
        }
      }
    } else if (c == "expect") {
    } else {
      return "bad";
    }
    if (W->bad) {
      return "bad";
    }
    return State() + obs;
  }
};

static void OnAssert(std::string_view file, std::size_t line, std::string_view /*func*/, std::string_view /*cond*/,
                     std::string_view /*msg*/) noexcept {
  cnt::Off off;
  auto pos = file.rfind('/');
  std::string f{pos == std::string_view::npos ? file : file.substr(pos + 1)};
  if (W != nullptr) {
    W->asserts.push_back(f + ":" + std::to_string(line));
  }
}

static void RunProgram(const std::vector<std::string>& lines, int fd) {
  World world;
  W = &world;
  {
    Interp in;
    for (const auto& l : lines) {
      std::string out = in.Line(l) + "\n";
      if (write(fd, out.data(), out.size()) < 0) {
        _exit(3);
      }
    }
  }
}

// ------------------------------------------------------------------------------------------------ C20: combinators / wait
// `pipe --comb`: allocations of WhenAll / WhenAny / Join (dynamic form, n unfulfilled inputs) at the call and while the
// inputs complete, and of Wait / WaitFor on n futures, for several n.  One line per measurement.
template <typename MakeComb>
static void MeasureComb(const char* name, int n, MakeComb&& make) {
  std::vector<Fut> futs;
  std::vector<Prom> proms;
  futs.reserve(static_cast<size_t>(n));
  proms.reserve(static_cast<size_t>(n));
  for (int i = 0; i < n; ++i) {
    auto [f, p] = yaclib::MakeContract<Val, PErr>();
    futs.push_back(std::move(f));
    proms.push_back(std::move(p));
  }
  const long a0 = cnt::news;
  cnt::on = true;
  auto out = make(futs);
  cnt::on = false;
  const long a1 = cnt::news;
  cnt::on = true;
  for (int i = 0; i < n; ++i) {
    std::move(proms[static_cast<size_t>(i)]).Set(Val{i});
  }
  cnt::on = false;
  const long a2 = cnt::news;
  const bool ready = out.Ready();
  cnt::on = true;
  { auto dead = std::move(out); }
  cnt::on = false;
  std::printf("comb %s n=%d call=%ld complete=%ld ready=%d live=%ld\n", name, n, a1 - a0, a2 - a1, ready ? 1 : 0, cnt::live);
}

static void MeasureWait(int n) {
  std::vector<Fut> futs;
  std::vector<Prom> proms;
  futs.reserve(static_cast<size_t>(n));
  proms.reserve(static_cast<size_t>(n));
  for (int i = 0; i < n; ++i) {
    auto [f, p] = yaclib::MakeContract<Val, PErr>();
    futs.push_back(std::move(f));
    proms.push_back(std::move(p));
  }
  // not ready: WaitFor(0) registers, times out, resets
  const long a0 = cnt::news;
  cnt::on = true;
  const bool r0 = yaclib::WaitFor(std::chrono::nanoseconds{0}, futs.begin(), futs.end());
  cnt::on = false;
  const long a1 = cnt::news;
  for (int i = 0; i < n; ++i) {
    std::move(proms[static_cast<size_t>(i)]).Set(Val{i});
  }
  const long a2 = cnt::news;
  cnt::on = true;
  yaclib::Wait(futs.begin(), futs.end());
  const bool r1 = yaclib::WaitFor(std::chrono::nanoseconds{0}, futs.begin(), futs.end());
  int sum = 0;
  for (auto& f : futs) {
    sum += std::move(f).Get().Ok().v;
  }
  cnt::on = false;
  const long a3 = cnt::news;
  std::printf("wait n=%d waitfor_unready=%ld(%d) wait_ready+waitfor+get=%ld(%d) sum=%d\n", n, a1 - a0, r0 ? 1 : 0, a3 - a2,
              r1 ? 1 : 0, sum);
}

static int CombMain() {
  for (int n : {1, 2, 3, 4, 8, 16, 64, 512}) {
    MeasureComb("all", n, [](std::vector<Fut>& fs) {
      return yaclib::WhenAll(fs.begin(), fs.size());
    });
    MeasureComb("all_none", n, [](std::vector<Fut>& fs) {
      return yaclib::WhenAll<yaclib::FailPolicy::None>(fs.begin(), fs.size());
    });
    MeasureComb("any", n, [](std::vector<Fut>& fs) {
      return yaclib::WhenAny(fs.begin(), fs.size());
    });
    MeasureComb("any_firstfail", n, [](std::vector<Fut>& fs) {
      return yaclib::WhenAny<yaclib::FailPolicy::FirstFail>(fs.begin(), fs.size());
    });
    MeasureComb("join", n, [](std::vector<Fut>& fs) {
      return yaclib::Join(fs.begin(), fs.size());
    });
    MeasureWait(n);
  }
  {  // static (variadic) forms
    auto mk = [] {
      return yaclib::MakeContract<Val, PErr>();
    };
    auto [f1, p1] = mk();
    auto [f2, p2] = mk();
    auto [f3, p3] = mk();
    const long a0 = cnt::news;
    cnt::on = true;
    auto all = yaclib::WhenAll(std::move(f1), std::move(f2), std::move(f3));
    cnt::on = false;
    const long a1 = cnt::news;
    cnt::on = true;
    std::move(p1).Set(Val{1});
    std::move(p2).Set(Val{2});
    std::move(p3).Set(Val{3});
    cnt::on = false;
    std::printf("comb all_static n=3 call=%ld complete=%ld ready=%d\n", a1 - a0, cnt::news - a1, all.Ready() ? 1 : 0);
  }
  return 0;
}

int main(int argc, char** argv) {
  if (argc > 1 && std::strcmp(argv[1], "--comb") == 0) {
    return CombMain();
  }
  YACLIB_INIT_DEBUG(OnAssert);
  const bool nofork = argc > 1 && std::strcmp(argv[1], "--nofork") == 0;
  std::vector<std::string> lines;
  std::string line;
  char buf[1 << 16];
  std::string acc;
  auto flush_program = [&] {
    if (lines.empty()) {
      return;
    }
    if (nofork) {
      RunProgram(lines, 1);
      lines.clear();
      return;
    }
    fflush(stdout);
    int fds[2];
    if (pipe(fds) != 0) {
      perror("pipe");
      exit(2);
    }
    pid_t pid = fork();
    if (pid == 0) {
      close(fds[0]);
      RunProgram(lines, fds[1]);
      close(fds[1]);
      _exit(0);
    }
    close(fds[1]);
    std::string out;
    ssize_t n;
    while ((n = read(fds[0], buf, sizeof buf)) > 0) {
      out.append(buf, static_cast<size_t>(n));
    }
    close(fds[0]);
    int status = 0;
    waitpid(pid, &status, 0);
    size_t printed = 0;
    size_t pos = 0;
    while (printed < lines.size()) {
      size_t nl = out.find('\n', pos);
      if (nl == std::string::npos) {
        break;
      }
      fwrite(out.data() + pos, 1, nl - pos + 1, stdout);
      pos = nl + 1;
      ++printed;
    }
    const bool died = !(WIFEXITED(status) && WEXITSTATUS(status) == 0);
    for (; printed < lines.size(); ++printed) {
      fputs(died ? "crash\n" : "missing\n", stdout);
    }
    lines.clear();
  };
  while (std::getline(std::cin, line)) {
    if (Toks(line) == std::vector<std::string>{"end"}) {
      flush_program();
      fputs("end\n", stdout);
    } else {
      lines.push_back(line);
    }
  }
  flush_program();
  fflush(stdout);
  return 0;
}
