// C08 correspondence harness: the real FairThreadPool (n worker fibers) x submitter fibers x one stopper fiber
// (Stop / SoftStop / HardStop, racing with the submitters or started after they were joined), then Wait, then one
// more Submit.  All schedules under a preemption bound and/or random schedules.  Emits canonical traces for
// `ymdriver validate pool` and checks the property's monitors directly on the implementation.
//
// Threads: w<i> = worker fibers (created inside the pool's constructor, therefore named here by the order of their
//          first traced operation; workers are symmetric), s<i> = submitters, x = the stopper, r = the root fiber.
// Objects: m  = FairThreadPool::_m (the fiber mutex and its internal wait queue have the same address, so the
//               queue's park / wake / notify_one appear as `m park|wake|notify_one`: scheduler level),
//          cv = FairThreadPool::_idle.
// Jobs:    j<i>.<k> = k-th job of submitter i; `late` = the job the root submits after Wait returned.
#include <common/vx.hpp>

#include <yaclib/exe/job.hpp>
#include <yaclib/runtime/fair_thread_pool.hpp>

#include <algorithm>
#include <memory>

namespace {

struct Scenario {
  int workers;            // 1 | 2
  std::vector<int> subs;  // jobs per submitter
  std::string stop;       // stop | soft | hard
  bool race;              // stopper races with the submitters / starts after they were joined
  // what the jobs do besides being Called / Dropped:
  //   plain    nothing
  //   dropsub  every job's Drop() submits a follow-up job to the same pool (like a dropped future core that passes the
  //            cancellation on to a continuation living on the same executor)
  //   callsub  the body of j0.0 submits J2 to the same pool and blocks until J2 was Called or Dropped (needs >= 2 workers)
  //   callwait the body of j0.0 blocks until j1.0 (submitted by another thread) was Called or Dropped (>= 2 workers)
  std::string kind = "plain";
  std::size_t Jobs() const {
    std::size_t n = 0;
    for (auto k : subs) n += static_cast<std::size_t>(k);
    return n;
  }
  std::size_t Virtual() const { return kind == "dropsub" ? Jobs() : kind == "callsub" ? 1 : 0; }
  std::string Header() const {
    std::string s;
    for (auto k : subs) s += (s.empty() ? "" : ",") + std::to_string(k);
    std::string v;
    for (std::size_t i = 0; i < Virtual(); ++i) v += (v.empty() ? "" : ",") + std::string("1");
    return "pool workers=" + std::to_string(workers) + " subs=" + s + (v.empty() ? "" : " virt=" + v) + " stop=" + stop +
           " race=" + (race ? "1" : "0") + " late=1" + (kind == "plain" ? "" : " kind=" + kind);
  }
};

struct Obs {
  std::map<std::string, int> called, dropped;
  std::vector<std::string> call_order;
  bool wait_returned = false;
  bool call_after_wait = false;
};

Obs gObs;

// synchronisation private to the job bodies ("J1 waits until J2 is finished"): fiber mutex + condition variable,
// traced under the names jm / jcv (skipped by the validator)
struct Gate {
  yaclib_std::mutex m;
  yaclib_std::condition_variable cv;
};
Gate* gGate = nullptr;

struct TJob final : yaclib::Job {
  std::string name;
  yaclib::FairThreadPool* pool = nullptr;
  TJob* on_drop_submit = nullptr;  // Drop() submits this job
  TJob* on_call_submit = nullptr;  // Call() submits this job
  TJob* wait_for = nullptr;        // Call() blocks until that job was Called or Dropped
  bool signal = false;             // somebody may wait for this job
  bool finished = false;

  void Finish() {
    if (!signal) return;
    std::unique_lock lock{gGate->m};
    finished = true;
    lock.unlock();
    gGate->cv.notify_all();
  }
  void Call() noexcept final {
    ++gObs.called[name];
    gObs.call_order.push_back(name);
    if (gObs.wait_returned) gObs.call_after_wait = true;
    vx::Ev("call " + name);
    if (on_call_submit != nullptr) {
      vx::Ev("submit " + on_call_submit->name);
      pool->Submit(*on_call_submit);
    }
    if (wait_for != nullptr) {
      std::unique_lock lock{gGate->m};
      while (!wait_for->finished) gGate->cv.wait(lock);
    }
    Finish();
  }
  void Drop() noexcept final {
    ++gObs.dropped[name];
    vx::Ev("drop " + name);
    if (on_drop_submit != nullptr) {
      vx::Ev("submit " + on_drop_submit->name);
      pool->Submit(*on_drop_submit);
    }
    Finish();
  }
};

// access to the pool's private mutex / condition variable, for naming the traced objects only
template <typename Tag, typename Tag::type M>
struct Rob {
  friend typename Tag::type Get(Tag) { return M; }
};
struct MTag {
  using type = yaclib_std::mutex yaclib::FairThreadPool::*;
  friend type Get(MTag);
};
struct CTag {
  using type = yaclib_std::condition_variable yaclib::FairThreadPool::*;
  friend type Get(CTag);
};
template struct Rob<MTag, &yaclib::FairThreadPool::_m>;
template struct Rob<CTag, &yaclib::FairThreadPool::_idle>;

int gWorkersNamed = 0;

void InstallNamingHook() {
  // every other fiber of a scenario is a vx::Thread (named before its first operation) or the root
  auto& h = yaclib::verif::gHooks;
  h.on_sync = [](void* c, const void* obj, int op, int res) {
    auto& ctx = *static_cast<vx::Ctx*>(c);
    auto id = ctx.CurId();
    if (ctx.tids.find(id) == ctx.tids.end()) ctx.tids[id] = "w" + std::to_string(gWorkersNamed++);
    ctx.OnSync(obj, op, res);
  };
}

std::string JobName(std::size_t i, int k) { return "j" + std::to_string(i) + "." + std::to_string(k); }

void RunScenario(const Scenario& sc) {
  gObs = Obs{};
  gWorkersNamed = 0;
  Gate gate;
  gGate = &gate;
  std::vector<std::vector<std::unique_ptr<TJob>>> jobs(sc.subs.size());
  std::vector<std::unique_ptr<TJob>> virt;  // jobs submitted from inside a Call / Drop: stream nReal + q, one job each
  for (std::size_t i = 0; i < sc.subs.size(); ++i) {
    for (int k = 0; k < sc.subs[i]; ++k) {
      auto j = std::make_unique<TJob>();
      j->name = JobName(i, k);
      jobs[i].push_back(std::move(j));
    }
  }
  for (std::size_t q = 0; q < sc.Virtual(); ++q) {
    auto j = std::make_unique<TJob>();
    j->name = JobName(sc.subs.size() + q, 0);
    virt.push_back(std::move(j));
  }
  auto pool = yaclib::MakeFairThreadPool(static_cast<std::uint64_t>(sc.workers));
  {
    auto& ctx = *vx::gCtx;
    ctx.NameObj(&((*pool).*Get(MTag{})).GetImpl(), "m");
    ctx.NameObj(&((*pool).*Get(CTag{})), "cv");
    ctx.NameObj(&gate.m.GetImpl(), "jm");
    ctx.NameObj(&gate.cv, "jcv");
  }
  {
    std::size_t q = 0;
    for (auto& js : jobs) {
      for (auto& j : js) {
        j->pool = pool.Get();
        if (sc.kind == "dropsub") j->on_drop_submit = virt[q].get();
        ++q;
      }
    }
    for (auto& j : virt) j->pool = pool.Get();
    if (sc.kind == "callsub") {
      jobs[0][0]->on_call_submit = virt[0].get();
      jobs[0][0]->wait_for = virt[0].get();
      virt[0]->signal = true;
    } else if (sc.kind == "callwait") {
      jobs[0][0]->wait_for = jobs[1][0].get();
      jobs[1][0]->signal = true;
    }
  }
  auto stopper = [&] {
    vx::Ev("stop " + sc.stop);
    if (sc.stop == "stop") pool->Stop();
    else if (sc.stop == "soft") pool->SoftStop();
    else pool->HardStop();
    vx::Ev("stop_done");
  };
  std::vector<vx::Thread> ts;
  for (std::size_t i = 0; i < sc.subs.size(); ++i) {
    ts.emplace_back("s" + std::to_string(i), [&, i] {
      for (auto& j : jobs[i]) {
        vx::Ev("submit " + j->name);
        pool->Submit(*j);
      }
    });
  }
  vx::Thread st;
  if (sc.race) st = vx::Thread("x", stopper);
  for (auto& t : ts) t.join();
  if (!sc.race) st = vx::Thread("x", stopper);
  st.join();
  pool->Wait();
  gObs.wait_returned = true;
  vx::Ev("wait_returned");
  TJob late;  // "every later Submit drops"
  late.name = "late";
  vx::Ev("submit late");
  pool->Submit(late);
}

std::string Field(const std::string& l, int k) {
  std::size_t b = 0;
  for (int i = 0; i < k; ++i) {
    b = l.find(' ', b);
    if (b == std::string::npos) return "";
    ++b;
  }
  auto e = l.find(' ', b);
  return l.substr(b, e == std::string::npos ? std::string::npos : e - b);
}

// The monitors state exactly what the property says, on what the implementation did (independent of the model).
std::string Monitor(const Scenario& sc, bool done) {
  auto& trace = vx::gCtx->trace;
  if (!done) return "";  // reported as deadlock by the explorer: Wait never returned / a fiber is stuck
  for (auto& l : trace) {
    if (Field(l, 1) == "M" && Field(l, 2) != "m" && Field(l, 2) != "cv" && Field(l, 2) != "jm" && Field(l, 2) != "jcv")
      return "harness: unexpected sync object in " + l;
    if (Field(l, 0) == "t?") return "harness: unnamed fiber in " + l;
  }
  // every job handed to Submit is Called xor Dropped, exactly once (a follow-up job that nobody submitted: never)
  {
    std::vector<std::string> names;
    for (std::size_t i = 0; i < sc.subs.size(); ++i)
      for (int k = 0; k < sc.subs[i]; ++k) names.push_back(JobName(i, k));
    for (std::size_t q = 0; q < sc.Virtual(); ++q) names.push_back(JobName(sc.subs.size() + q, 0));
    for (auto& n : names) {
      bool submitted = false;
      for (auto& l : trace) {
        if (Field(l, 1) == "E" && Field(l, 2) == "submit" && Field(l, 3) == n) submitted = true;
      }
      int c = gObs.called[n], d = gObs.dropped[n];
      if (c + d != (submitted ? 1 : 0))
        return "job " + n + (submitted ? "" : " (never submitted)") + " Called " + std::to_string(c) + " times and Dropped " +
               std::to_string(d) + " times";
    }
  }
  // after Wait returned nothing runs, and a later Submit is Dropped
  if (gObs.call_after_wait) return "a job was Called after Wait returned";
  if (gObs.called["late"] != 0 || gObs.dropped["late"] != 1) return "a Submit after Wait returned was not Dropped exactly once";
  // acceptance as far as it can be observed from outside: Submit(j) did not Drop j itself.  It took effect in the
  // submitter's critical section, i.e. at its unlock of m (= push position).  Accepted before the stop = that
  // unlock precedes the moment the stopper was started.
  std::size_t stop_pos = trace.size();
  for (std::size_t p = 0; p < trace.size(); ++p) {
    if (trace[p].rfind("x E stop ", 0) == 0) {
      stop_pos = p;
      break;
    }
  }
  std::vector<std::pair<std::size_t, std::string>> pushes, rejects;
  std::vector<std::string> accepted_before_stop;
  for (std::size_t p = 0; p < trace.size(); ++p) {
    auto& l = trace[p];
    if (Field(l, 1) != "E" || Field(l, 2) != "submit") continue;
    auto t = Field(l, 0);
    auto n = Field(l, 3);
    std::size_t u = trace.size();
    bool rejected = false;
    for (std::size_t k = p + 1; k < trace.size(); ++k) {
      auto& m = trace[k];
      if (Field(m, 0) != t) continue;
      if (u == trace.size() && Field(m, 1) == "M" && Field(m, 2) == "m" && Field(m, 3) == "unlock") u = k;
      if (Field(m, 1) == "E" && Field(m, 2) == "drop" && Field(m, 3) == n) rejected = true;
      if (Field(m, 1) == "E" && Field(m, 2) == "submit") break;
    }
    if (u == trace.size()) return "Submit(" + n + ") never released the pool mutex";
    if (!rejected) {
      pushes.emplace_back(u, n);
      if (u < stop_pos) accepted_before_stop.push_back(n);
    } else {
      if (u < stop_pos) return "job " + n + " was Dropped by Submit although the pool had not been stopped";
      rejects.emplace_back(u, n);
    }
  }
  // SoftStop stops only when no job is queued or running: when a Submit finds the pool stopped, every job
  // accepted before has already been Called
  if (sc.stop == "soft") {
    for (auto& [ru, rn] : rejects) {
      for (auto& [pu, pn] : pushes) {
        if (pu > ru) continue;
        bool called_before = false;
        for (std::size_t k = 0; k < ru; ++k) {
          if (Field(trace[k], 1) == "E" && Field(trace[k], 2) == "call" && Field(trace[k], 3) == pn) called_before = true;
        }
        if (!called_before)
          return "SoftStop: the pool was stopped (Submit Dropped " + rn + ") while accepted job " + pn + " was still queued or running";
      }
    }
  }
  // Stop / SoftStop still run everything accepted before them
  if (sc.stop != "hard") {
    for (auto& n : accepted_before_stop) {
      if (gObs.called[n] != 1) return "job " + n + " was accepted before " + sc.stop + " but not Called";
    }
  }
  // an accepted job is Dropped only by HardStop
  for (auto& [p, n] : pushes) {
    if (sc.stop != "hard" && gObs.dropped[n] != 0) return "accepted job " + n + " was Dropped although nobody called HardStop";
  }
  // single worker: jobs start in acceptance order
  if (sc.workers == 1) {
    std::sort(pushes.begin(), pushes.end());
    if (gObs.call_order.size() > pushes.size()) return "more jobs started than were accepted";
    for (std::size_t i = 0; i < gObs.call_order.size(); ++i) {
      if (gObs.call_order[i] != pushes[i].second)
        return "single worker: start order differs from acceptance order at position " + std::to_string(i);
    }
    if (sc.stop != "hard" && gObs.call_order.size() != pushes.size()) return "an accepted job was never started";
  }
  return "";
}

// make `notify_one 1` lines say which fiber they woke: among the fibers parked on that queue and not yet claimed by
// an earlier notification, the one whose `wake` comes first (earliest-deadline matching; the fiber backend has no
// spurious wake-ups, so every wake is matched by exactly one notification and the matching is always consistent
// with what the model allows: the chosen fiber was parked at the time of the notification)
void ResolveNotifies(std::vector<std::string>& trace) {
  for (std::size_t p = 0; p < trace.size(); ++p) {
    auto& l = trace[p];
    if (Field(l, 1) != "M" || Field(l, 3) != "notify_one" || Field(l, 4) != "1") continue;
    std::string q = Field(l, 2);
    std::vector<std::string> parked, claimed;
    for (std::size_t k = 0; k < p; ++k) {
      auto& m = trace[k];
      if (Field(m, 1) != "M" || Field(m, 2) != q) continue;
      auto op = Field(m, 3);
      auto t = Field(m, 0);
      if (op == "park") parked.push_back(t);
      else if (op == "wake") {
        parked.erase(std::remove(parked.begin(), parked.end(), t), parked.end());
        claimed.erase(std::remove(claimed.begin(), claimed.end(), t), claimed.end());
      } else if (op == "notify_one" && Field(m, 4) == "1") claimed.push_back(Field(m, 5));
      else if (op == "notify_all") claimed = parked;
    }
    std::string best = "?";
    std::size_t best_wake = trace.size() + 1;
    for (auto& t : parked) {
      if (std::find(claimed.begin(), claimed.end(), t) != claimed.end()) continue;
      for (std::size_t k = p + 1; k < trace.size(); ++k) {
        auto& m = trace[k];
        if (Field(m, 0) == t && Field(m, 1) == "M" && Field(m, 2) == q && Field(m, 3) == "wake") {
          if (k < best_wake) {
            best_wake = k;
            best = t;
          }
          break;
        }
      }
    }
    l += " " + best;
  }
}

std::vector<Scenario> Scenarios(const std::vector<std::pair<int, std::vector<int>>>& shapes, const std::string& kind = "plain") {
  std::vector<Scenario> out;
  for (auto& [n, s] : shapes)
    for (const char* stop : {"stop", "soft", "hard"})
      for (bool race : {true, false}) out.push_back(Scenario{n, s, stop, race, kind});
  return out;
}

}  // namespace

// --set quick   : small shapes (plain and Drop-submits jobs) exhaustively under --pb (default 1); larger shapes and the
//                 shapes with jobs that wait for other jobs exhaustively without preemption (only the scheduler's
//                 choice of the next fiber at blocking points) and with random schedules
// --set thorough: small shapes exhaustively under --pb (use 2), the others under --pb - 1 (truncated at --max-exec per
//                 scenario) and with random schedules
int main(int argc, char** argv) {
  auto opt = vx::ParseOptions(argc, argv);
  std::string set = "quick";
  for (int i = 1; i + 1 < argc; ++i) {
    if (std::string(argv[i]) == "--set") set = argv[i + 1];
  }
  vx::Explorer ex(opt);
  InstallNamingHook();
  auto run = [&](const Scenario& sc) {
    ex.Run(sc.Header(), [&] { RunScenario(sc); },
           [&](bool done) {
             auto r = Monitor(sc, done);
             ResolveNotifies(vx::gCtx->trace);
             return r;
           });
  };
  auto cat = [](std::vector<Scenario> a, const std::vector<Scenario>& b) {
    a.insert(a.end(), b.begin(), b.end());
    return a;
  };
  const auto small = cat(Scenarios({{1, {1}}, {1, {2}}, {2, {1}}, {1, {1, 1}}}), Scenarios({{1, {1}}, {2, {1}}, {1, {2}}}, "dropsub"));
  const auto large = cat(cat(Scenarios({{2, {2}}, {2, {1, 1}}, {1, {2, 1}}, {2, {2, 1}}}), Scenarios({{2, {2}}}, "dropsub")),
                         cat(Scenarios({{2, {1}}, {2, {1, 1}}}, "callsub"), Scenarios({{2, {1, 1}}}, "callwait")));
  if (opt.has_replay || opt.mode == "random") {
    for (auto& sc : small) run(sc);
    for (auto& sc : large) run(sc);
  } else {
    for (auto& sc : small) run(sc);
    ex.ctx.preempt_bound = set == "quick" ? 0 : std::max(0, opt.preempt_bound - 1);
    for (auto& sc : large) run(sc);
    ex.ctx.random_mode = true;
    for (auto& sc : large) run(sc);
    ex.ctx.random_mode = false;
  }
  ex.Report();
  return ex.stats.violations == 0 ? 0 : 1;
}
