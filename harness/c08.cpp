// C08 correspondence harness: the real FairThreadPool (n worker fibers) x submitter fibers x one stopper fiber
// (Stop / SoftStop / HardStop, racing with the submitters or started after they finished), then Wait.
// All schedules under a preemption bound (or random schedules).  Emits canonical traces for
// `ymdriver validate pool` and checks the property's monitors directly on the implementation.
//
// Trace objects (auto-named by first appearance, checked in Monitor): m0 = FairThreadPool::_m,
// q0 = the wait queue inside the fiber mutex _m (scheduler level, not modelled), q1 = the wait queue of the
// condition variable FairThreadPool::_idle.  Because the first operation of every run is a `lock` of _m
// followed by the `notify_one` of its internal queue when it is unlocked, this order is fixed; to be
// independent of it the harness renames the three objects explicitly (`m`, `mq`, `cv`) from the pool's layout.
#include <common/vx.hpp>

#include <yaclib/exe/job.hpp>
#include <yaclib/runtime/fair_thread_pool.hpp>

#include <algorithm>
#include <memory>

namespace {

struct Scenario {
  int workers;                // 1 | 2
  std::vector<int> subs;      // jobs per submitter
  std::string stop;           // stop | soft | hard
  bool race;                  // stopper races with the submitters / starts after they were joined
  std::string Header() const {
    std::string s;
    for (auto k : subs) s += (s.empty() ? "" : ",") + std::to_string(k);
    return "pool workers=" + std::to_string(workers) + " subs=" + s + " stop=" + stop + " race=" + (race ? "1" : "0") + " late=1";
  }
};

struct Obs {
  std::map<std::string, int> called, dropped;
  std::vector<std::string> call_order;
  std::vector<std::string> accepted_guess;  // not observable directly: see Monitor
  bool wait_returned = false;
  bool call_after_wait = false;
};

Obs gObs;

struct TJob final : yaclib::Job {
  std::string name;
  void Call() noexcept final {
    ++gObs.called[name];
    gObs.call_order.push_back(name);
    if (gObs.wait_returned) gObs.call_after_wait = true;
    vx::Ev("call " + name);
  }
  void Drop() noexcept final {
    ++gObs.dropped[name];
    vx::Ev("drop " + name);
  }
};

// access to the pool's private mutex / condition variable, for naming the traced objects only
template <typename Tag, typename Tag::type M>
struct Rob {
  friend typename Tag::type Get(Tag) { return M; }
};
struct MTag {
  using type = yaclib_std::mutex yaclib::FairThreadPool::*;
  friend type Get(MTag);
};
struct CTag {
  using type = yaclib_std::condition_variable yaclib::FairThreadPool::*;
  friend type Get(CTag);
};
template struct Rob<MTag, &yaclib::FairThreadPool::_m>;
template struct Rob<CTag, &yaclib::FairThreadPool::_idle>;

int gWorkersNamed = 0;

void NameWorkerIfNew() {
  auto& ctx = *vx::gCtx;
  auto id = ctx.CurId();
  if (ctx.tids.find(id) == ctx.tids.end()) {
    ctx.tids[id] = "w" + std::to_string(gWorkersNamed++);
  }
}

void InstallNamingHook() {
  // worker fibers are created inside the pool's constructor and therefore unnamed: name them w0, w1, … by the
  // order of their first traced operation (workers are symmetric in the model)
  auto& h = yaclib::verif::gHooks;
  h.on_sync = [](void* c, const void* obj, int op, int res) {
    NameWorkerIfNew();
    static_cast<vx::Ctx*>(c)->OnSync(obj, op, res);
  };
}

void RunScenario(const Scenario& sc) {
  gObs = Obs{};
  gWorkersNamed = 0;
  std::vector<std::vector<std::unique_ptr<TJob>>> jobs(sc.subs.size());
  for (std::size_t i = 0; i < sc.subs.size(); ++i) {
    for (int k = 0; k < sc.subs[i]; ++k) {
      auto j = std::make_unique<TJob>();
      j->name = "j" + std::to_string(i) + "." + std::to_string(k);
      jobs[i].push_back(std::move(j));
    }
  }
  auto pool = yaclib::MakeFairThreadPool(static_cast<std::uint64_t>(sc.workers));
  {
    // fiber::Mutex reports itself and its internal wait queue (first member, same address) under one name;
    // the condition variable's only member is its wait queue
    auto& ctx = *vx::gCtx;
    ctx.NameObj(&((*pool).*Get(MTag{})).GetImpl(), "m");
    ctx.NameObj(&((*pool).*Get(CTag{})), "cv");
  }
  auto stopper = [&] {
    vx::Ev("stop " + sc.stop);
    if (sc.stop == "stop") pool->Stop();
    else if (sc.stop == "soft") pool->SoftStop();
    else pool->HardStop();
    vx::Ev("stop_done");
  };
  std::vector<vx::Thread> ts;
  for (std::size_t i = 0; i < sc.subs.size(); ++i) {
    ts.emplace_back("s" + std::to_string(i), [&, i] {
      for (auto& j : jobs[i]) {
        vx::Ev("submit " + j->name);
        pool->Submit(*j);
      }
    });
  }
  vx::Thread st;
  if (sc.race) st = vx::Thread("x", stopper);
  for (auto& t : ts) t.join();
  if (!sc.race) st = vx::Thread("x", stopper);
  st.join();
  pool->Wait();
  gObs.wait_returned = true;
  vx::Ev("wait_returned");
  // "every later Submit drops"
  TJob late;
  late.name = "late";
  vx::Ev("submit late");
  pool->Submit(late);
}

std::string Monitor(const Scenario& sc, bool done) {
  auto& trace = vx::gCtx->trace;
  if (!done) return "";  // reported as deadlock by the explorer
  // each job Called xor Dropped exactly once
  for (std::size_t i = 0; i < sc.subs.size(); ++i) {
    for (int k = 0; k < sc.subs[i]; ++k) {
      std::string n = "j" + std::to_string(i) + "." + std::to_string(k);
      int c = gObs.called[n], d = gObs.dropped[n];
      if (c + d != 1) return "job " + n + " Called " + std::to_string(c) + " times and Dropped " + std::to_string(d) + " times";
    }
  }
  if (gObs.call_after_wait) return "a job was Called after Wait returned";
  if (gObs.called["late"] != 0 || gObs.dropped["late"] != 1) return "a Submit after Wait returned was not Dropped exactly once";
  // Stop / SoftStop never drop an accepted job: a job whose Submit finished before the stopper started must be Called
  // (its acceptance precedes the stop); with HardStop it may be Dropped instead.
  // position of `x E stop …` in the trace; jobs whose submit *returned* before it = those followed by another
  // event of the same submitter (next submit) or whose submitter was joined (race=0: all of them)
  std::size_t stop_pos = trace.size();
  for (std::size_t p = 0; p < trace.size(); ++p) {
    if (trace[p].rfind("x E stop ", 0) == 0) {
      stop_pos = p;
      break;
    }
  }
  if (sc.stop != "hard") {
    for (std::size_t i = 0; i < sc.subs.size(); ++i) {
      std::string me = "s" + std::to_string(i);
      for (int k = 0; k < sc.subs[i]; ++k) {
        std::string n = "j" + std::to_string(i) + "." + std::to_string(k);
        // Submit(n) has returned before the stop began iff the submitter's unlock+notify for n are before stop_pos:
        // find "submit n", then the submitter's `notify_one` on cv after it
        bool returned_before = false;
        bool in = false;
        for (std::size_t p = 0; p < stop_pos; ++p) {
          if (trace[p] == me + " E submit " + n) in = true;
          else if (in && trace[p].rfind(me + " M cv notify_one", 0) == 0) {
            returned_before = true;
            break;
          }
        }
        if (returned_before && gObs.called[n] != 1) return "job " + n + " was accepted before " + sc.stop + " but not Called";
      }
    }
  }
  // single worker: start order = acceptance order.  Acceptance order = order of the submitters' unlocks of m
  // that are followed by a notify (accepted) — reconstructed from the trace
  if (sc.workers == 1) {
    std::vector<std::string> acc;
    std::map<std::string, std::string> cur;  // submitter -> job being submitted
    for (std::size_t p = 0; p < trace.size(); ++p) {
      auto& l = trace[p];
      auto sp = l.find(' ');
      std::string t = l.substr(0, sp);
      if (l.find(" E submit ") != std::string::npos) cur[t] = l.substr(l.find(" E submit ") + 10);
      else if (l.find(" M cv notify_one") != std::string::npos && cur.count(t)) {
        acc.push_back(cur[t]);
        cur.erase(t);
      }
    }
    // acc is in notify order, not in push order; push order = order of the unlocks.  Recompute with unlock positions.
    std::vector<std::pair<std::size_t, std::string>> pushes;
    cur.clear();
    std::map<std::string, std::size_t> unlock_pos;
    for (std::size_t p = 0; p < trace.size(); ++p) {
      auto& l = trace[p];
      auto sp = l.find(' ');
      std::string t = l.substr(0, sp);
      if (t.empty() || (t[0] != 's' && t[0] != 'r')) continue;
      if (l.find(" E submit ") != std::string::npos) cur[t] = l.substr(l.find(" E submit ") + 10);
      else if (l.find(" M m unlock") != std::string::npos) unlock_pos[t] = p;
      else if (l.find(" M cv notify_one") != std::string::npos && cur.count(t)) {
        pushes.emplace_back(unlock_pos[t], cur[t]);
        cur.erase(t);
      }
    }
    std::sort(pushes.begin(), pushes.end());
    std::vector<std::string> want;
    for (auto& [p, n] : pushes) want.push_back(n);
    // the calls must be a prefix of the push order (HardStop may cut it)
    if (gObs.call_order.size() > want.size()) return "more jobs started than were accepted";
    for (std::size_t i = 0; i < gObs.call_order.size(); ++i) {
      if (gObs.call_order[i] != want[i]) return "single worker: start order differs from acceptance order at position " + std::to_string(i);
    }
    if (sc.stop != "hard" && gObs.call_order.size() != want.size()) return "an accepted job was never started";
  }
  return "";
}

// make `notify_one 1` lines say which fiber they woke: the fiber whose `wake` on the same queue comes first
// among the fibers parked there (earliest-deadline matching; the fiber backend has no spurious wake-ups, so
// every wake is matched by exactly one notification)
void ResolveNotifies(std::vector<std::string>& trace) {
  struct Parked { std::string t; std::size_t wake; bool taken; };
  auto field = [](const std::string& l, int k) {
    std::size_t b = 0;
    for (int i = 0; i < k; ++i) b = l.find(' ', b) + 1;
    auto e = l.find(' ', b);
    return l.substr(b, e == std::string::npos ? std::string::npos : e - b);
  };
  for (std::size_t p = 0; p < trace.size(); ++p) {
    auto& l = trace[p];
    if (field(l, 1) != "M" || field(l, 3) != "notify_one" || field(l, 4) != "1") continue;
    std::string q = field(l, 2);
    // fibers parked on q at position p: park before p without a wake in between; their wake position after p
    std::map<std::string, std::size_t> parked;  // fiber -> park position
    std::map<std::string, std::string> assigned;  // fiber -> taken by an earlier notify (suffix already appended)
    std::vector<std::string> taken;
    for (std::size_t k = 0; k < p; ++k) {
      auto& m = trace[k];
      if (field(m, 1) != "M" || field(m, 2) != q) continue;
      auto op = field(m, 3);
      if (op == "park") parked[field(m, 0)] = k;
      else if (op == "wake") {
        parked.erase(field(m, 0));
        taken.erase(std::remove(taken.begin(), taken.end(), field(m, 0)), taken.end());
      } else if (op == "notify_one" && field(m, 4) == "1") taken.push_back(field(m, 5));
      else if (op == "notify_all") for (auto& [t, _] : parked) taken.push_back(t);
    }
    std::string best;
    std::size_t best_wake = trace.size() + 1;
    for (auto& [t, _] : parked) {
      if (std::find(taken.begin(), taken.end(), t) != taken.end()) continue;
      for (std::size_t k = p + 1; k < trace.size(); ++k) {
        auto& m = trace[k];
        if (field(m, 0) == t && field(m, 1) == "M" && field(m, 2) == q && field(m, 3) == "wake") {
          if (k < best_wake) {
            best_wake = k;
            best = t;
          }
          break;
        }
      }
    }
    l += " " + (best.empty() ? std::string("?") : best);
  }
}

std::vector<Scenario> AllScenarios() {
  std::vector<Scenario> out;
  const std::vector<std::vector<int>> subs = {{1}, {2}, {1, 1}, {2, 1}};
  for (int n : {1, 2})
    for (auto& s : subs)
      for (const char* stop : {"stop", "soft", "hard"})
        for (bool race : {true, false}) out.push_back(Scenario{n, s, stop, race});
  return out;
}

}  // namespace

int main(int argc, char** argv) {
  auto opt = vx::ParseOptions(argc, argv);
  vx::Explorer ex(opt);
  InstallNamingHook();
  for (auto& sc : AllScenarios()) {
    ex.Run(sc.Header(), [&] { RunScenario(sc); },
           [&](bool done) {
             auto r = Monitor(sc, done);
             ResolveNotifies(vx::gCtx->trace);
             return r;
           });
  }
  ex.Report();
  return ex.stats.violations == 0 ? 0 : 1;
}
