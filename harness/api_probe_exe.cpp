// API instantiation sweep, area `exe`: exe/{executor,inline,job,manual,strand,submit}.hpp, runtime/fair_thread_pool.hpp.
// C++17-clean.  See api_probe.hpp for the conventions.  Almost nothing here is a template: the point of this TU is the link
// step (every out-of-line member of the executors is referenced) and Submit(executor, func) over the kinds of callable.
#include <yaclib/exe/executor.hpp>
#include <yaclib/exe/inline.hpp>
#include <yaclib/exe/job.hpp>
#include <yaclib/exe/manual.hpp>
#include <yaclib/exe/strand.hpp>
#include <yaclib/exe/submit.hpp>
#include <yaclib/runtime/fair_thread_pool.hpp>
// the headers above are the whole include list a user of the executors needs
#include <yaclib/async/run.hpp>

#include "api_probe.hpp"

#include <atomic>
#include <functional>

namespace probe {
namespace {

using yaclib::IExecutor;

// a user executor: the three virtuals of the interface
struct UserExecutor final : IExecutor {
  Type Tag() const noexcept final {
    return Type::Custom;
  }
  bool Alive() const noexcept final {
    return true;
  }
  void Submit(yaclib::Job& job) noexcept final {
    ++submitted;
    job.Call();
  }
  int submitted = 0;
};

struct UserJob final : yaclib::Job {
  void Call() noexcept final {
    ++called;
  }
  void Drop() noexcept final {
    ++dropped;
  }
  int called = 0;
  int dropped = 0;
};

void FreeFunction() {
}
struct MoveOnlyFunctor {
  MoveOnlyFunctor() = default;
  MoveOnlyFunctor(MoveOnlyFunctor&&) noexcept = default;
  void operator()() {
  }
  MoveOnly state;
};
struct RvalueFunctor {
  void operator()() && {
  }
};
struct ConstFunctor {
  void operator()() const {
  }
};

// exe/submit.hpp over every kind of callable; returns the number of counted calls that already happened
// (the counter is static: manual / strand / pool executors run the functors after this function returned)
int Submits(IExecutor& e) {
  static std::atomic<int> calls;
  calls = 0;
  yaclib::Submit(e, [&] {
    ++calls;
  });
  yaclib::Submit(e, [&, s = MoveOnly{}]() mutable {
    calls += 1 + s.x;
  });
  yaclib::Submit(e, MoveOnlyFunctor{});
  yaclib::Submit(e, RvalueFunctor{});
  ConstFunctor lvalue;
  const ConstFunctor clvalue;
  yaclib::Submit(e, lvalue);
  yaclib::Submit(e, clvalue);
  yaclib::Submit(e, FreeFunction);
  yaclib::Submit(e, &FreeFunction);
  std::function<void()> function = [&] {
    ++calls;
  };
  yaclib::Submit(e, function);
  yaclib::Submit(e, std::move(function));
  return calls;
}

void Interface(IExecutor& e) {
  Sink(e.Tag(), e.Alive());
  static UserJob job;  // (static: manual / strand / pool executors run it after this function returned)
  e.Submit(job);
  yaclib::IExecutorPtr ptr{&e};
  Sink(ptr->Tag());
  Sink(IExecutor::Type::Custom, IExecutor::Type::Inline, IExecutor::Type::Manual, IExecutor::Type::Strand, IExecutor::Type::SingleThread,
       IExecutor::Type::FairThreadPool, IExecutor::Type::GolangThreadPool);
}

}  // namespace
}  // namespace probe

int api_probe_exe(int argc) {
  using namespace probe;
  (void)argc;
  int bad = 0;
  // Inline (both singletons)
  IExecutor& inl = yaclib::MakeInline();
  IExecutor& stopped = yaclib::MakeInline(yaclib::StopTag{});
  Interface(inl);
  bad += Submits(inl) != 4;
  UserJob dropped;
  stopped.Submit(dropped);
  bad += !(dropped.dropped == 1 && dropped.called == 0 && !stopped.Alive() && inl.Tag() == IExecutor::Type::Inline);
  // Manual: as an object and through MakeManual()
  yaclib::ManualExecutor manual;
  Interface(manual);
  Submits(manual);
  bad += manual.Drain() == 0;
  yaclib::IExecutorPtr made_manual = yaclib::MakeManual();
  yaclib::Submit(*made_manual, [] {
  });
  bad += static_cast<yaclib::ManualExecutor&>(*made_manual).Drain() != 1;
  // Strand: as an object over an IExecutorPtr and through MakeStrand()
  {
    yaclib::Strand strand{yaclib::IExecutorPtr{&manual}};
    Interface(strand);
    int calls = Submits(strand);
    while (manual.Drain() != 0) {
    }
    Sink(calls);
    yaclib::IExecutorPtr made = yaclib::MakeStrand(yaclib::IExecutorPtr{&manual});
    int ran = 0;
    yaclib::Submit(*made, [&] {
      ++ran;
    });
    auto f = yaclib::Run(*made, [&] {
      return ++ran;
    });
    while (manual.Drain() != 0) {
    }
    bad += !(ran == 2 && std::move(f).Get().Ok() == 2 && made->Tag() == IExecutor::Type::Strand && made->Alive());
  }
  // FairThreadPool: as an object and through MakeFairThreadPool()
  {
    yaclib::FairThreadPool tp{1};
    Interface(tp);
    auto f = yaclib::Run(tp, [] {
      return 1;
    });
    bad += std::move(f).Get().Ok() != 1;
    tp.SoftStop();
    tp.Wait();
    yaclib::IntrusivePtr<yaclib::FairThreadPool> made = yaclib::MakeFairThreadPool(2);
    Submits(*made);
    made->Stop();
    made->Wait();
    yaclib::FairThreadPool hard{1};
    hard.HardStop();
    hard.Wait();
    bad += hard.Alive() || made->Tag() != IExecutor::Type::FairThreadPool;
    if (argc > 1000) {
      yaclib::FairThreadPool default_threads;  // hardware_concurrency() threads
      auto default_made = yaclib::MakeFairThreadPool();
      default_threads.Stop();
      default_threads.Wait();
      default_made->Stop();
      default_made->Wait();
    }
  }
  // a user executor
  UserExecutor user;
  Interface(user);
  bad += Submits(user) != 4;
  return bad;
}

#ifndef API_PROBE_NO_MAIN
int main(int argc, char**) {
  return api_probe_exe(argc);
}
#endif
