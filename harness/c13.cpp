// C13 correspondence harness: real coroutines (returning yaclib::Future<int>, Task<int>, SharedFuture<int>) that co_await
// real awaited objects (Promise/Future contracts, SharedPromise/SharedFuture contracts, futures produced by other
// coroutines, Tasks) through every awaiter of the library:
//   co_await future / shared future / task, Await(x), Await(xs...) static and dynamic, AwaitSticky(x), AwaitSticky(xs...),
//   AwaitOn(e, x), AwaitOn(e, xs...), On(e), Yield(), kYield, CurrentExecutor()
// on the FIBER + CORO build, all schedules under a preemption bound.  Producers run on their own fibers (or fulfil before the
// coroutine starts), executors are instrumented queues drained by a worker fiber (Call) or stopped (Drop).
// Emits canonical traces for `ymdriver_coro` and checks the property's monitors directly on the implementation.
//
// The wrapper awaiter.  Every `co_await X` of the coroutine body is written `co_await MakeW(cid, k, [&] { return X; })`.
// W<Inner> holds the library's awaiter (constructed in place: guaranteed elision) and forwards await_ready / await_suspend /
// await_resume to it with unchanged return types; it adds the events (`await`, `ready`, `resume`) and keeps the fiber's
// *name* right: trace lines are attributed to the agent that executes them (coroutine cN, producer pJ, executor worker eK),
// not to the fiber, and only the wrapper knows when a coroutine leaves the fiber it was resumed on.
// The awaited words are traced (`w<j>`: BaseCore::_callback of the awaited core) and so are the await counters
// (`cnt<c>`: AtomicCounter::count inside the awaiter object, named before the awaiter's constructor registers callbacks).
// The coroutine's own result word is not traced: its Result is validated at event level (`result`), as are Call/Drop.
#include <common/vx.hpp>

#include <yaclib/async/contract.hpp>
#include <yaclib/async/future.hpp>
#include <yaclib/async/make.hpp>
#include <yaclib/async/promise.hpp>
#include <yaclib/async/shared_contract.hpp>
#include <yaclib/async/shared_future.hpp>
#include <yaclib/coro/await.hpp>
#include <yaclib/coro/await_on.hpp>
#include <yaclib/coro/await_sticky.hpp>
#include <yaclib/coro/current_executor.hpp>
#include <yaclib/coro/future.hpp>
#include <yaclib/coro/on.hpp>
#include <yaclib/coro/shared_future.hpp>
#include <yaclib/coro/task.hpp>
#include <yaclib/coro/yield.hpp>
#include <yaclib/exe/executor.hpp>
#include <yaclib/lazy/schedule.hpp>
#include <yaclib/lazy/task.hpp>

#include <deque>
#include <map>
#include <sstream>
#include <stdexcept>

// Frees are deferred to the end of the execution: a traced object's address must not be handed out again while its name is
// still registered (cores of awaited objects die inside the library, where the harness cannot un-name them).
namespace quarantine {
bool active = false;
std::vector<void*>* list = nullptr;
void Flush() {
  if (list == nullptr) return;
  for (void* p : *list) std::free(p);
  list->clear();
}
}  // namespace quarantine

void operator delete(void* p) noexcept {
  if (p == nullptr) return;
  if (quarantine::active && quarantine::list != nullptr) {
    bool was = quarantine::active;
    quarantine::active = false;
    quarantine::list->push_back(p);
    quarantine::active = was;
    return;
  }
  std::free(p);
}
void operator delete(void* p, std::size_t) noexcept { operator delete(p); }
void operator delete[](void* p) noexcept { operator delete(p); }
void operator delete[](void* p, std::size_t) noexcept { operator delete(p); }
void* operator new(std::size_t n) {
  void* p = std::malloc(n == 0 ? 1 : n);
  if (p == nullptr) throw std::bad_alloc{};
  return p;
}
void* operator new[](std::size_t n) { return operator new(n); }

namespace {

using yaclib::detail::BaseCore;

struct Peek : BaseCore {
  static yaclib_std::atomic_uintptr_t& Word(BaseCore& c) { return c.*(&Peek::_callback); }
};

// ---- scenario description ------------------------------------------------------------------------------------------
struct CellSpec {
  char kind;          // u: Promise/Future contract   s: SharedPromise/SharedFuture contract
                      // U: Future returned by a coroutine   S: SharedFuture returned by a coroutine
                      // t: Task coroutine (lazy, completes inline)   T: Task coroutine that moves to executor 1 first
                      // o: MakeContractOn(e2) / O: MakeSharedContractOn(e2): the awaited core stores executor 2 (a coroutine
                      //    resumed by its completer must adopt it: "continue where the producer is")
                      // k: Schedule(e1, f)   K: Schedule(e1, f).ThenInline(g)   (Tasks headed by a Run core: legal to await
                      //    since /repo 4f7ebfc)   — every Task carries the instance-counted value type Cnt
  std::string res;    // val:N | err | exc
  std::string when;   // pre (fulfilled before the coroutines start) | fib (own producer fiber)
  bool sub = false;   // a plain subscriber (SubscribeInline) is registered on the SharedFuture first
};

struct OpSpec {
  std::string kind;   // single | sticky | on | multi | msticky | mon | task | resched | current
  int e = -1;         // executor (on / mon / resched); -1 = none (Yield)
  std::vector<int> cells;
  bool get = false;   // co_await future (value / rethrow) instead of Await(future)
  bool dyn = false;   // multi forms: iterator + count overload
  bool kyield = false;
};

struct CoroSpec {
  std::string type = "future";  // future | task | shared
  std::vector<OpSpec> ops;
  std::string ret = "val:7";    // val:N | throws
  bool catches = false;
  int locals = 1;
};

struct Scenario {
  std::vector<CellSpec> cells;
  std::vector<std::string> execs;  // run | stop | stop1 | istop   (executor k = execs[k-1]; executor 0 = the library's inline
                                   // one; istop = the library's STOPPED inline executor yaclib::MakeInline(StopTag{}): its
                                   // Submit is Drop in place and cannot be instrumented, the Drop is inferred from the Result)
  std::vector<CoroSpec> coros;

  static std::string OpStr(const OpSpec& o) {
    std::string s = o.kind + (o.get ? ".g" : "") + ":" + (o.e < 0 ? std::string("-") : std::to_string(o.e)) + ":";
    for (std::size_t i = 0; i < o.cells.size(); ++i) s += (i ? "+" : "") + std::to_string(o.cells[i]);
    if (o.dyn) s += ":dyn";
    if (o.kyield) s += ":k";
    return s;
  }
  std::string Header() const {
    std::string h = "coro cells=";
    for (std::size_t j = 0; j < cells.size(); ++j)
      h += std::string(j ? "," : "") + cells[j].kind + "/" + cells[j].res + "/" + cells[j].when + "/" + (cells[j].sub ? "1" : "0");
    if (cells.empty()) h += "-";
    h += " execs=";
    for (std::size_t k = 0; k < execs.size(); ++k) h += (k ? "," : "") + execs[k];
    if (execs.empty()) h += "-";
    h += " n=" + std::to_string(coros.size());
    for (std::size_t i = 0; i < coros.size(); ++i) {
      auto& c = coros[i];
      h += " c" + std::to_string(i) + "=" + c.type + ";" + std::to_string(c.locals) + ";" + (c.catches ? "1" : "0") + ";" + c.ret + ";";
      for (std::size_t k = 0; k < c.ops.size(); ++k) h += (k ? "," : "") + OpStr(c.ops[k]);
      if (c.ops.empty()) h += "-";
    }
    return h;
  }
};

// ---- run-time state of one execution -----------------------------------------------------------------------------------
struct Exec;

// instance-counted payload of the Tasks: every Result<Cnt> that is constructed must be destroyed exactly once
struct Cnt {
  static inline int ctors = 0, dtors = 0;
  int v = 0;
  explicit Cnt(int x) : v{x} { ++ctors; }
  Cnt(const Cnt& o) : v{o.v} { ++ctors; }
  Cnt(Cnt&& o) noexcept : v{o.v} { ++ctors; }
  Cnt& operator=(const Cnt&) = default;
  Cnt& operator=(Cnt&&) noexcept = default;
  ~Cnt() { ++dtors; }
};
inline int AsInt(int x) { return x; }
inline int AsInt(const Cnt& x) { return x.v; }

struct CoState {
  BaseCore* core = nullptr;
  std::string resumer;       // name the fiber had before this coroutine took it over
  bool may_suspend = false;  // await_suspend was entered and did not say "continue"
  std::map<int, int> resumes;
  int ldtors = 0, fdtors = 0, results = 0;
  std::string result;
  bool dropped = false;
  bool left_body = false;    // co_return / escaping exception reached
  int reached = 0;           // co_awaits started
  int ex_before = 0;         // executor of the coroutine when the current co_await started
};

struct Env {
  const Scenario* sc = nullptr;
  std::vector<yaclib::Future<int>> fut;
  std::vector<yaclib::SharedFuture<int>> sf;
  std::vector<yaclib::Task<Cnt>> task;
  std::vector<yaclib::Promise<int>> prom;
  std::vector<yaclib::SharedPromise<int>> sprom;
  std::vector<yaclib::Promise<>> gate;
  std::vector<BaseCore*> core;
  std::vector<std::unique_ptr<Exec>> execs;
  std::vector<CoState> co;
  std::map<const yaclib::Job*, int> job2cid;
  std::string violation;
  void Bad(const std::string& s) {
    if (violation.empty()) violation = s;
  }
};

Env* G = nullptr;
std::unique_ptr<Env> gEnvOwner;
bool gLastDone = true;

std::string Show(const yaclib::Result<int>& r) {
  switch (r.State()) {
    case yaclib::ResultState::Value: return "val:" + std::to_string(std::as_const(r).Value());
    case yaclib::ResultState::Error: return "err";
    case yaclib::ResultState::Exception: return "exc";
    default: return "EMPTY";
  }
}

std::string Cn(int cid) { return "c" + std::to_string(cid); }

// has cell j been fulfilled (exchange(kResult) on its word) so far?  Read off the trace: no extra atomic operation.
bool Fulfilled(int j) {
  const std::string pat = " A w" + std::to_string(j) + " xchg ";
  for (auto& l : vx::gCtx->trace)
    if (l.find(pat) != std::string::npos) return true;
  return false;
}

// A fulfiller that runs a callback which neither touches a counter nor resumes at once leaves no trace line of its own:
// say so (the model has a step for it).  Only AwaitSticky(x) is of this kind when it submits.
void FireIfSilent(int cid) {
  auto& co = G->co[static_cast<std::size_t>(cid)];
  if (co.reached == 0) return;
  auto& op = G->sc->coros[static_cast<std::size_t>(cid)].ops[static_cast<std::size_t>(co.reached - 1)];
  const std::string r = vx::gCtx->Cur();
  if (op.kind == "sticky" && r[0] == 'p') vx::Ev("fire " + Cn(cid) + " " + r.substr(1));
}

struct Exec final : yaclib::IExecutor {
  int id = 0;
  std::string mode;  // run | stop | stop1
  int accepted = 0;
  std::deque<yaclib::Job*> q;
  bool active = false;
  std::deque<vx::Thread> threads;
  std::size_t joined = 0;

  Type Tag() const noexcept final { return Type::Custom; }
  bool Alive() const noexcept final { return mode == "run" || (mode == "stop1" && accepted == 0); }
  void Submit(yaclib::Job& job) noexcept final {
    auto it = G->job2cid.find(&job);
    int cid = it == G->job2cid.end() ? -1 : it->second;
    if (cid >= 0) FireIfSilent(cid);
    vx::Ev("submit " + Cn(cid) + " e" + std::to_string(id));
    bool accept = mode == "run" || (mode == "stop1" && accepted == 0);
    if (!accept) {
      vx::Ev("drop " + Cn(cid));
      if (cid >= 0) G->co[cid].dropped = true;
      job.Drop();
      return;
    }
    ++accepted;
    q.push_back(&job);
    if (!active) {
      active = true;
      threads.emplace_back("e" + std::to_string(id), [this] { Drain(); });
    }
  }
  void Drain() {
    while (!q.empty()) {
      auto* j = q.front();
      q.pop_front();
      auto it = G->job2cid.find(j);
      vx::Ev("call " + Cn(it == G->job2cid.end() ? -1 : it->second));
      j->Call();
      vx::gCtx->NameSelf("e" + std::to_string(id));
    }
    active = false;
  }
  bool JoinSome() {
    bool any = false;
    while (joined < threads.size()) {
      threads[joined++].join();
      any = true;
    }
    return any;
  }
};

int ExecId(yaclib::IExecutor* e) {
  if (e == &yaclib::MakeInline()) return 0;
  for (auto& x : G->execs)
    if (x.get() == e || (x->mode == "istop" && e == &yaclib::MakeInline(yaclib::StopTag{}))) return x->id;
  return -1;
}

yaclib::IExecutor& ExecRef(int e) {
  auto& x = *G->execs[static_cast<std::size_t>(e - 1)];
  if (x.mode == "istop") return yaclib::MakeInline(yaclib::StopTag{});
  return x;
}

int ExecIdOf(BaseCore* core) { return ExecId(core->_executor.Get()); }

struct SelfAwaiter {
  BaseCore* core = nullptr;
  bool await_ready() const noexcept { return false; }
  template <typename P>
  bool await_suspend(yaclib_std::coroutine_handle<P> h) noexcept {
    core = &static_cast<BaseCore&>(h.promise());
    return false;
  }
  BaseCore* await_resume() const noexcept { return core; }
};

struct FrameGuard {
  int cid;
  bool armed;
  explicit FrameGuard(int c) : cid{c}, armed{true} {}
  FrameGuard(FrameGuard&& o) noexcept : cid{o.cid}, armed{o.armed} { o.armed = false; }
  ~FrameGuard() {
    if (armed) {
      ++G->co[cid].fdtors;
      vx::Ev("fdtor " + Cn(cid));
    }
  }
};

struct Local {
  int cid;
  bool armed;
  explicit Local(int c) : cid{c}, armed{true} {}
  Local(Local&& o) noexcept : cid{o.cid}, armed{o.armed} { o.armed = false; }
  ~Local() {
    if (armed) {
      ++G->co[cid].ldtors;
      vx::Ev("ldtor " + Cn(cid));
    }
  }
};

// ---- the wrapper awaiter ---------------------------------------------------------------------------------------------------
template <typename T, typename = void>
struct HasCount : std::false_type {};
template <typename T>
struct HasCount<T, std::void_t<decltype(std::declval<T&>().count)>> : std::true_type {};

struct Pre {
  const void* cnt;
  Pre(int cid, int k, const void* c) : cnt{c} {
    auto& op = G->sc->coros[cid].ops[k];
    if (cnt != nullptr) vx::gCtx->NameObj(cnt, "cnt" + std::to_string(cid), true);
    G->co[cid].reached = k + 1;
    G->co[cid].ex_before = G->co[cid].core != nullptr ? ExecIdOf(G->co[cid].core) : 0;
    vx::Ev("await " + std::to_string(k) + " " + op.kind);
  }
  ~Pre() {
    if (cnt != nullptr) vx::gCtx->ForgetObj(cnt);
  }
};

bool ExecBound(const std::string& kind) { return kind == "sticky" || kind == "msticky" || kind == "resched" || kind == "on" || kind == "mon"; }

template <typename Inner>
struct W {
  int cid, k;
  Pre pre;
  Inner inner;

  const void* CountAddr() {
    if constexpr (HasCount<Inner>::value) {
      return &(reinterpret_cast<Inner*>(&this->inner)->count);
    } else {
      return nullptr;
    }
  }

  template <typename F>
  W(int c, int kk, F&& f) : cid{c}, k{kk}, pre{c, kk, CountAddr()}, inner(f()) {}

  bool await_ready() {
    bool b = inner.await_ready();
    vx::Ev("ready " + std::to_string(k) + " " + (b ? "1" : "0"));
    return b;
  }

  template <typename P>
  auto await_suspend(yaclib_std::coroutine_handle<P> h) {
    using Rt = decltype(inner.await_suspend(h));
    Env* g = G;
    const int id = cid;
    const std::string back = g->co[id].resumer;  // `this` may be gone once the inner await_suspend has returned
    g->co[id].may_suspend = true;
    if constexpr (std::is_void_v<Rt>) {
      inner.await_suspend(h);
      vx::gCtx->NameSelf(back);
    } else if constexpr (std::is_same_v<Rt, bool>) {
      bool r = inner.await_suspend(h);
      if (r) {
        vx::gCtx->NameSelf(back);
      } else {
        g->co[id].may_suspend = false;
      }
      return r;
    } else {
      auto r = inner.await_suspend(h);
      vx::gCtx->NameSelf(back);
      return r;
    }
  }

  decltype(auto) await_resume() {
    auto& co = G->co[cid];
    auto& op = G->sc->coros[cid].ops[k];
    const std::string me = Cn(cid);
    const std::string r = vx::gCtx->Cur();
    std::string on;
    if (!co.may_suspend) {
      on = "inl";
    } else {
      if (r[0] == 'e') on = r;
      else if (ExecBound(op.kind)) on = "e0";  // Submit on the library's inline executor = Call in place
      else on = r;
      co.resumer = r;
      vx::gCtx->NameSelf(me);
    }
    const bool suspended = co.may_suspend;
    co.may_suspend = false;
    if (suspended && (op.kind == "single" || op.kind == "task") && on[0] == 'p') vx::Ev("fire " + me + " " + on.substr(1));
    if (suspended && on == "e0") {
      // Submit on the library's inline executor is `Call` in place: not observable through an executor of the harness
      if (op.kind == "sticky" && r[0] == 'p') vx::Ev("fire " + me + " " + r.substr(1));
      vx::Ev("submit " + me + " e0");
      vx::Ev("call " + me);
    }
    if (++co.resumes[k] > 1) G->Bad(me + " resumed twice from co_await #" + std::to_string(k));
    bool done = true;
    for (int j : op.cells) done = done && Fulfilled(j);
    const int ex = ExecId(co.core->_executor.Get());
    // ---- monitors on the resumption context
    if (!done) G->Bad(me + " resumed from co_await #" + std::to_string(k) + " (" + op.kind + ") before the awaited object was fulfilled");
    if ((op.kind == "on" || op.kind == "mon" || (op.kind == "resched" && op.e >= 0)) &&
        G->execs[static_cast<std::size_t>(op.e - 1)]->mode != "run" && G->execs[static_cast<std::size_t>(op.e - 1)]->mode != "stop1") {
      G->Bad(me + " continued after co_await #" + std::to_string(k) + " (" + op.kind + ") although executor e" + std::to_string(op.e) +
             " is stopped: the coroutine must be completed with StopError");
    }
    if ((op.kind == "on" || op.kind == "mon" || (op.kind == "resched" && op.e >= 0))) {
      if (on != "e" + std::to_string(op.e)) G->Bad(me + " co_await #" + std::to_string(k) + " resumed on " + on + " instead of e" + std::to_string(op.e));
      if (ex != op.e) G->Bad(me + " executor after " + op.kind + " is e" + std::to_string(ex));
    }
    if ((op.kind == "sticky" || op.kind == "msticky" || (op.kind == "resched" && op.e < 0)) && on != "inl") {
      if (on != "e" + std::to_string(co.ex_before))
        G->Bad(me + " co_await #" + std::to_string(k) + " (" + op.kind + ") resumed on " + on + " instead of its own executor e" + std::to_string(co.ex_before));
      if (ex != co.ex_before) G->Bad(me + " executor changed by " + op.kind + " to e" + std::to_string(ex));
    }
    if ((op.kind == "single" || op.kind == "multi") && on[0] == 'p') {
      // resumed in place by the completer of cell j: the coroutine continues where the producer is and adopts the executor stored
      // in that core (the library's rule for a plain co_await / Await; CurrentExecutor, Yield, AwaitSticky then use it)
      const int j = std::atoi(on.c_str() + 1);
      const char ck = G->sc->cells[static_cast<std::size_t>(j)].kind;
      const int want = (ck == 'o' || ck == 'O') ? 2 : 0;
      if (ex != want && (ex == co.ex_before || want != 0))
        G->Bad(me + " after co_await #" + std::to_string(k) + " (" + op.kind + ", resumed by " + on + ") the coroutine's executor is e" +
               std::to_string(ex) + " instead of the awaited core's e" + std::to_string(want));
    }
    if ((op.kind == "single" || op.kind == "multi") && on[0] == 'p' && ex != co.ex_before && ex != 0 &&
        std::string("oO").find(G->sc->cells[static_cast<std::size_t>(std::atoi(on.c_str() + 1))].kind) == std::string::npos) {
      G->Bad(me + " after co_await #" + std::to_string(k) + " (" + op.kind + ", resumed by " + on + ") the coroutine's executor is e" + std::to_string(ex) +
             ": neither its own (e" + std::to_string(co.ex_before) + ") nor the awaited core's (inline)");
    }
    auto emit = [&](const std::string& got) {
      if (op.kind == "current") {
        vx::Ev("current " + std::to_string(k) + " e" + std::to_string(ex));
      } else {
        vx::Ev("resume " + std::to_string(k) + " on=" + on + " got=" + got + " done=" + (done ? "1" : "0") + " ex=" + std::to_string(ex));
      }
    };
    (void)suspended;
    using Rt = decltype(inner.await_resume());
    if constexpr (std::is_void_v<Rt>) {
      emit("-");
      inner.await_resume();
    } else if constexpr (std::is_same_v<std::remove_cv_t<std::remove_reference_t<Rt>>, int> ||
                         std::is_same_v<std::remove_cv_t<std::remove_reference_t<Rt>>, Cnt>) {
      using Vt = std::remove_cv_t<std::remove_reference_t<Rt>>;
      if (!done) {
        // await_resume would read a Result that was never constructed (undefined behaviour): report, do not execute
        emit("unset");
        return Vt{-1};
      }
      const std::string want = G->sc->cells[op.cells[0]].res;
      try {
        Vt v = inner.await_resume();
        std::string got = "val:" + std::to_string(AsInt(v));
        if (got != want) G->Bad(me + " co_await #" + std::to_string(k) + " returned " + got + " instead of " + want);
        emit(got);
        return v;
      } catch (yaclib::ResultError<yaclib::StopError>&) {
        if (want != "err") G->Bad(me + " co_await #" + std::to_string(k) + " threw StopError instead of " + want);
        emit("err");
        throw;
      } catch (...) {
        if (want != "exc") G->Bad(me + " co_await #" + std::to_string(k) + " rethrew an exception instead of " + want);
        emit("exc");
        throw;
      }
    } else {
      emit("-");
      return inner.await_resume();
    }
  }
};

template <typename F>
auto MakeW(int cid, int k, F&& f) {
  return W<decltype(f())>{cid, k, std::forward<F>(f)};
}

// ---- the coroutine under test: an interpreter over the scenario's program --------------------------------------------
void Enter(int cid) {
  auto& co = G->co[cid];
  co.resumer = vx::gCtx->Cur();
  vx::gCtx->NameSelf(Cn(cid));
}

void Leave(int cid) {
  G->co[cid].left_body = true;
  vx::Ev("ret " + Cn(cid));
  vx::gCtx->NameSelf(G->co[cid].resumer);
}

#define AW(...) co_await MakeW(cid, k, [&] { return __VA_ARGS__; })

template <typename R>
R Body(FrameGuard fg, int cid) {
  Enter(cid);
  auto* self = co_await SelfAwaiter{};
  G->co[cid].core = self;
  G->job2cid[static_cast<yaclib::Job*>(self)] = cid;
  const CoroSpec& cs = G->sc->coros[cid];
  std::vector<Local> locals;
  locals.reserve(static_cast<std::size_t>(cs.locals));
  for (int i = 0; i < cs.locals; ++i) locals.emplace_back(cid);
  auto E = [&](int e) -> yaclib::IExecutor& { return ExecRef(e); };
  auto isS = [&](int j) { return std::string("sSO").find(G->sc->cells[static_cast<std::size_t>(j)].kind) != std::string::npos; };
  try {
    for (int k = 0; k < static_cast<int>(cs.ops.size()); ++k) {
      const OpSpec& op = cs.ops[static_cast<std::size_t>(k)];
      auto& F = G->fut;
      auto& S = G->sf;
      const int a = op.cells.size() > 0 ? op.cells[0] : -1;
      const int b = op.cells.size() > 1 ? op.cells[1] : -1;
      const int c = op.cells.size() > 2 ? op.cells[2] : -1;
      const std::size_t n = op.cells.size();
      try {
        if (op.kind == "single" && op.get) {
          if (isS(a)) {
            (void)AW(yaclib::operator co_await(S[a]));
          } else {
            (void)AW(yaclib::operator co_await(std::move(F[a])));
          }
        } else if (op.kind == "single") {
          if (isS(a)) AW(yaclib::Await(S[a]));
          else AW(yaclib::Await(F[a]));
        } else if (op.kind == "sticky") {
          if (isS(a)) AW(yaclib::AwaitSticky(S[a]));
          else AW(yaclib::AwaitSticky(F[a]));
        } else if (op.kind == "on") {
          if (isS(a)) AW(yaclib::AwaitOn(E(op.e), S[a]));
          else AW(yaclib::AwaitOn(E(op.e), F[a]));
        } else if (op.kind == "task") {
          if (op.get) {
            (void)AW(yaclib::operator co_await(std::move(G->task[a])));
          } else {
            AW(yaclib::Await(G->task[a]));
            // the Task completed and is still valid: destroying it must just release it (no write to its word, the Result
            // destroyed exactly once: D13, /repo 2690a63)
            const std::size_t before = vx::gCtx->trace.size();
            if (!(G->task[a].Valid() && G->task[a].Ready())) G->Bad(Cn(cid) + " after Await(task) the Task is not valid and ready");
            G->task[a] = yaclib::Task<Cnt>{};
            for (std::size_t i = before; i < vx::gCtx->trace.size(); ++i) {
              const std::string& l = vx::gCtx->trace[i];
              if (l.find(" A w" + std::to_string(a) + " ") != std::string::npos && l.find(" load ") == std::string::npos)
                G->Bad(Cn(cid) + " ~Task of a completed Task wrote its state word: " + l);
            }
            vx::Ev("tdtor " + std::to_string(a));
          }
        } else if (op.kind == "resched") {
          if (op.e >= 0) AW(yaclib::On(E(op.e)));
          else if (op.kyield) AW(yaclib::kYield);
          else (void)AW(yaclib::Yield());
        } else if (op.kind == "current") {
          (void)AW(yaclib::CurrentExecutor());
        } else if (op.kind == "multi" || op.kind == "msticky" || op.kind == "mon") {
          // static forms: (u,u) (u,s) (s,s) (u,u,u) (s,s,s); dynamic forms: all unique or all shared, any count
          const int fam = op.kind == "multi" ? 0 : op.kind == "msticky" ? 1 : 2;
          if (op.dyn && !isS(a)) {
            std::vector<yaclib::Future<int>> tmp;
            for (int j : op.cells) tmp.push_back(std::move(F[j]));
            if (fam == 0) AW(yaclib::Await(tmp.begin(), n));
            else if (fam == 1) AW(yaclib::AwaitSticky(tmp.begin(), n));
            else AW(yaclib::AwaitOn(E(op.e), tmp.begin(), n));
            for (std::size_t i = 0; i < n; ++i) F[op.cells[i]] = std::move(tmp[i]);
          } else if (op.dyn) {
            std::vector<yaclib::SharedFuture<int>> tmp;
            for (int j : op.cells) tmp.push_back(S[j]);
            if (fam == 0) AW(yaclib::Await(tmp.begin(), n));
            else if (fam == 1) AW(yaclib::AwaitSticky(tmp.begin(), n));
            else AW(yaclib::AwaitOn(E(op.e), tmp.begin(), n));
          } else if (n == 2 && !isS(a) && !isS(b)) {
            if (fam == 0) AW(yaclib::Await(F[a], F[b]));
            else if (fam == 1) AW(yaclib::AwaitSticky(F[a], F[b]));
            else AW(yaclib::AwaitOn(E(op.e), F[a], F[b]));
          } else if (n == 2 && !isS(a) && isS(b)) {
            if (fam == 0) AW(yaclib::Await(F[a], S[b]));
            else if (fam == 1) AW(yaclib::AwaitSticky(F[a], S[b]));
            else AW(yaclib::AwaitOn(E(op.e), F[a], S[b]));
          } else if (n == 2 && isS(a) && !isS(b)) {
            if (fam == 0) AW(yaclib::Await(S[a], F[b]));
            else if (fam == 1) AW(yaclib::AwaitSticky(S[a], F[b]));
            else AW(yaclib::AwaitOn(E(op.e), S[a], F[b]));
          } else if (n == 2) {
            if (fam == 0) AW(yaclib::Await(S[a], S[b]));
            else if (fam == 1) AW(yaclib::AwaitSticky(S[a], S[b]));
            else AW(yaclib::AwaitOn(E(op.e), S[a], S[b]));
          } else if (n == 3 && !isS(a) && !isS(b) && !isS(c)) {
            if (fam == 0) AW(yaclib::Await(F[a], F[b], F[c]));
            else if (fam == 1) AW(yaclib::AwaitSticky(F[a], F[b], F[c]));
            else AW(yaclib::AwaitOn(E(op.e), F[a], F[b], F[c]));
          } else if (n == 3 && isS(a) && isS(b) && isS(c)) {
            if (fam == 0) AW(yaclib::Await(S[a], S[b], S[c]));
            else if (fam == 1) AW(yaclib::AwaitSticky(S[a], S[b], S[c]));
            else AW(yaclib::AwaitOn(E(op.e), S[a], S[b], S[c]));
          } else {
            G->Bad("harness: unsupported static multi form");
          }
        }
      } catch (...) {
        if (!cs.catches) throw;
      }
      // Await(fs...) leaves the futures valid and ready (checked on what is still owned here)
      if (!op.get && op.kind != "task") {
        for (int j : op.cells) {
          if (!Fulfilled(j)) continue;  // resumed early (reported by the resume monitor)
          bool ok = isS(j) ? (S[j].Valid() && S[j].Ready() && Show(S[j].Touch()) == G->sc->cells[j].res)
                           : (F[j].Valid() && F[j].Ready() && Show(*std::as_const(F[j]).Get()) == G->sc->cells[j].res);
          if (!ok) G->Bad(Cn(cid) + " after co_await #" + std::to_string(k) + " the future of cell " + std::to_string(j) + " is not valid/ready with its value");
        }
      }
    }
  } catch (...) {
    Leave(cid);
    throw;
  }
  Leave(cid);
  if (cs.ret == "throws") throw std::runtime_error{"body"};
  co_return std::atoi(cs.ret.c_str() + 4);
}

// ---- producers that are coroutines -----------------------------------------------------------------------------------------
int ValOf(const std::string& res) { return std::atoi(res.c_str() + 4); }

yaclib::Future<int> ProdU(int j, yaclib::Future<> gate) {
  co_await yaclib::Await(gate);
  const std::string& res = G->sc->cells[static_cast<std::size_t>(j)].res;
  if (res == "exc") throw std::runtime_error{"prod"};
  if (res == "err") co_return yaclib::StopTag{};
  co_return ValOf(res);
}

yaclib::SharedFuture<int> ProdS(int j, yaclib::Future<> gate) {
  co_await yaclib::Await(gate);
  const std::string& res = G->sc->cells[static_cast<std::size_t>(j)].res;
  if (res == "exc") throw std::runtime_error{"prod"};
  if (res == "err") co_return yaclib::StopTag{};
  co_return ValOf(res);
}

yaclib::Task<Cnt> ProdT(int j, bool move) {
  const std::string pn = "p" + std::to_string(j);
  vx::gCtx->NameSelf(pn);
  if (move) {
    co_await yaclib::On(*G->execs[0]);
    vx::gCtx->NameSelf(pn);
  }
  const std::string& res = G->sc->cells[static_cast<std::size_t>(j)].res;
  if (res == "exc") throw std::runtime_error{"prod"};
  if (res == "err") co_return yaclib::StopTag{};
  co_return Cnt{ValOf(res)};
}

// Tasks headed by a Run core (Schedule): the function runs on a worker of executor 1 and names the fiber after the cell
yaclib::Task<Cnt> ProdK(int j, bool then) {
  auto f = [j] {
    vx::gCtx->NameSelf("p" + std::to_string(j));
    const std::string& res = G->sc->cells[static_cast<std::size_t>(j)].res;
    if (res == "exc") throw std::runtime_error{"prod"};
    return Cnt{ValOf(res)};
  };
  if (then) return yaclib::Schedule(*G->execs[0], f).ThenInline([](Cnt&& c) { return std::move(c); });
  return yaclib::Schedule(*G->execs[0], f);
}

void Fulfil(int j) {
  const CellSpec& cs = G->sc->cells[static_cast<std::size_t>(j)];
  const std::size_t J = static_cast<std::size_t>(j);
  if (cs.kind == 'u' || cs.kind == 'o') {
    if (cs.res == "err") std::move(G->prom[J]).Set(yaclib::StopTag{});
    else if (cs.res == "exc") std::move(G->prom[J]).Set(std::make_exception_ptr(std::runtime_error{"x"}));
    else std::move(G->prom[J]).Set(ValOf(cs.res));
  } else if (cs.kind == 's' || cs.kind == 'O') {
    if (cs.res == "err") std::move(G->sprom[J]).Set(yaclib::StopTag{});
    else if (cs.res == "exc") std::move(G->sprom[J]).Set(std::make_exception_ptr(std::runtime_error{"x"}));
    else std::move(G->sprom[J]).Set(ValOf(cs.res));
  } else if (cs.kind == 'U' || cs.kind == 'S') {
    std::move(G->gate[J]).Set();
  }
}

void RunScenario(const Scenario& sc) {
  quarantine::active = false;
  if (quarantine::list == nullptr) quarantine::list = new std::vector<void*>();
  quarantine::Flush();
  if (!gLastDone) (void)gEnvOwner.release();  // a deadlocked execution: its fibers still reference the old state
  gEnvOwner = std::make_unique<Env>();
  gLastDone = false;
  Env& env = *gEnvOwner;
  G = &env;
  env.sc = &sc;
  quarantine::active = true;
  Cnt::ctors = Cnt::dtors = 0;
  auto& ctx = *vx::gCtx;
  ctx.NameValWord(0, "empty");
  ctx.NameValWord(~0ULL, "result");
  const std::size_t nc = sc.cells.size();
  env.fut.resize(nc);
  env.sf.resize(nc);
  env.task.resize(nc);
  env.prom.resize(nc);
  env.sprom.resize(nc);
  env.gate.resize(nc);
  env.core.resize(nc);
  env.co.resize(sc.coros.size());
  for (std::size_t k = 0; k < sc.execs.size(); ++k) {
    env.execs.push_back(std::make_unique<Exec>());
    env.execs.back()->id = static_cast<int>(k) + 1;
    env.execs.back()->mode = sc.execs[k];
  }
  for (std::size_t j = 0; j < nc; ++j) {
    const CellSpec& cs = sc.cells[j];
    if (cs.kind == 'u') {
      auto [f, p] = yaclib::MakeContract<int>();
      env.fut[j] = std::move(f);
      env.prom[j] = std::move(p);
      env.core[j] = env.fut[j].GetCore().Get();
    } else if (cs.kind == 's') {
      auto [f, p] = yaclib::MakeSharedContract<int>();
      env.sf[j] = std::move(f);
      env.sprom[j] = std::move(p);
      env.core[j] = env.sf[j].GetCore().Get();
    } else if (cs.kind == 'o') {
      auto [f, p] = yaclib::MakeContractOn<int>(ExecRef(2));
      env.fut[j] = std::move(f).On(nullptr);
      env.prom[j] = std::move(p);
      env.core[j] = env.fut[j].GetCore().Get();
    } else if (cs.kind == 'O') {
      // yaclib::MakeSharedContractOn<int>(e) cannot be instantiated (it returns SharedContract = pair<SharedFuture, …> but builds a
      // SharedFutureOn): the executor is stored in the core by hand
      auto [f, p] = yaclib::MakeSharedContract<int>();
      env.sf[j] = std::move(f);
      env.sprom[j] = std::move(p);
      env.core[j] = env.sf[j].GetCore().Get();
      env.core[j]->_executor = &ExecRef(2);
    } else if (cs.kind == 'U') {
      auto [g, gp] = yaclib::MakeContract<>();
      env.gate[j] = std::move(gp);
      env.fut[j] = ProdU(static_cast<int>(j), std::move(g));
      env.core[j] = env.fut[j].GetCore().Get();
    } else if (cs.kind == 'S') {
      auto [g, gp] = yaclib::MakeContract<>();
      env.gate[j] = std::move(gp);
      env.sf[j] = ProdS(static_cast<int>(j), std::move(g));
      env.core[j] = env.sf[j].GetCore().Get();
    } else {
      env.task[j] = (cs.kind == 'k' || cs.kind == 'K') ? ProdK(static_cast<int>(j), cs.kind == 'K')
                                                       : ProdT(static_cast<int>(j), cs.kind == 'T');
      env.core[j] = env.task[j].GetCore().Get();
    }
    ctx.NameObj(&Peek::Word(*env.core[j]), "w" + std::to_string(j));
    if (cs.sub) env.sf[j].SubscribeInline([](const yaclib::Result<int>&) {});
  }
  for (std::size_t j = 0; j < nc; ++j) {
    if (sc.cells[j].when == "pre") {
      ctx.NameSelf("p" + std::to_string(j));
      Fulfil(static_cast<int>(j));
      ctx.NameSelf("r");
    }
  }
  std::deque<vx::Thread> threads;
  for (std::size_t i = 0; i < sc.coros.size(); ++i) {
    threads.emplace_back(Cn(static_cast<int>(i)), [i, &sc] {
      const int cid = static_cast<int>(i);
      auto sink = [cid](const std::string& r) {
        auto& co = G->co[static_cast<std::size_t>(cid)];
        ++co.results;
        co.result = r;
        if (!co.left_body && !co.dropped && co.reached > 0) {
          // a Result although the body was not left: the coroutine was dropped by an executor the harness cannot instrument
          // (the library's stopped inline executor: Submit = Drop in place)
          auto& op = G->sc->coros[static_cast<std::size_t>(cid)].ops[static_cast<std::size_t>(co.reached - 1)];
          co.dropped = true;
          vx::Ev("submit " + Cn(cid) + " e" + std::to_string(op.e >= 0 ? op.e : co.ex_before));
          vx::Ev("drop " + Cn(cid));
        }
        vx::Ev("result " + Cn(cid) + " " + r);
      };
      const std::string& type = sc.coros[i].type;
      if (type == "future") {
        auto f = Body<yaclib::Future<int>>(FrameGuard{cid}, cid);
        std::move(f).DetachInline([sink](yaclib::Result<int>&& r) { sink(Show(r)); });
      } else if (type == "task") {
        auto t = Body<yaclib::Task<int>>(FrameGuard{cid}, cid);
        auto f = std::move(t).ToFuture();
        std::move(f).DetachInline([sink](yaclib::Result<int>&& r) { sink(Show(r)); });
      } else {
        auto s = Body<yaclib::SharedFuture<int>>(FrameGuard{cid}, cid);
        s.SubscribeInline([sink](const yaclib::Result<int>& r) { sink(Show(r)); });
      }
    });
  }
  for (std::size_t j = 0; j < nc; ++j) {
    if (sc.cells[j].when == "fib" && std::string("tTkK").find(sc.cells[j].kind) == std::string::npos) {
      threads.emplace_back("p" + std::to_string(j), [j] { Fulfil(static_cast<int>(j)); });
    }
  }
  for (auto& t : threads) t.join();
  for (bool any = true; any;) {
    any = false;
    for (auto& e : env.execs) any = e->JoinSome() || any;
  }
  // release what the harness still owns (futures that were only Await()ed, shared copies, unstarted tasks)
  env.fut.clear();
  env.sf.clear();
  env.task.clear();
  env.prom.clear();
  env.sprom.clear();
  if (Cnt::ctors != Cnt::dtors)
    env.Bad("Task results: " + std::to_string(Cnt::ctors) + " constructed, " + std::to_string(Cnt::dtors) + " destroyed");
  quarantine::active = false;
  gLastDone = true;
}

std::string Monitor(const Scenario& sc, bool done) {
  if (G == nullptr) return "";
  Env& env = *G;
  if (!env.violation.empty()) return env.violation;
  if (!done) return "";
  for (std::size_t i = 0; i < sc.coros.size(); ++i) {
    auto& cs = sc.coros[i];
    auto& co = env.co[i];
    const std::string me = Cn(static_cast<int>(i));
    // which co_awaits must have resumed: all that were started, unless the coroutine was dropped inside the last started one
    for (int k = 0; k < co.reached; ++k) {
      int n = co.resumes.count(k) ? co.resumes[k] : 0;
      bool last = k + 1 == co.reached;
      if (n > 1) return me + " resumed " + std::to_string(n) + " times from co_await #" + std::to_string(k);
      if (n == 0 && !(last && co.dropped)) return me + " never resumed from co_await #" + std::to_string(k);
      if (n == 1 && last && co.dropped) return me + " resumed from co_await #" + std::to_string(k) + " although it was dropped";
    }
    if (co.results != 1) return me + " published its result " + std::to_string(co.results) + " times";
    if (co.ldtors != cs.locals) return me + ": " + std::to_string(co.ldtors) + " local destructors for " + std::to_string(cs.locals) + " locals";
    if (co.fdtors != 1) return me + ": frame destroyed " + std::to_string(co.fdtors) + " times";
    if (co.dropped) {
      if (co.result != "err") return me + " was dropped by a stopped executor but its result is " + co.result;
    }
  }
  return "";
}

// expected result of a coroutine that was not dropped: computed from the trace (which awaited failures escaped)
std::string MonitorResult(const Scenario& sc) {
  Env& env = *G;
  for (std::size_t i = 0; i < sc.coros.size(); ++i) {
    auto& cs = sc.coros[i];
    auto& co = env.co[i];
    if (co.dropped || co.results != 1) continue;
    bool escaped = false;
    const std::string me = Cn(static_cast<int>(i));
    for (auto& l : vx::gCtx->trace) {
      if (l.rfind(me + " E resume ", 0) == 0 && !cs.catches &&
          (l.find(" got=err ") != std::string::npos || l.find(" got=exc ") != std::string::npos))
        escaped = true;
    }
    std::string want = escaped || cs.ret == "throws" ? "exc" : cs.ret;
    if (co.result != want) return me + " result is " + co.result + " instead of " + want;
    if (!escaped && co.reached != static_cast<int>(cs.ops.size())) return me + " finished after " + std::to_string(co.reached) + " co_awaits";
  }
  return "";
}

// ---- scenarios ---------------------------------------------------------------------------------------------------------------
OpSpec Op(const std::string& kind, std::vector<int> cells, int e = -1, bool get = false, bool dyn = false, bool ky = false) {
  OpSpec o;
  o.kind = kind;
  o.cells = std::move(cells);
  o.e = e;
  o.get = get;
  o.dyn = dyn;
  o.kyield = ky;
  return o;
}

CoroSpec Co(std::vector<OpSpec> ops, const std::string& type = "future", const std::string& ret = "val:7", bool catches = false,
            int locals = 1) {
  CoroSpec c;
  c.ops = std::move(ops);
  c.type = type;
  c.ret = ret;
  c.catches = catches;
  c.locals = locals;
  return c;
}

CellSpec Cell(char kind, const std::string& res = "val:1", const std::string& when = "fib", bool sub = false) {
  return CellSpec{kind, res, when, sub};
}

std::vector<Scenario> AllScenarios(bool thorough) {
  std::vector<Scenario> out;
  auto add = [&](std::vector<CellSpec> cells, std::vector<std::string> execs, std::vector<CoroSpec> coros) {
    out.push_back(Scenario{std::move(cells), std::move(execs), std::move(coros)});
  };
  // -- single awaits of a unique future: suspension races with fulfilment; every outcome; every return type
  for (const char* res : {"val:1", "err", "exc"}) {
    for (bool get : {true, false}) {
      add({Cell('u', res)}, {}, {Co({Op("single", {0}, -1, get)})});
    }
    add({Cell('u', res)}, {}, {Co({Op("single", {0}, -1, true)}, "future", "val:7", true, 2)});
    add({Cell('u', res, "pre")}, {}, {Co({Op("single", {0}, -1, true)})});
  }
  add({Cell('u')}, {}, {Co({Op("single", {0}, -1, true)}, "task")});
  add({Cell('u')}, {}, {Co({Op("single", {0}, -1, true)}, "shared")});
  add({Cell('u')}, {}, {Co({Op("single", {0}, -1, false)}, "future", "throws")});
  add({Cell('u', "err")}, {}, {Co({Op("single", {0}, -1, true)}, "task", "val:7", false, 2)});
  add({Cell('u', "exc")}, {}, {Co({Op("single", {0}, -1, true)}, "shared", "val:7", true, 0)});
  // -- futures produced by coroutines
  add({Cell('U', "val:3")}, {}, {Co({Op("single", {0}, -1, true)})});
  add({Cell('U', "err")}, {}, {Co({Op("single", {0}, -1, true)})});
  add({Cell('S', "val:4")}, {}, {Co({Op("single", {0}, -1, true)})});
  add({Cell('S', "exc")}, {}, {Co({Op("single", {0}, -1, false)})});
  // -- a SharedFuture with a single awaiter
  for (const char* res : {"val:2", "err"}) {
    add({Cell('s', res)}, {}, {Co({Op("single", {0}, -1, true)})});
    add({Cell('s', res)}, {}, {Co({Op("single", {0}, -1, false)})});
    add({Cell('s', res, "pre")}, {}, {Co({Op("single", {0}, -1, true)})});
  }
  // -- a SharedFuture with another observer (a subscriber, or a second coroutine): since /repo c9c07bc (D3) the second awaiter
  //    suspends; before, await_ready = !Empty() made it continue before the fulfilment
  add({Cell('s', "val:2", "fib", true)}, {}, {Co({Op("single", {0}, -1, false)})});
  add({Cell('s', "val:2", "fib", true)}, {}, {Co({Op("single", {0}, -1, true)})});
  add({Cell('s', "val:2", "fib", true)}, {"run"}, {Co({Op("resched", {}, 1), Op("sticky", {0})})});
  add({Cell('s', "val:2")}, {}, {Co({Op("single", {0}, -1, false)}), Co({Op("single", {0}, -1, false)})});
  add({Cell('s', "val:2")}, {}, {Co({Op("single", {0}, -1, true)}), Co({Op("single", {0}, -1, true)})});
  // -- several awaiters that do not use Empty(): AwaitOn / multi forms on one SharedFuture, each resumed once
  add({Cell('s', "val:2")}, {"run"}, {Co({Op("on", {0}, 1)}), Co({Op("on", {0}, 1)})});
  add({Cell('s', "val:2", "fib", true), Cell('u', "val:1", "pre")}, {}, {Co({Op("multi", {0, 1})})});
  // -- AwaitSticky / AwaitOn of one object, executor running or stopped
  for (const char* mode : {"run", "stop1"}) {
    add({Cell('u')}, {mode}, {Co({Op("resched", {}, 1), Op("sticky", {0})}, "future", "val:7", false, 2)});
    add({Cell('s')}, {mode}, {Co({Op("resched", {}, 1), Op("sticky", {0})})});
  }
  for (const char* mode : {"run", "stop"}) {
    add({Cell('u')}, {mode}, {Co({Op("on", {0}, 1)}, "future", "val:7", false, 2)});
    add({Cell('s', "err")}, {mode}, {Co({Op("on", {0}, 1)})});
    add({Cell('u', "val:1", "pre")}, {mode}, {Co({Op("on", {0}, 1)})});
  }
  add({Cell('u')}, {"stop"}, {Co({Op("on", {0}, 1)}, "task", "val:7", false, 2)});
  add({Cell('u')}, {"stop"}, {Co({Op("on", {0}, 1)}, "shared", "val:7", false, 1)});
  // -- On / Yield / kYield / CurrentExecutor
  add({}, {"run"}, {Co({Op("resched", {}, 1), Op("current", {}), Op("resched", {}, -1), Op("current", {}), Op("resched", {}, -1, false, false, true)})});
  add({}, {"run", "run"}, {Co({Op("resched", {}, 1), Op("resched", {}, 2), Op("current", {}), Op("resched", {}, -1)})});
  add({}, {"stop"}, {Co({Op("resched", {}, 1)}, "future", "val:7", false, 2)});
  add({}, {"stop1"}, {Co({Op("resched", {}, 1), Op("resched", {}, -1), Op("current", {})}, "future", "val:7", false, 3)});
  add({}, {"run", "stop"}, {Co({Op("resched", {}, 1), Op("resched", {}, 2)}, "task")});
  // -- the library's stopped inline executor MakeInline(StopTag{}) (it reports Type::Inline like the alive one): On / AwaitOn of
  //    one, a pack, a range; unique and shared; everything complete / something pending
  add({}, {"istop"}, {Co({Op("resched", {}, 1)}, "future", "val:7", false, 2)});
  add({Cell('u', "val:1", "pre")}, {"istop"}, {Co({Op("on", {0}, 1)}, "future", "val:7", false, 2)});
  add({Cell('u')}, {"istop"}, {Co({Op("on", {0}, 1)}, "task", "val:7", false, 2)});
  add({Cell('s', "val:1", "pre")}, {"istop"}, {Co({Op("on", {0}, 1)}, "shared", "val:7", false, 1)});
  add({Cell('u', "val:1", "pre"), Cell('u', "val:5", "pre")}, {"istop"}, {Co({Op("mon", {0, 1}, 1)}, "future", "val:7", false, 2)});
  add({Cell('u', "val:1", "pre"), Cell('u', "val:5")}, {"istop"}, {Co({Op("mon", {0, 1}, 1)}, "future", "val:7", false, 2)});
  add({Cell('s', "val:1", "pre"), Cell('u', "val:5", "pre")}, {"istop"}, {Co({Op("mon", {0, 1}, 1)})});
  add({Cell('s', "val:1", "pre"), Cell('s', "val:5", "pre")}, {"istop"}, {Co({Op("mon", {0, 1}, 1, false, true)}, "task", "val:7", false, 2)});
  add({Cell('u', "val:1", "pre"), Cell('u', "val:5", "pre"), Cell('u', "val:6", "pre")}, {"istop"},
      {Co({Op("mon", {0, 1, 2}, 1, false, true)}, "future", "val:7", false, 2)});
  add({Cell('u', "val:1", "pre"), Cell('u', "val:5"), Cell('u', "val:6", "pre")}, {"istop"}, {Co({Op("mon", {0, 1, 2}, 1)})});
  // -- the awaited core stores another executor (contract On(e2)): the coroutine resumed by the completer adopts e2
  add({Cell('o')}, {"run", "run"}, {Co({Op("resched", {}, 1), Op("single", {0}), Op("current", {}), Op("resched", {}, -1), Op("current", {})})});
  add({Cell('o', "val:3")}, {"run", "run"}, {Co({Op("resched", {}, 1), Op("single", {0}, -1, true), Op("current", {})}, "task")});
  add({Cell('O', "val:3"), Cell('u', "val:1", "pre")}, {"run", "run"},
      {Co({Op("resched", {}, 1), Op("multi", {0, 1}), Op("current", {}), Op("sticky", {1})}), Co({Op("single", {0}), Op("current", {})})});
  add({Cell('o'), Cell('u', "val:5")}, {"run", "run"}, {Co({Op("resched", {}, 1), Op("single", {0}), Op("sticky", {1}), Op("current", {})})});
  // -- plain await after On: the coroutine continues inline on the producer and takes the awaited core's executor
  add({Cell('u'), Cell('u', "val:5")}, {"run"}, {Co({Op("resched", {}, 1), Op("single", {0}), Op("current", {}), Op("sticky", {1}), Op("current", {})})});
  // -- multi forms
  add({Cell('u'), Cell('u', "val:5")}, {}, {Co({Op("multi", {0, 1})})});
  add({Cell('u'), Cell('u', "err", "pre")}, {}, {Co({Op("multi", {0, 1})})});
  add({Cell('u', "val:1", "pre"), Cell('u', "val:5", "pre")}, {}, {Co({Op("multi", {0, 1})})});
  add({Cell('u'), Cell('s', "val:5")}, {}, {Co({Op("multi", {0, 1})})});
  add({Cell('s'), Cell('s', "exc")}, {}, {Co({Op("multi", {0, 1})})});
  add({Cell('u'), Cell('u', "val:5")}, {}, {Co({Op("multi", {0, 1}, -1, false, true)})});
  add({Cell('s'), Cell('s', "val:5")}, {}, {Co({Op("multi", {0, 1}, -1, false, true)})});
  add({Cell('u'), Cell('u', "val:5", "pre"), Cell('u', "val:6")}, {}, {Co({Op("multi", {0, 1, 2})})});
  add({Cell('u'), Cell('u', "val:5")}, {"run"}, {Co({Op("resched", {}, 1), Op("msticky", {0, 1}), Op("current", {})})});
  add({Cell('u'), Cell('s', "val:5")}, {"stop1"}, {Co({Op("resched", {}, 1), Op("msticky", {0, 1})}, "future", "val:7", false, 2)});
  add({Cell('u'), Cell('u', "val:5")}, {"run"}, {Co({Op("mon", {0, 1}, 1), Op("current", {})})});
  add({Cell('u'), Cell('u', "val:5")}, {"stop"}, {Co({Op("mon", {0, 1}, 1)}, "future", "val:7", false, 2)});
  add({Cell('u', "val:1", "pre"), Cell('s', "val:5", "pre")}, {"run"}, {Co({Op("mon", {0, 1}, 1)})});
  add({Cell('s'), Cell('s', "val:5")}, {"run"}, {Co({Op("mon", {0, 1}, 1, false, true)})});
  add({Cell('u'), Cell('u', "val:5")}, {"run"}, {Co({Op("resched", {}, 1), Op("msticky", {0, 1}, -1, false, true)})});
  // -- Task
  add({Cell('t', "val:9")}, {}, {Co({Op("task", {0}, -1, true)})});
  add({Cell('t', "err")}, {}, {Co({Op("task", {0}, -1, true)})});
  add({Cell('t', "exc")}, {}, {Co({Op("task", {0}, -1, false)})});
  add({Cell('T', "val:9")}, {"run"}, {Co({Op("task", {0}, -1, true), Op("current", {})})});
  add({Cell('t', "val:9")}, {}, {Co({Op("task", {0}, -1, false)}, "task")});
  add({Cell('T', "val:9")}, {"run"}, {Co({Op("task", {0}, -1, false), Op("current", {})})});
  // -- Tasks headed by Schedule() (D10, /repo 4f7ebfc), awaited and — if only Await()ed — destroyed afterwards (D13)
  add({Cell('k', "val:9")}, {"run"}, {Co({Op("task", {0}, -1, true), Op("current", {})})});
  add({Cell('k', "val:9")}, {"run"}, {Co({Op("task", {0}, -1, false)})});
  add({Cell('K', "val:9")}, {"run"}, {Co({Op("task", {0}, -1, false), Op("current", {})})});
  add({Cell('K', "exc")}, {"run"}, {Co({Op("task", {0}, -1, true)}, "future", "val:7", true)});
  add({Cell('K', "val:9")}, {"run"}, {Co({Op("resched", {}, 1), Op("task", {0}, -1, false)}, "shared")});
  // -- D12: coroutines resumed by one SharedFuture exchange executors through the shared core
  add({Cell('s', "val:2")}, {"run", "run"},
      {Co({Op("resched", {}, 1), Op("single", {0}), Op("current", {})}), Co({Op("resched", {}, 2), Op("single", {0}), Op("current", {})})});
  add({Cell('s', "val:2"), Cell('u', "val:1", "pre"), Cell('u', "val:1", "pre")}, {"run", "run"},
      {Co({Op("resched", {}, 1), Op("multi", {0, 1}), Op("current", {})}), Co({Op("resched", {}, 2), Op("multi", {0, 2}), Op("current", {})})});
  // -- two coroutines, sequences
  add({Cell('u'), Cell('u', "val:5")}, {"run"},
      {Co({Op("single", {0}, -1, true), Op("on", {1}, 1)}), Co({Op("resched", {}, 1)})});
  if (thorough) {
    add({Cell('s', "val:2")}, {}, {Co({Op("single", {0})}), Co({Op("single", {0})}), Co({Op("single", {0})})});
    add({Cell('s', "val:2"), Cell('s', "val:3")}, {"run"}, {Co({Op("multi", {0, 1})}), Co({Op("mon", {0, 1}, 1)}), Co({Op("on", {1}, 1)})});
    add({Cell('u'), Cell('u', "val:5"), Cell('u', "val:6")}, {}, {Co({Op("multi", {0, 1, 2}, -1, false, true)})});
    add({Cell('s'), Cell('s', "val:5"), Cell('s', "val:6")}, {"run"}, {Co({Op("mon", {0, 1, 2}, 1)})});
    add({Cell('s'), Cell('s', "val:5"), Cell('s', "val:6")}, {}, {Co({Op("multi", {0, 1, 2})})});
    add({Cell('u'), Cell('u', "val:5"), Cell('u', "val:6")}, {"run"}, {Co({Op("resched", {}, 1), Op("msticky", {0, 1, 2})})});
  }
  return out;
}

}  // namespace

int main(int argc, char** argv) {
  auto opt = vx::ParseOptions(argc, argv);
  bool thorough = false;
  for (int i = 1; i < argc; ++i)
    if (std::string(argv[i]) == "--thorough") thorough = true;
  vx::Explorer ex(opt);
  for (auto& sc : AllScenarios(thorough)) {
    ex.Run(
      sc.Header(), [&] { RunScenario(sc); },
      [&](bool done) {
        std::string bad = Monitor(sc, done);
        if (bad.empty() && done) bad = MonitorResult(sc);
        return bad;
      });
  }
  ex.Report();
  return ex.stats.violations == 0 ? 0 : 1;
}
