// C02 — the Result algebra (include/yaclib/util/result.hpp): operation sequences over four Result<V, E> objects.
//
// Line protocol (stdin -> one output line per input line; `end` resets):
//   ty v | ty u                 the program uses Result<PV, PE> (payload-carrying value) / Result<void, PE> (Unit)
//   new <i> empty | val <k> | inplace <k> | unit | err <k> | stop | exc <k>      (re)construct slot i
//   copyc <i> <j> | movec <i> <j>     slot i is (re)constructed from slot j by the copy / move constructor      (i != j)
//   copya <i> <j> | movea <i> <j>     *ri = *rj / *ri = std::move(*rj)        — copy / move ASSIGNMENT                (i != j)
//   setv <i> <k> | setu <i> | sete <i> <k> | setx <i> <k> | sets <i>     *ri = PV{k} / Unit{} / PE{k} / exception_ptr / StopTag{}
//   del <i>                     destroy slot i
//   ok <i>                      std::as_const(*ri).Ok()
//   okm <i>                     std::move(*ri).Ok()         (moves the value / error / exception_ptr out)
//   takev <i> | takee <i> | takex <i>     std::move(*ri).Value() / .Error() / .Exception() moved into a temporary
// Output: `ok` for ty, `bad` for a line that violates a precondition (slot missing, i == j, wrong state for take*, Ok() on a
// null exception_ptr), else
//   r0=<s> r1=<s> r2=<s> r3=<s> obs=<o> lv=<live PV objects> le=<live PE objects>
//   <s> ::= - | empty | val:<k>|val:dead|val:unit | err:<k>|err:dead | exc:<k>|exc:null
//   <o> ::= - | val:<…> | throw:exc:<k> | throw:err:<k|dead> | throw:empty
// A moved-from PV / PE shows `dead`, a moved-from exception_ptr is null: what an operation leaves behind is visible.
#include <yaclib/util/result.hpp>

#include <cstdio>
#include <exception>
#include <iostream>
#include <optional>
#include <sstream>
#include <string>
#include <utility>
#include <vector>

static constexpr int kDead = -777777;

struct PV {
  static inline long live = 0;
  int v;
  PV(int x) noexcept : v{x} {  // NOLINT
    ++live;
  }
  PV(const PV& o) noexcept : v{o.v} {
    ++live;
  }
  PV(PV&& o) noexcept : v{o.v} {
    o.v = kDead;
    ++live;
  }
  PV& operator=(const PV& o) noexcept {
    v = o.v;
    return *this;
  }
  PV& operator=(PV&& o) noexcept {
    if (this != &o) {
      v = o.v;
      o.v = kDead;
    }
    return *this;
  }
  ~PV() {
    --live;
  }
};

struct PE {
  static inline long live = 0;
  int code;
  PE(yaclib::StopTag) noexcept : code{0} {  // NOLINT
    ++live;
  }
  explicit PE(int c) noexcept : code{c} {
    ++live;
  }
  PE(const PE& o) noexcept : code{o.code} {
    ++live;
  }
  PE(PE&& o) noexcept : code{o.code} {
    o.code = kDead;
    ++live;
  }
  PE& operator=(const PE& o) noexcept {
    code = o.code;
    return *this;
  }
  PE& operator=(PE&& o) noexcept {
    if (this != &o) {
      code = o.code;
      o.code = kDead;
    }
    return *this;
  }
  ~PE() {
    --live;
  }
  static const char* What() noexcept {
    return "PE";
  }
};

struct TagExc {
  int tag;
};

static std::string Num(int k) {
  return k == kDead ? std::string{"dead"} : std::to_string(k);
}
static std::string ShowV(const PV& v) {
  return "val:" + Num(v.v);
}
static std::string ShowV(const yaclib::Unit&) {
  return "val:unit";
}
static std::string ShowX(const std::exception_ptr& p) {
  if (!p) {
    return "exc:null";
  }
  try {
    std::rethrow_exception(p);
  } catch (const TagExc& e) {
    return "exc:" + std::to_string(e.tag);
  } catch (...) {
    return "exc:?";
  }
}

template <typename ValueT>
struct Machine {
  using R = yaclib::Result<ValueT, PE>;
  static constexpr bool kUnit = std::is_void_v<ValueT>;
  std::optional<R> r[4];

  std::string Show(const std::optional<R>& o) {
    if (!o) {
      return "-";
    }
    const R& x = *o;
    if (static_cast<bool>(x) != (x.State() == yaclib::ResultState::Value)) {
      return "BOOLMISMATCH";
    }
    switch (x.State()) {
      case yaclib::ResultState::Value:
        return ShowV(x.Value());
      case yaclib::ResultState::Exception:
        return ShowX(x.Exception());
      case yaclib::ResultState::Error:
        return "err:" + Num(x.Error().code);
      default:
        return "empty";
    }
  }

  std::string Dump(const std::string& obs) {
    std::string s;
    for (int i = 0; i != 4; ++i) {
      s += "r" + std::to_string(i) + "=" + Show(r[i]) + " ";
    }
    return s + "obs=" + obs + " lv=" + std::to_string(PV::live) + " le=" + std::to_string(PE::live);
  }

  static bool Slot(const std::string& t, int& i) {
    if (t.size() != 1 || t[0] < '0' || t[0] > '3') {
      return false;
    }
    i = t[0] - '0';
    return true;
  }
  static bool Int(const std::string& t, int& k) {
    try {
      size_t pos = 0;
      k = std::stoi(t, &pos);
      return pos == t.size();
    } catch (...) {
      return false;
    }
  }

  template <typename F>
  static std::string Observe(F&& f) {
    try {
      return ShowV(f());
    } catch (const TagExc& e) {
      return "throw:exc:" + std::to_string(e.tag);
    } catch (const yaclib::ResultError<PE>& e) {
      return "throw:err:" + Num(e.Get().code);
    } catch (const yaclib::ResultEmpty&) {
      return "throw:empty";
    } catch (...) {
      return "throw:?";
    }
  }

  std::string Line(const std::vector<std::string>& t) {
    int i = 0, j = 0, k = 0;
    const std::string& c = t[0];
    std::string obs = "-";
    if (c == "new" && t.size() >= 3 && Slot(t[1], i)) {
      const std::string& what = t[2];
      if (what == "empty" && t.size() == 3) {
        r[i].emplace();
      } else if (what == "stop" && t.size() == 3) {
        r[i].emplace(yaclib::StopTag{});
      } else if (what == "err" && t.size() == 4 && Int(t[3], k)) {
        r[i].emplace(PE{k});
      } else if (what == "exc" && t.size() == 4 && Int(t[3], k)) {
        r[i].emplace(std::make_exception_ptr(TagExc{k}));
      } else if constexpr (kUnit) {
        if (what == "unit" && t.size() == 3) {
          r[i].emplace(yaclib::Unit{});
        } else if (what == "inplace" && t.size() == 3) {
          r[i].emplace(std::in_place);
        } else {
          return "bad";
        }
      } else {
        if (what == "val" && t.size() == 4 && Int(t[3], k)) {
          r[i].emplace(PV{k});
        } else if (what == "inplace" && t.size() == 4 && Int(t[3], k)) {
          r[i].emplace(std::in_place, k);
        } else {
          return "bad";
        }
      }
    } else if ((c == "copyc" || c == "movec" || c == "copya" || c == "movea") && t.size() == 3 && Slot(t[1], i) && Slot(t[2], j)) {
      if (i == j || !r[j] || ((c == "copya" || c == "movea") && !r[i])) {
        return "bad";
      }
      if (c == "copyc") {
        r[i].emplace(std::as_const(*r[j]));
      } else if (c == "movec") {
        r[i].emplace(std::move(*r[j]));
      } else if (c == "copya") {
        *r[i] = std::as_const(*r[j]);
      } else {
        *r[i] = std::move(*r[j]);
      }
    } else if (c == "sete" && t.size() == 3 && Slot(t[1], i) && Int(t[2], k) && r[i]) {
      *r[i] = PE{k};
    } else if (c == "setx" && t.size() == 3 && Slot(t[1], i) && Int(t[2], k) && r[i]) {
      *r[i] = std::make_exception_ptr(TagExc{k});
    } else if (c == "sets" && t.size() == 2 && Slot(t[1], i) && r[i]) {
      *r[i] = yaclib::StopTag{};
    } else if (c == "setv" && !kUnit && t.size() == 3 && Slot(t[1], i) && Int(t[2], k) && r[i]) {
      if constexpr (!kUnit) {
        *r[i] = PV{k};
      }
    } else if (c == "setu" && kUnit && t.size() == 2 && Slot(t[1], i) && r[i]) {
      if constexpr (kUnit) {
        *r[i] = yaclib::Unit{};
      }
    } else if (c == "del" && t.size() == 2 && Slot(t[1], i) && r[i]) {
      r[i].reset();
    } else if ((c == "ok" || c == "okm") && t.size() == 2 && Slot(t[1], i) && r[i]) {
      if (r[i]->State() == yaclib::ResultState::Exception && !std::as_const(*r[i]).Exception()) {
        return "bad";  // std::rethrow_exception of a null pointer is undefined
      }
      if (c == "ok") {
        obs = Observe([&]() -> decltype(auto) {
          return std::as_const(*r[i]).Ok();
        });
      } else {
        obs = Observe([&] {
          auto x = std::move(*r[i]).Ok();  // the value is moved out into x
          return x;
        });
      }
    } else if (c == "takev" && t.size() == 2 && Slot(t[1], i) && r[i] && r[i]->State() == yaclib::ResultState::Value) {
      auto x = std::move(*r[i]).Value();
      obs = ShowV(x);
    } else if (c == "takee" && t.size() == 2 && Slot(t[1], i) && r[i] && r[i]->State() == yaclib::ResultState::Error) {
      PE x = std::move(*r[i]).Error();
      obs = "err:" + Num(x.code);
    } else if (c == "takex" && t.size() == 2 && Slot(t[1], i) && r[i] && r[i]->State() == yaclib::ResultState::Exception) {
      std::exception_ptr x = std::move(*r[i]).Exception();
      obs = ShowX(x);
    } else {
      return "bad";
    }
    return Dump(obs);
  }
};

int main() {
  std::optional<Machine<PV>> mv;
  std::optional<Machine<void>> mu;
  std::string line;
  while (std::getline(std::cin, line)) {
    std::istringstream is{line};
    std::vector<std::string> t;
    std::string w;
    while (is >> w) {
      t.push_back(w);
    }
    std::string out;
    if (t.empty()) {
      out = "bad";
    } else if (t[0] == "end") {
      mv.reset();
      mu.reset();
      out = "end";
    } else if (t[0] == "ty" && t.size() == 2 && !mv && !mu && (t[1] == "v" || t[1] == "u")) {
      if (t[1] == "v") {
        mv.emplace();
      } else {
        mu.emplace();
      }
      out = "ok";
    } else if (mv) {
      out = mv->Line(t);
    } else if (mu) {
      out = mu->Line(t);
    } else {
      out = "bad";
    }
    std::printf("%s\n", out.c_str());
  }
  return 0;
}
