// C07 correspondence harness: the real yaclib::MakeStrand over an instrumented underlying executor.
//   k submitter fibers x n jobs each, underlying executor = inline | pool with 1 / 2 workers | a fiber per activation |
//   another strand (tower), with a per-activation Call / Drop policy (stop after k, refuse once, ...).
// All schedules under a preemption bound and a spurious-weak-CAS bound (or random schedules).  Emits canonical traces for
// `ymdriver validate strand` and checks the property's monitors directly on the implementation.
#include <common/vx.hpp>

#include <yaclib/exe/executor.hpp>
#include <yaclib/exe/job.hpp>
#include <yaclib/exe/strand.hpp>

#include <algorithm>
#include <deque>
#include <memory>
#include <yaclib_std/atomic>

namespace {

// ---- address of the private Strand::_jobs: an explicit instantiation may name a private member
using JobsMember = yaclib_std::atomic<yaclib::detail::Node*> yaclib::Strand::*;
template <JobsMember M>
struct Rob {
  friend JobsMember GetJobs() { return M; }
};
JobsMember GetJobs();
template struct Rob<&yaclib::Strand::_jobs>;

yaclib_std::atomic<yaclib::detail::Node*>& JobsOf(yaclib::IExecutor& strand) {
  return static_cast<yaclib::Strand&>(strand).*GetJobs();
}

struct Observed {
  bool overlap = false;            // two job bodies at the same time
  int call_during_drop = 0;        // a job body entered while a Drop of another job is in progress (reported, not a violation)
  std::vector<std::string> order;  // bodies in execution order
};
Observed gObs;

struct TJob final : yaclib::Job {
  std::string name;
  int sub = 0, idx = 0;
  int calls = 0, drops = 0;
  yaclib_std::atomic<int>* in_call = nullptr;
  void Call() noexcept final {
    vx::Ev("call " + name);
    if (in_call->fetch_add(1, std::memory_order_relaxed) != 0) {  // an injection point inside the body
      gObs.overlap = true;
    }
    ++calls;
    gObs.order.push_back(name);
    if (in_call->fetch_sub(1, std::memory_order_relaxed) != 1) {
      gObs.overlap = true;
    }
    vx::Ev("ret " + name);
  }
  void Drop() noexcept final {
    vx::Ev("drop " + name);
    ++drops;
  }
};

// The underlying executor.  It honours the IExecutor contract (every submitted job is Called xor Dropped exactly once)
// and nothing more: `pol` decides per submission (last letter repeats): C = Call, D = Drop at once inside Submit (what a
// stopped executor does), d = Drop later on a worker.
struct Exec final : yaclib::IExecutor {
  std::string kind;  // inline | pool1 | pool2 | spawn
  std::string pol;
  bool emit = true;  // false when this executor is below another strand (tower): its submissions are not the traced strand's
  int submitted = 0, refused = 0;
  int live = 0;
  std::deque<std::pair<yaclib::Job*, char>> queue;
  std::deque<vx::Thread> workers;

  Type Tag() const noexcept final { return Type::Custom; }
  bool Alive() const noexcept final { return true; }

  int Cap() const { return kind == "pool1" ? 1 : kind == "pool2" ? 2 : 1 << 20; }

  void Run(yaclib::Job* job, char c) {
    if (c == 'C') {
      job->Call();
    } else {
      ++refused;
      job->Drop();
    }
  }

  void Submit(yaclib::Job& job) noexcept final {
    if (emit) vx::Ev("sub");
    char c = pol[std::min<std::size_t>(static_cast<std::size_t>(submitted), pol.size() - 1)];
    ++submitted;
    if (c == 'D' || kind == "inline") {
      Run(&job, c);
      return;
    }
    queue.emplace_back(&job, c);
    if (live < Cap()) {
      ++live;
      workers.emplace_back("w" + std::to_string(workers.size()), [this] {
        // no injection point between the emptiness check and the decrement: a worker never exits with work queued
        while (!queue.empty()) {
          auto [j, cc] = queue.front();
          queue.pop_front();
          Run(j, cc);
        }
        --live;
      });
    }
  }

  void JoinAll() {
    for (std::size_t k = 0; k < workers.size(); ++k) workers[k].join();
  }
};

// pass-through in front of a lower strand: only reports the submission of the traced strand's activation
struct Shim final : yaclib::IExecutor {
  yaclib::IExecutorPtr below;
  Type Tag() const noexcept final { return Type::Custom; }
  bool Alive() const noexcept final { return below->Alive(); }
  void Submit(yaclib::Job& job) noexcept final {
    vx::Ev("sub");
    below->Submit(job);
  }
};

struct Scenario {
  std::vector<int> jobs;  // per submitter
  std::string exec;       // inline | pool1 | pool2 | spawn
  std::string pol;
  bool tower = false;     // the traced strand runs on another strand which runs on `exec`
  std::string Header() const {
    std::string j;
    for (auto n : jobs) j += (j.empty() ? "" : ",") + std::to_string(n);
    return "strand subs=" + std::to_string(jobs.size()) + " jobs=" + j + " exec=" + exec + " pol=" + pol +
           " tower=" + (tower ? "1" : "0");
  }
};

struct RunState {
  std::vector<std::vector<std::unique_ptr<TJob>>> jobs;
  int refused = 0;
  bool idle_at_end = false;
};
RunState gRun;

void RunScenario(const Scenario& sc) {
  gObs = Observed{};
  gRun = RunState{};
  auto& ctx = *vx::gCtx;
  yaclib_std::atomic<int> in_call{0};
  Exec exec;
  exec.kind = sc.exec;
  exec.pol = sc.pol;
  exec.emit = !sc.tower;
  Shim shim;
  yaclib::IExecutorPtr lower;
  yaclib::IExecutorPtr strand;
  if (sc.tower) {
    lower = yaclib::MakeStrand(yaclib::IExecutorPtr{&exec});
    shim.below = lower;
    strand = yaclib::MakeStrand(yaclib::IExecutorPtr{&shim});
  } else {
    strand = yaclib::MakeStrand(yaclib::IExecutorPtr{&exec});
  }
  auto& word = JobsOf(*strand);
  auto* mark = word.load(std::memory_order_relaxed);  // not traced yet: the object has no name
  ctx.NameObj(&word, "jobs");
  ctx.NameVal(mark, "mark");
  ctx.NameValWord(0, "null");
  gRun.jobs.resize(sc.jobs.size());
  for (std::size_t i = 0; i < sc.jobs.size(); ++i) {
    for (int k = 0; k < sc.jobs[i]; ++k) {
      auto j = std::make_unique<TJob>();
      j->sub = static_cast<int>(i);
      j->idx = k;
      j->name = "j" + std::to_string(i) + "_" + std::to_string(k);
      j->in_call = &in_call;
      ctx.NameVal(static_cast<yaclib::detail::Node*>(j.get()), j->name);
      gRun.jobs[i].push_back(std::move(j));
    }
  }
  std::vector<vx::Thread> subs;
  for (std::size_t i = 0; i < sc.jobs.size(); ++i) {
    subs.emplace_back("s" + std::to_string(i), [&, i] {
      for (auto& j : gRun.jobs[i]) strand->Submit(*j);
    });
  }
  for (auto& t : subs) t.join();
  exec.JoinAll();
  ctx.ForgetObj(&word);
  gRun.idle_at_end = word.load(std::memory_order_relaxed) == mark;
  gRun.refused = exec.refused;
}

std::string Monitor(const Scenario& sc, bool done) {
  if (gObs.overlap) return "two jobs of the strand ran at the same time";
  // reconstruct the order of successful pushes and of executions from the trace
  std::vector<std::string> pushed, called;
  for (auto& l : vx::gCtx->trace) {
    auto p = l.find(" A jobs cas_weak ");
    if (p != std::string::npos && l.size() > 6 && l.compare(l.size() - 6, 6, " -> ok") == 0) {
      auto gt = l.find('>', p);
      auto sp = l.find(' ', gt);
      pushed.push_back(l.substr(gt + 1, sp - gt - 1));
    }
    p = l.find(" E call ");
    if (p != std::string::npos) called.push_back(l.substr(p + 8));
  }
  // execution order = order in which the submissions took effect (restricted to the jobs that ran)
  std::vector<std::string> expect;
  for (auto& n : pushed)
    if (std::find(called.begin(), called.end(), n) != called.end()) expect.push_back(n);
  if (expect != called) {
    std::string a, b;
    for (auto& n : called) a += n + " ";
    for (auto& n : pushed) b += n + " ";
    return "execution order [" + a + "] differs from the order of successful pushes [" + b + "]";
  }
  // program order per submitter
  for (std::size_t i = 0; i < sc.jobs.size(); ++i) {
    int last = -1;
    for (auto& n : called) {
      int s = 0, k = 0;
      std::sscanf(n.c_str(), "j%d_%d", &s, &k);
      if (s == static_cast<int>(i)) {
        if (k <= last) return "jobs of submitter " + std::to_string(i) + " ran out of program order";
        last = k;
      }
    }
  }
  int dropped = 0;
  for (auto& js : gRun.jobs)
    for (auto& j : js) {
      if (j->calls > 1) return j->name + " was Called " + std::to_string(j->calls) + " times";
      if (j->drops > 1) return j->name + " was Dropped " + std::to_string(j->drops) + " times";
      if (j->calls + j->drops > 1) return j->name + " was Called and Dropped";
      if (done && j->calls + j->drops == 0) return j->name + " was lost (neither Called nor Dropped)";
      dropped += j->drops;
    }
  if (!done) return "";
  if (dropped > 0 && gRun.refused == 0) return "a job was Dropped although the underlying executor refused nothing";
  if (!gRun.idle_at_end) return "the strand is not idle after everything finished";
  return "";
}

// size 0 (quick): two submitters with up to 2 jobs each x every executor kind x policy; a sample of larger shapes
// size 1 (thorough): all shapes below x every executor kind x policy
std::vector<Scenario> AllScenarios(int size) {
  std::vector<Scenario> out;
  const std::vector<std::vector<int>> full0 = {{1, 1}, {2, 1}, {2, 2}};
  const std::vector<std::vector<int>> full1 = {{1, 1}, {2, 1}, {2, 2}, {3, 1}, {1, 1, 1}, {2, 1, 1}};
  const std::vector<std::vector<int>> sample0 = {{3, 1}, {1, 1, 1}};
  const std::vector<std::vector<int>> sample1 = {{3, 2}, {2, 2, 1}, {1, 1, 1, 1}};
  auto& full = size == 0 ? full0 : full1;
  auto& sample = size == 0 ? sample0 : sample1;
  const char* execs[] = {"inline", "pool1", "pool2", "spawn"};
  // always Call | stopped from the start | stop after 1 / 2 | refuse only the first / second activation (inline and on a worker)
  const char* pols[] = {"C", "D", "CD", "CCD", "DC", "CDC", "d", "Cd", "dC"};
  for (auto& sh : full)
    for (auto* e : execs)
      for (auto* p : pols) {
        std::string ps = p;
        if (std::string(e) == "inline" && ps.find('d') != std::string::npos) continue;  // no worker to drop on
        out.push_back(Scenario{sh, e, ps, false});
      }
  for (auto& sh : sample) {
    if (sh.size() < 3 || size > 0) {  // three submitters on two workers need ~10^6 executions: thorough tier only
      out.push_back(Scenario{sh, "pool2", "C", false});
      out.push_back(Scenario{sh, "spawn", "dC", false});
    }
    out.push_back(Scenario{sh, "pool1", "CD", false});
    out.push_back(Scenario{sh, "inline", "DC", false});
  }
  // strands over strands
  for (auto& sh : full)
    for (auto* e : {"inline", "pool1", "pool2"})
      for (auto* p : {"C", "CD", "DC"}) out.push_back(Scenario{sh, e, p, true});
  return out;
}

// ---- the scenarios are independent: explore them in `--jobs N` forked shards and merge the reports
std::uint64_t Field(const std::string& json, const std::string& key) {
  auto p = json.find("\"" + key + "\": ");
  return p == std::string::npos ? 0 : std::strtoull(json.c_str() + p + key.size() + 4, nullptr, 10);
}

int RunShard(const vx::Options& opt, int size, int shard, int shards) {
  vx::Explorer ex(opt);
  auto all = AllScenarios(size);
  if (!opt.only.empty()) {  // replay: the scenario may come from either tier
    all = AllScenarios(0);
    for (auto& sc : AllScenarios(1))
      if (std::none_of(all.begin(), all.end(), [&](const Scenario& x) { return x.Header() == sc.Header(); })) all.push_back(sc);
  }
  for (std::size_t i = 0; i < all.size(); ++i) {
    if (static_cast<int>(i % static_cast<std::size_t>(shards)) != shard) continue;
    auto& sc = all[i];
    ex.Run(sc.Header(), [&] { RunScenario(sc); }, [&](bool done) { return Monitor(sc, done); });
  }
  ex.Report();
  return ex.stats.violations == 0 ? 0 : 1;
}

}  // namespace

#include <sys/wait.h>
#include <unistd.h>

#include <fstream>
#include <thread>

int main(int argc, char** argv) {
  auto opt = vx::ParseOptions(argc, argv);
  int size = 0;
  int jobs = static_cast<int>(std::min(16u, std::max(1u, std::thread::hardware_concurrency())));
  for (int i = 1; i + 1 < argc; ++i) {
    if (std::string(argv[i]) == "--size") size = std::atoi(argv[i + 1]);
    if (std::string(argv[i]) == "--jobs") jobs = std::max(1, std::atoi(argv[i + 1]));
  }
  if (jobs == 1 || opt.has_replay || !opt.only.empty()) return RunShard(opt, size, 0, 1);
  const std::string base = opt.out.empty() ? std::string(argv[0]) + ".shard" + std::to_string(getpid()) : opt.out;
  std::vector<pid_t> pids;
  for (int k = 0; k < jobs; ++k) {
    std::fflush(stdout);
    pid_t pid = fork();
    if (pid == 0) {
      vx::Options o = opt;
      if (!opt.out.empty()) o.out = base + ".t" + std::to_string(k);
      o.seed = opt.seed * 1000 + static_cast<std::uint64_t>(k);
      if (std::freopen((base + ".r" + std::to_string(k)).c_str(), "w", stdout) == nullptr) _exit(3);
      int rc = RunShard(o, size, k, jobs);
      std::fflush(stdout);
      _exit(rc);
    }
    pids.push_back(pid);
  }
  bool crashed = false;
  for (auto pid : pids) {
    int st = 0;
    waitpid(pid, &st, 0);
    if (!WIFEXITED(st) || WEXITSTATUS(st) > 1) crashed = true;
  }
  const char* sums[] = {"executions", "distinct_traces", "violations", "deadlocks", "scenarios", "exhausted_scenarios",
                        "truncated_scenarios", "trace_lines", "nondeterministic", "sum_preempts", "sum_weak_failures",
                        "injection_points"};
  std::vector<std::uint64_t> total(std::size(sums), 0);
  std::uint64_t max_choices = 0;
  std::vector<std::string> samples, rest;
  std::FILE* out = opt.out.empty() ? nullptr : std::fopen(opt.out.c_str(), "w");
  for (int k = 0; k < jobs; ++k) {
    std::ifstream rep(base + ".r" + std::to_string(k));
    std::string line;
    bool first = true, in_violation = false;
    while (std::getline(rep, line)) {
      if (first && !line.empty() && line[0] == '{') {
        for (std::size_t f = 0; f < std::size(sums); ++f) total[f] += Field(line, sums[f]);
        max_choices = std::max(max_choices, Field(line, "max_choices"));
        first = false;
      } else if (line.rfind("SAMPLE ", 0) == 0) {
        if (samples.size() < 3) samples.push_back(line);
      } else {
        if (line == "=====") in_violation = true;
        if (in_violation && rest.size() < 2000) rest.push_back(line);
      }
    }
    if (first) crashed = true;  // the shard died before reporting
    rep.close();
    std::remove((base + ".r" + std::to_string(k)).c_str());
    if (out != nullptr) {
      std::ifstream tr(base + ".t" + std::to_string(k));
      while (std::getline(tr, line)) std::fprintf(out, "%s\n", line.c_str());
      tr.close();
      std::remove((base + ".t" + std::to_string(k)).c_str());
    }
  }
  if (out != nullptr) std::fclose(out);
  if (crashed) {
    std::printf("a shard of the explorer crashed (the library under test faulted)\n");
    return 3;  // no report line: the check treats this as a failed run
  }
  std::printf("{");
  for (std::size_t f = 0; f < std::size(sums); ++f) std::printf("\"%s\": %llu, ", sums[f], (unsigned long long)total[f]);
  std::printf("\"max_choices\": %llu, \"mode\": \"%s\", \"preempt_bound\": %d, \"weak_bound\": %d, \"shards\": %d}\n",
              (unsigned long long)max_choices, opt.mode.c_str(), opt.preempt_bound, opt.weak_bound, jobs);
  for (auto& l : samples) std::printf("%s\n", l.c_str());
  for (auto& l : rest) std::printf("%s\n", l.c_str());
  return total[2] == 0 ? 0 : 1;
}
