// C03, ordered teardown of a STEP (Core::Done: release the caller, destroy the functor, THEN publish) on the real library,
// under the ownership monitor of common/own.hpp.  The functor of a step lives inside the step's core; once the result is
// published a consumer may take it and release the core, so the functor (with its captures) has to be gone by then.
// The functors here capture an instance-counted PROBE with a magic word: its destructor checks that it runs exactly once
// per armed instance, on intact storage (magic) that the monitor has not seen freed (own::InReleasedBlock), and every
// observer of a result (subscriber of a shared state, continuation, a consumer whose Ready() returned true) records how
// many captures of the finished step are still alive — must be none.
//
// Scenarios (2–3 fibers, all schedules under the preemption bound):
//   runshared  RunShared(e, f) — a producing step on a SHARED state (SetResultImpl<Shared> runs the subscribers and drops
//              the promise references itself) — with / without a subscriber, the SharedFuture dropped before the job runs,
//              while it runs (own fiber) or afterwards
//   then       src.ThenInline(f) / src.Then(e, f) behind a unique or a shared contract; the consumer of the step's future
//              polls Ready() once and, if true, takes the result and drops the future — while the producer may still be
//              inside Set() / Done()
//   subscribe  shared contract + SubscribeInline(f) / unique contract + DetachInline(f): a step nobody holds (Detach core)
// No Lean model behind it (the rule is the theorem `functor_destroyed_before_publish` of Props/C03.lean, tied to the source
// by Extracted/DoneOrder.lean); run by vlib/owncheck.py with --own.
#include <common/vx.hpp>

#include <yaclib/async/contract.hpp>
#include <yaclib/async/future.hpp>
#include <yaclib/async/promise.hpp>
#include <yaclib/async/run.hpp>
#include <yaclib/async/shared_contract.hpp>
#include <yaclib/async/shared_future.hpp>
#include <yaclib/exe/executor.hpp>
#include <yaclib/exe/job.hpp>

#include <cstdint>
#include <string>
#include <vector>

namespace {

struct Counters {
  int created = 0;         // armed instances (constructed or copied from an armed one)
  int destroyed = 0;       // armed instances destroyed
  int in_released = 0;     // a destructor ran inside a block the monitor had seen freed / on overwritten storage
  int twice = 0;           // a destructor ran on an instance that was destroyed already
  int alive_seen = 0;      // max number of armed instances alive when somebody observed the step's result
  int observations = 0;
  int Alive() const { return created - destroyed; }
};
Counters gC;

struct Probe {
  static constexpr std::uint64_t kLive = 0xC0FFEE0000C0FFEEULL, kMoved = 0x0DD0DD0DD0DD0DD0ULL, kDead = 0xDEADDEADDEADDEADULL;
  volatile std::uint64_t magic;
  Probe() noexcept : magic{kLive} { ++gC.created; }
  Probe(const Probe& o) noexcept : magic{o.magic} {
    if (magic == kLive) ++gC.created;
  }
  Probe(Probe&& o) noexcept : magic{o.magic} { o.magic = kMoved; }
  Probe& operator=(const Probe&) = delete;
  Probe& operator=(Probe&&) = delete;
  ~Probe() {
    bool released = false;
#ifdef VX_OWN
    released = vx::own::g.enabled && vx::own::InReleasedBlock(this);
#endif
    std::uint64_t m = magic;  // under ASan a freed block faults right here
    if (vx::gCtx != nullptr) vx::Ev(released ? "capture destroyed IN RELEASED STORAGE" : m == kLive ? "capture destroyed" : m == kMoved ? "moved-from capture destroyed" : "capture destroyed: BAD MAGIC");
    if (released) {
      ++gC.in_released;
      return;  // do not write into the freed block: the finding is this one, not a `write after free` on top
    }
    if (m == kLive) ++gC.destroyed;
    else if (m == kDead) ++gC.twice;
    else if (m != kMoved) ++gC.in_released;  // 0xDD…: poisoned storage
    magic = kDead;
  }
};

void Observe() {
  vx::Ev("result observed, captures alive: " + std::to_string(gC.Alive()));
  ++gC.observations;
  if (gC.Alive() > gC.alive_seen) gC.alive_seen = gC.Alive();
}

// executor whose jobs are run by a fiber of the scenario
struct QueueExec final : yaclib::IExecutor {
  std::vector<yaclib::Job*> jobs;
  Type Tag() const noexcept final { return Type::Custom; }
  bool Alive() const noexcept final { return true; }
  void Submit(yaclib::Job& job) noexcept final { jobs.push_back(&job); }
  void IncRef() noexcept final {}
  void DecRef() noexcept final {}
  std::size_t GetRef() noexcept final { return 1; }
  void RunAll() {
    while (!jobs.empty()) {
      auto* j = jobs.front();
      jobs.erase(jobs.begin());
      j->Call();
    }
  }
};
// executor that runs the job at once (a continuation behind Then(e, f) runs on the producer's fiber)
struct NowExec final : yaclib::IExecutor {
  Type Tag() const noexcept final { return Type::Custom; }
  bool Alive() const noexcept final { return true; }
  void Submit(yaclib::Job& job) noexcept final { job.Call(); }
  void IncRef() noexcept final {}
  void DecRef() noexcept final {}
  std::size_t GetRef() noexcept final { return 1; }
};

struct Scenario {
  std::string kind;  // runshared | then | subscribe
  std::string src;   // runshared: - ; then/subscribe: unique | shared
  std::string how;   // runshared: sub0 | sub1 ; then: inline | exec ; subscribe: inline
  std::string drop;  // runshared: before | race | after ; then: poll | hold ; subscribe: -
  std::string Header() const { return "steps kind=" + kind + " src=" + src + " how=" + how + " drop=" + drop; }
};

// the consumer of a step's future: one look at Ready(); if the result is visible take it and release the state
template <typename F>
void PollOnce(F& f2) {
  if (f2.Ready()) {
    Observe();
    auto r = std::move(f2).Get();
    (void)r;
  }
}

void RunScenario(const Scenario& sc) {
  gC = Counters{};
  if (sc.kind == "runshared") {
    QueueExec exec;
    auto make = [&] {
      return yaclib::RunShared(exec, [p = Probe{}] {
        (void)p;
        return 42;
      });
    };
    if (sc.drop == "before") {
      {
        auto sf = make();
        if (sc.how == "sub1") sf.SubscribeInline([](const yaclib::Result<int>&) { Observe(); });
      }
      vx::Thread te("e", [&] { exec.RunAll(); });
      te.join();
    } else {
      auto sf = make();
      if (sc.how == "sub1") sf.SubscribeInline([](const yaclib::Result<int>&) { Observe(); });
      if (sc.drop == "race") {
        vx::Thread te("e", [&] { exec.RunAll(); });
        vx::Thread tc("c", [sf = std::move(sf)]() mutable {
          if (sf.Ready()) Observe();
          auto dropped = std::move(sf);
        });
        te.join();
        tc.join();
      } else {
        vx::Thread te("e", [&] { exec.RunAll(); });
        te.join();
        if (sf.Ready()) Observe();
      }
    }
    return;
  }
  NowExec now;
  auto step = [] {  // a fresh functor per use: the only armed instance ends up inside the step's core
    return [p = Probe{}](int x) {
      (void)p;
      return x + 1;
    };
  };
  if (sc.kind == "then") {
    if (sc.src == "unique") {
      auto [f, p] = yaclib::MakeContract<int>();
      auto consume = [&](auto f2) {
        vx::Thread tp("p", [p = std::move(p)]() mutable { std::move(p).Set(1); });
        vx::Thread tc("c", [&sc, f2 = std::move(f2)]() mutable {
          if (sc.drop == "poll") PollOnce(f2);
        });
        tp.join();
        tc.join();
      };
      if (sc.how == "inline") consume(std::move(f).ThenInline(step()));
      else consume(std::move(f).Then(now, step()));
    } else {
      auto [sf, sp] = yaclib::MakeSharedContract<int>();
      auto consume = [&](auto f2) {
        auto dropped = std::move(sf);
        vx::Thread tp("p", [sp = std::move(sp)]() mutable { std::move(sp).Set(1); });
        vx::Thread tc("c", [&sc, f2 = std::move(f2)]() mutable {
          if (sc.drop == "poll") PollOnce(f2);
        });
        tp.join();
        tc.join();
      };
      if (sc.how == "inline") consume(sf.ThenInline(step()));
      else consume(sf.Then(now, step()));
    }
    return;
  }
  // subscribe: a step with no future (Detach core: released by its Drop callback when published)
  if (sc.src == "unique") {
    auto [f, p] = yaclib::MakeContract<int>();
    std::move(f).DetachInline([p = Probe{}](int) { (void)p; });
    vx::Thread tp("p", [p = std::move(p)]() mutable { std::move(p).Set(1); });
    tp.join();
  } else {
    auto [sf, sp] = yaclib::MakeSharedContract<int>();
    sf.SubscribeInline([p = Probe{}](int) { (void)p; });
    vx::Thread tc("c", [sf = std::move(sf)]() mutable { auto dropped = std::move(sf); });
    vx::Thread tp("p", [sp = std::move(sp)]() mutable { std::move(sp).Set(1); });
    tp.join();
    tc.join();
  }
}

std::string Monitor(const Scenario&, bool done) {
  if (!done) return "";
  if (gC.in_released != 0)
    return "a functor capture was destroyed after its state had been released (use after release): " +
           std::to_string(gC.in_released) + " instance(s)";
  if (gC.twice != 0) return "a functor capture was destroyed twice";
  if (gC.created != gC.destroyed)
    return "functor captures: " + std::to_string(gC.created) + " armed instance(s) created, " + std::to_string(gC.destroyed) +
           " destroyed (each must be destroyed exactly once)";
  if (gC.alive_seen != 0)
    return "the result of a step was observed (subscriber ran / Ready() returned true) while " + std::to_string(gC.alive_seen) +
           " capture(s) of its functor were still alive: the functor was not destroyed before the result was published";
  return "";
}

std::vector<Scenario> AllScenarios() {
  std::vector<Scenario> out;
  for (auto* how : {"sub0", "sub1"})
    for (auto* drop : {"before", "race", "after"}) out.push_back({"runshared", "-", how, drop});
  for (auto* src : {"unique", "shared"})
    for (auto* how : {"inline", "exec"})
      for (auto* drop : {"poll", "hold"}) out.push_back({"then", src, how, drop});
  for (auto* src : {"unique", "shared"}) out.push_back({"subscribe", src, "inline", "-"});
  return out;
}

}  // namespace

int main(int argc, char** argv) {
  auto opt = vx::ParseOptions(argc, argv);
  vx::Explorer ex(opt);
  for (auto& sc : AllScenarios()) {
    ex.Run(sc.Header(), [&] { RunScenario(sc); }, [&](bool done) { return Monitor(sc, done); });
  }
  ex.Report();
  return ex.stats.violations == 0 ? 0 : 1;
}
