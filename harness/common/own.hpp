// vx::own — OPTIONAL ownership monitor of the schedule explorer (property C03, concurrent part).
//
// Compiled only with -DVX_OWN (checks/C03.py builds separate `*_own` binaries); switched on at run time by `--own`.
// Without -DVX_OWN this header defines nothing but empty macros, so every other check is unaffected.
//
// What it does.  The binary interposes the C allocator (`malloc/free/calloc/realloc/memalign/aligned_alloc/
// posix_memalign/valloc/pvalloc`, forwarding to glibc's `__libc_*`), so EVERY form of `operator new/delete` (plain, array,
// sized, aligned, nothrow — libstdc++'s and the replacements some harnesses carry themselves) and the C++ runtime's own
// allocations (exception objects held by `std::exception_ptr`) go through it.  Under AddressSanitizer the allocator
// belongs to ASan: there the monitor only listens through `__sanitizer_install_malloc_and_free_hooks`, and double free /
// use after free are ASan's own reports (run with ASAN_OPTIONS=abort_on_error=1 so that vx's crash handler prints the
// schedule).
//
//  * counted blocks: blocks allocated while an execution's scenario body runs (`OpenWindow` … `CloseWindow`, set by
//    vx::RunOnce around `scenario()`, on whatever fiber) and vx itself is not on the stack (`Pause` guards in every vx
//    entry point: hooks, trace recording, naming, choice stack).  They are kept in a registry (no allocation of its own:
//    nodes come from mmap'ed pools) with size, execution number and allocation index (i-th counted allocation of the
//    execution: deterministic, so `--own-bt <i>` prints the stack of exactly that allocation on a replay).
//  * free of a counted block: unlinked, filled with 0xDD and kept in QUARANTINE until the end of the execution (not
//    returned to the allocator, so the address is not reused and a stale access reads garbage deterministically);
//    a second free of a quarantined block is `double free`; at the end of the execution the fill is verified:
//    a changed byte is `write after free`.
//  * leaks: a block counted in execution k that is live at its quiescent end is only a SUSPECT (harness-side observers,
//    caches of the fiber scheduler, lazily initialised singletons also allocate inside the window).  Suspects that are
//    still live after the NEXT execution finished (harness observers are reset at the start of every execution) are
//    CONFIRMED by repetition: the explorer re-runs execution k's choice sequence twice (R1, R2); every one-time effect
//    (cache warm-up, static initialisation, capacity growth) has happened in k already, so a block allocated in R1 that is
//    still live after R2 is a block that every repetition of this schedule leaves behind: reported as
//    `leak: N block(s) allocated during the scenario are still live at quiescence (sizes …, allocation index …)`.
//    No whitelist of sizes or sites.  Executions that deadlock are exempt (their fibers are abandoned on purpose).
#pragma once

#ifndef VX_OWN

#  define VX_OWN_PAUSE() ((void)0)

#else

#  include <cstddef>
#  include <cstdint>
#  include <cstdio>
#  include <cstdlib>
#  include <cstring>

#  include <errno.h>
#  include <execinfo.h>
#  include <pthread.h>
#  include <sys/mman.h>
#  include <unistd.h>

#  if defined(__SANITIZE_ADDRESS__)
#    define VX_OWN_ASAN 1
extern "C" int __sanitizer_install_malloc_and_free_hooks(void (*malloc_hook)(const volatile void*, std::size_t),
                                                         void (*free_hook)(const volatile void*));
#  else
#    define VX_OWN_ASAN 0
extern "C" {
void* __libc_malloc(std::size_t);
void __libc_free(void*);
void* __libc_calloc(std::size_t, std::size_t);
void* __libc_realloc(void*, std::size_t);
void* __libc_memalign(std::size_t, std::size_t);
}
#  endif

namespace vx::own {

enum : std::uint8_t { kLive = 1, kQuarantined = 2 };

struct Node {
  const void* p;
  std::size_t size;
  std::uint64_t exec;
  std::uint32_t idx;
  std::uint8_t state;
  Node* hnext;   // hash chain
  Node* lprev;   // live list / quarantine list
  Node* lnext;
};

constexpr std::size_t kBuckets = 1u << 16;
constexpr unsigned char kFill = 0xDD;

struct Counters {
  std::uint64_t allocs = 0, frees = 0, bytes = 0, max_live = 0, max_quarantined = 0, violations = 0, suspects = 0,
                candidates = 0, confirm_runs = 0, confirmed = 0, unconfirmed = 0, exempt_deadlock = 0, executions = 0;
};

struct State {
  bool enabled = false;
  bool poison = true;
  bool in_exec = false;      // between BeginExecution and EndExecution
  bool in_scenario = false;  // the scenario body is running (on some fiber)
  bool busy = false;         // inside the monitor itself
  int paused = 0;            // vx code on the stack
  pthread_t owner{};
  std::uint64_t exec = 0;
  std::uint32_t next_idx = 0;
  long bt_index = -1;
  // registry
  Node* buckets[kBuckets] = {};
  Node* free_nodes = nullptr;
  Node live{};        // sentinel of the list of live counted blocks
  Node quarantine{};  // sentinel of the list of quarantined blocks
  // statistics
  Counters c;
  std::uint64_t live_now = 0, quarantined_now = 0;
  // first error of the current execution (fixed buffer: no allocation)
  char error[512] = {};
};

inline State g;

struct Pause {
  Pause() noexcept { ++g.paused; }
  ~Pause() { --g.paused; }
  Pause(const Pause&) = delete;
  Pause& operator=(const Pause&) = delete;
};
#  define VX_OWN_PAUSE() ::vx::own::Pause vx_own_pause_guard_

inline bool Counting() noexcept {
  return g.enabled && g.in_scenario && g.paused == 0 && !g.busy && pthread_equal(pthread_self(), g.owner);
}

inline std::size_t Hash(const void* p) noexcept {
  auto x = reinterpret_cast<std::uintptr_t>(p) >> 4;
  x ^= x >> 17;
  x *= 0x9e3779b97f4a7c15ULL;
  return static_cast<std::size_t>(x >> 40) & (kBuckets - 1);
}

inline Node* NewNode() noexcept {
  if (g.free_nodes == nullptr) {
    constexpr std::size_t kChunk = 4096;
    void* m = mmap(nullptr, kChunk * sizeof(Node), PROT_READ | PROT_WRITE, MAP_PRIVATE | MAP_ANONYMOUS, -1, 0);
    if (m == MAP_FAILED) return nullptr;
    auto* nodes = static_cast<Node*>(m);
    for (std::size_t i = 0; i < kChunk; ++i) {
      nodes[i].hnext = g.free_nodes;
      g.free_nodes = &nodes[i];
    }
  }
  Node* n = g.free_nodes;
  g.free_nodes = n->hnext;
  return n;
}

inline void ListPush(Node& head, Node* n) noexcept {
  n->lprev = head.lprev;
  n->lnext = &head;
  head.lprev->lnext = n;
  head.lprev = n;
}
inline void ListRemove(Node* n) noexcept {
  n->lprev->lnext = n->lnext;
  n->lnext->lprev = n->lprev;
  n->lprev = n->lnext = nullptr;
}

inline Node* Find(const void* p) noexcept {
  for (Node* n = g.buckets[Hash(p)]; n != nullptr; n = n->hnext)
    if (n->p == p) return n;
  return nullptr;
}

inline void Erase(Node* n) noexcept {
  Node** pp = &g.buckets[Hash(n->p)];
  while (*pp != n) pp = &(*pp)->hnext;
  *pp = n->hnext;
  n->hnext = g.free_nodes;
  g.free_nodes = n;
}

inline void SetError(const char* fmt, std::size_t size, unsigned long idx, unsigned long off = 0) noexcept {
  ++g.c.violations;
  if (g.error[0] != '\0') return;
  std::snprintf(g.error, sizeof g.error, fmt, size, idx, off);
}

inline void OnAlloc(void* p, std::size_t size) noexcept {
  g.busy = true;
  Node* stale = Find(p);  // cannot be live; a quarantined one cannot come back from the allocator either
  if (stale != nullptr) {
    if (stale->state == kLive) {
      ListRemove(stale);
      --g.live_now;
    } else {
      ListRemove(stale);
      --g.quarantined_now;
    }
    Erase(stale);
  }
  Node* n = NewNode();
  if (n != nullptr) {
    n->p = p;
    n->size = size;
    n->exec = g.exec;
    n->idx = g.next_idx++;
    n->state = kLive;
    n->hnext = g.buckets[Hash(p)];
    g.buckets[Hash(p)] = n;
    ListPush(g.live, n);
    ++g.c.allocs;
    g.c.bytes += size;
    if (++g.live_now > g.c.max_live) g.c.max_live = g.live_now;
    if (g.bt_index >= 0 && static_cast<long>(n->idx) == g.bt_index) {
      void* frames[48];
      int k = backtrace(frames, 48);
      std::fprintf(stderr, "---- vx::own: counted allocation #%ld of execution %llu: %zu bytes at %p\n", g.bt_index,
                   static_cast<unsigned long long>(g.exec), size, p);
      backtrace_symbols_fd(frames, k, 2);
    }
  }
  g.busy = false;
}

// returns true if the block must NOT be handed back to the allocator now (quarantined, or a double free)
inline bool OnFree(void* p) noexcept {
  if (g.busy || !pthread_equal(pthread_self(), g.owner)) return false;
  Node* n = Find(p);
  if (n == nullptr) return false;
  if (n->state == kQuarantined) {
    SetError("double free: a block of %zu bytes (counted allocation #%lu of its execution) is freed a second time", n->size, n->idx);
    return true;
  }
  g.busy = true;
  ListRemove(n);
  --g.live_now;
  ++g.c.frees;
  bool keep = false;
#  if !VX_OWN_ASAN
  if (g.in_exec) {
    if (g.poison) std::memset(p, kFill, n->size);
    n->state = kQuarantined;
    ListPush(g.quarantine, n);
    if (++g.quarantined_now > g.c.max_quarantined) g.c.max_quarantined = g.quarantined_now;
    keep = true;
  }
#  endif
  if (!keep) Erase(n);
  g.busy = false;
  return keep;
}

inline void FlushQuarantine(bool verify) noexcept {
#  if !VX_OWN_ASAN
  g.busy = true;
  while (g.quarantine.lnext != &g.quarantine) {
    Node* n = g.quarantine.lnext;
    if (verify && g.poison) {
      auto* b = static_cast<const unsigned char*>(n->p);
      for (std::size_t i = 0; i < n->size; ++i) {
        if (b[i] != kFill) {
          SetError("write after free: a block of %zu bytes (counted allocation #%lu of its execution) was modified at offset %lu "
                   "after it had been freed",
                   n->size, n->idx, i);
          break;
        }
      }
    }
    ListRemove(n);
    --g.quarantined_now;
    void* p = const_cast<void*>(n->p);
    Erase(n);
    __libc_free(p);
  }
  g.busy = false;
#  else
  (void)verify;
#  endif
}

inline void BeginExecution() noexcept {
  if (!g.enabled) return;
  ++g.exec;
  ++g.c.executions;
  g.next_idx = 0;
  g.error[0] = '\0';
  g.in_exec = true;
}
inline void OpenWindow() noexcept {
  if (g.enabled) g.in_scenario = true;
}
inline void CloseWindow() noexcept { g.in_scenario = false; }

inline void EndExecution(bool done) noexcept {
  if (!g.enabled) return;
  g.in_scenario = false;
  g.in_exec = false;
  if (!done) {
    // abandoned fibers keep their blocks for ever: not this monitor's business
    g.busy = true;
    for (Node* n = g.live.lnext; n != &g.live;) {
      Node* next = n->lnext;
      if (n->exec == g.exec) {
        ListRemove(n);
        --g.live_now;
        Erase(n);
        ++g.c.exempt_deadlock;
      }
      n = next;
    }
    g.busy = false;
  }
  FlushQuarantine(done);
}

inline std::size_t CountLiveOf(std::uint64_t exec) noexcept {
  std::size_t k = 0;
  for (Node* n = g.live.lnext; n != &g.live; n = n->lnext) k += n->exec == exec;
  return k;
}

// "size#index, size#index, …" of the live blocks counted in `exec` (at most `max` of them); fixed buffer
inline void DescribeLiveOf(std::uint64_t exec, char* out, std::size_t cap, int max = 12) noexcept {
  std::size_t pos = 0;
  int k = 0;
  out[0] = '\0';
  for (Node* n = g.live.lnext; n != &g.live && pos + 48 < cap; n = n->lnext) {
    if (n->exec != exec) continue;
    if (k++ == max) {
      pos += static_cast<std::size_t>(std::snprintf(out + pos, cap - pos, ", …"));
      break;
    }
    pos += static_cast<std::size_t>(std::snprintf(out + pos, cap - pos, "%s%zu bytes #%u", k > 1 ? ", " : "", n->size, n->idx));
  }
}

// does `addr` lie inside a counted block that has been freed in this execution (and sits poisoned in the quarantine)?
// For probe objects of the harnesses: a destructor that runs on such an address is a use after release.
inline bool InReleasedBlock(const void* addr) noexcept {
  auto a = reinterpret_cast<std::uintptr_t>(addr);
  for (Node* n = g.quarantine.lnext; n != nullptr && n != &g.quarantine; n = n->lnext) {
    auto b = reinterpret_cast<std::uintptr_t>(n->p);
    if (a >= b && a < b + n->size) return true;
  }
  return false;
}

inline bool TakeError(char* out, std::size_t cap) noexcept {
  if (g.error[0] == '\0') return false;
  std::snprintf(out, cap, "%s", g.error);
  g.error[0] = '\0';
  return true;
}

#  if VX_OWN_ASAN
inline void AsanMallocHook(const volatile void* p, std::size_t n) {
  if (p != nullptr && Counting()) OnAlloc(const_cast<void*>(p), n);
}
inline void AsanFreeHook(const volatile void* p) {
  if (p != nullptr && g.enabled) OnFree(const_cast<void*>(p));
}
#  endif

inline void Enable(bool poison, long bt_index) noexcept {
  g.live.lprev = g.live.lnext = &g.live;
  g.quarantine.lprev = g.quarantine.lnext = &g.quarantine;
  g.owner = pthread_self();
  g.poison = poison;
  g.bt_index = bt_index;
#  if VX_OWN_ASAN
  __sanitizer_install_malloc_and_free_hooks(&AsanMallocHook, &AsanFreeHook);
#  endif
  g.enabled = true;
}

}  // namespace vx::own

// ---- the interposed allocator (not under ASan: there the hooks above listen instead) -------------------------------
#  if !VX_OWN_ASAN
extern "C" {

void* malloc(std::size_t n) {
  void* p = __libc_malloc(n);
  if (p != nullptr && vx::own::Counting()) vx::own::OnAlloc(p, n);
  return p;
}

void free(void* p) {
  if (p == nullptr) return;
  if (vx::own::g.enabled && vx::own::OnFree(p)) return;
  __libc_free(p);
}

void* calloc(std::size_t a, std::size_t b) {
  void* p = __libc_calloc(a, b);
  if (p != nullptr && vx::own::Counting()) vx::own::OnAlloc(p, a * b);
  return p;
}

void* realloc(void* old, std::size_t n) {
  if (old == nullptr) return malloc(n);
  if (n == 0) {
    free(old);
    return nullptr;
  }
  if (vx::own::g.enabled && !vx::own::g.busy) {
    vx::own::Node* node = vx::own::Find(old);
    if (node != nullptr) {  // a counted block: allocate-copy-free, so that the old block is quarantined like any other
      if (node->state != vx::own::kLive) {
        vx::own::OnFree(old);  // reports the double free
        return nullptr;
      }
      std::size_t keep = node->size < n ? node->size : n;
      void* p = malloc(n);
      if (p == nullptr) return nullptr;
      std::memcpy(p, old, keep);
      free(old);
      return p;
    }
  }
  void* p = __libc_realloc(old, n);
  if (p != nullptr && vx::own::Counting()) vx::own::OnAlloc(p, n);
  return p;
}

void* memalign(std::size_t al, std::size_t n) {
  void* p = __libc_memalign(al, n);
  if (p != nullptr && vx::own::Counting()) vx::own::OnAlloc(p, n);
  return p;
}

void* aligned_alloc(std::size_t al, std::size_t n) { return memalign(al, n); }

int posix_memalign(void** out, std::size_t al, std::size_t n) {
  if (al < sizeof(void*) || (al & (al - 1)) != 0) return EINVAL;
  void* p = memalign(al, n);
  if (p == nullptr) return ENOMEM;
  *out = p;
  return 0;
}

void* valloc(std::size_t n) { return memalign(static_cast<std::size_t>(sysconf(_SC_PAGESIZE)), n); }

void* pvalloc(std::size_t n) {
  auto page = static_cast<std::size_t>(sysconf(_SC_PAGESIZE));
  return memalign(page, (n + page - 1) / page * page);
}

}  // extern "C"
#  endif  // !VX_OWN_ASAN

#endif  // VX_OWN
